/-
  Parsing a serialised file header and volume header.
-/
import FianoModel.Uefi.Lemmas.ParseSec

namespace Fiano.Uefi
open Fiano Fiano.Uefi.Spec

theorem rd_cons_succ (x : UInt8) (s : Bytes) (n len : Nat) : rd (x :: s) (n + 1) len = rd s n len := by
  simp [rd, slice]

theorem rd_cons0 (x : UInt8) (s : Bytes) : rd (x :: s) 0 1 = x.toNat := by
  simp [rd, slice, fromLE]

theorem fileHdr_split (g : Guid) (ckh ckf : UInt8) (t a : Nat) (ext : Bool) (total st : Nat) (X : Bytes) :
    fileHdr g ckh ckf t a ext total st ++ X =
      g ++ ([ckh, ckf, byte t, byte a] ++ ((if ext then leN 3 0xFFFFFF else leN 3 total) ++
        ([byte st] ++ ((if ext then leN 8 total else []) ++ X)))) := by
  simp [fileHdr]

theorem fileHdr_reads (g : Guid) (ckh ckf : UInt8) (t a : Nat) (ext : Bool) (total st : Nat) (X : Bytes)
    (hg : g.length = 16) (ht : t < 256) (ha : a < 256) (hst : st < 256)
    (htot : if ext then total < 18446744073709551616 else total < 16777216) :
    let b := fileHdr g ckh ckf t a ext total st ++ X
    slice b 0 16 = g ∧ rd b 16 1 = ckh.toNat ∧ rd b 17 1 = ckf.toNat ∧ rd b 18 1 = t ∧ rd b 19 1 = a ∧
    rd b 20 3 = (if ext then 0xFFFFFF else total) ∧ rd b 23 1 = st ∧ (ext = true → rd b 24 8 = total) := by
  intro b
  have hb : b = g ++ ([ckh, ckf, byte t, byte a] ++ ((if ext then leN 3 0xFFFFFF else leN 3 total) ++
        ([byte st] ++ ((if ext then leN 8 total else []) ++ X)))) := fileHdr_split ..
  have hsz : (if ext then leN 3 0xFFFFFF else leN 3 total).length = 3 := by cases ext <;> simp
  refine ⟨?_, ?_, ?_, ?_, ?_, ?_, ?_, ?_⟩
  · rw [hb]; exact slice_prefix g _ 16 hg
  · rw [hb, show (16:Nat) = 16 + 0 from rfl, rd_append_skip _ _ 16 0 1 hg]; exact rd_cons0 _ _
  · rw [hb, show (17:Nat) = 16 + 1 from rfl, rd_append_skip _ _ 16 1 1 hg]
    simp only [List.cons_append, rd_cons_succ, rd_cons0]
  · rw [hb, show (18:Nat) = 16 + 2 from rfl, rd_append_skip _ _ 16 2 1 hg]
    simp only [List.cons_append, rd_cons_succ, rd_cons0, byte_toNat t ht]
  · rw [hb, show (19:Nat) = 16 + 3 from rfl, rd_append_skip _ _ 16 3 1 hg]
    simp only [List.cons_append, rd_cons_succ, rd_cons0, byte_toNat a ha]
  · rw [hb, show (20:Nat) = 16 + 4 from rfl, rd_append_skip _ _ 16 4 3 hg,
      show (4:Nat) = 4 + 0 from rfl, rd_append_skip _ _ 4 0 3 (by simp)]
    cases ext
    · simp only [Bool.false_eq_true, if_false] at htot ⊢
      exact rd_leN_prefix 3 total _ (by simpa using htot)
    · simp only [if_true]
      exact rd_leN_prefix 3 _ _ (by decide)
  · rw [hb, show (23:Nat) = 16 + 7 from rfl, rd_append_skip _ _ 16 7 1 hg,
      show (7:Nat) = 4 + 3 from rfl, rd_append_skip _ _ 4 3 1 (by simp),
      show (3:Nat) = 3 + 0 from rfl, rd_append_skip _ _ 3 0 1 hsz]
    simp only [List.cons_append, rd_cons0, byte_toNat st hst]
  · intro he
    subst he
    simp only [if_true] at htot hb hsz
    rw [hb, show (24:Nat) = 16 + 8 from rfl, rd_append_skip _ _ 16 8 8 hg,
      show (8:Nat) = 4 + 4 from rfl, rd_append_skip _ _ 4 4 8 (by simp),
      show (4:Nat) = 3 + 1 from rfl, rd_append_skip _ _ 3 1 8 (by simp)]
    simp only [List.cons_append, List.nil_append, rd_cons_succ]
    exact rd_leN_prefix 8 total _ (by simpa using htot)

/-- the header of a serialised file reads back -/
theorem fileHeader_ser (g : Guid) (ckh ckf : UInt8) (t a : Nat) (ext : Bool) (total st : Nat) (X : Bytes)
    (hg : g.length = 16) (ht : t < 256) (ha : a < 256) (hst : st < 256)
    (htot : if ext then total < 18446744073709551615 else total < 16777215)
    (hlen : total ≤ (fileHdr g ckh ckf t a ext total st ++ X).length) :
    fileHeader (fileHdr g ckh ckf t a ext total st ++ X) =
      .ok (some { guid := g, ckHeader := ckh.toNat, ckFile := ckf.toNat, type := t, attrs := a,
                  size3 := if ext then 0xFFFFFF else total, state := st, extSize := total,
                  dataOffset := if ext then 32 else 24 }) := by
  obtain ⟨r0, r16, r17, r18, r19, r20, r23, r24⟩ :=
    fileHdr_reads g ckh ckf t a ext total st X hg ht ha hst (by cases ext <;> simp_all <;> omega)
  have hl : (fileHdr g ckh ckf t a ext total st ++ X).length = (if ext then 32 else 24) + X.length := by
    simp [fileHdr_length _ _ _ _ _ _ _ _ hg]
  unfold fileHeader
  simp only [r0, r16, r17, r18, r19, r20, r23]
  cases ext
  · simp only [Bool.false_eq_true, if_false] at htot hl ⊢
    rw [if_neg (by omega), if_neg (by omega)]
    simp only []
    rw [if_neg (by omega)]
  · simp only [if_true] at htot hl ⊢
    have r24 := r24 rfl
    rw [if_neg (by omega), if_neg (by omega), r24, if_neg (by omega)]
    simp only []
    rw [if_neg (by omega)]

end Fiano.Uefi

namespace Fiano.Uefi
open Fiano Fiano.Uefi.Spec

theorem fvHeader_split (zv g : Bytes) (len attrs ck eho rsv rev : Nat) (blocks : List Block) (X : Bytes) :
    fvHeader zv g len attrs ck eho rsv rev blocks ++ X =
      zv ++ (g ++ (leN 8 len ++ (fvSigBytes ++ (leN 4 attrs ++ (leN 2 (fvHdrLen blocks) ++ (leN 2 ck ++
        (leN 2 eho ++ ([byte rsv, byte rev] ++ (encodeBlocks blocks ++ (zeros 8 ++ X)))))))))) := by
  simp [fvHeader]

theorem readBlocks_encode (blocks : List Block) (X : Bytes) (h : blocks.all blockOk = true) :
    readBlocks (encodeBlocks blocks ++ (zeros 8 ++ X)) = .ok blocks := by
  induction blocks with
  | nil => simp [encodeBlocks, zeros, readBlocks, fromLE, List.replicate]
  | cons b bs ih =>
    simp only [List.all_cons, Bool.and_eq_true] at h
    have ih := ih h.2
    have hb := h.1
    simp only [blockOk, Bool.and_eq_true, decide_eq_true_eq, Bool.not_eq_true', Bool.and_eq_false_iff,
      beq_eq_false_iff_ne, ne_eq] at hb
    obtain ⟨⟨hc, hs⟩, hnz⟩ := hb
    have e : encodeBlocks (b :: bs) ++ (zeros 8 ++ X) =
        leN 4 b.count ++ (leN 4 b.size ++ (encodeBlocks bs ++ (zeros 8 ++ X))) := by
      simp [encodeBlocks]
    rw [e]
    have e4 : ∀ n : Nat, leN 4 n = [UInt8.ofNat (n % 256), UInt8.ofNat (n / 256 % 256),
        UInt8.ofNat (n / 256 / 256 % 256), UInt8.ofNat (n / 256 / 256 / 256 % 256)] := by
      intro n; simp [leN]
    have f4 : ∀ n : Nat, n < 4294967296 → fromLE [UInt8.ofNat (n % 256), UInt8.ofNat (n / 256 % 256),
        UInt8.ofNat (n / 256 / 256 % 256), UInt8.ofNat (n / 256 / 256 / 256 % 256)] = n := by
      intro n hn
      have := fromLE_leN_of_lt 4 n (by simpa using hn)
      rwa [e4] at this
    rw [e4 b.count, e4 b.size]
    simp only [List.cons_append, List.nil_append, readBlocks, f4 b.count hc, f4 b.size hs, ih]
    rw [if_neg (by
      intro ⟨h1, h2⟩
      rcases hnz with h | h
      · exact h h1
      · exact h h2)]

theorem fvHeader_reads (zv g : Bytes) (len attrs ck eho rsv rev : Nat) (blocks : List Block) (X : Bytes)
    (hz : zv.length = 16) (hg : g.length = 16) (hlen : len < 18446744073709551616) (hat : attrs < 4294967296)
    (hh : fvHdrLen blocks < 65536) (hck : ck < 65536) (heho : eho < 65536) (hrsv : rsv < 256) (hrev : rev < 256) :
    let b := fvHeader zv g len attrs ck eho rsv rev blocks ++ X
    slice b 16 16 = g ∧ rd b 32 8 = len ∧ rd b 40 4 = 0x4856465F ∧ rd b 44 4 = attrs ∧
    rd b 48 2 = fvHdrLen blocks ∧ rd b 50 2 = ck ∧ rd b 52 2 = eho ∧ rd b 54 1 = rsv ∧ rd b 55 1 = rev ∧
    b.drop 56 = encodeBlocks blocks ++ (zeros 8 ++ X) := by
  intro b
  have hb : b = _ := fvHeader_split zv g len attrs ck eho rsv rev blocks X
  have hsig : fvSigBytes.length = 4 := rfl
  refine ⟨?_, ?_, ?_, ?_, ?_, ?_, ?_, ?_, ?_, ?_⟩
  · rw [hb, show (16:Nat) = 16 + 0 from rfl, slice_append_skip _ _ 16 0 16 hz]; exact slice_prefix g _ 16 hg
  · rw [hb, show (32:Nat) = 16 + 16 from rfl, rd_append_skip _ _ 16 16 8 hz,
      show (16:Nat) = 16 + 0 from rfl, rd_append_skip _ _ 16 0 8 hg]
    exact rd_leN_prefix 8 len _ (by simpa using hlen)
  · rw [hb, show (40:Nat) = 16 + 24 from rfl, rd_append_skip _ _ 16 24 4 hz,
      show (24:Nat) = 16 + 8 from rfl, rd_append_skip _ _ 16 8 4 hg,
      show (8:Nat) = 8 + 0 from rfl, rd_append_skip _ _ 8 0 4 (by simp)]
    rw [rd_prefix _ _ 4 hsig]; decide
  · rw [hb, show (44:Nat) = 16 + 28 from rfl, rd_append_skip _ _ 16 28 4 hz,
      show (28:Nat) = 16 + 12 from rfl, rd_append_skip _ _ 16 12 4 hg,
      show (12:Nat) = 8 + 4 from rfl, rd_append_skip _ _ 8 4 4 (by simp),
      show (4:Nat) = 4 + 0 from rfl, rd_append_skip _ _ 4 0 4 hsig]
    exact rd_leN_prefix 4 attrs _ (by simpa using hat)
  · rw [hb, show (48:Nat) = 16 + 32 from rfl, rd_append_skip _ _ 16 32 2 hz,
      show (32:Nat) = 16 + 16 from rfl, rd_append_skip _ _ 16 16 2 hg,
      show (16:Nat) = 8 + 8 from rfl, rd_append_skip _ _ 8 8 2 (by simp),
      show (8:Nat) = 4 + 4 from rfl, rd_append_skip _ _ 4 4 2 hsig,
      show (4:Nat) = 4 + 0 from rfl, rd_append_skip _ _ 4 0 2 (by simp)]
    exact rd_leN_prefix 2 _ _ (by simpa using hh)
  · rw [hb, show (50:Nat) = 16 + 34 from rfl, rd_append_skip _ _ 16 34 2 hz,
      show (34:Nat) = 16 + 18 from rfl, rd_append_skip _ _ 16 18 2 hg,
      show (18:Nat) = 8 + 10 from rfl, rd_append_skip _ _ 8 10 2 (by simp),
      show (10:Nat) = 4 + 6 from rfl, rd_append_skip _ _ 4 6 2 hsig,
      show (6:Nat) = 4 + 2 from rfl, rd_append_skip _ _ 4 2 2 (by simp),
      show (2:Nat) = 2 + 0 from rfl, rd_append_skip _ _ 2 0 2 (by simp)]
    exact rd_leN_prefix 2 ck _ (by simpa using hck)
  · rw [hb, show (52:Nat) = 16 + 36 from rfl, rd_append_skip _ _ 16 36 2 hz,
      show (36:Nat) = 16 + 20 from rfl, rd_append_skip _ _ 16 20 2 hg,
      show (20:Nat) = 8 + 12 from rfl, rd_append_skip _ _ 8 12 2 (by simp),
      show (12:Nat) = 4 + 8 from rfl, rd_append_skip _ _ 4 8 2 hsig,
      show (8:Nat) = 4 + 4 from rfl, rd_append_skip _ _ 4 4 2 (by simp),
      show (4:Nat) = 2 + 2 from rfl, rd_append_skip _ _ 2 2 2 (by simp),
      show (2:Nat) = 2 + 0 from rfl, rd_append_skip _ _ 2 0 2 (by simp)]
    exact rd_leN_prefix 2 eho _ (by simpa using heho)
  · rw [hb, show (54:Nat) = 16 + 38 from rfl, rd_append_skip _ _ 16 38 1 hz,
      show (38:Nat) = 16 + 22 from rfl, rd_append_skip _ _ 16 22 1 hg,
      show (22:Nat) = 8 + 14 from rfl, rd_append_skip _ _ 8 14 1 (by simp),
      show (14:Nat) = 4 + 10 from rfl, rd_append_skip _ _ 4 10 1 hsig,
      show (10:Nat) = 4 + 6 from rfl, rd_append_skip _ _ 4 6 1 (by simp),
      show (6:Nat) = 2 + 4 from rfl, rd_append_skip _ _ 2 4 1 (by simp),
      show (4:Nat) = 2 + 2 from rfl, rd_append_skip _ _ 2 2 1 (by simp),
      show (2:Nat) = 2 + 0 from rfl, rd_append_skip _ _ 2 0 1 (by simp)]
    simp only [List.cons_append, rd_cons0, byte_toNat rsv hrsv]
  · rw [hb, show (55:Nat) = 16 + 39 from rfl, rd_append_skip _ _ 16 39 1 hz,
      show (39:Nat) = 16 + 23 from rfl, rd_append_skip _ _ 16 23 1 hg,
      show (23:Nat) = 8 + 15 from rfl, rd_append_skip _ _ 8 15 1 (by simp),
      show (15:Nat) = 4 + 11 from rfl, rd_append_skip _ _ 4 11 1 hsig,
      show (11:Nat) = 4 + 7 from rfl, rd_append_skip _ _ 4 7 1 (by simp),
      show (7:Nat) = 2 + 5 from rfl, rd_append_skip _ _ 2 5 1 (by simp),
      show (5:Nat) = 2 + 3 from rfl, rd_append_skip _ _ 2 3 1 (by simp),
      show (3:Nat) = 2 + 1 from rfl, rd_append_skip _ _ 2 1 1 (by simp)]
    simp only [List.cons_append, rd_cons_succ, rd_cons0, byte_toNat rev hrev]
  · rw [hb, show (56:Nat) = 16 + 40 from rfl, drop_append_add _ _ 16 40 hz,
      show (40:Nat) = 16 + 24 from rfl, drop_append_add _ _ 16 24 hg,
      show (24:Nat) = 8 + 16 from rfl, drop_append_add _ _ 8 16 (by simp),
      show (16:Nat) = 4 + 12 from rfl, drop_append_add _ _ 4 12 hsig,
      show (12:Nat) = 4 + 8 from rfl, drop_append_add _ _ 4 8 (by simp),
      show (8:Nat) = 2 + 6 from rfl, drop_append_add _ _ 2 6 (by simp),
      show (6:Nat) = 2 + 4 from rfl, drop_append_add _ _ 2 4 (by simp),
      show (4:Nat) = 2 + 2 from rfl, drop_append_add _ _ 2 2 (by simp)]
    simp

end Fiano.Uefi

namespace Fiano.Uefi
open Fiano Fiano.Uefi.Spec

theorem ext_reads (H gap name data Z : Bytes) (hl : Nat) (hH : H.length = hl) (hn : name.length = 16)
    (hd : 20 + data.length < 4294967296) :
    slice (H ++ (gap ++ (name ++ (leN 4 (20 + data.length) ++ Z)))) (hl + gap.length) 16 = name ∧
    rd (H ++ (gap ++ (name ++ (leN 4 (20 + data.length) ++ Z)))) (hl + gap.length + 16) 4 = 20 + data.length := by
  constructor
  · rw [slice_append_skip _ _ hl _ 16 hH]
    have := slice_append_skip gap (name ++ (leN 4 (20 + data.length) ++ Z)) gap.length 0 16 rfl
    simp only [Nat.add_zero] at this
    rw [this]
    exact slice_prefix _ _ 16 hn
  · rw [Nat.add_assoc, rd_append_skip _ _ hl _ 4 hH, rd_append_skip _ _ _ 16 4 rfl,
      show (16:Nat) = 16 + 0 from rfl, rd_append_skip _ _ 16 0 4 hn]
    exact rd_leN_prefix 4 _ _ (by simpa using hd)

theorem fvHdrLen_align (blocks : List Block) (h : fvHdrLen blocks < 65536) :
    align8 (fvHdrLen blocks) = fvHdrLen blocks := by
  rw [align8_eq _ (by omega)]
  unfold alignUp fvHdrLen
  omega

theorem ck_lt (x : UInt16) : x.toNat < 65536 := x.toNat_lt

/-- what `fvInfoOf` decodes from a serialised FFS volume -/
theorem fvInfoOf_ffs (zv : Bytes) (v3 : Bool) (attrs rev rsv : Nat) (blocks : List Block) (ext : Option ExtI)
    (files : List FileI) (free : Nat) (rest : Bytes) (off : Nat) (rz : Bool)
    (w : WfFfs zv v3 attrs rev rsv blocks ext files free) :
    fvInfoOf (serFv (.ffs zv v3 attrs rev rsv blocks ext files free) ++ rest) blocks off rz =
      { (treeFv (.ffs zv v3 attrs rev rsv blocks ext files free) off rz).info with freeSpace := 0 } := by
  have hgl := guid_v3_length v3
  have heho : ehoOf blocks ext < 65536 := by
    cases ext with
    | none => simp [ehoOf]
    | some e => exact (w.hext e rfl).2.1
  have e1 : serFv (.ffs zv v3 attrs rev rsv blocks ext files free) ++ rest =
      fvHeader zv (if v3 then guidFFS3 else guidFFS2) (endFiles (preLen blocks ext) files + free) attrs
        (0 - sum16 (fvHeader zv (if v3 then guidFFS3 else guidFFS2) (endFiles (preLen blocks ext) files + free)
          attrs 0 (ehoOf blocks ext) rsv rev blocks)).toNat (ehoOf blocks ext) rsv rev blocks ++
      (preBytes blocks ext ++ (serFiles (preLen blocks ext) files ++ (ffs free ++ rest))) := by
    simp [serFv, fvHeaderCk]
  obtain ⟨rg, rlen, rsig, rat, rhl, rck, reho, rrsv, rrev, _⟩ :=
    fvHeader_reads zv (if v3 then guidFFS3 else guidFFS2) (endFiles (preLen blocks ext) files + free) attrs
      (0 - sum16 (fvHeader zv (if v3 then guidFFS3 else guidFFS2) (endFiles (preLen blocks ext) files + free)
          attrs 0 (ehoOf blocks ext) rsv rev blocks)).toNat (ehoOf blocks ext) rsv rev blocks
      (preBytes blocks ext ++ (serFiles (preLen blocks ext) files ++ (ffs free ++ rest)))
      w.hzv hgl (by have := w.hlenlt; omega) w.hattrs w.hhdr (ck_lt _) heho w.hrsv w.hrev
  rw [e1]
  unfold fvInfoOf
  simp only [rg, rlen, rsig, rat, rhl, rck, reho, rrsv, rrev, treeFv, Fv.info]
  cases ext with
  | none =>
    simp only [ehoOf, ne_eq, not_true_eq_false, false_and, decide_false, Bool.false_eq_true, if_false,
      fvHdrLen_align blocks w.hhdr, preLen, Option.map_none, Option.getD_none]
  | some e =>
    obtain ⟨hn, he, hd, hl⟩ := w.hext e rfl
    have hH := fvHeader_length zv (if v3 then guidFFS3 else guidFFS2) (endFiles (preLen blocks (some e)) files + free)
      attrs (0 - sum16 (fvHeader zv (if v3 then guidFFS3 else guidFFS2)
        (endFiles (preLen blocks (some e)) files + free) attrs 0 (ehoOf blocks (some e)) rsv rev blocks)).toNat
      (ehoOf blocks (some e)) rsv rev blocks w.hzv hgl
    have hcond : (ehoOf blocks (some e) ≠ 0 ∧ endFiles (preLen blocks (some e)) files + free ≥ 20 ∧
        ehoOf blocks (some e) ≤ endFiles (preLen blocks (some e)) files + free - 20) := by
      refine ⟨?_, ?_, ?_⟩
      · simp only [ehoOf, fvHdrLen]; omega
      · omega
      · omega
    have ep : preBytes blocks (some e) ++ (serFiles (preLen blocks (some e)) files ++ (ffs free ++ rest)) =
        e.gap ++ (e.fvName ++ (leN 4 (20 + e.data.length) ++ (e.data ++
          (ffs (alignUp (fvHdrLen blocks + e.gap.length + 20 + e.data.length) 8 -
            (fvHdrLen blocks + e.gap.length + 20 + e.data.length)) ++
          (serFiles (preLen blocks (some e)) files ++ (ffs free ++ rest)))))) := by
      simp [preBytes]
    have hx : decide (ehoOf blocks (some e) ≠ 0 ∧ endFiles (preLen blocks (some e)) files + free ≥ 20 ∧
        ehoOf blocks (some e) ≤ endFiles (preLen blocks (some e)) files + free - 20) = true := by
      simp only [decide_eq_true_eq]; exact hcond
    have hbound : fvHdrLen blocks + e.gap.length + (20 + e.data.length) < 2 ^ 63 := by
      have : ehoOf blocks (some e) = fvHdrLen blocks + e.gap.length := rfl
      omega
    rw [ep]
    simp only [hx, if_true, Option.map_some, Option.getD_some]
    simp only [ehoOf] at hH ⊢
    obtain ⟨rname, rehs⟩ := ext_reads _ e.gap e.fvName e.data
      (e.data ++ (ffs (alignUp (fvHdrLen blocks + e.gap.length + 20 + e.data.length) 8 -
            (fvHdrLen blocks + e.gap.length + 20 + e.data.length)) ++
          (serFiles (preLen blocks (some e)) files ++ (ffs free ++ rest)))) (fvHdrLen blocks) hH hn hd
    rw [rname, rehs]
    have hal : align8 (fvHdrLen blocks + e.gap.length + (20 + e.data.length)) = preLen blocks (some e) := by
      rw [align8_eq _ hbound]
      simp only [preLen]
      congr 1
      clear hH hx rname rehs
      omega
    rw [hal]

end Fiano.Uefi

namespace Fiano.Uefi
open Fiano Fiano.Uefi.Spec

/-- what `fvInfoOf` decodes from a serialised volume of another file system -/
theorem fvInfoOf_other (zv g : Bytes) (attrs rev rsv : Nat) (blocks : List Block) (body rest : Bytes)
    (off : Nat) (rz : Bool) (w : WfOther zv g attrs rev rsv blocks body) :
    fvInfoOf (serFv (.other zv g attrs rev rsv blocks body) ++ rest) blocks off rz =
      (treeFv (.other zv g attrs rev rsv blocks body) off rz).info := by
  have e1 : serFv (.other zv g attrs rev rsv blocks body) ++ rest =
      fvHeader zv g (fvHdrLen blocks + body.length) attrs
        (0 - sum16 (fvHeader zv g (fvHdrLen blocks + body.length) attrs 0 0 rsv rev blocks)).toNat 0 rsv rev blocks ++
      (body ++ rest) := by
    simp [serFv, fvHeaderCk]
  obtain ⟨rg, rlen, rsig, rat, rhl, rck, reho, rrsv, rrev, _⟩ :=
    fvHeader_reads zv g (fvHdrLen blocks + body.length) attrs
      (0 - sum16 (fvHeader zv g (fvHdrLen blocks + body.length) attrs 0 0 rsv rev blocks)).toNat 0 rsv rev blocks
      (body ++ rest) w.hzv w.hg (by have := w.hlenlt; omega) w.hattrs w.hhdr (ck_lt _) (by decide) w.hrsv w.hrev
  rw [e1]
  unfold fvInfoOf
  simp only [rg, rlen, rsig, rat, rhl, rck, reho, rrsv, rrev, treeFv, Fv.info]
  simp only [ne_eq, not_true_eq_false, false_and, decide_false, Bool.false_eq_true, if_false,
    fvHdrLen_align blocks w.hhdr]

theorem rd_append_left (a b : Bytes) (off len : Nat) (h : off + len ≤ a.length) :
    rd (a ++ b) off len = rd a off len := by
  unfold rd slice
  rw [List.drop_append_of_le_length (by omega), List.take_append_of_le_length (by simp; omega)]

/-- an erased header is the start of free space -/
theorem fileHeader_ffs (n : Nat) (h : 32 ≤ n) : fileHeader (ffs n) = .ok none := by
  have e : ffs n = ffs 32 ++ ffs (n - 32) := by
    unfold ffs; rw [List.replicate_append_replicate]; congr 1; omega
  have r20 : rd (ffs n) 20 3 = 0xFFFFFF := by
    rw [e, rd_append_left _ _ 20 3 (by simp [ffs])]; decide
  have r24 : rd (ffs n) 24 8 = 0xFFFFFFFFFFFFFFFF := by
    rw [e, rd_append_left _ _ 24 8 (by simp [ffs])]; decide
  have hl : (ffs n).length = n := by simp [ffs]
  unfold fileHeader
  simp only [r20, r24, hl]
  rw [if_neg (by omega)]
  simp only [if_true]
  rw [if_neg (by omega)]

/-- … also when fewer than 8 bytes follow the erased 24-byte header (repaired reader, fix 8039e86) -/
theorem fileHeader_ffs24 (n : Nat) (h : 24 ≤ n) : fileHeader (ffs n) = .ok none := by
  by_cases h32 : 32 ≤ n
  · exact fileHeader_ffs n h32
  have e : ffs n = ffs 24 ++ ffs (n - 24) := by
    unfold ffs; rw [List.replicate_append_replicate]; congr 1; omega
  have r20 : rd (ffs n) 20 3 = 0xFFFFFF := by
    rw [e, rd_append_left _ _ 20 3 (by simp [ffs])]; decide
  have hl : (ffs n).length = n := by simp [ffs]
  have ht : ((ffs n).take 24).all (· == 0xFF) = true := by
    simp [ffs, List.take_replicate]
  unfold fileHeader
  simp only [r20, hl, ht]
  rw [if_neg (by omega)]
  simp only [if_true]
  rw [if_pos (by omega)]

end Fiano.Uefi
