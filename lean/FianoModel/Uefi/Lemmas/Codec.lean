/-
  Round trips of the small codecs: UTF-16 (UI / version strings) and dependency expressions.
-/
import FianoModel.Uefi.Lemmas.Bytes

namespace Fiano.Uefi
open Fiano

/-! ### UTF-16 -/

theorem toUnits_leN2 (x : Nat) (rest : Bytes) (h : x < 65536) :
    toUnits (leN 2 x ++ rest) = x :: toUnits rest := by
  simp only [leN, List.cons_append, List.nil_append, toUnits]
  congr 1
  simp [UInt8.toNat_ofNat']
  omega

theorem decUnits_plain (r : Nat) (us : List Nat) (hs : isSurr r = false) (h : r ≠ 0x110000) :
    decUnits (r :: us) = r :: decUnits us := by
  rw [decUnits.eq_def]
  simp only [hs]
  simp [h]

theorem decUnits_pair (x y : Nat) (us : List Nat) (hs : isSurr x = true) (hl : isLowSurr y = true)
    (h : x < 0xDC00) :
    decUnits (x :: y :: us) = ((x - 0xD800) * 1024 + (y - 0xDC00) + 0x10000) :: decUnits us := by
  rw [decUnits.eq_def]
  simp only [hs, hl, if_true, h]

theorem utf16EncOne_even (r : Nat) : (utf16EncOne r).length % 2 = 0 := by
  unfold utf16EncOne
  split
  · simp
  · split <;> simp

theorem dec_enc_units (l : List Nat) (h : l.all Spec.isScalar = true) :
    decUnits (toUnits (utf16Enc l)) = l := by
  induction l with
  | nil => simp [utf16Enc, toUnits, decUnits]
  | cons r rs ih =>
    simp only [List.all_cons, Bool.and_eq_true] at h
    have ih := ih h.2
    have hr := h.1
    simp only [Spec.isScalar, Bool.and_eq_true, decide_eq_true_eq, Bool.not_eq_true', Bool.and_eq_false_iff,
      decide_eq_false_iff_not] at hr
    simp only [utf16Enc, utf16EncOne]
    by_cases h1 : r ≤ 0xFFFF
    · rw [if_pos h1, toUnits_leN2 r _ (by omega)]
      have hs : isSurr r = false := by
        simp only [isSurr, Bool.and_eq_false_iff, decide_eq_false_iff_not]; omega
      rw [decUnits_plain r _ hs (by omega), ih]
    · rw [if_neg h1, if_pos (by omega : r ≤ 0x10FFFF), List.append_assoc,
        toUnits_leN2 _ _ (by omega), toUnits_leN2 _ _ (by omega)]
      have hs : isSurr (0xD800 + (r - 0x10000) / 1024 % 1024) = true := by
        simp only [isSurr, Bool.and_eq_true, decide_eq_true_eq]; omega
      have hl : isLowSurr (0xDC00 + (r - 0x10000) % 1024) = true := by
        simp only [isLowSurr, Bool.and_eq_true, decide_eq_true_eq]; omega
      rw [decUnits_pair _ _ _ hs hl (by omega), ih]
      have e : (0xD800 + (r - 0x10000) / 1024 % 1024 - 0xD800) * 1024 +
          (0xDC00 + (r - 0x10000) % 1024 - 0xDC00) + 0x10000 = r := by omega
      rw [e]

theorem stripNul_append_zero (l : List Nat) : stripNul (l ++ [0]) = l := by
  simp [stripNul]

/-- `UCS2ToUTF8 ∘ UTF8ToUCS2 = id` on strings of Unicode scalar values -/
theorem ucs2_roundtrip (name : List Nat) (h : name.all Spec.isScalar = true) :
    ucs2ToUtf8 (utf8ToUcs2 name) = name := by
  unfold ucs2ToUtf8 utf8ToUcs2 utf16Dec
  rw [dec_enc_units (name ++ [0]) (by rw [List.all_append, h]; decide), stripNul_append_zero]

theorem utf8ToUcs2_ne_nil (name : List Nat) : 0 < (utf8ToUcs2 name).length := by
  unfold utf8ToUcs2
  induction name with
  | nil => simp [utf16Enc, utf16EncOne]
  | cons r rs ih => simp only [List.cons_append, utf16Enc, List.length_append]; omega

/-! ### dependency expressions -/

theorem encodeOps_length (ops : List DepOp) (h : ∀ d ∈ ops, ∀ g, d.guid = some g → g.length = 16) :
    (Spec.encodeOps ops).length = Spec.opsSize ops := by
  induction ops with
  | nil => rfl
  | cons d ds ih =>
    have ih := ih (fun d' hd' => h d' (List.mem_cons_of_mem _ hd'))
    simp only [Spec.encodeOps, Spec.opsSize, List.length_cons, List.length_append, ih]
    cases hg : d.guid with
    | none => simp
    | some g => simp [h d (List.mem_cons_self) g hg]

theorem wfOps_guid (ops : List DepOp) (h : Spec.wfOps ops = true) :
    ∀ d ∈ ops, ∀ g, d.guid = some g → g.length = 16 := by
  induction ops with
  | nil => simp
  | cons d ds ih =>
    intro d' hd' g hg
    cases ds with
    | nil =>
      simp only [Spec.wfOps, Bool.and_eq_true] at h
      simp only [List.mem_singleton] at hd'
      subst hd'
      rw [hg] at h; simp at h
    | cons e es =>
      simp only [Spec.wfOps, Bool.and_eq_true] at h
      rcases List.mem_cons.mp hd' with rfl | hm
      · rw [hg] at h; simp at h; exact h.1.2.2
      · exact ih h.2 d' hm g hg

theorem parse_encodeOps (ops : List DepOp) (h : Spec.wfOps ops = true) :
    ∀ fuel, ops.length ≤ fuel → parseDepExAux fuel (Spec.encodeOps ops) = some ops := by
  induction ops with
  | nil => simp [Spec.wfOps] at h
  | cons d ds ih =>
    intro fuel hf
    cases fuel with
    | zero => simp at hf
    | succ fuel =>
      cases ds with
      | nil =>
        simp only [Spec.wfOps, Bool.and_eq_true, beq_iff_eq, Option.isNone_iff_eq_none] at h
        obtain ⟨h8, hg⟩ := h
        have : d = ⟨8, none⟩ := by cases d; simp_all
        subst this
        simp [Spec.encodeOps, parseDepExAux, byte, depHasGuid, depEnd]
      | cons e es =>
        simp only [Spec.wfOps, Bool.and_eq_true, decide_eq_true_eq, bne_iff_ne] at h
        obtain ⟨⟨⟨h9, h8⟩, hg⟩, hrest⟩ := h
        have ih := ih hrest fuel (by simp at hf ⊢; omega)
        have hb : (byte d.op).toNat = d.op := byte_toNat _ (by omega)
        cases hgd : d.guid with
        | some g =>
          rw [hgd] at hg
          simp only [Bool.and_eq_true, beq_iff_eq] at hg
          have hdg : depHasGuid d.op = true := hg.1
          have hl : g.length = 16 := hg.2
          have : d = ⟨d.op, some g⟩ := by cases d; simp_all
          have e1 : Spec.encodeOps (d :: e :: es) = byte d.op :: (g ++ Spec.encodeOps (e :: es)) := by
            simp [Spec.encodeOps, hgd]
          rw [e1]
          simp only [parseDepExAux, hb, h9, if_true, hdg, List.length_append, hl]
          rw [if_neg (by omega), drop_append_len _ _ 16 hl, ih, take_append_len _ _ 16 hl]
          simp; rw [← this]
        | none =>
          rw [hgd] at hg
          simp only [Bool.not_eq_true'] at hg
          have : d = ⟨d.op, none⟩ := by cases d; simp_all
          have e1 : Spec.encodeOps (d :: e :: es) = byte d.op :: Spec.encodeOps (e :: es) := by
            simp [Spec.encodeOps, hgd]
          rw [e1]
          simp only [parseDepExAux, hb, h9, if_true, hg, Bool.false_eq_true, if_false, depEnd]
          rw [if_neg h8, ih]
          simp; rw [← this]

theorem parseDepEx_encodeOps (ops : List DepOp) (h : Spec.wfOps ops = true) :
    parseDepEx (Spec.encodeOps ops) = some ops := by
  unfold parseDepEx
  apply parse_encodeOps ops h
  rw [encodeOps_length ops (wfOps_guid ops h)]
  clear h
  induction ops with
  | nil => simp
  | cons d ds ih => simp only [Spec.opsSize, List.length_cons]; split <;> omega

/-- the writer's depex encoder produces what the grammar prescribes -/
theorem encodeDepEx_eq (ops : List DepOp) (h : Spec.wfOps ops = true) :
    encodeDepEx ops = some (Spec.encodeOps ops) := by
  induction ops with
  | nil => simp [Spec.wfOps] at h
  | cons d ds ih =>
    cases ds with
    | nil =>
      simp only [Spec.wfOps, Bool.and_eq_true, beq_iff_eq, Option.isNone_iff_eq_none] at h
      obtain ⟨h8, hg⟩ := h
      simp [encodeDepEx, Spec.encodeOps, h8, hg, depHasGuid]
    | cons e es =>
      simp only [Spec.wfOps, Bool.and_eq_true, decide_eq_true_eq, bne_iff_ne] at h
      obtain ⟨⟨⟨h9, h8⟩, hg⟩, hrest⟩ := h
      have ih := ih hrest
      rw [encodeDepEx, if_pos h9, ih]
      cases hgd : d.guid with
      | some g =>
        rw [hgd] at hg
        simp only [Bool.and_eq_true, beq_iff_eq] at hg
        rw [hg.1]
        simp [Spec.encodeOps, hgd]
      | none =>
        rw [hgd] at hg
        simp only [Bool.not_eq_true'] at hg
        rw [hg]
        simp [Spec.encodeOps, hgd]

end Fiano.Uefi
