/-
  Parsing a serialised section header / the non-recursive section kinds.
-/
import FianoModel.Uefi.Lemmas.Size

namespace Fiano.Uefi
open Fiano Fiano.Uefi.Spec

theorem secHdr_rd (t : Nat) (ext : Bool) (total : Nat) (X : Bytes) (ht : t < 256)
    (htot : if ext then total < 4294967296 else total < 16777216) :
    rd (secHdr t ext total ++ X) 0 3 = (if ext then 0xFFFFFF else total) ∧
    rd (secHdr t ext total ++ X) 3 1 = t ∧
    (ext = true → rd (secHdr t ext total ++ X) 4 4 = total) := by
  cases ext
  · simp only [Bool.false_eq_true, if_false] at htot
    simp only [secHdr, Bool.false_eq_true, if_false]
    refine ⟨?_, ?_, by simp⟩
    · rw [List.append_assoc, rd_leN_prefix 3 total _ (by simpa using htot)]
    · rw [List.append_assoc, show (3:Nat) = 3 + 0 from rfl, rd_append_skip _ _ 3 0 1 (leN_length 3 total)]
      exact rd_byte_prefix t _ ht
  · simp only [if_true] at htot
    simp only [secHdr, if_true]
    refine ⟨?_, ?_, fun _ => ?_⟩
    · rw [List.append_assoc, List.append_assoc, rd_leN_prefix 3 _ _ (by decide)]
    · rw [List.append_assoc, List.append_assoc, show (3:Nat) = 3 + 0 from rfl,
        rd_append_skip _ _ 3 0 1 (leN_length 3 _)]
      exact rd_byte_prefix t _ ht
    · rw [show (4:Nat) = 4 + 0 from rfl, List.append_assoc, rd_append_skip _ _ 4 0 4 (by simp)]
      exact rd_leN_prefix 4 total _ (by simpa using htot)

/-- the header of a serialised section reads back -/
theorem secHeader_ser (t : Nat) (ext : Bool) (total : Nat) (X : Bytes) (ht : t < 256)
    (hk : ext = true → knownSection t = true)
    (hsz : secSizeOk ext total = true) (hlen : total ≤ (secHdr t ext total ++ X).length)
    (h8 : secHdrLen ext ≤ total) :
    secHeader (secHdr t ext total ++ X) = .ok ((if ext then 0xFFFFFF else total), t, total, secHdrLen ext) := by
  have hsz' : if ext then total < 4294967295 else total < 16777215 := by
    cases ext <;> simpa [secSizeOk] using hsz
  obtain ⟨r0, r3, r4⟩ := secHdr_rd t ext total X ht (by cases ext <;> simp_all <;> omega)
  have hl : (secHdr t ext total ++ X).length = secHdrLen ext + X.length := by
    simp [secHdr_length]
  unfold secHeader
  simp only [r0, r3]
  cases ext
  · simp only [Bool.false_eq_true, if_false] at hsz' ⊢
    simp only [secHdrLen, Bool.false_eq_true, if_false] at hl h8
    rw [if_neg (by omega)]
    by_cases hkn : knownSection t = true
    · simp only [hkn, if_true]
      rw [if_neg (by omega)]
      simp only []
      rw [if_neg (by omega)]
      simp [secHdrLen]
    · simp only [hkn, Bool.false_eq_true, if_false]
      rw [Nat.min_eq_left hlen, if_neg (by omega)]
      simp [secHdrLen]
  · simp only [if_true] at hsz' ⊢
    simp only [secHdrLen, if_true] at hl h8
    have r4 := r4 rfl
    rw [if_neg (by omega)]
    simp only [hk rfl, if_true, r4]
    rw [if_neg (by omega), if_neg (by omega)]
    simp only []
    rw [if_neg (by omega)]
    simp [secHdrLen]

end Fiano.Uefi

namespace Fiano.Uefi
open Fiano Fiano.Uefi.Spec

theorem take_left_len {α} (a b : List α) (n : Nat) (h : a.length = n) : (a ++ b).take n = a :=
  take_append_len a b n h

/-- leaf sections: kept verbatim -/
theorem parseSection_leaf (t : Nat) (ext : Bool) (body rest : Bytes) (fuel ord : Nat) (st : St)
    (h : wfSec (.leaf t ext body) = true) :
    parseSection Hooks.none (fuel + 1) (serSec (.leaf t ext body) ++ rest) ord st =
      .ok (treeSec (.leaf t ext body) ord, st) := by
  simp only [wfSec, Bool.and_eq_true, Bool.or_eq_true, Bool.not_eq_true'] at h
  obtain ⟨⟨hleaf, hk⟩, hsz⟩ := h
  simp only [leafSecType, Bool.and_eq_true, decide_eq_true_eq, bne_iff_ne, ne_eq, Bool.not_eq_true'] at hleaf
  obtain ⟨⟨⟨⟨⟨ht, h2⟩, h14⟩, h15⟩, h17⟩, hdep⟩ := hleaf
  have hlen : (serSec (.leaf t ext body)).length = secHdrLen ext + body.length := by
    simp [serSec, secHdr_length]
  have hh := secHeader_ser t ext (secHdrLen ext + body.length) (body ++ rest) ht
    (by intro he; rcases hk with hk | hk <;> simp_all) hsz
    (by simp [secHdr_length]) (by omega)
  have e : serSec (.leaf t ext body) ++ rest = secHdr t ext (secHdrLen ext + body.length) ++ (body ++ rest) := by
    simp [serSec]
  rw [e, parseSection, hh]
  simp only [h2, h14, h15, h17, hdep, if_false, Bool.false_eq_true]
  rw [← e, take_left_len _ _ _ hlen]
  rfl

end Fiano.Uefi

namespace Fiano.Uefi
open Fiano Fiano.Uefi.Spec

/-- is the canonical header around `n` payload bytes the extended one? -/
def canonExt (n : Nat) : Bool := decide (n + 4 ≥ 0xFFFFFF)

theorem canonSec_eq (t : Nat) (body : Bytes) :
    canonSec t body = secHdr t (canonExt body.length) (secHdrLen (canonExt body.length) + body.length) ++ body := by
  unfold canonSec canonExt
  by_cases h : body.length + 4 ≥ 0xFFFFFF
  · simp [h, secHdrLen, Nat.add_comm]
  · simp [h, secHdrLen, Nat.add_comm]

theorem canonInfo_eq (t n ord : Nat) :
    canonInfo t n ord = secInfoOf t (canonExt n) (secHdrLen (canonExt n) + n) ord := by
  unfold canonInfo canonExt
  by_cases h : n + 4 ≥ 0xFFFFFF
  · simp [h, secHdrLen, Nat.add_comm]
  · simp [h, secHdrLen, Nat.add_comm]

theorem canonSecSize_eq (n : Nat) : canonSecSize n = secHdrLen (canonExt n) + n := by
  unfold canonSecSize canonExt
  by_cases h : n + 4 ≥ 0xFFFFFF
  · simp [h, secHdrLen]; omega
  · simp [h, secHdrLen]; omega

theorem secSizeOk_canon (n : Nat) (h : n + 8 < 0xFFFFFFFF) :
    secSizeOk (canonExt n) (secHdrLen (canonExt n) + n) = true := by
  unfold secSizeOk canonExt secHdrLen
  by_cases h' : n + 4 ≥ 0xFFFFFF
  · simp [h']; omega
  · simp [h']; omega

/-- header of a canonical section of a known type -/
theorem secHeader_canon (t : Nat) (body X : Bytes) (ht : t < 256) (hk : knownSection t = true)
    (hsz : body.length + 8 < 0xFFFFFFFF) :
    secHeader (canonSec t body ++ X) =
      .ok ((if canonExt body.length then 0xFFFFFF else secHdrLen (canonExt body.length) + body.length), t,
           secHdrLen (canonExt body.length) + body.length, secHdrLen (canonExt body.length)) := by
  rw [canonSec_eq, List.append_assoc]
  exact secHeader_ser t _ _ _ ht (fun _ => hk) (secSizeOk_canon _ hsz) (by simp [secHdr_length]) (by omega)

theorem canon_take (t : Nat) (body X : Bytes) :
    (canonSec t body ++ X).take (secHdrLen (canonExt body.length) + body.length) = canonSec t body := by
  apply take_left_len
  rw [canonSec_length, canonSecSize_eq]

theorem canon_drop (t : Nat) (body : Bytes) :
    (canonSec t body).drop (secHdrLen (canonExt body.length)) = body := by
  rw [canonSec_eq]
  exact drop_append_len _ _ _ (secHdr_length _ _ _)

theorem parseSection_ui (name : List Nat) (rest : Bytes) (fuel ord : Nat) (st : St)
    (h : wfSec (.ui name) = true) :
    parseSection Hooks.none (fuel + 1) (serSec (.ui name) ++ rest) ord st = .ok (treeSec (.ui name) ord, st) := by
  simp only [wfSec, Bool.and_eq_true, decide_eq_true_eq] at h
  have hh := secHeader_canon 0x15 (utf8ToUcs2 name) rest (by decide) (by decide) h.2
  have hpos := utf8ToUcs2_ne_nil name
  simp only [serSec, treeSec]
  rw [parseSection, hh]
  simp only [show (0x15 : Nat) ≠ 0x02 by decide, if_false, if_true]
  rw [canon_take, canon_drop, canonSec_length, canonSecSize_eq, if_neg (by omega), ucs2_roundtrip name h.1,
    canonInfo_eq]
  rfl

theorem rd_canon_body (t : Nat) (body : Bytes) (off len : Nat) :
    rd (canonSec t body) (secHdrLen (canonExt body.length) + off) len = rd body off len := by
  rw [canonSec_eq]
  exact rd_append_skip _ _ _ off len (secHdr_length _ _ _)

theorem parseSection_version (build : Nat) (ver : List Nat) (rest : Bytes) (fuel ord : Nat) (st : St)
    (h : wfSec (.version build ver) = true) :
    parseSection Hooks.none (fuel + 1) (serSec (.version build ver) ++ rest) ord st =
      .ok (treeSec (.version build ver) ord, st) := by
  simp only [wfSec, Bool.and_eq_true, decide_eq_true_eq] at h
  obtain ⟨⟨hb, hv⟩, hsz⟩ := h
  have hl : (leN 2 build ++ utf8ToUcs2 ver).length = 2 + (utf8ToUcs2 ver).length := by simp
  have hh := secHeader_canon 0x14 (leN 2 build ++ utf8ToUcs2 ver) rest (by decide) (by decide) (by rw [hl]; omega)
  have hpos := utf8ToUcs2_ne_nil ver
  simp only [serSec, treeSec]
  rw [parseSection, hh]
  simp only [show (0x14 : Nat) ≠ 0x02 by decide, show (0x14 : Nat) ≠ 0x15 by decide, if_false, if_true]
  rw [canon_take, canonSec_length, canonSecSize_eq, if_neg (by rw [hl]; omega)]
  have e1 : (canonSec 0x14 (leN 2 build ++ utf8ToUcs2 ver)).drop
      (secHdrLen (canonExt (leN 2 build ++ utf8ToUcs2 ver).length) + 2) = utf8ToUcs2 ver := by
    rw [← List.drop_drop, canon_drop]
    exact drop_append_len _ _ 2 (leN_length 2 build)
  have e2 : rd (canonSec 0x14 (leN 2 build ++ utf8ToUcs2 ver))
      (secHdrLen (canonExt (leN 2 build ++ utf8ToUcs2 ver).length)) 2 = build := by
    have := rd_canon_body 0x14 (leN 2 build ++ utf8ToUcs2 ver) 0 2
    rw [Nat.add_zero] at this
    rw [this]
    exact rd_leN_prefix 2 build _ (by simpa using hb)
  rw [e1, e2, ucs2_roundtrip ver hv, canonInfo_eq, hl]
  rfl

theorem isDepex_types (t : Nat) (h : isDepexType t = true) :
    t < 256 ∧ knownSection t = true ∧ t ≠ 0x02 ∧ t ≠ 0x15 ∧ t ≠ 0x14 ∧ t ≠ 0x17 := by
  simp only [isDepexType, Bool.or_eq_true, beq_iff_eq] at h
  rcases h with (h | h) | h <;> subst h <;> decide

theorem parseSection_depex (t : Nat) (ops : List DepOp) (rest : Bytes) (fuel ord : Nat) (st : St)
    (h : wfSec (.depex t ops) = true) :
    parseSection Hooks.none (fuel + 1) (serSec (.depex t ops) ++ rest) ord st =
      .ok (treeSec (.depex t ops) ord, st) := by
  simp only [wfSec, Bool.and_eq_true, decide_eq_true_eq] at h
  obtain ⟨⟨hd, hops⟩, hsz⟩ := h
  obtain ⟨ht, hk, h2, h15, h14, h17⟩ := isDepex_types t hd
  have hl := encodeOps_length ops (wfOps_guid ops hops)
  have hh := secHeader_canon t (encodeOps ops) rest ht hk (by rw [hl]; omega)
  have hpos : 0 < opsSize ops := by
    cases ops with
    | nil => simp [wfOps] at hops
    | cons d ds => simp only [opsSize]; split <;> omega
  simp only [serSec, treeSec]
  rw [parseSection, hh]
  simp only [h2, h15, h14, h17, hd, if_false, if_true]
  rw [canon_take, canon_drop, canonSec_length, canonSecSize_eq, if_neg (by rw [hl]; omega),
    parseDepEx_encodeOps ops hops, canonInfo_eq, hl]
  rfl

theorem parseSection_guided (ext : Bool) (g : Guid) (doff attrs : Nat) (body rest : Bytes) (fuel ord : Nat)
    (st : St) (h : wfSec (.guided ext g doff attrs body) = true) :
    parseSection Hooks.none (fuel + 1) (serSec (.guided ext g doff attrs body) ++ rest) ord st =
      .ok (treeSec (.guided ext g doff attrs body) ord, st) := by
  simp only [wfSec, Bool.and_eq_true, decide_eq_true_eq, beq_iff_eq] at h
  obtain ⟨⟨⟨⟨hg, hdo⟩, hat⟩, _⟩, hsz⟩ := h
  have e : serSec (.guided ext g doff attrs body) ++ rest =
      secHdr 0x02 ext (secHdrLen ext + 20 + body.length) ++ (g ++ (leN 2 doff ++ (leN 2 attrs ++ (body ++ rest)))) := by
    simp [serSec]
  have hlen : (serSec (.guided ext g doff attrs body)).length = secHdrLen ext + 20 + body.length := by
    simp [serSec, secHdr_length, hg]; omega
  have hh := secHeader_ser 0x02 ext (secHdrLen ext + 20 + body.length)
    (g ++ (leN 2 doff ++ (leN 2 attrs ++ (body ++ rest)))) (by decide) (fun _ => by decide) hsz
    (by simp [secHdr_length, hg]; omega) (by omega)
  have hs : secHdrLen ext = (secHdr 0x02 ext (secHdrLen ext + 20 + body.length)).length := (secHdr_length _ _ _).symm
  have rg : slice (secHdr 0x02 ext (secHdrLen ext + 20 + body.length) ++
      (g ++ (leN 2 doff ++ (leN 2 attrs ++ (body ++ rest))))) (secHdrLen ext) 16 = g := by
    have := slice_append_skip (secHdr 0x02 ext (secHdrLen ext + 20 + body.length))
      (g ++ (leN 2 doff ++ (leN 2 attrs ++ (body ++ rest)))) (secHdrLen ext) 0 16 (secHdr_length _ _ _)
    simp only [Nat.add_zero] at this
    rw [this]; exact slice_prefix g _ 16 hg
  have rdo : rd (secHdr 0x02 ext (secHdrLen ext + 20 + body.length) ++
      (g ++ (leN 2 doff ++ (leN 2 attrs ++ (body ++ rest))))) (secHdrLen ext + 16) 2 = doff := by
    rw [rd_append_skip _ _ _ 16 2 (secHdr_length _ _ _), show (16:Nat) = 16 + 0 from rfl,
      rd_append_skip _ _ 16 0 2 hg]
    exact rd_leN_prefix 2 doff _ (by simpa using hdo)
  have rat : rd (secHdr 0x02 ext (secHdrLen ext + 20 + body.length) ++
      (g ++ (leN 2 doff ++ (leN 2 attrs ++ (body ++ rest))))) (secHdrLen ext + 18) 2 = attrs := by
    rw [rd_append_skip _ _ _ 18 2 (secHdr_length _ _ _), show (18:Nat) = 16 + 2 from rfl,
      rd_append_skip _ _ 16 2 2 hg, show (2:Nat) = 2 + 0 from rfl, rd_append_skip _ _ 2 0 2 (leN_length 2 doff)]
    exact rd_leN_prefix 2 attrs _ (by simpa using hat)
  rw [e, parseSection, hh]
  simp only [if_true, rg, rdo, rat]
  rw [if_neg (by simp [secHdr_length, hg]; omega)]
  rw [← e, take_left_len _ _ _ hlen]
  simp only [treeSec, mkSection]
  by_cases ha : attrs &&& 1 ≠ 0
  · rw [if_pos ⟨ha, by decide⟩, if_pos ha]
    rfl
  · rw [if_neg (fun h => ha h.1), if_neg ha]
    rfl

end Fiano.Uefi
