/-
  parse ∘ ser = tree for sections, files and volumes (mutual induction over the grammar).
-/
import FianoModel.Uefi.Lemmas.ParseFile

namespace Fiano.Uefi
open Fiano Fiano.Uefi.Spec

/-! ### recursion budget needed by the parser on a grammar node -/
mutual
  def costSec : SecI → Nat
    | .fvimg fv => 1 + costFv fv
    | _ => 1
  def costSecs : List SecI → Nat
    | [] => 1
    | s :: ss => 1 + costSec s + costSecs ss
  def costFile : FileI → Nat
    | .leaf .. => 2
    | .sect _ _ _ _ secs => 1 + costSecs secs
  def costFiles : List FileI → Nat
    | [] => 2
    | f :: fs => 1 + costFile f + costFiles fs
  def costFv : FvI → Nat
    | .ffs _ _ _ _ _ _ _ files _ => 1 + costFiles files
    | .other .. => 1
end

/-- the section area as the walk sees it at a 4-aligned position: what follows the padding -/
def tailSecs (u : Nat) (ss : List SecI) : Bytes := (serSecs u ss).drop (alignUp u 4 - u)

theorem tailSecs_nil (u : Nat) : tailSecs u [] = [] := by simp [tailSecs, serSecs]

theorem tailSecs_cons (u : Nat) (s : SecI) (ss : List SecI) :
    tailSecs u (s :: ss) = serSec s ++ serSecs (alignUp u 4 + sizeSec s) ss := by
  simp only [tailSecs, serSecs, List.append_assoc]
  exact drop_append_len _ _ _ (by simp [zeros])

/-- the file area as the walk sees it at an 8-aligned position -/
def tailFiles (off : Nat) (fs : List FileI) (free : Nat) : Bytes :=
  (serFiles off fs ++ ffs free).drop (alignUp off 8 - off)

theorem tailFiles_cons (off : Nat) (f : FileI) (fs : List FileI) (free : Nat) :
    tailFiles off (f :: fs) free = serFile f ++ (serFiles (alignUp off 8 + sizeFile f) fs ++ ffs free) := by
  simp only [tailFiles, serFiles, List.append_assoc]
  exact drop_append_len _ _ _ (by simp [ffs])

theorem setPolarity_ff (attrs : Nat) (st : St) (h : attrs &&& 0x800 ≠ 0) (hp : st.pol = 0xFF ∨ st.pol = 0xF0) :
    setPolarity (polOfAttrs attrs) st = .ok { st with pol := 0xFF } := by
  unfold setPolarity polOfAttrs
  rw [if_pos h]
  rcases hp with hp | hp
  · simp [hp]
    cases st; simp_all
  · simp [hp]

theorem alignUp_of_mod (n a : Nat) (ha : 0 < a) (h : n % a = 0) : alignUp n a = n := by
  unfold alignUp
  have := Nat.div_add_mod n a
  have h2 : (n + a - 1) / a = n / a := by
    rw [Nat.div_eq_iff ha]
    constructor
    · have := Nat.div_mul_le_self n a; omega
    · have hh : n / a * a = n := by rw [Nat.mul_comm]; omega
      rw [hh]; omega
  rw [h2, Nat.mul_comm]; omega

end Fiano.Uefi

namespace Fiano.Uefi
open Fiano Fiano.Uefi.Spec

theorem serSec_pos : ∀ s : SecI, 4 ≤ sizeSec s
  | .leaf _ ext _ => by simp only [sizeSec, secHdrLen]; split <;> omega
  | .guided ext _ _ _ _ => by simp only [sizeSec, secHdrLen]; split <;> omega
  | .ui _ => by simp only [sizeSec, canonSecSize]; split <;> omega
  | .version _ _ => by simp only [sizeSec, canonSecSize]; split <;> omega
  | .depex _ _ => by simp only [sizeSec, canonSecSize]; split <;> omega
  | .fvimg _ => by simp only [sizeSec, canonSecSize]; split <;> omega

theorem sizeSecs_ge : ∀ (ss : List SecI) (n : Nat), n ≤ sizeSecs n ss
  | [], n => by simp [sizeSecs]
  | s :: ss, n => by
    have := sizeSecs_ge ss (alignUp n 4 + sizeSec s)
    have := alignUp_ge n 4 (by decide)
    simp only [sizeSecs]; omega

theorem sizeFile_ge (f : FileI) : 24 ≤ sizeFile f := by
  cases f with
  | leaf g ckh ckf t a st ext body => simp only [sizeFile]; split <;> omega
  | sect g t a st secs => simp only [sizeFile]; split <;> omega

theorem endFiles_ge : ∀ (fs : List FileI) (n : Nat), n ≤ endFiles n fs
  | [], n => by simp [endFiles]
  | f :: fs, n => by
    have := endFiles_ge fs (alignUp n 8 + sizeFile f)
    have := alignUp_ge n 8 (by decide)
    simp only [endFiles]; omega

theorem preLen_mod8 (blocks : List Block) (ext : Option ExtI) : preLen blocks ext % 8 = 0 := by
  cases ext with
  | none => simp only [preLen, fvHdrLen]; omega
  | some e => simp only [preLen]; exact alignUp_mod _ 8

/-- the file walk reaches free space: nothing more to report -/
theorem parseFiles_nil (fuel : Nat) (data : Bytes) (off length free : Nat) (st : St)
    (hfuel : 2 ≤ fuel) (hd : data.drop (alignUp off 8) = tailFiles off [] free)
    (hlen : data.length = length) (hl : length = off + free) (h8 : length % 8 = 0) (hlt : length < 2 ^ 62)
    (h24 : 24 ≤ length) :
    parseFiles Hooks.none fuel data off ((length + 18446744073709551616 - 24) % 18446744073709551616) length st =
      .ok ([], (if off + 24 ≤ length then length - alignUp off 8 else 0), st) := by
  obtain ⟨f, rfl⟩ : ∃ f, fuel = f + 1 := ⟨fuel - 1, by omega⟩
  obtain ⟨f', rfl⟩ : ∃ f', f = f' + 1 := ⟨f - 1, by omega⟩
  have hlh : (length + 18446744073709551616 - 24) % 18446744073709551616 = length - 24 := by omega
  rw [parseFiles, hlh]
  by_cases hc : off + 24 ≤ length
  · have hal := alignUp_ge off 8 (by decide)
    -- `length - 24` is a multiple of 8 at or above `off`: the aligned offset does not pass it
    have hal2 : alignUp off 8 + 24 ≤ length := by
      have hm := alignUp_mod off 8
      have hlt8 := alignUp_lt off 8 (by decide)
      omega
    rw [if_pos (show off ≤ length - 24 by omega), if_pos hc]
    simp only [align8_eq off (by omega)]
    rw [if_neg (show ¬ data.length ≤ alignUp off 8 by omega), hd]
    have et : tailFiles off [] free = ffs (length - alignUp off 8) := by
      simp only [tailFiles, serFiles, List.nil_append, ffs, List.drop_replicate]
      have e : free - (alignUp off 8 - off) = length - alignUp off 8 := by omega
      rw [e]
    rw [et, parseFile, fileHeader_ffs24 _ (by omega)]
  · rw [if_neg (show ¬ off ≤ length - 24 by omega), if_neg hc]

end Fiano.Uefi

namespace Fiano.Uefi
open Fiano Fiano.Uefi.Spec

theorem treeSec_extSize (s : SecI) (idx : Nat) (h : wfSec s = true) :
    (treeSec s idx).info.extSize = sizeSec s := by
  cases s with
  | leaf t ext body => simp [treeSec, Section.info, secInfoOf, sizeSec]
  | guided ext g doff attrs body => simp [treeSec, Section.info, secInfoOf, sizeSec]
  | ui name => simp [treeSec, Section.info, canonInfo_eq, secInfoOf, sizeSec, canonSecSize_eq]
  | version build ver => simp [treeSec, Section.info, canonInfo_eq, secInfoOf, sizeSec, canonSecSize_eq]
  | depex t ops => simp [treeSec, Section.info, canonInfo_eq, secInfoOf, sizeSec, canonSecSize_eq]
  | fvimg fv => simp [treeSec, Section.info, canonInfo_eq, secInfoOf, sizeSec, canonSecSize_eq]

theorem treeFile_extSize (f : FileI) (h : wfFile f = true) : (treeFile f).info.extSize = sizeFile f := by
  cases f with
  | leaf g ckh ckf t a st ext body => simp [treeFile, File.info, sizeFile]
  | sect g t a st secs =>
    simp only [treeFile, File.info, sizeFile, decide_eq_true_eq]
    split <;> simp_all

theorem sectAttrs_lt (a d : Nat) (h : a < 256) : sectAttrs a d < 256 := by
  unfold sectAttrs
  split
  · have : a ||| 1 < 2 ^ 8 := Nat.or_lt_two_pow (by simpa using h) (by decide)
    simpa using this
  · exact Nat.lt_of_le_of_lt Nat.and_le_left h

theorem fv_readBlocks_ffs (zv : Bytes) (v3 : Bool) (attrs rev rsv : Nat) (blocks : List Block) (ext : Option ExtI)
    (files : List FileI) (free : Nat) (rest : Bytes) (w : WfFfs zv v3 attrs rev rsv blocks ext files free) :
    readBlocks ((serFv (.ffs zv v3 attrs rev rsv blocks ext files free) ++ rest).drop 56) = .ok blocks := by
  have e1 : serFv (.ffs zv v3 attrs rev rsv blocks ext files free) ++ rest =
      fvHeader zv (if v3 then guidFFS3 else guidFFS2) (endFiles (preLen blocks ext) files + free) attrs
        (0 - sum16 (fvHeader zv (if v3 then guidFFS3 else guidFFS2) (endFiles (preLen blocks ext) files + free)
          attrs 0 (ehoOf blocks ext) rsv rev blocks)).toNat (ehoOf blocks ext) rsv rev blocks ++
      (preBytes blocks ext ++ (serFiles (preLen blocks ext) files ++ (ffs free ++ rest))) := by
    simp [serFv, fvHeaderCk]
  have heho : ehoOf blocks ext < 65536 := by
    cases ext with
    | none => simp [ehoOf]
    | some e => exact (w.hext e rfl).2.1
  obtain ⟨_, _, _, _, _, _, _, _, _, hd⟩ :=
    fvHeader_reads zv (if v3 then guidFFS3 else guidFFS2) (endFiles (preLen blocks ext) files + free) attrs
      (0 - sum16 (fvHeader zv (if v3 then guidFFS3 else guidFFS2) (endFiles (preLen blocks ext) files + free)
          attrs 0 (ehoOf blocks ext) rsv rev blocks)).toNat (ehoOf blocks ext) rsv rev blocks
      (preBytes blocks ext ++ (serFiles (preLen blocks ext) files ++ (ffs free ++ rest)))
      w.hzv (guid_v3_length v3) (by have := w.hlenlt; omega) w.hattrs w.hhdr (ck_lt _) heho w.hrsv w.hrev
  rw [e1, hd]
  exact readBlocks_encode blocks _ w.hblocks

theorem fv_readBlocks_other (zv g : Bytes) (attrs rev rsv : Nat) (blocks : List Block) (body rest : Bytes)
    (w : WfOther zv g attrs rev rsv blocks body) :
    readBlocks ((serFv (.other zv g attrs rev rsv blocks body) ++ rest).drop 56) = .ok blocks := by
  have e1 : serFv (.other zv g attrs rev rsv blocks body) ++ rest =
      fvHeader zv g (fvHdrLen blocks + body.length) attrs
        (0 - sum16 (fvHeader zv g (fvHdrLen blocks + body.length) attrs 0 0 rsv rev blocks)).toNat 0 rsv rev blocks ++
      (body ++ rest) := by
    simp [serFv, fvHeaderCk]
  obtain ⟨_, _, _, _, _, _, _, _, _, hd⟩ :=
    fvHeader_reads zv g (fvHdrLen blocks + body.length) attrs
      (0 - sum16 (fvHeader zv g (fvHdrLen blocks + body.length) attrs 0 0 rsv rev blocks)).toNat 0 rsv rev blocks
      (body ++ rest) w.hzv w.hg (by have := w.hlenlt; omega) w.hattrs w.hhdr (ck_lt _) (by decide) w.hrsv w.hrev
  rw [e1, hd]
  exact readBlocks_encode blocks _ w.hblocks

/-- `NewFile` on a sectioned file, given the result of the section walk -/
theorem parseFile_sect_gen (g : Guid) (ckh ckf : UInt8) (t a : Nat) (L : Bool) (stt : Nat) (data rest : Bytes)
    (ss : List Section) (f : Nat) (st : St)
    (hg : g.length = 16) (ht : t < 256) (ha : a < 256) (hst : stt < 256) (hsup : supportedFile t = true)
    (hsz : if L then 32 + data.length < 18446744073709551615 else 24 + data.length < 16777215)
    (IH : parseSections Hooks.none f
      (fileHdr g ckh ckf t a L ((if L then 32 else 24) + data.length) stt ++ data)
      (if L then 32 else 24) ((if L then 32 else 24) + data.length) 0 st = .ok (ss, st)) :
    parseFile Hooks.none (f + 1)
      (fileHdr g ckh ckf t a L ((if L then 32 else 24) + data.length) stt ++ (data ++ rest)) st =
    .ok (some (.mk { guid := g, ckHeader := ckh.toNat, ckFile := ckf.toNat, type := t, attrs := a,
                     size3 := if L then 0xFFFFFF else (if L then 32 else 24) + data.length, state := stt,
                     extSize := (if L then 32 else 24) + data.length, dataOffset := if L then 32 else 24 }
                   (fileHdr g ckh ckf t a L ((if L then 32 else 24) + data.length) stt ++ data) ss), st) := by
  have hh := fileHeader_ser g ckh ckf t a L ((if L then 32 else 24) + data.length) stt (data ++ rest) hg ht ha hst
    (by cases L <;> simp_all) (by simp [fileHdr_length _ _ _ _ _ _ _ _ hg])
  have hc1 : ¬ ((if L then 32 else 24) + data.length >
      (fileHdr g ckh ckf t a L ((if L then 32 else 24) + data.length) stt ++ (data ++ rest)).length) := by
    simp [fileHdr_length _ _ _ _ _ _ _ _ hg]
  have ht1 : ¬ (t = 1 ∧ g = guidNVAR) := by
    intro hc; rw [hc.1] at hsup; exact absurd hsup (by decide)
  have htake : (fileHdr g ckh ckf t a L ((if L then 32 else 24) + data.length) stt ++ (data ++ rest)).take
      ((if L then 32 else 24) + data.length) = fileHdr g ckh ckf t a L ((if L then 32 else 24) + data.length) stt ++ data := by
    rw [← List.append_assoc]
    exact take_left_len _ _ _ (by simp [fileHdr_length _ _ _ _ _ _ _ _ hg])
  rw [parseFile, hh]
  simp only [hc1, ht1, if_false, hsup, not_true_eq_false, htake, IH]

theorem fuel_succ {n c : Nat} (h : c ≤ n) (hc : 1 ≤ c) : ∃ f, n = f + 1 ∧ c - 1 ≤ f := ⟨n - 1, by omega, by omega⟩

mutual

theorem parse_sec : ∀ (s : SecI), wfSec s = true → ∀ (fuel : Nat) (rest : Bytes) (ord : Nat) (st : St),
    costSec s ≤ fuel → st.pol = 0xFF →
    parseSection Hooks.none fuel (serSec s ++ rest) ord st = .ok (treeSec s ord, st)
  | .leaf t ext body, h, fuel, rest, ord, st, hf, _ => by
    obtain ⟨f, rfl, _⟩ := fuel_succ hf (by simp only [costSec]; omega)
    exact parseSection_leaf t ext body rest f ord st h
  | .guided ext g doff attrs body, h, fuel, rest, ord, st, hf, _ => by
    obtain ⟨f, rfl, _⟩ := fuel_succ hf (by simp only [costSec]; omega)
    exact parseSection_guided ext g doff attrs body rest f ord st h
  | .ui name, h, fuel, rest, ord, st, hf, _ => by
    obtain ⟨f, rfl, _⟩ := fuel_succ hf (by simp only [costSec]; omega)
    exact parseSection_ui name rest f ord st h
  | .version build ver, h, fuel, rest, ord, st, hf, _ => by
    obtain ⟨f, rfl, _⟩ := fuel_succ hf (by simp only [costSec]; omega)
    exact parseSection_version build ver rest f ord st h
  | .depex t ops, h, fuel, rest, ord, st, hf, _ => by
    obtain ⟨f, rfl, _⟩ := fuel_succ hf (by simp only [costSec]; omega)
    exact parseSection_depex t ops rest f ord st h
  | .fvimg fv, h, fuel, rest, ord, st, hf, hp => by
    obtain ⟨f, rfl, hf'⟩ := fuel_succ hf (by simp only [costSec]; omega)
    simp only [costSec, Nat.add_sub_cancel_left] at hf'
    simp only [wfSec, Bool.and_eq_true, decide_eq_true_eq] at h
    have hl := length_serFv fv h.1
    have hh := secHeader_canon 0x17 (serFv fv) rest (by decide) (by decide) (by rw [hl]; exact h.2)
    have hfv := parse_fv fv h.1 f [] 0 true st hf' (Or.inl hp)
    have hpos : 64 ≤ sizeFv fv := by
      cases fv with
      | ffs zv v3 attrs rev rsv blocks ext files free => exact (wfFv_ffs h.1).hlen64
      | other zv g attrs rev rsv blocks body => simp only [sizeFv, fvHdrLen]; omega
    have hst : ({ st with pol := 0xFF } : St) = st := by cases st; simp_all
    rw [List.append_nil, hst] at hfv
    simp only [serSec, treeSec]
    rw [parseSection, hh]
    simp only [show (0x17 : Nat) ≠ 0x02 by decide, show (0x17 : Nat) ≠ 0x15 by decide,
      show (0x17 : Nat) ≠ 0x14 by decide, if_false, if_true]
    rw [canon_take, canon_drop, canonSec_length, canonSecSize_eq, if_neg (by rw [hl]; omega), hfv, canonInfo_eq, hl]
    rfl

theorem parse_secs : ∀ (ss : List SecI), wfSecs ss = true →
    ∀ (fuel : Nat) (fbuf : Bytes) (hl u idx : Nat) (st : St),
    costSecs ss ≤ fuel → st.pol = 0xFF → hl % 4 = 0 → hl + sizeSecs u ss < 2 ^ 62 →
    fbuf.drop (hl + alignUp u 4) = tailSecs u ss →
    parseSections Hooks.none fuel fbuf (hl + alignUp u 4) (hl + sizeSecs u ss) idx st = .ok (treeSecs ss idx, st)
  | [], _, fuel, fbuf, hl, u, idx, st, hf, _, _, _, _ => by
    obtain ⟨f, rfl, _⟩ := fuel_succ hf (by simp only [costSecs]; omega)
    have := alignUp_ge u 4 (by decide)
    rw [parseSections, if_neg (show ¬ hl + alignUp u 4 < hl + sizeSecs u [] by simp only [sizeSecs]; omega)]
    rfl
  | s :: ss, h, fuel, fbuf, hl, u, idx, st, hf, hp, h4, hlt, hd => by
    obtain ⟨f, rfl, hf'⟩ := fuel_succ hf (by simp only [costSecs]; omega)
    simp only [costSecs] at hf'
    have ⟨hs, hss⟩ := wfSecs_cons h
    have hge := alignUp_ge u 4 (by decide)
    have hpos := serSec_pos s
    have hsz := sizeSecs_ge ss (alignUp u 4 + sizeSec s)
    simp only [sizeSecs] at hlt ⊢
    rw [parseSections, if_pos (show hl + alignUp u 4 < hl + sizeSecs (alignUp u 4 + sizeSec s) ss by omega), hd,
      tailSecs_cons, parse_sec s hs f _ idx st (by omega) hp]
    simp only [treeSec_extSize s idx hs]
    rw [if_neg (show ¬ sizeSec s = 0 by omega)]
    have hnext : align4 (hl + alignUp u 4 + sizeSec s) = hl + alignUp (alignUp u 4 + sizeSec s) 4 := by
      rw [align4_eq _ (by omega)]
      unfold alignUp at *
      omega
    rw [hnext]
    have hd' : fbuf.drop (hl + alignUp (alignUp u 4 + sizeSec s) 4) = tailSecs (alignUp u 4 + sizeSec s) ss := by
      have e : hl + alignUp (alignUp u 4 + sizeSec s) 4 =
          (hl + alignUp u 4) + (sizeSec s + (alignUp (alignUp u 4 + sizeSec s) 4 - (alignUp u 4 + sizeSec s))) := by
        have := alignUp_ge (alignUp u 4 + sizeSec s) 4 (by decide); omega
      rw [e, ← List.drop_drop, hd, tailSecs_cons, ← List.drop_drop,
        drop_append_len _ _ _ (length_serSec s hs)]
      rfl
    rw [parse_secs ss hss f fbuf hl (alignUp u 4 + sizeSec s) (idx + 1) st (by omega) hp h4 hlt hd']
    rfl

theorem parse_file : ∀ (f : FileI), wfFile f = true → ∀ (fuel : Nat) (rest : Bytes) (st : St),
    costFile f ≤ fuel → st.pol = 0xFF →
    parseFile Hooks.none fuel (serFile f ++ rest) st = .ok (some (treeFile f), st)
  | .leaf g ckh ckf t a stt ext body, h, fuel, rest, st, hf, _ => by
    obtain ⟨f, rfl, hf'⟩ := fuel_succ hf (by simp only [costFile]; omega)
    simp only [costFile] at hf'
    obtain ⟨f', rfl, _⟩ := fuel_succ hf' (by decide)
    have w := wfFile_leaf h
    have hlen := length_serFile _ h
    simp only [sizeFile] at hlen
    have hh := fileHeader_ser g (byte ckh) (byte ckf) t a ext ((if ext then 32 else 24) + body.length) stt
      (body ++ rest) w.hg w.ht w.ha w.hst
      (by have := w.hsize; cases ext <;> simp_all <;> omega)
      (by simp [fileHdr_length _ _ _ _ _ _ _ _ w.hg])
    have e : serFile (.leaf g ckh ckf t a stt ext body) ++ rest =
        fileHdr g (byte ckh) (byte ckf) t a ext ((if ext then 32 else 24) + body.length) stt ++ (body ++ rest) := by
      simp [serFile]
    have hc1 : ¬ ((if ext then 32 else 24) + body.length >
        (fileHdr g (byte ckh) (byte ckf) t a ext ((if ext then 32 else 24) + body.length) stt ++ (body ++ rest)).length) := by
      simp [fileHdr_length _ _ _ _ _ _ _ _ w.hg]
    rw [e, parseFile, hh]
    simp only [byte_toNat ckh w.hckh, byte_toNat ckf w.hckf, hc1, w.hnvar, if_false]
    rw [← e, take_left_len _ _ _ hlen]
    rcases w.hleaf with hl | hb
    · simp only [hl, Bool.false_eq_true, not_false_eq_true, if_true]
      rfl
    · subst hb
      by_cases hs : supportedFile t = true
      · simp only [hs, not_true_eq_false, if_false]
        rw [parseSections, if_neg (show ¬ (if ext then 32 else 24) < (if ext then 32 else 24) + ([] : Bytes).length by
          simp)]
        rfl
      · simp only [hs, not_false_eq_true, if_true]
        rfl
  | .sect g t a stt secs, h, fuel, rest, st, hf, hp => by
    obtain ⟨f, rfl, hf'⟩ := fuel_succ hf (by simp only [costFile]; omega)
    simp only [costFile, Nat.add_sub_cancel_left] at hf'
    have w := wfFile_sect h
    have hsl := length_serSecs secs 0 w.hsecs
    simp only [Nat.zero_add] at hsl
    have hd : ∀ (ckh ckf : UInt8) (a' : Nat) (L : Bool) (tot : Nat),
        (fileHdr g ckh ckf t a' L tot stt ++ serSecs 0 secs).drop ((if L then 32 else 24) + alignUp 0 4) =
          tailSecs 0 secs := by
      intro ckh ckf a' L tot
      simp only [show alignUp 0 4 = 0 by decide, Nat.add_zero, tailSecs, Nat.sub_self, List.drop_zero]
      exact drop_append_len _ _ _ (by simp [fileHdr_length _ _ _ _ _ _ _ _ w.hg])
    have IH : ∀ (ckh ckf : UInt8) (a' : Nat) (L : Bool) (tot : Nat),
        parseSections Hooks.none f (fileHdr g ckh ckf t a' L tot stt ++ serSecs 0 secs)
          (if L then 32 else 24) ((if L then 32 else 24) + (serSecs 0 secs).length) 0 st =
          .ok (treeSecs secs 0, st) := by
      intro ckh ckf a' L tot
      have := parse_secs secs w.hsecs f _ (if L then 32 else 24) 0 0 st hf' hp
        (by split <;> decide) (by have := w.hsize; split <;> omega) (hd ckh ckf a' L tot)
      simp only [show alignUp 0 4 = 0 by decide, Nat.add_zero] at this
      rw [hsl]; exact this
    have hLsz : if decide (24 + (serSecs 0 secs).length ≥ 0xFFFFFF) then
          32 + (serSecs 0 secs).length < 18446744073709551615
        else 24 + (serSecs 0 secs).length < 16777215 := by
      have := w.hsize
      by_cases hb : 24 + (serSecs 0 secs).length ≥ 0xFFFFFF <;> simp [hb] <;> omega
    simp only [serFile, List.append_assoc]
    rw [parseFile_sect_gen g _ _ t _ _ stt (serSecs 0 secs) rest (treeSecs secs 0) f st
      w.hg w.ht (sectAttrs_lt a _ w.ha) w.hst w.hsup hLsz (IH _ _ _ _ _)]
    simp only [treeFile, serFile, hsl]

theorem parse_files : ∀ (fs : List FileI) (off length : Nat), wfFiles off length fs = true →
    ∀ (fuel : Nat) (data : Bytes) (free : Nat) (st : St),
    costFiles fs ≤ fuel → st.pol = 0xFF →
    data.drop (alignUp off 8) = tailFiles off fs free → data.length = length →
    length = endFiles off fs + free → length % 8 = 0 → length < 2 ^ 62 → 24 ≤ length →
    parseFiles Hooks.none fuel data off ((length + 18446744073709551616 - 24) % 18446744073709551616) length st =
      .ok (treeFiles fs, (if endFiles off fs + 24 ≤ length then length - alignUp (endFiles off fs) 8 else 0), st)
  | [], off, length, _, fuel, data, free, st, hf, _, hd, hlen, hl, h8, hlt, h24 => by
    simp only [endFiles] at hl ⊢
    exact parseFiles_nil fuel data off length free st (by simpa [costFiles] using hf) hd hlen hl h8 hlt h24
  | f :: fs, off, length, h, fuel, data, free, st, hf, hp, hd, hlen, hl, h8, hlt, h24 => by
    obtain ⟨fu, rfl, hf'⟩ := fuel_succ hf (by simp only [costFiles]; omega)
    simp only [costFiles] at hf'
    obtain ⟨hwf, hhdr, hfit, _, hrest⟩ := wfFiles_cons h
    have hal := alignUp_ge off 8 (by decide)
    have hlh : (length + 18446744073709551616 - 24) % 18446744073709551616 = length - 24 := by omega
    have hsz := sizeFile_ge f
    rw [parseFiles, hlh, if_pos (show off ≤ length - 24 by omega)]
    simp only [align8_eq off (by omega)]
    rw [if_neg (show ¬ data.length ≤ alignUp off 8 by omega), hd, tailFiles_cons,
      parse_file f hwf fu _ st (by omega) hp]
    simp only [treeFile_extSize f hwf]
    rw [if_neg (show ¬ sizeFile f = 0 by omega)]
    have hd' : data.drop (alignUp (alignUp off 8 + sizeFile f) 8) =
        tailFiles (alignUp off 8 + sizeFile f) fs free := by
      have e : alignUp (alignUp off 8 + sizeFile f) 8 =
          alignUp off 8 + (sizeFile f + (alignUp (alignUp off 8 + sizeFile f) 8 - (alignUp off 8 + sizeFile f))) := by
        have := alignUp_ge (alignUp off 8 + sizeFile f) 8 (by decide); omega
      rw [e, ← List.drop_drop, hd, tailFiles_cons, ← List.drop_drop,
        drop_append_len _ _ _ (length_serFile f hwf)]
      rfl
    simp only [endFiles] at hl ⊢
    rw [← hlh, parse_files fs (alignUp off 8 + sizeFile f) length hrest fu data free st (by omega) hp hd' hlen hl h8
      hlt h24]
    rfl

theorem parse_fv : ∀ (v : FvI), wfFv v = true → ∀ (fuel : Nat) (rest : Bytes) (off : Nat) (rz : Bool) (st : St),
    costFv v ≤ fuel → (st.pol = 0xFF ∨ st.pol = 0xF0) →
    parseFv Hooks.none fuel (serFv v ++ rest) off rz st = .ok (treeFv v off rz, { st with pol := 0xFF })
  | .ffs zv v3 attrs rev rsv blocks ext files free, h, fuel, rest, off, rz, st, hf, hp => by
    obtain ⟨fu, rfl, hf'⟩ := fuel_succ hf (by simp only [costFv]; omega)
    simp only [costFv, Nat.add_sub_cancel_left] at hf'
    have w := wfFv_ffs h
    have hlen := length_serFv _ h
    simp only [sizeFv] at hlen
    have hinfo := fvInfoOf_ffs zv v3 attrs rev rsv blocks ext files free rest off rz w
    have hblocks := fv_readBlocks_ffs zv v3 attrs rev rsv blocks ext files free rest w
    rw [parseFv, if_neg (by simp only [List.length_append, hlen]; have := w.hlen64; omega), hblocks]
    simp only [hinfo, treeFv, Fv.info]
    have hbm : ¬ (56 + 8 * (blocks.length + 1) > endFiles (preLen blocks ext) files + free) := by
      have h1 := endFiles_ge files (preLen blocks ext)
      have h2 : fvHdrLen blocks ≤ preLen blocks ext := by
        cases ext with
        | none => simp only [preLen]; omega
        | some e =>
          have := alignUp_ge (fvHdrLen blocks + e.gap.length + 20 + e.data.length) 8 (by decide)
          simp only [preLen]; omega
      simp only [fvHdrLen] at h2; omega
    rw [if_neg hbm]
    rw [setPolarity_ff attrs st w.hpol hp]
    dsimp only
    have hsup : ¬ ((if v3 then guidFFS3 else guidFFS2) ≠ guidFFS2 ∧ (if v3 then guidFFS3 else guidFFS2) ≠ guidFFS3) := by
      cases v3 <;> simp
    have hfit : ¬ (endFiles (preLen blocks ext) files + free >
        (serFv (.ffs zv v3 attrs rev rsv blocks ext files free) ++ rest).length) := by
      simp only [List.length_append, hlen]; omega
    simp only [hfit, hsup, if_false]
    rw [take_left_len _ _ _ hlen]
    have hpre := preBytes_length blocks ext (fun e he => (w.hext e he).1)
    have hd : (serFv (.ffs zv v3 attrs rev rsv blocks ext files free)).drop (alignUp (preLen blocks ext) 8) =
        tailFiles (preLen blocks ext) files free := by
      simp only [tailFiles]
      rw [alignUp_of_mod _ 8 (by decide) (preLen_mod8 blocks ext)]
      simp only [Nat.sub_self, List.drop_zero, serFv, List.append_assoc]
      rw [← List.append_assoc]
      have hA : (fvHeaderCk zv (if v3 then guidFFS3 else guidFFS2) (endFiles (preLen blocks ext) files + free) attrs
          (ehoOf blocks ext) rsv rev blocks ++ preBytes blocks ext).length = preLen blocks ext := by
        simp only [List.length_append, fvHeaderCk_length _ _ _ _ _ _ _ _ w.hzv (guid_v3_length v3)]; exact hpre
      exact drop_append_len _ _ _ hA
    rw [parse_files files (preLen blocks ext) _ w.hfiles fu _ free { st with pol := 0xFF } hf' rfl hd hlen rfl
      w.hlen8 (by have := w.hlenlt; omega) (by have := w.hlen64; omega)]
  | .other zv g attrs rev rsv blocks body, h, fuel, rest, off, rz, st, hf, hp => by
    obtain ⟨fu, rfl, _⟩ := fuel_succ hf (by simp only [costFv]; omega)
    have w := wfFv_other h
    have hlen := length_serFv _ h
    simp only [sizeFv] at hlen
    have hinfo := fvInfoOf_other zv g attrs rev rsv blocks body rest off rz w
    have hblocks := fv_readBlocks_other zv g attrs rev rsv blocks body rest w
    rw [parseFv, if_neg (by simp only [List.length_append, hlen, fvHdrLen]; omega), hblocks]
    simp only [hinfo, treeFv, Fv.info]
    rw [if_neg (show ¬ (56 + 8 * (blocks.length + 1) > fvHdrLen blocks + body.length) by
      simp only [fvHdrLen]; omega)]
    rw [setPolarity_ff attrs st w.hpol hp]
    dsimp only
    have hfit : ¬ (fvHdrLen blocks + body.length >
        (serFv (.other zv g attrs rev rsv blocks body) ++ rest).length) := by
      simp only [List.length_append, hlen]; omega
    simp only [hfit, if_false]
    rw [take_left_len _ _ _ hlen, if_pos ⟨w.hne2, w.hne3⟩]

end

end Fiano.Uefi
