/-
  Top level, bare BIOS region (and single volume): parse ∘ ser = tree, asm ∘ tree = ser.
-/
import FianoModel.Uefi.Lemmas.Cost

namespace Fiano.Uefi
open Fiano Fiano.Uefi.Spec

theorem serBios_length (b : BiosI) (h : wfBios b = true) : (serBios b).length = sizeItems b.items + b.tail.length := by
  simp only [wfBios, Bool.and_eq_true] at h
  simp [serBios, length_serItems b.items b.tail h.1.2]

/-- `NewBIOSRegion` on a serialised region of the grammar -/
theorem parse_bios_region (b : BiosI) (fr : Option FlashRegion) (fuel : Nat) (st : St) (h : wfBios b = true)
    (hf : (serBios b).length + 1 ≤ fuel) (hp : st.pol = 0xFF ∨ st.pol = 0xF0) :
    parseBios Hooks.none fuel (serBios b) fr st = .ok (treeBios b fr, { st with pol := 0xFF }) := by
  have hl := serBios_length b h
  simp only [wfBios, Bool.and_eq_true, Bool.not_eq_true', List.isEmpty_eq_false_iff, beq_iff_eq] at h
  obtain ⟨⟨hne, hitems⟩, htail⟩ := h
  have hc := cost_items b.items
  unfold parseBios
  simp only [serBios]
  rw [parse_items b.items b.tail hitems htail fuel 0 st (by omega) hp]
  have he : b.items.isEmpty = false := by
    cases hb : b.items with
    | nil => exact absurd hb hne
    | cons x xs => rfl
  simp only [he, Bool.false_eq_true, if_false, treeBios, tailElems, Nat.zero_add, serBios]

theorem parse_ser_bios (b : BiosI) (h : wf (.bios b) = true) :
    parse Hooks.none (ser (.bios b)) = .ok (tree (.bios b)) := by
  simp only [wf, Bool.and_eq_true, Option.isNone_iff_eq_none] at h
  unfold parse parseWith
  simp only [ser, h.2]
  rw [parse_bios_region b none _ {} h.1 (by simp [defaultFuel]) (Or.inr rfl)]
  rfl

/-- the state in which `Assemble` runs after a successful parse of a BIOS region -/
theorem parseWith_ser_bios (b : BiosI) (h : wf (.bios b) = true) :
    parseWith Hooks.none (defaultFuel (ser (.bios b))) (ser (.bios b)) {} =
      .ok (tree (.bios b), { pol := 0xFF, ffs3 := false }) := by
  simp only [wf, Bool.and_eq_true, Option.isNone_iff_eq_none] at h
  unfold parseWith
  simp only [ser, h.2]
  rw [parse_bios_region b none _ {} h.1 (by simp [defaultFuel]) (Or.inr rfl)]
  rfl

theorem asm_tree_bios (b : BiosI) (h : wf (.bios b) = true) (st : St) (hp : st.pol = 0xFF) :
    asmWith Hooks.none (tree (.bios b)) st = .ok (ser (.bios b)) := by
  simp only [wf, Bool.and_eq_true] at h
  obtain ⟨b', st', h1, hb, _, _, _⟩ := asm_bios b none { st with ffs3 := false } h.1 hp rfl
  unfold asmWith asmTreeWith
  simp only [tree, h1, Tree.buf, hb, ser]

theorem save_identity_bios (b : BiosI) (h : wf (.bios b) = true) :
    save Hooks.none (ser (.bios b)) = .ok (ser (.bios b)) := by
  unfold save
  rw [parseWith_ser_bios b h]
  exact asm_tree_bios b h _ rfl

end Fiano.Uefi
