/-
  The recursion budget the parser needs on a grammar node is bounded by the node's size:
  `defaultFuel` (input length + 8) always suffices.
-/
import FianoModel.Uefi.Lemmas.Bios

namespace Fiano.Uefi
open Fiano Fiano.Uefi.Spec

theorem fvHdrLen_ge (blocks : List Block) : 64 ≤ fvHdrLen blocks := by unfold fvHdrLen; omega

theorem preLen_ge (blocks : List Block) (ext : Option ExtI) : 64 ≤ preLen blocks ext := by
  cases ext with
  | none => exact fvHdrLen_ge blocks
  | some e =>
    have := fvHdrLen_ge blocks
    have := alignUp_ge (fvHdrLen blocks + e.gap.length + 20 + e.data.length) 8 (by decide)
    simp only [preLen]; omega

mutual
theorem cost_sec : ∀ s : SecI, costSec s + 3 ≤ sizeSec s
  | .leaf _ ext _ => by simp only [costSec, sizeSec, secHdrLen]; split <;> omega
  | .guided ext _ _ _ _ => by simp only [costSec, sizeSec, secHdrLen]; split <;> omega
  | .ui _ => by simp only [costSec, sizeSec, canonSecSize]; split <;> omega
  | .version _ _ => by simp only [costSec, sizeSec, canonSecSize]; split <;> omega
  | .depex _ _ => by simp only [costSec, sizeSec, canonSecSize]; split <;> omega
  | .fvimg fv => by
    have := cost_fv fv
    simp only [costSec, sizeSec, canonSecSize]; split <;> omega
theorem cost_secs : ∀ (ss : List SecI) (n : Nat), costSecs ss + n ≤ 1 + sizeSecs n ss
  | [], n => by simp [costSecs, sizeSecs]
  | s :: ss, n => by
    have h1 := cost_sec s
    have h2 := cost_secs ss (alignUp n 4 + sizeSec s)
    have := alignUp_ge n 4 (by decide)
    simp only [costSecs, sizeSecs]; omega
theorem cost_file : ∀ f : FileI, costFile f + 21 ≤ sizeFile f
  | .leaf _ _ _ _ _ _ ext _ => by simp only [costFile, sizeFile]; split <;> omega
  | .sect _ _ _ _ secs => by
    have := cost_secs secs 0
    simp only [costFile, sizeFile]; split <;> omega
theorem cost_files : ∀ (fs : List FileI) (off : Nat), costFiles fs + off ≤ 2 + endFiles off fs
  | [], off => by simp [costFiles, endFiles]
  | f :: fs, off => by
    have h1 := cost_file f
    have h2 := cost_files fs (alignUp off 8 + sizeFile f)
    have := alignUp_ge off 8 (by decide)
    simp only [costFiles, endFiles]; omega
theorem cost_fv : ∀ v : FvI, costFv v + 60 ≤ sizeFv v
  | .ffs _ _ _ _ _ blocks ext files free => by
    have := cost_files files (preLen blocks ext)
    have := preLen_ge blocks ext
    simp only [costFv, sizeFv]; omega
  | .other _ _ _ _ _ blocks body => by
    have := fvHdrLen_ge blocks
    simp only [costFv, sizeFv]; omega
end

theorem cost_items : ∀ is : List (Bytes × FvI), costItems is ≤ 1 + sizeItems is
  | [] => by simp [costItems, sizeItems]
  | (p, v) :: is => by
    have := cost_fv v
    have := cost_items is
    simp only [costItems, sizeItems]; omega

end Fiano.Uefi
