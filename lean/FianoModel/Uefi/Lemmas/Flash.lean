/-
  The flash-image layer: region table ↔ regions in flash order (selection, sort, gap filling) and
  the FlashImage case of Assemble (re-pointing, sort, tiling check, concatenation).
-/
import FianoModel.Uefi.Lemmas.Desc

namespace Fiano.Uefi
open Fiano Fiano.Uefi.Spec

/-- the region of the grammar that starts at block `base` -/
def regAt : List RegI → Nat → Nat → Option RegI
  | [], _, _ => none
  | r :: rs, blk, base => if blk = base then some r else regAt rs (blk + r.blocks) base

/-- the region node the parser builds for a selected table entry -/
def mkReg (regs : List RegI) (e : Nat × FlashRegion) : Region :=
  match regAt regs 1 e.2.base with
  | some (.bios b) => .bios (treeBios b (some e.2))
  | some (.me d) => .me d e.2
  | some (.raw _ d) => .raw d e.2 e.1
  | some (.gap d) => .raw d e.2 e.1
  | none => .raw [] e.2 e.1

theorem mkReg_fr (regs : List RegI) (e : Nat × FlashRegion) : (mkReg regs e).fr = some e.2 := by
  unfold mkReg
  split <;> simp [Region.fr, treeBios]

/-! ### sorting commutes with building the nodes -/

theorem insertRegion_map (regs : List RegI) (e : Nat × FlashRegion) (l : List (Nat × FlashRegion)) :
    insertRegion (mkReg regs e) (l.map (mkReg regs)) = (insertEntry e l).map (mkReg regs) := by
  induction l with
  | nil => rfl
  | cons x xs ih =>
    simp only [List.map_cons, insertRegion, insertEntry, mkReg_fr, Option.map_some, Option.getD_some]
    split
    · rfl
    · simp [ih]

theorem sortRegions_map (regs : List RegI) (l : List (Nat × FlashRegion)) :
    sortRegions (l.map (mkReg regs)) = (sortEntries l).map (mkReg regs) := by
  induction l with
  | nil => rfl
  | cons x xs ih =>
    simp only [sortRegions, sortEntries, List.map_cons, List.foldr_cons] at ih ⊢
    rw [ih, insertRegion_map]

theorem mem_insertEntry (e x : Nat × FlashRegion) (l : List (Nat × FlashRegion)) :
    x ∈ insertEntry e l ↔ x = e ∨ x ∈ l := by
  induction l with
  | nil => simp [insertEntry]
  | cons y ys ih =>
    simp only [insertEntry]
    split
    · simp
    · simp only [List.mem_cons, ih]
      constructor
      · rintro (h | h | h) <;> simp [h]
      · rintro (h | h | h) <;> simp [h]

theorem mem_sortEntries (x : Nat × FlashRegion) (l : List (Nat × FlashRegion)) :
    x ∈ sortEntries l ↔ x ∈ l := by
  induction l with
  | nil => simp [sortEntries]
  | cons y ys ih =>
    simp only [sortEntries, List.foldr_cons] at ih ⊢
    rw [mem_insertEntry, ih]
    simp [eq_comm]

/-! ### what `matchRegs` says about each matched table entry -/

theorem matchRegs_gap {r : RegI} {rs : List RegI} {blk : Nat} {es : List (Nat × FlashRegion)}
    (hr : r.isGap = true) (h : matchRegs (r :: rs) blk es = true) :
    r.data.length % 4096 = 0 ∧ 1 ≤ r.blocks ∧ (∀ e es', es = e :: es' → blk + r.blocks ≤ e.2.base) ∧
    matchRegs rs (blk + r.blocks) es = true := by
  simp only [matchRegs, hr, if_true, Bool.and_eq_true, beq_iff_eq, decide_eq_true_eq] at h
  obtain ⟨⟨h1, h2⟩, h3, h4⟩ := h
  refine ⟨h1, h2, ?_, h4⟩
  intro e es' he
  subst he
  simpa using h3

theorem matchRegs_nongap {r : RegI} {rs : List RegI} {blk : Nat} {es : List (Nat × FlashRegion)}
    (hr : r.isGap = false) (h : matchRegs (r :: rs) blk es = true) :
    r.data.length % 4096 = 0 ∧ 1 ≤ r.blocks ∧ ∃ i fr es', es = (i, fr) :: es' ∧ kindOk r i = true ∧
      fr.base = blk ∧ fr.limit + 1 = blk + r.blocks ∧ matchRegs rs (blk + r.blocks) es' = true := by
  simp only [matchRegs, hr, Bool.false_eq_true, if_false, Bool.and_eq_true, beq_iff_eq, decide_eq_true_eq] at h
  obtain ⟨⟨h1, h2⟩, h3⟩ := h
  cases es with
  | nil => simp at h3
  | cons e es' =>
    obtain ⟨i, fr⟩ := e
    simp only [Bool.and_eq_true, beq_iff_eq] at h3
    exact ⟨h1, h2, i, fr, es', rfl, h3.1.1.1, h3.1.1.2, h3.1.2, h3.2⟩

end Fiano.Uefi

namespace Fiano.Uefi
open Fiano Fiano.Uefi.Spec

theorem serRegs_cons (r : RegI) (rs : List RegI) : serRegs (r :: rs) = r.data ++ serRegs rs := rfl

theorem blocks_mul (r : RegI) (h : r.data.length % 4096 = 0) : r.blocks * 4096 = r.data.length := by
  unfold RegI.blocks; omega

/-- every matched table entry describes exactly one region of the grammar, found at its base block,
    of the right kind and size, whose bytes sit at the entry's offset -/
theorem match_facts : ∀ (rs : List RegI) (blk : Nat) (es : List (Nat × FlashRegion)), matchRegs rs blk es = true →
    ∀ e ∈ es, blk ≤ e.2.base ∧ ∃ r, regAt rs blk e.2.base = some r ∧ r ∈ rs ∧ kindOk r e.1 = true ∧
      e.2.limit + 1 = e.2.base + r.blocks ∧ r.data.length % 4096 = 0 ∧ 1 ≤ r.blocks ∧
      slice (serRegs rs) ((e.2.base - blk) * 4096) r.data.length = r.data
  | [], blk, es, h, e, he => by
    simp only [matchRegs, List.isEmpty_iff] at h
    subst h; cases he
  | r :: rs, blk, es, h, e, he => by
    by_cases hg : r.isGap = true
    · obtain ⟨h1, h2, h3, h4⟩ := matchRegs_gap hg h
      obtain ⟨hb, r', hr1, hr2, hr3, hr4, hr5, hr6, hr7⟩ := match_facts rs (blk + r.blocks) es h4 e he
      refine ⟨by omega, r', ?_, List.mem_cons_of_mem _ hr2, hr3, hr4, hr5, hr6, ?_⟩
      · simp only [regAt]; rw [if_neg (by omega)]; exact hr1
      · rw [serRegs_cons]
        have : (e.2.base - blk) * 4096 = r.data.length + (e.2.base - (blk + r.blocks)) * 4096 := by
          have e1 : e.2.base - blk = r.blocks + (e.2.base - (blk + r.blocks)) := by omega
          rw [e1, Nat.add_mul, blocks_mul r h1]
        rw [this, slice_append_skip _ _ _ _ _ rfl]; exact hr7
    · have hg' : r.isGap = false := by simpa using hg
      obtain ⟨h1, h2, i, fr, es', hes, hk, hbase, hlim, hrest⟩ := matchRegs_nongap hg' h
      subst hes
      rcases List.mem_cons.mp he with rfl | he'
      · refine ⟨by simp [hbase], r, ?_, List.mem_cons_self, hk, by simp [hbase, hlim], h1, h2, ?_⟩
        · simp [regAt, hbase]
        · simp only [hbase, Nat.sub_self, Nat.zero_mul, serRegs_cons]
          exact slice_prefix _ _ _ rfl
      · obtain ⟨hb, r', hr1, hr2, hr3, hr4, hr5, hr6, hr7⟩ := match_facts rs (blk + r.blocks) es' hrest e he'
        refine ⟨by omega, r', ?_, List.mem_cons_of_mem _ hr2, hr3, hr4, hr5, hr6, ?_⟩
        · simp only [regAt]; rw [if_neg (by omega)]; exact hr1
        · rw [serRegs_cons]
          have : (e.2.base - blk) * 4096 = r.data.length + (e.2.base - (blk + r.blocks)) * 4096 := by
            have e1 : e.2.base - blk = r.blocks + (e.2.base - (blk + r.blocks)) := by omega
            rw [e1, Nat.add_mul, blocks_mul r h1]
          rw [this, slice_append_skip _ _ _ _ _ rfl]; exact hr7

/-- every non-gap region of the grammar is described by a matched entry of its kind -/
theorem match_covers : ∀ (rs : List RegI) (blk : Nat) (es : List (Nat × FlashRegion)), matchRegs rs blk es = true →
    ∀ r ∈ rs, r.isGap = false → ∃ e ∈ es, kindOk r e.1 = true
  | [], _, _, _, r, hr, _ => by cases hr
  | r0 :: rs, blk, es, h, r, hr, hg => by
    by_cases hg0 : r0.isGap = true
    · obtain ⟨_, _, _, h4⟩ := matchRegs_gap hg0 h
      rcases List.mem_cons.mp hr with rfl | hr'
      · rw [hg0] at hg; cases hg
      · exact match_covers rs _ es h4 r hr' hg
    · have hg0' : r0.isGap = false := by simpa using hg0
      obtain ⟨_, _, i, fr, es', hes, hk, _, _, hrest⟩ := matchRegs_nongap hg0' h
      subst hes
      rcases List.mem_cons.mp hr with rfl | hr'
      · exact ⟨(i, fr), List.mem_cons_self, hk⟩
      · obtain ⟨e, he, hke⟩ := match_covers rs _ es' hrest r hr' hg
        exact ⟨e, List.mem_cons_of_mem _ he, hke⟩

end Fiano.Uefi

namespace Fiano.Uefi
open Fiano Fiano.Uefi.Spec

/-- what the region loop needs to know about a selected table entry -/
structure EntryOk (all : List RegI) (e : Nat × FlashRegion) : Prop where
  hbase : 1 ≤ e.2.base
  hfacts : ∃ r, regAt all 1 e.2.base = some r ∧ kindOk r e.1 = true ∧ e.2.limit + 1 = e.2.base + r.blocks ∧
    r.data.length % 4096 = 0 ∧ slice (serRegs all) ((e.2.base - 1) * 4096) r.data.length = r.data ∧
    (∀ b, r = .bios b → wfBios b = true)

theorem kindOk_cases {r : RegI} {i : Nat} (h : kindOk r i = true) :
    (i = 0 ∧ ∃ b, r = .bios b) ∨ (i = 1 ∧ ∃ d, r = .me d) ∨ (2 ≤ i ∧ ∃ d, r = .raw i d) := by
  cases r with
  | bios b => left; simp only [kindOk, beq_iff_eq] at h; exact ⟨h, b, rfl⟩
  | me d => right; left; simp only [kindOk, beq_iff_eq] at h; exact ⟨h, d, rfl⟩
  | raw j d =>
    right; right
    simp only [kindOk, Bool.and_eq_true, beq_iff_eq, decide_eq_true_eq] at h
    obtain ⟨h1, h2⟩ := h
    subst h1
    exact ⟨h2, d, rfl⟩
  | gap d => simp [kindOk] at h

/-- the loop over the region table in `NewFlashImage` -/
theorem parse_regions (desc : Bytes) (all : List RegI) (nr fuel : Nat) (hd : desc.length = 4096)
    (hfuel : 4096 + (serRegs all).length + 1 ≤ fuel) :
    ∀ (frs : List FlashRegion) (i : Nat) (st : St),
    (∀ e ∈ selectEntries nr (4096 + (serRegs all).length) frs i, EntryOk all e) →
    (st.pol = 0xFF ∨ st.pol = 0xF0) →
    ∃ st', parseRegions Hooks.none fuel (desc ++ serRegs all) nr frs i st =
        .ok ((selectEntries nr (4096 + (serRegs all).length) frs i).map (mkReg all), st') ∧
      (st'.pol = 0xFF ∨ st'.pol = 0xF0) ∧ st'.ffs3 = st.ffs3 ∧
      ((∃ e ∈ selectEntries nr (4096 + (serRegs all).length) frs i, e.1 = 0) → st'.pol = 0xFF) ∧
      (st.pol = 0xFF → st'.pol = 0xFF)
  | [], i, st, _, hp => ⟨st, by simp [parseRegions, selectEntries], hp, rfl, by simp [selectEntries], id⟩
  | fr :: frs, i, st, hall, hp => by
    have hblen : (desc ++ serRegs all).length = 4096 + (serRegs all).length := by simp [hd]
    by_cases h1 : nr ≠ 0 ∧ i ≥ nr
    · have hsel0 : selectEntries nr (4096 + (serRegs all).length) (fr :: frs) i = [] := by
        simp only [selectEntries]; rw [if_pos h1]
      refine ⟨st, ?_, hp, rfl, ?_, id⟩
      · rw [parseRegions, if_pos h1, hsel0]; rfl
      · rw [hsel0]; rintro ⟨e, he, _⟩; cases he
    · by_cases h2 : fr.valid = true ∧ fr.baseOffset < 4096 + (serRegs all).length ∧
          fr.endOffset ≤ 4096 + (serRegs all).length
      · -- a selected entry
        have hsel : selectEntries nr (4096 + (serRegs all).length) (fr :: frs) i =
            (i, fr) :: selectEntries nr (4096 + (serRegs all).length) frs (i + 1) := by
          simp only [selectEntries]; rw [if_neg h1, if_pos h2]
        rw [hsel] at hall ⊢
        obtain ⟨hb, r, hat, hk, hlim, hmod, hsl, hwf⟩ := hall (i, fr) List.mem_cons_self
        simp only at hb hat hk hlim hsl
        have hskip : ¬ (¬ fr.valid = true ∨ fr.baseOffset ≥ (desc ++ serRegs all).length ∨
            fr.endOffset > (desc ++ serRegs all).length) := by
          rw [hblen]
          intro hc
          rcases hc with hc | hc | hc
          · exact hc h2.1
          · have := h2.2.1; omega
          · have := h2.2.2; omega
        have hrbuf : slice (desc ++ serRegs all) fr.baseOffset (fr.endOffset - fr.baseOffset) = r.data := by
          have hbm := blocks_mul r hmod
          have e1 : fr.endOffset - fr.baseOffset = r.data.length := by
            simp only [FlashRegion.endOffset, FlashRegion.baseOffset, hlim]
            rw [Nat.add_mul]; omega
          have e2 : fr.baseOffset = 4096 + (fr.base - 1) * 4096 := by
            simp only [FlashRegion.baseOffset]
            have : fr.base = 1 + (fr.base - 1) := by omega
            rw [this, Nat.add_mul]; simp
          rw [e1, e2, slice_append_skip _ _ _ _ _ hd]; exact hsl
        rw [parseRegions, if_neg h1, if_neg hskip, hrbuf]
        rcases kindOk_cases hk with ⟨hi, b, rfl⟩ | ⟨hi, d, rfl⟩ | ⟨hi, d, rfl⟩
        · -- the BIOS region
          subst hi
          have hwb := hwf b rfl
          have hpb := parse_bios_region b (some fr) fuel st hwb
            (by simp only [RegI.data] at hsl
                have : (serBios b).length ≤ (serRegs all).length := by
                  have h1 := congrArg List.length hsl
                  simp only [slice, List.length_take, List.length_drop] at h1
                  omega
                omega) hp
          obtain ⟨st2, h2', hp2, hf2, _, hk2⟩ := parse_regions desc all nr fuel hd hfuel frs (0 + 1)
            { st with pol := 0xFF } (fun e he => hall e (List.mem_cons_of_mem _ he)) (Or.inl rfl)
          refine ⟨st2, ?_, hp2, by rw [hf2], fun _ => hk2 rfl, fun _ => hk2 rfl⟩
          simp only [RegI.data] at hpb ⊢
          simp only [if_true, hpb, h2', List.map_cons, mkReg, hat]
        · subst hi
          obtain ⟨st2, h2', hp2, hf2, hb2, hk2⟩ := parse_regions desc all nr fuel hd hfuel frs (1 + 1) st
            (fun e he => hall e (List.mem_cons_of_mem _ he)) hp
          refine ⟨st2, ?_, hp2, hf2, ?_, hk2⟩
          · simp only [show (1 : Nat) ≠ 0 by decide, if_false, if_true, h2', List.map_cons, mkReg, hat, RegI.data]
          · rintro ⟨e, he, he0⟩
            rcases List.mem_cons.mp he with rfl | he'
            · cases he0
            · exact hb2 ⟨e, he', he0⟩
        · obtain ⟨st2, h2', hp2, hf2, hb2, hk2⟩ := parse_regions desc all nr fuel hd hfuel frs (i + 1) st
            (fun e he => hall e (List.mem_cons_of_mem _ he)) hp
          refine ⟨st2, ?_, hp2, hf2, ?_, hk2⟩
          · have h0 : i ≠ 0 := by omega
            have h1' : i ≠ 1 := by omega
            simp only [h0, h1', if_false, h2', List.map_cons, mkReg, hat, RegI.data]
          · rintro ⟨e, he, he0⟩
            rcases List.mem_cons.mp he with rfl | he'
            · simp only at he0; omega
            · exact hb2 ⟨e, he', he0⟩
      · -- skipped
        have hsel : selectEntries nr (4096 + (serRegs all).length) (fr :: frs) i =
            selectEntries nr (4096 + (serRegs all).length) frs (i + 1) := by
          simp only [selectEntries]; rw [if_neg h1, if_neg h2]
        rw [hsel] at hall ⊢
        have hskip : ¬ fr.valid = true ∨ fr.baseOffset ≥ (desc ++ serRegs all).length ∨
            fr.endOffset > (desc ++ serRegs all).length := by
          rw [hblen]
          by_cases hv : fr.valid = true
          · by_cases hb : fr.baseOffset < 4096 + (serRegs all).length
            · right; right
              have : ¬ fr.endOffset ≤ 4096 + (serRegs all).length := fun hc => h2 ⟨hv, hb, hc⟩
              omega
            · right; left; omega
          · left; exact hv
        rw [parseRegions, if_neg h1, if_pos hskip]
        exact parse_regions desc all nr fuel hd hfuel frs (i + 1) st hall hp

end Fiano.Uefi

namespace Fiano.Uefi
open Fiano Fiano.Uefi.Spec

/-- the node `tree` prescribes for one region starting at block `blk` -/
def regNode (tbl : List FlashRegion) (r : RegI) (blk : Nat) : Region :=
  match r with
  | .bios b => Region.bios (treeBios b (some (tbl.getD 0 ⟨blk, blk + r.blocks - 1⟩)))
  | .me d => Region.me d (tbl.getD 1 ⟨blk, blk + r.blocks - 1⟩)
  | .raw i d => Region.raw d (tbl.getD i ⟨blk, blk + r.blocks - 1⟩) i
  | .gap d => Region.raw d ⟨blk, blk + r.blocks - 1⟩ (-1)

theorem treeRegs_cons (tbl : List FlashRegion) (r : RegI) (rs : List RegI) (blk : Nat) :
    treeRegs tbl (r :: rs) blk = regNode tbl r blk :: treeRegs tbl rs (blk + r.blocks) := by
  cases r <;> rfl

theorem mkReg_eq (all : List RegI) (tbl : List FlashRegion) (r : RegI) (i blk : Nat) (fr : FlashRegion)
    (hat : regAt all 1 fr.base = some r) (hk : kindOk r i = true) (ht : ∀ d, tbl.getD i d = fr) :
    mkReg all (i, fr) = regNode tbl r blk := by
  rcases kindOk_cases hk with ⟨hi, b, rfl⟩ | ⟨hi, d, rfl⟩ | ⟨hi, d, rfl⟩
  · subst hi; simp only [mkReg, hat, regNode, ht]
  · subst hi; simp only [mkReg, hat, regNode, ht]
  · simp only [mkReg, hat, regNode, ht]

theorem matchRegs_nil_es : ∀ (rs : List RegI) (blk : Nat), matchRegs rs blk [] = true → noAdjacentGaps rs = true →
    rs = [] ∨ ∃ r, rs = [r] ∧ r.isGap = true
  | [], _, _, _ => Or.inl rfl
  | r :: rs, blk, h, hn => by
    by_cases hg : r.isGap = true
    · obtain ⟨_, _, _, h4⟩ := matchRegs_gap hg h
      cases rs with
      | nil => exact Or.inr ⟨r, rfl, hg⟩
      | cons r2 rs2 =>
        exfalso
        by_cases hg2 : r2.isGap = true
        · cases r <;> cases r2 <;> simp_all [RegI.isGap, noAdjacentGaps]
        · have hg2' : r2.isGap = false := by simpa using hg2
          obtain ⟨_, _, i, fr, es', hes, _⟩ := matchRegs_nongap hg2' h4
          cases hes
    · have hg' : r.isGap = false := by simpa using hg
      obtain ⟨_, _, i, fr, es', hes, _⟩ := matchRegs_nongap hg' h
      cases hes

theorem noAdjacentGaps_tail (r : RegI) (rs : List RegI) (h : noAdjacentGaps (r :: rs) = true) :
    noAdjacentGaps rs = true := by
  cases r <;> cases rs <;> try rfl
  all_goals (rename_i r2 rs2; cases r2 <;> simp_all [noAdjacentGaps])

theorem div_mul_4096 (a : Nat) : a * 4096 / 4096 = a := by omega

set_option maxHeartbeats 800000 in
/-- **gap filling**: `fillRegionGaps` over the sorted region nodes rebuilds the regions of the
    grammar in flash order, gaps included -/
theorem fill_ok (all : List RegI) (tbl : List FlashRegion) (buf : Bytes) :
    ∀ (rs : List RegI) (blk : Nat) (es : List (Nat × FlashRegion)) (P : Bytes),
    matchRegs rs blk es = true → noAdjacentGaps rs = true → buf = P ++ serRegs rs → P.length = blk * 4096 →
    (∀ e ∈ es, regAt all 1 e.2.base = regAt rs blk e.2.base) →
    (∀ e ∈ es, ∀ d, tbl.getD e.1 d = e.2) → buf.length / 4096 < 65536 →
    fillGaps buf buf.length (es.map (mkReg all)) (blk * 4096) = .ok (treeRegs tbl rs blk)
  | [], blk, es, P, h, _, hbuf, hP, _, _, _ => by
    simp only [matchRegs, List.isEmpty_iff] at h
    subst h
    have : buf.length = blk * 4096 := by rw [hbuf]; simp [serRegs, hP]
    simp only [List.map_nil, fillGaps, treeRegs]
    rw [if_neg (by omega)]
  | r :: rs, blk, es, P, h, hn, hbuf, hP, hlook, htbl, hlt => by
    have hn' := noAdjacentGaps_tail r rs hn
    by_cases hg : r.isGap = true
    · -- a gap: the next table region (if any) starts after it
      obtain ⟨h1, h2, h3, h4⟩ := matchRegs_gap hg h
      obtain ⟨d, rfl⟩ : ∃ d, r = .gap d := by cases r <;> simp_all [RegI.isGap]
      have hbm := blocks_mul (.gap d) h1
      simp only [RegI.data] at hbm h1
      cases es with
      | nil =>
        rcases matchRegs_nil_es rs _ h4 hn' with rfl | ⟨r2, rfl, hg2⟩
        · have hlen : buf.length = (blk + (RegI.gap d).blocks) * 4096 := by
            rw [hbuf]; simp [serRegs, RegI.data, hP, Nat.add_mul, hbm]
          simp only [List.map_nil, fillGaps, treeRegs_cons, treeRegs, regNode]
          rw [if_pos (by rw [hlen, Nat.add_mul]; omega)]
          have hs : slice buf (blk * 4096) (buf.length - blk * 4096) = d := by
            rw [hbuf]
            simp only [serRegs, RegI.data, List.append_nil, List.length_append, hP, Nat.add_sub_cancel_left]
            exact slice_mid' P d _ _ hP rfl
          rw [hs, hlen, div_mul_4096, div_mul_4096]
          have : blk + (RegI.gap d).blocks < 65536 := by rw [hlen, div_mul_4096] at hlt; exact hlt
          have e1 : blk % 65536 = blk := by omega
          have e2 : ((blk + (RegI.gap d).blocks) % 65536 + 65535) % 65536 = blk + (RegI.gap d).blocks - 1 := by omega
          rw [e1, e2]
          rfl
        · exfalso; cases r2 <;> simp_all [RegI.isGap, noAdjacentGaps]
      | cons e es' =>
        -- the gap is followed by a table region
        cases rs with
        | nil => simp [matchRegs] at h4
        | cons r2 rs2 =>
          have hg2 : r2.isGap = false := by
            cases r2 <;> simp_all [RegI.isGap, noAdjacentGaps]
          obtain ⟨k1, k2, i, fr, es'', hes, hk, hbase, hlim, hrest⟩ := matchRegs_nongap hg2 h4
          cases hes
          have hbm2 := blocks_mul r2 k1
          have hat : regAt all 1 fr.base = some r2 := by
            rw [hlook (i, fr) List.mem_cons_self]
            simp only [regAt]
            rw [if_neg (by omega), if_pos hbase.symm]
          have hmk := mkReg_eq all tbl r2 i (blk + (RegI.gap d).blocks) fr hat hk (htbl (i, fr) List.mem_cons_self)
          have ih := fill_ok all tbl buf rs2 (blk + (RegI.gap d).blocks + r2.blocks) es' (P ++ d ++ r2.data) hrest
            (noAdjacentGaps_tail r2 rs2 hn')
            (by rw [hbuf]; simp [serRegs, RegI.data, List.append_assoc])
            (by simp only [List.length_append, hP, Nat.add_mul, hbm, hbm2])
            (fun e he => by
              rw [hlook e (List.mem_cons_of_mem _ he)]
              have hb := (match_facts rs2 _ es' hrest e he).1
              simp only [regAt]
              rw [if_neg (by omega), if_neg (by omega)])
            (fun e he => htbl e (List.mem_cons_of_mem _ he)) hlt
          simp only [List.map_cons, fillGaps, mkReg_fr, FlashRegion.baseOffset, FlashRegion.endOffset, hbase, hlim]
          rw [if_neg (by rw [Nat.add_mul]; omega), ih]
          simp only []
          rw [if_pos (by rw [Nat.add_mul]; omega)]
          have hs : slice buf (blk * 4096) ((blk + (RegI.gap d).blocks) * 4096 - blk * 4096) = d := by
            rw [hbuf, Nat.add_mul, Nat.add_sub_cancel_left, hbm]
            simp only [serRegs, RegI.data]
            rw [← List.append_assoc]
            exact slice_mid P d _ _ _ hP rfl
          have hlt2 : blk + (RegI.gap d).blocks < 65536 := by
            have : (blk + (RegI.gap d).blocks + r2.blocks) * 4096 ≤ buf.length := by
              rw [hbuf]; simp [serRegs, RegI.data, hP, Nat.add_mul, hbm, hbm2]; omega
            omega
          rw [hs, div_mul_4096, div_mul_4096, treeRegs_cons, treeRegs_cons, hmk]
          have e1 : blk % 65536 = blk := by omega
          have e2 : ((blk + (RegI.gap d).blocks) % 65536 + 65535) % 65536 = blk + (RegI.gap d).blocks - 1 := by omega
          simp only [regNode, e1, e2]
    · -- a table region
      have hg' : r.isGap = false := by simpa using hg
      obtain ⟨h1, h2, i, fr, es', hes, hk, hbase, hlim, hrest⟩ := matchRegs_nongap hg' h
      cases hes
      have hbm := blocks_mul r h1
      have hat : regAt all 1 fr.base = some r := by
        rw [hlook (i, fr) List.mem_cons_self]
        simp only [regAt]
        rw [if_pos hbase.symm]
      have hmk := mkReg_eq all tbl r i blk fr hat hk (htbl (i, fr) List.mem_cons_self)
      have ih := fill_ok all tbl buf rs (blk + r.blocks) es' (P ++ r.data) hrest hn'
        (by rw [hbuf]; simp [serRegs_cons, List.append_assoc])
        (by simp only [List.length_append, hP, Nat.add_mul, hbm])
        (fun e he => by
          rw [hlook e (List.mem_cons_of_mem _ he)]
          have hb := (match_facts rs _ es' hrest e he).1
          simp only [regAt]
          rw [if_neg (by omega)])
        (fun e he => htbl e (List.mem_cons_of_mem _ he)) hlt
      simp only [List.map_cons, fillGaps, mkReg_fr, FlashRegion.baseOffset, FlashRegion.endOffset, hbase, hlim]
      rw [if_neg (by omega), ih]
      simp only []
      rw [if_neg (by omega), treeRegs_cons, hmk]

end Fiano.Uefi

namespace Fiano.Uefi
open Fiano Fiano.Uefi.Spec

theorem mem_selectEntries (nr total : Nat) : ∀ (frs : List FlashRegion) (i j : Nat) (fr : FlashRegion),
    (j, fr) ∈ selectEntries nr total frs i → i ≤ j ∧ frs[j - i]? = some fr
  | [], _, _, _, h => by simp [selectEntries] at h
  | x :: xs, i, j, fr, h => by
    simp only [selectEntries] at h
    split at h
    · cases h
    · split at h
      · rcases List.mem_cons.mp h with he | he
        · cases he; simp
        · obtain ⟨h1, h2⟩ := mem_selectEntries nr total xs (i + 1) j fr he
          refine ⟨by omega, ?_⟩
          have : j - i = (j - (i + 1)) + 1 := by omega
          rw [this]; simpa using h2
      · obtain ⟨h1, h2⟩ := mem_selectEntries nr total xs (i + 1) j fr h
        refine ⟨by omega, ?_⟩
        have : j - i = (j - (i + 1)) + 1 := by omega
        rw [this]; simpa using h2

theorem slice_append_left' (a b : Bytes) (off len : Nat) (h : off + len ≤ a.length) :
    slice (a ++ b) off len = slice a off len := by
  unfold slice
  rw [List.drop_append_of_le_length (by omega), List.take_append_of_le_length (by simp; omega)]

theorem findSignature_append (desc X : Bytes) (h : 20 ≤ desc.length) :
    findSignature (desc ++ X) = findSignature desc := by
  unfold findSignature
  have h1 : ¬ ((desc ++ X).length < 20) := by simp only [List.length_append]; omega
  have h2 : ¬ (desc.length < 20) := by omega
  simp only [h1, h2, if_false, slice_append_left' desc X 16 4 (by omega), slice_append_left' desc X 0 4 (by omega)]

/-- `NewFlashImage` on a serialised flash image of the grammar -/
theorem parse_flash (f : FlashI) (h : wfFlash f = true) (fuel : Nat)
    (hfuel : (ser (.flash f)).length + 1 ≤ fuel) :
    ∃ st', parseWith Hooks.none fuel (ser (.flash f)) {} = .ok (tree (.flash f), st') ∧ st'.pol = 0xFF ∧
      st'.ffs3 = false := by
  simp only [wfFlash, Bool.and_eq_true, beq_iff_eq, decide_eq_true_eq] at h
  obtain ⟨⟨⟨⟨⟨⟨⟨⟨hlen, hsig⟩, hrs⟩, hvalid⟩, htot⟩, hwf⟩, hbios⟩, hnadj⟩, hmatch⟩ := h
  have hser : ser (.flash f) = f.desc ++ serRegs f.regions := rfl
  have hblen : (f.desc ++ serRegs f.regions).length = 4096 + (serRegs f.regions).length := by simp [hlen]
  -- facts about the selected entries
  have hfacts := match_facts f.regions 1 _ hmatch
  have hentry : ∀ e ∈ selectEntries (treeDesc f.desc).map.numberOfRegions (4096 + (serRegs f.regions).length)
      (treeDesc f.desc).region.regions 0, EntryOk f.regions e := by
    intro e he
    obtain ⟨hb, r, h1, h2, h3, h4, h5, _, h7⟩ := hfacts e ((mem_sortEntries e _).mpr he)
    refine ⟨hb, r, h1, h3, h4, h5, h7, ?_⟩
    intro b hb'
    subst hb'
    have := List.all_eq_true.mp hwf _ h2
    simpa [wfReg] using this
  rw [hser] at hfuel ⊢
  obtain ⟨st1, hpr, hp1, hf1, hb1, _⟩ := parse_regions f.desc f.regions (treeDesc f.desc).map.numberOfRegions fuel hlen
    (by rw [hblen] at hfuel; exact hfuel) (treeDesc f.desc).region.regions 0 {} hentry (Or.inr rfl)
  -- a BIOS region exists, so the polarity has been set
  have hpol : st1.pol = 0xFF := by
    apply hb1
    obtain ⟨r, hr, hrb⟩ := List.any_eq_true.mp hbios
    have hng : r.isGap = false := by cases r <;> simp_all [RegI.isBios, RegI.isGap]
    obtain ⟨e, he, hke⟩ := match_covers f.regions 1 _ hmatch r hr hng
    refine ⟨e, (mem_sortEntries e _).mp he, ?_⟩
    cases r <;> simp_all [RegI.isBios, kindOk]
  -- the table is non-empty and its first entry valid
  obtain ⟨b0, brest, htbl0⟩ : ∃ b0 brest, (treeDesc f.desc).region.regions = b0 :: brest := by
    simp only [treeDesc, decodeRegions]; exact ⟨_, _, rfl⟩
  have hv0 : b0.valid = true := by rw [htbl0] at hvalid; simpa using hvalid
  have hfill := fill_ok f.regions (treeDesc f.desc).region.regions (f.desc ++ serRegs f.regions) f.regions 1
    (sortEntries (selectEntries (treeDesc f.desc).map.numberOfRegions (4096 + (serRegs f.regions).length)
      (treeDesc f.desc).region.regions 0)) f.desc hmatch hnadj rfl (by rw [hlen])
    (fun _ _ => rfl)
    (fun e he d => by
      obtain ⟨i, fr⟩ := e
      obtain ⟨_, h2⟩ := mem_selectEntries _ _ _ 0 i fr ((mem_sortEntries _ _).mp he)
      simp only [Nat.sub_zero] at h2
      rw [List.getD_eq_getElem?_getD, h2]; rfl)
    (by rw [hblen]; exact htot)
  refine ⟨st1, ?_, hpol, by rw [hf1]⟩
  unfold parseWith
  rw [findSignature_append f.desc _ (by omega)]
  obtain ⟨ms, hms⟩ := Option.isSome_iff_exists.mp hsig
  simp only [hms]
  unfold parseFlash
  rw [if_neg (by rw [hblen]; omega), take_append_len f.desc _ 4096 hlen,
    parseDescriptor_desc f.desc hlen hsig hrs]
  simp only [htbl0, hv0, not_true_eq_false, if_false]
  rw [← htbl0, hpr]
  simp only [sortRegions_map]
  have hfill' : fillGaps (f.desc ++ serRegs f.regions) (f.desc ++ serRegs f.regions).length
      (List.map (mkReg f.regions) (sortEntries (selectEntries (treeDesc f.desc).map.numberOfRegions
        (4096 + (serRegs f.regions).length) (treeDesc f.desc).region.regions 0))) 4096 =
      .ok (treeRegs (treeDesc f.desc).region.regions f.regions 1) := hfill
  rw [hfill']
  rfl

end Fiano.Uefi
