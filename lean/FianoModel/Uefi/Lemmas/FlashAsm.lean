/-
  The FlashImage case of Assemble on a parsed flash image of the grammar.
-/
import FianoModel.Uefi.Lemmas.Flash

namespace Fiano.Uefi
open Fiano Fiano.Uefi.Spec

/-- the `FlashRegion` every region node of a well-formed image carries: its block range -/
def blockFrs : List RegI → Nat → List (Option FlashRegion)
  | [], _ => []
  | r :: rs, blk => some ⟨blk, blk + r.blocks - 1⟩ :: blockFrs rs (blk + r.blocks)

theorem regNode_fr (all : List RegI) (tbl : List FlashRegion) :
    ∀ (rs : List RegI) (blk : Nat) (es : List (Nat × FlashRegion)), matchRegs rs blk es = true →
    (∀ e ∈ es, ∀ d, tbl.getD e.1 d = e.2) →
    (treeRegs tbl rs blk).map Region.fr = blockFrs rs blk
  | [], _, _, _, _ => rfl
  | r :: rs, blk, es, h, htbl => by
    rw [treeRegs_cons]
    simp only [List.map_cons, blockFrs]
    by_cases hg : r.isGap = true
    · obtain ⟨_, _, _, h4⟩ := matchRegs_gap hg h
      obtain ⟨d, rfl⟩ : ∃ d, r = .gap d := by cases r <;> simp_all [RegI.isGap]
      rw [regNode_fr all tbl rs _ es h4 htbl]
      simp [regNode, Region.fr]
    · have hg' : r.isGap = false := by simpa using hg
      obtain ⟨_, h2, i, fr, es', hes, hk, hbase, hlim, hrest⟩ := matchRegs_nongap hg' h
      subst hes
      rw [regNode_fr all tbl rs _ es' hrest (fun e he => htbl e (List.mem_cons_of_mem _ he))]
      have ht := htbl (i, fr) List.mem_cons_self
      have hfr : fr = ⟨blk, blk + r.blocks - 1⟩ := by
        cases fr; simp only [FlashRegion.mk.injEq] at *; omega
      rcases kindOk_cases hk with ⟨hi, b, rfl⟩ | ⟨hi, d, rfl⟩ | ⟨hi, d, rfl⟩
      · subst hi; simp only [regNode, Region.fr, treeBios, ht, hfr]
      · subst hi; simp only [regNode, Region.fr, ht, hfr]
      · simp only [regNode, Region.fr, ht, hfr]

theorem repoint_eq (tbl : List FlashRegion) (nr : Nat) (r : Region)
    (h : r.rtype ≠ -1 → ∀ x, tbl[r.rtype.toNat]? = some x → r.setFr x = r) : repoint tbl nr r = r := by
  unfold repoint
  dsimp only
  split
  · rfl
  · split
    · rfl
    · split
      · rfl
      · split
        · rename_i h1 _ _ _ x hx; exact h h1 x hx
        · rfl

/-- re-pointing a region node to the table entry it was built from changes nothing -/
theorem repoint_regNode (tbl : List FlashRegion) (nr : Nat) (r : RegI) (blk : Nat) :
    repoint tbl nr (regNode tbl r blk) = regNode tbl r blk := by
  apply repoint_eq
  intro hne x hx
  cases r with
  | gap d => exact absurd rfl hne
  | bios b =>
    have hx' : tbl[0]? = some x := hx
    simp [regNode, Region.setFr, treeBios, List.getD_eq_getElem?_getD, hx']
  | me d =>
    have hx' : tbl[1]? = some x := hx
    simp [regNode, Region.setFr, List.getD_eq_getElem?_getD, hx']
  | raw i d =>
    have hx' : tbl[i]? = some x := by simpa [regNode, Region.rtype] using hx
    simp [regNode, Region.setFr, List.getD_eq_getElem?_getD, hx']

end Fiano.Uefi

namespace Fiano.Uefi
open Fiano Fiano.Uefi.Spec

/-- Assemble on the region nodes: same `FlashRegion`s, the buffers are the serialised regions, and
    re-pointing stays the identity -/
theorem asm_regions (tbl : List FlashRegion) (nr : Nat) : ∀ (rs : List RegI) (blk : Nat) (st : St),
    rs.all wfReg = true → st.pol = 0xFF → st.ffs3 = false →
    ∃ l st', asmRegions Hooks.none (treeRegs tbl rs blk) st = .ok (l, st') ∧
      l.map Region.fr = (treeRegs tbl rs blk).map Region.fr ∧ l.map Region.buf = rs.map RegI.data ∧
      (∀ r ∈ l, repoint tbl nr r = r) ∧ st'.pol = 0xFF ∧ st'.ffs3 = false
  | [], blk, st, _, hp, hf => ⟨[], st, by simp [treeRegs, asmRegions], rfl, rfl, by simp, hp, hf⟩
  | r :: rs, blk, st, hwf, hp, hf => by
    simp only [List.all_cons, Bool.and_eq_true] at hwf
    rw [treeRegs_cons]
    cases r with
    | bios b =>
      have hwb : wfBios b = true := by simpa [wfReg] using hwf.1
      obtain ⟨b', st1, h1, hb1, hfr1, hp1, hf1⟩ := asm_bios b (some (tbl.getD 0 ⟨blk, blk + (RegI.bios b).blocks - 1⟩))
        st hwb hp hf
      obtain ⟨l, st2, h2, hl1, hl2, hl3, hp2, hf2⟩ := asm_regions tbl nr rs (blk + (RegI.bios b).blocks) st1 hwf.2 hp1 hf1
      refine ⟨.bios b' :: l, st2, ?_, ?_, ?_, ?_, hp2, hf2⟩
      · simp only [regNode, asmRegions, h1, h2]
      · simp only [List.map_cons, hl1, regNode, Region.fr, hfr1, treeBios]
      · simp only [List.map_cons, hl2, Region.buf, hb1, RegI.data]
      · intro r hr
        rcases List.mem_cons.mp hr with rfl | hr'
        · apply repoint_eq
          intro _ x hx
          have hx' : tbl[0]? = some x := hx
          simp only [Region.setFr, hfr1]
          simp [List.getD_eq_getElem?_getD, hx']
          cases b'; simp_all
        · exact hl3 r hr'
    | me d =>
      obtain ⟨l, st2, h2, hl1, hl2, hl3, hp2, hf2⟩ := asm_regions tbl nr rs (blk + (RegI.me d).blocks) st hwf.2 hp hf
      refine ⟨regNode tbl (.me d) blk :: l, st2, ?_, by simp [hl1], by simp [hl2, regNode, Region.buf, RegI.data], ?_,
        hp2, hf2⟩
      · simp only [regNode, asmRegions, h2]
      · intro r hr
        rcases List.mem_cons.mp hr with rfl | hr'
        · exact repoint_regNode tbl nr _ blk
        · exact hl3 r hr'
    | raw i d =>
      obtain ⟨l, st2, h2, hl1, hl2, hl3, hp2, hf2⟩ := asm_regions tbl nr rs (blk + (RegI.raw i d).blocks) st hwf.2 hp hf
      refine ⟨regNode tbl (.raw i d) blk :: l, st2, ?_, by simp [hl1], by simp [hl2, regNode, Region.buf, RegI.data],
        ?_, hp2, hf2⟩
      · simp only [regNode, asmRegions, h2]
      · intro r hr
        rcases List.mem_cons.mp hr with rfl | hr'
        · exact repoint_regNode tbl nr _ blk
        · exact hl3 r hr'
    | gap d =>
      obtain ⟨l, st2, h2, hl1, hl2, hl3, hp2, hf2⟩ := asm_regions tbl nr rs (blk + (RegI.gap d).blocks) st hwf.2 hp hf
      refine ⟨regNode tbl (.gap d) blk :: l, st2, ?_, by simp [hl1], by simp [hl2, regNode, Region.buf, RegI.data],
        ?_, hp2, hf2⟩
      · simp only [regNode, asmRegions, h2]
      · intro r hr
        rcases List.mem_cons.mp hr with rfl | hr'
        · exact repoint_regNode tbl nr _ blk
        · exact hl3 r hr'

/-- a list of regions whose bases increase strictly is left alone by the sort -/
theorem sortRegions_sorted : ∀ (l : List Region),
    (∀ k, ∀ x y, l[k]? = some x → l[k + 1]? = some y →
      (x.fr.map (·.base)).getD 0 < (y.fr.map (·.base)).getD 0) →
    sortRegions l = l
  | [], _ => rfl
  | [x], _ => rfl
  | x :: y :: ys, h => by
    have ih := sortRegions_sorted (y :: ys) (fun k a b ha hb => h (k + 1) a b (by simpa using ha) (by simpa using hb))
    unfold sortRegions at ih ⊢
    simp only [List.foldr_cons] at ih ⊢
    rw [ih]
    simp only [insertRegion]
    rw [if_pos (h 0 x y rfl rfl)]

theorem blockFrs_get : ∀ (rs : List RegI) (blk k : Nat) (fr : FlashRegion),
    (blockFrs rs blk)[k]? = some (some fr) → blk ≤ fr.base
  | [], _, _, _, h => by simp [blockFrs] at h
  | r :: rs, blk, 0, fr, h => by simp [blockFrs] at h; rw [← h]; exact Nat.le_refl _
  | r :: rs, blk, k + 1, fr, h => by
    simp only [blockFrs, List.getElem?_cons_succ] at h
    have := blockFrs_get rs _ k fr h
    omega

theorem blockFrs_sorted : ∀ (rs : List RegI) (blk : Nat), (∀ r ∈ rs, 1 ≤ r.blocks) →
    ∀ k a b, (blockFrs rs blk)[k]? = some a → (blockFrs rs blk)[k + 1]? = some b →
      (a.map (·.base)).getD 0 < (b.map (·.base)).getD 0
  | [], _, _, k, a, b, ha, _ => by simp [blockFrs] at ha
  | r :: rs, blk, hn, 0, a, b, ha, hb => by
    simp only [blockFrs, List.getElem?_cons_zero, Option.some.injEq] at ha
    simp only [blockFrs, List.getElem?_cons_succ] at hb
    subst ha
    cases rs with
    | nil => simp [blockFrs] at hb
    | cons r2 rs2 =>
      simp only [blockFrs, List.getElem?_cons_zero, Option.some.injEq] at hb
      subst hb
      have := hn r List.mem_cons_self
      simp; omega
  | r :: rs, blk, hn, k + 1, a, b, ha, hb => by
    simp only [blockFrs, List.getElem?_cons_succ] at ha hb
    exact blockFrs_sorted rs _ (fun r hr => hn r (List.mem_cons_of_mem _ hr)) k a b ha hb

/-- the tiling check and concatenation over regions carrying their block ranges -/
theorem tile_ok : ∀ (l : List Region) (rs : List RegI) (blk : Nat) (acc : Bytes),
    l.map Region.fr = blockFrs rs blk → l.map Region.buf = rs.map RegI.data →
    (∀ r ∈ rs, r.data.length % 4096 = 0 ∧ 1 ≤ r.blocks) →
    tileRegions l (blk * 4096) acc = .ok (acc ++ serRegs rs, blk * 4096 + (serRegs rs).length)
  | [], [], blk, acc, _, _, _ => by simp [tileRegions, serRegs]
  | [], r :: rs, _, _, h, _, _ => by simp [blockFrs] at h
  | x :: l, [], _, _, h, _, _ => by simp [blockFrs] at h
  | x :: l, r :: rs, blk, acc, hfr, hbuf, hall => by
    simp only [List.map_cons, blockFrs, List.cons.injEq] at hfr hbuf
    obtain ⟨h1, h2⟩ := hall r List.mem_cons_self
    have hbm := blocks_mul r h1
    have ih := tile_ok l rs (blk + r.blocks) (acc ++ x.buf) hfr.2 hbuf.2
      (fun r' hr' => hall r' (List.mem_cons_of_mem _ hr'))
    have c1 : ¬ ((⟨blk, blk + r.blocks - 1⟩ : FlashRegion).baseOffset < blk * 4096) := by
      simp [FlashRegion.baseOffset]
    have c2 : ¬ ((⟨blk, blk + r.blocks - 1⟩ : FlashRegion).baseOffset > blk * 4096) := by
      simp [FlashRegion.baseOffset]
    have e : (⟨blk, blk + r.blocks - 1⟩ : FlashRegion).endOffset = (blk + r.blocks) * 4096 := by
      simp only [FlashRegion.endOffset]
      have : blk + r.blocks - 1 + 1 = blk + r.blocks := by omega
      rw [this]
    simp only [tileRegions, hfr.1]
    rw [if_neg c1, if_neg c2, e, ih, hbuf.1, serRegs_cons]
    simp only [List.append_assoc, List.length_append, Nat.add_mul, hbm, Nat.add_assoc]

end Fiano.Uefi

namespace Fiano.Uefi
open Fiano Fiano.Uefi.Spec

theorem match_blocks : ∀ (rs : List RegI) (blk : Nat) (es : List (Nat × FlashRegion)), matchRegs rs blk es = true →
    ∀ r ∈ rs, r.data.length % 4096 = 0 ∧ 1 ≤ r.blocks
  | [], _, _, _, r, hr => by cases hr
  | r0 :: rs, blk, es, h, r, hr => by
    by_cases hg : r0.isGap = true
    · obtain ⟨h1, h2, _, h4⟩ := matchRegs_gap hg h
      rcases List.mem_cons.mp hr with rfl | hr'
      · exact ⟨h1, h2⟩
      · exact match_blocks rs _ es h4 r hr'
    · have hg' : r0.isGap = false := by simpa using hg
      obtain ⟨h1, h2, _, _, es', _, _, _, _, hrest⟩ := matchRegs_nongap hg' h
      rcases List.mem_cons.mp hr with rfl | hr'
      · exact ⟨h1, h2⟩
      · exact match_blocks rs _ es' hrest r hr'

/-- the FlashImage case of Assemble on a parsed flash image of the grammar -/
theorem asm_flash (f : FlashI) (h : wfFlash f = true) (st : St) (hp : st.pol = 0xFF) :
    asmWith Hooks.none (tree (.flash f)) st = .ok (ser (.flash f)) := by
  simp only [wfFlash, Bool.and_eq_true, beq_iff_eq, decide_eq_true_eq] at h
  obtain ⟨⟨⟨⟨⟨⟨⟨⟨hlen, hsig⟩, hrs⟩, hvalid⟩, htot⟩, hwf⟩, hbios⟩, hnadj⟩, hmatch⟩ := h
  have hser : ser (.flash f) = f.desc ++ serRegs f.regions := rfl
  have htblmem : ∀ e ∈ sortEntries (selectEntries (treeDesc f.desc).map.numberOfRegions
      (4096 + (serRegs f.regions).length) (treeDesc f.desc).region.regions 0),
      ∀ d, (treeDesc f.desc).region.regions.getD e.1 d = e.2 := by
    intro e he d
    obtain ⟨i, fr⟩ := e
    obtain ⟨_, h2⟩ := mem_selectEntries _ _ _ 0 i fr ((mem_sortEntries _ _).mp he)
    simp only [Nat.sub_zero] at h2
    rw [List.getD_eq_getElem?_getD, h2]; rfl
  have hfrs := regNode_fr f.regions (treeDesc f.desc).region.regions f.regions 1 _ hmatch htblmem
  have hblocks := match_blocks f.regions 1 _ hmatch
  obtain ⟨l, st1, h1, hl1, hl2, hl3, _, _⟩ := asm_regions (treeDesc f.desc).region.regions
    (treeDesc f.desc).map.numberOfRegions f.regions 1 { st with ffs3 := false } hwf hp rfl
  rw [hfrs] at hl1
  obtain ⟨b0, brest, htbl0⟩ : ∃ b0 brest, (treeDesc f.desc).region.regions = b0 :: brest := by
    simp only [treeDesc, decodeRegions]; exact ⟨_, _, rfl⟩
  have hv0 : b0.valid = true := by rw [htbl0] at hvalid; simpa using hvalid
  have hrep : l.map (repoint (treeDesc f.desc).region.regions (treeDesc f.desc).map.numberOfRegions) = l := by
    rw [List.map_congr_left hl3]; simp
  have hsorted : sortRegions l = l := by
    apply sortRegions_sorted
    intro k x y hx hy
    have hx' : (blockFrs f.regions 1)[k]? = some x.fr := by rw [← hl1]; simp [hx]
    have hy' : (blockFrs f.regions 1)[k + 1]? = some y.fr := by rw [← hl1]; simp [hy]
    exact blockFrs_sorted f.regions 1 (fun r hr => (hblocks r hr).2) k _ _ hx' hy'
  have htile := tile_ok l f.regions 1 f.desc hl1 hl2 hblocks
  unfold asmWith asmTreeWith
  simp only [tree]
  unfold asmFlash
  simp only [asmDescriptor_id f.desc hlen hrs, h1]
  rw [htbl0]
  simp only [hv0, not_true_eq_false, if_false]
  rw [← htbl0, hrep, hsorted]
  have e4096 : (1 : Nat) * 4096 = 4096 := rfl
  rw [e4096] at htile
  have hbuf : (treeDesc f.desc).buf = f.desc := rfl
  rw [hbuf, htile]
  simp only [hser, List.length_append, hlen, ne_eq, not_true_eq_false, if_false, Tree.buf]

end Fiano.Uefi
