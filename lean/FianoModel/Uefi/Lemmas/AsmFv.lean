/-
  Assemble on a parsed volume: the relayout reproduces a laid-out file area (`relayout_fixed`, A.1)
  and the header patches are the identity on a header that is already consistent.
-/
import FianoModel.Uefi.Lemmas.AsmSec

namespace Fiano.Uefi
open Fiano Fiano.Uefi.Spec

/-- one file that already sits where the alignment rule puts it is appended after the erased bytes
    up to the next 8-byte boundary: no pad file is synthesised -/
theorem placeFile_fixed (buf : Bytes) (off attrs : Nat) (fileBuf : Bytes)
    (hb : buf.length = off) (hlt : off + fileBuf.length < 2 ^ 62) (hne : fileBuf.length ≠ 0)
    (hal : (alignUp off 8 + hdrLenOfAttrs attrs) % alignmentOf attrs = 0) :
    placeFile 0xFF buf off attrs fileBuf =
      .ok (buf ++ ffs (alignUp off 8 - off) ++ fileBuf, alignUp off 8 + fileBuf.length) := by
  have hge := alignUp_ge off 8 (by decide)
  have hl8 := alignUp_lt off 8 (by decide)
  have hins : insertFile 0xFF buf (alignUp off 8) fileBuf = .ok (buf ++ ffs (alignUp off 8 - off) ++ fileBuf) := by
    unfold insertFile
    rw [if_neg (by omega), if_neg hne, hb]
    rfl
  unfold placeFile
  rw [if_neg hne]
  simp only [align8_eq off (by omega)]
  by_cases h1 : alignmentOf attrs = 1
  · rw [if_neg (fun hc : alignmentOf attrs ≠ 1 => hc h1)]
    simp only [hins]
  · have hmem : alignmentOf attrs ∈ fileAlignments := by
      rcases alignmentOf_mem attrs with h | h
      · exact h
      · exact absurd h h1
    have hhl : hdrLenOfAttrs attrs = (if attrs &&& 1 ≠ 0 then 32 else 24) := rfl
    have hhl2 : hdrLenOfAttrs attrs ≤ 32 := by unfold hdrLenOfAttrs; split <;> omega
    rw [hhl] at hal hhl2
    have hfdo := alignGo_of_mod (alignUp off 8 + (if attrs &&& 1 ≠ 0 then 32 else 24)) _ hmem (by omega) hal
    rw [if_pos (show alignmentOf attrs ≠ 1 from h1)]
    simp only [hfdo]
    have e1 : (alignUp off 8 + (if attrs &&& 1 ≠ 0 then 32 else 24) + 18446744073709551616 -
        (if attrs &&& 1 ≠ 0 then 32 else 24)) % 18446744073709551616 = alignUp off 8 := by
      split <;> omega
    have e2 : (alignUp off 8 + 18446744073709551616 - alignUp off 8) % 18446744073709551616 = 0 := by omega
    have e3 : ¬ ((0 : Nat) ≥ 8 ∧ (0 : Nat) < 24) := by omega
    simp only [e1, e2, e3, if_false, ne_eq, not_true_eq_false, hins]

/-- **relayout_fixed** (A.1): the file loop of the FirmwareVolume case, run on files that already
    sit where the placement rule puts them, rebuilds exactly the serialised file area — no pad file
    is added or dropped -/
theorem placeFiles_fixed : ∀ (fs : List FileI) (off len : Nat) (acc : Bytes),
    wfFiles off len fs = true → acc.length = off → len < 2 ^ 62 →
    placeFiles 0xFF (fs.map (fun f => (storedAttrs f, serFile f))) acc off = .ok (acc ++ serFiles off fs)
  | [], off, len, acc, _, _, _ => by simp [placeFiles, serFiles]
  | f :: fs, off, len, acc, h, hacc, hlen => by
    obtain ⟨hwf, hhdr, hfit, hal, hrest⟩ := wfFiles_cons h
    have hsz := length_serFile f hwf
    have hge := sizeFile_ge f
    simp only [List.map_cons, placeFiles]
    rw [placeFile_fixed acc off (storedAttrs f) (serFile f) hacc (by rw [hsz]; have := alignUp_ge off 8 (by decide); omega)
      (by rw [hsz]; omega) hal]
    simp only [hsz]
    rw [placeFiles_fixed fs (alignUp off 8 + sizeFile f) len _ hrest
      (by simp only [List.length_append, hacc, ffs, List.length_replicate, hsz]
          have := alignUp_ge off 8 (by decide); omega) hlen]
    simp [serFiles]

end Fiano.Uefi

namespace Fiano.Uefi
open Fiano Fiano.Uefi.Spec

theorem splice_append_skip (a b d : Bytes) (n off : Nat) (ha : a.length = n) :
    splice (a ++ b) (n + off) d = a ++ splice b off d := by
  unfold splice
  rw [take_append_add a b n off ha, Nat.add_assoc, drop_append_add a b n (off + d.length) ha]
  simp [List.append_assoc]

theorem splice_prefix (m s d : Bytes) (h : m.length = d.length) : splice (m ++ s) 0 d = d ++ s := by
  unfold splice
  simp only [List.take_zero, List.nil_append, Nat.zero_add, ← h]
  rw [drop_append_len m s _ rfl]

/-- overwriting a window with the bytes it already holds -/
theorem splice_same_at (H : Bytes) (k : Nat) (zv g : Bytes) (len attrs ck eho rsv rev : Nat) (b0 : Block)
    (bs : List Block) (X : Bytes) (hz : zv.length = 16) (hg : g.length = 16) :
    let buf := fvHeader zv g len attrs ck eho rsv rev (b0 :: bs) ++ X
    splice buf 32 (leN 8 len) = buf ∧ splice buf 56 (leN 4 b0.count) = buf ∧
    splice buf 50 [0, 0] = fvHeader zv g len attrs 0 eho rsv rev (b0 :: bs) ++ X ∧
    splice (fvHeader zv g len attrs 0 eho rsv rev (b0 :: bs) ++ X) 50 (leN 2 ck) = buf := by
  intro buf
  have hb : buf = _ := fvHeader_split zv g len attrs ck eho rsv rev (b0 :: bs) X
  have hb0 : fvHeader zv g len attrs 0 eho rsv rev (b0 :: bs) ++ X = _ :=
    fvHeader_split zv g len attrs 0 eho rsv rev (b0 :: bs) X
  have hsig : fvSigBytes.length = 4 := rfl
  refine ⟨?_, ?_, ?_, ?_⟩
  · rw [hb, show (32:Nat) = 16 + 16 from rfl, splice_append_skip _ _ _ 16 16 hz,
      show (16:Nat) = 16 + 0 from rfl, splice_append_skip _ _ _ 16 0 hg, splice_prefix _ _ _ (by simp)]
  · rw [hb, show (56:Nat) = 16 + 40 from rfl, splice_append_skip _ _ _ 16 40 hz,
      show (40:Nat) = 16 + 24 from rfl, splice_append_skip _ _ _ 16 24 hg,
      show (24:Nat) = 8 + 16 from rfl, splice_append_skip _ _ _ 8 16 (by simp),
      show (16:Nat) = 4 + 12 from rfl, splice_append_skip _ _ _ 4 12 hsig,
      show (12:Nat) = 4 + 8 from rfl, splice_append_skip _ _ _ 4 8 (by simp),
      show (8:Nat) = 2 + 6 from rfl, splice_append_skip _ _ _ 2 6 (by simp),
      show (6:Nat) = 2 + 4 from rfl, splice_append_skip _ _ _ 2 4 (by simp),
      show (4:Nat) = 2 + 2 from rfl, splice_append_skip _ _ _ 2 2 (by simp),
      show (2:Nat) = 2 + 0 from rfl, splice_append_skip _ _ _ 2 0 (by simp)]
    have e : encodeBlocks (b0 :: bs) ++ (zeros 8 ++ X) =
        leN 4 b0.count ++ (leN 4 b0.size ++ (encodeBlocks bs ++ (zeros 8 ++ X))) := by
      simp [encodeBlocks]
    rw [e, splice_prefix _ _ _ rfl]
  · rw [hb, hb0, show (50:Nat) = 16 + 34 from rfl, splice_append_skip _ _ _ 16 34 hz,
      show (34:Nat) = 16 + 18 from rfl, splice_append_skip _ _ _ 16 18 hg,
      show (18:Nat) = 8 + 10 from rfl, splice_append_skip _ _ _ 8 10 (by simp),
      show (10:Nat) = 4 + 6 from rfl, splice_append_skip _ _ _ 4 6 hsig,
      show (6:Nat) = 4 + 2 from rfl, splice_append_skip _ _ _ 4 2 (by simp),
      show (2:Nat) = 2 + 0 from rfl, splice_append_skip _ _ _ 2 0 (by simp),
      splice_prefix _ _ _ (by simp)]
    rfl
  · rw [hb, hb0, show (50:Nat) = 16 + 34 from rfl, splice_append_skip _ _ _ 16 34 hz,
      show (34:Nat) = 16 + 18 from rfl, splice_append_skip _ _ _ 16 18 hg,
      show (18:Nat) = 8 + 10 from rfl, splice_append_skip _ _ _ 8 10 (by simp),
      show (10:Nat) = 4 + 6 from rfl, splice_append_skip _ _ _ 4 6 hsig,
      show (6:Nat) = 4 + 2 from rfl, splice_append_skip _ _ _ 4 2 (by simp),
      show (2:Nat) = 2 + 0 from rfl, splice_append_skip _ _ _ 2 0 (by simp),
      splice_prefix _ _ _ (by simp)]

/-- the header patches of the FirmwareVolume case leave a consistent header as it is -/
theorem patchFvHeader_id (zv g : Bytes) (len attrs eho rsv rev : Nat) (b0 : Block) (bs : List Block) (X : Bytes)
    (hz : zv.length = 16) (hg : g.length = 16) (hh : fvHdrLen (b0 :: bs) < 65536) :
    patchFvHeader (fvHeaderCk zv g len attrs eho rsv rev (b0 :: bs) ++ X) len none b0.count
      (fvHdrLen (b0 :: bs)) = .ok (fvHeaderCk zv g len attrs eho rsv rev (b0 :: bs) ++ X) := by
  obtain ⟨s32, s56, s50, sback⟩ := splice_same_at [] 0 zv g len attrs
    (0 - sum16 (fvHeader zv g len attrs 0 eho rsv rev (b0 :: bs))).toNat eho rsv rev b0 bs X hz hg
  have hl0 := fvHeader_length zv g len attrs 0 eho rsv rev (b0 :: bs) hz hg
  have hl := fvHeader_length zv g len attrs (0 - sum16 (fvHeader zv g len attrs 0 eho rsv rev (b0 :: bs))).toNat
    eho rsv rev (b0 :: bs) hz hg
  unfold patchFvHeader fvHeaderCk
  have h60 : ¬ (fvHeader zv g len attrs (0 - sum16 (fvHeader zv g len attrs 0 eho rsv rev (b0 :: bs))).toNat
      eho rsv rev (b0 :: bs) ++ X).length < 60 := by
    simp only [List.length_append, hl, fvHdrLen, List.length_cons]; omega
  simp only [h60, if_false, s32, s56, s50]
  have h1 : ¬ fvHdrLen (b0 :: bs) > (fvHeader zv g len attrs 0 eho rsv rev (b0 :: bs) ++ X).length := by
    simp only [List.length_append, hl0]; omega
  have h2 : ¬ fvHdrLen (b0 :: bs) % 2 ≠ 0 := by simp only [fvHdrLen, List.length_cons]; omega
  simp only [h1, h2, if_false, take_left_len _ _ _ hl0, sback]

/-- the second half of the FirmwareVolume case on a volume whose files fit and whose header is
    consistent: only the erased tail is appended -/
theorem finishFv_id (i : FvInfo) (zv G : Bytes) (L attrs eho rsv rev : Nat) (b0 : Block) (bs : List Block)
    (Y : Bytes) (st : St)
    (hL : i.length = L) (hb : i.blocks = b0 :: bs) (hG : i.fsGuid = G) (hh : i.headerLen = fvHdrLen (b0 :: bs))
    (hz : zv.length = 16) (hg : G.length = 16) (hhl : fvHdrLen (b0 :: bs) < 65536)
    (hE : (fvHeaderCk zv G L attrs eho rsv rev (b0 :: bs) ++ Y).length ≤ L) (hp : st.pol = 0xFF)
    (hswap : ¬ (st.ffs3 = true ∧ G = guidFFS2)) :
    finishFv i (fvHeaderCk zv G L attrs eho rsv rev (b0 :: bs) ++ Y) st =
      .ok ({ i with freeSpace := (L + 18446744073709551616 -
                align8 (fvHeaderCk zv G L attrs eho rsv rev (b0 :: bs) ++ Y).length) % 18446744073709551616 },
           fvHeaderCk zv G L attrs eho rsv rev (b0 :: bs) ++
             (Y ++ ffs (L - (fvHeaderCk zv G L attrs eho rsv rev (b0 :: bs) ++ Y).length)),
           { st with ffs3 := false }) := by
  unfold finishFv
  have hc1 : ¬ (L < (fvHeaderCk zv G L attrs eho rsv rev (b0 :: bs) ++ Y).length ∧ ¬ i.resizable = true) := by
    omega
  have hc2 : ¬ (L < (fvHeaderCk zv G L attrs eho rsv rev (b0 :: bs) ++ Y).length) := by omega
  have hsw : (st.ffs3 && G == guidFFS2) = false := by
    cases hf : st.ffs3
    · rfl
    · simp only [Bool.true_and, beq_eq_false_iff_ne, ne_eq]
      intro hc; exact hswap ⟨hf, hc⟩
  simp only [hL, hG, hb, hh, hp, hc1, hc2, if_false, hsw, Bool.false_eq_true]
  have hbuf : (if L > (fvHeaderCk zv G L attrs eho rsv rev (b0 :: bs) ++ Y).length then
        fvHeaderCk zv G L attrs eho rsv rev (b0 :: bs) ++ Y ++
          List.replicate (L - (fvHeaderCk zv G L attrs eho rsv rev (b0 :: bs) ++ Y).length) 0xFF
      else fvHeaderCk zv G L attrs eho rsv rev (b0 :: bs) ++ Y) =
      fvHeaderCk zv G L attrs eho rsv rev (b0 :: bs) ++
        (Y ++ ffs (L - (fvHeaderCk zv G L attrs eho rsv rev (b0 :: bs) ++ Y).length)) := by
    split
    · simp [ffs]
    · have : L - (fvHeaderCk zv G L attrs eho rsv rev (b0 :: bs) ++ Y).length = 0 := by omega
      rw [this]; simp [ffs]
  rw [hbuf, patchFvHeader_id zv G L attrs eho rsv rev b0 bs _ hz hg hhl]
  simp only [false_and, if_false]

end Fiano.Uefi
