/-
  The BIOS-region layer: the volume scan recovers the (padding, volume)* tail structure, and the
  BIOSRegion case of Assemble concatenates the element buffers back.
-/
import FianoModel.Uefi.Lemmas.AsmMain

namespace Fiano.Uefi
open Fiano Fiano.Uefi.Spec

def costItems : List (Bytes × FvI) → Nat
  | [] => 1
  | (_, v) :: is => 1 + costFv v + costItems is

def tailElems (tail : Bytes) (off : Nat) : List BiosElem :=
  if tail.length ≠ 0 then [BiosElem.pad tail off] else []

theorem wfItems_cons {p : Bytes} {v : FvI} {is : List (Bytes × FvI)} {tail : Bytes}
    (h : wfItems ((p, v) :: is) tail = true) :
    wfFv v = true ∧ findFvOffset (serItems ((p, v) :: is) ++ tail) = some p.length ∧ wfItems is tail = true := by
  simpa [wfItems, and_assoc] using h

theorem length_serItems : ∀ (is : List (Bytes × FvI)) (tail : Bytes), wfItems is tail = true →
    (serItems is).length = sizeItems is
  | [], _, _ => rfl
  | (p, v) :: is, tail, h => by
    obtain ⟨hv, _, hr⟩ := wfItems_cons h
    simp [serItems, sizeItems, length_serFv v hv, length_serItems is tail hr, Nat.add_assoc]

theorem sizeFv_pos (v : FvI) (h : wfFv v = true) : 64 ≤ sizeFv v := by
  cases v with
  | ffs zv v3 attrs rev rsv blocks ext files free => exact (wfFv_ffs h).hlen64
  | other zv g attrs rev rsv blocks body => simp only [sizeFv, fvHdrLen]; omega

theorem treeFv_length (v : FvI) (off : Nat) (rz : Bool) : (treeFv v off rz).info.length = sizeFv v := by
  cases v <;> simp only [treeFv, Fv.info, sizeFv]

theorem treeFv_buf (v : FvI) (off : Nat) (rz : Bool) : (treeFv v off rz).buf = serFv v := by
  cases v <;> simp only [treeFv, Fv.buf]

/-- **the volume scan**: `NewBIOSRegion`'s loop on the serialised elements -/
theorem parse_items : ∀ (is : List (Bytes × FvI)) (tail : Bytes), wfItems is tail = true →
    findFvOffset tail = none →
    ∀ (fuel off : Nat) (st : St), costItems is ≤ fuel → (st.pol = 0xFF ∨ st.pol = 0xF0) →
    parseBiosElems Hooks.none fuel (serItems is ++ tail) off st =
      .ok (treeItems is off ++ tailElems tail (off + sizeItems is),
           if is.isEmpty then st else { st with pol := 0xFF })
  | [], tail, _, ht, fuel, off, st, hf, _ => by
    obtain ⟨f, rfl, _⟩ := fuel_succ hf (by simp only [costItems]; omega)
    simp only [serItems, List.nil_append, treeItems, sizeItems, Nat.add_zero, List.isEmpty_nil, if_true]
    rw [parseBiosElems, ht]
    rfl
  | (p, v) :: is, tail, h, ht, fuel, off, st, hf, hp => by
    obtain ⟨f, rfl, hf'⟩ := fuel_succ hf (by simp only [costItems]; omega)
    simp only [costItems] at hf'
    obtain ⟨hv, hscan, hr⟩ := wfItems_cons h
    have hlen := length_serFv v hv
    have hpos := sizeFv_pos v hv
    have e : serItems ((p, v) :: is) ++ tail = p ++ (serFv v ++ (serItems is ++ tail)) := by
      simp [serItems]
    rw [parseBiosElems, hscan]
    simp only [e]
    rw [drop_append_len p _ _ rfl, take_append_len p _ _ rfl,
      parse_fv v hv f _ (off + p.length) false st (by omega) hp]
    simp only [treeFv_length]
    rw [if_neg (by omega)]
    have ed : (p ++ (serFv v ++ (serItems is ++ tail))).drop (p.length + sizeFv v) = serItems is ++ tail := by
      rw [← List.drop_drop, drop_append_len p _ _ rfl, drop_append_len _ _ _ hlen]
    rw [ed, parse_items is tail hr ht f (off + p.length + sizeFv v) { st with pol := 0xFF } (by omega) (Or.inl rfl)]
    simp only [treeItems, sizeItems, List.isEmpty_cons, Bool.false_eq_true, if_false]
    have hst : (if is.isEmpty then ({ st with pol := 0xFF } : St) else { { st with pol := 0xFF } with pol := 0xFF }) =
        { st with pol := 0xFF } := by split <;> rfl
    rw [hst]
    have hoff : off + p.length + sizeFv v + sizeItems is = off + (p.length + sizeFv v + sizeItems is) := by omega
    rw [hoff]
    by_cases hp0 : p.length = 0
    · simp [hp0]
    · have : p.length > 0 := by omega
      simp [hp0, this]

end Fiano.Uefi

namespace Fiano.Uefi
open Fiano Fiano.Uefi.Spec

theorem attrsOfFv_pol (v : FvI) (h : wfFv v = true) : attrsOfFv v &&& 0x800 ≠ 0 := by
  cases v with
  | ffs zv v3 attrs rev rsv blocks ext files free => exact (wfFv_ffs h).hpol
  | other zv g attrs rev rsv blocks body => exact (wfFv_other h).hpol

/-- children of the BIOS region after Assemble: same buffers; the first volume keeps its attributes -/
theorem asm_items : ∀ (is : List (Bytes × FvI)) (tail : Bytes), wfItems is tail = true →
    ∀ (off k : Nat) (st : St), st.pol = 0xFF → st.ffs3 = false →
    ∃ es' st', asmBiosElems Hooks.none (treeItems is off ++ tailElems tail k) st = .ok (es', st') ∧
      (es'.map BiosElem.buf).flatten = serItems is ++ tail ∧ st'.pol = 0xFF ∧ st'.ffs3 = false ∧
      (∀ p0 v0 rest, is = (p0, v0) :: rest → ∃ v', firstFv es' = some v' ∧ v'.info.attrs = attrsOfFv v0)
  | [], tail, _, off, k, st, hp, hf => by
    refine ⟨tailElems tail k, st, ?_, ?_, hp, hf, by intro p0 v0 rest hc; cases hc⟩
    · simp only [treeItems, List.nil_append, tailElems]
      split <;> simp [asmBiosElems]
    · simp only [tailElems, serItems, List.nil_append]
      split
      · simp [BiosElem.buf]
      · rename_i hc
        have : tail = [] := List.length_eq_zero_iff.mp (by omega)
        simp [this]
  | (p, v) :: is, tail, h, off, k, st, hp, hf => by
    obtain ⟨hv, _, hr⟩ := wfItems_cons h
    obtain ⟨v', st1, h1, hb1, ha1, hp1, hf1⟩ := asm_fv v hv (off + p.length) false st hp (by rw [hf]; intro hc; cases hc)
    have hf1' : st1.ffs3 = false := by
      cases hc : st1.ffs3
      · rfl
      · have := hf1 hc; rw [hf] at this; cases this
    obtain ⟨es2, st2, h2, hb2, hp2, hf2, _⟩ := asm_items is tail hr (off + p.length + sizeFv v) k st1 hp1 hf1'
    by_cases hp0 : p.length = 0
    · have hpe : p = [] := List.length_eq_zero_iff.mp hp0
      refine ⟨.fv v' :: es2, st2, ?_, ?_, hp2, hf2, ?_⟩
      · rw [hp0] at h1 h2
        simp only [treeItems, hp0, ne_eq, not_true_eq_false, if_false, List.nil_append, List.cons_append,
          asmBiosElems, h1, h2]
      · simp [BiosElem.buf, hb1, hb2, serItems, hpe]
      · intro p0 v0 rest hc
        cases hc
        exact ⟨v', rfl, ha1⟩
    · refine ⟨.pad p off :: .fv v' :: es2, st2, ?_, ?_, hp2, hf2, ?_⟩
      · simp only [treeItems, hp0, ne_eq, not_false_eq_true, if_true, List.cons_append, List.nil_append,
          asmBiosElems, h1, h2]
      · simp [BiosElem.buf, hb1, hb2, serItems]
      · intro p0 v0 rest hc
        cases hc
        exact ⟨v', rfl, ha1⟩

/-- the BIOSRegion case of Assemble on a parsed region of the grammar -/
theorem asm_bios (b : BiosI) (fr : Option FlashRegion) (st : St) (h : wfBios b = true)
    (hp : st.pol = 0xFF) (hf : st.ffs3 = false) :
    ∃ b' st', asmBios Hooks.none (treeBios b fr) st = .ok (b', st') ∧ b'.buf = serBios b ∧ b'.fr = fr ∧
      st'.pol = 0xFF ∧ st'.ffs3 = false := by
  simp only [wfBios, Bool.and_eq_true, Bool.not_eq_true', List.isEmpty_eq_false_iff, beq_iff_eq] at h
  obtain ⟨⟨hne, hitems⟩, _⟩ := h
  obtain ⟨es, st1, h1, hb1, hp1, hf1, hfirst⟩ := asm_items b.items b.tail hitems 0 (sizeItems b.items) st hp hf
  obtain ⟨p0, v0, rest, hi⟩ : ∃ p0 v0 rest, b.items = (p0, v0) :: rest := by
    cases hb : b.items with
    | nil => exact absurd hb hne
    | cons x xs => exact ⟨x.1, x.2, xs, rfl⟩
  obtain ⟨v', hv', ha'⟩ := hfirst p0 v0 rest hi
  have hv0 : wfFv v0 = true := by
    rw [hi] at hitems
    exact (wfItems_cons hitems).1
  have hpol := attrsOfFv_pol v0 hv0
  unfold asmBios
  simp only [treeBios, tailElems] at h1 ⊢
  rw [h1]
  simp only [hv', ha', setPolarity_keep (attrsOfFv v0) st1 hpol hp1, hb1]
  have hl : ¬ (serItems b.items ++ b.tail).length > (serBios b).length := by simp [serBios]
  simp only [hl, if_false]
  refine ⟨_, st1, rfl, ?_, rfl, hp1, hf1⟩
  simp [serBios]

end Fiano.Uefi
