/-
  The flash descriptor: parsing the 4 KiB verbatim bytes gives `treeDesc`, and re-serialising the
  decoded map / region section / master section over the kept buffer changes nothing.
-/
import FianoModel.Uefi.Lemmas.Top

namespace Fiano.Uefi
open Fiano Fiano.Uefi.Spec

theorem findSignature_mapStart (desc : Bytes) (h : (findSignature desc).isSome = true) :
    findSignature desc = some (mapStartOf desc) := by
  unfold findSignature mapStartOf at *
  by_cases h1 : desc.length < 20
  · simp [h1] at h
  · simp only [h1, if_false] at h ⊢
    by_cases h2 : slice desc 16 4 = flashSignature
    · simp [h2]
    · simp only [h2, if_false] at h ⊢
      by_cases h3 : slice desc 0 4 = flashSignature
      · simp [h3]
      · simp [h3] at h

theorem mapStartOf_le (desc : Bytes) : mapStartOf desc ≤ 20 := by
  unfold mapStartOf; split <;> omega

theorem parseDescriptor_desc (desc : Bytes) (hl : desc.length = 4096) (hs : (findSignature desc).isSome = true)
    (hr : (treeDesc desc).regionStart + 64 < 4096) :
    parseDescriptor desc = .ok (treeDesc desc) := by
  unfold parseDescriptor
  rw [if_neg (by omega), findSignature_mapStart desc hs]
  simp only [treeDesc] at hr ⊢
  rw [if_neg (by omega)]

/-! ### re-encoding what was decoded -/

theorem map_byte_toNat (b : Bytes) : (b.map (·.toNat)).map byte = b := by
  induction b with
  | nil => rfl
  | cons x xs ih => simp [ih, byte_of_toNat]

theorem rd_eq (b : Bytes) (off len : Nat) : leN len (rd b off len) = slice b off len ∨ (slice b off len).length ≠ len := by
  by_cases h : (slice b off len).length = len
  · left; exact leN_fromLE' _ _ h
  · right; exact h

theorem leN_rd (b : Bytes) (off len : Nat) (h : off + len ≤ b.length) : leN len (rd b off len) = slice b off len :=
  leN_fromLE' _ _ (slice_length b off len h)

theorem byte_rd1 (b : Bytes) (off : Nat) (h : off + 1 ≤ b.length) : [byte (rd b off 1)] = slice b off 1 := by
  have hl := slice_length b off 1 h
  match hs : slice b off 1, hl with
  | [x], _ => simp [rd, hs, fromLE, byte_of_toNat]

theorem encode_decode_regions : ∀ (n : Nat) (b : Bytes), 4 * n ≤ b.length →
    encodeRegions (decodeRegions n b) = b.take (4 * n)
  | 0, b, _ => by simp [decodeRegions, encodeRegions]
  | n + 1, b, h => by
    have ih := encode_decode_regions n (b.drop 4) (by simp; omega)
    simp only [decodeRegions, encodeRegions, ih]
    rw [leN_rd b 0 2 (by omega), leN_rd b 2 2 (by omega)]
    simp only [slice, List.drop_zero]
    rw [show 4 * (n + 1) = 2 + (2 + 4 * n) by omega, List.take_add, List.take_add]
    simp [List.drop_drop, List.take_take]

theorem encode_decode_perms : ∀ (n : Nat) (b : Bytes), 4 * n ≤ b.length →
    encodePerms (decodePerms n b) = b.take (4 * n)
  | 0, b, _ => by simp [decodePerms, encodePerms]
  | n + 1, b, h => by
    have ih := encode_decode_perms n (b.drop 4) (by simp; omega)
    simp only [decodePerms, encodePerms, ih]
    rw [leN_rd b 0 2 (by omega)]
    have e2 := byte_rd1 b 2 (by omega)
    have e3 := byte_rd1 b 3 (by omega)
    have : [byte (rd b 2 1), byte (rd b 3 1)] = slice b 2 1 ++ slice b 3 1 := by rw [← e2, ← e3]; rfl
    rw [this]
    simp only [slice, List.drop_zero]
    rw [show 4 * (n + 1) = 2 + (1 + (1 + 4 * n)) by omega, List.take_add, List.take_add, List.take_add]
    simp [List.drop_drop, List.take_take, List.append_assoc]

/-- **untouched descriptor**: the FlashDescriptor case of Assemble (as repaired: the two reserved
    bytes of the region section are not written) is the identity on a parsed descriptor -/
theorem asmDescriptor_id (desc : Bytes) (hl : desc.length = 4096)
    (hr : (treeDesc desc).regionStart + 64 < 4096) :
    asmDescriptor (treeDesc desc) = .ok (treeDesc desc) := by
  have hms := mapStartOf_le desc
  have hmb : (treeDesc desc).masterStart + 12 ≤ 4096 := by
    have : (treeDesc desc).map.masterBase < 256 := by
      simp only [treeDesc, DescMap.masterBase]
      rw [List.getD_eq_getElem?_getD]
      cases hg : (List.map (fun x => x.toNat) (slice desc (mapStartOf desc) 16))[4]? with
      | none => simp
      | some v =>
        simp only [Option.getD_some]
        obtain ⟨x, _, hx⟩ := List.mem_map.mp (List.mem_of_getElem? hg)
        rw [← hx]; exact x.toNat_lt
    simp only [treeDesc] at this ⊢
    omega
  have hd : treeDesc desc = ⟨desc, mapStartOf desc, (treeDesc desc).regionStart, (treeDesc desc).masterStart,
      (treeDesc desc).map, (treeDesc desc).region, (treeDesc desc).master⟩ := rfl
  have hmap : (treeDesc desc).map.fields.map byte = slice desc (mapStartOf desc) 16 := by
    simp only [treeDesc]; exact map_byte_toNat _
  have hreg : (leN 2 (treeDesc desc).region.eraseSize ++ encodeRegions (treeDesc desc).region.regions).take 62 =
      slice desc ((treeDesc desc).regionStart + 2) 62 := by
    generalize hRS : (treeDesc desc).regionStart = RS at hr
    have e1 : (treeDesc desc).region.eraseSize = rd desc (RS + 2) 2 := by rw [← hRS]; rfl
    have e2 : (treeDesc desc).region.regions = decodeRegions 15 (desc.drop (RS + 4)) := by rw [← hRS]; rfl
    rw [e1, e2, leN_rd desc _ 2 (by omega), encode_decode_regions 15 _ (by simp; omega)]
    have := slice_add desc (RS + 2) 2 60
    rw [show (2:Nat) + 60 = 62 from rfl, show RS + 2 + 2 = RS + 4 by omega] at this
    rw [this]
    apply List.take_of_length_le
    simp [slice]; omega
  have hmas : (encodePerms (treeDesc desc).master.perms).take 12 = slice desc (treeDesc desc).masterStart 12 := by
    generalize hMS : (treeDesc desc).masterStart = MS at hmb
    have e1 : (treeDesc desc).master.perms = decodePerms 3 (desc.drop MS) := by rw [← hMS]; rfl
    rw [e1, encode_decode_perms 3 _ (by simp; omega)]
    simp [slice, List.take_take]
  have hsl : (slice desc (mapStartOf desc) 16).length = 16 := slice_length _ _ _ (by omega)
  rw [hd]
  unfold asmDescriptor
  dsimp only
  rw [hmap, hreg, hmas]
  have hc : ¬ (mapStartOf desc + 16 > desc.length ∨ (treeDesc desc).regionStart + 64 > desc.length ∨
      (treeDesc desc).masterStart + 12 > desc.length) := by omega
  rw [if_neg hc, List.take_of_length_le (by omega), splice_slice_self desc _ 16 (by omega),
    splice_slice_self desc _ 62 (by omega), splice_slice_self desc _ 12 (by omega)]

end Fiano.Uefi
