/-
  Composition: parse ∘ ser = tree, asm ∘ tree = ser, save ∘ ser = ser for every image of the grammar.
-/
import FianoModel.Uefi.Lemmas.FlashAsm

namespace Fiano.Uefi
open Fiano Fiano.Uefi.Spec

theorem parseWith_ser (i : Img) (h : wf i = true) :
    ∃ st', parseWith Hooks.none (defaultFuel (ser i)) (ser i) {} = .ok (tree i, st') ∧ st'.pol = 0xFF := by
  cases i with
  | bios b => exact ⟨_, parseWith_ser_bios b h, rfl⟩
  | flash f =>
    obtain ⟨st', h1, h2, _⟩ := parse_flash f h (defaultFuel (ser (.flash f))) (by simp [defaultFuel])
    exact ⟨st', h1, h2⟩

theorem parse_ser_all (i : Img) (h : wf i = true) : parse Hooks.none (ser i) = .ok (tree i) := by
  obtain ⟨st', h1, _⟩ := parseWith_ser i h
  unfold parse
  rw [h1]

theorem asm_tree_all (i : Img) (h : wf i = true) (st : St) (hp : st.pol = 0xFF) :
    asmWith Hooks.none (tree i) st = .ok (ser i) := by
  cases i with
  | bios b => exact asm_tree_bios b h st hp
  | flash f => exact asm_flash f h st hp

theorem save_identity_all (i : Img) (h : wf i = true) : save Hooks.none (ser i) = .ok (ser i) := by
  obtain ⟨st', h1, hp⟩ := parseWith_ser i h
  unfold save
  rw [h1]
  exact asm_tree_all i h st' hp

end Fiano.Uefi
