/-
  Assemble on parsed sections and files: regenerated sections and rebuilt files come out as the
  grammar serialises them (`sec_regen_id`, `checksum_recompute_id`).
-/
import FianoModel.Uefi.Lemmas.ParseMain

namespace Fiano.Uefi
open Fiano Fiano.Uefi.Spec

/-- `GenSecHeader` around `body` for a section without type-specific header: the canonical section -/
theorem genSecHeader_canon (i : SecInfo) (body : Bytes) (hts : i.ts = none) (ht2 : i.type ≠ 0x02)
    (hsz : body.length + 8 < 0xFFFFFFFF) :
    genSecHeader i body =
      .ok ({ i with size3 := (canonInfo i.type body.length i.fileOrder).size3,
                    extSize := (canonInfo i.type body.length i.fileOrder).extSize }, canonSec i.type body) := by
  unfold genSecHeader
  simp only [hts, Option.isSome_none, Bool.false_eq_true, if_false, Nat.add_zero, ht2]
  have h1 : (body.length + 4) % 4294967296 = body.length + 4 := by omega
  rw [h1]
  by_cases hb : body.length + 4 ≥ 0xFFFFFF
  · have h2 : (body.length + 4 + 4) % 4294967296 = body.length + 8 := by omega
    have h3 : body.length + 8 ≥ 0xFFFFFF := by omega
    simp only [hb, decide_true, if_true, h2, h3, write3, canonInfo, canonSec, secInfoOf, secHdr]
  · have h3 : ¬ body.length + 4 ≥ 0xFFFFFF := hb
    simp only [hb, decide_false, Bool.false_eq_true, if_false, write3, canonInfo, canonSec, secInfoOf, secHdr]

theorem align4_zero : align4 0 = 0 := by decide

/-- the zero-padded concatenation used for file bodies is the grammar's section area -/
theorem joinPad4_serSecs : ∀ (ss : List SecI) (acc : Bytes), wfSecs ss = true → sizeSecs acc.length ss < 2 ^ 62 →
    joinPad4 (ss.map serSec) acc = acc ++ serSecs acc.length ss
  | [], acc, _, _ => by simp [joinPad4, serSecs]
  | s :: ss, acc, h, hlt => by
    have ⟨hs, hss⟩ := wfSecs_cons h
    have hge := sizeSecs_ge ss (alignUp acc.length 4 + sizeSec s)
    have hal := alignUp_ge acc.length 4 (by decide)
    simp only [sizeSecs] at hlt
    simp only [List.map_cons, joinPad4, serSecs]
    rw [align4_eq _ (by omega)]
    have hl : (acc ++ List.replicate (alignUp acc.length 4 - acc.length) 0 ++ serSec s).length =
        alignUp acc.length 4 + sizeSec s := by
      simp only [List.length_append, List.length_replicate, length_serSec s hs]; omega
    rw [joinPad4_serSecs ss _ hss (by rw [hl]; omega), hl]
    simp [zeros]

theorem and_or_one_40 (a : Nat) : (a ||| 1) &&& 0x40 = a &&& 0x40 := by
  rw [Nat.and_or_distrib_right]; simp

theorem and_fe_40 (a : Nat) : (a &&& 0xFE) &&& 0x40 = a &&& 0x40 := by
  have : (0xFE : Nat) &&& 0x40 = 0x40 := by decide
  rw [Nat.and_assoc, this]

theorem sectAttrs_40 (a d : Nat) : sectAttrs a d &&& 0x40 = a &&& 0x40 := by
  unfold sectAttrs; split
  · exact and_or_one_40 a
  · exact and_fe_40 a

end Fiano.Uefi

namespace Fiano.Uefi
open Fiano Fiano.Uefi.Spec

theorem byte_of_toNat (x : UInt8) : byte x.toNat = x := by
  unfold byte; simp

theorem sectAttrs_large (a d : Nat) : (sectAttrs a d &&& 1 ≠ 0) ↔ 24 + d ≥ 0xFFFFFF := by
  unfold sectAttrs
  split
  · rename_i h
    constructor
    · intro _; exact h
    · intro _; rw [Nat.and_or_distrib_right]; simp
  · rename_i h
    constructor
    · intro hc; exfalso; apply hc; rw [Nat.and_assoc]; simp
    · intro hc; exact absurd hc h

/-- `SetSize` on a stored attribute byte whose large bit already follows the size is a no-op -/
theorem setSize_sect (a d : Nat) :
    setSize (sectAttrs a d) (24 + d) true =
      (sectAttrs a d, (if 24 + d ≥ 0xFFFFFF then 0xFFFFFF else 24 + d),
       (if 24 + d ≥ 0xFFFFFF then 32 + d else 24 + d)) := by
  unfold setSize sectAttrs write3
  by_cases h : 24 + d ≥ 0xFFFFFF
  · have h2 : 24 + d + 8 ≥ 0xFFFFFF := by omega
    simp only [h, if_true, h2, Nat.or_assoc, Nat.or_self]
    congr 2; omega
  · simp only [h, if_false, Nat.and_assoc, Nat.and_self]

/-- the checksummed bytes of a header differ from the all-zero-checksum header by the three bytes
    that are excluded from the sum -/
theorem sum8_fileHdr (g : Guid) (c1 c2 : UInt8) (t a : Nat) (L : Bool) (total st : Nat) :
    sum8 (fileHdr g c1 c2 t a L total st) = sum8 (fileHdr g 0 0 t a L total 0) + c1 + c2 + byte st := by
  unfold fileHdr
  simp only [sum8_append, sum8_cons, sum8_nil]
  have : byte 0 = 0 := rfl
  rw [this]
  grind

theorem encodeFileHeader_take (i : FileInfo) (c1 c2 : UInt8) (L : Bool) (hg : i.guid.length = 16)
    (hs3 : i.size3 = if L then 0xFFFFFF else i.extSize) :
    (encodeFileHeader i c1 c2 true).take (if L then 32 else 24) =
      fileHdr i.guid c1 c2 i.type i.attrs L i.extSize i.state := by
  unfold encodeFileHeader fileHdr
  cases L
  · simp only [Bool.false_eq_true, if_false] at hs3 ⊢
    rw [hs3, List.append_nil]
    simp only [if_true]
    exact take_left_len _ _ _ (by simp [hg])
  · simp only [if_true] at hs3 ⊢
    rw [hs3]
    exact List.take_of_length_le (by simp [hg])

theorem encodeFileHeader_eq (i : FileInfo) (c1 c2 : UInt8) (L : Bool)
    (hs3 : i.size3 = if L then 0xFFFFFF else i.extSize) :
    encodeFileHeader i c1 c2 L = fileHdr i.guid c1 c2 i.type i.attrs L i.extSize i.state := by
  unfold encodeFileHeader fileHdr
  cases L <;> simp_all

/-- **checksum_recompute_id** (A.2): `ChecksumAndAssemble` on a header that already carries the
    header checksum of the specification reproduces it, whatever `State` and the old body checksum are -/
theorem checksumAndAssemble_id (g : Guid) (t a' st ckfOld : Nat) (L : Bool) (total doff : Nat) (data : Bytes)
    (hg : g.length = 16) (hL : (a' &&& 1 ≠ 0) ↔ L = true) :
    (checksumAndAssemble
      { guid := g, ckHeader := (0 - sum8 (fileHdr g 0 0 t a' L total 0)).toNat, ckFile := ckfOld, type := t,
        attrs := a', size3 := if L then 0xFFFFFF else total, state := st, extSize := total, dataOffset := doff }
      data).2 =
    fileHdr g (0 - sum8 (fileHdr g 0 0 t a' L total 0))
      (if a' &&& 0x40 ≠ 0 then 0 - sum8 data else 0xAA) t a' L total st ++ data := by
  unfold checksumAndAssemble
  have hLd : decide (a' &&& 1 ≠ 0) = L := by
    cases L
    · simp only [decide_eq_false_iff_not]; intro h; exact absurd (hL.mp h) (by decide)
    · simp only [decide_eq_true_eq]; exact hL.mpr rfl
  have hhs : (if a' &&& 1 ≠ 0 then (32 : Nat) else 24) = if L then 32 else 24 := by
    cases L
    · rw [if_neg (fun h => absurd (hL.mp h) (by decide))]; rfl
    · rw [if_pos (hL.mpr rfl)]; rfl
  simp only [hLd, hhs]
  have htake := encodeFileHeader_take
    { guid := g, ckHeader := (0 - sum8 (fileHdr g 0 0 t a' L total 0)).toNat, ckFile := ckfOld, type := t,
      attrs := a', size3 := if L then 0xFFFFFF else total, state := st, extSize := total, dataOffset := doff }
    (byte (0 - sum8 (fileHdr g 0 0 t a' L total 0)).toNat) (byte ckfOld) L hg rfl
  have hb : byte (0 - sum8 (fileHdr g 0 0 t a' L total 0)).toNat = 0 - sum8 (fileHdr g 0 0 t a' L total 0) :=
    byte_of_toNat _
  dsimp only at htake
  have hsum := sum8_fileHdr g (0 - sum8 (fileHdr g 0 0 t a' L total 0)) (byte ckfOld) t a' L total st
  rw [htake, hb, hsum, encodeFileHeader_eq _ _ _ L rfl]
  dsimp only
  have hz : 0 - sum8 (fileHdr g 0 0 t a' L total 0) -
      (sum8 (fileHdr g 0 0 t a' L total 0) + (0 - sum8 (fileHdr g 0 0 t a' L total 0)) + byte ckfOld + byte st -
        byte ckfOld - byte st) = 0 - sum8 (fileHdr g 0 0 t a' L total 0) := by
    grind
  rw [hz]

end Fiano.Uefi
