/-
  Frame lemmas about Assemble on ARBITRARY trees (no well-formedness assumed): what the writer does
  not understand is copied verbatim.  Reused by the edit properties (C03, C12).
-/
import FianoModel.Uefi.Assemble

namespace Fiano.Uefi
open Fiano

/-- the flash buffer is the descriptor buffer followed by the region buffers, in order -/
theorem tileRegions_concat : ∀ (l : List Region) (off : Nat) (acc b : Bytes) (o : Nat),
    tileRegions l off acc = .ok (b, o) → b = acc ++ (l.map Region.buf).flatten
  | [], off, acc, b, o, h => by
    simp only [tileRegions, Except.ok.injEq, Prod.mk.injEq] at h
    simp [h.1]
  | r :: l, off, acc, b, o, h => by
    simp only [tileRegions] at h
    split at h
    · cases h
    · split at h
      · cases h
      · split at h
        · cases h
        · have := tileRegions_concat l _ _ b o h
          simp [this]

def Region.isBiosRegion : Region → Bool
  | .bios _ => true
  | _ => false

/-- **untouched regions**: ME, raw and gap region nodes come out of Assemble unchanged, at the same
    position -/
theorem asmRegions_frame (h : Hooks) : ∀ (rs rs' : List Region) (st st' : St),
    asmRegions h rs st = .ok (rs', st') →
    rs'.length = rs.length ∧ ∀ (k : Nat) (r : Region), rs[k]? = some r → r.isBiosRegion = false → rs'[k]? = some r
  | [], rs', st, st', hh => by
    simp only [asmRegions, Except.ok.injEq, Prod.mk.injEq] at hh
    simp [← hh.1]
  | r :: rs, rs', st, st', hh => by
    have tailcase : ∀ (l : List Region) (st1 st2 : St) (r' : Region), asmRegions h rs st1 = .ok (l, st2) →
        rs' = r' :: l → (r.isBiosRegion = false → r' = r) →
        rs'.length = (r :: rs).length ∧
          ∀ (k : Nat) (x : Region), (r :: rs)[k]? = some x → x.isBiosRegion = false → rs'[k]? = some x := by
      intro l st1 st2 r' h2 hrs hr'
      obtain ⟨hl, hk⟩ := asmRegions_frame h rs l st1 st2 h2
      subst hrs
      refine ⟨by simp [hl], ?_⟩
      intro k x hx hb
      cases k with
      | zero =>
        simp only [List.getElem?_cons_zero, Option.some.injEq] at hx ⊢
        subst hx; exact hr' hb
      | succ k => simpa using hk k x (by simpa using hx) hb
    cases r with
    | bios b =>
      simp only [asmRegions] at hh
      cases hb : asmBios h b st with
      | error e => simp [hb] at hh
      | ok p =>
        obtain ⟨b', st1⟩ := p
        simp only [hb] at hh
        cases h2 : asmRegions h rs st1 with
        | error e => simp [h2] at hh
        | ok q =>
          obtain ⟨l, st2⟩ := q
          simp only [h2, Except.ok.injEq, Prod.mk.injEq] at hh
          exact tailcase l st1 st2 (.bios b') h2 hh.1.symm (fun hc => by simp [Region.isBiosRegion] at hc)
    | me d fr =>
      simp only [asmRegions] at hh
      cases h2 : asmRegions h rs st with
      | error e => simp [h2] at hh
      | ok q =>
        obtain ⟨l, st2⟩ := q
        simp only [h2, Except.ok.injEq, Prod.mk.injEq] at hh
        exact tailcase l st st2 (.me d fr) h2 hh.1.symm (fun _ => rfl)
    | raw d fr t =>
      simp only [asmRegions] at hh
      cases h2 : asmRegions h rs st with
      | error e => simp [h2] at hh
      | ok q =>
        obtain ⟨l, st2⟩ := q
        simp only [h2, Except.ok.injEq, Prod.mk.injEq] at hh
        exact tailcase l st st2 (.raw d fr t) h2 hh.1.symm (fun _ => rfl)

/-- **untouched paddings**: the padding nodes of a BIOS region come out of Assemble unchanged -/
theorem asmBiosElems_frame (h : Hooks) : ∀ (es es' : List BiosElem) (st st' : St),
    asmBiosElems h es st = .ok (es', st') →
    es'.length = es.length ∧
      ∀ (k : Nat) (b : Bytes) (o : Nat), es[k]? = some (.pad b o) → es'[k]? = some (.pad b o)
  | [], es', st, st', hh => by
    simp only [asmBiosElems, Except.ok.injEq, Prod.mk.injEq] at hh
    simp [← hh.1]
  | .pad b o :: es, es', st, st', hh => by
    simp only [asmBiosElems] at hh
    cases h2 : asmBiosElems h es st with
    | error e => simp [h2] at hh
    | ok q =>
      obtain ⟨l, st2⟩ := q
      simp only [h2, Except.ok.injEq, Prod.mk.injEq] at hh
      obtain ⟨hl, hk⟩ := asmBiosElems_frame h es l st st2 h2
      rw [← hh.1]
      refine ⟨by simp [hl], ?_⟩
      intro k b' o' hr
      cases k with
      | zero => simpa using hr
      | succ k => simpa using hk k b' o' (by simpa using hr)
  | .fv v :: es, es', st, st', hh => by
    simp only [asmBiosElems] at hh
    cases hv : asmFv h v st with
    | error e => simp [hv] at hh
    | ok p =>
      obtain ⟨v', st1⟩ := p
      simp only [hv] at hh
      cases h2 : asmBiosElems h es st1 with
      | error e => simp [h2] at hh
      | ok q =>
        obtain ⟨l, st2⟩ := q
        simp only [h2, Except.ok.injEq, Prod.mk.injEq] at hh
        obtain ⟨hl, hk⟩ := asmBiosElems_frame h es l st1 st2 h2
        rw [← hh.1]
        refine ⟨by simp [hl], ?_⟩
        intro k b' o' hr
        cases k with
        | zero => simp at hr
        | succ k => simpa using hk k b' o' (by simpa using hr)

/-- **unparsed files**: a file without sections and without NVAR store is emitted verbatim -/
theorem asmFile_leaf (h : Hooks) (i : FileInfo) (buf : Bytes) (st : St) (hn : i.nvar = none) :
    asmFile h (.mk i buf []) st = .ok (.mk i buf [], st) := by
  rw [asmFile]
  simp only [hn, asmSections]

/-- a volume without files (another file system, or an empty one) is emitted verbatim -/
theorem asmFv_nofiles (h : Hooks) (i : FvInfo) (buf : Bytes) (st st1 : St)
    (hp : setPolarity (polOfAttrs i.attrs) st = .ok st1) :
    asmFv h (.mk i buf []) st = .ok (.mk i buf [], st1) := by
  rw [asmFv, hp]
  simp only [asmFiles]

/-- **untouched descriptor bytes**: the FlashDescriptor case rewrites only the three windows
    `[mapStart, +16)`, `[regionStart+2, regionStart+64)` and `[masterStart, +12)` -/
theorem asmDescriptor_frame (d d' : Descriptor) (h : asmDescriptor d = .ok d') (i : Nat)
    (h1 : i < d.mapStart ∨ d.mapStart + 16 ≤ i) (h2 : i < d.regionStart + 2 ∨ d.regionStart + 64 ≤ i)
    (h3 : i < d.masterStart ∨ d.masterStart + 12 ≤ i) :
    d'.buf[i]? = d.buf[i]? := by
  unfold asmDescriptor at h
  split at h
  · cases h
  · rename_i hg
    simp only [Except.ok.injEq] at h
    rw [← h]
    simp only []
    have hl1 : ((d.map.fields.map byte).take 16).length ≤ 16 := by simp [List.length_take]; omega
    have hl2 : ((leN 2 d.region.eraseSize ++ encodeRegions d.region.regions).take 62).length ≤ 62 := by
      simp [List.length_take]; omega
    have hl3 : ((encodePerms d.master.perms).take 12).length ≤ 12 := by simp [List.length_take]; omega
    have hlen1 : (splice d.buf d.mapStart ((d.map.fields.map byte).take 16)).length = d.buf.length :=
      splice_length _ _ _ (by omega)
    have hlen2 : (splice (splice d.buf d.mapStart ((d.map.fields.map byte).take 16)) (d.regionStart + 2)
        ((leN 2 d.region.eraseSize ++ encodeRegions d.region.regions).take 62)).length = d.buf.length := by
      rw [splice_length _ _ _ (by omega), hlen1]
    have step : ∀ (b dd : Bytes) (off n : Nat), dd.length ≤ n → off + n ≤ b.length → (i < off ∨ off + n ≤ i) →
        (splice b off dd)[i]? = b[i]? := by
      intro b dd off n hdd hb hi
      rcases hi with hi | hi
      · exact splice_getElem?_lt b off dd i hi (by omega)
      · exact splice_getElem?_ge b off dd i (by omega) (by omega)
    rw [step _ _ d.masterStart 12 hl3 (by rw [hlen2]; omega) h3,
      step _ _ (d.regionStart + 2) 62 hl2 (by rw [hlen1]; omega) (by omega),
      step _ _ d.mapStart 16 hl1 (by omega) h1]

end Fiano.Uefi

namespace Fiano.Uefi
open Fiano

/-- the saved flash image is the assembled descriptor followed by the assembled regions -/
theorem asmFlash_buf (h : Hooks) (f f' : Flash) (st st' : St) (hh : asmFlash h f st = .ok (f', st')) :
    f'.buf = f'.ifd.buf ++ (f'.regions.map Region.buf).flatten := by
  unfold asmFlash at hh
  cases hd : asmDescriptor f.ifd with
  | error e => simp [hd] at hh
  | ok ifd =>
    simp only [hd] at hh
    cases hr : asmRegions h f.regions st with
    | error e => simp [hr] at hh
    | ok p =>
      obtain ⟨rs, st1⟩ := p
      simp only [hr] at hh
      split at hh
      · cases hh
      · split at hh
        · cases hh
        · cases ht : tileRegions (sortRegions (rs.map (repoint ifd.region.regions ifd.map.numberOfRegions))) 4096 ifd.buf with
          | error e => simp [ht] at hh
          | ok q =>
            obtain ⟨buf, off⟩ := q
            simp only [ht] at hh
            split at hh
            · cases hh
            · simp only [Except.ok.injEq, Prod.mk.injEq] at hh
              rw [← hh.1]
              exact tileRegions_concat _ _ _ _ _ ht

end Fiano.Uefi
