/-
  Byte-string helper lemmas for the UEFI proofs: reads at fixed offsets of concatenations,
  checksums of concatenations, splices.
-/
import FianoModel.Uefi.Lemmas.Align

namespace Fiano.Uefi
open Fiano

theorem byte_toNat (n : Nat) (h : n < 256) : (byte n).toNat = n := by
  simp [byte, UInt8.toNat_ofNat', Nat.mod_eq_of_lt h]

theorem drop_append_len {α} (a b : List α) (n : Nat) (h : a.length = n) : (a ++ b).drop n = b := by
  subst h; simp

theorem take_append_len {α} (a b : List α) (n : Nat) (h : a.length = n) : (a ++ b).take n = a := by
  subst h; simp

theorem drop_append_add {α} (a b : List α) (n k : Nat) (h : a.length = n) : (a ++ b).drop (n + k) = b.drop k := by
  subst h; rw [← List.drop_drop]; simp

theorem take_append_add {α} (a b : List α) (n k : Nat) (h : a.length = n) :
    (a ++ b).take (n + k) = a ++ b.take k := by
  subst h; simp [List.take_append, List.take_of_length_le]

theorem slice_append_skip (a b : Bytes) (n off len : Nat) (h : a.length = n) :
    slice (a ++ b) (n + off) len = slice b off len := by
  simp [slice, drop_append_add a b n off h]

theorem rd_append_skip (a b : Bytes) (n off len : Nat) (h : a.length = n) :
    rd (a ++ b) (n + off) len = rd b off len := by
  simp [rd, slice_append_skip a b n off len h]

theorem slice_prefix (m s : Bytes) (len : Nat) (h : m.length = len) : slice (m ++ s) 0 len = m := by
  simp [slice, take_append_len m s len h]

theorem rd_prefix (m s : Bytes) (len : Nat) (h : m.length = len) : rd (m ++ s) 0 len = fromLE m := by
  simp [rd, slice_prefix m s len h]

theorem rd_leN_prefix (k n : Nat) (s : Bytes) (h : n < 256 ^ k) : rd (leN k n ++ s) 0 k = n := by
  rw [rd_prefix _ _ _ (leN_length k n), fromLE_leN_of_lt k n h]

theorem rd_byte_prefix (n : Nat) (s : Bytes) (h : n < 256) : rd (byte n :: s) 0 1 = n := by
  simp [rd, slice, fromLE, byte_toNat n h]

theorem splice_mid (p m s d : Bytes) (off : Nat) (hp : p.length = off) (hm : m.length = d.length) :
    splice (p ++ m ++ s) off d = p ++ d ++ s := by
  subst hp
  unfold splice
  have h1 : List.take p.length (p ++ m ++ s) = p := by
    rw [List.append_assoc]; exact List.take_left' rfl
  have h2 : List.drop (p.length + d.length) (p ++ m ++ s) = s := by
    rw [List.append_assoc, ← List.drop_drop, List.drop_left' rfl, ← hm, List.drop_left' rfl]
  rw [h1, h2]

theorem sum8_append (a b : Bytes) : sum8 (a ++ b) = sum8 a + sum8 b := by
  unfold sum8
  rw [List.foldl_append]
  generalize List.foldl (fun x1 x2 => x1 + x2) 0 a = x
  induction b generalizing x with
  | nil => simp
  | cons y ys ih =>
    simp only [List.foldl_cons]
    rw [ih (x + y), ih (0 + y)]
    simp [UInt8.add_assoc]

theorem sum8_cons (x : UInt8) (b : Bytes) : sum8 (x :: b) = x + sum8 b := by
  have := sum8_append [x] b
  simpa [sum8] using this

@[simp] theorem sum8_nil : sum8 [] = 0 := rfl

theorem sum16_append_aux (b : Bytes) : ∀ (n : Nat) (a : Bytes), a.length = 2 * n →
    sum16 (a ++ b) = sum16 a + sum16 b := by
  intro n
  induction n with
  | zero =>
    intro a h
    have : a = [] := List.length_eq_zero_iff.mp (by omega)
    subst this; simp [sum16]
  | succ n ih =>
    intro a h
    match a, h with
    | x :: y :: ys, h =>
      have hy : ys.length = 2 * n := by simp at h; omega
      simp only [List.cons_append, sum16]
      rw [ih ys hy]
      simp only [UInt16.add_assoc]

theorem sum16_append (a b : Bytes) (h : a.length % 2 = 0) : sum16 (a ++ b) = sum16 a + sum16 b :=
  sum16_append_aux b (a.length / 2) a (by omega)

end Fiano.Uefi
