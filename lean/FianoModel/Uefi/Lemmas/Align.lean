/-
  `uefi.Align` (the bit trick on uint64) is rounding up to a multiple for power-of-two bases.
-/
import FianoModel.Uefi.Spec

namespace Fiano.Uefi
open Fiano

theorem and_mask (x k : Nat) (hk : k ≤ 64) (hx : x < 2 ^ 64) :
    x &&& (2 ^ 64 - 2 ^ k) = x / 2 ^ k * 2 ^ k := by
  have hm : 2 ^ 64 - 2 ^ k = (2 ^ (64 - k) - 1) * 2 ^ k := by
    have h1 : 2 ^ 64 = 2 ^ (64 - k) * 2 ^ k := by rw [← Nat.pow_add]; congr 1; omega
    rw [Nat.sub_mul, ← h1, Nat.one_mul]
  apply Nat.eq_of_testBit_eq
  intro i
  rw [Nat.testBit_and, hm, Nat.testBit_mul_two_pow, Nat.testBit_mul_two_pow, Nat.testBit_two_pow_sub_one,
    Nat.testBit_div_two_pow]
  by_cases hki : k ≤ i
  · have e : i - k + k = i := by omega
    rw [e]
    by_cases hi : i < 64
    · have : i - k < 64 - k := by omega
      simp [hki, this]
    · have hx' : x.testBit i = false := by
        apply Nat.testBit_lt_two_pow
        exact Nat.lt_of_lt_of_le hx (Nat.pow_le_pow_right (by decide) (by omega))
      simp [hx']
  · simp [hki]

theorem alignGo_pow2 (v k : Nat) (hk : k ≤ 63) (hv : v + 2 ^ k ≤ 2 ^ 64) :
    alignGo v (2 ^ k) = (v + 2 ^ k - 1) / 2 ^ k * 2 ^ k := by
  have hp : 0 < 2 ^ k := Nat.pow_pos (by decide)
  have hlt : 2 ^ k < 2 ^ 64 := Nat.pow_lt_pow_right (by decide) (by omega)
  have e64 : (18446744073709551616 : Nat) = 2 ^ 64 := by decide
  unfold alignGo
  have h1 : (v + 2 ^ k + 18446744073709551615) % 18446744073709551616 = v + 2 ^ k - 1 := by
    rw [e64] at *; omega
  have h2 : (18446744073709551616 - 2 ^ k) % 18446744073709551616 = 2 ^ 64 - 2 ^ k := by
    rw [e64] at *; omega
  rw [h1, h2]
  exact and_mask _ k (by omega) (by omega)

theorem align8_eq (v : Nat) (h : v < 2 ^ 63) : align8 v = Spec.alignUp v 8 := by
  have := alignGo_pow2 v 3 (by decide) (by omega)
  simpa [align8, Spec.alignUp] using this

theorem align4_eq (v : Nat) (h : v < 2 ^ 63) : align4 v = Spec.alignUp v 4 := by
  have := alignGo_pow2 v 2 (by decide) (by omega)
  simpa [align4, Spec.alignUp] using this

/-- the sixteen data alignments are powers of two below 2^25 -/
theorem fileAlignments_pow2 : ∀ a ∈ fileAlignments, ∃ k, k ≤ 24 ∧ a = 2 ^ k := by decide

theorem alignmentOf_mem (attrs : Nat) : alignmentOf attrs ∈ fileAlignments ∨ alignmentOf attrs = 1 := by
  unfold alignmentOf
  rw [List.getD_eq_getElem?_getD]
  cases h : fileAlignments[(attrs &&& 0x38) >>> 3 ||| (attrs &&& 0x02) <<< 2]? with
  | none => right; rfl
  | some a => left; exact List.mem_of_getElem? h

/-- an already aligned value is a fixed point of `Align` -/
theorem alignGo_of_mod (v a : Nat) (ha : a ∈ fileAlignments) (hv : v < 2 ^ 63) (hm : v % a = 0) :
    alignGo v a = v := by
  obtain ⟨k, hk, rfl⟩ := fileAlignments_pow2 a ha
  have hp : 0 < 2 ^ k := Nat.pow_pos (by decide)
  have hle : 2 ^ k ≤ 2 ^ 24 := Nat.pow_le_pow_right (by decide) hk
  rw [alignGo_pow2 v k (by omega) (by omega)]
  have h3 : (v + 2 ^ k - 1) / 2 ^ k = v / 2 ^ k := by
    have hd : v = 2 ^ k * (v / 2 ^ k) := by
      have := Nat.div_add_mod v (2 ^ k); omega
    rw [Nat.div_eq_iff hp]
    constructor
    · have := Nat.div_mul_le_self v (2 ^ k); omega
    · have hh : v / 2 ^ k * 2 ^ k = v := by rw [Nat.mul_comm]; exact hd.symm
      rw [hh]; omega
  rw [h3]
  have := Nat.div_add_mod v (2 ^ k)
  rw [Nat.mul_comm]; omega

end Fiano.Uefi
