/-
  The arithmetic size functions of the grammar are the lengths of the serialised parts.
-/
import FianoModel.Uefi.Lemmas.Codec

namespace Fiano.Uefi.Spec
open Fiano Fiano.Uefi

theorem alignUp_ge (n a : Nat) (ha : 0 < a) : n ≤ alignUp n a := by
  unfold alignUp
  have := Nat.div_add_mod (n + a - 1) a
  have := Nat.mod_lt (n + a - 1) ha
  rw [Nat.mul_comm]; omega

theorem alignUp_mod (n a : Nat) : alignUp n a % a = 0 := by
  unfold alignUp; exact Nat.mul_mod_left _ _

theorem alignUp_lt (n a : Nat) (ha : 0 < a) : alignUp n a < n + a := by
  unfold alignUp
  have := Nat.div_add_mod (n + a - 1) a
  rw [Nat.mul_comm]; omega

theorem secHdr_length (t : Nat) (ext : Bool) (total : Nat) : (secHdr t ext total).length = secHdrLen ext := by
  unfold secHdr secHdrLen; cases ext <;> simp

theorem canonSec_length (t : Nat) (body : Bytes) : (canonSec t body).length = canonSecSize body.length := by
  unfold canonSec canonSecSize
  split <;> simp [secHdr_length, secHdrLen] <;> omega

theorem fileHdr_length (g : Guid) (ckh ckf : UInt8) (t a : Nat) (ext : Bool) (total st : Nat) (hg : g.length = 16) :
    (fileHdr g ckh ckf t a ext total st).length = if ext then 32 else 24 := by
  unfold fileHdr; cases ext <;> simp [hg]

theorem encodeBlocks_length (bs : List Block) : (encodeBlocks bs).length = 8 * bs.length := by
  induction bs with
  | nil => rfl
  | cons b bs ih => simp [encodeBlocks, ih]; omega

theorem fvHeader_length (zv g : Bytes) (len attrs ck eho rsv rev : Nat) (blocks : List Block)
    (hz : zv.length = 16) (hg : g.length = 16) :
    (fvHeader zv g len attrs ck eho rsv rev blocks).length = fvHdrLen blocks := by
  simp [fvHeader, fvHdrLen, hz, hg, encodeBlocks_length, fvSigBytes, zeros]; omega

theorem fvHeaderCk_length (zv g : Bytes) (len attrs eho rsv rev : Nat) (blocks : List Block)
    (hz : zv.length = 16) (hg : g.length = 16) :
    (fvHeaderCk zv g len attrs eho rsv rev blocks).length = fvHdrLen blocks := by
  unfold fvHeaderCk; exact fvHeader_length _ _ _ _ _ _ _ _ _ hz hg

theorem preBytes_length (blocks : List Block) (ext : Option ExtI)
    (h : ∀ e, ext = some e → e.fvName.length = 16) :
    fvHdrLen blocks + (preBytes blocks ext).length = preLen blocks ext := by
  cases ext with
  | none => simp [preBytes, preLen]
  | some e =>
    have hn := h e rfl
    have := alignUp_ge (fvHdrLen blocks + e.gap.length + 20 + e.data.length) 8 (by decide)
    simp [preBytes, preLen, hn, ffs]; omega

theorem guid_v3_length (v3 : Bool) : (if v3 then guidFFS3 else guidFFS2).length = 16 := by
  cases v3 <;> rfl

/-! ### unpacking the well-formedness conditions -/

/-- the attribute byte a file carries on flash -/
def storedAttrs : FileI → Nat
  | .leaf _ _ _ _ a _ _ _ => a
  | .sect _ _ a _ secs => sectAttrs a (sizeSecs 0 secs)

def hdrLenOfAttrs (attrs : Nat) : Nat := if attrs &&& 1 ≠ 0 then 32 else 24

theorem wfSecs_cons {s : SecI} {ss : List SecI} (h : wfSecs (s :: ss) = true) :
    wfSec s = true ∧ wfSecs ss = true := by
  simpa [wfSecs] using h

theorem wfFiles_cons {off len : Nat} {f : FileI} {fs : List FileI} (h : wfFiles off len (f :: fs) = true) :
    wfFile f = true ∧ alignUp off 8 + 24 ≤ len ∧ alignUp off 8 + sizeFile f ≤ len ∧
    (alignUp off 8 + hdrLenOfAttrs (storedAttrs f)) % alignmentOf (storedAttrs f) = 0 ∧
    wfFiles (alignUp off 8 + sizeFile f) len fs = true := by
  simp only [wfFiles, Bool.and_eq_true, decide_eq_true_eq, beq_iff_eq] at h
  obtain ⟨⟨⟨⟨h1, h2⟩, h3⟩, h4⟩, h5⟩ := h
  refine ⟨h1, h2, h3, ?_, h5⟩
  cases f <;> simpa [storedAttrs, hdrLenOfAttrs] using h4

structure WfLeafFile (g : Guid) (ckh ckf t a st : Nat) (ext : Bool) (body : Bytes) : Prop where
  hg : g.length = 16
  hckh : ckh < 256
  hckf : ckf < 256
  ht : t < 256
  ha : a < 256
  hst : st < 256
  hleaf : supportedFile t = false ∨ body = []
  hnvar : ¬ (t = 1 ∧ g = guidNVAR)
  hsize : if ext then 32 + body.length < 0xFFFFFFFFFFFFFFFF else 24 + body.length < 0xFFFFFF

theorem wfFile_leaf {g : Guid} {ckh ckf t a st : Nat} {ext : Bool} {body : Bytes}
    (h : wfFile (.leaf g ckh ckf t a st ext body) = true) : WfLeafFile g ckh ckf t a st ext body := by
  simp only [wfFile, Bool.and_eq_true, decide_eq_true_eq, beq_iff_eq, Bool.or_eq_true, Bool.not_eq_true',
    List.isEmpty_iff, Bool.and_eq_false_iff, beq_eq_false_iff_ne, ne_eq] at h
  obtain ⟨⟨⟨⟨⟨⟨⟨⟨h1, h2⟩, h3⟩, h4⟩, h5⟩, h6⟩, h7⟩, h8⟩, h9⟩ := h
  refine ⟨h1, h2, h3, h4, h5, h6, h7, ?_, ?_⟩
  · intro ⟨ht, hg⟩
    rcases h8 with h | h
    · exact h ht
    · exact h hg
  · cases ext <;> simpa using h9

structure WfSectFile (g : Guid) (t a st : Nat) (secs : List SecI) : Prop where
  hg : g.length = 16
  ht : t < 256
  ha : a < 256
  hst : st < 256
  hsup : supportedFile t = true
  hne : secs ≠ []
  hsecs : wfSecs secs = true
  hsize : sizeSecs 0 secs + 32 < 0x4000000000000000

theorem wfFile_sect {g : Guid} {t a st : Nat} {secs : List SecI}
    (h : wfFile (.sect g t a st secs) = true) : WfSectFile g t a st secs := by
  simp only [wfFile, Bool.and_eq_true, decide_eq_true_eq, beq_iff_eq, Bool.not_eq_true', List.isEmpty_eq_false_iff]
    at h
  obtain ⟨⟨⟨⟨⟨⟨⟨h1, h2⟩, h3⟩, h4⟩, h5⟩, h6⟩, h7⟩, h8⟩ := h
  exact ⟨h1, h2, h3, h4, h5, h6, h7, h8⟩

structure WfFfs (zv : Bytes) (v3 : Bool) (attrs rev rsv : Nat) (blocks : List Block) (ext : Option ExtI)
    (files : List FileI) (free : Nat) : Prop where
  hzv : zv.length = 16
  hattrs : attrs < 4294967296
  hpol : attrs &&& 0x800 ≠ 0
  hrev : rev < 256
  hrsv : rsv < 256
  hblocks : blocks.all blockOk = true
  hhdr : fvHdrLen blocks < 65536
  hnb : files = [] ∨ blocks ≠ []
  hext : ∀ e, ext = some e → e.fvName.length = 16 ∧ ehoOf blocks ext < 65536 ∧ 20 + e.data.length < 4294967296 ∧
      ehoOf blocks ext + 20 ≤ endFiles (preLen blocks ext) files + free
  hlen8 : (endFiles (preLen blocks ext) files + free) % 8 = 0
  hlenlt : endFiles (preLen blocks ext) files + free < 0x4000000000000000
  hlen64 : 64 ≤ endFiles (preLen blocks ext) files + free
  hfiles : wfFiles (preLen blocks ext) (endFiles (preLen blocks ext) files + free) files = true
  hbig : anyBigFiles files = true → v3 = true ∧ allV3Files files = true

theorem wfFv_ffs {zv : Bytes} {v3 : Bool} {attrs rev rsv : Nat} {blocks : List Block} {ext : Option ExtI}
    {files : List FileI} {free : Nat} (h : wfFv (.ffs zv v3 attrs rev rsv blocks ext files free) = true) :
    WfFfs zv v3 attrs rev rsv blocks ext files free := by
  simp only [wfFv, Bool.and_eq_true, decide_eq_true_eq, beq_iff_eq, bne_iff_ne, Bool.or_eq_true,
    List.isEmpty_iff, Bool.not_eq_true', List.isEmpty_eq_false_iff] at h
  obtain ⟨⟨⟨⟨⟨⟨⟨⟨⟨⟨⟨⟨⟨h1, h2⟩, h3⟩, h4⟩, h5⟩, h6⟩, h7⟩, h8⟩, h9⟩, h10⟩, h11⟩, h12⟩, h13⟩, h15⟩ := h
  refine ⟨h1, h2, h3, h4, h5, h6, h7, h8, ?_, h10, h11, h12, h13, ?_⟩
  · intro e he
    subst he
    simp only [Bool.and_eq_true, decide_eq_true_eq, beq_iff_eq] at h9
    obtain ⟨⟨⟨a, b⟩, c⟩, d⟩ := h9
    exact ⟨a, b, c, d⟩
  · intro hb
    rcases h15 with h | h
    · rw [hb] at h; exact absurd h (by decide)
    · exact h

structure WfOther (zv g : Bytes) (attrs rev rsv : Nat) (blocks : List Block) (body : Bytes) : Prop where
  hzv : zv.length = 16
  hg : g.length = 16
  hne2 : g ≠ guidFFS2
  hne3 : g ≠ guidFFS3
  hattrs : attrs < 4294967296
  hpol : attrs &&& 0x800 ≠ 0
  hrev : rev < 256
  hrsv : rsv < 256
  hblocks : blocks.all blockOk = true
  hhdr : fvHdrLen blocks < 65536
  hlenlt : fvHdrLen blocks + body.length < 0x4000000000000000

theorem wfFv_other {zv g : Bytes} {attrs rev rsv : Nat} {blocks : List Block} {body : Bytes}
    (h : wfFv (.other zv g attrs rev rsv blocks body) = true) : WfOther zv g attrs rev rsv blocks body := by
  simp only [wfFv, Bool.and_eq_true, decide_eq_true_eq, beq_iff_eq, bne_iff_ne] at h
  obtain ⟨⟨⟨⟨⟨⟨⟨⟨⟨⟨h1, h2⟩, h3⟩, h4⟩, h5⟩, h6⟩, h7⟩, h8⟩, h9⟩, h10⟩, h11⟩ := h
  exact ⟨h1, h2, h3, h4, h5, h6, h7, h8, h9, h10, h11⟩

mutual
theorem length_serSec : ∀ s : SecI, wfSec s = true → (serSec s).length = sizeSec s
  | .leaf t ext body, _ => by simp [serSec, sizeSec, secHdr_length]
  | .guided ext g doff attrs body, h => by
    simp only [wfSec, Bool.and_eq_true, beq_iff_eq] at h
    simp [serSec, sizeSec, secHdr_length, h.1.1.1.1]; omega
  | .ui name, _ => by simp [serSec, sizeSec, canonSec_length]
  | .version build ver, _ => by simp [serSec, sizeSec, canonSec_length]
  | .depex t ops, h => by
    simp only [wfSec, Bool.and_eq_true] at h
    simp [serSec, sizeSec, canonSec_length, encodeOps_length ops (wfOps_guid ops h.1.2)]
  | .fvimg fv, h => by
    simp only [wfSec, Bool.and_eq_true] at h
    simp [serSec, sizeSec, canonSec_length, length_serFv fv h.1]
theorem length_serSecs : ∀ (ss : List SecI) (n : Nat), wfSecs ss = true →
    n + (serSecs n ss).length = sizeSecs n ss
  | [], n, _ => by simp [serSecs, sizeSecs]
  | s :: ss, n, h => by
    have ⟨hs, hss⟩ := wfSecs_cons h
    have h1 := length_serSec s hs
    have h2 := length_serSecs ss (alignUp n 4 + sizeSec s) hss
    have := alignUp_ge n 4 (by decide)
    simp only [serSecs, sizeSecs, List.length_append, zeros, List.length_replicate, h1]
    omega
theorem length_serFile : ∀ f : FileI, wfFile f = true → (serFile f).length = sizeFile f
  | .leaf g ckh ckf t a st ext body, h => by
    have w := wfFile_leaf h
    simp only [serFile, sizeFile, List.length_append, fileHdr_length _ _ _ _ _ _ _ _ w.hg]
  | .sect g t a st secs, h => by
    have w := wfFile_sect h
    have hs := length_serSecs secs 0 w.hsecs
    simp only [Nat.zero_add] at hs
    simp only [serFile, sizeFile, List.length_append, fileHdr_length _ _ _ _ _ _ _ _ w.hg, hs,
      decide_eq_true_eq]
    split <;> simp_all
theorem length_serFiles : ∀ (fs : List FileI) (off len : Nat), wfFiles off len fs = true →
    off + (serFiles off fs).length = endFiles off fs
  | [], off, _, _ => by simp [serFiles, endFiles]
  | f :: fs, off, len, h => by
    have ⟨hf, _, _, _, hfs⟩ := wfFiles_cons h
    have h1 := length_serFile f hf
    have h2 := length_serFiles fs (alignUp off 8 + sizeFile f) len hfs
    have := alignUp_ge off 8 (by decide)
    simp only [serFiles, endFiles, List.length_append, ffs, List.length_replicate, h1]
    omega
theorem length_serFv : ∀ v : FvI, wfFv v = true → (serFv v).length = sizeFv v
  | .ffs zv v3 attrs rev rsv blocks ext files free, h => by
    have w := wfFv_ffs h
    have hp := preBytes_length blocks ext (fun e he => (w.hext e he).1)
    have hf := length_serFiles files (preLen blocks ext) _ w.hfiles
    simp only [serFv, sizeFv, List.length_append, fvHeaderCk_length _ _ _ _ _ _ _ _ w.hzv (guid_v3_length v3),
      ffs, List.length_replicate]
    omega
  | .other zv g attrs rev rsv blocks body, h => by
    have w := wfFv_other h
    simp only [serFv, sizeFv, List.length_append, fvHeaderCk_length _ _ _ _ _ _ _ _ w.hzv w.hg]
end

end Fiano.Uefi.Spec
