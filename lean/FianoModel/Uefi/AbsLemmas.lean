/-
  C03: the abstract view of a volume (ordered list of (GUID, type, attributes, body), pad files
  dropped), the refinement of each edit to plain list surgery, and the frame property of the generic
  rewriting (`rw*`): nodes below which the editor never fires come back unchanged.
-/
import FianoModel.Uefi.FindLemmas

namespace Fiano.Uefi
open Fiano

structure AbsFile where
  guid  : Guid
  type  : Nat
  attrs : Nat
  body  : Bytes
  deriving DecidableEq, Repr

def File.isPad (f : File) : Bool := f.info.type == 0xF0

def absFile (f : File) : AbsFile := ⟨f.info.guid, f.info.type, f.info.attrs, f.buf.drop f.info.dataOffset⟩

/-- the abstract volume: pad files are transparent -/
def absFiles (fs : List File) : List AbsFile := (fs.filter (fun f => !f.isPad)).map absFile

theorem absFiles_append (a b : List File) : absFiles (a ++ b) = absFiles a ++ absFiles b := by
  simp [absFiles]

theorem absFiles_cons (f : File) (fs : List File) :
    absFiles (f :: fs) = (if f.isPad then [] else [absFile f]) ++ absFiles fs := by
  unfold absFiles
  by_cases h : f.isPad = true <;> simp [h]

/-! ### Insert: the new file goes exactly where the command says -/

theorem hitIndex_lt (p : Pred) (fs : List File) (i : Nat) (h : hitIndex p fs = some i) : i < fs.length := by
  induction fs generalizing i with
  | nil => simp [hitIndex] at h
  | cons f rest ih =>
    unfold hitIndex at h
    split at h
    · cases h; simp
    · cases hr : hitIndex p rest with
      | none => simp [hr] at h
      | some j =>
        simp [hr] at h
        subst h
        have := ih j hr
        simp; omega

/-- the matched index is the first match: the file there is a match, no earlier one is -/
theorem hitIndex_spec (p : Pred) (fs : List File) (i : Nat) (h : hitIndex p fs = some i) :
    (∃ f, fs[i]? = some f ∧ fileHit p f = true) ∧ ∀ j f, j < i → fs[j]? = some f → fileHit p f = false := by
  induction fs generalizing i with
  | nil => simp [hitIndex] at h
  | cons f rest ih =>
    unfold hitIndex at h
    split at h
    · rename_i hf
      cases h
      exact ⟨⟨f, rfl, hf⟩, fun j _ hj => absurd hj (by omega)⟩
    · rename_i hf
      cases hr : hitIndex p rest with
      | none => simp [hr] at h
      | some k =>
        simp [hr] at h
        subst h
        obtain ⟨⟨g, hg, hgh⟩, hbefore⟩ := ih k hr
        refine ⟨⟨g, by simpa using hg, hgh⟩, ?_⟩
        intro j x hj hx
        cases j with
        | zero => simp at hx; subst hx; simpa using hf
        | succ j' => exact hbefore j' x (by omega) (by simpa using hx)

/-- **refinement of Insert** to list surgery on the abstract volume: the files before and after the
    insertion point are the same, in the same order; exactly the new file (unless it is a pad file)
    is added; `replace_ffs` drops exactly the matched file. -/
theorem insert_abs (w : Where) (nf : File) (fs : List File) (i : Nat) (hi : i < fs.length) :
    absFiles (insertAt w nf fs i) =
      match w with
      | .front => absFiles [nf] ++ absFiles fs
      | .end_ => absFiles fs ++ absFiles [nf]
      | .dxe => absFiles fs ++ absFiles [nf]
      | .after => absFiles (fs.take (i + 1)) ++ absFiles [nf] ++ absFiles (fs.drop (i + 1))
      | .before => absFiles (fs.take i) ++ absFiles [nf] ++ absFiles (fs.drop i)
      | .replace => absFiles (fs.take i) ++ absFiles [nf] ++ absFiles (fs.drop (i + 1)) := by
  have hc : ∀ l, absFiles (nf :: l) = absFiles [nf] ++ absFiles l := fun l => by
    rw [show nf :: l = [nf] ++ l from rfl, absFiles_append]
  cases w <;> simp only [insertAt]
  · exact hc fs
  · rw [absFiles_append]
  · rw [absFiles_append, hc, List.append_assoc]
  · rw [absFiles_append, hc, List.append_assoc]
  · rw [absFiles_append, hc, List.append_assoc]
  · rw [absFiles_append]

/-- nothing is lost by an insertion that is not a replacement -/
theorem insert_keeps (nf : File) (fs : List File) (i : Nat) :
    absFiles (fs.take i) ++ absFiles (fs.drop i) = absFiles fs := by
  rw [← absFiles_append, List.take_append_drop]

/-! ### Remove -/

theorem mkPadFile_isPad (pol : UInt8) (size : Nat) (f : File) (h : mkPadFile pol size = .ok f) : f.isPad = true := by
  unfold mkPadFile at h
  split at h
  · cases h
  · split at h
    · cases h
    · simp only at h
      cases h
      simp [File.isPad, File.info, checksumAndAssemble]

/-- a file at which the editor does not fire keeps its header fields and its buffer (only nodes
    below its sections can change) -/
theorem rwFile_nofire (E : Editor) (f : File) (r : Option File) (hE : E.file f = none)
    (h : rwFile E f = .ok r) : ∃ f', r = some f' ∧ f'.info = f.info ∧ f'.buf = f.buf := by
  obtain ⟨i, buf, secs⟩ := f
  rw [rwFile, hE] at h
  simp only at h
  split at h
  · cases h; exact ⟨_, rfl, rfl, rfl⟩
  · split at h
    · cases h
    · cases h; exact ⟨_, rfl, rfl, rfl⟩

theorem rwFile_fire (E : Editor) (f : File) (x : Except Err (Option File)) (hE : E.file f = some x) :
    rwFile E f = x := by
  obtain ⟨i, buf, secs⟩ := f
  rw [rwFile, hE]

theorem absFile_of_same (f f' : File) (hi : f'.info = f.info) (hb : f'.buf = f.buf) :
    absFile f' = absFile f ∧ f'.isPad = f.isPad := by
  unfold absFile File.isPad
  rw [hi, hb]
  exact ⟨rfl, rfl⟩

/-- **refinement of Remove / remove_pad**: the abstract volume loses exactly the matched files (whether
    they are dropped or turned into pad files of the same size); the others stay, in order -/
theorem remove_abs (p : Pred) (pad : Bool) (pol : UInt8) (fs fs' : List File)
    (h : rwFiles (removeEditor p pad pol) fs = .ok fs') :
    absFiles fs' = absFiles (fs.filter (fun f => !fileHit p f)) := by
  induction fs generalizing fs' with
  | nil => simp [rwFiles] at h; subst h; rfl
  | cons f rest ih =>
    rw [rwFiles] at h
    split at h
    · cases h
    · rename_i r hr
      split at h
      · cases h
      · rename_i rs hrs
        have ihr := ih rs hrs
        rw [List.filter_cons]
        by_cases hh : fileHit p f = true
        · -- a match: dropped or replaced by a pad file
          simp only [hh, Bool.not_true, Bool.false_eq_true, if_false]
          by_cases hpad : pad = true ∨ f.info.type = fileTypePEIM
          · cases hm : mkPadFile pol f.info.extSize with
            | error e =>
              have hE : (removeEditor p pad pol).file f = some (.error e) := by
                simp only [removeEditor, hh, if_true, if_pos hpad, hm]
              rw [rwFile_fire _ _ _ hE] at hr
              cases hr
            | ok pf =>
              have hE : (removeEditor p pad pol).file f = some (.ok (some pf)) := by
                simp only [removeEditor, hh, if_true, if_pos hpad, hm]
              rw [rwFile_fire _ _ _ hE] at hr
              cases hr
              simp only at h
              cases h
              rw [absFiles_cons, mkPadFile_isPad _ _ _ hm]
              simpa using ihr
          · have hE : (removeEditor p pad pol).file f = some (.ok none) := by
              simp only [removeEditor, hh, if_true, if_neg hpad]
            rw [rwFile_fire _ _ _ hE] at hr
            cases hr
            simp only at h
            cases h
            exact ihr
        · -- not a match: the file stays (nodes below it may have been edited)
          have hh' : fileHit p f = false := by simpa using hh
          simp only [hh', Bool.not_false, if_true]
          have hE : (removeEditor p pad pol).file f = none := by
            simp only [removeEditor, hh', Bool.false_eq_true, if_false]
          obtain ⟨f', rfl, hi, hb⟩ := rwFile_nofire _ _ _ hE hr
          simp only at h
          cases h
          have := absFile_of_same f f' hi hb
          rw [absFiles_cons, absFiles_cons, ihr, this.1, this.2]

end Fiano.Uefi
