/-
  C02 (follow-up wp-c02c, round 3): `nvram-compact` as an operation of the edit language of
  `edits_valid` (definitions only — core Lean, linked into `drv_c02`).

  `NVRamCompact.Visit` walks the whole tree (`ApplyChildren` everywhere) and acts at every
  `*uefi.NVarStore`: nested stores first, then `compactNVarStore` (which ends with an `Assemble` of the
  store).  In the shared tree a store hangs below a file node (`FileInfo.nvar`, the projection
  `NvStore = (buf, length)` of the Go node: C10's model re-derives the entries from the bytes, as the
  NVAR hook of `Assemble` does).  A file with a store has no sections, and `File.ApplyChildren` visits
  only the store; so the visitor is one more instance of the generic top-down rewriting `rwTree`
  (Uefi/Visitors.lean): an editor that fires at the files that carry a store and replaces the store.

  The compaction itself is a parameter `c : UInt8 → NvStore → Except Err NvStore` (first argument: the
  process-wide erase polarity), like the NVAR hooks of `Hooks`; the instance the driver runs is C10's
  model (`compactC10`: Nvram.parseStore, Nvram.compact — nested stores included —, same `Length`).

  `Op3` / `step3` / `run3` / `utk3` extend the command lines of Uefi/CreateFv.lean (`Op2`: the modelled
  operations and create-fv) by `nvram-compact`.
-/
import FianoModel.Uefi.CreateFv
import FianoModel.Uefi.FaithfulNvarHook

namespace Fiano.Uefi
open Fiano

/-! ### the visitor -/

/-- the type of the store compaction: erase polarity, store -/
abbrev NvCompactFn := UInt8 → NvStore → Except Err NvStore

/-- `NVRamCompact.Visit` below a file: fires at a file that carries a store -/
def nvCompactEditor (c : NvStore → Except Err NvStore) : Editor :=
  { file := fun f =>
      match f with
      | .mk i buf secs =>
        match i.nvar with
        | some nv =>
          match c nv with
          | .error e => some (.error e)
          | .ok nv' => some (.ok (some (.mk { i with nvar := some nv' } buf secs)))
        | none => none }

/-- `NVRamCompact.Run` -/
def nvCompactOp (c : NvCompactFn) (pol : UInt8) (t : Tree) : Except Err Tree :=
  rwTree (nvCompactEditor (c pol)) t

/-! ### command lines -/

inductive Op3 where
  | base (op : Op2)
  | nvCompact

inductive OpSpec3 where
  | base (s : OpSpec2)
  | nvCompact

def cliParse3 (h : Hooks) : List OpSpec3 → St → Except Err (List Op3 × St)
  | [], st => .ok ([], st)
  | .base (.base s) :: ss, st =>
    match cliOne h st s with
    | .error e => .error e
    | .ok (op, st') =>
      match cliParse3 h ss st' with
      | .error e => .error e
      | .ok (ops, st'') => .ok (.base (.base op) :: ops, st'')
  | .base (.createFv a z n) :: ss, st =>
    match cliParse3 h ss st with
    | .error e => .error e
    | .ok (ops, st') => .ok (.base (.createFv a z n) :: ops, st')
  | .nvCompact :: ss, st =>
    match cliParse3 h ss st with
    | .error e => .error e
    | .ok (ops, st') => .ok (.nvCompact :: ops, st')

/-- `v.Run(f)` for one visitor.  `nvram-compact` walks every file list: the nil `*uefi.File` an
    earlier `insert` may have left behind makes it fault, like every visitor that descends. -/
def step3 (h : Hooks) (c : NvCompactFn) (op : Op3) (s : Run) : Except Err Run :=
  match op with
  | .base op => step2 h op s
  | .nvCompact =>
    if s.nilFile then .error .panic else
    match nvCompactOp c s.st.pol s.tree with
    | .error e => .error e
    | .ok t => .ok { s with tree := t }

def run3 (h : Hooks) (c : NvCompactFn) : List Op3 → Run → Except Err Run
  | [], s => .ok s
  | op :: ops, s =>
    match step3 h c op s with
    | .error e => .error e
    | .ok s' => run3 h c ops s'

/-- `utk image op…` in a fresh process.  `hc` = the hooks in force while the command line is parsed
    (new files are read before any volume has set the erase polarity), `h` = the hooks of `uefi.Parse`
    and of the run. -/
def utk3 (hc h : Hooks) (c : NvCompactFn) (image : Bytes) (specs : List OpSpec3) : Except Err Run :=
  match cliParse3 hc specs {} with
  | .error e => .error e
  | .ok (ops, st) =>
    match parseWith h (defaultFuel image) image st with
    | .error e => .error e
    | .ok (t, st') => run3 h c ops { tree := t, st := st' }

/-! ### the instance the driver runs: C10's model of the store -/

def nvErr : Nvram.Err → Err
  | .panic => .panic
  | .fuel => .fuel
  | _ => .err

/-- `(&visitors.NVRamCompact{}).Run(store)` on the projection: the entries are re-derived from the
    bytes (C10: a store `Assemble` wrote parses back to the in-memory store), `Length` is kept -/
def compactC10 : NvCompactFn := fun pol nv =>
  match Nvram.parseStore pol.toNat nv.buf with
  | .error e => .error (nvErr e)
  | .ok st =>
    match Nvram.compact pol.toNat (Nvram.depthFuel st) st with
    | .error e => .error (nvErr e)
    | .ok st' => .ok ⟨st'.buf, nv.length⟩

/-- the NVAR hook of `Assemble`: `(&visitors.Assemble{}).Run(store)` on the projection -/
def nvAsmC10 (nv : NvStore) (pol : UInt8) : Except Err NvStore :=
  match Nvram.parseStore pol.toNat nv.buf with
  | .error e => .error (nvErr e)
  | .ok st =>
    match Nvram.asmStore pol.toNat (Nvram.depthFuel st) st with
    | .error e => .error (nvErr e)
    | .ok st' => .ok ⟨st'.buf, nv.length⟩

/-- hooks with C10's `NewNVarStore` (stores parsed under erase polarity `pol`) and `Assemble` -/
def hooksC10 (pol : UInt8) : Hooks := { nvarParse := nvParseC10 pol, nvarAsm := nvAsmC10 }

/-! ### the laws of the NVAR functions, as run-time tests (the driver reports them on every case) -/

mutual
def nvStoresSec : Section → List NvStore
  | .mk _ _ encap => nvStoresNodes encap
def nvStoresNodes : List Node → List NvStore
  | [] => []
  | .sec s :: ns => nvStoresSec s ++ nvStoresNodes ns
  | .fv v :: ns => nvStoresFv v ++ nvStoresNodes ns
def nvStoresSecs : List Section → List NvStore
  | [] => []
  | s :: ss => nvStoresSec s ++ nvStoresSecs ss
def nvStoresFile : File → List NvStore
  | .mk i _ secs =>
    match i.nvar with
    | some nv => [nv]
    | none => nvStoresSecs secs
def nvStoresFiles : List File → List NvStore
  | [] => []
  | f :: fs => nvStoresFile f ++ nvStoresFiles fs
def nvStoresFv : Fv → List NvStore
  | .mk _ _ files => nvStoresFiles files
end

def nvStoresElems : List BiosElem → List NvStore
  | [] => []
  | .pad _ _ :: es => nvStoresElems es
  | .fv v :: es => nvStoresFv v ++ nvStoresElems es

def nvStoresRegions : List Region → List NvStore
  | [] => []
  | .bios b :: rs => nvStoresElems b.elems ++ nvStoresRegions rs
  | _ :: rs => nvStoresRegions rs

/-- every store of the tree -/
def nvStores : Tree → List NvStore
  | .bios b => nvStoresElems b.elems
  | .flash f => nvStoresRegions f.regions

/-- the law `length = |buf|` on the stores of a tree and on what `c` / the hook make of them -/
def nvLawHolds (h : Hooks) (c : NvCompactFn) (pol : UInt8) (t : Tree) : Bool :=
  (nvStores t).all fun nv =>
    decide (nv.length = nv.buf.length) &&
    (match c pol nv with
     | .ok nv' => decide (nv'.length = nv'.buf.length)
     | .error _ => true) &&
    (match h.nvarAsm nv pol with
     | .ok nv' => decide (nv'.length = nv'.buf.length)
     | .error _ => true)

end Fiano.Uefi
