/-
  C09a, second half, per node, for what `Assemble` regenerates: the bridges of ValidateBridgeCore.lean
  instantiated with the node-level validity theorems of C02 (lemma level: `mkPadFile_valid`, `casm_fileOk`,
  `setSize_sizeFields`, `sectionsOk_joinAll`, `genSecHeader_good`, `relayoutFv_fvOk` — the statements of
  Props/C02 `padFile_valid`, `asmFile_valid`, `genSecHeader_valid`, `relayout_volume_valid`).

  Core Lean only.
-/
import FianoModel.Uefi.ValidateBridgeCore
import FianoModel.Uefi.SectionLemmas
import FianoModel.Uefi.HeaderLemmas

namespace Fiano.Uefi.C09
open Fiano Fiano.Uefi Fiano.Uefi.Spec Fiano.Uefi.EditArith

/-- the size field of a file `ChecksumAndAssemble` writes is FFFFFF when the file is large, provided the
    header fields say so — true of everything `SetSize` prepares (`write3` saturates) -/
theorem casm_large (i : FileInfo) (data : Bytes) (hs : SizeFields i data.length)
    (h3 : i.attrs % 2 = 1 → i.size3 = 0xFFFFFF) :
    Valid.fld (checksumAndAssemble i data).2 19 1 % 2 = 1 → Valid.fld (checksumAndAssemble i data).2 20 3 = 0xFFFFFF := by
  have hg := hs.guid
  rw [casm_buf' i data hg, fld_attrs _ hg, fld_size3 _ hg, byte_toNat _ hs.attrs]
  intro hL
  have hs3lt : i.size3 < 16777216 := by have := h3 hL; omega
  rw [size3_bytes _ hs3lt]
  exact h3 hL

/-- **a file written by `ChecksumAndAssemble` validates cleanly** once parsed again, whatever follows it -/
theorem casm_validates (i : FileInfo) (data : Bytes) (hs : SizeFields i data.length)
    (h3 : i.attrs % 2 = 1 → i.size3 = 0xFFFFFF) {fuel0 o : Nat}
    (hok : Valid.fileOk (fuel0 + 1) (checksumAndAssemble i data).2 o = true)
    {h : Hooks} {fuel : Nat} {rest : Bytes} {st st1 : St} {g : File}
    (hp : parseFile h fuel ((checksumAndAssemble i data).2 ++ rest) st = .ok (some g, st1)) :
    validateFileNode g.info g.buf = [] :=
  fileOk_validates hok (casm_large i data hs h3) hp

/-- **`validate_saved`, pad files**: the pad file `Assemble` creates for a gap (`CreatePadFile`: any size
    from 24 bytes on, either erase polarity, both header forms) passes every file check of validate once
    the saved image is parsed again -/
theorem padFile_validates (pol : UInt8) (size : Nat) (h24 : 24 ≤ size) (h64 : size < 2 ^ 64) (hp : pol = 0xFF ∨ pol = 0) :
    ∃ f, mkPadFile pol size = .ok f ∧
      ∀ (h : Hooks) (fuel : Nat) (rest : Bytes) (st st1 : St) (g : File),
        parseFile h fuel (f.buf ++ rest) st = .ok (some g, st1) → validateFileNode g.info g.buf = [] := by
  obtain ⟨f, hmk, _, _, _, _, hok⟩ := mkPadFile_valid pol size h24 h64 hp
  refine ⟨f, hmk, ?_⟩
  intro h fuel rest st st1 g hpg
  have heq := mkPadFile_eq pol size h24 hp
  rw [hmk] at heq
  simp only [Except.ok.injEq] at heq
  have hbuf : f.buf = (checksumAndAssemble (padInfo pol size 0) (List.replicate (padDataLen size) pol)).2 := by
    rw [heq]; rfl
  have hs := padInfo_sizeFields pol size 0 h24 h64 hp
  have hdl : (List.replicate (padDataLen size) pol).length = padDataLen size := List.length_replicate ..
  have h3 : (padInfo pol size 0).attrs % 2 = 1 → (padInfo pol size 0).size3 = 0xFFFFFF := by
    unfold padInfo setSize write3
    by_cases hb : size ≥ 0xFFFFFF
    · simp [hb]
    · simp [hb]
  rw [hbuf] at hpg
  have hok' := hok 0 0
  rw [hbuf] at hok'
  exact casm_validates _ _ (by rw [hdl]; exact hs) h3 hok' hpg

/-- **`validate_saved`, rebuilt files**: the file `Assemble` rebuilds from its sections (`SetSize`,
    `ChecksumAndAssemble`) passes every file check of validate once the saved image is parsed again
    (hypotheses of C02 `asmFile_valid`: the sections are `GoodSec`, header fields in range) -/
theorem asmFile_validates (i : FileInfo) (secs : List Bytes)
    (hsec : ∀ b ∈ secs, GoodSec b) (hb : joinEnd secs 0 < 2 ^ 62)
    (hg : i.guid.length = 16) (ht : i.type < 256) (ha : i.attrs < 256) (hst : i.state < 256)
    {h : Hooks} {fuel : Nat} {rest : Bytes} {st st1 : St} {g : File}
    (hp : parseFile h fuel
      ((checksumAndAssemble { i with attrs := (setSize i.attrs (24 + (joinPad4 secs []).length) true).1,
                                      size3 := (setSize i.attrs (24 + (joinPad4 secs []).length) true).2.1,
                                      extSize := (setSize i.attrs (24 + (joinPad4 secs []).length) true).2.2 }
          (joinPad4 secs [])).2 ++ rest) st = .ok (some g, st1)) :
    validateFileNode g.info g.buf = [] := by
  have h1 := joinPad4_eq secs [] (by simpa using hb)
  have hlen : (joinPad4 secs []).length < 2 ^ 63 := by
    rw [h1.1, h1.2]; simp at hb ⊢; omega
  have hs := setSize_sizeFields i (joinPad4 secs []).length hg ht ha hst hlen
  have hbits := attrs_bit0 i.attrs ha
  -- an offset at which the data alignment is respected exists
  generalize hI : ({ i with attrs := (setSize i.attrs (24 + (joinPad4 secs []).length) true).1,
                             size3 := (setSize i.attrs (24 + (joinPad4 secs []).length) true).2.1,
                             extSize := (setSize i.attrs (24 + (joinPad4 secs []).length) true).2.2 } : FileInfo) = I at hs hp
  have h3 : I.attrs % 2 = 1 → I.size3 = 0xFFFFFF := by
    rw [← hI]
    unfold setSize write3
    by_cases hbig : 24 + (joinPad4 secs []).length ≥ 0xFFFFFF
    · simp only [hbig, if_true]; intro _; rw [if_pos (by omega)]
    · simp only [hbig, if_false]; intro hL; omega
  have hA : 0 < Valid.dataAlign I.attrs := by
    unfold Valid.dataAlign
    simp only
    split
    · exact Nat.pow_pos (by omega)
    · have : ∀ k, k < 8 → 0 < [1, 16, 128, 512, 1024, 4096, 32768, 65536].getD k 1 := by decide
      exact this _ (Nat.mod_lt _ (by omega))
  obtain ⟨o, ho⟩ : ∃ o, (o + (if I.attrs % 2 = 1 then 32 else 24)) % Valid.dataAlign I.attrs = 0 := by
    refine ⟨Valid.dataAlign I.attrs * 32 - (if I.attrs % 2 = 1 then 32 else 24), ?_⟩
    have : (if I.attrs % 2 = 1 then 32 else 24) ≤ Valid.dataAlign I.attrs * 32 := by split <;> omega
    rw [Nat.sub_add_cancel this]
    exact Nat.mul_mod_right _ _
  have hso : ∀ fuel0, secs.length + 1 ≤ fuel0 → Valid.sectionsOk fuel0 (joinPad4 secs []) 0 = true := by
    intro fuel0 hf
    have h2 := sectionsOk_joinAll secs hsec [] fuel0 hf
    rw [h1.1]
    simpa [Valid.alignUp] using h2
  have hok := casm_fileOk I (joinPad4 secs []) (secs.length + 1) o hs ho (fun _ => hso _ (Nat.le_refl _))
  exact casm_validates I _ hs h3 hok hp

/-- **`validate_saved`, regenerated sections**: the section `GenSecHeader` writes (UI, version, depex
    regenerated by Assemble; the PE32 section of replace_pe32; GUID-defined with its sub-header) passes the
    section checks of validate once the saved image is parsed again (hypotheses of C02 `genSecHeader_valid`) -/
theorem genSecHeader_validates (i i' : SecInfo) (body buf' : Bytes) (hgen : genSecHeader i body = .ok (i', buf'))
    (ht : i.type < 256) (hnf : i.type ≠ 0x17) (hts : i.type ≠ 0x02 → i.ts = none)
    (hg : ∀ g, i.ts = some g → g.guid.length = 16) (hb : body.length + 28 < 4294967296)
    {h : Hooks} {fuel idx : Nat} {rest : Bytes} {st st1 : St} {s : Section}
    (hp : parseSection h fuel (buf' ++ rest) idx st = .ok (s, st1)) : validateSecNode s.info s.buf = [] :=
  have hgs := (genSecHeader_good i i' body buf' hgen ht hnf hts hg hb).1
  secSized_validates ⟨hgs.len4, hgs.ext8, hgs.size⟩ hp

/-! ### volumes -/

/-! the header patches of a relayout leave the revision byte and the file-system GUID alone -/

theorem getElem?_of_take_eq {x y : Bytes} {D k : Nat} (h : x.take D = y.take D) (hk : k < D) : x[k]? = y[k]? := by
  have h1 : (x.take D)[k]? = x[k]? := by rw [List.getElem?_take]; simp [hk]
  have h2 : (y.take D)[k]? = y[k]? := by rw [List.getElem?_take]; simp [hk]
  rw [← h1, ← h2, h]

theorem slice_eq_of_getElem? {x y : Bytes} {o n : Nat} (h : ∀ k, o ≤ k → k < o + n → x[k]? = y[k]?) :
    slice x o n = slice y o n := by
  unfold slice
  apply List.ext_getElem?
  intro j
  rw [List.getElem?_take, List.getElem?_take]
  by_cases hj : j < n
  · simp only [hj, if_true, List.getElem?_drop]
    exact h (o + j) (by omega) (by omega)
  · simp only [hj, if_false]

/-- `patchFvHeader` without the FFSv3 switch writes bytes 32–39, 50–51 and 56–59 only -/
theorem patchFvHeader_low (buf : Bytes) (length count headerLen : Nat) (out : Bytes)
    (h : patchFvHeader buf length none count headerLen = .ok out) (k : Nat)
    (h1 : k < 32 ∨ 40 ≤ k) (h2 : k < 50 ∨ 52 ≤ k) (h3 : k < 56 ∨ 60 ≤ k) : out[k]? = buf[k]? := by
  unfold patchFvHeader at h
  split at h
  · cases h
  · rename_i h60
    simp only at h
    have l1 : (splice buf 32 (leN 8 length)).length = buf.length := splice_length _ _ _ (by simp; omega)
    have l2 : (splice (splice buf 32 (leN 8 length)) 56 (leN 4 count)).length = buf.length := by
      rw [splice_length _ _ _ (by simp; omega)]; exact l1
    have l3 : (splice (splice (splice buf 32 (leN 8 length)) 56 (leN 4 count)) 50 [0, 0]).length = buf.length := by
      rw [splice_length _ _ _ (by simp; omega)]; exact l2
    have sp : ∀ (x : Bytes) (o : Nat) (d : Bytes), o + d.length ≤ x.length → (k < o ∨ o + d.length ≤ k) →
        (splice x o d)[k]? = x[k]? := by
      intro x o d hl hk
      rcases hk with hk | hk
      · exact splice_getElem?_lt x o d k hk hl
      · exact splice_getElem?_ge x o d k hk hl
    split at h
    · cases h
    · split at h
      · cases h
      · simp only [Except.ok.injEq] at h
        rw [← h]
        rw [sp _ 50 _ (by simp; omega) (by simpa using h2), sp _ 50 _ (by simp; omega) (by simpa using h2),
          sp _ 56 _ (by simp; omega) (by simpa using h3), sp _ 32 _ (by simp; omega) (by simpa using h1)]

/-- **`validate_saved`, relaid-out volumes**: under the hypotheses of C02 `relayout_volume_valid` (a relayout
    that neither grows the volume nor switches it to FFSv3, on a volume node whose buffer is the whole volume
    and passes the reader's header rules), when the volume had revision 2 and a file-system GUID the tool
    knows before the edit, the volume `Assemble` writes passes every volume check of validate once the saved
    image is parsed again: `HeaderLen` against the block map, length, signature, 16-bit checksum -/
theorem relayout_volume_validates (i : FvInfo) (buf : Bytes) (files : List File) (st : St) (i' : FvInfo) (out : Bytes) (st' : St)
    (hr : relayoutFv i buf files st = .ok (i', out, st'))
    (hp : st.pol = 0xFF ∨ st.pol = 0)
    (hgood : ∀ f ∈ files, GoodFile st.pol (f.info.attrs, f.buf))
    (hbound : layEnd (placed files) i.dataOffset < 2 ^ 62)
    (hfit : layEnd (placed files) i.dataOffset ≤ i.length)
    (hfull : buf.length = i.length) (hok : hdrOk buf = true) (hffs : fvIsFfs buf = true)
    (hhl : i.headerLen = Valid.fld buf 48 2)
    (hcnt : ∀ b0 bs, i.blocks = b0 :: bs → b0.count = Valid.fld buf 56 4)
    (hnoswap : (st.ffs3 && i.fsGuid == guidFFS2) = false)
    (hD : i.dataOffset = Valid.alignUp (fvFirst buf) 8) (hD64 : 64 ≤ i.dataOffset)
    (her : Valid.allAre st.pol ((buf.drop (fvFirst buf)).take (i.dataOffset - fvFirst buf)) = true)
    (hpol : st.pol = fvErased buf)
    (hext : Valid.fld buf 52 2 ≠ 0 → Valid.fld buf 52 2 + 20 ≤ i.dataOffset)
    (hhD : Valid.fld buf 48 2 ≤ i.dataOffset)
    (hrev : rd buf 55 1 = 2) (hguid : knownFvGuids.contains (slice buf 16 16) = true)
    {h : Hooks} {fuel off : Nat} {rs : Bool} {rest : Bytes} {st0 st1 : St} {fv : Fv}
    (hpv : parseFv h fuel (out ++ rest) off rs st0 = .ok (fv, st1)) : validateFvNode fv.info fv.buf = [] := by
  obtain ⟨_, need, hfv⟩ := relayoutFv_fvOk i buf files st i' out st' hr hp hgood hbound hfit hfull hok hffs hhl hcnt
    hnoswap hD hD64 her hpol hext hhD
  have hok' : Valid.fvOk (need + 1) out = true := hfv (need + 1) (by omega)
  -- bytes 16–31 and 55 of the output are those of the input volume
  obtain ⟨hDle, _, hFlen, _, b0, bs, hblocks, hpatch⟩ := relayoutFv_shape i buf files st i' out st' hr hp hgood hbound hfit
  rw [hnoswap, if_neg (by simp)] at hpatch
  have hFtake : (laidOut i buf files st.pol).take i.dataOffset = buf.take i.dataOffset := by
    unfold laidOut
    have htake : (buf.take i.dataOffset).length = i.dataOffset := by simp; omega
    rw [List.take_append_of_le_length (by omega), List.take_of_length_le (by omega)]
  have hk : ∀ k, (16 ≤ k ∧ k < 32) ∨ k = 55 → out[k]? = buf[k]? := by
    intro k hk
    rw [patchFvHeader_low _ _ _ _ _ hpatch k (by omega) (by omega) (by omega)]
    exact getElem?_of_take_eq hFtake (by omega)
  refine fvOk_validates hok' ?_ ?_ hpv
  · have : slice out 55 1 = slice buf 55 1 := slice_eq_of_getElem? (fun k h1 h2 => hk k (Or.inr (by omega)))
    unfold rd; rw [this]; exact hrev
  · have : slice out 16 16 = slice buf 16 16 := slice_eq_of_getElem? (fun k h1 h2 => hk k (Or.inl ⟨h1, by omega⟩))
    rw [this]; exact hguid

end Fiano.Uefi.C09
