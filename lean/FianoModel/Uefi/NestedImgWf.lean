/-
  Property C06, whole images (follow-up wp-c06c) — what a save writes is inside the image grammar
  again: `wf_norm_img`.  From the codec laws (`LawsOK`) and the per-volume side conditions `sideFv` of
  NestedWf.lean on every saved top-level volume — nothing else.  Everything the outer layers add is
  *proved* to be kept: the volume scan of `NewBIOSRegion` finds every saved volume exactly behind
  its padding and a saved bare BIOS region does not start with a flash signature (NestedImgScan.lean:
  a top-level volume keeps its first 48 bytes), and the descriptor, the region table and the tiling of
  a flash image see only the lengths and kinds of the regions (`skel_nrm`; a top-level volume keeps
  its length).
-/
import FianoModel.Uefi.NestedImgScan

namespace Fiano.Uefi.Nested
open Fiano Fiano.Uefi Fiano.Uefi.Spec

variable {h : Hooks} {ok : Guid → Bytes → Bool}

/-- the side conditions of NestedWf.lean on every (saved) top-level volume -/
def sideItems (h : Hooks) (ok : Guid → Bytes → Bool) : List (Bytes × CFv) → Bool
  | [] => true
  | (_, v) :: is => sideFv h ok v && sideItems h ok is

/-- **the side conditions on a saved image** `i' = normImg h i`: `sideFv` of each of its volumes -/
def sideImg (h : Hooks) (ok : Guid → Bytes → Bool) : CImg → Bool
  | .flash f => sideItems h ok f.bios.items
  | .bios b => sideItems h ok b.items

theorem wf_norm_items (hlaw : LawsOK h ok) : ∀ (is : List (Bytes × CFv)) (tail : Bytes), wfItemsC h is tail = true →
    okItems h is = true → sideItems h ok (normItems h is) = true →
    ∀ pv ∈ normItems h is, wfFv h pv.2 = true
  | [], _, _, _, _ => by intro pv hpv; cases hpv
  | (p, v) :: is, tail, hw, hok, hs => by
    obtain ⟨hv, _, hr⟩ := wfItemsC_cons hw
    simp only [okItems, Bool.and_eq_true] at hok
    simp only [normItems, sideItems, Bool.and_eq_true] at hs
    intro pv hpv
    simp only [normItems] at hpv
    rcases List.mem_cons.mp hpv with rfl | hpv'
    · exact wf_norm hlaw v false hv hok.1 hs.1
    · exact wf_norm_items hlaw is tail hr hok.2 hs.2 pv hpv'

theorem wf_norm_bios (hlaw : LawsOK h ok) (b : CBios) (hw : wfBiosC h b = true) (hok : okItems h b.items = true)
    (hs : sideItems h ok (normItems h b.items) = true) : wfBiosC h (normBios h b) = true := by
  simp only [wfBiosC, Bool.and_eq_true, Bool.not_eq_true', beq_iff_eq] at hw ⊢
  obtain ⟨⟨hne, hitems⟩, htail⟩ := hw
  refine ⟨⟨?_, scanItems_norm b.items b.tail hitems hok _ (wf_norm_items hlaw b.items b.tail hitems hok hs) rfl⟩, htail⟩
  cases hb : b.items with
  | nil => rw [hb] at hne; cases hne
  | cons x xs => obtain ⟨p, v⟩ := x; simp [normBios, hb, normItems]

/-! ### the skeleton of a flash image sees lengths and kinds only -/

theorem nrm_data_length (nb : BiosI → BiosI) (r : RegI)
    (hL : ∀ b, r = .bios b → (serBios (nb b)).length = (serBios b).length) :
    (nrmReg nb r).data.length = r.data.length := by
  cases r with
  | bios b => simp only [nrmReg, RegI.data, hL b rfl]
  | me d => rfl
  | raw i d => rfl
  | gap d => rfl

theorem nrm_isGap (nb : BiosI → BiosI) (r : RegI) : (nrmReg nb r).isGap = r.isGap := by cases r <;> rfl

theorem nrm_kindOk (nb : BiosI → BiosI) (r : RegI) (i : Nat) : kindOk (nrmReg nb r) i = kindOk r i := by cases r <;> rfl

theorem noAdjacentGaps_nrm (nb : BiosI → BiosI) : ∀ (rs : List RegI),
    noAdjacentGaps (rs.map (nrmReg nb)) = noAdjacentGaps rs
  | [] => rfl
  | [r] => by cases r <;> rfl
  | r :: r2 :: rs => by
    have ih := noAdjacentGaps_nrm nb (r2 :: rs)
    simp only [List.map_cons] at ih ⊢
    cases r <;> cases r2 <;> simp_all only [nrmReg, noAdjacentGaps]

theorem matchRegs_nrm (nb : BiosI → BiosI) : ∀ (rs : List RegI) (blk : Nat) (es : List (Nat × FlashRegion)),
    (∀ b, RegI.bios b ∈ rs → (serBios (nb b)).length = (serBios b).length) →
    matchRegs (rs.map (nrmReg nb)) blk es = matchRegs rs blk es
  | [], _, _, _ => rfl
  | r :: rs, blk, es, hL => by
    have hd := nrm_data_length nb r (fun b hb => hL b (by rw [hb]; exact List.mem_cons_self))
    have hb : (nrmReg nb r).blocks = r.blocks := by simp only [RegI.blocks, hd]
    have ih := fun blk es => matchRegs_nrm nb rs blk es (fun b hb => hL b (List.mem_cons_of_mem _ hb))
    simp only [List.map_cons, matchRegs, hd, hb, nrm_isGap, nrm_kindOk, ih]

theorem skel_nrm (nb : BiosI → BiosI) (f : FlashI)
    (hL : ∀ b, RegI.bios b ∈ f.regions → (serBios (nb b)).length = (serBios b).length) :
    skelFlash ⟨f.desc, f.regions.map (nrmReg nb)⟩ = skelFlash f := by
  simp only [skelFlash, serRegs_nrm_length nb f.regions hL, noAdjacentGaps_nrm, matchRegs_nrm nb f.regions _ _ hL]

/-- **what a save writes is inside the image grammar again** -/
theorem wf_norm_img (hk : HooksOK h) (hlaw : LawsOK h ok) (i : CImg) (hw : WFI h i) (hok : okImg h i = true)
    (hs : sideImg h ok (normImg h i) = true) : WFI h (normImg h i) := by
  cases i with
  | bios b =>
    obtain ⟨hwb, hsig⟩ := wfImg_bios hw
    simp only [normImg, sideImg, normBios] at hs
    simp only [WFI, normImg, wfImgB, Bool.and_eq_true, Option.isNone_iff_eq_none]
    exact ⟨wf_norm_bios hlaw b hwb hok hs, by rw [findSignature_norm b hwb hok]; exact hsig⟩
  | flash f =>
    obtain ⟨hsk, hwb, hpre, hpost⟩ := wfFlashC_iff hw
    simp only [normImg, sideImg, normBios] at hs
    have hL : ∀ b, RegI.bios b ∈ (flatFlash f).regions →
        (serBios (flatBios (normBios h f.bios))).length = (serBios b).length := by
      intro b hm
      rw [mem_flat_regions hpre hpost b hm]
      obtain ⟨_, _, _, _, _, hl, _, _⟩ := asm_biosC hk f.bios none { pol := 0xFF, ffs3 := false } hwb hok rfl rfl
      exact hl
    have hsk' := skel_nrm (fun _ => flatBios (normBios h f.bios)) (flatFlash f) hL
    rw [map_nrm_flat f hpre hpost] at hsk'
    have e : flatFlash { f with bios := normBios h f.bios } =
        ⟨(flatFlash f).desc, f.pre ++ RegI.bios (flatBios (normBios h f.bios)) :: f.post⟩ := rfl
    simp only [WFI, normImg, wfImgB, wfFlashC, Bool.and_eq_true]
    rw [e, hsk']
    exact ⟨⟨⟨hsk, wf_norm_bios hlaw f.bios hwb hok hs⟩, hpre⟩, hpost⟩

end Fiano.Uefi.Nested
