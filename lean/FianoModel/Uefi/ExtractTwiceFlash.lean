/-
  UEFI core model — saving is a fixed point in memory: flash images (follow-up wp-c07b).

  The FlashImage case of `Assemble.Visit` run on what it has just written: the descriptor windows are
  overwritten with the same bytes, every BIOS region is a fixed point (Uefi/ExtractTwiceTop.lean), the
  regions are re-pointed to the same table entries and — their bases being strictly increasing, which
  the tiling check implies when no region is empty (`frOk`: Base ≤ Limit) — sorted into the same order.
-/
import FianoModel.Uefi.ExtractTwiceTop

namespace Fiano.Uefi
open Fiano

/-! ### the descriptor -/

theorem tw_splice3_get (x M R A : Bytes) (o1 o2 o3 : Nat) (h1 : o1 + M.length ≤ x.length) (h2 : o2 + R.length ≤ x.length)
    (h3 : o3 + A.length ≤ x.length) (i : Nat) :
    (splice (splice (splice x o1 M) o2 R) o3 A)[i]? =
      if o3 ≤ i ∧ i < o3 + A.length then A[i - o3]?
      else if o2 ≤ i ∧ i < o2 + R.length then R[i - o2]?
      else if o1 ≤ i ∧ i < o1 + M.length then M[i - o1]? else x[i]? := by
  have l1 : (splice x o1 M).length = x.length := splice_length _ _ _ h1
  have l2 : (splice (splice x o1 M) o2 R).length = x.length := by rw [splice_length _ _ _ (by omega), l1]
  rw [tw_splice_get _ _ _ _ (by omega), tw_splice_get _ _ _ _ (by omega), tw_splice_get _ _ _ _ h1]

theorem tw_splice3_length (x M R A : Bytes) (o1 o2 o3 : Nat) (h1 : o1 + M.length ≤ x.length) (h2 : o2 + R.length ≤ x.length)
    (h3 : o3 + A.length ≤ x.length) : (splice (splice (splice x o1 M) o2 R) o3 A).length = x.length := by
  have l1 : (splice x o1 M).length = x.length := splice_length _ _ _ h1
  have l2 : (splice (splice x o1 M) o2 R).length = x.length := by rw [splice_length _ _ _ (by omega), l1]
  rw [splice_length _ _ _ (by omega), l2]

theorem tw_splice3_idem (x M R A : Bytes) (o1 o2 o3 : Nat) (h1 : o1 + M.length ≤ x.length) (h2 : o2 + R.length ≤ x.length)
    (h3 : o3 + A.length ≤ x.length) :
    splice (splice (splice (splice (splice (splice x o1 M) o2 R) o3 A) o1 M) o2 R) o3 A =
      splice (splice (splice x o1 M) o2 R) o3 A := by
  have lb := tw_splice3_length x M R A o1 o2 o3 h1 h2 h3
  apply List.ext_getElem?
  intro i
  rw [tw_splice3_get _ M R A o1 o2 o3 (by omega) (by omega) (by omega) i, tw_splice3_get x M R A o1 o2 o3 h1 h2 h3 i]
  by_cases c3 : o3 ≤ i ∧ i < o3 + A.length
  · rw [if_pos c3, if_pos c3]
  rw [if_neg c3, if_neg c3]
  by_cases c2 : o2 ≤ i ∧ i < o2 + R.length
  · rw [if_pos c2, if_pos c2]
  rw [if_neg c2, if_neg c2]
  by_cases c1 : o1 ≤ i ∧ i < o1 + M.length
  · rw [if_pos c1, if_pos c1]
  rw [if_neg c1, if_neg c1]

theorem asmDescriptor_idem (d d' : Descriptor) (h : asmDescriptor d = .ok d') :
    asmDescriptor d' = .ok d' ∧ d'.region = d.region ∧ d'.map = d.map := by
  unfold asmDescriptor at h
  simp only [] at h
  by_cases hg : d.mapStart + 16 > d.buf.length ∨ d.regionStart + 64 > d.buf.length ∨ d.masterStart + 12 > d.buf.length
  · rw [if_pos hg] at h; cases h
  rw [if_neg hg] at h
  cases h
  refine ⟨?_, rfl, rfl⟩
  have hM : ((d.map.fields.map byte).take 16).length ≤ 16 := by simp; omega
  have hR : ((leN 2 d.region.eraseSize ++ encodeRegions d.region.regions).take 62).length ≤ 62 := by simp; omega
  have hA : ((encodePerms d.master.perms).take 12).length ≤ 12 := by simp; omega
  have lb := tw_splice3_length d.buf _ _ _ d.mapStart (d.regionStart + 2) d.masterStart
    (by omega : d.mapStart + ((d.map.fields.map byte).take 16).length ≤ d.buf.length)
    (by omega : d.regionStart + 2 + ((leN 2 d.region.eraseSize ++ encodeRegions d.region.regions).take 62).length ≤ d.buf.length)
    (by omega : d.masterStart + ((encodePerms d.master.perms).take 12).length ≤ d.buf.length)
  unfold asmDescriptor
  simp only []
  rw [if_neg (by rw [lb]; exact hg)]
  rw [tw_splice3_idem d.buf _ _ _ d.mapStart (d.regionStart + 2) d.masterStart (by omega) (by omega) (by omega)]

/-! ### the `useFFS3` flag between top-level elements -/

theorem tw_asmFv_ffs3 (h : Hooks) (v : Fv) (st : St) (v1 : Fv) (st1 : St) (ha : asmFv h v st = .ok (v1, st1))
    (hf : st.ffs3 = false) : st1.ffs3 = false := by
  obtain ⟨i, buf, files⟩ := v
  rw [asmFv_eq] at ha
  cases hs : setPolarity (polOfAttrs i.attrs) st with
  | error x => rw [hs] at ha; cases ha
  | ok sp =>
    rw [hs] at ha
    simp only [] at ha
    have hsp := (tw_setPolarity_ok _ _ _ hs).2.1
    cases h1 : asmFiles h files sp with
    | error x => rw [h1] at ha; cases ha
    | ok p =>
      obtain ⟨fs1, sta⟩ := p
      rw [h1] at ha
      simp only [] at ha
      cases fs1 with
      | nil =>
        simp only [asmFvTail, Except.ok.injEq, Prod.mk.injEq] at ha
        obtain ⟨_, rfl⟩ := ha
        have hnil := asmFiles_nil h files sp [] sta h1 rfl
        subst hnil
        simp only [asmFiles, Except.ok.injEq, Prod.mk.injEq] at h1
        rw [← h1.2, hsp, hf]
      | cons a t =>
        simp only [asmFvTail] at ha
        cases hr : relayoutFv i buf (a :: t) sta with
        | error x => rw [hr] at ha; cases ha
        | ok q =>
          obtain ⟨i', out, stc⟩ := q
          rw [hr] at ha
          simp only [Except.ok.injEq, Prod.mk.injEq] at ha
          obtain ⟨_, rfl⟩ := ha
          rw [Exact.relayoutFv_state _ _ _ _ _ _ _ hr]

theorem tw_asmBiosElems_ffs3 (h : Hooks) : ∀ (es : List BiosElem) (st : St) (es1 : List BiosElem) (st1 : St),
    asmBiosElems h es st = .ok (es1, st1) → st.ffs3 = false → st1.ffs3 = false
  | [], st, es1, st1, ha, hf => by
    simp only [asmBiosElems, Except.ok.injEq, Prod.mk.injEq] at ha
    rw [← ha.2]; exact hf
  | .pad b o :: t, st, es1, st1, ha, hf => by
    rw [asmBiosElems] at ha
    cases h2 : asmBiosElems h t st with
    | error x => rw [h2] at ha; cases ha
    | ok q =>
      obtain ⟨t', stb⟩ := q
      rw [h2] at ha
      simp only [Except.ok.injEq, Prod.mk.injEq] at ha
      rw [← ha.2]
      exact tw_asmBiosElems_ffs3 h t st t' stb h2 hf
  | .fv v :: t, st, es1, st1, ha, hf => by
    rw [asmBiosElems] at ha
    cases h1 : asmFv h v st with
    | error x => rw [h1] at ha; cases ha
    | ok p =>
      obtain ⟨v', sta⟩ := p
      rw [h1] at ha
      simp only [] at ha
      cases h2 : asmBiosElems h t sta with
      | error x => rw [h2] at ha; cases ha
      | ok q =>
        obtain ⟨t', stb⟩ := q
        rw [h2] at ha
        simp only [Except.ok.injEq, Prod.mk.injEq] at ha
        rw [← ha.2]
        exact tw_asmBiosElems_ffs3 h t sta t' stb h2 (tw_asmFv_ffs3 h v st v' sta h1 hf)

theorem tw_asmBios_ffs3 (h : Hooks) (b : BiosRegion) (st : St) (b1 : BiosRegion) (st1 : St)
    (ha : asmBios h b st = .ok (b1, st1)) (hf : st.ffs3 = false) : st1.ffs3 = false := by
  unfold asmBios at ha
  cases h1 : asmBiosElems h b.elems st with
  | error x => rw [h1] at ha; cases ha
  | ok p =>
    obtain ⟨es1, sta⟩ := p
    rw [h1] at ha
    simp only [] at ha
    cases hfv : firstFv es1 with
    | none => rw [hfv] at ha; cases ha
    | some v =>
      rw [hfv] at ha
      simp only [] at ha
      cases hs : setPolarity (polOfAttrs v.info.attrs) sta with
      | error x => rw [hs] at ha; cases ha
      | ok stb =>
        rw [hs] at ha
        simp only [] at ha
        split at ha
        · cases ha
        · simp only [Except.ok.injEq, Prod.mk.injEq] at ha
          rw [← ha.2, (tw_setPolarity_ok _ _ _ hs).2.1]
          exact tw_asmBiosElems_ffs3 h b.elems st es1 sta h1 hf

/-! ### regions -/

/-- the state every BIOS region starts from in the second pass -/
abbrev topSt (p : UInt8) : St := { pol := p, ffs3 := false }

/-- after the first pass every BIOS region is a fixed point of `asmBios` from the final polarity -/
theorem asmRegions_fix (h : Hooks) : ∀ (rs : List Region) (st : St) (rs1 : List Region) (st1 : St),
    okRegions rs = true → st.ffs3 = false → asmRegions h rs st = .ok (rs1, st1) → fxRegions rs1 = true →
    st1.ffs3 = false ∧ (st.pol ≠ 0xF0 → st1.pol = st.pol) ∧
      ∀ b1, Region.bios b1 ∈ rs1 → asmBios h b1 (topSt st1.pol) = .ok (b1, topSt st1.pol)
  | [], st, rs1, st1, _, hf, ha, _ => by
    simp only [asmRegions, Except.ok.injEq, Prod.mk.injEq] at ha
    obtain ⟨rfl, rfl⟩ := ha
    exact ⟨hf, fun _ => rfl, fun b1 hb => by cases hb⟩
  | .bios b :: t, st, rs1, st1, hok, hf, ha, hfx => by
    simp only [okRegions, Bool.and_eq_true] at hok
    simp only [asmRegions] at ha
    cases h1 : asmBios h b st with
    | error x => rw [h1] at ha; cases ha
    | ok p =>
      obtain ⟨b1, sta⟩ := p
      rw [h1] at ha
      simp only [] at ha
      cases h2 : asmRegions h t sta with
      | error x => rw [h2] at ha; cases ha
      | ok q =>
        obtain ⟨t1, stb⟩ := q
        rw [h2] at ha
        simp only [Except.ok.injEq, Prod.mk.injEq] at ha
        obtain ⟨rfl, rfl⟩ := ha
        simp only [fxRegions, Bool.and_eq_true] at hfx
        obtain ⟨a1, a2, a3⟩ := asmBios_idem h b st b1 sta hok.1 h1 hfx.1
        have af := tw_asmBios_ffs3 h b st b1 sta h1 hf
        obtain ⟨c1, c2, c3⟩ := asmRegions_fix h t sta t1 stb hok.2 af h2 hfx.2
        have hpol : stb.pol = sta.pol := c2 a1
        refine ⟨c1, fun hp => by rw [hpol, a2 hp], ?_⟩
        intro x hx
        simp only [List.mem_cons, Region.bios.injEq] at hx
        rcases hx with rfl | hx
        · have e : sta = topSt stb.pol := St.ext' _ _ hpol.symm af
          have := a3 (topSt stb.pol) (by simp [hf]) (by simp [hpol])
          rw [this, e]
        · exact c3 x hx
  | .me buf fr :: t, st, rs1, st1, hok, hf, ha, hfx => by
    simp only [okRegions] at hok
    simp only [asmRegions] at ha
    cases h2 : asmRegions h t st with
    | error x => rw [h2] at ha; cases ha
    | ok q =>
      obtain ⟨t1, stb⟩ := q
      rw [h2] at ha
      simp only [Except.ok.injEq, Prod.mk.injEq] at ha
      obtain ⟨rfl, rfl⟩ := ha
      simp only [fxRegions] at hfx
      obtain ⟨c1, c2, c3⟩ := asmRegions_fix h t st t1 stb hok hf h2 hfx
      refine ⟨c1, c2, ?_⟩
      intro x hx
      simp only [List.mem_cons] at hx
      rcases hx with hx | hx
      · cases hx
      · exact c3 x hx
  | .raw buf fr ty :: t, st, rs1, st1, hok, hf, ha, hfx => by
    simp only [okRegions] at hok
    simp only [asmRegions] at ha
    cases h2 : asmRegions h t st with
    | error x => rw [h2] at ha; cases ha
    | ok q =>
      obtain ⟨t1, stb⟩ := q
      rw [h2] at ha
      simp only [Except.ok.injEq, Prod.mk.injEq] at ha
      obtain ⟨rfl, rfl⟩ := ha
      simp only [fxRegions] at hfx
      obtain ⟨c1, c2, c3⟩ := asmRegions_fix h t st t1 stb hok hf h2 hfx
      refine ⟨c1, c2, ?_⟩
      intro x hx
      simp only [List.mem_cons] at hx
      rcases hx with hx | hx
      · cases hx
      · exact c3 x hx

/-- regions whose BIOS members are fixed points come out of `asmRegions` as they went in -/
theorem asmRegions_of_fixed (h : Hooks) (S : St) : ∀ (l : List Region),
    (∀ b, Region.bios b ∈ l → asmBios h b S = .ok (b, S)) → asmRegions h l S = .ok (l, S)
  | [], _ => rfl
  | .bios b :: t, hfix => by
    simp only [asmRegions]
    rw [hfix b (by simp)]
    simp only []
    rw [asmRegions_of_fixed h S t (fun x hx => hfix x (by simp [hx]))]
  | .me buf fr :: t, hfix => by
    simp only [asmRegions]
    rw [asmRegions_of_fixed h S t (fun x hx => hfix x (by simp [hx]))]
  | .raw buf fr ty :: t, hfix => by
    simp only [asmRegions]
    rw [asmRegions_of_fixed h S t (fun x hx => hfix x (by simp [hx]))]

/-- `asmBios` does not look at the region's table entry -/
theorem asmBios_setFr (h : Hooks) (b : BiosRegion) (S : St) (x : Option FlashRegion)
    (hb : asmBios h b S = .ok (b, S)) : asmBios h { b with fr := x } S = .ok ({ b with fr := x }, S) := by
  unfold asmBios at hb ⊢
  simp only [] at hb ⊢
  cases h1 : asmBiosElems h b.elems S with
  | error e => rw [h1] at hb; cases hb
  | ok p =>
    obtain ⟨es1, sta⟩ := p
    rw [h1] at hb
    simp only [] at hb ⊢
    cases hfv : firstFv es1 with
    | none => rw [hfv] at hb; cases hb
    | some v =>
      rw [hfv] at hb
      simp only [] at hb ⊢
      cases hs : setPolarity (polOfAttrs v.info.attrs) sta with
      | error e => rw [hs] at hb; cases hb
      | ok stb =>
        rw [hs] at hb
        simp only [] at hb ⊢
        by_cases hl : ((es1.map BiosElem.buf).flatten).length > b.length
        · rw [if_pos hl] at hb; cases hb
        rw [if_neg hl] at hb ⊢
        simp only [Except.ok.injEq, Prod.mk.injEq] at hb ⊢
        obtain ⟨hb1, hb2⟩ := hb
        refine ⟨?_, hb2⟩
        have e1 := congrArg BiosRegion.elems hb1
        have e2 := congrArg BiosRegion.buf hb1
        simp only [] at e1 e2
        subst e1
        rw [e2]

theorem repoint_bios_cases (tbl : List FlashRegion) (nr : Nat) (r : Region) (b' : BiosRegion)
    (h : repoint tbl nr r = .bios b') : ∃ b, r = .bios b ∧ (b' = b ∨ ∃ fr, b' = { b with fr := some fr }) := by
  cases r with
  | bios b =>
    refine ⟨b, rfl, ?_⟩
    unfold repoint at h
    simp only [] at h
    repeat' split at h
    all_goals first
      | (simp only [Region.bios.injEq] at h; exact Or.inl h.symm)
      | (simp only [Region.setFr, Region.bios.injEq] at h; exact Or.inr ⟨_, h.symm⟩)
  | me buf fr =>
    unfold repoint at h
    simp only [] at h
    repeat' split at h
    all_goals first | cases h | (simp only [Region.setFr] at h; cases h)
  | raw buf fr ty =>
    unfold repoint at h
    simp only [] at h
    repeat' split at h
    all_goals first | cases h | (simp only [Region.setFr] at h; cases h)

theorem setFr_rtype (fr : FlashRegion) (r : Region) : (r.setFr fr).rtype = r.rtype := by
  cases r <;> rfl

theorem setFr_setFr (fr fr' : FlashRegion) (r : Region) : (r.setFr fr).setFr fr' = r.setFr fr' := by
  cases r <;> rfl

theorem repoint_unfold (tbl : List FlashRegion) (nr : Nat) (r : Region) :
    repoint tbl nr r =
      if r.rtype = -1 then r
      else if nr ≠ 0 ∧ r.rtype > nr then r
      else if r.rtype ≥ tbl.length then r
      else match tbl[r.rtype.toNat]? with
        | some fr => r.setFr fr
        | none => r := rfl

/-- re-pointing a re-pointed region changes nothing -/
theorem repoint_idem (tbl : List FlashRegion) (nr : Nat) (r : Region) :
    repoint tbl nr (repoint tbl nr r) = repoint tbl nr r := by
  have key : repoint tbl nr r = r ∨ ∃ fr, repoint tbl nr r = r.setFr fr ∧ repoint tbl nr (r.setFr fr) = r.setFr fr := by
    have hu := repoint_unfold tbl nr r
    by_cases c1 : r.rtype = -1
    · rw [if_pos c1] at hu; exact Or.inl hu
    rw [if_neg c1] at hu
    by_cases c2 : nr ≠ 0 ∧ r.rtype > nr
    · rw [if_pos c2] at hu; exact Or.inl hu
    rw [if_neg c2] at hu
    by_cases c3 : r.rtype ≥ tbl.length
    · rw [if_pos c3] at hu; exact Or.inl hu
    rw [if_neg c3] at hu
    cases hg : tbl[r.rtype.toNat]? with
    | none => rw [hg] at hu; exact Or.inl hu
    | some fr =>
      rw [hg] at hu
      refine Or.inr ⟨fr, hu, ?_⟩
      rw [repoint_unfold, setFr_rtype, if_neg c1, if_neg c2, if_neg c3, hg]
      exact setFr_setFr fr fr r
  rcases key with hk | ⟨fr, h1, h2⟩
  · rw [hk]; exact hk
  · rw [h1]; exact h2

theorem tw_mem_insert (r x : Region) : ∀ xs : List Region, x ∈ insertRegion r xs → x = r ∨ x ∈ xs
  | [], hx => by simp only [insertRegion, List.mem_singleton] at hx; exact Or.inl hx
  | y :: ys, hx => by
    simp only [insertRegion] at hx
    split at hx
    · simp only [List.mem_cons] at hx ⊢
      exact hx
    · simp only [List.mem_cons] at hx ⊢
      rcases hx with hx | hx
      · exact Or.inr (Or.inl hx)
      · rcases tw_mem_insert r x ys hx with hh | hh
        · exact Or.inl hh
        · exact Or.inr (Or.inr hh)

theorem tw_mem_sort (x : Region) : ∀ rs : List Region, x ∈ sortRegions rs → x ∈ rs
  | [], hx => hx
  | r :: rs, hx => by
    have e : sortRegions (r :: rs) = insertRegion r (sortRegions rs) := rfl
    rw [e] at hx
    rcases tw_mem_insert r x _ hx with hh | hh
    · simp [hh]
    · exact List.mem_cons_of_mem _ (tw_mem_sort x rs hh)

/-! ### sorting a tiled list again -/

def rkey (r : Region) : Nat := (r.fr.map (·.base)).getD 0

/-- consecutive keys increase strictly -/
def Incr : List Region → Prop
  | [] => True
  | [_] => True
  | x :: y :: t => rkey x < rkey y ∧ Incr (y :: t)

theorem sort_incr : ∀ (l : List Region), Incr l → sortRegions l = l
  | [], _ => rfl
  | [x], _ => rfl
  | x :: y :: t, hi => by
    have e : sortRegions (x :: y :: t) = insertRegion x (sortRegions (y :: t)) := rfl
    rw [e, sort_incr (y :: t) hi.2]
    simp only [insertRegion]
    have := hi.1
    unfold rkey at this
    rw [if_pos this]

/-- the tiling check on regions with non-empty spans: strictly increasing bases -/
theorem tile_incr : ∀ (l : List Region) (off : Nat) (acc : Bytes) (res : Bytes × Nat),
    tileRegions l off acc = .ok res → (∀ r ∈ l, frOk r = true) →
    Incr l ∧ ∀ r, l.head? = some r → ∃ fr, r.fr = some fr ∧ fr.baseOffset = off
  | [], _, _, _, _, _ => ⟨trivial, fun r hr => by cases hr⟩
  | x :: t, off, acc, res, ht, hok => by
    simp only [tileRegions] at ht
    cases hx : x.fr with
    | none => rw [hx] at ht; cases ht
    | some fx =>
      rw [hx] at ht
      simp only [] at ht
      by_cases c1 : fx.baseOffset < off
      · rw [if_pos c1] at ht; cases ht
      rw [if_neg c1] at ht
      by_cases c2 : fx.baseOffset > off
      · rw [if_pos c2] at ht; cases ht
      rw [if_neg c2] at ht
      obtain ⟨ih1, ih2⟩ := tile_incr t fx.endOffset _ res ht (fun r hr => hok r (by simp [hr]))
      refine ⟨?_, fun r hr => by simp only [List.head?_cons, Option.some.injEq] at hr; subst hr; exact ⟨fx, hx, by omega⟩⟩
      cases t with
      | nil => trivial
      | cons y u =>
        refine ⟨?_, ih1⟩
        obtain ⟨fy, hy, hbo⟩ := ih2 y rfl
        have hxok := hok x (by simp)
        unfold frOk at hxok
        rw [hx] at hxok
        simp only [decide_eq_true_eq] at hxok
        unfold rkey
        rw [hx, hy]
        simp only [Option.map_some, Option.getD_some]
        unfold FlashRegion.baseOffset FlashRegion.endOffset at hbo
        omega

/-! ### the FlashImage case -/

theorem fxRegions_iff : ∀ (l : List Region), fxRegions l = true ↔ ∀ b, Region.bios b ∈ l → fxBiosElems b.elems = true
  | [] => by simp [fxRegions]
  | .bios b :: t => by
    simp only [fxRegions, Bool.and_eq_true, fxRegions_iff t, List.mem_cons, Region.bios.injEq]
    constructor
    · rintro ⟨h1, h2⟩ x (rfl | hx)
      · exact h1
      · exact h2 x hx
    · intro hh
      exact ⟨hh b (Or.inl rfl), fun x hx => hh x (Or.inr hx)⟩
  | .me buf fr :: t => by
    simp only [fxRegions, fxRegions_iff t, List.mem_cons]
    constructor
    · intro hh x hx
      rcases hx with hx | hx
      · cases hx
      · exact hh x hx
    · intro hh x hx
      exact hh x (Or.inr hx)
  | .raw buf fr ty :: t => by
    simp only [fxRegions, fxRegions_iff t, List.mem_cons]
    constructor
    · intro hh x hx
      rcases hx with hx | hx
      · cases hx
      · exact hh x hx
    · intro hh x hx
      exact hh x (Or.inr hx)

theorem tw_mem_insert' (r x : Region) : ∀ xs : List Region, (x = r ∨ x ∈ xs) → x ∈ insertRegion r xs
  | [], hx => by
    rcases hx with hx | hx
    · simp [insertRegion, hx]
    · cases hx
  | y :: ys, hx => by
    simp only [insertRegion]
    split
    · simp only [List.mem_cons] at hx ⊢
      exact hx
    · simp only [List.mem_cons] at hx ⊢
      rcases hx with hx | hx | hx
      · exact Or.inr (tw_mem_insert' r x ys (Or.inl hx))
      · exact Or.inl hx
      · exact Or.inr (tw_mem_insert' r x ys (Or.inr hx))

theorem tw_mem_sort' (x : Region) : ∀ rs : List Region, x ∈ rs → x ∈ sortRegions rs
  | [], hx => hx
  | r :: rs, hx => by
    have e : sortRegions (r :: rs) = insertRegion r (sortRegions rs) := rfl
    rw [e]
    simp only [List.mem_cons] at hx
    rcases hx with hx | hx
    · exact tw_mem_insert' r x _ (Or.inl hx)
    · exact tw_mem_insert' r x _ (Or.inr (tw_mem_sort' x rs hx))

/-- a BIOS region keeps its elements when it is re-pointed -/
theorem repoint_bios_fwd (tbl : List FlashRegion) (nr : Nat) (b : BiosRegion) :
    ∃ b', repoint tbl nr (.bios b) = .bios b' ∧ b'.elems = b.elems := by
  rw [repoint_unfold]
  repeat' split
  all_goals first
    | exact ⟨b, rfl, rfl⟩
    | exact ⟨_, rfl, rfl⟩

theorem asmFlash_idem (h : Hooks) (f : Flash) (st : St) (f1 : Flash) (st1 : St) (hok : okRegions f.regions = true)
    (hf : st.ffs3 = false) (ha : asmFlash h f st = .ok (f1, st1)) (hfx : fxFlash f1 = true) :
    asmFlash h f1 (topSt st1.pol) = .ok (f1, topSt st1.pol) ∧ st1.ffs3 = false := by
  unfold asmFlash at ha
  cases hd : asmDescriptor f.ifd with
  | error e => rw [hd] at ha; cases ha
  | ok ifd =>
    rw [hd] at ha
    simp only [] at ha
    cases hr : asmRegions h f.regions st with
    | error e => rw [hr] at ha; cases ha
    | ok p =>
      obtain ⟨rs1, sta⟩ := p
      rw [hr] at ha
      simp only [] at ha
      cases htb : ifd.region.regions with
      | nil => rw [htb] at ha; cases ha
      | cons bios rest =>
        rw [htb] at ha
        simp only [] at ha
        by_cases hv : ¬ bios.valid = true
        · rw [if_pos hv] at ha; cases ha
        rw [if_neg hv] at ha
        cases htl : tileRegions (sortRegions (rs1.map (repoint (bios :: rest) ifd.map.numberOfRegions))) 4096 ifd.buf with
        | error e => rw [htl] at ha; cases ha
        | ok q =>
          obtain ⟨buf, offset⟩ := q
          rw [htl] at ha
          simp only [] at ha
          by_cases hsz : offset ≠ f.flashSize
          · rw [if_pos hsz] at ha; cases ha
          rw [if_neg hsz] at ha
          simp only [Except.ok.injEq, Prod.mk.injEq] at ha
          obtain ⟨rfl, rfl⟩ := ha
          unfold fxFlash at hfx
          simp only [Bool.and_eq_true, List.all_eq_true] at hfx
          obtain ⟨hfx1, hfx2⟩ := hfx
          -- the side condition on the regions as `asmRegions` returned them
          have hfxr : fxRegions rs1 = true := by
            rw [fxRegions_iff] at hfx1 ⊢
            intro b hb
            obtain ⟨b', e1, e2⟩ := repoint_bios_fwd (bios :: rest) ifd.map.numberOfRegions b
            have hm : Region.bios b' ∈ sortRegions (rs1.map (repoint (bios :: rest) ifd.map.numberOfRegions)) := by
              apply tw_mem_sort'
              rw [List.mem_map]
              exact ⟨_, hb, e1⟩
            rw [← e2]
            exact hfx1 b' hm
          obtain ⟨c1, _, c3⟩ := asmRegions_fix h f.regions st rs1 sta hok hf hr hfxr
          obtain ⟨d1, d2, d3⟩ := asmDescriptor_idem f.ifd ifd hd
          refine ⟨?_, c1⟩
          -- second pass
          have hreg : asmRegions h (sortRegions (rs1.map (repoint (bios :: rest) ifd.map.numberOfRegions))) (topSt sta.pol) =
              .ok (sortRegions (rs1.map (repoint (bios :: rest) ifd.map.numberOfRegions)), topSt sta.pol) := by
            apply asmRegions_of_fixed
            intro b' hb'
            have hm := tw_mem_sort _ _ hb'
            rw [List.mem_map] at hm
            obtain ⟨r, hr1, hr2⟩ := hm
            obtain ⟨b, rfl, hcase⟩ := repoint_bios_cases _ _ r b' hr2
            have hfixb := c3 b hr1
            rcases hcase with rfl | ⟨fr, rfl⟩
            · exact hfixb
            · exact asmBios_setFr h b _ (some fr) hfixb
          have hmap : (sortRegions (rs1.map (repoint (bios :: rest) ifd.map.numberOfRegions))).map
              (repoint (bios :: rest) ifd.map.numberOfRegions) =
              sortRegions (rs1.map (repoint (bios :: rest) ifd.map.numberOfRegions)) := by
            have : ∀ x ∈ sortRegions (rs1.map (repoint (bios :: rest) ifd.map.numberOfRegions)),
                repoint (bios :: rest) ifd.map.numberOfRegions x = id x := by
              intro x hx
              have hm := tw_mem_sort _ _ hx
              rw [List.mem_map] at hm
              obtain ⟨r, _, rfl⟩ := hm
              exact repoint_idem _ _ r
            rw [List.map_congr_left this, List.map_id]
          have hinc := (tile_incr _ _ _ _ htl (fun r hr => hfx2 r hr)).1
          unfold asmFlash
          simp only [d1, hreg, htb, hmap, sort_incr _ hinc, htl]
          rw [if_neg hv, if_neg hsz]

/-! ### the whole tree -/

/-- **save is a fixed point in memory**, any tree: the second `Assemble` pass (`Save` after
    `Assemble.Run`) leaves the root buffer as the first pass wrote it; errors of the first pass included -/
theorem asmTwice_eq_asmWith (h : Hooks) (t : Tree) (st : St) (hok : okTree t = true)
    (hs : savedOkAll h t st = true) : asmTwice h t st = asmWith h t st := by
  cases t with
  | bios b =>
    apply asmTwice_eq_asmWith_bios h b st hok
    unfold savedOk
    unfold savedOkAll at hs
    cases h1 : asmTreeWith h (.bios b) { st with ffs3 := false } with
    | error e => rfl
    | ok p =>
      obtain ⟨t1, st1⟩ := p
      rw [h1] at hs
      simp only [] at hs ⊢
      simp only [asmTreeWith] at h1
      cases hb : asmBios h b { st with ffs3 := false } with
      | error e => rw [hb] at h1; cases h1
      | ok q =>
        rw [hb] at h1
        simp only [Except.ok.injEq, Prod.mk.injEq] at h1
        obtain ⟨rfl, _⟩ := h1
        exact hs
  | flash f =>
    unfold asmTwice asmWith
    unfold savedOkAll at hs
    cases h1 : asmTreeWith h (.flash f) { st with ffs3 := false } with
    | error e => rfl
    | ok p =>
      obtain ⟨t1, st1⟩ := p
      rw [h1] at hs
      simp only [] at hs ⊢
      simp only [asmTreeWith] at h1
      cases hb : asmFlash h f { st with ffs3 := false } with
      | error e => rw [hb] at h1; cases h1
      | ok q =>
        obtain ⟨f1, stq⟩ := q
        rw [hb] at h1
        simp only [Except.ok.injEq, Prod.mk.injEq] at h1
        obtain ⟨rfl, rfl⟩ := h1
        simp only [fxTreeAll] at hs
        simp only [okTree] at hok
        obtain ⟨hid, hff⟩ := asmFlash_idem h f _ f1 stq hok rfl hb hs
        have e : ({ stq with ffs3 := false } : St) = topSt stq.pol := rfl
        simp only [asmTreeWith]
        rw [e, hid]

end Fiano.Uefi
