/-
  C09b, exception F-C09-freespace, first half (kernel evaluation of a 64 KiB image, about a minute):
  on `fsImg` every hypothesis of `alter_detected_image` holds for "byte 22 of file 0 of volume 0 becomes FF"
  (image offset 94) except `¬ FreeMarker`.
-/
import FianoModel.Uefi.ValidateSample

namespace Fiano.Uefi.C09
open Fiano Fiano.Uefi Fiano.Uefi.Spec

theorem fs_hyps : hypsBut (ser fsImg) [0, 0] 22 0xFF true false = true := by decide +kernel

end Fiano.Uefi.C09
