/-
  C05 (follow-up wp-c05b) — safety of the Go-semantics model of `visitors.Assemble` (TotalAsm.lean), part 1:
  the node-level steps.  For every input that satisfies the well-formedness the parser establishes
  (`SecWf` / `FileWf` / `FvWf` …, TotalFvSafe.lean) the step returns a value, an ordinary error, or the
  address-space fault `hugeSite` — never a slice / index panic, never a nil dereference, never
  `log.Fatalf` (`PostA`, TotalAsmBase.lean).

  What each fault site rests on:
    GenSecHeader / Section case   `TypeSpecific` is set on every GUID-defined section          (SecWf)
    File.ChecksumHeader           header size clipped to the temporary 32-byte header           (by construction)
    fileAlignments[alignVal]      a 4-bit index into a table of 16                             (getAlignment_post)
    log.Fatalf (empty file)       no file of a volume is empty, assembled files never are      (FilesWf)
    fBuf[:DataOffset]             DataOffset ≤ len(buf)                                        (FvWf)
    f.Blocks[0]                   guarded by the repaired emptiness check
    fBuf[32:], [16:32], [56:], [50:], PutUint64/32/16   the volume is at least 64 bytes long  (FvWf: block map read)
    fBuf[:HeaderLen]              guarded by the repaired length check
-/
import FianoModel.Uefi.TotalAsm
import FianoModel.Uefi.TotalNvarWalkSafe
import FianoModel.Uefi.TotalFlashSafe

namespace Fiano.Uefi.Total
open Fiano GoM Fiano.Uefi

/-- encoders are total (any result, any length) -/
def EncOk (h : AsmHooksG) : Prop :=
  ∀ g enc b m, h.encoder g = some enc → PostA (enc b) m (fun _ _ => True)

/-- the NVAR store walker is safe (`nvAsmHookG_post`) -/
def NvAsmOk (h : AsmHooksG) : Prop :=
  ∀ nv pol m, PostA (h.nvarAsm nv pol) m (fun _ _ => True)

/-! ### sections -/

theorem genSecHeaderG_post (i : SecInfo) (buf : Bytes) (m : Meter) (hts : i.type = 2 → i.ts.isSome = true) :
    PostA (genSecHeaderG i buf) m (fun r _ => r.1.type = i.type ∧ (i.type = 2 → r.1.ts.isSome = true)) := by
  unfold genSecHeaderG
  try simp only []
  refine postA_bind' (R := fun r _ => (i.type = 2 → r.1.isSome = true)) ?_ ?_
  · split
    · rename_i h2
      split
      · rename_i hn
        have := hts h2
        simp [hn] at this
      · refine postA_bind (postA_appendG (fun _ => ?_))
        exact postA_pure (fun _ => rfl)
    · rename_i h2
      exact postA_pure (fun h => absurd h h2)
  · rintro ⟨ts, b⟩ m1 hr
    refine postA_bind (postA_appendG (fun _ => ?_))
    exact postA_pure ⟨rfl, hr⟩

theorem regenLeafG_post (i : SecInfo) (m : Meter) : PostA (regenLeafG i) m (fun _ _ => True) := by
  unfold regenLeafG
  split
  · exact postA_pure trivial
  · split
    · refine postA_bind (postA_makeG (fun _ => ?_))
      refine postA_bind (postA_appendG (fun _ => ?_))
      exact postA_pure trivial
    · split
      · split
        · refine postA_bind (postA_appendG (fun _ => ?_))
          exact postA_pure trivial
        · exact postA_err
      · exact postA_pure trivial

theorem joinPad4G_post : ∀ (bs : List Bytes) (acc : Bytes) (dLen : Nat) (m : Meter),
    PostA (joinPad4G bs acc dLen) m (fun _ _ => True)
  | [], acc, dLen, m => by rw [joinPad4G]; exact postA_pure trivial
  | b :: bs, acc, dLen, m => by
    rw [joinPad4G]
    try simp only []
    refine postA_bind (postA_appendG (fun _ => ?_))
    refine postA_bind (postA_appendG (fun _ => ?_))
    exact joinPad4G_post bs _ _ _

/-! ### files -/

theorem encodeFileHeader_length_pos (i : FileInfo) (a b : UInt8) (large : Bool) :
    0 < (encodeFileHeader i a b large).length := by
  simp [encodeFileHeader]
  omega

theorem encodeFileHeader_append_ne (i : FileInfo) (a b : UInt8) (large : Bool) (fd : Bytes) :
    (encodeFileHeader i a b large ++ fd).length ≠ 0 := by
  have := encodeFileHeader_length_pos i a b large
  simp only [List.length_append]
  omega

theorem clip_le (hs n : Nat) : (if hs > n then n else hs) ≤ n := by split <;> omega

theorem checksumAndAssembleG_post (i : FileInfo) (fileData : Bytes) (m : Meter) :
    PostA (checksumAndAssembleG i fileData) m (fun r _ => r.2.length ≠ 0) := by
  unfold checksumAndAssembleG
  try simp only []
  refine postA_bind (postA_sliceToG (clip_le _ _) ?_)
  refine postA_bind (postA_appendG (fun _ => ?_))
  exact postA_pure (encodeFileHeader_append_ne _ _ _ _ _)

/-- the alignment table `fileAlignments` of file.go has its 16 entries, all powers of two up to 16 MiB (the
    table itself is tied to the source by `Tie.tie_fileAlignments` of the shared UEFI core) -/
theorem fileAlignments_shape : fileAlignments.length = 16 ∧ ∀ a ∈ fileAlignments, ∃ k, k < 25 ∧ a = 2 ^ k := by
  decide

theorem alignIdx_lt (attrs : Nat) : (((attrs &&& 0x38) >>> 3) ||| ((attrs &&& 0x02) <<< 2)) < 16 := by
  have h1 : (attrs &&& 0x38) >>> 3 < 2 ^ 3 := by
    have : attrs &&& 0x38 ≤ 0x38 := Nat.and_le_right
    rw [Nat.shiftRight_eq_div_pow]
    omega
  have h2 : (attrs &&& 0x02) <<< 2 < 2 ^ 4 := by
    have : attrs &&& 0x02 ≤ 0x02 := Nat.and_le_right
    rw [Nat.shiftLeft_eq]
    omega
  have h1' : (attrs &&& 0x38) >>> 3 < 2 ^ 4 := by omega
  exact Nat.or_lt_two_pow h1' h2

theorem getAlignmentG_post (attrs : Nat) (m : Meter) :
    Post (getAlignmentG attrs) m (fun a m' => m' = m ∧ a ∈ fileAlignments) := by
  unfold getAlignmentG
  have hlt : (((attrs &&& 0x38) >>> 3) ||| ((attrs &&& 0x02) <<< 2)) < fileAlignments.length := by
    have := alignIdx_lt attrs
    have h16 : fileAlignments.length = 16 := by decide
    omega
  rw [List.getElem?_eq_getElem hlt]
  exact post_pure ⟨rfl, List.getElem_mem hlt⟩

theorem createPadFileG_post (pol : UInt8) (size : Nat) (m : Meter) :
    PostA (createPadFileG pol size) m (fun r _ => r.length ≠ 0) := by
  unfold createPadFileG
  split
  · exact postA_err
  · split
    · exact postA_err
    · try simp only []
      -- (the literal 2^64 must not reach the unifier: it would unfold `%` on it)
      generalize (size + u64 - 24) % u64 = n1
      generalize (size + u64 - 32) % u64 = n2
      refine postA_bind (postA_makeG (fun _ => ?_))
      refine postA_bind' (R := fun _ _ => True) ?_ ?_
      · split
        · refine postA_bind (postA_makeG (fun _ => ?_))
          exact postA_pure trivial
        · exact postA_pure trivial
      · intro dataLen m1 _
        refine postA_bind' (checksumAndAssembleG_post _ _ _) ?_
        rintro ⟨i', b⟩ m2 hb
        exact postA_pure hb

/-! ### volumes -/

theorem insertFileG_post (pol : UInt8) (buf : Bytes) (alignedOffset : Nat) (fBuf : Bytes) (m : Meter) :
    PostA (insertFileG pol buf alignedOffset fBuf) m
      (fun r _ => buf.length ≤ r.length ∧ r.length = alignedOffset + fBuf.length ∧ r.length < 2 ^ 63) := by
  unfold insertFileG
  split
  · exact postA_err
  · rename_i hle
    refine postA_bind (postA_appendG (fun _ => ?_))
    split
    · exact postA_err
    · refine postA_bind (postA_appendG (fun hfit => ?_))
      refine postA_pure ?_
      simp only [List.length_append, List.length_replicate]
      omega

theorem placeFileG_post (pol : UInt8) (buf : Bytes) (fileOffset attrs : Nat) (fileBuf : Bytes) (m : Meter)
    (hne : fileBuf.length ≠ 0) :
    PostA (placeFileG pol buf fileOffset attrs fileBuf) m (fun r _ => buf.length ≤ r.1.length ∧ r.1.length < 2 ^ 63) := by
  unfold placeFileG
  rw [if_neg hne]
  try simp only []
  refine postA_bind' (postA_of_post (getAlignmentG_post attrs m)) ?_
  intro alignBase m1 _
  refine postA_ite (fun _ => ?_) (fun _ => ?_)
  · try simp only []
    refine postA_bind' (R := fun b _ => buf.length ≤ b.length) ?_ ?_
    · refine postA_ite (fun _ => ?_) (fun _ => ?_)
      · refine postA_bind' (createPadFileG_post pol _ _) ?_
        intro pad m2 _
        exact postA_mono (insertFileG_post pol buf _ pad _) (fun _ _ h => h.1)
      · exact postA_pure (Nat.le_refl _)
    · intro b1 m2 hb1
      refine postA_bind' (insertFileG_post pol b1 _ fileBuf _) ?_
      intro b2 m3 hb2
      exact postA_pure ⟨by simp only []; omega, hb2.2.2⟩
  · refine postA_bind' (insertFileG_post pol buf _ fileBuf _) ?_
    intro b2 m3 hb2
    exact postA_pure ⟨hb2.1, hb2.2.2⟩

theorem placeFilesG_post (pol : UInt8) : ∀ (fs : List (Nat × Bytes)) (buf : Bytes) (off : Nat) (m : Meter),
    (∀ x ∈ fs, x.2.length ≠ 0) → fs ≠ [] →
    PostA (placeFilesG pol fs buf off) m (fun r _ => buf.length ≤ r.length ∧ r.length < 2 ^ 63)
  | [], _, _, _, _, hne => absurd rfl hne
  | (attrs, fb) :: rest, buf, off, m, hall, _ => by
    rw [placeFilesG]
    refine postA_bind' (placeFileG_post pol buf off attrs fb m (hall (attrs, fb) (by simp))) ?_
    rintro ⟨buf', off'⟩ m1 ⟨hle, hlt⟩
    simp only [] at hle hlt ⊢
    cases rest with
    | nil =>
      rw [placeFilesG]
      exact postA_pure ⟨hle, hlt⟩
    | cons x xs =>
      refine postA_mono (placeFilesG_post pol (x :: xs) buf' off' m1 (fun y hy => hall y (by simp [hy])) (by simp)) ?_
      intro r _ hr
      exact ⟨by omega, hr.2⟩

/-- what the FirmwareVolume case returns, relative to the volume it was given -/
def FinQ (i : FvInfo) (fbuf : Bytes) (r : FvInfo × Bytes × St) : Prop :=
  fbuf.length ≤ r.2.1.length ∧ r.2.1.length < 2 ^ 63 ∧ r.1.dataOffset = i.dataOffset ∧ r.1.resizable = i.resizable ∧
  (r.2.1.length ≤ r.1.length → 60 ≤ r.1.length) ∧
  (i.resizable = false → r.2.1.length = i.length ∧ r.1.length = i.length)

theorem guidFFS3_take : (guidFFS3.take 16).length = 16 := by decide

theorem finishFvG_post (i : FvInfo) (fbuf : Bytes) (st : St) (m : Meter)
    (hblk : i.blocks ≠ []) (h60 : 60 ≤ i.length) (hfit : fbuf.length < 2 ^ 63) :
    PostA (finishFvG i fbuf st) m (fun r _ => FinQ i fbuf r) := by
  unfold finishFvG
  try simp only []
  refine postA_ite (fun _ => postA_err) (fun hsp => ?_)
  refine postA_bind' (R := fun r _ => r.2 ≠ [] ∧ (¬ i.length < fbuf.length → r.1 = i.length) ∧
      (i.length < fbuf.length → i.resizable = true)) ?_ ?_
  · refine postA_ite (fun hlt => ?_) (fun hge => ?_)
    · split
      · rename_i hnil
        exact absurd hnil hblk
      · refine postA_ite (fun _ => postA_err) (fun _ => ?_)
        refine postA_pure ⟨by simp, fun h => absurd hlt h, fun _ => ?_⟩
        cases hr : i.resizable with
        | true => rfl
        | false => exact absurd ⟨hlt, by simp [hr]⟩ hsp
    · exact postA_pure ⟨hblk, fun _ => rfl, fun h => absurd h hge⟩
  · rintro ⟨length, blocks⟩ m1 ⟨hbne, hkeep, hrz⟩
    simp only [] at hbne hkeep hrz ⊢
    refine postA_bind' (R := fun fb _ => fbuf.length ≤ fb.length ∧ length ≤ fb.length ∧ fb.length < 2 ^ 63 ∧
        (¬ length > fbuf.length → fb = fbuf) ∧ (length > fbuf.length → fb.length = length)) ?_ ?_
    · refine postA_ite (fun hgt => ?_) (fun hle => ?_)
      · refine postA_bind (postA_makeG (fun _ => ?_))
        refine postA_bind (postA_appendG (fun hf => ?_))
        refine postA_pure ?_
        simp only [List.length_append, List.length_replicate]
        refine ⟨by omega, by omega, by omega, fun h => absurd hgt h, fun _ => by omega⟩
      · exact postA_pure ⟨Nat.le_refl _, by omega, hfit, fun _ => rfl, fun h => absurd h hle⟩
    · intro fb m2 ⟨hfb1, hfb2, hfb3, hfbeq, hfblen⟩
      -- the buffer is at least 60 bytes long
      have hL : 60 ≤ fb.length := by
        by_cases hlt : i.length < fbuf.length
        · omega
        · have := hkeep hlt; omega
      refine postA_bind (postA_sliceFromG (by omega) ?_)
      refine postA_bind (postA_putG (by simp; omega) ?_)
      have l1 : (splice fb 32 (leN 8 length)).length = fb.length := splice_length _ _ _ (by simp; omega)
      refine postA_bind' (R := fun b _ => b.length = fb.length) ?_ ?_
      · split
        · refine postA_bind (postA_sliceG (by omega) ?_)
          exact postA_pure (by rw [splice_length _ _ _ (by rw [guidFFS3_take]; omega), l1])
        · exact postA_pure l1
      · intro b1 m3 hb1
        split
        · exact absurd rfl hbne
        · rename_i b0 bs
          refine postA_bind (postA_sliceFromG (by omega) ?_)
          refine postA_bind (postA_putG (by simp; omega) ?_)
          have l2 : (splice b1 56 (leN 4 b0.count)).length = fb.length := by
            rw [splice_length _ _ _ (by simp; omega), hb1]
          refine postA_bind (postA_sliceFromG (by omega) ?_)
          refine postA_bind (postA_putG (by simp; omega) ?_)
          have l3 : (splice (splice b1 56 (leN 4 b0.count)) 50 [0, 0]).length = fb.length := by
            rw [splice_length _ _ _ (by simp; omega), l2]
          refine postA_ite (fun _ => postA_err) (fun hhl => ?_)
          refine postA_bind (postA_sliceToG (by omega) ?_)
          refine postA_ite (fun _ => postA_err) (fun _ => ?_)
          refine postA_bind (postA_sliceFromG (by omega) ?_)
          refine postA_bind (postA_putG (by simp; omega) ?_)
          refine postA_pure ?_
          have l4 : ∀ d : Bytes, d.length = 2 →
              (splice (splice (splice b1 56 (leN 4 b0.count)) 50 [0, 0]) 50 d).length = fb.length := by
            intro d hd
            rw [splice_length _ _ _ (by omega), l3]
          have l5 := l4 (leN 2 ((0 - sum16 (List.take i.headerLen
              (splice (splice b1 56 (leN 4 b0.count)) 50 [0, 0]))).toNat)) (by simp)
          simp only [FinQ]
          rw [l5]
          refine ⟨hfb1, hfb3, trivial, trivial, fun hle => ?_, fun hnr => ?_⟩
          · by_cases hlt : i.length < fbuf.length
            · omega
            · have := hkeep hlt; omega
          · have hnlt : ¬ i.length < fbuf.length := by
              intro hlt
              have := hrz hlt
              rw [hnr] at this
              cases this
            have hl := hkeep hnlt
            subst hl
            refine ⟨?_, rfl⟩
            by_cases hgt : i.length > fbuf.length
            · exact hfblen hgt
            · have := hfbeq hgt
              subst this
              omega

/-! ### what `Assemble` needs of a tree (weaker than `FvWf` …, and — unlike it — kept by `Assemble` itself and
    by the edit operations) -/

mutual
/-- `sg = true` ("strong"): also a volume *without* files has its data offset inside the buffer — what an
    insertion into it needs; `sg = false` is what every parsed tree satisfies -/
def SecA (sg : Bool) : Section → Prop
  | .mk i _ encap => (i.type = 2 → i.ts.isSome = true) ∧ NodesA sg encap
def NodesA (sg : Bool) : List Node → Prop
  | [] => True
  | .sec s :: ns => SecA sg s ∧ NodesA sg ns
  | .fv v :: ns => FvA sg v ∧ NodesA sg ns
def SecsA (sg : Bool) : List Section → Prop
  | [] => True
  | s :: ss => SecA sg s ∧ SecsA sg ss
def FileA (sg : Bool) : File → Prop
  | .mk _ buf secs => buf.length ≠ 0 ∧ SecsA sg secs
def FilesA (sg : Bool) : List File → Prop
  | [] => True
  | f :: fs => FileA sg f ∧ FilesA sg fs
def FvA (sg : Bool) : Fv → Prop
  | .mk i buf files =>
    (sg = true ∨ files ≠ [] → i.dataOffset ≤ buf.length ∧ (buf.length ≤ i.length → 60 ≤ i.length)) ∧ FilesA sg files
end

mutual
theorem secA_of_wf : ∀ (s : Section), SecWf s → SecA false s
  | .mk i buf encap, h => by
    simp only [SecWf] at h
    simp only [SecA]
    exact ⟨h.2.2, nodesA_of_wf encap h.2.1⟩
theorem nodesA_of_wf : ∀ (ns : List Node), NodesWf ns → NodesA false ns
  | [], _ => by simp [NodesA]
  | .sec s :: ns, h => by
    simp only [NodesWf] at h
    simp only [NodesA]
    exact ⟨secA_of_wf s h.1, nodesA_of_wf ns h.2⟩
  | .fv v :: ns, h => by
    simp only [NodesWf] at h
    simp only [NodesA]
    exact ⟨fvA_of_wf v h.1, nodesA_of_wf ns h.2⟩
theorem secsA_of_wf : ∀ (ss : List Section), SecsWf ss → SecsA false ss
  | [], _ => by simp [SecsA]
  | s :: ss, h => by
    simp only [SecsWf] at h
    simp only [SecsA]
    exact ⟨secA_of_wf s h.1, secsA_of_wf ss h.2⟩
theorem filesA_of_wf : ∀ (fs : List File), FilesWf fs → FilesA false fs
  | [], _ => by simp [FilesA]
  | .mk i buf secs :: fs, h => by
    simp only [FilesWf, FileWf, File.buf] at h
    simp only [FilesA, FileA]
    exact ⟨⟨h.1.2, secsA_of_wf secs h.1.1.2⟩, filesA_of_wf fs h.2⟩
theorem fvA_of_wf : ∀ (v : Fv), FvWf v → FvA false v
  | .mk i buf files, h => by
    simp only [FvWf] at h
    simp only [FvA]
    obtain ⟨hl, hdo, hfs, h64⟩ := h
    refine ⟨fun hne => ?_, filesA_of_wf files hfs⟩
    have hne' : files ≠ [] := by
      rcases hne with h | h
      · cases h
      · exact h
    refine ⟨?_, fun _ => ?_⟩
    · have := hdo hne'; omega
    · omega
end

theorem filesA_bufs (sg : Bool) : ∀ (files : List File), FilesA sg files →
    ∀ x ∈ files.map (fun f => (f.info.attrs, f.buf)), x.2.length ≠ 0
  | [], _, x, hx => by simp at hx
  | .mk i buf secs :: fs, h, x, hx => by
    simp only [FilesA, FileA] at h
    simp only [List.map_cons, List.mem_cons] at hx
    rcases hx with hx | hx
    · subst hx; exact h.1.1
    · exact filesA_bufs sg fs h.2 x hx

/-- what the FirmwareVolume case guarantees about the volume it returns -/
def RelQ (i : FvInfo) (r : FvInfo × Bytes × St) : Prop :=
  r.1.dataOffset ≤ r.2.1.length ∧ (r.2.1.length ≤ r.1.length → 60 ≤ r.1.length) ∧ r.1.resizable = i.resizable ∧
  (i.resizable = false → r.2.1.length = i.length ∧ r.1.length = i.length)

theorem relayoutFvG_post (sg : Bool) (i : FvInfo) (buf : Bytes) (files : List File) (st : St) (m : Meter)
    (hdo : i.dataOffset ≤ buf.length) (h60 : buf.length ≤ i.length → 60 ≤ i.length)
    (hfs : FilesA sg files) (hne : files ≠ []) :
    PostA (relayoutFvG i buf files st) m (fun r _ => RelQ i r) := by
  unfold relayoutFvG
  refine postA_ite (fun _ => postA_err) (fun hlen => ?_)
  refine postA_ite (fun _ => postA_err) (fun hblk => ?_)
  have hblk' : i.blocks ≠ [] := by
    intro h; rw [h] at hblk; simp at hblk
  refine postA_ite (fun _ => postA_err) (fun _ => ?_)
  refine postA_bind' (R := fun hdr _ => hdr.length = i.dataOffset) ?_ ?_
  · refine postA_ite (fun _ => ?_) (fun heq => ?_)
    · exact postA_sliceToG hdo (by simp; omega)
    · exact postA_pure (by have : i.dataOffset = buf.length := by simpa using heq
                           omega)
  · intro hdr m1 hhdr
    refine postA_bind' (placeFilesG_post st.pol _ hdr i.dataOffset m1 (filesA_bufs sg files hfs) (by simpa using hne)) ?_
    intro fbuf m2 ⟨hle, hlt⟩
    refine postA_mono (finishFvG_post i fbuf st m2 hblk' (h60 (by omega)) hlt) ?_
    rintro ⟨i', b', st'⟩ m3 ⟨h1, h2, h3, h4, h5, h6⟩
    simp only [] at h1 h2 h3 h4 h5 h6
    simp only [RelQ]
    exact ⟨by omega, h5, h4, h6⟩

end Fiano.Uefi.Total
