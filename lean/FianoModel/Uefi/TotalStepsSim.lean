/-
  C05 (follow-up wp-c05b) — the cost-counting bodies of TotalSteps.lean compute *the same values* as the models
  they were re-read from: erasing the counter (`Sim x y`: for every meter and counter, the result of `x` is
  the result of the model `y`).  So a cost function counts the steps of the model's own run — not of a
  look-alike — and the bounds of TotalStepsSafe.lean are about the models of TotalFv.lean.
-/
import FianoModel.Uefi.TotalSteps

namespace Fiano.Uefi.Total
open Fiano GoM Fiano.Uefi CostM

/-- erasing the counter from `x` gives `y` -/
def Sim {α} (x : CostM α) (y : GoM α) : Prop := ∀ m k, (x m k).1 = y m

theorem sim_pure {α} (a : α) : Sim (pure a : CostM α) (pure a : GoM α) := fun _ _ => rfl

theorem sim_lift {α} (y : GoM α) : Sim (liftC y) y := fun _ _ => rfl

theorem sim_call {α} (c : Meter → Cost → Cost) (y : GoM α) : Sim (callC c y) y := fun _ _ => rfl

theorem sim_err {α} : Sim (errC : CostM α) (err : GoM α) := fun _ _ => rfl

theorem sim_bind {α β} {x : CostM α} {y : GoM α} {f : α → CostM β} {g : α → GoM β}
    (hx : Sim x y) (hf : ∀ a, Sim (f a) (g a)) : Sim (x >>= f) (y >>= g) := by
  intro m k
  have h1 := hx m k
  show (bindC x f m k).1 = (y >>= g) m
  unfold bindC
  simp only [bind, StateT.bind]
  cases hxm : x m k with
  | mk r k' =>
    rw [hxm] at h1
    simp only [] at h1
    cases r with
    | ok v =>
      obtain ⟨a, m'⟩ := v
      simp only []
      rw [← h1]
      simp only [Except.bind]
      exact hf a m' k'
    | error e =>
      simp only []
      rw [← h1]
      rfl

theorem sim_tick {α} {x : CostM α} {y : GoM α} (h : Sim x y) : Sim (tickC >>= fun _ => x) y := by
  intro m k
  show (bindC tickC (fun _ => x) m k).1 = y m
  simp only [bindC, tickC]
  exact h m _

theorem sim_blk {α} {x : CostM α} {y : GoM α} (h : Sim x y) : Sim (blkC >>= fun _ => x) y := by
  intro m k
  show (bindC blkC (fun _ => x) m k).1 = y m
  simp only [bindC, blkC]
  exact h m _

theorem sim_dec {α} {n : Nat} {x : CostM α} {y : GoM α} (h : Sim x y) : Sim (decC n >>= fun _ => x) y := by
  intro m k
  show (bindC (decC n) (fun _ => x) m k).1 = y m
  simp only [bindC, decC]
  exact h m _

theorem sim_ite {α} {c : Prop} [Decidable c] {x1 x2 : CostM α} {y1 y2 : GoM α}
    (h1 : Sim x1 y1) (h2 : Sim x2 y2) : Sim (if c then x1 else x2) (if c then y1 else y2) := by
  split
  · exact h1
  · exact h2

/-! ### the block map -/

theorem readBlocks_sim (length : Nat) : ∀ (fuel : Nat) (r : Bytes) (pos : Nat),
    Sim (readBlocksC length fuel r pos) (readBlocksG length fuel r pos)
  | 0, r, pos => by
    rw [readBlocksC, readBlocksG]
    refine sim_ite sim_err ?_
    exact sim_lift _
  | fuel+1, r, pos => by
    rw [readBlocksC, readBlocksG]
    refine sim_ite sim_err ?_
    simp only []
    refine sim_blk ?_
    refine sim_bind (sim_lift _) (fun x => ?_)
    obtain ⟨e, r'⟩ := x
    simp only []
    refine sim_ite (sim_pure _) ?_
    refine sim_bind (sim_lift _) (fun _ => ?_)
    refine sim_bind (readBlocks_sim length fuel r' (pos + 8)) (fun rest => ?_)
    exact sim_pure _

/-! ### sections, files, volumes -/

theorem section_sim (h : HooksG) (inner : Inner) (ic : InnerCost) (nc : NvarCost) : ∀ (fuel : Nat) (buf : Bytes) (order : Nat) (st : St),
    Sim (sectionC h inner ic nc fuel buf order st) (parseSectionG h inner fuel buf order st)
  | 0, buf, order, st => by rw [sectionC, parseSectionG]; exact sim_lift _
  | fuel+1, buf, order, st => by
    rw [sectionC, parseSectionG]
    refine sim_tick ?_
    refine sim_bind (sim_lift _) (fun x => ?_)
    obtain ⟨hb, r1⟩ := x
    simp only []
    refine sim_bind (sim_lift _) (fun x => ?_)
    obtain ⟨ext, hs, r2⟩ := x
    simp only []
    refine sim_ite sim_err ?_
    refine sim_bind (sim_lift _) (fun sbuf => ?_)
    refine sim_ite ?_ ?_
    · -- GUID defined
      refine sim_bind (sim_lift _) (fun x => ?_)
      obtain ⟨tb, _⟩ := x
      simp only []
      refine sim_ite ?_ (sim_pure _)
      cases hc : h.codec (List.take 16 tb) with
      | none => exact sim_pure _
      | some c =>
        simp only []
        refine sim_ite sim_err ?_
        refine sim_bind (sim_lift _) (fun payload => ?_)
        refine sim_bind (sim_lift _) (fun dec => ?_)
        cases dec with
        | none => exact sim_pure _
        | some enc =>
          simp only []
          refine sim_dec ?_
          refine sim_bind (sim_call _ _) (fun r => ?_)
          cases r with
          | none => exact sim_pure _
          | some x => obtain ⟨ns, st'⟩ := x; exact sim_pure _
    · refine sim_ite ?_ ?_
      · refine sim_ite sim_err ?_
        refine sim_bind (sim_lift _) (fun nb => ?_)
        refine sim_bind (sim_lift _) (fun name => ?_)
        exact sim_pure _
      · refine sim_ite ?_ ?_
        · refine sim_ite sim_err ?_
          refine sim_bind (sim_lift _) (fun bn => ?_)
          refine sim_bind (sim_lift _) (fun vb => ?_)
          refine sim_bind (sim_lift _) (fun ver => ?_)
          exact sim_pure _
        · refine sim_ite ?_ ?_
          · refine sim_ite sim_err ?_
            refine sim_bind (sim_lift _) (fun vb => ?_)
            refine sim_bind (sim_call _ _) (fun x => ?_)
            obtain ⟨fv, st'⟩ := x
            exact sim_pure _
          · refine sim_ite ?_ (sim_pure _)
            refine sim_ite sim_err ?_
            refine sim_bind (sim_lift _) (fun db => ?_)
            cases parseDepEx db with
            | none => exact sim_pure _
            | some ops => exact sim_pure _

theorem sections_sim (h : HooksG) (inner : Inner) (ic : InnerCost) (nc : NvarCost) : ∀ (fuel : Nat) (fbuf : Bytes)
    (offset ext idx : Nat) (st : St),
    Sim (sectionsC h inner ic nc fuel fbuf offset ext idx st) (parseSectionsG h inner fuel fbuf offset ext idx st)
  | 0, fbuf, offset, ext, idx, st => by
    rw [sectionsC, parseSectionsG]
    refine sim_ite (sim_lift _) (sim_pure _)
  | fuel+1, fbuf, offset, ext, idx, st => by
    rw [sectionsC, parseSectionsG]
    refine sim_ite ?_ (sim_pure _)
    simp only []
    refine sim_tick ?_
    refine sim_bind (sim_lift _) (fun sb => ?_)
    refine sim_bind (sim_call _ _) (fun x => ?_)
    obtain ⟨s, st'⟩ := x
    simp only []
    refine sim_ite sim_err ?_
    refine sim_bind (sections_sim h inner ic nc fuel fbuf _ ext (idx + 1) st') (fun x => ?_)
    obtain ⟨ss, st''⟩ := x
    exact sim_pure _

theorem file_sim (h : HooksG) (inner : Inner) (ic : InnerCost) (nc : NvarCost) : ∀ (fuel : Nat) (buf : Bytes) (st : St),
    Sim (fileC h inner ic nc fuel buf st) (parseFileG h inner fuel buf st)
  | 0, buf, st => by rw [fileC, parseFileG]; exact sim_lift _
  | fuel+1, buf, st => by
    rw [fileC, parseFileG]
    refine sim_tick ?_
    refine sim_bind (sim_lift _) (fun x => ?_)
    obtain ⟨hb, r1⟩ := x
    simp only []
    refine sim_bind (sim_lift _) (fun hr => ?_)
    cases hr with
    | none => exact sim_pure _
    | some i =>
      simp only []
      refine sim_ite sim_err ?_
      refine sim_bind (sim_lift _) (fun fbuf => ?_)
      refine sim_bind (sim_ite (sim_ite sim_err (sim_bind (sim_lift _) (fun nb => sim_call _ _))) (sim_pure _))
        (fun nvs => ?_)
      refine sim_ite (sim_pure _) ?_
      refine sim_bind (sections_sim h inner ic nc fuel fbuf _ _ 0 st) (fun x => ?_)
      obtain ⟨ss, st'⟩ := x
      exact sim_pure _

theorem files_sim (h : HooksG) (inner : Inner) (ic : InnerCost) (nc : NvarCost) : ∀ (fuel : Nat) (data : Bytes)
    (offset lh length : Nat) (st : St),
    Sim (filesC h inner ic nc fuel data offset lh length st) (parseFilesG h inner fuel data offset lh length st)
  | 0, data, offset, lh, length, st => by
    rw [filesC, parseFilesG]
    refine sim_ite (sim_lift _) (sim_pure _)
  | fuel+1, data, offset, lh, length, st => by
    rw [filesC, parseFilesG]
    refine sim_ite ?_ (sim_pure _)
    simp only []
    refine sim_tick ?_
    refine sim_ite sim_err ?_
    refine sim_bind (sim_lift _) (fun fb => ?_)
    refine sim_bind (sim_call _ _) (fun x => ?_)
    obtain ⟨fo, st'⟩ := x
    simp only []
    cases fo with
    | none => exact sim_pure _
    | some f =>
      simp only []
      refine sim_ite sim_err ?_
      refine sim_bind (files_sim h inner ic nc fuel data _ lh length st') (fun x => ?_)
      obtain ⟨fs, free, st''⟩ := x
      exact sim_pure _

theorem fv_sim (h : HooksG) (inner : Inner) (ic : InnerCost) (nc : NvarCost) : ∀ (fuel : Nat) (data : Bytes) (o : Nat) (r : Bool) (st : St),
    Sim (fvC h inner ic nc fuel data o r st) (parseFvG h inner fuel data o r st)
  | 0, data, o, r, st => by rw [fvC, parseFvG]; exact sim_lift _
  | fuel+1, data, o, r, st => by
    rw [fvC, parseFvG]
    refine sim_tick ?_
    refine sim_ite sim_err ?_
    refine sim_bind (sim_lift _) (fun x => ?_)
    obtain ⟨hd, r1⟩ := x
    simp only []
    refine sim_bind (readBlocks_sim _ _ _ _) (fun blocks => ?_)
    cases hp : setPolarity (polOfAttrs (rd hd 44 4)) st with
    | error e => exact sim_err
    | ok st1 =>
      simp only []
      refine sim_ite sim_err ?_
      refine sim_bind (sim_lift _) (fun x => ?_)
      obtain ⟨fvName, ehs⟩ := x
      simp only []
      refine sim_bind (sim_lift _) (fun fbuf => ?_)
      refine sim_ite (sim_pure _) ?_
      refine sim_bind (sim_lift _) (fun clipped => ?_)
      refine sim_bind (files_sim h inner ic nc fuel clipped _ _ _ st1) (fun x => ?_)
      obtain ⟨fs, free, st'⟩ := x
      exact sim_pure _

theorem encapLoop_sim (sec : Bytes → Nat → St → GoM (Section × St)) (sc : Bytes → Nat → St → Meter → Cost → Cost) :
    ∀ (fuel : Nat) (enc : Bytes) (offset idx : Nat) (st : St),
    Sim (encapLoopC sec sc fuel enc offset idx st) (encapLoopG sec fuel enc offset idx st)
  | 0, enc, offset, idx, st => by
    rw [encapLoopC, encapLoopG]
    refine sim_ite (sim_lift _) (sim_pure _)
  | fuel+1, enc, offset, idx, st => by
    rw [encapLoopC, encapLoopG]
    refine sim_ite ?_ (sim_pure _)
    simp only []
    refine sim_tick ?_
    refine sim_bind (sim_lift _) (fun sb => ?_)
    refine sim_bind (sim_call _ _) (fun x => ?_)
    obtain ⟨s, st'⟩ := x
    simp only []
    refine sim_ite sim_err ?_
    refine sim_bind (encapLoop_sim sec sc fuel enc _ (idx + 1) st') (fun x => ?_)
    obtain ⟨ns, st''⟩ := x
    exact sim_pure _

end Fiano.Uefi.Total
