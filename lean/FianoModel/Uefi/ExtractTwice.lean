/-
  UEFI core model — saving is a fixed point *in memory* (follow-up wp-c07b).

  `utk DIR save OUT` runs `Assemble` twice over the same tree (`Assemble.Run`, then `Save`, which
  assembles again); `utk IMAGE save OUT` runs it once.  This file proves, for every hook set (any
  codec table — no law about the codecs is needed: the second pass *re-encodes the same children*,
  nothing is decoded), that the second pass over the tree the first pass left behind returns that
  tree again, node for node and byte for byte:

      asmX h x st = .ok (x1, st1)  →  asmX h x1 st = .ok (x1, st1)

  for sections, files, volumes (any nesting depth), given
    * `okX x`      (Uefi/ExtractAsm.lean; every parsed tree without NVAR store has it): GUIDs of 16
                   bytes, no NVAR store, a section with children is rebuilt from them;
    * `stX x1`     on the tree the first pass wrote: every volume with files has a buffer no longer
                   than its `Length` field (it fails only when `uefi.Align` wraps around 2^64 while a
                   nested volume grows: buffers of 2^63 bytes and more, which no Go slice can hold)
                   and `DataOffset ≥ 32` (the file-system GUID the FFSv3 switch patches at 16…32 lies
                   in the header part of the buffer; `DataOffset` is not changed by `Assemble`);
    * the erase polarity is already set (below a volume it always is).

  Core Lean only.
-/
import FianoModel.Uefi.ExtractAsm
import FianoModel.Uefi.ExtractTwiceDefs

namespace Fiano.Uefi
open Fiano

/-! ### the process state -/

theorem tw_setPolarity_set (ep : UInt8) (st st' : St) (hs : st.pol ≠ 0xF0) (h : setPolarity ep st = .ok st') :
    st' = st := by
  unfold setPolarity at h
  by_cases h1 : ep ≠ 0xFF ∧ ep ≠ 0
  · simp [h1] at h
  · by_cases h2 : st.pol = ep
    · subst h2
      simp only [h1, hs, ↓reduceIte, ne_eq, not_false_eq_true, not_true_eq_false] at h
      cases h
      rfl
    · simp [h1, hs, h2] at h

theorem tw_setPolarity_ok (ep : UInt8) (st st' : St) (h : setPolarity ep st = .ok st') :
    st'.pol ≠ 0xF0 ∧ st'.ffs3 = st.ffs3 ∧ st'.pol = ep ∧ setPolarity ep st' = .ok st' := by
  have hep : ¬ (ep ≠ 0xFF ∧ ep ≠ 0) := by
    intro hc
    unfold setPolarity at h
    simp [hc] at h
  have h1 : ep ≠ 0xF0 := by
    intro hc
    apply hep
    subst hc
    decide
  by_cases hs : st.pol = 0xF0
  · unfold setPolarity at h
    simp only [hep, hs, ↓reduceIte, ne_eq, not_true_eq_false] at h
    cases h
    refine ⟨h1, rfl, rfl, ?_⟩
    unfold setPolarity
    simp [hep, h1]
  · have := tw_setPolarity_set ep st st' hs h
    subst this
    have he : st'.pol = ep := by
      unfold setPolarity at h
      by_cases h2 : st'.pol = ep
      · exact h2
      · simp [hep, hs, h2] at h
    exact ⟨hs, rfl, he, h⟩

theorem tw_noteLarge_pol (n : Nat) (st : St) : (noteLarge n st).pol = st.pol := by
  unfold noteLarge; split <;> rfl

/-! ### section headers -/

/-- `GenSecHeader` on what it produced writes the same header again -/
theorem genSecHeader_idem (i i' : SecInfo) (b b' : Bytes) (h : genSecHeader i b = .ok (i', b')) :
    genSecHeader i' b = .ok (i', b') ∧ i'.type = i.type ∧
      (i.type ≠ 2 → sumSecInfo i' = sumSecInfo i) ∧
      (∀ g, i.ts = some g → ∃ g', i'.ts = some g' ∧ g'.attrs = g.attrs ∧ g'.guid = g.guid) := by
  obtain ⟨s, t, x, o, ts, n, bd, v, d⟩ := i
  unfold genSecHeader at h ⊢
  by_cases ht : t = 2
  · cases ts with
    | none => simp [ht] at h
    | some g =>
      simp only [ht, ↓reduceIte, Option.isSome_some] at h
      cases h
      subst ht
      simp [sumSecInfo]
  · simp only [ht, ↓reduceIte] at h
    cases h
    cases ts <;> simp [ht, sumSecInfo]

theorem keepsBuf_of_ts (i i' : SecInfo) (ht : i'.type = i.type)
    (hts : ∀ g, i.ts = some g → ∃ g', i'.ts = some g' ∧ g'.attrs = g.attrs ∧ g'.guid = g.guid)
    (hk : keepsBuf i = false) (hsome : i.type = 2 → i.ts ≠ none) : keepsBuf i' = false := by
  unfold keepsBuf at hk ⊢
  rw [ht]
  by_cases h2 : i.type = 2
  · cases hi : i.ts with
    | none => exact absurd hi (hsome h2)
    | some g =>
      obtain ⟨g', hg', ha, _⟩ := hts g hi
      rw [hi] at hk
      rw [hg']
      simp only [ha]
      exact hk
  · simp [h2]

/-- the body of a section with children that is rebuilt from them depends on type, GUID and
    attributes only -/
theorem secBody_idem (h : Hooks) (i i' : SecInfo) (b b' d body : Bytes) (ht : i'.type = i.type)
    (hts : ∀ g, i.ts = some g → ∃ g', i'.ts = some g' ∧ g'.attrs = g.attrs ∧ g'.guid = g.guid)
    (hk : keepsBuf i = false) (hb : secBody h i b d = .ok body) : secBody h i' b' d = .ok body := by
  unfold secBody at hb ⊢
  rw [ht]
  by_cases h2 : i.type = 2
  · simp only [h2, ↓reduceIte] at hb ⊢
    cases hi : i.ts with
    | none => rw [hi] at hb; cases hb
    | some g =>
      obtain ⟨g', hg', ha, hgg⟩ := hts g hi
      rw [hi] at hb
      rw [hg']
      simp only [ha, hgg] at hb ⊢
      have hbit : g.attrs &&& 1 ≠ 0 := by
        intro hc
        simp [keepsBuf, h2, hi, hc] at hk
      simp only [hbit, ne_eq, not_false_eq_true, ↓reduceIte] at hb ⊢
      exact hb
  · simp only [h2, ↓reduceIte] at hb ⊢
    exact hb

end Fiano.Uefi

