/-
  C03: the GUID text form (`GUID.String`) parses back (`guid.Parse`) to the same 16 bytes, and
  distinct GUIDs have distinct text forms — selecting a file by the text of its GUID selects by its
  16 bytes.
-/
import FianoModel.Uefi.Guid

namespace Fiano.Uefi
open Fiano

theorem hexUpper_ne_hyphen (n : Nat) (h : n < 16) : (hexUpper n != 45) = true := by
  unfold hexUpper; split <;> simp <;> omega

theorem hexDigitVal_hexUpper (n : Nat) (h : n < 16) : hexDigitVal (hexUpper n) = some n := by
  unfold hexUpper hexDigitVal
  split
  · rw [if_pos (by omega)]; congr 1; omega
  · rw [if_neg (by omega), if_pos (by omega)]; congr 1; omega

theorem hexBytes_append (a b : Bytes) : hexBytes (a ++ b) = hexBytes a ++ hexBytes b := by
  induction a with
  | nil => rfl
  | cons x xs ih => simp [hexBytes, ih]

theorem hexDecode_hexBytes (l : Bytes) : hexDecode (hexBytes l) = some l := by
  induction l with
  | nil => rfl
  | cons b bs ih =>
    have hb := b.toNat_lt
    simp only [hexBytes, hexByte, List.cons_append, List.nil_append, hexDecode]
    rw [hexDigitVal_hexUpper _ (by omega), hexDigitVal_hexUpper _ (by omega), ih]
    simp only
    congr 2
    apply UInt8.toNat_inj.mp
    simp [UInt8.toNat_ofNat']
    omega

theorem filter_hexBytes (l : Bytes) : (hexBytes l).filter (· ≠ 45) = hexBytes l := by
  induction l with
  | nil => rfl
  | cons b bs ih =>
    have hb := b.toNat_lt
    simp only [hexBytes, hexByte, List.cons_append, List.nil_append]
    have h1 := hexUpper_ne_hyphen (b.toNat / 16) (by omega)
    have h2 := hexUpper_ne_hyphen (b.toNat % 16) (by omega)
    simp only [bne_iff_ne, ne_eq] at h1 h2
    rw [List.filter_cons, if_pos (by simpa using h1), List.filter_cons, if_pos (by simpa using h2), ih]

theorem guidSwap_length (g : Bytes) (h : g.length = 16) : (guidSwap g).length = 16 := by
  unfold guidSwap; simp; omega

theorem guidSwap_involutive (g : Bytes) (h : g.length = 16) : guidSwap (guidSwap g) = g := by
  match g, h with
  | [a0, a1, a2, a3, a4, a5, a6, a7, a8, a9, a10, a11, a12, a13, a14, a15], _ => rfl

/-- **the GUID text form parses back to the same 16 bytes** (`guid.Parse (g.String()) = g`) -/
theorem guidParse_guidText (g : Bytes) (h : g.length = 16) : guidParse (guidText g) = some g := by
  have hs := guidSwap_length g h
  unfold guidParse guidText
  simp only
  have hf : (hexBytes ((guidSwap g).take 4) ++ [45] ++ hexBytes (((guidSwap g).drop 4).take 2) ++ [45] ++
      hexBytes (((guidSwap g).drop 6).take 2) ++ [45] ++ hexBytes (((guidSwap g).drop 8).take 2) ++ [45] ++
      hexBytes ((guidSwap g).drop 10)).filter (· ≠ 45) = hexBytes (guidSwap g) := by
    simp only [List.filter_append, filter_hexBytes]
    have : List.filter (fun x => decide (x ≠ 45)) [45] = [] := by decide
    rw [this]
    simp only [List.append_nil, ← hexBytes_append]
    congr 1
    generalize guidSwap g = s at *
    match s, hs with
    | [a0, a1, a2, a3, a4, a5, a6, a7, a8, a9, a10, a11, a12, a13, a14, a15], _ => rfl
  rw [hf, hexDecode_hexBytes]
  simp only [hs, if_true, guidSwap_involutive g h]

/-- distinct GUIDs have distinct text forms -/
theorem guidText_injective (g g' : Bytes) (h : g.length = 16) (h' : g'.length = 16)
    (he : guidText g = guidText g') : g = g' := by
  have := guidParse_guidText g h
  rw [he, guidParse_guidText g' h'] at this
  exact (Option.some.inj this).symm

end Fiano.Uefi
