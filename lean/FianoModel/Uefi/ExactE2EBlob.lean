/-
  C03 follow-up (wp-c03c, round 3): **an inserted blob outside the grammar** — the weaker frame theorem
  for every blob `NewFile` accepts (no `CanonFile`, no grammar, no invariant).

  Which blobs `NewFile` accepts (`parseFile_accepts`): at least 24 bytes; the 3-byte size — or, when it
  is FFFFFF, the 8-byte extended size, which may be *small* (even below 32) and is not checked against
  the large-file attribute — does not exceed the blob; not an erased header; when the type is one whose
  sections are parsed, the section walk over `blob[:size]` succeeds (unknown section types are kept as
  leaf sections, a section size beyond the file is clamped by the walk).  The node is
  `(header fields, blob[:size], sections)`: its buffer is the blob's prefix, verbatim
  (`parseFile_node`).

  What a save does with such a node inside its volume, at byte level, for *any* file list:

    * `lay_at`, `insert_blob_verbatim`: in the re-laid volume the assembled buffer of the k-th file
      appears verbatim at `fileStart (end of the files before it) attrs` — for a node without section
      nodes (unsupported type, or no section parsed) that buffer is the blob's prefix itself
      (`asmFile_leaf`), otherwise it is what Assemble regenerates from the parsed sections;
    * everything in front of the insertion point is unchanged (`frame_inside_volume`, already for
      arbitrary lists), every other top-level volume / region / the descriptor is unchanged
      (`frame_bytes`, `frame_bytes_flash`: any tree, any editor — `insertFileEditor p w nf` for an
      arbitrary `nf` included).

  Not claimed for arbitrary blobs: that fiano's reader takes the saved volume back (`reparse_abs` needs
  `CanonFile nf`): a blob whose extended size is below its header length, or whose regenerated sections
  differ from its bytes, leaves a volume the reference grammar does not describe.
-/
import FianoModel.Uefi.ExactCor

namespace Fiano.Uefi.Exact
open Fiano Fiano.Uefi Fiano.Uefi.Spec

/-! ### what `NewFile` accepts -/

/-- the node `NewFile` builds for an accepted blob: header fields as decoded by `fileHeader`, the
    buffer is the blob's prefix of the decoded size, and a file of a type whose sections are not parsed
    has no section nodes -/
theorem parseFile_node (h : Hooks) (fuel : Nat) (blob : Bytes) (st st' : St) (f : File)
    (hp : parseFile h fuel blob st = .ok (some f, st')) :
    ∃ i0, fileHeader blob = .ok (some i0) ∧ f.buf = blob.take i0.extSize ∧ i0.extSize ≤ blob.length ∧
      24 ≤ blob.length ∧ f.info.extSize = i0.extSize ∧ f.info.attrs = i0.attrs ∧ f.info.type = i0.type ∧
      f.info.guid = i0.guid ∧ (supportedFile i0.type = false → f.secs = []) := by
  cases fuel with
  | zero => simp [parseFile] at hp
  | succ fuel =>
    rw [parseFile] at hp
    split at hp
    · cases hp
    · cases hp
    rename_i i0 hh
    have hsz : i0.extSize ≤ blob.length ∧ 24 ≤ blob.length := by
      unfold fileHeader at hh
      split at hh
      · cases hh
      rename_i h24
      simp only at hh
      split at hh
      · cases hh
      · cases hh
      rename_i i1 _
      split at hh
      · cases hh
      · rename_i hle
        cases hh
        exact ⟨by omega, by omega⟩
    refine ⟨i0, hh, ?_⟩
    simp only at hp
    split at hp
    · cases hp
    rename_i nvs _
    split at hp
    · rename_i hns
      cases hp
      refine ⟨rfl, hsz.1, hsz.2, rfl, rfl, rfl, rfl, fun _ => rfl⟩
    · rename_i hsup
      split at hp
      · cases hp
      rename_i ss st1 _
      cases hp
      refine ⟨rfl, hsz.1, hsz.2, rfl, rfl, rfl, rfl, fun hc => ?_⟩
      simp only [hc] at hsup
      exact absurd (by simp) hsup

/-- **which blobs are accepted**, for file types whose sections are not parsed (RAW, pad, …) and
    blobs that are not NVAR stores: exactly those with a decodable header (`fileHeader`: 24 bytes at
    least, not erased, decoded size — 3-byte or, for FFFFFF, the 8-byte extended size, however small —
    within the blob); the process state is left alone -/
theorem parseFile_accepts (h : Hooks) (fuel : Nat) (blob : Bytes) (st : St) (i0 : FileInfo)
    (hh : fileHeader blob = .ok (some i0)) (hns : supportedFile i0.type = false)
    (hnv : ¬ (i0.type = 1 ∧ i0.guid = guidNVAR)) :
    parseFile h (fuel + 1) blob st = .ok (some (.mk { i0 with nvar := none } (blob.take i0.extSize) []), st) := by
  rw [parseFile, hh]
  simp only [hnv, if_false, hns, Bool.false_eq_true, not_false_eq_true, if_true]

/-! ### where the bytes of a file land -/

/-- in the file area written for `pre ++ x :: post`, the buffer of `x` appears verbatim at the offset
    the alignment rule computes from the end of the files before it -/
theorem lay_at (pre post : List (Nat × Bytes)) (x : Nat × Bytes) (off : Nat)
    (hb : layEndM pre off < 2 ^ 62) (hne : ∀ z ∈ pre, z.2.length ≠ 0) (j : Nat) (hj : j < x.2.length) :
    off ≤ fileStart (layEndM pre off) x.1 ∧
    (lay (pre ++ x :: post) off)[fileStart (layEndM pre off) x.1 - off + j]? = x.2[j]? := by
  obtain ⟨a, fb⟩ := x
  simp only at hj ⊢
  have hl := (placeFiles_lay pre (List.replicate off 0) off hne (by simp) hb).2
  have h1 := layOne_length (layEndM pre off) a fb hb
  have hfs := le_fileStart (layEndM pre off) a
  have hmono := le_layEndM pre off
  refine ⟨by omega, ?_⟩
  rw [(lay_append pre ((a, fb) :: post) off).1]
  rw [List.getElem?_append_right (by omega)]
  simp only [lay]
  unfold layOne at h1 ⊢
  simp only [List.length_append] at h1
  have hidx : fileStart (layEndM pre off) a - off + j - (lay pre off).length =
      (ffs (alignUp (layEndM pre off) 8 - layEndM pre off)).length +
        ((padBefore (layEndM pre off) a).map serFile).flatten.length + j := by omega
  rw [hidx]
  generalize ffs (alignUp (layEndM pre off) 8 - layEndM pre off) = A
  generalize ((padBefore (layEndM pre off) a).map serFile).flatten = P
  generalize lay post (fileStart (layEndM pre off) a + fb.length) = R
  rw [List.append_assoc, List.append_assoc, List.getElem?_append_right (by omega)]
  rw [List.getElem?_append_right (by omega)]
  rw [List.getElem?_append_left (by omega)]
  congr 1
  omega

/-- **the inserted file's bytes, verbatim, at the computed offset**: in a re-laid top-level volume whose
    file list is `pre ++ x :: post` (any nodes: no grammar, no invariant), the assembled buffer of `x`
    is found, byte for byte, at `fileStart (end of pre) x.attrs` -/
theorem insert_blob_verbatim (i : FvInfo) (buf : Bytes) (pre post : List File) (x : File) (st : St)
    (i' : FvInfo) (out : Bytes) (st' : St)
    (h : relayoutFv i buf (pre ++ x :: post) st = .ok (i', out, st')) (hp : st.pol = 0xFF)
    (hnr : i.resizable = false) (hb : layEndM (placedM (pre ++ x :: post)) i.dataOffset < 2 ^ 62)
    (hdo : 60 ≤ i.dataOffset) (hbl : i.dataOffset ≤ buf.length) (hne : ∀ f ∈ pre, f.buf.length ≠ 0)
    (j : Nat) (hj : j < x.buf.length) :
    out[fileStart (layEndM (placedM pre) i.dataOffset) x.info.attrs + j]? = x.buf[j]? := by
  obtain ⟨hfit, hbytes⟩ := relayout_bytes i buf (pre ++ x :: post) st i' out st' h hp hnr hb
  have hsplit : placedM (pre ++ x :: post) = placedM pre ++ (x.info.attrs, x.buf) :: placedM post := by
    simp [placedM]
  have hbpre : layEndM (placedM pre) i.dataOffset < 2 ^ 62 := by
    have := (lay_append (placedM pre) ((x.info.attrs, x.buf) :: placedM post) i.dataOffset).2
    rw [hsplit, this] at hb
    have := le_layEndM ((x.info.attrs, x.buf) :: placedM post) (layEndM (placedM pre) i.dataOffset)
    omega
  have hne' : ∀ z ∈ placedM pre, z.2.length ≠ 0 := by
    intro z hz
    simp only [placedM, List.mem_map] at hz
    obtain ⟨f, hf, rfl⟩ := hz
    exact hne f hf
  obtain ⟨hge, hat⟩ := lay_at (placedM pre) (placedM post) (x.info.attrs, x.buf) i.dataOffset hbpre hne' j hj
  simp only at hge hat
  rw [hbytes _ (by omega)]
  have htl : (buf.take i.dataOffset).length = i.dataOffset := by
    simp only [List.length_take]; omega
  rw [List.append_assoc, List.getElem?_append_right (by rw [htl]; omega), htl]
  have hlaylen : (lay (placedM (pre ++ x :: post)) i.dataOffset).length =
      layEndM (placedM (pre ++ x :: post)) i.dataOffset - i.dataOffset := by
    have hne2 : ∀ z ∈ placedM (pre ++ x :: post), z.2.length ≠ 0 := by
      intro z hz
      rw [hsplit] at hz
      rcases List.mem_append.mp hz with hz | hz
      · exact hne' z hz
      · have hpl : ∃ fbuf, placeFiles 0xFF (placedM (pre ++ x :: post)) (buf.take i.dataOffset) i.dataOffset = .ok fbuf := by
          unfold relayoutFv at h
          split at h
          · cases h
          split at h
          · cases h
          split at h
          · cases h
          split at h
          · cases h
          rename_i fbuf hpl
          rw [hp] at hpl
          exact ⟨fbuf, hpl⟩
        obtain ⟨fbuf, hpl⟩ := hpl
        exact placeFiles_nonempty _ _ _ _ _ hpl z (by rw [hsplit]; exact List.mem_append_right _ hz)
    have := (placeFiles_lay _ (buf.take i.dataOffset) i.dataOffset hne2 htl hb).2
    omega
  have hend : fileStart (layEndM (placedM pre) i.dataOffset) x.info.attrs + x.buf.length ≤
      layEndM (placedM (pre ++ x :: post)) i.dataOffset := by
    rw [hsplit, (lay_append (placedM pre) ((x.info.attrs, x.buf) :: placedM post) i.dataOffset).2]
    simp only [layEndM]
    exact le_layEndM _ _
  rw [List.getElem?_append_left (by rw [hlaylen]; omega)]
  have hidx : fileStart (layEndM (placedM pre) i.dataOffset) x.info.attrs + j - i.dataOffset =
      fileStart (layEndM (placedM pre) i.dataOffset) x.info.attrs - i.dataOffset + j := by omega
  rw [hidx]
  rw [← hsplit] at hat
  exact hat

/-- a node without section nodes — every accepted blob of a type whose sections are not parsed — is
    written exactly as it is: its assembled buffer is the blob's prefix -/
theorem blob_leaf_verbatim (h : Hooks) (fuel : Nat) (blob : Bytes) (st0 st0' : St) (nf : File)
    (hp : parseFile h fuel blob st0 = .ok (some nf, st0')) (hs : nf.secs = []) (hn : nf.info.nvar = none)
    (st : St) : ∃ i0, fileHeader blob = .ok (some i0) ∧ asmFile Hooks.none nf st = .ok (nf, st) ∧
      nf.buf = blob.take i0.extSize := by
  obtain ⟨i0, hh, hb, _⟩ := parseFile_node h fuel blob st0 st0' nf hp
  obtain ⟨ni, nb, ns⟩ := nf
  simp only [File.secs] at hs
  subst hs
  exact ⟨i0, hh, asmFile_leaf Hooks.none ni nb st hn, hb⟩

end Fiano.Uefi.Exact
