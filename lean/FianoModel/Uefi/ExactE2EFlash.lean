/-
  C03 follow-up (wp-c03c, round 3), layer 10: the end-to-end statement for a **flash image with
  descriptor** that has one BIOS region (`f.regions = rpre ++ .bios b :: rpost`, no BIOS region in `rpre`
  and `rpost` — ME, other table regions, gaps).  Assemble re-points the regions to the descriptor's table
  and sorts them by base; with one BIOS region the abstract view does not depend on that order
  (`avRegions_sort_one`), so the composition of ExactE2E / ExactE2ENest carries over unchanged.
-/
import FianoModel.Uefi.ExactE2ENest

namespace Fiano.Uefi.Exact
open Fiano Fiano.Uefi Fiano.Uefi.Spec

def nonBios : Region → Prop
  | .bios _ => False
  | _ => True

theorem avRegions_nonBios : ∀ (l : List Region), (∀ r ∈ l, nonBios r) → avRegions l = []
  | [], _ => rfl
  | .bios b :: l, h => absurd (h (.bios b) List.mem_cons_self) (by simp [nonBios])
  | .me _ _ :: l, h => by
    simp only [avRegions]; exact avRegions_nonBios l (fun r hr => h r (List.mem_cons_of_mem _ hr))
  | .raw _ _ _ :: l, h => by
    simp only [avRegions]; exact avRegions_nonBios l (fun r hr => h r (List.mem_cons_of_mem _ hr))

theorem avRegions_cons_nb (r : Region) (l : List Region) (h : nonBios r) : avRegions (r :: l) = avRegions l := by
  cases r with
  | bios b => exact absurd h (by simp [nonBios])
  | me _ _ => rfl
  | raw _ _ _ => rfl

theorem avRegions_insert_nb (r : Region) (hr : nonBios r) : ∀ (l : List Region),
    avRegions (insertRegion r l) = avRegions l
  | [] => by simp only [insertRegion]; exact avRegions_cons_nb r [] hr
  | x :: l => by
    simp only [insertRegion]
    split
    · exact avRegions_cons_nb r _ hr
    · cases x with
      | bios b => simp only [avRegions, avRegions_insert_nb r hr l]
      | me _ _ => simp only [avRegions, avRegions_insert_nb r hr l]
      | raw _ _ _ => simp only [avRegions, avRegions_insert_nb r hr l]

theorem avRegions_insert_bios (b : BiosRegion) : ∀ (l : List Region), (∀ x ∈ l, nonBios x) →
    avRegions (insertRegion (.bios b) l) = avElems b.elems
  | [], _ => by simp [insertRegion, avRegions]
  | x :: l, h => by
    have hl := avRegions_nonBios (x :: l) h
    simp only [insertRegion]
    split
    · simp only [avRegions, hl, List.append_nil]
    · rw [avRegions_cons_nb x _ (h x List.mem_cons_self)]
      exact avRegions_insert_bios b l (fun y hy => h y (List.mem_cons_of_mem _ hy))

/-- with one BIOS region the abstract view of the sorted region list is that region's -/
theorem avRegions_sort_one (b : BiosRegion) (rpost : List Region) (hpost : ∀ r ∈ rpost, nonBios r) :
    ∀ (rpre : List Region), (∀ r ∈ rpre, nonBios r) →
    avRegions (sortRegions (rpre ++ .bios b :: rpost)) = avElems b.elems
  | [], _ => by
    simp only [List.nil_append, sortRegions, List.foldr_cons]
    exact avRegions_insert_bios b _ (fun x hx => hpost x ((mem_sortRegions' x rpost).mp hx))
  | r :: rpre, h => by
    have ih := avRegions_sort_one b rpost hpost rpre (fun x hx => h x (List.mem_cons_of_mem _ hx))
    simp only [List.cons_append, sortRegions, List.foldr_cons] at ih ⊢
    rw [avRegions_insert_nb r (h r List.mem_cons_self)]
    exact ih

/-! ### re-pointing keeps kind and elements -/

theorem repoint_nonBios (tbl : List FlashRegion) (nr : Nat) (r : Region) (h : nonBios r) :
    nonBios (repoint tbl nr r) := by
  unfold repoint
  simp only
  split
  · exact h
  split
  · exact h
  split
  · exact h
  split
  · cases r with
    | bios b => exact absurd h (by simp [nonBios])
    | me _ _ => trivial
    | raw _ _ _ => trivial
  · exact h

theorem repoint_bios (tbl : List FlashRegion) (nr : Nat) (b : BiosRegion) :
    ∃ b2, repoint tbl nr (.bios b) = .bios b2 ∧ b2.elems = b.elems := by
  unfold repoint
  simp only
  split
  · exact ⟨b, rfl, rfl⟩
  split
  · exact ⟨b, rfl, rfl⟩
  split
  · exact ⟨b, rfl, rfl⟩
  split
  · exact ⟨_, rfl, rfl⟩
  · exact ⟨b, rfl, rfl⟩

theorem map_repoint_one (tbl : List FlashRegion) (nr : Nat) (b : BiosRegion) (rpre rpost : List Region)
    (hpre : ∀ r ∈ rpre, nonBios r) (hpost : ∀ r ∈ rpost, nonBios r) :
    ∃ b2 rpre2 rpost2, (rpre ++ .bios b :: rpost).map (repoint tbl nr) = rpre2 ++ .bios b2 :: rpost2 ∧
      b2.elems = b.elems ∧ (∀ r ∈ rpre2, nonBios r) ∧ (∀ r ∈ rpost2, nonBios r) := by
  obtain ⟨b2, h1, h2⟩ := repoint_bios tbl nr b
  refine ⟨b2, rpre.map (repoint tbl nr), rpost.map (repoint tbl nr), by simp [h1], h2, ?_, ?_⟩
  · intro r hr
    obtain ⟨x, hx, rfl⟩ := List.mem_map.mp hr
    exact repoint_nonBios tbl nr x (hpre x hx)
  · intro r hr
    obtain ⟨x, hx, rfl⟩ := List.mem_map.mp hr
    exact repoint_nonBios tbl nr x (hpost x hx)

/-! ### Assemble and the rewriting on a region list with one BIOS region -/

theorem asmRegions_me (h : Hooks) (x : Bytes) (y : FlashRegion) (l : List Region) (st : St) :
    asmRegions h (.me x y :: l) st =
      match asmRegions h l st with
      | .error e => .error e
      | .ok (rs', st') => .ok (.me x y :: rs', st') := by
  rw [asmRegions] <;> first | rfl | (intro b hb; cases hb)

theorem asmRegions_raw (h : Hooks) (x : Bytes) (y : FlashRegion) (z : Int) (l : List Region) (st : St) :
    asmRegions h (.raw x y z :: l) st =
      match asmRegions h l st with
      | .error e => .error e
      | .ok (rs', st') => .ok (.raw x y z :: rs', st') := by
  rw [asmRegions] <;> first | rfl | (intro b hb; cases hb)

theorem rwRegions_me (E : Editor) (x : Bytes) (y : FlashRegion) (l : List Region) :
    rwRegions E (.me x y :: l) =
      match rwRegions E l with
      | .error e => .error e
      | .ok rs' => .ok (.me x y :: rs') := by
  rw [rwRegions] <;> first | rfl | (intro b hb; cases hb)

theorem rwRegions_raw (E : Editor) (x : Bytes) (y : FlashRegion) (z : Int) (l : List Region) :
    rwRegions E (.raw x y z :: l) =
      match rwRegions E l with
      | .error e => .error e
      | .ok rs' => .ok (.raw x y z :: rs') := by
  rw [rwRegions] <;> first | rfl | (intro b hb; cases hb)

theorem asmRegions_nb (h : Hooks) : ∀ (l : List Region) (st : St), (∀ r ∈ l, nonBios r) →
    asmRegions h l st = .ok (l, st)
  | [], _, _ => rfl
  | .bios b :: l, _, hn => absurd (hn (.bios b) List.mem_cons_self) (by simp [nonBios])
  | .me x y :: l, st, hn => by
    rw [asmRegions_me, asmRegions_nb h l st (fun r hr => hn r (List.mem_cons_of_mem _ hr))]
  | .raw x y z :: l, st, hn => by
    rw [asmRegions_raw, asmRegions_nb h l st (fun r hr => hn r (List.mem_cons_of_mem _ hr))]

theorem asmRegions_one (h : Hooks) (b : BiosRegion) (rpost : List Region) (hpost : ∀ r ∈ rpost, nonBios r) :
    ∀ (rpre : List Region) (st : St) (rs : List Region) (st' : St), (∀ r ∈ rpre, nonBios r) →
    asmRegions h (rpre ++ .bios b :: rpost) st = .ok (rs, st') →
    ∃ b', asmBios h b st = .ok (b', st') ∧ rs = rpre ++ .bios b' :: rpost
  | [], st, rs, st', _, ha => by
    simp only [List.nil_append] at ha
    rw [asmRegions] at ha
    split at ha
    · cases ha
    rename_i b' st1 hb
    rw [asmRegions_nb h rpost st1 hpost] at ha
    cases ha
    exact ⟨b', hb, rfl⟩
  | .bios x :: rpre, _, _, _, hn, _ => absurd (hn (.bios x) List.mem_cons_self) (by simp [nonBios])
  | .me x y :: rpre, st, rs, st', hn, ha => by
    simp only [List.cons_append] at ha
    rw [asmRegions_me] at ha
    split at ha
    · cases ha
    rename_i rs1 st1 h1
    cases ha
    obtain ⟨b', hb, hrs⟩ := asmRegions_one h b rpost hpost rpre st rs1 st'
      (fun r hr => hn r (List.mem_cons_of_mem _ hr)) h1
    exact ⟨b', hb, by rw [hrs]; rfl⟩
  | .raw x y z :: rpre, st, rs, st', hn, ha => by
    simp only [List.cons_append] at ha
    rw [asmRegions_raw] at ha
    split at ha
    · cases ha
    rename_i rs1 st1 h1
    cases ha
    obtain ⟨b', hb, hrs⟩ := asmRegions_one h b rpost hpost rpre st rs1 st'
      (fun r hr => hn r (List.mem_cons_of_mem _ hr)) h1
    exact ⟨b', hb, by rw [hrs]; rfl⟩

theorem rwRegions_nb (E : Editor) : ∀ (l : List Region), (∀ r ∈ l, nonBios r) → rwRegions E l = .ok l
  | [], _ => rfl
  | .bios b :: l, hn => absurd (hn (.bios b) List.mem_cons_self) (by simp [nonBios])
  | .me x y :: l, hn => by rw [rwRegions_me, rwRegions_nb E l (fun r hr => hn r (List.mem_cons_of_mem _ hr))]
  | .raw x y z :: l, hn => by rw [rwRegions_raw, rwRegions_nb E l (fun r hr => hn r (List.mem_cons_of_mem _ hr))]

theorem rwRegions_one (E : Editor) (b b1 : BiosRegion) (rpost : List Region) (hb : rwBios E b = .ok b1)
    (hpost : ∀ r ∈ rpost, nonBios r) : ∀ (rpre : List Region), (∀ r ∈ rpre, nonBios r) →
    rwRegions E (rpre ++ .bios b :: rpost) = .ok (rpre ++ .bios b1 :: rpost)
  | [], _ => by
    simp only [List.nil_append]
    rw [rwRegions, hb, rwRegions_nb E rpost hpost]
  | .bios x :: rpre, hn => absurd (hn (.bios x) List.mem_cons_self) (by simp [nonBios])
  | .me x y :: rpre, hn => by
    simp only [List.cons_append]
    rw [rwRegions_me, rwRegions_one E b b1 rpost hb hpost rpre (fun r hr => hn r (List.mem_cons_of_mem _ hr))]
  | .raw x y z :: rpre, hn => by
    simp only [List.cons_append]
    rw [rwRegions_raw, rwRegions_one E b b1 rpost hb hpost rpre (fun r hr => hn r (List.mem_cons_of_mem _ hr))]

theorem goodRegions_mem : ∀ (l : List Region) (b : BiosRegion), GoodRegions l → Region.bios b ∈ l → GoodElems b.elems
  | [], _, _, hm => by cases hm
  | .bios x :: l, b, hg, hm => by
    rcases List.mem_cons.mp hm with h | h
    · cases h; exact hg.1
    · exact goodRegions_mem l b hg.2 h
  | .me x y :: l, b, hg, hm => by
    rcases List.mem_cons.mp hm with h | h
    · cases h
    · exact goodRegions_mem l b hg h
  | .raw x y z :: l, b, hg, hm => by
    rcases List.mem_cons.mp hm with h | h
    · cases h
    · exact goodRegions_mem l b hg h

/-! ### the composition for a flash image -/

/-- **one edit, one save, one re-parse — flash image with descriptor, one BIOS region** (any `EditorOk`
    editor; target at any depth below the top-level volume `v` of the BIOS region).  Same statement as
    `edit_saved_bios_shows`: the re-parsed saved image shows the lists of `pre` as in the input, lists
    `L` with `P L`, the lists of `post` as in the input (the other regions hold no volumes). -/
theorem edit_saved_flash_shows (E : Editor) (hE : EditorOk E) (f : Flash) (hr : Reach (.flash f))
    (hkeep : keepTree E (.flash f)) (rpre rpost : List Region) (b : BiosRegion)
    (hregs : f.regions = rpre ++ .bios b :: rpost)
    (hrpre : ∀ r ∈ rpre, nonBios r) (hrpost : ∀ r ∈ rpost, nonBios r)
    (pre post : List BiosElem) (v v1 : Fv) (hdec : b.elems = pre ++ .fv v :: post)
    (hq : ∀ u, BiosElem.fv u ∈ pre ++ post → quietFv E u = true ∧ StableFv u)
    (hrw : rwFv E v = .ok v1) (P : List (List AbsFile) → Prop) (hv : ShowsFv v1 P)
    (st st' : St) (t' : Tree) (hp : st.pol = 0xFF) (hf : st.ffs3 = false)
    (ha : asmTreeWith Hooks.none
      (.flash { f with regions := rpre ++ .bios { b with elems := pre ++ .fv v1 :: post } :: rpost }) st = .ok (t', st'))
    (hg : GoodTree t') :
    rwTree E (.flash f) =
      .ok (.flash { f with regions := rpre ++ .bios { b with elems := pre ++ .fv v1 :: post } :: rpost }) ∧
    ∃ i' L, Spec.WF i' ∧ t'.buf = Spec.ser i' ∧ parse Hooks.none t'.buf = .ok (Spec.tree i') ∧ P L ∧
      avTree (Spec.tree i') = avElems pre ++ L ++ avElems post := by
  have hqpre : ∀ u, BiosElem.fv u ∈ pre → quietFv E u = true := fun u hu => (hq u (List.mem_append_left _ hu)).1
  have hqpost : ∀ u, BiosElem.fv u ∈ post → quietFv E u = true := fun u hu => (hq u (List.mem_append_right _ hu)).1
  have hrwb : rwBios E b = .ok { b with elems := pre ++ .fv v1 :: post } := by
    simp only [rwBios, hdec, rwBiosElems_split E v v1 post hrw hqpost pre hqpre]
  have hrwt : rwTree E (.flash f) =
      .ok (.flash { f with regions := rpre ++ .bios { b with elems := pre ++ .fv v1 :: post } :: rpost }) := by
    simp only [rwTree, hregs, rwRegions_one E b _ rpost hrwb hrpost rpre hrpre]
  refine ⟨hrwt, ?_⟩
  have hr1 := Reach.edit E _ _ hE hr hkeep hrwt
  obtain ⟨i, _, hrep⟩ := reach_rep _ hr1
  obtain ⟨_, i', hw, _, hb, hpa, hav⟩ := asm_rep_tree _ i st t' st' hrep hp hf ha hg
  unfold asmTreeWith at ha
  simp only at ha
  split at ha
  · cases ha
  rename_i f' st1 hfl
  cases ha
  unfold asmFlash at hfl
  simp only at hfl
  split at hfl
  · cases hfl
  rename_i ifd hifd
  split at hfl
  · cases hfl
  rename_i rs st2 hrs
  obtain ⟨b', hab, hrs'⟩ := asmRegions_one Hooks.none _ rpost hrpost rpre st rs st2 hrpre hrs
  split at hfl
  · cases hfl
  rename_i bios0 tblrest htbl
  split at hfl
  · cases hfl
  split at hfl
  · cases hfl
  rename_i obuf ooff htile
  split at hfl
  · cases hfl
  cases hfl
  obtain ⟨b2, rpre2, rpost2, hmap, hel, hn1, hn2⟩ :=
    map_repoint_one ifd.region.regions ifd.map.numberOfRegions b' rpre rpost hrpre hrpost
  have hgood : GoodRegions (sortRegions (rs.map (repoint ifd.region.regions ifd.map.numberOfRegions))) := hg
  rw [hrs', hmap] at hgood
  have hgb2 : GoodElems b2.elems :=
    goodRegions_mem _ b2 hgood ((mem_sortRegions' _ _).mpr (List.mem_append_right _ List.mem_cons_self))
  -- inside the BIOS region
  unfold asmBios at hab
  simp only at hab
  split at hab
  · cases hab
  rename_i es' st3 hes
  split at hab
  · cases hab
  split at hab
  · cases hab
  split at hab
  · cases hab
  cases hab
  simp only at hel hgb2
  rw [hel] at hgb2
  obtain ⟨L, hP, hes'⟩ := asmElems_path v1 post P hv (fun u hu => (hq u (List.mem_append_right _ hu)).2) pre
    (fun u hu => (hq u (List.mem_append_left _ hu)).2) st es' st3 hp hf hes hgb2
  refine ⟨i', L, hw, hb, hpa, hP, ?_⟩
  rw [hav]
  simp only [avTree, hrs', hmap]
  rw [avRegions_sort_one b2 rpost2 hn2 rpre2 hn1, hel]
  exact hes'

end Fiano.Uefi.Exact
