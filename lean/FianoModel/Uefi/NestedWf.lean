/-
  Property C06 — what a save writes is inside the grammar again.

  `wf_norm`: for hooks whose codecs obey the decode-after-encode law (`CodecLaw`, with the tails each
  codec tolerates), the normal form `normFv h v` of a well-formed, rebuildable volume is well-formed —
  the re-encoded payloads decode where they land, every file sits where the placement rule puts it,
  sizes / block maps / header fields are in range — provided the *side conditions* `sideFv` hold of
  it.  These are the conditions that do not follow from the input and the laws:

    * a section that was not decodable is still not decodable in its new surroundings (the decoder
      sees the bytes behind the section, and those may have been rewritten);
    * every re-encoded section is followed by a tail its codec tolerates (`ok g tail`: always true for
      the LZMA family, "nothing" for ZLIB).

  (Follow-up wp-c06c: the former clauses on the saved volume itself are gone.  The grammar follows the
  repaired reader — /repo 8039e86 / cce350a: an erased tail of 24..31 bytes is free space, a file
  header may start exactly at Length-24 — so "ends in a readable tail" and "last file is not a bare
  header flush with the end" are no conditions any more; "length a multiple of 8 below 2^62" follows
  from the input's well-formedness when the volume keeps its length and is asked of the *grown*
  length by `okFv` (growth branch only) otherwise.)

  Core Lean only.
-/
import FianoModel.Uefi.NestedTop
import FianoModel.Uefi.NestedGrowth

namespace Fiano.Uefi.Nested
open Fiano Fiano.Uefi Fiano.Uefi.Spec

mutual
  def sideSec (h : Hooks) (ok : Guid → Bytes → Bool) : Bytes → CSec → Bool
    | _, .plain _ => true
    | tail, .opq ext g doff attrs comp body => wfSec h tail (.opq ext g doff attrs comp body)
    | tail, .comp _ g _ _ _ _ kids => ok g tail && sideSecs h ok 0 kids
    | _, .fvimg v => sideFv h ok v
  def sideSecs (h : Hooks) (ok : Guid → Bytes → Bool) : Nat → List CSec → Bool
    | _, [] => true
    | u, s :: ss =>
      sideSec h ok (serSecs (alignUp u 4 + sizeSec (flatSec s)) (flatSecs ss)) s &&
        sideSecs h ok (alignUp u 4 + sizeSec (flatSec s)) ss
  def sideFile (h : Hooks) (ok : Guid → Bytes → Bool) : CFile → Bool
    | .leaf _ => true
    | .sect _ _ _ _ secs => sideSecs h ok 0 secs
  def sideFiles (h : Hooks) (ok : Guid → Bytes → Bool) : List CFile → Bool
    | [] => true
    | f :: fs => sideFile h ok f && sideFiles h ok fs
  def sideFv (h : Hooks) (ok : Guid → Bytes → Bool) : CFv → Bool
    | .ffs _ _ _ _ _ _ _ files _ => sideFiles h ok files
    | .other _ => true
end

variable {h : Hooks} {ok : Guid → Bytes → Bool}

/-- the codecs of the hooks decode what they encode, in front of every tail `ok` admits -/
def LawsOK (h : Hooks) (ok : Guid → Bytes → Bool) : Prop :=
  ∀ g c, h.codec g = some c → CodecLaw c (fun t => ok g t = true)

/-! ### pad files and the re-laid file list -/

theorem wfFile_padLeaf (n : Nat) (h24 : 24 ≤ n) (hs : n < 0xFFFFFF) : wfFile h (.leaf (padLeaf n)) = true := by
  have hsz := sizeFile_padLeaf n h24
  have hck : (0 - sum8 (fileHdr guidFF 0 0 0xF0 0 false n 0)).toNat < 256 := UInt8.toNat_lt _
  simp only [wfFile, Bool.and_eq_true, decide_eq_true_eq, small, hsz]
  refine ⟨⟨⟨?_, rfl⟩, h24⟩, hs⟩
  simp only [padLeaf, Spec.wfFile, Bool.and_eq_true, decide_eq_true_eq, ffs, List.length_replicate,
    Bool.false_eq_true, if_false]
  have hsup : supportedFile 240 = false := by decide
  refine ⟨⟨⟨⟨⟨⟨⟨⟨by decide, hck⟩, by decide⟩, by decide⟩, by decide⟩, by decide⟩, ?_⟩, by decide⟩, by omega⟩
  simp [hsup]

/-- the re-laid list is laid out as the grammar wants it -/
theorem wfFiles_relay : ∀ (fs : List CFile) (off len : Nat),
    (∀ f ∈ fs, wfFile h f = true ∧ 24 ≤ sizeFile (flatFile f)) → okFv.padsSmall off fs = true →
    endFiles off (flatFiles (relay off fs)) ≤ len →
    wfFiles h off len (relay off fs) = true
  | [], _, _, _, _, _ => rfl
  | f :: fs, off, len, hall, hps, hend => by
    obtain ⟨hwf, h24⟩ := hall f (by simp)
    have hattr := storedAttrs_lt f hwf
    obtain ⟨s1, s2, s3, s4, _⟩ := fileStart_spec off (storedAttrs (flatFile f)) hattr
    simp only [okFv.padsSmall, small, Bool.and_eq_true, decide_eq_true_eq] at hps
    obtain ⟨hpad, hps'⟩ := hps
    have hrest : ∀ g ∈ fs, wfFile h g = true ∧ 24 ≤ sizeFile (flatFile g) := fun g hg => hall g (by simp [hg])
    have hn8 := alignUp_of_mod8 _ s2
    -- the tail of the list, from where `f` ends
    have key : ∀ (_ : endFiles (fileStart off (storedAttrs (flatFile f)) + sizeFile (flatFile f))
          (flatFiles (relay (fileStart off (storedAttrs (flatFile f)) + sizeFile (flatFile f)) fs)) ≤ len),
        fileStart off (storedAttrs (flatFile f)) + sizeFile (flatFile f) ≤ len ∧
        wfFiles h (fileStart off (storedAttrs (flatFile f))) len
          (f :: relay (fileStart off (storedAttrs (flatFile f)) + sizeFile (flatFile f)) fs) = true := by
      intro hend'
      have hge := endFiles_ge (flatFiles (relay (fileStart off (storedAttrs (flatFile f)) + sizeFile (flatFile f)) fs))
        (fileStart off (storedAttrs (flatFile f)) + sizeFile (flatFile f))
      have ih : wfFiles h (fileStart off (storedAttrs (flatFile f)) + sizeFile (flatFile f)) len
          (relay (fileStart off (storedAttrs (flatFile f)) + sizeFile (flatFile f)) fs) = true :=
        wfFiles_relay fs _ len hrest hps' hend'
      refine ⟨by omega, ?_⟩
      simp only [wfFiles, Bool.and_eq_true, decide_eq_true_eq, beq_iff_eq, hn8]
      exact ⟨⟨⟨⟨hwf, by omega⟩, by omega⟩, s3⟩, ih⟩
    rw [relay_cons] at hend ⊢
    by_cases hc : fileStart off (storedAttrs (flatFile f)) = alignUp off 8
    · rw [if_pos hc, List.nil_append] at hend ⊢
      simp only [flatFiles, endFiles, ← hc] at hend
      have := (key hend).2
      simp only [wfFiles, Bool.and_eq_true, decide_eq_true_eq, beq_iff_eq, hn8] at this
      simp only [wfFiles, Bool.and_eq_true, decide_eq_true_eq, beq_iff_eq, ← hc]
      exact this
    · rw [if_neg hc] at hend ⊢
      have hgap : 24 ≤ fileStart off (storedAttrs (flatFile f)) - alignUp off 8 := by omega
      have hpsz := sizeFile_padLeaf _ hgap
      have hpos : alignUp off 8 + (fileStart off (storedAttrs (flatFile f)) - alignUp off 8) =
          fileStart off (storedAttrs (flatFile f)) := by omega
      simp only [List.singleton_append, flatFiles, flatFile, endFiles, hpsz, hpos, hn8] at hend
      obtain ⟨hfit, hk⟩ := key hend
      have hwp : wfFile h (.leaf (padLeaf (fileStart off (storedAttrs (flatFile f)) - alignUp off 8))) = true :=
        wfFile_padLeaf _ hgap hpad
      have hattr0 : storedAttrs (padLeaf (fileStart off (storedAttrs (flatFile f)) - alignUp off 8)) = 0 := rfl
      simp only [List.singleton_append]
      rw [wfFiles]
      simp only [Bool.and_eq_true, decide_eq_true_eq, beq_iff_eq, flatFile, hpsz, hpos, hattr0]
      refine ⟨⟨⟨⟨hwp, by omega⟩, by omega⟩, ?_⟩, hk⟩
      have : alignmentOf 0 = 1 := by decide
      rw [this]; exact Nat.mod_one _

theorem sideFiles_relay : ∀ (fs : List CFile) (off : Nat), sideFiles h ok (relay off fs) = sideFiles h ok fs
  | [], _ => rfl
  | f :: fs, off => by
    rw [relay_cons]
    split <;> simp [sideFiles, sideFile, sideFiles_relay fs]

theorem wfFile_size24 (f : CFile) (hw : wfFile h f = true) : 24 ≤ sizeFile (flatFile f) := by
  cases f with
  | leaf f =>
    simp only [wfFile, Bool.and_eq_true, decide_eq_true_eq] at hw
    exact hw.1.2
  | sect g t a st secs =>
    simp only [flatFile, sizeFile]
    split <;> omega

theorem wfFv_ffs_intro {zv : Bytes} {v3 : Bool} {attrs rev rsv : Nat} {blocks : List Block} {ext : Option ExtI}
    {files : List CFile} {free : Nat}
    (w : NestedBase.WfHdr zv v3 attrs rev rsv blocks ext (flatFiles files) free)
    (hf : wfFiles h (preLen blocks ext) (endFiles (preLen blocks ext) (flatFiles files) + free) files = true) :
    wfFv h (.ffs zv v3 attrs rev rsv blocks ext files free) = true := by
  simp only [wfFv, Bool.and_eq_true, decide_eq_true_eq, beq_iff_eq, bne_iff_ne, Bool.or_eq_true,
    List.isEmpty_iff, Bool.not_eq_true', List.isEmpty_eq_false_iff]
  refine ⟨⟨⟨⟨⟨⟨⟨⟨⟨⟨⟨⟨w.hzv, w.hattrs⟩, w.hpol⟩, w.hrev⟩, w.hrsv⟩, w.hblocks⟩, w.hhdr⟩, ?_⟩, ?_⟩, w.hlen8⟩,
    w.hlenlt⟩, w.hlen64⟩, hf⟩
  · rcases w.hnb with h1 | h1
    · left; exact (flatFiles_nil_iff files).mp h1
    · right; exact h1
  · cases ext with
    | none => trivial
    | some e =>
      obtain ⟨a, b, c, d⟩ := w.hext e rfl
      simp only [Bool.and_eq_true, decide_eq_true_eq, beq_iff_eq]
      exact ⟨⟨⟨a, b⟩, c⟩, d⟩

theorem blockOk_setCount (b0 : Block) (c : Nat) (hb : blockOk b0 = true) (hs : b0.size ≠ 0) :
    blockOk (setCount b0 (c % 4294967296)) = true := by
  simp only [blockOk, Bool.and_eq_true, decide_eq_true_eq, Bool.not_eq_true', Bool.and_eq_false_iff, beq_eq_false_iff_ne] at hb ⊢
  simp only [setCount]
  exact ⟨⟨Nat.mod_lt _ (by decide), hb.1.2⟩, Or.inr hs⟩

/-- the volume step: header fields, block map and file layout of a re-laid volume are in range -/
theorem wfFv_relaid (zv : Bytes) (v3 : Bool) (attrs rev rsv : Nat) (blocks : List Block) (ext : Option ExtI)
    (files gs : List CFile) (free l e' : Nat)
    (w : NestedBase.WfHdr zv v3 attrs rev rsv blocks ext (flatFiles files) free)
    (hl : l = endFiles (preLen blocks ext) (flatFiles files) + free)
    (he' : e' = endFiles (preLen blocks ext) (flatFiles (relay (preLen blocks ext) gs)))
    (hall : ∀ f ∈ gs, wfFile h f = true)
    (hnil : files = [] → gs = [])
    (hps : okFv.padsSmall (preLen blocks ext) gs = true)
    (hfit : e' ≤ l ∨ ∃ b0 bs, blocks = b0 :: bs ∧ b0.size ≠ 0 ∧ e' ≤ alignGo e' b0.size)
    (h8 : (finishLen l e' blocks).1 % 8 = 0) (h62 : (finishLen l e' blocks).1 < 0x4000000000000000) :
    wfFv h (.ffs zv v3 attrs rev rsv (finishLen l e' blocks).2 ext (relay (preLen blocks ext) gs)
      ((finishLen l e' blocks).1 - e')) = true := by
  have hbl := finishLen_len l e' blocks
  have hpre := preLen_congr hbl ext
  have hge : e' ≤ (finishLen l e' blocks).1 := finishLen_ge l e' blocks (by
    rcases hfit with hf | ⟨b0, bs, hb, _, hf⟩
    · exact Or.inl hf
    · exact Or.inr ⟨b0, bs, hb, hf⟩)
  have hLen : endFiles (preLen (finishLen l e' blocks).2 ext) (flatFiles (relay (preLen blocks ext) gs)) +
      ((finishLen l e' blocks).1 - e') = (finishLen l e' blocks).1 := by rw [hpre, ← he']; omega
  -- the volume does not shrink; its block map stays in range
  have hL : l ≤ (finishLen l e' blocks).1 ∧ (finishLen l e' blocks).2.all blockOk = true := by
    by_cases hc : e' ≤ l
    · rw [finishLen_keep l e' blocks hc]; exact ⟨Nat.le_refl _, w.hblocks⟩
    · rcases hfit with hf | ⟨b0, bs, hb, hsz, hf⟩
      · exact absurd hf hc
      · subst hb
        rw [finishLen_grow l e' b0 bs (by omega)]
        have hb := w.hblocks
        simp only [List.all_cons, Bool.and_eq_true] at hb ⊢
        exact ⟨by show l ≤ alignGo e' b0.size; omega, blockOk_setCount b0 _ hb.1 hsz, hb.2⟩
  have hl64 := w.hlen64
  apply wfFv_ffs_intro
  · refine ⟨w.hzv, w.hattrs, w.hpol, w.hrev, w.hrsv, hL.2, by rw [fvHdrLen_congr hbl]; exact w.hhdr, ?_, ?_, ?_, ?_, ?_⟩
    · rcases w.hnb with h1 | h1
      · left
        have := hnil ((flatFiles_nil_iff files).mp h1)
        subst this
        rfl
      · right
        intro hc
        rw [hc] at hbl
        cases blocks with
        | nil => exact h1 rfl
        | cons a b => simp at hbl
    · intro e he
      obtain ⟨a, b, c, d⟩ := w.hext e he
      rw [ehoOf_congr hbl, hLen]
      exact ⟨a, b, c, by omega⟩
    · rw [hLen]; exact h8
    · rw [hLen]; exact h62
    · rw [hLen]; omega
  · rw [hLen, hpre]
    apply wfFiles_relay gs _ _ (fun f hf => ⟨hall f hf, wfFile_size24 f (hall f hf)⟩) hps
    · rw [← he']; exact hge

/-! ### the normal form of a well-formed volume is well-formed -/

mutual
theorem wfn_sec (hlaw : LawsOK h ok) : ∀ (s : CSec) (tail tail' : Bytes), wfSec h tail s = true → okSec h s = true →
    sideSec h ok tail' (normSec h s) = true → wfSec h tail' (normSec h s) = true
  | .plain s, _, _, hw, _, _ => by
    simp only [normSec]
    simp only [wfSec] at hw ⊢
    exact hw
  | .opq ext g doff attrs comp body, _, _, _, _, hs => by
    simp only [normSec, sideSec] at hs ⊢
    exact hs
  | .comp ext g doff attrs name payload kids, tail, tail', hw, hok, hs => by
    simp only [wfSec, Bool.and_eq_true, decide_eq_true_eq] at hw
    obtain ⟨⟨⟨⟨hgo, hne⟩, hcodec⟩, hkids⟩, _⟩ := hw
    have w := guidedOk_spec hgo
    simp only [okSec, Bool.and_eq_true, decide_eq_true_eq] at hok
    obtain ⟨⟨hk, henc⟩, hsz⟩ := hok
    cases he : encode? h g (serSecs 0 (flatSecs (normSecs h kids))) with
    | none => rw [he] at henc; simp at henc
    | some p =>
      simp only [he, small, decide_eq_true_eq] at henc
      simp only [normSec, he, Option.getD_some] at hs ⊢
      simp only [sideSec, Bool.and_eq_true] at hs
      obtain ⟨hokt, hsk⟩ := hs
      have ih := wfn_secs hlaw kids 0 0 hkids hk hsk
      cases hc : h.codec g with
      | none => rw [hc] at hcodec; simp at hcodec
      | some c =>
        simp only [hc, Bool.and_eq_true] at hcodec
        have hce : c.encode (serSecs 0 (flatSecs (normSecs h kids))) = some p := by
          simpa [encode?, hc] using he
        have hdec : c.decode (decoderInput false g 24 attrs p tail') = some (serSecs 0 (flatSecs (normSecs h kids))) := by
          rw [decoderInput_canon g attrs p tail' w.hg]
          exact hlaw g c hc _ p tail' hce hokt
        have g1 : guidedOk false g 24 attrs p.length tail'.length = true := by
          simp only [guidedOk, small, secHdrLen, Bool.and_eq_true, decide_eq_true_eq, beq_iff_eq, bne_iff_ne,
            Bool.false_eq_true, if_false]
          exact ⟨⟨⟨⟨⟨w.hg, by omega⟩, w.hattrs⟩, w.hbit⟩, by omega⟩, by omega⟩
        have g2 : (normSecs h kids).isEmpty = false := by
          cases kids with
          | nil => simp at hne
          | cons a b => simp [normSecs]
        have g5 : decide (sizeSecs 0 (flatSecs (normSecs h kids)) < 2 ^ 62) = true := by simpa using hsz
        simp only [wfSec, hc, g1, g2, hcodec.1, hdec, ih, g5, Bool.not_false, Bool.and_self, beq_self_eq_true]
  | .fvimg v, _, _, hw, hok, hs => by
    simp only [wfSec, Bool.and_eq_true] at hw
    simp only [okSec, Bool.and_eq_true] at hok
    simp only [normSec, sideSec] at hs
    simp only [normSec, wfSec, Bool.and_eq_true]
    exact ⟨wfn_fv hlaw v true hw.1 hok.1 hs, hok.2⟩
theorem wfn_secs (hlaw : LawsOK h ok) : ∀ (ss : List CSec) (u u' : Nat), wfSecs h u ss = true → okSecs h ss = true →
    sideSecs h ok u' (normSecs h ss) = true → wfSecs h u' (normSecs h ss) = true
  | [], _, _, _, _, _ => rfl
  | s :: ss, u, u', hw, hok, hs => by
    have ⟨h1, h2⟩ := wfSecs_cons hw
    simp only [okSecs, Bool.and_eq_true] at hok
    simp only [normSecs, sideSecs, Bool.and_eq_true] at hs
    simp only [normSecs, wfSecs, Bool.and_eq_true]
    exact ⟨wfn_sec hlaw s _ _ h1 hok.1 hs.1, wfn_secs hlaw ss _ _ h2 hok.2 hs.2⟩
theorem wfn_file (hlaw : LawsOK h ok) : ∀ (f : CFile), wfFile h f = true → okFile h f = true →
    sideFile h ok (normFile h f) = true → wfFile h (normFile h f) = true
  | .leaf f, hw, _, _ => by simpa [normFile] using hw
  | .sect g t a st secs, hw, hok, hs => by
    have w := wfFile_sect hw
    simp only [okFile, Bool.and_eq_true] at hok
    simp only [normFile, sideFile] at hs
    have ih := wfn_secs hlaw secs 0 0 w.hsecs hok.1 hs
    have g2 : (normSecs h secs).isEmpty = false := by
      cases secs with
      | nil => exact absurd rfl w.hne
      | cons a b => simp [normSecs]
    simp only [normFile, wfFile, ih, g2, hok.2, w.hsup, Bool.not_false, Bool.and_true, Bool.and_eq_true,
      decide_eq_true_eq, beq_iff_eq]
    exact ⟨⟨⟨w.hg, w.ht⟩, w.ha⟩, w.hst⟩
theorem wfn_files (hlaw : LawsOK h ok) : ∀ (fs : List CFile) (off len : Nat), wfFiles h off len fs = true →
    okFiles h fs = true → sideFiles h ok (normFiles h fs) = true → ∀ f ∈ normFiles h fs, wfFile h f = true
  | [], _, _, _, _, _ => by intro f hf; simp [normFiles] at hf
  | f :: fs, off, len, hw, hok, hs => by
    obtain ⟨hwf, _, _, _, hrest⟩ := wfFiles_cons hw
    simp only [okFiles, Bool.and_eq_true] at hok
    simp only [normFiles, sideFiles, Bool.and_eq_true] at hs
    intro x hx
    simp only [normFiles, List.mem_cons] at hx
    rcases hx with rfl | hx
    · exact wfn_file hlaw f hwf hok.1 hs.1
    · exact wfn_files hlaw fs _ len hrest hok.2 hs.2 x hx
theorem wfn_fv (hlaw : LawsOK h ok) : ∀ (v : CFv) (rz : Bool), wfFv h v = true → okFv h rz v = true →
    sideFv h ok (normFv h v) = true → wfFv h (normFv h v) = true
  | .other v, _, hw, _, _ => by simpa [normFv] using hw
  | .ffs zv v3 attrs rev rsv blocks ext files free, rz, hw, hok, hs => by
    have ⟨w, hfiles⟩ := wfFv_ffs hw
    simp only [okFv, Bool.and_eq_true, decide_eq_true_eq, Bool.or_eq_true] at hok
    obtain ⟨⟨⟨hokf, _⟩, hps⟩, hfit⟩ := hok
    simp only [normFv] at hs ⊢
    have hsf : sideFiles h ok (normFiles h files) = true := by
      have := hs
      simp only [sideFv] at this
      rw [← sideFiles_relay (normFiles h files) (preLen blocks ext)]
      exact this
    refine wfFv_relaid zv v3 attrs rev rsv blocks ext files (normFiles h files) free _ _ w rfl rfl
      (wfn_files hlaw files _ _ hfiles hokf hsf) (by intro hn; subst hn; rfl) hps ?_ ?_ ?_
    · rcases hfit with hf | hf
      · exact Or.inl hf
      · right
        cases blocks with
        | nil => simp at hf
        | cons b0 bs =>
          simp only [Bool.and_eq_true, bne_iff_ne, ne_eq, decide_eq_true_eq] at hf
          exact ⟨b0, bs, rfl, hf.2.1.1.1, hf.2.1.1.2⟩
    · -- the new length is a multiple of 8: kept, or the grown length `okFv` asks this of
      by_cases hc : endFiles (preLen blocks ext) (flatFiles (relay (preLen blocks ext) (normFiles h files))) ≤
          endFiles (preLen blocks ext) (flatFiles files) + free
      · rw [finishLen_keep _ _ blocks hc]; exact w.hlen8
      · rcases hfit with hf | hf
        · exact absurd hf hc
        · cases blocks with
          | nil => simp at hf
          | cons b0 bs =>
            simp only [Bool.and_eq_true, bne_iff_ne, ne_eq, decide_eq_true_eq] at hf
            rw [finishLen_grow _ _ b0 bs (by omega)]
            exact hf.2.1.2
    · by_cases hc : endFiles (preLen blocks ext) (flatFiles (relay (preLen blocks ext) (normFiles h files))) ≤
          endFiles (preLen blocks ext) (flatFiles files) + free
      · rw [finishLen_keep _ _ blocks hc]; exact w.hlenlt
      · rcases hfit with hf | hf
        · exact absurd hf hc
        · cases blocks with
          | nil => simp at hf
          | cons b0 bs =>
            simp only [Bool.and_eq_true, bne_iff_ne, ne_eq, decide_eq_true_eq] at hf
            rw [finishLen_grow _ _ b0 bs (by omega)]
            exact hf.2.2
end

/-- **the normal form is inside the grammar**: under the codec laws and the side conditions -/
theorem wf_norm (hlaw : LawsOK h ok) (v : CFv) (rz : Bool) (hw : WF h v) (hok : okFv h rz v = true)
    (hs : sideFv h ok (normFv h v) = true) : WF h (normFv h v) :=
  wfn_fv hlaw v rz hw hok hs

/-! ### the laws for the compressors of pkg/compression -/

/-- the tails the compressors tolerate behind their stream: ZLIB none (its size check sees them),
    the LZMA family any (the decoder stops at the announced size) -/
def okTails (g : Guid) (t : Bytes) : Bool := g != guidZLIB || t.isEmpty

theorem lawsOK_hooksOf (k : Cores) (hl : k.lzma.TailLawful) (hz : (Compress.zlib k.zlib).Lawful) :
    LawsOK (hooksOf k) okTails := by
  intro g c hc
  simp only [hooksOf, codecOf] at hc
  split at hc
  · cases hc
    intro x y tail he _
    exact ofCodec_tail _ _ hl x y tail he trivial
  · split at hc
    · cases hc
      intro x y tail he _
      exact ofCodec_tail _ _ (Compress.lzmax86_tailLawful _ hl) x y tail he trivial
    · split at hc
      · rename_i hg
        cases hc
        intro x y tail he ht
        subst hg
        have : tail = [] := by
          simp only [okTails, bne_self_eq_false, Bool.false_or, List.isEmpty_iff] at ht
          exact ht
        exact ofCodec_last _ _ hz x y tail he this
      · split at hc
        · cases hc
          intro x y tail he _
          simp [absent] at he
        · cases hc

end Fiano.Uefi.Nested
