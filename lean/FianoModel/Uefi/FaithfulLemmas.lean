/-
  Property C04 — proofs: every layer of the parser model yields a node that satisfies the
  corresponding clause of `Faithful` (section → file → volume → BIOS region → flash).

  The six mutually recursive parser functions take a recursion budget; the layer statements
  `PSec … PFv` are proved simultaneously for every budget by induction on it (`layers`), each
  step lemma using only the statements at the smaller budget — exactly the parser's own recursion.
-/
import FianoModel.Uefi.Faithful
import FianoModel.Base.ArithTie
namespace Fiano.Uefi
open Fiano

theorem align8_eq_up8 (v : Nat) (hv : v + 8 < 18446744073709551616) : align8 v = up8 v := by
  unfold align8 alignGo up8
  have h1 : (v + 8 + 18446744073709551615) % 18446744073709551616 = v + 7 := by omega
  have h2 : (18446744073709551616 - 8) % 18446744073709551616 = 2 ^ 64 - 2 ^ 3 := by decide
  rw [h1, h2, ArithTie.and_high_mask (v + 7) 3 (by omega) (by omega)]

theorem align4_eq_up4 (v : Nat) (hv : v + 4 < 18446744073709551616) : align4 v = up4 v := by
  unfold align4 alignGo up4
  have h1 : (v + 4 + 18446744073709551615) % 18446744073709551616 = v + 3 := by omega
  have h2 : (18446744073709551616 - 4) % 18446744073709551616 = 2 ^ 64 - 2 ^ 2 := by decide
  rw [h1, h2, ArithTie.and_high_mask (v + 3) 2 (by omega) (by omega)]

theorem GoLen.drop {b : Bytes} (n : Nat) (h : GoLen b) : GoLen (b.drop n) := by
  unfold GoLen at *; simp only [List.length_drop]; omega
theorem GoLen.take {b : Bytes} (n : Nat) (h : GoLen b) : GoLen (b.take n) := by
  unfold GoLen at *; simp only [List.length_take]; omega

def PSec (h : Hooks) (fuel : Nat) : Prop :=
  ∀ buf order st s st', GoLen buf → parseSection h fuel buf order st = .ok (s, st') →
    SecF h s buf ∧ s.info.fileOrder = order
def PEncap (h : Hooks) (fuel : Nat) : Prop :=
  ∀ enc off idx st ns st', GoLen enc → parseEncap h fuel enc off idx st = .ok (ns, st') →
    EncapAt h ns enc off idx
def PSecs (h : Hooks) (fuel : Nat) : Prop :=
  ∀ fbuf off ext idx st ss st', GoLen fbuf → ext = fbuf.length →
    parseSections h fuel fbuf off ext idx st = .ok (ss, st') → SecsAt h ss fbuf off idx
def PFile (h : Hooks) (fuel : Nat) : Prop :=
  ∀ buf st f st', GoLen buf → parseFile h fuel buf st = .ok (some f, st') → FileF h f buf
def PFiles (h : Hooks) (fuel : Nat) : Prop :=
  ∀ data off lh length st fs free st', GoLen data → length = data.length → lh + 24 = length →
    off < 9223372036854775808 →
    parseFiles h fuel data off lh length st = .ok (fs, free, st') → FilesAt h fs data off free
def PFv (h : Hooks) (fuel : Nat) : Prop :=
  ∀ data fvo rsz st v st', GoLen data → parseFv h fuel data fvo rsz st = .ok (v, st') →
    FvF h v data ∧ v.info.fvOffset = fvo ∧ v.info.resizable = rsz

theorem SecF.ext_le {h : Hooks} {s : Section} {ctx : Bytes} (hs : SecF h s ctx) :
    s.info.extSize ≤ ctx.length := by
  cases s with
  | mk i buf encap => unfold SecF at hs; exact hs.2.1

theorem secF_intro (h : Hooks) (i : SecInfo) (buf : Bytes) (encap : List Node)
    (hh : SecHeaderOk i buf) (hle : i.extSize ≤ buf.length) (hg : GuidDefOk i buf)
    (hl : LeafFieldsOk i (buf.take i.extSize))
    (hc : if i.type = 2 then
            encap = [] ∨
            ∃ g c enc, i.ts = some g ∧ h.codec g.guid = some c ∧ g.compression = c.name ∧
              g.dataOffset ≤ buf.length ∧ c.decode (buf.drop g.dataOffset) = some enc ∧
              EncapAt h encap enc 0 0
          else if i.type = 0x17 then NodesFv h encap ((buf.take i.extSize).drop (secHdrSize i))
          else encap = []) :
    SecF h (.mk i (buf.take i.extSize) encap) buf := by
  unfold SecF; exact ⟨hh, hle, rfl, hg, hl, hc⟩

theorem szr_ok (buf : Bytes) (ext hs : Nat)
    (hszr : (if knownSection (rd buf 3 1) = true then
      if rd buf 0 3 = 16777215 then
        if List.length buf < 8 then Except.error Err.err
        else if rd buf 4 4 = 4294967295 then Except.error Err.err else Except.ok (rd buf 4 4, 8)
      else Except.ok (rd buf 0 3, 4)
    else Except.ok (min (rd buf 0 3) (List.length buf), 4)) = (Except.ok (ext, hs) : Except Err (Nat × Nat))) :
    (if knownSection (rd buf 3 1) = true then
       (if rd buf 0 3 = 0xFFFFFF then 8 ≤ buf.length ∧ ext = rd buf 4 4 else ext = rd buf 0 3)
     else ext = min (rd buf 0 3) buf.length) ∧
    hs = (if knownSection (rd buf 3 1) = true ∧ rd buf 0 3 = 0xFFFFFF then 8 else 4) := by
  split at hszr
  · rename_i hk
    split at hszr
    · rename_i hf
      split at hszr
      · cases hszr
      · split at hszr
        · cases hszr
        · cases hszr
          simp only [hk, hf, if_true, and_self]
          exact ⟨⟨by omega, trivial⟩, trivial⟩
    · rename_i hf
      cases hszr
      simp [hk, hf]
  · rename_i hk
    cases hszr
    simp [hk]


theorem secHeader_ok (buf : Bytes) (size3 type ext hs : Nat)
    (hsh : secHeader buf = .ok (size3, type, ext, hs)) :
    4 ≤ buf.length ∧ size3 = rd buf 0 3 ∧ type = rd buf 3 1 ∧ ext ≤ buf.length ∧
    (if knownSection (rd buf 3 1) = true then
       (if rd buf 0 3 = 0xFFFFFF then 8 ≤ buf.length ∧ ext = rd buf 4 4 else ext = rd buf 0 3)
     else ext = min (rd buf 0 3) buf.length) ∧
    hs = (if knownSection (rd buf 3 1) = true ∧ rd buf 0 3 = 0xFFFFFF then 8 else 4) := by
  unfold secHeader at hsh
  split at hsh
  · cases hsh
  · rename_i h4
    simp only [] at hsh
    split at hsh
    · cases hsh
    · rename_i ext' hs' hszr
      obtain ⟨hext, hhs⟩ := szr_ok buf ext' hs' hszr
      split at hsh
      · cases hsh
      · rename_i hle
        cases hsh
        exact ⟨by omega, rfl, rfl, by omega, hext, hhs⟩

theorem sec_step (h : Hooks) (hb : h.BoundedCodecs) (fuel : Nat) (hE : PEncap h fuel) (hV : PFv h fuel) :
    PSec h (fuel + 1) := by
  intro buf order st s st' hlen hp
  rw [parseSection] at hp
  split at hp
  · cases hp
  · rename_i size3 type ext hs hsh
    obtain ⟨h4, e1, e2, hle', hext, hhs⟩ := secHeader_ok buf size3 type ext hs hsh
    subst e1 e2
    simp only [] at hp
    -- facts shared by every branch
    have hH : ∀ i : SecInfo, i.size3 = rd buf 0 3 → i.type = rd buf 3 1 → i.extSize = ext →
        SecHeaderOk i buf ∧ secHdrSize i = hs := by
      intro i h1 h2 h3
      unfold SecHeaderOk secHdrSize
      rw [h1, h2, h3, hhs]
      exact ⟨⟨by omega, rfl, rfl, hext⟩, rfl⟩
    -- closing a branch: the result is `mkSection i (take ext buf) ch`
    have fin : ∀ (i : SecInfo) (ch : List Node), i.size3 = rd buf 0 3 → i.type = rd buf 3 1 →
        i.extSize = ext → i.fileOrder = order → GuidDefOk i buf → LeafFieldsOk i (buf.take ext) →
        (if i.type = 2 then
          ch = [] ∨
          ∃ g c enc, i.ts = some g ∧ h.codec g.guid = some c ∧ g.compression = c.name ∧
            g.dataOffset ≤ buf.length ∧ c.decode (buf.drop g.dataOffset) = some enc ∧
            EncapAt h ch enc 0 0
        else if i.type = 0x17 then NodesFv h ch ((buf.take ext).drop hs)
        else ch = []) →
        SecF h (mkSection i (buf.take ext) ch) buf ∧ (mkSection i (buf.take ext) ch).info.fileOrder = order := by
      intro i ch h1 h2 h3 h5 hg hl hc
      obtain ⟨hho, hhs'⟩ := hH i h1 h2 h3
      refine ⟨?_, h5⟩
      have := secF_intro h i buf ch hho (by omega) hg (by rw [h3]; exact hl) (by rw [h3, hhs']; exact hc)
      rw [h3] at this
      exact this
    split at hp
    · -- GUID-defined
      rename_i hty
      split at hp
      · cases hp
      · rename_i h20
        have hgd : ∀ (i : SecInfo) (comp : String), i.size3 = rd buf 0 3 → i.type = rd buf 3 1 → i.extSize = ext →
            i.ts = some ⟨slice buf hs 16, rd buf (hs + 16) 2, rd buf (hs + 18) 2, comp⟩ → GuidDefOk i buf := by
          intro i comp h1 h2 h3 hts
          obtain ⟨_, hhs'⟩ := hH i h1 h2 h3
          unfold GuidDefOk
          rw [hhs', h2]
          simp only [hty, if_true]
          exact ⟨_, hts, by omega, rfl, rfl, rfl⟩
        have hlf : ∀ i : SecInfo, i.type = rd buf 3 1 → LeafFieldsOk i (buf.take ext) := by
          intro i hi
          unfold LeafFieldsOk
          rw [hi, hty]
          simp [isDepexType]
        split at hp
        · split at hp
          · rename_i c hc
            split at hp
            · cases hp
            · rename_i hdo
              split at hp
              · rename_i enc hdec
                split at hp
                · cases hp
                · rename_i ns st1 hpe
                  cases hp
                  apply fin _ _ rfl rfl rfl rfl (hgd _ _ rfl rfl rfl rfl) (hlf _ rfl)
                  simp only [hty, if_true]
                  right
                  exact ⟨_, c, enc, rfl, hc, rfl, by simpa using hdo, hdec,
                    hE enc 0 0 st _ _ (hb _ c _ enc hc hdec) hpe⟩
              · cases hp
                apply fin _ _ rfl rfl rfl rfl (hgd _ _ rfl rfl rfl rfl) (hlf _ rfl)
                simp [hty]
          · cases hp
            apply fin _ _ rfl rfl rfl rfl (hgd _ _ rfl rfl rfl rfl) (hlf _ rfl)
            simp [hty]
        · cases hp
          apply fin _ _ rfl rfl rfl rfl (hgd _ _ rfl rfl rfl rfl) (hlf _ rfl)
          simp [hty]
    · rename_i hty
      have hgd : ∀ i : SecInfo, i.type = rd buf 3 1 → i.ts = none → GuidDefOk i buf := by
        intro i hi hts
        unfold GuidDefOk
        rw [hi]
        simp only [hty, if_false]
        exact hts
      have hle2 : (buf.take ext).length = ext := by simp only [List.length_take]; omega
      have hlf : ∀ i : SecInfo, i.size3 = rd buf 0 3 → i.type = rd buf 3 1 → i.extSize = ext →
          (rd buf 3 1 = 0x15 → hs < (buf.take ext).length ∧ i.name = ucs2ToUtf8 ((buf.take ext).drop hs)) →
          (rd buf 3 1 = 0x14 → hs + 2 < (buf.take ext).length ∧ i.build = rd (buf.take ext) hs 2 ∧
            i.version = ucs2ToUtf8 ((buf.take ext).drop (hs + 2))) →
          (isDepexType (rd buf 3 1) = true → hs < (buf.take ext).length ∧
            i.depex = (parseDepEx ((buf.take ext).drop hs)).getD []) →
          LeafFieldsOk i (buf.take ext) := by
        intro i h1 h2 h3 ha hb' hc
        obtain ⟨_, hhs'⟩ := hH i h1 h2 h3
        unfold LeafFieldsOk
        rw [hhs', h2]
        exact ⟨ha, hb', hc⟩
      split at hp
      · -- UI
        rename_i hty2
        split at hp
        · cases hp
        · rename_i hlen2
          cases hp
          apply fin _ _ rfl rfl rfl rfl (hgd _ rfl rfl)
          · apply hlf _ rfl rfl rfl
            · intro _; exact ⟨by omega, rfl⟩
            · intro hx; omega
            · intro hx; rw [hty2] at hx; simp [isDepexType] at hx
          · simp [hty2]
      · rename_i hty2
        split at hp
        · -- version
          rename_i hty3
          split at hp
          · cases hp
          · rename_i hlen2
            cases hp
            apply fin _ _ rfl rfl rfl rfl (hgd _ rfl rfl)
            · apply hlf _ rfl rfl rfl
              · intro hx; omega
              · intro _; exact ⟨by omega, rfl, rfl⟩
              · intro hx; rw [hty3] at hx; simp [isDepexType] at hx
            · simp [hty3]
        · rename_i hty3
          split at hp
          · -- volume image
            rename_i hty4
            split at hp
            · cases hp
            · rename_i hlen2
              split at hp
              · cases hp
              · rename_i fv st1 hpv
                cases hp
                apply fin _ _ rfl rfl rfl rfl (hgd _ rfl rfl)
                · apply hlf _ rfl rfl rfl
                  · intro hx; omega
                  · intro hx; omega
                  · intro hx; rw [hty4] at hx; simp [isDepexType] at hx
                · simp only [hty4]
                  simp only [NodesFv]
                  exact hV _ 0 true st _ _ ((hlen.take ext).drop hs) hpv
          · rename_i hty4
            split at hp
            · -- depex
              rename_i hty5
              split at hp
              · cases hp
              · rename_i hlen2
                split at hp
                · rename_i ops hops
                  cases hp
                  apply fin _ _ rfl rfl rfl rfl (hgd _ rfl rfl)
                  · apply hlf _ rfl rfl rfl
                    · intro hx; omega
                    · intro hx; omega
                    · intro _; exact ⟨by omega, by simp [hops]⟩
                  · simp [hty, hty4]
                · rename_i hops
                  cases hp
                  apply fin _ _ rfl rfl rfl rfl (hgd _ rfl rfl)
                  · apply hlf _ rfl rfl rfl
                    · intro hx; omega
                    · intro hx; omega
                    · intro _; exact ⟨by omega, by simp [hops]⟩
                  · simp [hty, hty4]
            · rename_i hty5
              cases hp
              apply fin _ _ rfl rfl rfl rfl (hgd _ rfl rfl)
              · apply hlf _ rfl rfl rfl
                · intro hx; omega
                · intro hx; omega
                · intro hx; exact absurd hx hty5
              · simp [hty, hty4]

theorem encap_step (h : Hooks) (fuel : Nat) (hS : PSec h fuel) (hE : PEncap h fuel) : PEncap h (fuel + 1) := by
  intro enc off idx st ns st' hlen hp
  rw [parseEncap] at hp
  split at hp
  · rename_i hlt
    split at hp
    · cases hp
    · rename_i s st1 hps
      split at hp
      · cases hp
      · rename_i hz
        split at hp
        · cases hp
        · rename_i ns' st2 hpe
          cases hp
          obtain ⟨hsf, hord⟩ := hS _ _ _ _ _ (hlen.drop off) hps
          have hle := hsf.ext_le
          simp only [List.length_drop] at hle
          have hg : enc.length < 9223372036854775808 := hlen
          rw [align4_eq_up4 _ (by omega)] at hpe
          simp only [EncapAt]
          exact ⟨hlt, hsf, hord, by omega, hE _ _ _ _ _ _ hlen hpe⟩
  · rename_i hge
    cases hp
    simp only [EncapAt]
    omega

theorem secs_step (h : Hooks) (fuel : Nat) (hS : PSec h fuel) (hSs : PSecs h fuel) : PSecs h (fuel + 1) := by
  intro fbuf off ext idx st ss st' hlen hext hp
  rw [parseSections] at hp
  split at hp
  · rename_i hlt
    split at hp
    · cases hp
    · rename_i s st1 hps
      split at hp
      · cases hp
      · rename_i hz
        split at hp
        · cases hp
        · rename_i ss' st2 hpe
          cases hp
          obtain ⟨hsf, hord⟩ := hS _ _ _ _ _ (hlen.drop off) hps
          have hle := hsf.ext_le
          simp only [List.length_drop] at hle
          have hg : fbuf.length < 9223372036854775808 := hlen
          rw [align4_eq_up4 _ (by omega)] at hpe
          simp only [SecsAt]
          exact ⟨by omega, hsf, hord, by omega, hSs _ _ _ _ _ _ _ hlen hext hpe⟩
  · rename_i hge
    cases hp
    simp only [SecsAt]
    omega
/-- `FileHeaderOk` only looks at these fields -/
theorem fileHeaderOk_congr (i j : FileInfo) (ctx : Bytes) (hh : FileHeaderOk i ctx)
    (h1 : j.guid = i.guid) (h2 : j.ckHeader = i.ckHeader) (h3 : j.ckFile = i.ckFile) (h4 : j.type = i.type)
    (h5 : j.attrs = i.attrs) (h6 : j.size3 = i.size3) (h7 : j.state = i.state) (h8 : j.extSize = i.extSize)
    (h9 : j.dataOffset = i.dataOffset) : FileHeaderOk j ctx := by
  unfold FileHeaderOk at *
  rw [h1, h2, h3, h4, h5, h6, h7, h8, h9]
  exact hh

theorem fileHeader_ok (buf : Bytes) (i : FileInfo) (hfh : fileHeader buf = .ok (some i)) :
    FileHeaderOk i buf ∧ i.extSize ≤ buf.length := by
  unfold fileHeader at hfh
  split at hfh
  · cases hfh
  · rename_i h24
    simp only [] at hfh
    split at hfh
    · cases hfh
    · cases hfh
    · rename_i j hhr
      split at hfh
      · cases hfh
      · rename_i hle
        cases hfh
        refine ⟨?_, by omega⟩
        split at hhr
        · rename_i hf
          split at hhr
          · split at hhr <;> cases hhr
          · rename_i h32
            split at hhr
            · cases hhr
            · cases hhr
              unfold FileHeaderOk
              simp only [hf, if_true, and_self, and_true, true_and]
              omega
        · rename_i hf
          cases hhr
          unfold FileHeaderOk
          simp only [hf, if_false, and_self, and_true]
          omega

namespace FaithfulAux
/-- an erased header is what `fileHeader` answers `none` on -/
theorem fileHeader_none (buf : Bytes) (hfh : fileHeader buf = .ok none) : FreeHeader buf := by
  unfold fileHeader at hfh
  split at hfh
  · cases hfh
  · rename_i h24
    simp only [] at hfh
    split at hfh
    · cases hfh
    · rename_i hhr
      unfold FreeHeader
      refine ⟨by omega, ?_⟩
      split at hhr
      · rename_i hf
        refine ⟨hf, ?_⟩
        split at hhr
        · rename_i h32
          rw [if_pos h32]
          split at hhr
          · assumption
          · cases hhr
        · rename_i h32
          rw [if_neg h32]
          split at hhr
          · assumption
          · cases hhr
      · cases hhr
    · rename_i j hhr
      split at hfh <;> cases hfh

theorem parseFile_none (h : Hooks) (fuel : Nat) (buf : Bytes) (st st' : St)
    (hp : parseFile h fuel buf st = .ok (none, st')) : fileHeader buf = .ok none := by
  cases fuel with
  | zero => rw [parseFile] at hp; cases hp
  | succ fuel =>
    rw [parseFile] at hp
    split at hp
    · cases hp
    · assumption
    · simp only [] at hp
      split at hp
      · cases hp
      · split at hp
        · cases hp
        · split at hp <;> cases hp

theorem nvFileOk_intro (h : Hooks) (i : FileInfo) (fbuf : Bytes) (nvs : Option NvStore)
    (hnv : (if i.type = 1 ∧ i.guid = guidNVAR then
              if i.dataOffset ≥ fbuf.length then Except.error Err.err else Except.ok (h.nvarParse (fbuf.drop i.dataOffset))
            else Except.ok none) = Except.ok nvs) :
    NvFileOk h { i with nvar := nvs } fbuf := by
  unfold NvFileOk
  simp only []
  split at hnv
  · rename_i hc
    rw [if_pos hc]
    split at hnv
    · cases hnv
    · rename_i hlt
      cases hnv
      exact ⟨by omega, rfl⟩
  · rename_i hc
    rw [if_neg hc]
    cases hnv; rfl

end FaithfulAux
open FaithfulAux

theorem file_step (h : Hooks) (fuel : Nat) (hSs : PSecs h fuel) : PFile h (fuel + 1) := by
  intro buf st f st' hlen hp
  rw [parseFile] at hp
  split at hp
  · cases hp
  · cases hp
  · rename_i i hfh
    obtain ⟨hho, hle'⟩ := fileHeader_ok buf i hfh
    have htl : (buf.take i.extSize).length = i.extSize := by simp only [List.length_take]; omega
    simp only [] at hp
    split at hp
    · cases hp
    · rename_i nvs hnv
      have hnvok := nvFileOk_intro h i (buf.take i.extSize) nvs hnv
      split at hp
      · rename_i hsup
        cases hp
        unfold FileF
        refine ⟨fileHeaderOk_congr i _ buf hho rfl rfl rfl rfl rfl rfl rfl rfl rfl, hle', rfl, hnvok, ?_⟩
        have hsup' : ¬ (supportedFile i.type = true) := hsup
        simp only []
        rw [if_neg hsup']
        trivial
      · rename_i hsup
        split at hp
        · cases hp
        · rename_i ss st1 hps
          cases hp
          unfold FileF
          refine ⟨fileHeaderOk_congr i _ buf hho rfl rfl rfl rfl rfl rfl rfl rfl rfl, hle', rfl, hnvok, ?_⟩
          have hsup' : supportedFile i.type = true := by
            have : ¬ ¬ (supportedFile i.type = true) := hsup
            exact Classical.not_not.mp this
          simp only []
          rw [if_pos hsup']
          exact hSs _ _ _ _ _ _ _ (hlen.take _) htl.symm hps

theorem FileF.ext_le {h : Hooks} {f : File} {ctx : Bytes} (hf : FileF h f ctx) :
    f.info.extSize ≤ ctx.length := by
  cases f with
  | mk i buf secs => unfold FileF at hf; exact hf.2.1

theorem files_step (h : Hooks) (fuel : Nat) (hF : PFile h fuel) (hFs : PFiles h fuel) : PFiles h (fuel + 1) := by
  intro data off lh length st fs free st' hlen hlength hlh hoff hp
  rw [parseFiles] at hp
  have hg : data.length < 9223372036854775808 := hlen
  split at hp
  · rename_i hlt
    simp only [] at hp
    rw [align8_eq_up8 _ (by omega)] at hp
    split at hp
    · cases hp
    · rename_i hin
      split at hp
      · cases hp
      · rename_i st1 hpf
        cases hp
        simp only [FilesAt]
        left
        exact ⟨by omega, fileHeader_none _ (parseFile_none _ _ _ _ _ hpf), hlength ▸ rfl⟩
      · rename_i f st1 hpf
        split at hp
        · cases hp
        · rename_i hz
          split at hp
          · cases hp
          · rename_i fs' free' st2 hpfs
            cases hp
            have hff := hF _ _ _ _ (hlen.drop _) hpf
            have hle := hff.ext_le
            simp only [List.length_drop] at hle
            simp only [FilesAt]
            exact ⟨by omega, hff, by omega, hFs _ _ _ _ _ _ _ _ hlen hlength hlh (by omega) hpfs⟩
  · rename_i hge
    cases hp
    simp only [FilesAt]
    unfold WalkEnd
    exact Or.inr ⟨rfl, by omega⟩
namespace FaithfulAux
theorem rd_lt (b : Bytes) (off len : Nat) : rd b off len < 256 ^ len := by
  unfold rd
  have h1 := fromLE_lt (slice b off len)
  have h2 : (slice b off len).length ≤ len := by simp [slice, List.length_take]; omega
  exact Nat.lt_of_lt_of_le h1 (Nat.pow_le_pow_right (by omega) h2)
end FaithfulAux
open FaithfulAux

namespace FaithfulAux
theorem rd_drop (b : Bytes) (n off len : Nat) : rd (b.drop n) off len = rd b (n + off) len := by
  unfold rd slice; rw [List.drop_drop]
end FaithfulAux
open FaithfulAux



theorem drop_eq_cons8 {d : Bytes} {off : Nat} {b0 b1 b2 b3 b4 b5 b6 b7 : UInt8} {rest : Bytes}
    (heq : d.drop off = b0 :: b1 :: b2 :: b3 :: b4 :: b5 :: b6 :: b7 :: rest) :
    off + 8 ≤ d.length ∧ rd d off 4 = fromLE [b0, b1, b2, b3] ∧ rd d (off + 4) 4 = fromLE [b4, b5, b6, b7] ∧
    d.drop (off + 8) = rest := by
  have hl := congrArg List.length heq
  simp only [List.length_drop, List.length_cons] at hl
  refine ⟨by omega, ?_, ?_, ?_⟩
  · unfold rd slice; rw [heq]; rfl
  · unfold rd slice; rw [← List.drop_drop, heq]; rfl
  · rw [← List.drop_drop, heq]; rfl

theorem readBlocks_at (bs : List Block) : ∀ (d : Bytes) (off : Nat),
    readBlocks (d.drop off) = .ok bs → BlocksAt bs d off := by
  induction bs with
  | nil =>
    intro d off hr
    unfold readBlocks at hr
    split at hr
    · rename_i b0 b1 b2 b3 b4 b5 b6 b7 rest heq
      obtain ⟨h1, h2, h3, _⟩ := drop_eq_cons8 heq
      simp only [] at hr
      split at hr
      · rename_i hz
        simp only [BlocksAt]
        exact ⟨h1, h2 ▸ hz.1, h3 ▸ hz.2⟩
      · split at hr <;> cases hr
    · cases hr
  | cons b bs ih =>
    intro d off hr
    unfold readBlocks at hr
    split at hr
    · rename_i b0 b1 b2 b3 b4 b5 b6 b7 rest heq
      obtain ⟨h1, h2, h3, h4⟩ := drop_eq_cons8 heq
      simp only [] at hr
      split at hr
      · cases hr
      · rename_i hnz
        split at hr
        · rename_i bs' hrest
          cases hr
          simp only [BlocksAt]
          rw [h2, h3]
          exact ⟨h1, rfl, rfl, hnz, ih d (off + 8) (h4 ▸ hrest)⟩
        · cases hr
    · cases hr


/-- the `FvInfo` that `parseFv` returns: the model's `fvInfoOf` with the free space filled in -/
def mkFvInfo (data : Bytes) (blocks : List Block) (fvOffset : Nat) (resizable : Bool) (free : Nat) : FvInfo :=
  { fvInfoOf data blocks fvOffset resizable with freeSpace := free }

theorem mkFvInfo_header (data : Bytes) (blocks : List Block) (fvo : Nat) (rsz : Bool) (free : Nat)
    (h64 : 64 ≤ data.length) (hbl : BlocksAt blocks data 56) :
    FvHeaderOk (mkFvInfo data blocks fvo rsz free) data := by
  have e2 := rd_lt data 52 2
  have e3 := rd_lt data 48 2
  have e4 := rd_lt data (rd data 52 2 + 16) 4
  unfold FvHeaderOk
  refine ⟨h64, rfl, rfl, rfl, rfl, rfl, rfl, rfl, rfl, rfl, hbl, ?_⟩
  by_cases hx : rd data 52 2 ≠ 0 ∧ rd data 32 8 ≥ 20 ∧ rd data 52 2 ≤ rd data 32 8 - 20
  · have hx' : fvHasExt (mkFvInfo data blocks fvo rsz free) := hx
    rw [if_pos hx']
    have hd : decide (rd data 52 2 ≠ 0 ∧ rd data 32 8 ≥ 20 ∧ rd data 52 2 ≤ rd data 32 8 - 20) = true :=
      decide_eq_true hx
    simp only [mkFvInfo, fvInfoOf, hd, if_true]
    refine ⟨trivial, trivial, ?_⟩
    rw [align8_eq_up8 _ (by omega)]
  · have hx' : ¬ fvHasExt (mkFvInfo data blocks fvo rsz free) := hx
    rw [if_neg hx']
    have hd : decide (rd data 52 2 ≠ 0 ∧ rd data 32 8 ≥ 20 ∧ rd data 52 2 ≤ rd data 32 8 - 20) = false :=
      decide_eq_false hx
    simp only [mkFvInfo, fvInfoOf, hd, Bool.false_eq_true, if_false]
    refine ⟨trivial, trivial, ?_⟩
    rw [align8_eq_up8 _ (by omega)]

theorem mkFvInfo_dataOffset_lt (data : Bytes) (blocks : List Block) (fvo : Nat) (rsz : Bool) (free : Nat)
    (h64 : 64 ≤ data.length) (hbl : BlocksAt blocks data 56) :
    (mkFvInfo data blocks fvo rsz free).dataOffset < 9223372036854775808 := by
  have e2 := rd_lt data 52 2
  have e3 := rd_lt data 48 2
  have hho := (mkFvInfo_header data blocks fvo rsz free h64 hbl).2.2.2.2.2.2.2.2.2.2.2
  split at hho
  · rw [hho.2.2]; unfold up8
    have : (mkFvInfo data blocks fvo rsz free).extHeaderOffset = rd data 52 2 := rfl
    have h5 : (mkFvInfo data blocks fvo rsz free).extHeaderSize < 4294967296 := by
      rw [hho.2.1]; exact rd_lt _ _ 4
    omega
  · rw [hho.2.2]; unfold up8
    have : (mkFvInfo data blocks fvo rsz free).headerLen = rd data 48 2 := rfl
    omega

theorem fv_step (h : Hooks) (fuel : Nat) (hFs : PFiles h fuel) : PFv h (fuel + 1) := by
  intro data fvo rsz st v st' hlen hp
  rw [parseFv] at hp
  split at hp
  · cases hp
  · rename_i h64
    split at hp
    · cases hp
    · rename_i blocks hbl
      simp only [] at hp
      split at hp
      · cases hp
      rename_i hbmap
      split at hp
      · cases hp
      · rename_i st1 hpol
        split at hp
        · cases hp
        · rename_i hle
          have hbl' := readBlocks_at blocks data 56 hbl
          have hlen0 : (fvInfoOf data blocks fvo rsz).length = rd data 32 8 := rfl
          have hle' : rd data 32 8 ≤ data.length := by omega
          split at hp
          · rename_i hg
            cases hp
            show FvF h (Fv.mk (mkFvInfo data blocks fvo rsz 0) _ []) data ∧ _
            refine ⟨?_, rfl, rfl⟩
            unfold FvF
            refine ⟨mkFvInfo_header data blocks fvo rsz 0 (by omega) hbl', hle', rfl, ?_⟩
            have : ¬ ((mkFvInfo data blocks fvo rsz 0).fsGuid = guidFFS2 ∨ (mkFvInfo data blocks fvo rsz 0).fsGuid = guidFFS3) := by
              intro hc; cases hc with
              | inl hc => exact hg.1 hc
              | inr hc => exact hg.2 hc
            rw [if_neg this]
            exact ⟨rfl, rfl⟩
          · rename_i hg
            split at hp
            · cases hp
            · rename_i fs free st2 hpf
              cases hp
              show FvF h (Fv.mk (mkFvInfo data blocks fvo rsz free) _ fs) data ∧ _
              refine ⟨?_, rfl, rfl⟩
              unfold FvF
              refine ⟨mkFvInfo_header data blocks fvo rsz free (by omega) hbl', hle', rfl, ?_⟩
              have : ((mkFvInfo data blocks fvo rsz free).fsGuid = guidFFS2 ∨ (mkFvInfo data blocks fvo rsz free).fsGuid = guidFFS3) := by
                show slice data 16 16 = guidFFS2 ∨ slice data 16 16 = guidFFS3
                by_cases h2 : slice data 16 16 = guidFFS2
                · exact Or.inl h2
                · by_cases h3 : slice data 16 16 = guidFFS3
                  · exact Or.inr h3
                  · exact absurd ⟨h2, h3⟩ hg
              rw [if_pos this]
              have hmap : 56 + 8 * (blocks.length + 1) ≤ rd data 32 8 := by
                have : ¬ (56 + 8 * (blocks.length + 1) > (fvInfoOf data blocks fvo rsz).length) := hbmap
                rw [hlen0] at this; omega
              have hL63 : rd data 32 8 < 9223372036854775808 := by
                have : data.length < 9223372036854775808 := hlen
                omega
              exact hFs _ _ _ _ _ _ _ _ (hlen.take _) (by simp only [List.length_take]; omega)
                (by rw [hlen0]; omega)
                (mkFvInfo_dataOffset_lt data blocks fvo rsz free (by omega) hbl') hpf

/-- **all six layer statements, for every recursion budget** -/
theorem layers (h : Hooks) (hb : h.BoundedCodecs) : ∀ fuel,
    PSec h fuel ∧ PEncap h fuel ∧ PSecs h fuel ∧ PFile h fuel ∧ PFiles h fuel ∧ PFv h fuel := by
  intro fuel
  induction fuel with
  | zero =>
    refine ⟨?_, ?_, ?_, ?_, ?_, ?_⟩
    · intro buf order st s st' _ hp; rw [parseSection] at hp; cases hp
    · intro enc off idx st ns st' _ hp; rw [parseEncap] at hp; cases hp
    · intro fbuf off ext idx st ss st' _ _ hp; rw [parseSections] at hp; cases hp
    · intro buf st f st' _ hp; rw [parseFile] at hp; cases hp
    · intro data off lh length st fs free st' _ _ _ _ hp; rw [parseFiles] at hp; cases hp
    · intro data fvo rsz st v st' _ hp; rw [parseFv] at hp; cases hp
  | succ n ih =>
    obtain ⟨hS, hE, hSs, hF, hFs, hV⟩ := ih
    exact ⟨sec_step h hb n hE hV, encap_step h n hS hE, secs_step h n hS hSs, file_step h n hSs,
      files_step h n hF hFs, fv_step h n hFs⟩

theorem scanSig_bound : ∀ (fuel o : Nat) (b : Bytes) (r : Nat),
    scanSig fuel o b = some r → o ≤ r ∧ (r - o) + 4 < b.length := by
  intro fuel
  induction fuel with
  | zero => intro o b r hs; rw [scanSig] at hs; cases hs
  | succ n ih =>
    intro o b r hs
    rw [scanSig] at hs
    split at hs
    · rename_i h4
      split at hs
      · cases hs; exact ⟨Nat.le_refl _, by omega⟩
      · have := ih _ _ _ hs
        simp only [List.length_drop] at this
        omega
    · cases hs

theorem findFvOffset_bound (data : Bytes) (off : Nat) (hf : findFvOffset data = some off) :
    off + 44 < data.length := by
  unfold findFvOffset at hf
  split at hf
  · cases hf
  · split at hf
    · rename_i o hs
      split at hf
      · cases hf
      · cases hf
        have := scanSig_bound _ _ _ _ hs
        simp only [List.length_drop] at this
        omega
    · cases hf

def PBios (h : Hooks) (fuel : Nat) : Prop :=
  ∀ buf abs st es st', GoLen buf → parseBiosElems h fuel buf abs st = .ok (es, st') → ElemsAt h es buf abs

theorem bios_elems (h : Hooks) (hb : h.BoundedCodecs) : ∀ fuel, PBios h fuel := by
  intro fuel
  induction fuel with
  | zero => intro buf abs st es st' _ hp; rw [parseBiosElems] at hp; cases hp
  | succ n ih =>
    intro buf abs st es st' hlen hp
    rw [parseBiosElems] at hp
    split at hp
    · rename_i hnone
      cases hp
      split
      · rename_i hne
        simp only [ElemsAt]
        refine ⟨trivial, ?_, Nat.le_refl _, by simp, by simp⟩
        intro hc; rw [hc] at hne; simp at hne
      · rename_i hne
        simp only [ElemsAt]
        have : buf.length = 0 := by simpa using hne
        exact List.eq_nil_of_length_eq_zero this
    · rename_i off hsome
      have hbound := findFvOffset_bound buf off hsome
      simp only [] at hp
      split at hp
      · cases hp
      · rename_i fv st1 hpv
        split at hp
        · cases hp
        · rename_i hz
          split at hp
          · cases hp
          · rename_i es' st2 hpe
            cases hp
            obtain ⟨hvf, hvo, hvr⟩ := (layers h hb n).2.2.2.2.2 _ _ _ _ _ _ (hlen.drop off) hpv
            have hrest := ih _ _ _ _ _ (hlen.drop _) hpe
            have hfv : ElemsAt h (BiosElem.fv fv :: es') (buf.drop off) (abs + off) := by
              simp only [ElemsAt]
              refine ⟨hvo, hvr, hvf, by omega, ?_⟩
              rw [List.drop_drop]
              have e : abs + off + fv.info.length = abs + off + fv.info.length := rfl
              exact hrest
            split
            · rename_i hpos
              simp only [List.cons_append, List.nil_append, ElemsAt]
              have hl : (buf.take off).length = off := by simp only [List.length_take]; omega
              refine ⟨trivial, ?_, by rw [hl]; omega, by rw [hl], by rw [hl]; exact hfv⟩
              intro hc; rw [hc] at hl; simp at hl; omega
            · rename_i hpos
              have : off = 0 := by omega
              subst this
              simpa using hfv
theorem bios_faithful (h : Hooks) (hb : h.BoundedCodecs) (fuel : Nat) (buf : Bytes) (fr : Option FlashRegion)
    (st : St) (b : BiosRegion) (st' : St) (hlen : GoLen buf)
    (hp : parseBios h fuel buf fr st = .ok (b, st')) : BiosF h b buf ∧ b.fr = fr ∧ b.buf = buf := by
  unfold parseBios at hp
  split at hp
  · cases hp
  · rename_i es st1 hpe
    cases hp
    exact ⟨⟨rfl, rfl, bios_elems h hb fuel _ _ _ _ _ hlen hpe⟩, rfl, rfl⟩

theorem decodeRegions_length : ∀ (n : Nat) (b : Bytes), (decodeRegions n b).length = n := by
  intro n; induction n with
  | zero => intro b; rfl
  | succ n ih => intro b; simp [decodeRegions, ih]

theorem decodeRegions_get : ∀ (n : Nat) (b : Bytes) (k : Nat), k < n →
    (decodeRegions n b)[k]? = some ⟨rd b (4 * k) 2, rd b (4 * k + 2) 2⟩ := by
  intro n; induction n with
  | zero => intro b k hk; omega
  | succ n ih =>
    intro b k hk
    cases k with
    | zero => simp [decodeRegions]
    | succ k =>
      simp only [decodeRegions, List.getElem?_cons_succ]
      rw [ih _ k (by omega), rd_drop, rd_drop]
      rw [show 4 + 4 * k = 4 * (k + 1) by omega, show 4 + (4 * k + 2) = 4 * (k + 1) + 2 by omega]

theorem decodePerms_length : ∀ (n : Nat) (b : Bytes), (decodePerms n b).length = n := by
  intro n; induction n with
  | zero => intro b; rfl
  | succ n ih => intro b; simp [decodePerms, ih]

theorem decodePerms_get : ∀ (n : Nat) (b : Bytes) (k : Nat), k < n →
    (decodePerms n b)[k]? = some (rd b (4 * k) 2, rd b (4 * k + 2) 1, rd b (4 * k + 3) 1) := by
  intro n; induction n with
  | zero => intro b k hk; omega
  | succ n ih =>
    intro b k hk
    cases k with
    | zero => simp [decodePerms]
    | succ k =>
      simp only [decodePerms, List.getElem?_cons_succ]
      rw [ih _ k (by omega), rd_drop, rd_drop, rd_drop]
      rw [show 4 + 4 * k = 4 * (k + 1) by omega, show 4 + (4 * k + 2) = 4 * (k + 1) + 2 by omega,
        show 4 + (4 * k + 3) = 4 * (k + 1) + 3 by omega]

theorem desc_faithful (dbuf : Bytes) (d : Descriptor) (hp : parseDescriptor dbuf = .ok d) : DescF d dbuf := by
  unfold parseDescriptor at hp
  split at hp
  · cases hp
  · rename_i hl
    have hl' : dbuf.length = 4096 := by omega
    split at hp
    · cases hp
    · rename_i ms hsig
      simp only [] at hp
      split at hp
      · cases hp
      · rename_i hrs
        cases hp
        unfold DescF
        refine ⟨rfl, hl', ?_, rfl, rfl, by simp only []; omega, rfl, rfl, ?_, ?_, ?_, ?_⟩
        · unfold findSignature at hsig
          split at hsig
          · cases hsig
          · split at hsig
            · rename_i h16; cases hsig; exact Or.inl ⟨rfl, h16⟩
            · split at hsig
              · rename_i h0; cases hsig; exact Or.inr ⟨rfl, h0⟩
              · cases hsig
        · exact decodeRegions_length _ _
        · intro k hk
          simp only []
          rw [decodeRegions_get _ _ k hk, rd_drop, rd_drop]
          generalize (DescMap.mk (List.map (fun x => x.toNat) (slice dbuf ms 16))).regionBase * 16 = rs
          rw [show rs + 4 + (4 * k + 2) = rs + 6 + 4 * k by omega]
        · exact decodePerms_length _ _
        · intro k hk
          simp only []
          rw [decodePerms_get _ _ k hk, rd_drop, rd_drop, rd_drop]
          generalize (DescMap.mk (List.map (fun x => x.toNat) (slice dbuf ms 16))).masterBase * 16 = mas
          rw [show mas + (4 * k + 2) = mas + 4 * k + 2 by omega, show mas + (4 * k + 3) = mas + 4 * k + 3 by omega]
/-- what `parseRegions` guarantees about each declared region, before sorting and gap filling -/
def RegOk (h : Hooks) (bs : Bytes) (tbl : List FlashRegion) (r : Region) : Prop :=
  ∃ fr, r.fr = some fr ∧ fr.base ≤ fr.limit ∧ fr.limit < 65535 ∧ fr.endOffset ≤ bs.length ∧
    r.buf = slice bs fr.baseOffset (fr.endOffset - fr.baseOffset) ∧ r.rtype ≠ -1 ∧
    tbl[r.rtype.toNat]? = some fr ∧ RegionInner h r

theorem valid_facts (fr : FlashRegion) (hv : fr.valid = true) (hl : fr.limit < 65536) :
    fr.base ≤ fr.limit ∧ fr.limit < 65535 := by
  unfold FlashRegion.valid at hv
  simp only [Bool.and_eq_true, decide_eq_true_eq, bne_iff_ne, ne_eq] at hv
  omega

theorem parseRegions_ok (h : Hooks) (hb : h.BoundedCodecs) (fuel : Nat) (bs : Bytes) (hlen : GoLen bs) (nr : Nat)
    (tbl : List FlashRegion) (htbl : ∀ fr ∈ tbl, fr.limit < 65536) :
    ∀ (frs : List FlashRegion) (i : Nat) (st : St) (rs : List Region) (st' : St), tbl.drop i = frs →
      parseRegions h fuel bs nr frs i st = .ok (rs, st') → ∀ r ∈ rs, RegOk h bs tbl r := by
  intro frs
  induction frs with
  | nil => intro i st rs st' _ hp; rw [parseRegions] at hp; cases hp; intro r hr; cases hr
  | cons fr frs ih =>
    intro i st rs st' hdrop hp
    have hget : tbl[i]? = some fr := by
      have := congrArg List.head? hdrop
      simpa [List.head?_drop] using this
    have hmem : fr ∈ tbl := List.mem_of_getElem? hget
    have hnext : tbl.drop (i + 1) = frs := by
      have := congrArg List.tail hdrop
      simpa [List.tail_drop] using this
    rw [parseRegions] at hp
    split at hp
    · cases hp; intro r hr; cases hr
    · split at hp
      · exact ih _ _ _ _ hnext hp
      · rename_i hok
        simp only [] at hp
        have hok' : fr.valid = true ∧ fr.baseOffset < bs.length ∧ fr.endOffset ≤ bs.length := by
          by_cases hv : fr.valid = true
          · refine ⟨hv, ?_, ?_⟩
            · apply Classical.byContradiction; intro hc; exact hok (Or.inr (Or.inl (by omega)))
            · apply Classical.byContradiction; intro hc; exact hok (Or.inr (Or.inr (by omega)))
          · exact absurd (Or.inl hv) hok
        obtain ⟨hv, hbo, heo⟩ := hok'
        obtain ⟨hbl, hl5⟩ := valid_facts fr hv (htbl fr hmem)
        split at hp
        · cases hp
        · rename_i r st1 hone
          split at hp
          · cases hp
          · rename_i rs' st2 hrest
            cases hp
            intro x hx
            cases hx with
            | tail _ hx => exact ih _ _ _ _ hnext hrest x hx
            | head =>
              split at hone
              · rename_i hi0
                split at hone
                · cases hone
                · rename_i b st3 hpb
                  cases hone
                  have hsl : GoLen (slice bs fr.baseOffset (fr.endOffset - fr.baseOffset)) := by
                    unfold slice; exact (hlen.drop _).take _
                  obtain ⟨hbf, hfr, hbuf⟩ := bios_faithful h hb fuel _ _ _ _ _ hsl hpb
                  refine ⟨fr, hfr, hbl, hl5, heo, hbuf, by simp [Region.rtype], ?_, ?_⟩
                  · subst hi0; exact hget
                  · show BiosF h b b.buf; rw [hbuf]; exact hbf
              · rename_i hi0
                split at hone
                · rename_i hi1
                  cases hone
                  refine ⟨fr, rfl, hbl, hl5, heo, rfl, by simp [Region.rtype], ?_, Me.me_faithful _⟩
                  subst hi1; exact hget
                · rename_i hi1
                  cases hone
                  refine ⟨fr, rfl, hbl, hl5, heo, rfl, ?_, ?_, trivial⟩
                  · simp only [Region.rtype]; omega
                  · simp only [Region.rtype, Int.toNat_natCast]; exact hget
namespace FaithfulAux
theorem mem_insertRegion (r x : Region) : ∀ xs : List Region, x ∈ insertRegion r xs → x = r ∨ x ∈ xs := by
  intro xs
  induction xs with
  | nil => intro hx; simp only [insertRegion, List.mem_singleton] at hx; exact Or.inl hx
  | cons y ys ih =>
    intro hx
    simp only [insertRegion] at hx
    split at hx
    · cases hx with
      | head => exact Or.inl rfl
      | tail _ hx => exact Or.inr hx
    · cases hx with
      | head => exact Or.inr (List.mem_cons_self)
      | tail _ hx =>
        cases ih hx with
        | inl h => exact Or.inl h
        | inr h => exact Or.inr (List.mem_cons_of_mem _ h)
end FaithfulAux
open FaithfulAux

namespace FaithfulAux
theorem mem_sortRegions (x : Region) : ∀ rs : List Region, x ∈ sortRegions rs → x ∈ rs := by
  intro rs
  induction rs with
  | nil => intro hx; exact hx
  | cons r rs ih =>
    intro hx
    have : sortRegions (r :: rs) = insertRegion r (sortRegions rs) := rfl
    rw [this] at hx
    cases mem_insertRegion r x _ hx with
    | inl h => rw [h]; exact List.mem_cons_self
    | inr h => exact List.mem_cons_of_mem _ (ih h)
end FaithfulAux
open FaithfulAux

/-- a gap region placed at a block boundary below 256 MiB reports its true start -/
theorem gap_base (off : Nat) (h1 : off % 4096 = 0) (h2 : off / 4096 < 65536) :
    (FlashRegion.mk (off / 4096 % 65536) 0).baseOffset = off := by
  unfold FlashRegion.baseOffset
  simp only []
  rw [Nat.mod_eq_of_lt h2]
  omega

theorem gap_regionF (h : Hooks) (bs : Bytes) (tbl : List FlashRegion) (off n lim : Nat)
    (hn : 0 < n) (hle : off + n ≤ bs.length) (h1 : off % 4096 = 0) (h2 : off / 4096 < 65536) :
    RegionF h bs tbl (Region.raw (slice bs off n) ⟨off / 4096 % 65536, lim⟩ (-1)) off ∧
    (Region.raw (slice bs off n) ⟨off / 4096 % 65536, lim⟩ (-1)).buf.length = n := by
  have hl : (slice bs off n).length = n := by
    simp [slice, List.length_take, List.length_drop]; omega
  refine ⟨?_, hl⟩
  simp only [RegionF, Region.buf, Region.fr, Region.rtype]
  rw [hl]
  refine ⟨?_, hle, rfl, ⟨_, rfl, ?_, by intro hc; exact absurd rfl hc⟩, trivial⟩
  · intro hc; rw [hc] at hl; simp at hl; omega
  · have := gap_base off h1 h2
    unfold FlashRegion.baseOffset at this ⊢
    exact this

theorem fillGaps_tiles (h : Hooks) (bs : Bytes) (tbl : List FlashRegion) :
    ∀ (rs : List Region) (off : Nat) (out : List Region), (∀ r ∈ rs, RegOk h bs tbl r) →
      off ≤ bs.length → off % 4096 = 0 → off / 4096 < 65536 →
      fillGaps bs bs.length rs off = .ok out → RegionsAt h bs tbl out off := by
  intro rs
  induction rs with
  | nil =>
    intro off out _ hle hm hd hp
    rw [fillGaps] at hp
    split at hp
    · rename_i hne
      cases hp
      obtain ⟨hg, hgl⟩ := gap_regionF h bs tbl off (bs.length - off) ((bs.length / 4096 % 65536 + 65535) % 65536)
        (by omega) (by omega) hm hd
      simp only [RegionsAt]
      rw [hgl]
      exact ⟨hg, by omega⟩
    · rename_i heq
      cases hp
      simp only [RegionsAt]
      exact Classical.not_not.mp heq
  | cons r rs ih =>
    intro off out hall hle hm hd hp
    rw [fillGaps] at hp
    obtain ⟨fr, hfr, hbl, hl5, heo, hbuf, hrt, htb, hbios⟩ := hall r List.mem_cons_self
    rw [hfr] at hp
    simp only [] at hp
    split at hp
    · cases hp
    · rename_i hge
      have hbo : fr.baseOffset = fr.base * 4096 := rfl
      have heo' : fr.endOffset = (fr.limit + 1) * 4096 := rfl
      split at hp
      · cases hp
      · rename_i out' hrec
        have hrest := ih fr.endOffset out' (fun x hx => hall x (List.mem_cons_of_mem _ hx)) heo
          (by rw [heo']; omega) (by rw [heo']; omega) hrec
        have hlr : r.buf.length = fr.endOffset - fr.baseOffset := by
          rw [hbuf]; simp [slice, List.length_take, List.length_drop]; omega
        have hRF : RegionF h bs tbl r fr.baseOffset := by
          unfold RegionF
          refine ⟨?_, by rw [hlr]; omega, by rw [hlr]; exact hbuf,
            ⟨fr, hfr, rfl, fun _ => ⟨by rw [hlr]; omega, htb⟩⟩, hbios⟩
          intro hc; rw [hc] at hlr; simp at hlr; omega
        have hnext : fr.baseOffset + r.buf.length = fr.endOffset := by rw [hlr]; omega
        split at hp
        · rename_i hgt
          cases hp
          obtain ⟨hg, hgl⟩ := gap_regionF h bs tbl off (fr.baseOffset - off)
            ((fr.baseOffset / 4096 % 65536 + 65535) % 65536) (by omega) (by omega) hm hd
          simp only [RegionsAt]
          rw [hgl]
          have e1 : off + (fr.baseOffset - off) = fr.baseOffset := by omega
          rw [e1, hnext]
          exact ⟨hg, hRF, hrest⟩
        · rename_i hngt
          cases hp
          have : fr.baseOffset = off := by omega
          simp only [RegionsAt]
          rw [← this]
          exact ⟨hRF, by rw [hnext]; exact hrest⟩
theorem decodeRegions_lt : ∀ (n : Nat) (b : Bytes) (fr : FlashRegion), fr ∈ decodeRegions n b → fr.limit < 65536 := by
  intro n; induction n with
  | zero => intro b fr hm; cases hm
  | succ n ih =>
    intro b fr hm
    simp only [decodeRegions] at hm
    cases hm with
    | head => exact rd_lt b 2 2
    | tail _ hm => exact ih _ _ hm

theorem desc_table (dbuf : Bytes) (d : Descriptor) (hp : parseDescriptor dbuf = .ok d) :
    ∀ fr ∈ d.region.regions, fr.limit < 65536 := by
  unfold parseDescriptor at hp
  split at hp
  · cases hp
  · split at hp
    · cases hp
    · simp only [] at hp
      split at hp
      · cases hp
      · cases hp
        intro fr hm
        exact decodeRegions_lt _ _ fr hm

theorem flash_faithful (h : Hooks) (hb : h.BoundedCodecs) (fuel : Nat) (bs : Bytes) (st : St) (f : Flash) (st' : St)
    (hlen : GoLen bs) (hp : parseFlash h fuel bs st = .ok (f, st')) : FlashF h f bs := by
  unfold parseFlash at hp
  split at hp
  · cases hp
  · rename_i h4096
    split at hp
    · cases hp
    · rename_i ifd hd
      split at hp
      · cases hp
      · rename_i bios rest htbl
        split at hp
        · cases hp
        · split at hp
          · cases hp
          · rename_i rs st1 hpr
            split at hp
            · cases hp
            · rename_i rs' hfill
              cases hp
              have hall := parseRegions_ok h hb fuel bs hlen ifd.map.numberOfRegions ifd.region.regions
                (desc_table _ _ hd) ifd.region.regions 0 st rs _ (by simp) hpr
              have hall' : ∀ r ∈ sortRegions rs, RegOk h bs ifd.region.regions r :=
                fun r hr => hall r (mem_sortRegions r rs hr)
              exact ⟨rfl, rfl, by omega, desc_faithful _ _ hd,
                fillGaps_tiles h bs _ _ 4096 _ hall' (by omega) (by decide) (by decide) hfill⟩

/-- **C04 on the model**: whatever `uefi.Parse` accepts, the tree is a faithful account of the input -/
theorem parseWith_faithful (h : Hooks) (hb : h.BoundedCodecs) (fuel : Nat) (bs : Bytes) (st : St) (t : Tree)
    (st' : St) (hlen : GoLen bs) (hp : parseWith h fuel bs st = .ok (t, st')) : Faithful h t bs := by
  unfold parseWith at hp
  split at hp
  · split at hp
    · cases hp
    · rename_i f st1 hpf
      cases hp
      exact flash_faithful h hb fuel bs st f _ hlen hpf
  · split at hp
    · cases hp
    · rename_i b st1 hpb
      cases hp
      obtain ⟨hbf, hfr, _⟩ := bios_faithful h hb fuel bs none st b _ hlen hpb
      exact ⟨hfr, hbf⟩

theorem parse_faithful' (h : Hooks) (hb : h.BoundedCodecs) (bs : Bytes) (t : Tree) (hlen : GoLen bs)
    (hp : parse h bs = .ok t) : Faithful h t bs := by
  unfold parse at hp
  split at hp
  · cases hp
  · rename_i t' st' hpw
    cases hp
    exact parseWith_faithful h hb _ bs _ _ _ hlen hpw
end Fiano.Uefi
