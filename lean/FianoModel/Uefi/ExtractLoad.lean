/-
  Lemmas for property C07: loading the directory `extract` wrote gives the tree `strip junk t`,
  provided every written file can be read back (which follows from the paths being distinct,
  `read_of_nodup`).
-/
import FianoModel.Uefi.Extract

namespace Fiano.Uefi
open Fiano

/-! ### reading back -/

theorem Dir.read_none_of_not_mem : ∀ (d : Dir) (q : Bytes), q ∉ d.map Prod.fst → d.read q = none
  | [], _, _ => rfl
  | (p, b) :: rest, q, h => by
    simp only [List.map_cons, List.mem_cons, not_or] at h
    simp [Dir.read, Dir.read_none_of_not_mem rest q h.2, Ne.symm h.1]

/-- when no path is written twice, every written file reads back as written -/
theorem Dir.read_of_nodup : ∀ (d : Dir) (p b : Bytes), (d.map Prod.fst).Nodup → (p, b) ∈ d → d.read p = some b
  | [], _, _, _, h => by simp at h
  | (p0, b0) :: rest, p, b, hn, hm => by
    simp only [List.map_cons, List.nodup_cons] at hn
    simp only [List.mem_cons, Prod.mk.injEq] at hm
    rcases hm with ⟨rfl, rfl⟩ | hm
    · simp [Dir.read, Dir.read_none_of_not_mem rest p hn.1]
    · simp [Dir.read, Dir.read_of_nodup rest p b hn.2 hm]

theorem joinPath_ne_nil : ∀ (l : List Comp), 2 ≤ l.length → joinPath l ≠ []
  | [], h => by simp at h
  | [_], h => by simp at h
  | c :: c2 :: cs, _ => by simp [joinPath]

theorem readBuf_leaf (d : Dir) (comps : List Comp) (b : Bytes) (hl : 2 ≤ comps.length)
    (hr : d.read (joinPath comps) = some b) : readBuf d (joinPath comps) = .ok b := by
  have hne := joinPath_ne_nil comps hl
  unfold readBuf
  cases hj : joinPath comps with
  | nil => exact absurd hj hne
  | cons x xs => simp [← hj, hr]

/-- every written entry reads back -/
def Readable (d : Dir) (es : List Entry) : Prop := ∀ e ∈ es, d.read (joinPath e.1) = some e.2

theorem Readable.append_left {d : Dir} {a b : List Entry} (h : Readable d (a ++ b)) : Readable d a :=
  fun e he => h e (List.mem_append_left b he)
theorem Readable.append_right {d : Dir} {a b : List Entry} (h : Readable d (a ++ b)) : Readable d b :=
  fun e he => h e (List.mem_append_right a he)
theorem Readable.head {d : Dir} {e : Entry} {b : List Entry} (h : Readable d (e :: b)) :
    d.read (joinPath e.1) = some e.2 := h e (List.mem_cons_self ..)
theorem Readable.tail {d : Dir} {e : Entry} {b : List Entry} (h : Readable d (e :: b)) : Readable d b :=
  fun x hx => h x (List.mem_cons_of_mem _ hx)

/-! ### the volume / file / section layers -/

mutual
theorem pdSection_ex (d : Dir) (junk : FileInfo → Nat) : ∀ (dir : List Comp) (idx : Nat) (s : Section),
    Readable d (exSection dir idx s) → pdSection d junk (smSection dir idx s) = .ok (stSection junk s)
  | dir, idx, .mk i buf [], hr => by
    have := readBuf_leaf d (secLeaf dir i) buf (by simp [secLeaf, secDir]) (by simpa [exSection] using hr.head)
    simp [smSection, pdSection, this, pdNodes, stSection]
  | dir, idx, .mk i buf (a :: t), hr => by
    have ih := pdNodes_ex d junk (secDir dir i) idx (a :: t) (by simpa [exSection] using hr)
    simp [smSection, pdSection, readBuf, ih, stSection]
theorem pdNodes_ex (d : Dir) (junk : FileInfo → Nat) : ∀ (dir : List Comp) (idx : Nat) (n : List Node),
    Readable d (exNodes dir idx n) → pdNodes d junk (smNodes dir idx n) = .ok (stNodes junk n)
  | _, _, [], _ => by simp [smNodes, pdNodes, stNodes]
  | dir, idx, .sec s :: t, hr => by
    simp only [exNodes] at hr
    simp [smNodes, pdNodes, stNodes, pdSection_ex d junk dir idx s hr.append_left,
      pdNodes_ex d junk dir (idx + exCntSection s) t hr.append_right]
  | dir, idx, .fv v :: t, hr => by
    simp only [exNodes] at hr
    simp [smNodes, pdNodes, stNodes, pdFv_ex d junk dir idx v hr.append_left,
      pdNodes_ex d junk dir (idx + exCntFv v) t hr.append_right]
theorem pdSections_ex (d : Dir) (junk : FileInfo → Nat) : ∀ (dir : List Comp) (idx : Nat) (n : List Section),
    Readable d (exSections dir idx n) → pdSections d junk (smSections dir idx n) = .ok (stSections junk n)
  | _, _, [], _ => by simp [smSections, pdSections, stSections]
  | dir, idx, s :: t, hr => by
    simp only [exSections] at hr
    simp [smSections, pdSections, stSections, pdSection_ex d junk dir idx s hr.append_left,
      pdSections_ex d junk dir (idx + exCntSection s) t hr.append_right]
theorem pdFile_ex (d : Dir) (junk : FileInfo → Nat) : ∀ (pol : Nat) (dir : List Comp) (idx : Nat) (f : File),
    Readable d (exFile pol dir idx f) → pdFile d junk (smFile dir idx f) = .ok (stFile junk f)
  | pol, dir, idx, .mk i buf secs, hr => by
    cases hnv : i.nvar with
    | some nv => simp [smFile, hnv, pdFile, readBuf, sumFileInfo, stFile]
    | none =>
      cases secs with
      | nil =>
        simp only [exFile, hnv] at hr
        have := readBuf_leaf d (fileLeaf dir i idx) buf (by simp [fileLeaf, fileDir]) hr.head
        simp [smFile, hnv, pdFile, this, sumFileInfo, pdSections, stFile]
      | cons a t =>
        simp only [exFile, hnv] at hr
        have ih := pdSections_ex d junk (fileDir dir i idx) (idx + 1) (a :: t) hr
        simp [smFile, hnv, pdFile, readBuf, sumFileInfo, ih, stFile]
theorem pdFiles_ex (d : Dir) (junk : FileInfo → Nat) : ∀ (pol : Nat) (dir : List Comp) (idx : Nat) (n : List File),
    Readable d (exFiles pol dir idx n) → pdFiles d junk (smFiles dir idx n) = .ok (stFiles junk n)
  | _, _, _, [], _ => by simp [smFiles, pdFiles, stFiles]
  | pol, dir, idx, f :: t, hr => by
    simp only [exFiles] at hr
    simp [smFiles, pdFiles, stFiles, pdFile_ex d junk pol dir idx f hr.append_left,
      pdFiles_ex d junk pol dir (idx + exCntFile f) t hr.append_right]
theorem pdFv_ex (d : Dir) (junk : FileInfo → Nat) : ∀ (dir : List Comp) (idx : Nat) (v : Fv),
    Readable d (exFv dir idx v) → pdFv d junk (smFv dir idx v) = .ok (stFv junk v)
  | dir, idx, .mk i buf [], hr => by
    have := readBuf_leaf d (fvLeaf dir i false) buf (by simp [fvLeaf, fvDir]) (by simpa [exFv] using hr.head)
    simp [smFv, pdFv, this, pdFiles, stFv]
  | dir, idx, .mk i buf (a :: t), hr => by
    simp only [exFv] at hr
    have := readBuf_leaf d (fvLeaf dir i true) (buf.take i.dataOffset) (by simp [fvLeaf, fvDir]) hr.head
    have ih := pdFiles_ex d junk _ (fvDir dir i) idx (a :: t) hr.tail
    simp [smFv, pdFv, this, ih, stFv]
end

/-! ### BIOS region, regions, the whole tree -/

theorem pdBiosElems_ex (d : Dir) (junk : FileInfo → Nat) : ∀ (dir : List Comp) (idx : Nat) (es : List BiosElem),
    Readable d (exBiosElems dir idx es) → pdBiosElems d junk (smBiosElems dir idx es) = .ok (stBiosElems junk es)
  | _, _, [], _ => by simp [smBiosElems, pdBiosElems, stBiosElems]
  | dir, idx, .pad b o :: t, hr => by
    simp only [exBiosElems] at hr
    have := readBuf_leaf d (padLeaf dir o) b (by simp [padLeaf]) hr.head
    simp [smBiosElems, pdBiosElems, stBiosElems, this, pdBiosElems_ex d junk dir idx t hr.tail]
  | dir, idx, .fv v :: t, hr => by
    simp only [exBiosElems] at hr
    simp [smBiosElems, pdBiosElems, stBiosElems, pdFv_ex d junk dir idx v hr.append_left,
      pdBiosElems_ex d junk dir (idx + exCntFv v) t hr.append_right]

theorem pdBios_ex (d : Dir) (junk : FileInfo → Nat) (dir : List Comp) (idx : Nat) (b : BiosRegion)
    (hr : Readable d (exBios dir idx b)) : pdBios d junk (smBios dir idx b) = .ok (stBios junk b) := by
  obtain ⟨elems, buf, length, fr⟩ := b
  cases elems with
  | nil =>
    simp only [exBios] at hr
    have := readBuf_leaf d (biosLeaf dir) buf (by simp [biosLeaf, biosDir]) hr.head
    simp [smBios, pdBios, this, pdBiosElems, stBios]
  | cons a t =>
    simp only [exBios] at hr
    have ih := pdBiosElems_ex d junk (biosDir dir) idx (a :: t) hr
    simp [smBios, pdBios, readBuf, ih, stBios]

theorem pdRegions_ex (d : Dir) (junk : FileInfo → Nat) : ∀ (dir : List Comp) (idx : Nat) (rs : List Region),
    Readable d (exRegions dir idx rs) → pdRegions d junk (smRegions dir idx rs) = .ok (stRegions junk rs)
  | _, _, [], _ => by simp [smRegions, pdRegions, stRegions]
  | dir, idx, .bios b :: t, hr => by
    simp only [exRegions, exRegion] at hr
    simp [smRegions, smRegion, pdRegions, stRegions, pdBios_ex d junk dir idx b hr.append_left,
      pdRegions_ex d junk dir (idx + exCntRegion (.bios b)) t hr.append_right]
  | dir, idx, .me buf fr :: t, hr => by
    simp only [exRegions, exRegion] at hr
    have := readBuf_leaf d (meLeaf dir) buf (by simp [meLeaf]) hr.append_left.head
    simp [smRegions, smRegion, pdRegions, stRegions, this,
      pdRegions_ex d junk dir (idx + exCntRegion (.me buf fr)) t hr.append_right]
  | dir, idx, .raw buf fr ty :: t, hr => by
    simp only [exRegions, exRegion] at hr
    have := readBuf_leaf d (rawLeaf dir fr ty) buf (by simp [rawLeaf]) hr.append_left.head
    simp [smRegions, smRegion, pdRegions, stRegions, this,
      pdRegions_ex d junk dir (idx + exCntRegion (.raw buf fr ty)) t hr.append_right]

/-- loading what `extract` wrote: when every written file reads back, `ParseDir` builds `strip junk t` -/
theorem parseDir_ex (d : Dir) (junk : FileInfo → Nat) (t : Tree) (hr : Readable d (extractEntries t)) :
    parseDir d junk (summaryOf t) = .ok (strip junk t) := by
  cases t with
  | flash f =>
    simp only [extractEntries] at hr
    have := readBuf_leaf d (ifdLeaf []) f.ifd.buf (by simp [ifdLeaf]) hr.head
    have h0 : readBuf d [] = .ok [] := rfl
    simp only [summaryOf, parseDir, h0, this, pdRegions_ex d junk [] 0 f.regions hr.tail, strip]
  | bios b =>
    simp only [extractEntries] at hr
    simp [summaryOf, parseDir, pdBios_ex d junk [] 0 b hr, strip]

/-- the directory `extract` wrote is readable when its paths are distinct -/
theorem readable_extractDir (t : Tree) (hn : ((extractDir t).map Prod.fst).Nodup) :
    Readable (extractDir t) (extractEntries t) := by
  intro e he
  apply Dir.read_of_nodup _ _ _ hn
  simp only [extractDir, List.mem_map]
  exact ⟨e, he, rfl⟩

end Fiano.Uefi
