/-
  C02 (follow-up wp-c02b), layer (e), part 2: the editors of insert / remove / replace_pe32 keep the
  invariant where they fire (`EditorOk`), so every operation keeps `TreeOk` (`step_ok`), and every
  image a run writes is one the reader accepts (`run_valid`).
-/
import FianoModel.Uefi.EditValidOps

namespace Fiano.Uefi
open Fiano
open EditArith

/-- a new file that may be inserted into a volume of either polarity -/
def NewFileOk (nf : File) : Prop := FileOk 0xFF nf ∧ FileOk 0 nf

theorem NewFileOk.at {nf : File} (h : NewFileOk nf) (e : UInt8) (he : e = 0xFF ∨ e = 0) : FileOk e nf := by
  rcases he with rfl | rfl
  · exact h.1
  · exact h.2

/-! ### insert -/

theorem mem_insertAt (w : Where) (nf : File) (files : List File) (i : Nat) (x : File) (hx : x ∈ insertAt w nf files i) :
    x = nf ∨ x ∈ files := by
  unfold insertAt at hx
  cases w <;> simp only at hx
  · simp only [List.mem_cons] at hx; exact hx
  · simp only [List.mem_append, List.mem_singleton] at hx; exact hx.symm
  · simp only [List.mem_append, List.mem_cons] at hx
    rcases hx with hx | hx | hx
    · exact Or.inr (List.mem_of_mem_take hx)
    · exact Or.inl hx
    · exact Or.inr (List.mem_of_mem_drop hx)
  · simp only [List.mem_append, List.mem_cons] at hx
    rcases hx with hx | hx | hx
    · exact Or.inr (List.mem_of_mem_take hx)
    · exact Or.inl hx
    · exact Or.inr (List.mem_of_mem_drop hx)
  · simp only [List.mem_append, List.mem_cons] at hx
    rcases hx with hx | hx | hx
    · exact Or.inr (List.mem_of_mem_take hx)
    · exact Or.inl hx
    · exact Or.inr (List.mem_of_mem_drop hx)
  · simp only [List.mem_append, List.mem_singleton] at hx; exact hx.symm

theorem filesOk_insertAt (e : UInt8) (he : e = 0xFF ∨ e = 0) (w : Where) (nf : File) (files : List File) (i : Nat)
    (hf : FilesOk e files) (hnf : NewFileOk nf) : FilesOk e (insertAt w nf files i) := by
  apply FilesOk_of_mem
  intro x hx
  rcases mem_insertAt w nf files i x hx with rfl | hx
  · exact hnf.at e he
  · exact FilesOk_mem hf x hx

theorem insertFileEditor_ok (p : Pred) (w : Where) (nf : File) (hnf : NewFileOk nf) : EditorOk (insertFileEditor p w nf) := by
  refine ⟨fun v files' hv hf => ?_, fun e f f' _ _ hf => ?_⟩
  · obtain ⟨i, buf, files⟩ := v
    simp only [insertFileEditor, Fv.files] at hf
    split at hf
    · rename_i idx _
      cases hf
      rw [FvOk] at hv
      exact filesOk_insertAt _ (fvErased_cases buf) w nf files idx hv.2 hnf
    · cases hf
  · simp [insertFileEditor] at hf

theorem insertFvEditor_ok (p : Pred) (w : Where) (nf : File) (hnf : NewFileOk nf) : EditorOk (insertFvEditor p w nf) := by
  refine ⟨fun v files' hv hf => ?_, fun e f f' _ _ hf => ?_⟩
  · obtain ⟨i, buf, files⟩ := v
    simp only [insertFvEditor, Fv.files] at hf
    rw [FvOk] at hv
    split at hf
    · split at hf
      · cases hf
        exact filesOk_insertAt _ (fvErased_cases buf) .front nf files 0 hv.2 hnf
      · cases hf
        exact filesOk_insertAt _ (fvErased_cases buf) .end_ nf files 0 hv.2 hnf
      · cases hf
    · cases hf
  · simp [insertFvEditor] at hf

/-! ### remove -/

/-- a pad file node satisfies the invariant under either polarity -/
theorem mkPadFile_fileOk (pol : UInt8) (size : Nat) (pf : File) (h : mkPadFile pol size = .ok pf) (h64 : size < 2 ^ 64)
    (e : UInt8) (he : e = 0xFF ∨ e = 0) : FileOk e pf := by
  have h24 : 24 ≤ size := by
    unfold mkPadFile at h
    split at h
    · cases h
    · omega
  have hp : pol = 0xFF ∨ pol = 0 := by
    unfold mkPadFile at h
    rw [if_neg (by omega)] at h
    split at h
    · cases h
    · rename_i hc
      by_cases h1 : pol = 0xFF
      · exact Or.inl h1
      · by_cases h2 : pol = 0
        · exact Or.inr h2
        · exact absurd ⟨h1, h2⟩ hc
  obtain ⟨f, hf, hlen, hsecs, _, hal, hokk⟩ := mkPadFile_valid pol size h24 h64 hp
  rw [hf] at h
  cases h
  rw [mkPadFile_eq pol size h24 hp] at hf
  cases hf
  have hs := padInfo_sizeFields pol size 0 h24 h64 hp
  have hlen' : (List.replicate (padDataLen size) pol).length = padDataLen size := by simp
  generalize hD : List.replicate (padDataLen size) pol = data at *
  have hci := casm_info (padInfo pol size 0) data
  have hce : (checksumAndAssemble (padInfo pol size 0) data).1.extSize = (padInfo pol size 0).extSize := by
    unfold checksumAndAssemble; rfl
  have hty : (padInfo pol size 0).type = 0xF0 := rfl
  have hnv : (padInfo pol size 0).nvar = none := rfl
  have hext : (padInfo pol size 0).extSize < 2 ^ 64 := by
    unfold padInfo setSize
    simp only
    split <;> simp only [Bool.false_eq_true, if_false] <;> omega
  rw [FileOk, hci.1, hci.2.1, hci.2.2.1, hci.2.2.2.1, hci.2.2.2.2, hce, hty, hnv]
  refine ⟨hs.guid, by decide, hs.attrs, hs.state, hext, (fun nv c => by cases c), (fun c => ?_), (fun _ _ => ?_),
    by rw [SecsOk]; trivial⟩
  · rcases c with c | c
    · cases c
    · exact absurd rfl c
  · refine ⟨hs.attrs, casm_live _ _ e hs.guid hs.type he (by rw [hty]; decide), 1, fun fuel hfuel o _ => ?_⟩
    obtain ⟨n, rfl⟩ : ∃ n, fuel = n + 1 := ⟨fuel - 1, by omega⟩
    exact hokk n o

theorem removeEditor_ok (p : Pred) (pad : Bool) (pol : UInt8) : EditorOk (removeEditor p pad pol) := by
  refine ⟨fun v files' _ hf => by simp [removeEditor] at hf, fun e f f' he hok hf => ?_⟩
  simp only [removeEditor] at hf
  split at hf
  · split at hf
    · split at hf
      · cases hf
      · rename_i pf hpf
        cases hf
        obtain ⟨i, buf, secs⟩ := f
        rw [FileOk] at hok
        exact mkPadFile_fileOk pol _ f' hpf hok.2.2.2.2.1 e he
    · cases hf
  · cases hf

end Fiano.Uefi

namespace Fiano.Uefi
open Fiano
open EditArith

/-! ### replace_pe32 -/

theorem pe32Nodes_nil_iff (body : Bytes) (ns ns' : List Node) (h : pe32Nodes body ns = .ok ns') : (ns' = [] ↔ ns = []) := by
  cases ns with
  | nil => rw [pe32Nodes] at h; cases h; simp
  | cons n rest =>
    cases n with
    | sec s =>
      rw [pe32Nodes] at h
      split at h
      · cases h
      · split at h
        · cases h
        · cases h; simp
    | fv v =>
      rw [pe32Nodes] at h
      split at h
      · cases h
      · cases h; simp

theorem pe32Nodes_fv (body : Bytes) (v : Fv) (ns' : List Node) (h : pe32Nodes body [.fv v] = .ok ns') : ns' = [.fv v] := by
  rw [pe32Nodes, pe32Nodes] at h
  simp only at h
  cases h
  rfl

theorem nodeFvOk_inv (ns : List Node) (h : NodeFvOk ns) : ∃ v, ns = [.fv v] ∧ FvOk v := by
  match ns, h with
  | [.fv v], h => rw [NodeFvOk] at h; exact ⟨v, rfl, h⟩
  | [], h => exact absurd h NodeFvOk_nil
  | .sec _ :: _, h =>
    rw [NodeFvOk] at h
    · exact h.elim
    · intro v hv; cases hv
  | .fv _ :: _ :: _, h =>
    rw [NodeFvOk] at h
    · exact h.elim
    · intro v hv; cases hv

theorem pe32Section_ok (body : Bytes) (hb : body.length + 28 < 4294967296) (s s' : Section) (hok : SecOk s)
    (h : pe32Section body s = .ok s') : SecOk s' := by
  obtain ⟨i, buf, encap⟩ := s
  rw [pe32Section] at h
  rw [SecOk] at hok
  split at h
  · rename_i ht
    have h10 : i.type = 0x10 := ht
    have h2 : i.type ≠ 0x02 := by omega
    have h17 : i.type ≠ 0x17 := by omega
    rw [if_neg h2, if_neg h17] at hok
    split at h
    · cases h
    · rename_i i' buf' hg
      cases h
      have hsh := genSecHeader_shape i i' body buf' hg
      have hbo := genSecHeader_ok i i' body buf' hg hok.1 (fun _ => hok.2.1)
        (fun g hgs => by rw [hok.2.1] at hgs; cases hgs) hb (fun c => absurd c h17)
      rw [SecOk, hsh.1, if_neg h2, if_neg h17, hsh.2.2.1 h2]
      exact ⟨hok.1, hok.2.1, rfl, Or.inr hbo⟩
  · split at h
    · cases h
    · rename_i encap' hn
      cases h
      have hniff := pe32Nodes_nil_iff body encap encap' hn
      rw [SecOk]
      refine ⟨hok.1, ?_⟩
      by_cases h2 : i.type = 0x02
      · rw [if_pos h2] at hok ⊢
        exact ⟨hok.2.1, fun c => hok.2.2 (hniff.mp c)⟩
      · rw [if_neg h2] at hok ⊢
        refine ⟨hok.2.1, ?_⟩
        by_cases h17 : i.type = 0x17
        · rw [if_pos h17] at hok ⊢
          obtain ⟨v, hv, hvok⟩ := nodeFvOk_inv encap hok.2.2
          rw [hv] at hn
          rw [pe32Nodes_fv body v encap' hn, NodeFvOk]
          exact hvok
        · rw [if_neg h17] at hok ⊢
          exact ⟨hniff.mpr hok.2.2.1, hok.2.2.2⟩

theorem pe32Sections_ok (body : Bytes) (hb : body.length + 28 < 4294967296) : ∀ (ss ss' : List Section),
    SecsOk ss → pe32Sections body ss = .ok ss' → SecsOk ss' ∧ (ss' = [] ↔ ss = [])
  | [], ss', _, h => by
    rw [pe32Sections] at h; cases h
    exact ⟨by rw [SecsOk]; trivial, by simp⟩
  | s :: ss, ss', hok, h => by
    rw [SecsOk] at hok
    rw [pe32Sections] at h
    split at h
    · cases h
    · rename_i s1 hs
      split at h
      · cases h
      · rename_i ss1 hss
        cases h
        refine ⟨?_, by simp⟩
        rw [SecsOk]
        exact ⟨pe32Section_ok body hb s s1 hok.1 hs, (pe32Sections_ok body hb ss ss1 hok.2 hss).1⟩

theorem pe32Editor_ok (p : Pred) (body : Bytes) (hb : body.length + 28 < 4294967296) : EditorOk (pe32Editor p body) := by
  refine ⟨fun v files' _ hf => by simp [pe32Editor] at hf, fun e f f' he hok hf => ?_⟩
  simp only [pe32Editor] at hf
  split at hf
  · split at hf
    · cases hf
    · rename_i f1 hpf
      cases hf
      unfold pe32File at hpf
      split at hpf
      · cases hpf; exact hok
      · split at hpf
        · cases hpf
        · rename_i secs' hss
          cases hpf
          obtain ⟨i, buf, secs⟩ := f
          simp only [File.info, File.buf, File.secs] at hss ⊢
          rw [FileOk] at hok ⊢
          obtain ⟨a1, a2, a3, a4, a5, a6, a7, a8, a9⟩ := hok
          obtain ⟨hs1, hs2⟩ := pe32Sections_ok body hb secs secs' a9 hss
          refine ⟨a1, a2, a3, a4, a5, a6, fun c => a7 ?_, fun c1 c2 => a8 c1 (hs2.mp c2), hs1⟩
          rcases c with c | c
          · exact Or.inl c
          · exact Or.inr (fun c' => c (hs2.mpr c'))
  · cases hf

/-! ### one operation, a whole run -/

/-- what the theorem asks of the operations: a new file is one the reader accepts (under either
    polarity); a new PE32 body fits a section (below 4 GiB) -/
def OpOk : Op → Prop
  | .insert _ _ (some nf) => NewFileOk nf
  | .replacePe32 _ body => body.length + 28 < 4294967296
  | _ => True

/-- **every operation keeps the invariant, and what `save` writes is valid** -/
theorem step_ok (h : Hooks) (hlaw : h.NvLaw) (op : Op) (s s' : Run) (hs : step h op s = .ok s') (hop : OpOk op)
    (hok : TreeOk s.tree) (hL : rootLen s.tree < 2 ^ 31)
    (houts : ∀ b ∈ s.outs, Valid.validImage b = true) :
    TreeOk s'.tree ∧ rootLen s'.tree = rootLen s.tree ∧ ∀ b ∈ s'.outs, Valid.validImage b = true := by
  have hSz := treeOk_sized _ hok
  unfold step at hs
  split at hs
  · -- a nil file sits in the tree: only json and comment still succeed, and change nothing
    unfold stepNil at hs
    split at hs
    · split at hs <;> cases hs
    · cases hs; exact ⟨hok, rfl, houts⟩
    · cases hs; exact ⟨hok, rfl, houts⟩
    · cases hs
  · split at hs
    · split at hs
      · cases hs
      · cases hs; exact ⟨hok, rfl, houts⟩
    · rename_i p w nf
      split at hs
      · cases hs
      · rename_i t ht
        cases hs
        unfold insertOp at ht
        split at ht
        · cases ht
        · cases ht
        · split at ht
          · exact ⟨rwTree_ok _ (insertFvEditor_ok p w nf hop) _ _ hok ht, (rwTree_sized _ _ _ ht hSz).1, houts⟩
          · exact ⟨rwTree_ok _ (insertFileEditor_ok p w nf hop) _ _ hok ht, (rwTree_sized _ _ _ ht hSz).1, houts⟩
    · rename_i p pad
      split at hs
      · cases hs
      · rename_i t ht
        cases hs
        exact ⟨rwTree_ok _ (removeEditor_ok p pad s.st.pol) _ _ hok ht, (rwTree_sized _ _ _ ht hSz).1, houts⟩
    · rename_i p body
      split at hs
      · cases hs
      · rename_i t ht
        cases hs
        unfold replacePe32Op at ht
        split at ht
        · cases ht
        · split at ht
          · exact ⟨rwTree_ok _ (pe32Editor_ok p body hop) _ _ hok ht, (rwTree_sized _ _ _ ht hSz).1, houts⟩
          · cases ht
    · split at hs
      · cases hs
      · rename_i t st ht
        cases hs
        obtain ⟨h1, h2⟩ := asmTree_ok h hlaw _ _ _ _ hok ht hL
        refine ⟨h1, (asmTree_sized h _ _ _ _ ht hSz).2.1, ?_⟩
        intro b hb
        simp only [List.mem_append, List.mem_singleton] at hb
        rcases hb with hb | rfl
        · exact houts b hb
        · exact h2
    · split at hs
      · cases hs
      · cases hs; exact ⟨hok, rfl, houts⟩

/-- **`edits_valid`, from a tree** (layer (e)): whatever the sequence of operations — insert at front /
    end / after / before, replace_ffs, insert_dxe, remove, remove_pad, replace_pe32, intermediate
    saves, read-only commands —, if the run succeeds, every image it wrote is one the independent
    reader accepts -/
theorem run_valid (h : Hooks) (hlaw : h.NvLaw) : ∀ (ops : List Op) (s s' : Run), run h ops s = .ok s' →
    (∀ op ∈ ops, OpOk op) → TreeOk s.tree → rootLen s.tree < 2 ^ 31 →
    (∀ b ∈ s.outs, Valid.validImage b = true) → ∀ b ∈ s'.outs, Valid.validImage b = true
  | [], s, s', hr, _, _, _, houts => by
    rw [run] at hr; cases hr; exact houts
  | op :: ops, s, s', hr, hops, hok, hL, houts => by
    rw [run] at hr
    split at hr
    · cases hr
    · rename_i s1 hs1
      obtain ⟨h1, h2, h3⟩ := step_ok h hlaw op s s1 hs1 (hops op (by simp)) hok hL houts
      exact run_valid h hlaw ops s1 s' hr (fun o ho => hops o (by simp [ho])) h1 (by rw [h2]; exact hL) h3

end Fiano.Uefi
