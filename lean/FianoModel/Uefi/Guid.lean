/-
  pkg/guid/guid.go — the mixed-endian text form of a GUID (`GUID.String`, `guid.Parse`) and the
  literal, case-insensitive selectors the harness passes to `FindFilePredicate` /
  `FindFileFVPredicate` (`^(?i)(` + regexp.QuoteMeta(sel) + `)$`).

  A Go string is a list of Unicode code points (as in Uefi/Types.lean).
-/
import FianoModel.Uefi.Visitors

namespace Fiano.Uefi
open Fiano

/-- `reverse` applied to the fields 4-2-2-1-1-1-1-1-1-1-1 -/
def guidSwap (g : Bytes) : Bytes :=
  (g.take 4).reverse ++ ((g.drop 4).take 2).reverse ++ ((g.drop 6).take 2).reverse ++ g.drop 8

def hexUpper (n : Nat) : Nat := if n < 10 then 48 + n else 55 + n

def hexByte (b : UInt8) : List Nat := [hexUpper (b.toNat / 16), hexUpper (b.toNat % 16)]

def hexBytes : Bytes → List Nat
  | [] => []
  | b :: bs => hexByte b ++ hexBytes bs

/-- `GUID.String()` : `%02X…` with hyphens after 4, 6, 8 and 10 bytes -/
def guidText (g : Bytes) : List Nat :=
  let s := guidSwap g
  hexBytes (s.take 4) ++ [45] ++ hexBytes ((s.drop 4).take 2) ++ [45] ++ hexBytes ((s.drop 6).take 2) ++ [45]
    ++ hexBytes ((s.drop 8).take 2) ++ [45] ++ hexBytes (s.drop 10)

def hexDigitVal (c : Nat) : Option Nat :=
  if 48 ≤ c ∧ c ≤ 57 then some (c - 48)
  else if 65 ≤ c ∧ c ≤ 70 then some (c - 55)
  else if 97 ≤ c ∧ c ≤ 102 then some (c - 87)
  else none

/-- `hex.DecodeString` -/
def hexDecode : List Nat → Option Bytes
  | [] => some []
  | [_] => none
  | a :: b :: rest =>
    match hexDigitVal a, hexDigitVal b, hexDecode rest with
    | some x, some y, some r => some (UInt8.ofNat (16 * x + y) :: r)
    | _, _, _ => none

/-- `guid.Parse` : hyphens are dropped wherever they are, 16 bytes are required -/
def guidParse (s : List Nat) : Option Bytes :=
  match hexDecode (s.filter (· ≠ 45)) with
  | some d => if d.length = 16 then some (guidSwap d) else none
  | none => none

/-! ### literal selectors under `(?i)` -/

def isAsciiLetter (c : Nat) : Bool := (65 ≤ c && c ≤ 90) || (97 ≤ c && c ≤ 122)

/-- does input rune `c` match pattern rune `r` under Go's case folding (`unicode.SimpleFold`
    orbits)?  Exact for ASCII pattern runes: a letter matches both cases, `k`/`K` also match
    U+212A (Kelvin sign) and `s`/`S` also U+017F (long s).  Other pattern runes are compared
    exactly (the harness uses ASCII selectors only). -/
def foldMatch (r c : Nat) : Bool :=
  r == c ||
  (isAsciiLetter r && (c == r + 32 || c + 32 == r) && isAsciiLetter c) ||
  ((r == 75 || r == 107) && c == 0x212A) ||
  ((r == 83 || r == 115) && c == 0x17F)

def ciMatch : List Nat → List Nat → Bool
  | [], [] => true
  | r :: rs, c :: cs => foldMatch r c && ciMatch rs cs
  | _, _ => false

/-- `FindFilePredicate(QuoteMeta sel)` : file GUID text or UI-section name -/
def selFilePred (sel : List Nat) : Pred :=
  { file := fun f => ciMatch sel (guidText f.info.guid),
    sec := fun s => ciMatch sel s.info.name }

/-- `FindFileFVPredicate(QuoteMeta sel)` : also the volume name -/
def selFvPred (sel : List Nat) : Pred :=
  { fv := fun v => ciMatch sel (guidText v.info.fvName),
    file := fun f => ciMatch sel (guidText f.info.guid),
    sec := fun s => ciMatch sel s.info.name }

/-- `FindFileTypePredicate(t)` -/
def typePred (t : Nat) : Pred := { file := fun f => f.info.type == t }

end Fiano.Uefi
