/-
  C05 (follow-up wp-c05b) — a step meter for the parser models, without touching Base/GoM.lean.

  `CostM` wraps `GoM` with a counter that *survives errors* (an `Except` error carries no state, so the
  counter cannot live in the `Meter`): `Cost.steps` counts every parser call (NewSection, NewFile,
  NewFirmwareVolume, newNVar, NewNVarStore) and every iteration of a structural loop (sections of a file,
  sections of a decoded payload, files of a volume, elements of a BIOS region, `_FVH` probes of
  FindFirmwareVolumeOffset, entries of an NVAR store, regions of the descriptor's table); `Cost.blk` counts
  the block-map entries read by NewFirmwareVolume (kept apart: see below); `Cost.dec` the bytes decoders
  returned.  Byte-level bulk work inside one step (copy, checksum, IsErased, bytes.Index, the terminator
  search of a name, filling the GUID store) is not a step.

  The cost functions (`sectionCost`, `fileCost`, … : arguments → Meter → Cost → Cost) are defined by the
  *same recursion on the fuel* as the models of TotalFv.lean / TotalNvar.lean / TotalFlash.lean: each is the
  model's body re-read in `CostM`, where a recursive call `f fuel args` of the model is `callC (fCost fuel
  args) (f fuel args)` — the value and the meter come from the model itself, the cost from the cost function.

  Why `blk` is apart: a nested volume's block map may run over the bytes of the volumes nested in it, so
  the block-map reads of a chain of `d` nested volumes add up to Θ(d·|bs|) — the linear bound is *false*
  for them (the same shape as known finding C05-nested-copy: every nested volume also copies its buffer).
  `steps` itself is linear: TotalStepsSafe.lean.
-/
import FianoModel.Uefi.TotalFlash

namespace Fiano.Uefi.Total
open Fiano GoM Fiano.Uefi

structure Cost where
  steps : Nat := 0
  blk   : Nat := 0
  dec   : Nat := 0
  deriving Repr, DecidableEq, Inhabited

/-- a `GoM` computation with a cost counter that survives errors -/
abbrev CostM (α : Type) := Meter → Cost → Except Fault (α × Meter) × Cost

namespace CostM

def pureC {α} (a : α) : CostM α := fun m k => (.ok (a, m), k)

def bindC {α β} (x : CostM α) (f : α → CostM β) : CostM β := fun m k =>
  match x m k with
  | (.ok (a, m'), k') => f a m' k'
  | (.error e, k') => (.error e, k')

instance : Monad CostM where
  pure := pureC
  bind := bindC

/-- a model computation that is not a step -/
def liftC {α} (x : GoM α) : CostM α := fun m k => (x m, k)

/-- one step -/
def tickC : CostM Unit := fun m k => (.ok ((), m), { k with steps := k.steps + 1 })

/-- one block-map entry read -/
def blkC : CostM Unit := fun m k => (.ok ((), m), { k with blk := k.blk + 1 })

/-- a decoder returned `n` bytes -/
def decC (n : Nat) : CostM Unit := fun m k => (.ok ((), m), { k with dec := k.dec + n })

/-- a recursive call of the model: its value and meter, and the cost its cost function assigns to it -/
def callC {α} (c : Meter → Cost → Cost) (x : GoM α) : CostM α := fun m k => (x m, c m k)

def errC {α} : CostM α := liftC err

end CostM

open CostM

/-- the cost of running `x` from meter `m` with counter `k` -/
def costOf {α} (x : CostM α) (m : Meter) (k : Cost) : Cost := (x m k).2

/-- cost of what `inner` does to a decoded payload -/
abbrev InnerCost := Bytes → St → Meter → Cost → Cost

/-- cost of the NVAR hook (`NewNVarStore` on the body of a RAW file) -/
abbrev NvarCost := Bytes → UInt8 → Meter → Cost → Cost

/-! ### the block map -/

def readBlocksC (length : Nat) : Nat → Bytes → Nat → CostM (List Block)
  | fuel, r, pos =>
    if pos + 8 > length then errC else
    match fuel with
    | 0 => liftC outOfFuel
    | fuel+1 => do
      blkC
      let (e, r') ← liftC (binaryReadG r 8)
      let c := fromLE (e.take 4)
      let s := fromLE (e.drop 4)
      if c = 0 ∧ s = 0 then pure []
      else do
        liftC (allocG 1 8)
        let rest ← readBlocksC length fuel r' (pos + 8)
        pure (⟨c, s⟩ :: rest)

/-! ### sections, files, volumes -/

mutual

/-- `NewSection`: one step, plus what the decoded payload / the nested volume cost -/
def sectionC (h : HooksG) (inner : Inner) (ic : InnerCost) (nc : NvarCost) : Nat → Bytes → Nat → St → CostM (Section × St)
  | 0, _, _, _ => liftC outOfFuel
  | fuel+1, buf, order, st => do
    tickC
    let (hb, r1) ← liftC (binaryReadG buf 4)
    let size3 := fromLE (hb.take 3)
    let type := fromLE (hb.drop 3)
    let (ext, hs, r2) ← liftC (
      if knownSection type then
        if size3 = 0xFFFFFF then do
          let (eb, r2) ← binaryReadG r1 4
          if fromLE eb = 0xFFFFFFFF then err else pure (fromLE eb, 8, r2)
        else pure (size3, 4, r1)
      else pure (min size3 buf.length, 4, r1) : GoM (Nat × Nat × Bytes))
    if ext > buf.length then errC else do
    let sbuf ← liftC (copyOutG "NewSection: buf[:s.Header.ExtendedSize]" buf ext)
    let i : SecInfo := { size3 := size3, type := type, extSize := ext, fileOrder := order }
    if type = 0x02 then do
      let (tb, _) ← liftC (binaryReadG r2 20)
      let g := tb.take 16
      let dataOffset := fromLE ((tb.drop 16).take 2)
      let attrs := fromLE (tb.drop 18)
      if attrs &&& 1 ≠ 0 ∧ ¬ h.disableDecompression then
        match h.codec g with
        | some c =>
          if dataOffset > buf.length then errC else do
          let payload ← liftC (sliceFromG "NewSection: buf[typeSpec.DataOffset:]" buf dataOffset)
          let dec ← liftC (if payload.length < c.skip then pure none
                     else do
                       let p ← sliceFromG "SystemBROTLI.Decode: encodedData[0x10:]" payload c.skip
                       c.decode p : GoM (Option Bytes))
          match dec with
          | some enc => do
            decC enc.length
            match ← callC (ic enc st) (inner enc st) with
            | some (ns, st') => pure (.mk { i with ts := some ⟨g, dataOffset, attrs, c.name⟩ } sbuf ns, st')
            | none => pure (.mk { i with ts := some ⟨g, dataOffset, attrs, zBudgetTag⟩ } sbuf [], st)
          | none => pure (.mk { i with ts := some ⟨g, dataOffset, attrs, "UNKNOWN"⟩ } sbuf [], st)
        | none => pure (.mk { i with ts := some ⟨g, dataOffset, attrs, "UNKNOWN"⟩ } sbuf [], st)
      else pure (.mk { i with ts := some ⟨g, dataOffset, attrs, ""⟩ } sbuf [], st)
    else if type = 0x15 then
      if sbuf.length ≤ hs then errC else do
      let nb ← liftC (sliceFromG "NewSection: s.buf[headerSize:] (UI)" sbuf hs)
      let name ← liftC (ucs2ToUtf8G nb)
      pure (.mk { i with name := name } sbuf [], st)
    else if type = 0x14 then
      if sbuf.length ≤ hs + 2 then errC else do
      let bn ← liftC (sliceG "NewSection: s.buf[headerSize:headerSize+2]" sbuf hs (hs + 2))
      let vb ← liftC (sliceFromG "NewSection: s.buf[headerSize+2:]" sbuf (hs + 2))
      let ver ← liftC (ucs2ToUtf8G vb)
      pure (.mk { i with build := fromLE bn, version := ver } sbuf [], st)
    else if type = 0x17 then
      if sbuf.length ≤ hs then errC else do
      let vb ← liftC (sliceFromG "NewSection: s.buf[headerSize:] (volume image)" sbuf hs)
      let (fv, st') ← callC (costOf (fvC h inner ic nc fuel vb 0 true st)) (parseFvG h inner fuel vb 0 true st)
      pure (.mk i sbuf [.fv fv], st')
    else if isDepexType type then
      if sbuf.length ≤ hs then errC else do
      let db ← liftC (sliceFromG "NewSection: s.buf[headerSize:] (depex)" sbuf hs)
      match parseDepEx db with
      | some ops => pure (.mk { i with depex := ops } sbuf [], st)
      | none => pure (.mk i sbuf [], st)
    else pure (.mk i sbuf [], st)
termination_by structural fuel _ _ _ => fuel

/-- the section loop of `NewFile`: one step per iteration -/
def sectionsC (h : HooksG) (inner : Inner) (ic : InnerCost) (nc : NvarCost) : Nat → Bytes → Nat → Nat → Nat → St → CostM (List Section × St)
  | fuel, fbuf, offset, ext, idx, st =>
    if offset < ext then
      match fuel with
      | 0 => liftC outOfFuel
      | fuel+1 => do
        tickC
        let sb ← liftC (sliceFromG "NewFile: f.buf[offset:]" fbuf offset)
        let (s, st') ← callC (costOf (sectionC h inner ic nc fuel sb idx st)) (parseSectionG h inner fuel sb idx st)
        if s.info.extSize = 0 then errC else do
        let (ss, st'') ← sectionsC h inner ic nc fuel fbuf (align4G (offset + s.info.extSize)) ext (idx + 1) st'
        pure (s :: ss, st'')
    else pure ([], st)
termination_by structural fuel _ _ _ _ _ => fuel

/-- `NewFile`: one step, plus the section loop (the NVAR hook of a RAW file is a parameter of the parser:
    its cost is not part of `steps`, see `nvarStoreCost`) -/
def fileC (h : HooksG) (inner : Inner) (ic : InnerCost) (nc : NvarCost) : Nat → Bytes → St → CostM (Option File × St)
  | 0, _, _ => liftC outOfFuel
  | fuel+1, buf, st => do
    tickC
    let (hb, r1) ← liftC (binaryReadG buf 24)
    let g := hb.take 16
    let size3 := rd hb 20 3
    let type := rd hb 18 1
    let i0 : FileInfo := { guid := g, ckHeader := rd hb 16 1, ckFile := rd hb 17 1, type := type,
                           attrs := rd hb 19 1, size3 := size3, state := rd hb 23 1,
                           extSize := size3, dataOffset := 24 }
    let hr ← liftC (
      if size3 = 0xFFFFFF then
        if r1.length < 8 then do
          let hd ← sliceToG "NewFile: buf[:FileHeaderMinLength]" buf 24
          if hd.all (· == 0xFF) then pure none else err
        else do
          let (eb, _) ← binaryReadG r1 8
          if fromLE eb = u64max then pure none
          else pure (some { i0 with extSize := fromLE eb, dataOffset := 32 })
      else pure (some i0) : GoM (Option FileInfo))
    match hr with
    | none => pure (none, st)
    | some i =>
    if i.extSize > buf.length then errC else do
    let fbuf ← liftC (copyOutG "NewFile: buf[:f.Header.ExtendedSize]" buf i.extSize)
    let nvs ← (
      if type = 1 ∧ g = guidNVAR then
        if i.dataOffset ≥ fbuf.length then errC else do
        let nb ← liftC (sliceFromG "NewFile: f.buf[f.DataOffset:]" fbuf i.dataOffset)
        callC (nc nb st.pol) (h.nvar nb st.pol)
      else pure none : CostM (Option NvStore))
    let i := { i with nvar := nvs }
    if ¬ supportedFile type then pure (some (.mk i fbuf []), st) else do
    let (ss, st') ← sectionsC h inner ic nc fuel fbuf i.dataOffset i.extSize 0 st
    pure (some (.mk i fbuf ss), st')
termination_by structural fuel _ _ => fuel

/-- the file loop of `NewFirmwareVolume`: one step per iteration -/
def filesC (h : HooksG) (inner : Inner) (ic : InnerCost) (nc : NvarCost) : Nat → Bytes → Nat → Nat → Nat → St → CostM (List File × Nat × St)
  | fuel, data, offset, lh, length, st =>
    if offset ≤ lh then
      match fuel with
      | 0 => liftC outOfFuel
      | fuel+1 => do
        tickC
        let offset := align8G offset
        if data.length ≤ offset then errC else do
        let fb ← liftC (sliceFromG "NewFirmwareVolume: data[offset:]" data offset)
        let (fo, st') ← callC (costOf (fileC h inner ic nc fuel fb st)) (parseFileG h inner fuel fb st)
        match fo with
        | none => pure ([], length - offset, st')
        | some f =>
          if f.info.extSize = 0 then errC else do
          let (fs, free, st'') ← filesC h inner ic nc fuel data (offset + f.info.extSize) lh length st'
          pure (f :: fs, free, st'')
    else pure ([], 0, st)
termination_by structural fuel _ _ _ _ _ => fuel

/-- `NewFirmwareVolume`: one step, the block-map reads (`blk`), the file loop -/
def fvC (h : HooksG) (inner : Inner) (ic : InnerCost) (nc : NvarCost) : Nat → Bytes → Nat → Bool → St → CostM (Fv × St)
  | 0, _, _, _, _ => liftC outOfFuel
  | fuel+1, data, fvOffset, resizable, st => do
    tickC
    if data.length < 64 then errC else do
    let (hd, r1) ← liftC (binaryReadG data 56)
    let fsGuid := slice hd 16 16
    let length := rd hd 32 8
    let attrs := rd hd 44 4
    let headerLen := rd hd 48 2
    let eho := rd hd 52 2
    let blocks ← readBlocksC length (data.length / 8 + 1) r1 56
    match setPolarity (polOfAttrs attrs) st with
    | .error _ => errC
    | .ok st =>
    if length > data.length then errC else do
    let hasExt : Bool := eho ≠ 0 ∧ length ≥ 20 ∧ eho ≤ length - 20
    let (fvName, ehs) ← liftC (
      if hasExt then do
        let eb ← sliceFromG "NewFirmwareVolume: data[fv.ExtHeaderOffset:]" data eho
        let (xb, _) ← binaryReadG eb 20
        pure (xb.take 16, fromLE (xb.drop 16))
      else pure (guidZero, 0) : GoM (Guid × Nat))
    let dataOffset := align8G (if hasExt then eho + ehs else headerLen)
    let fbuf ← liftC (copyOutG "NewFirmwareVolume: data[:fv.Length] (copy)" data length)
    let i : FvInfo := { fsGuid := fsGuid, length := length, signature := rd hd 40 4, attrs := attrs,
                        headerLen := headerLen, checksum := rd hd 50 2, extHeaderOffset := eho,
                        reserved := rd hd 54 1, revision := rd hd 55 1, blocks := blocks,
                        fvName := fvName, extHeaderSize := ehs, dataOffset := dataOffset,
                        fvOffset := fvOffset, resizable := resizable, freeSpace := 0 }
    if fsGuid ≠ guidFFS2 ∧ fsGuid ≠ guidFFS3 then pure (.mk i fbuf [], st) else do
    let clipped ← liftC (sliceToG "NewFirmwareVolume: data[:fv.Length] (clip)" data length)
    let lh := (length + 18446744073709551616 - 24) % 18446744073709551616
    let (fs, free, st') ← filesC h inner ic nc fuel clipped dataOffset lh length st
    pure (.mk { i with freeSpace := free } fbuf fs, st')
termination_by structural fuel _ _ _ _ => fuel

end

/-! ### decoded payloads -/

/-- the loop over a decoded payload: one step per iteration; `sc` is the cost of the section parser it calls -/
def encapLoopC (sec : Bytes → Nat → St → GoM (Section × St)) (sc : Bytes → Nat → St → Meter → Cost → Cost) :
    Nat → Bytes → Nat → Nat → St → CostM (List Node × St)
  | fuel, enc, offset, idx, st =>
    if offset < enc.length then
      match fuel with
      | 0 => liftC outOfFuel
      | fuel+1 => do
        tickC
        let sb ← liftC (sliceFromG "NewSection: encapBuf[offset:]" enc offset)
        let (s, st') ← callC (sc sb idx st) (sec sb idx st)
        if s.info.extSize = 0 then errC else do
        let (ns, st'') ← encapLoopC sec sc fuel enc (align4G (offset + s.info.extSize)) (idx + 1) st'
        pure (.sec s :: ns, st'')
    else pure ([], st)

/-- the cost of `innerZ h z` -/
def innerCostZ (h : HooksG) (nc : NvarCost) : Nat → InnerCost
  | 0 => fun _ _ _ k => k
  | z+1 => fun enc st m k =>
    costOf (encapLoopC (fun sb idx st => parseSectionG h (innerZ h z) (fuelFor sb) sb idx st)
              (fun sb idx st => costOf (sectionC h (innerZ h z) (innerCostZ h nc z) nc (fuelFor sb) sb idx st))
              (enc.length + 1) enc 0 0 st) m k

/-- steps of `uefi.NewSection(buf, order)` -/
def newSectionCost (h : HooksG) (nc : NvarCost) (z : Nat) (buf : Bytes) (order : Nat) (st : St) (m : Meter) : Cost :=
  costOf (sectionC h (innerZ h z) (innerCostZ h nc z) nc (fuelFor buf) buf order st) m {}

/-- steps of `uefi.NewFile(buf)` -/
def newFileCost (h : HooksG) (nc : NvarCost) (z : Nat) (buf : Bytes) (st : St) (m : Meter) : Cost :=
  costOf (fileC h (innerZ h z) (innerCostZ h nc z) nc (fuelFor buf) buf st) m {}

/-- steps of `uefi.NewFirmwareVolume(data, fvOffset, resizable)` -/
def newFvCost (h : HooksG) (nc : NvarCost) (z : Nat) (data : Bytes) (o : Nat) (r : Bool) (st : St) (m : Meter) : Cost :=
  costOf (fvC h (innerZ h z) (innerCostZ h nc z) nc (fuelFor data) data o r st) m {}

/-! ### the NVAR store parser (TotalNvar.lean) -/

/-- `catchErrG` with the counter kept -/
def catchC {α} (x : CostM α) : CostM (Option α) := fun m k =>
  match x m k with
  | (.ok (a, m'), k') => (.ok (some a, m'), k')
  | (.error .err, k') => (.ok (none, m), k')
  | (.error e, k') => (.error e, k')

mutual

def nvarEntryC (pol : UInt8) : Nat → Bytes → Nat → NvS → CostM (Option (NvE × List Bytes))
  | 0, _, _, _ => liftC outOfFuel
  | fuel+1, buf, offset, s => do
    tickC
    if isErased buf pol then pure none else do
    let (hb, _) ← liftC (binaryReadG buf 10)
    if hb.take 4 ≠ nvarSig then errC else
    let size := rd hb 4 2
    let next3 := rd hb 6 3
    let attrs := rd hb 9 1
    if buf.length < size then errC else
    if size < 10 then errC else do
    let vbuf ← liftC (copyOutG "newNVar: buf[:v.Header.Size]" buf size)
    let e0 : NvE := { type := 4, size := size, attrs := attrs, offset := offset, nextOffset := 0,
                      dataOffset := 10, buf := vbuf }
    if attrs &&& 0x80 = 0 then pure (some ({ e0 with type := 0 }, s.guids)) else
    if pol ≠ 0xFF ∧ pol ≠ 0 then errC else
    let last := if pol = 0xFF then 0xFFFFFF else 0
    let e1 : NvE := { e0 with type := if next3 ≠ last then 2 else 4,
                              nextOffset := if next3 ≠ last then offset + next3 else 0 }
    do
    let okExt ← liftC (parseExtHeaderG vbuf size attrs)
    if ¬ okExt then pure (some ({ e1 with type := 0 }, s.guids)) else
    let r ← liftC (nvIdentG s vbuf attrs e1 offset)
    let (e2, guids) := r
    if attrs &&& 0x10 = 0 then do                     -- fix wp-nvfix: no nested store behind an extended header
      let content ← liftC (sliceFromG "newNVar: v.buf[v.DataOffset:]" vbuf e2.dataOffset)
      if content.take 4 = nvarSig ∧ 4 ≤ content.length then do
        let ns ← callC (costOf (nvarStoreC pol fuel content)) (nvarStoreG pol fuel content)
        pure (some ({ e2 with nested := ns }, guids))
      else pure (some (e2, guids))
    else pure (some (e2, guids))
termination_by structural fuel _ _ _ => fuel

def nvarLoopC (pol : UInt8) : Nat → NvS → CostM NvS
  | fuel, s =>
    if s.fso < s.gso then
      match fuel with
      | 0 => liftC outOfFuel
      | fuel+1 => do
        tickC
        let eb ← liftC (sliceG "NewNVarStore: s.buf[s.FreeSpaceOffset:s.GUIDStoreOffset]" s.buf s.fso s.gso)
        match ← callC (costOf (nvarEntryC pol fuel eb s.fso s)) (newNvarG pol fuel eb s.fso s) with
        | none => pure s
        | some (e, guids) =>
          -- fix wp-nvfix: `if s.FreeSpaceOffset > s.GUIDStoreOffset { return nil, err }`
          if s.fso + e.size > s.length - 16 * guids.length then errC else
          nvarLoopC pol fuel { s with entries := s.entries ++ [e], guids := guids, fso := s.fso + e.size,
                                      gso := s.length - 16 * guids.length }
    else pure s
termination_by structural fuel _ => fuel

def nvarStoreC (pol : UInt8) : Nat → Bytes → CostM (Option String)
  | 0, _ => liftC outOfFuel
  | fuel+1, buf => do
    tickC
    let own ← liftC (cloneG buf)
    let s0 : NvS := { buf := own, gso := buf.length, length := buf.length }
    let r ← catchC (nvarLoopC pol fuel s0)
    pure (r.map nvDump)
termination_by structural fuel _ => fuel

end

/-- steps of `uefi.NewNVarStore(buf)` under polarity `pol`, from counter `k` -/
def nvarStoreCost (pol : UInt8) (buf : Bytes) (m : Meter) (k : Cost) : Cost :=
  costOf (nvarStoreC pol (nvarFuel buf) buf) m k

/-- the cost of the hook `nvarHook` of `parseFileG` -/
def nvarHookCost : NvarCost := fun nb pol m k => nvarStoreCost pol nb m k

/-! ### the top of the parser (FindFirmwareVolumeOffset, NewBIOSRegion, NewFlashImage, uefi.Parse) -/

def scanSigC (data : Bytes) : Nat → Nat → CostM (Option Nat)
  | fuel, offset =>
    if offset + 4 < data.length then
      match fuel with
      | 0 => liftC outOfFuel
      | fuel+1 => do
        tickC
        let w ← liftC (sliceG "FindFirmwareVolumeOffset: data[offset:offset+4]" data offset (offset + 4))
        if w = fvSig then pure (some offset) else scanSigC data fuel (offset + 8)
    else pure none

def findFvOffsetC (data : Bytes) : CostM (Option Nat) :=
  if data.length < 32 then pure none
  else do
    match ← scanSigC data (data.length / 8 + 1) 32 with
    | some o => if o < 40 then pure none else pure (some (o - 40))
    | none => pure none

/-- the cost of `newFvG h z vb o r st` from counter `k` -/
def newFvCostK (h : HooksG) (nc : NvarCost) (z : Nat) (data : Bytes) (o : Nat) (r : Bool) (st : St) (m : Meter) (k : Cost) : Cost :=
  costOf (fvC h (innerZ h z) (innerCostZ h nc z) nc (fuelFor data) data o r st) m k

def biosElemsC (h : HooksG) (nc : NvarCost) (z : Nat) : Nat → Bytes → Nat → St → CostM (List BiosElem × St)
  | fuel, buf, absOffset, st => do
    tickC
    match ← findFvOffsetC buf with
    | none => pure (if buf.length ≠ 0 then [.pad buf absOffset] else [], st)
    | some off =>
      match fuel with
      | 0 => liftC outOfFuel
      | fuel+1 => do
        let pre ← liftC (if off > 0 then do
                     let pb ← sliceToG "NewBIOSRegion: buf[:offset]" buf off
                     pure [BiosElem.pad pb absOffset]
                   else pure [] : GoM (List BiosElem))
        let absOffset := absOffset + off
        let vb ← liftC (sliceFromG "NewBIOSRegion: buf[offset:]" buf off)
        let (fv, st') ← callC (newFvCostK h nc z vb absOffset false st) (newFvG h z vb absOffset false st)
        if fv.info.length = 0 then errC else do
        let rest ← liftC (sliceFromG "NewBIOSRegion: buf[uint64(offset)+fv.Length:]" buf (off + fv.info.length))
        let (es, st'') ← biosElemsC h nc z fuel rest (absOffset + fv.info.length) st'
        pure (pre ++ .fv fv :: es, st'')

def biosC (h : HooksG) (nc : NvarCost) (z : Nat) (buf : Bytes) (fr : Option FlashRegion) (st : St) : CostM (BiosRegion × St) := do
  let own ← liftC (cloneG buf)
  let (es, st') ← biosElemsC h nc z (buf.length + 1) buf 0 st
  pure ({ elems := es, buf := own, length := buf.length, fr := fr }, st')

def regionsC (h : HooksG) (nc : NvarCost) (z : Nat) (buf : Bytes) (nr : Nat) :
    List FlashRegion → Nat → St → CostM (List Region × St)
  | [], _, st => pure ([], st)
  | fr :: frs, i, st => do
    tickC
    if nr ≠ 0 ∧ i ≥ nr then pure ([], st)
    else if ¬ fr.valid ∨ fr.baseOffset ≥ buf.length ∨ fr.endOffset > buf.length then
      regionsC h nc z buf nr frs (i + 1) st
    else do
      let rbuf ← liftC (sliceG "NewFlashImage: buf[fr.BaseOffset():fr.EndOffset()]" buf fr.baseOffset fr.endOffset)
      let (r, st') ← (
        if i = 0 then do
          let (b, st') ← biosC h nc z rbuf (some fr) st
          pure (Region.bios b, st')
        else if i = 1 then do
          let r ← liftC (newMeRegionG rbuf fr)
          pure (r, st)
        else do
          let own ← liftC (cloneG rbuf)
          pure (Region.raw own fr i, st) : CostM (Region × St))
      let (rs, st'') ← regionsC h nc z buf nr frs (i + 1) st'
      pure (r :: rs, st'')

def flashC (h : HooksG) (nc : NvarCost) (z : Nat) (buf : Bytes) (st : St) : CostM (Flash × St) := do
  if buf.length < 4096 then errC else do
  let fbuf ← liftC (cloneG buf)
  liftC (allocG 4096 1)
  let d0 ← liftC (sliceToG "NewFlashImage: buf[:FlashDescriptorLength]" buf 4096)
  let ifd ← liftC (parseDescriptorG d0)
  match ifd.region.regions[0]? with
  | none => liftC (goPanic "NewFlashImage: frs[RegionTypeBIOS]")
  | some bios =>
    if ¬ bios.valid then errC else do
    let (rs, st') ← regionsC h nc z buf ifd.map.numberOfRegions ifd.region.regions 0 st
    let rs' ← liftC (fillGapsG fbuf buf.length (sortRegions rs) 4096)
    pure ({ buf := fbuf, ifd := ifd, regions := rs', flashSize := buf.length }, st')

def parseWithC (h : HooksG) (nc : NvarCost) (z : Nat) (buf : Bytes) (st : St) : CostM (Tree × St) := do
  match ← liftC (findSignatureG buf) with
  | some _ => do
    let (f, st') ← flashC h nc z buf st
    pure (.flash f, st')
  | none => do
    let (b, st') ← biosC h nc z buf none st
    pure (.bios b, st')

/-- steps of `uefi.Parse(buf)` in a fresh process, NVAR stores of RAW files charged by `nc` -/
def parseCost (h : HooksG) (nc : NvarCost) (z : Nat) (buf : Bytes) (m : Meter) : Cost :=
  costOf (parseWithC h nc z buf {}) m {}

end Fiano.Uefi.Total
