/-
  C05 (follow-up wp-c05b) — the step meter for the NVAR store parser (TotalNvar.lean): cost functions by the same
  recursion (`nvarEntryC`, `nvarLoopC`, `nvarStoreC`), their erasure to the models, and the linear bound

        steps(NewNVarStore(buf)) ≤ 2·|buf| + 1        on every run.

  One step per `newNVar` call, per iteration of the entry loop, per `NewNVarStore` call.  An accepted entry has
  `Size ≥ 10`, a nested store lives in the content of its entry (≤ Size − 10 bytes): each call is paid by bytes
  no sibling uses.  (Not steps: `IsErased` over the rest of the store and `parseDataOnly` over the earlier
  entries, per entry — byte / entry scans inside one step; real time is quadratic in the number of entries,
  as the original report measured.)
-/
import FianoModel.Uefi.TotalStepsSafe
import FianoModel.Uefi.TotalNvarSafe

namespace Fiano.Uefi.Total
open Fiano GoM Fiano.Uefi CostM

/-! ### erasure -/

theorem sim_catch {α} {x : CostM α} {y : GoM α} (h : Sim x y) : Sim (catchC x) (catchErrG y) := by
  intro m k
  have h1 := h m k
  unfold catchC catchErrG
  cases hx : x m k with
  | mk r k' =>
    rw [hx] at h1
    simp only [] at h1
    rw [← h1]
    cases r with
    | ok v => obtain ⟨a, m'⟩ := v; rfl
    | error e => cases e <;> rfl

theorem nvarEntry_sim (pol : UInt8) : ∀ (fuel : Nat) (buf : Bytes) (offset : Nat) (s : NvS),
    Sim (nvarEntryC pol fuel buf offset s) (newNvarG pol fuel buf offset s)
  | 0, buf, offset, s => by rw [nvarEntryC, newNvarG]; exact sim_lift _
  | fuel+1, buf, offset, s => by
    rw [nvarEntryC, newNvarG]
    refine sim_tick ?_
    refine sim_ite (sim_pure _) ?_
    refine sim_bind (sim_lift _) (fun x => ?_)
    obtain ⟨hb, _⟩ := x
    simp only []
    refine sim_ite sim_err ?_
    refine sim_ite sim_err ?_
    refine sim_ite sim_err ?_
    refine sim_bind (sim_lift _) (fun vbuf => ?_)
    refine sim_ite (sim_pure _) ?_
    refine sim_ite sim_err ?_
    refine sim_bind (sim_lift _) (fun okExt => ?_)
    refine sim_ite (sim_pure _) ?_
    refine sim_bind (sim_lift _) (fun r => ?_)
    obtain ⟨e2, guids⟩ := r
    simp only []
    refine sim_ite ?_ (sim_pure _)
    refine sim_bind (sim_lift _) (fun content => ?_)
    refine sim_ite ?_ (sim_pure _)
    refine sim_bind (sim_call _ _) (fun ns => ?_)
    exact sim_pure _

theorem nvarLoop_sim (pol : UInt8) : ∀ (fuel : Nat) (s : NvS), Sim (nvarLoopC pol fuel s) (nvarLoopG pol fuel s)
  | 0, s => by
    rw [nvarLoopC, nvarLoopG]
    exact sim_ite (sim_lift _) (sim_pure _)
  | fuel+1, s => by
    rw [nvarLoopC, nvarLoopG]
    refine sim_ite ?_ (sim_pure _)
    try simp only []
    refine sim_tick ?_
    refine sim_bind (sim_lift _) (fun eb => ?_)
    refine sim_bind (sim_call _ _) (fun r => ?_)
    cases r with
    | none => exact sim_pure _
    | some x =>
      obtain ⟨e, guids⟩ := x
      exact sim_ite sim_err (nvarLoop_sim pol fuel _)

theorem nvarStore_sim (pol : UInt8) : ∀ (fuel : Nat) (buf : Bytes), Sim (nvarStoreC pol fuel buf) (nvarStoreG pol fuel buf)
  | 0, buf => by rw [nvarStoreC, nvarStoreG]; exact sim_lift _
  | fuel+1, buf => by
    rw [nvarStoreC, nvarStoreG]
    refine sim_tick ?_
    refine sim_bind (sim_lift _) (fun own => ?_)
    refine sim_bind (sim_catch (nvarLoop_sim pol fuel _)) (fun r => ?_)
    exact sim_pure _

/-! ### bounds -/

/-- steps only (nothing is decoded here): a call paid by `2c` -/
def Sd (k k' : Cost) (c : Nat) : Prop := k'.steps + 1 ≤ k.steps + 2 * c ∧ k'.dec = k.dec

/-- a loop over `r` bytes -/
def Sl (k k' : Cost) (r : Nat) : Prop := k'.steps ≤ k.steps + 2 * r ∧ k'.dec = k.dec

def EntryCQ (s : NvS) (buf : Bytes) (k : Cost) (r : Option (NvE × List Bytes)) (k' : Cost) : Prop :=
  match r with
  | some (e, guids) => Sd k k' e.size ∧ 10 ≤ e.size ∧ e.size ≤ buf.length ∧ GuidsFit s.buf guids ∧
      s.guids.length ≤ guids.length
  | none => Sd k k' 1

theorem postC_catch {α} {x : CostM α} {m : Meter} {k : Cost} {P : Cost → Prop}
    (h : PostC x m k (fun _ _ k' => P k') P) {Q : Option α → Meter → Cost → Prop} {E : Cost → Prop}
    (hq : ∀ r m' k', P k' → Q r m' k') (he : ∀ k', P k' → E k') : PostC (catchC x) m k Q E := by
  unfold PostC at h ⊢
  unfold catchC
  cases hx : x m k with
  | mk r k' =>
    rw [hx] at h
    cases r with
    | ok v => obtain ⟨a, m'⟩ := v; exact hq _ _ _ h
    | error e =>
      cases e with
      | err => exact hq _ _ _ h
      | panic s => exact he _ h
      | fuel => exact he _ h

theorem nvarEntryC_step (pol : UInt8) (fuel : Nat)
    (ihStoreB : ∀ buf m k, 2 * buf.length + 2 < fuel →
      PostC (nvarStoreC pol fuel buf) m k (fun _ _ k' => k'.steps ≤ k.steps + 2 * buf.length + 1 ∧ k'.dec = k.dec)
        (fun k' => k'.steps ≤ k.steps + 2 * buf.length + 1 ∧ k'.dec = k.dec))
    (buf : Bytes) (offset : Nat) (s : NvS) (m : Meter) (k : Cost) (hinv : NvInv s) (h1 : 1 ≤ buf.length)
    (hf : 2 * buf.length < fuel + 1) :
    PostC (nvarEntryC pol (fuel+1) buf offset s) m k (fun r _ k' => EntryCQ s buf k r k') (fun k' => Sd k k' buf.length) := by
  rw [nvarEntryC]
  refine postC_bind_tick ?_
  have hE : Sd k { k with steps := k.steps + 1 } buf.length := ⟨by simp only []; omega, rfl⟩
  refine postC_ite (fun _ => postC_pure (by simp only [EntryCQ]; exact ⟨by simp only []; omega, rfl⟩)) (fun _ => ?_)
  refine postC_bind_lift (R := fun r _ => r.1 = buf.take 10) (post'_binaryReadG (fun _ => rfl)) hE ?_
  rintro ⟨hb, _⟩ m1 hhb
  simp only [] at hhb ⊢
  subst hhb
  refine postC_ite (fun _ => postC_err hE) (fun _ => ?_)
  refine postC_ite (fun _ => postC_err hE) (fun hle => ?_)
  refine postC_ite (fun _ => postC_err hE) (fun hge => ?_)
  refine postC_bind_lift (R := fun r _ => r = buf.take (rd (List.take 10 buf) 4 2)) (post'_copyOutG (fun _ _ => rfl)) hE ?_
  intro vbuf m2 hvb
  subst hvb
  have hvl : (buf.take (rd (List.take 10 buf) 4 2)).length = rd (List.take 10 buf) 4 2 := by simp; omega
  have hleaf : ∀ (e : NvE), e.size = rd (List.take 10 buf) 4 2 →
      EntryCQ s buf k (some (e, s.guids)) { k with steps := k.steps + 1 } := by
    intro e he
    simp only [EntryCQ, Sd, he]
    exact ⟨⟨by omega, trivial⟩, by omega, by omega, hinv.2.1, Nat.le_refl _⟩
  refine postC_ite (fun _ => postC_pure (hleaf _ rfl)) (fun _ => ?_)
  refine postC_ite (fun _ => postC_err hE) (fun _ => ?_)
  try simp only []
  refine postC_bind_lift (R := fun _ _ => True)
    (post'_of_post (parseExtHeader_post _ _ _ _ hvl (by omega))) hE ?_
  intro okExt m3 _
  refine postC_ite (fun _ => postC_pure (hleaf _ rfl)) (fun _ => ?_)
  refine postC_bind_lift (post'_of_post (nvIdent_post s _ _ _ _ _ _ hvl (by omega) rfl rfl hinv.2.1)) hE ?_
  rintro ⟨e2, guids⟩ m4 ⟨hd1, hd2, hsz, hfit, hgl⟩
  simp only [] at hd1 hd2 hsz hfit hgl ⊢
  have hplain : EntryCQ s buf k (some (e2, guids)) { k with steps := k.steps + 1 } := by
    simp only [EntryCQ, Sd, hsz]
    exact ⟨⟨by omega, trivial⟩, by omega, by omega, hfit, hgl⟩
  refine postC_ite (fun _ => ?_) (fun _ => postC_pure hplain)
  refine postC_bind_lift (R := fun r _ => r = (buf.take (rd (List.take 10 buf) 4 2)).drop e2.dataOffset)
    (post'_sliceFromG rfl) hE ?_
  intro content m5 hcont
  subst hcont
  have hcl : ((buf.take (rd (List.take 10 buf) 4 2)).drop e2.dataOffset).length = rd (List.take 10 buf) 4 2 - e2.dataOffset := by
    simp; omega
  refine postC_ite (fun _ => ?_) (fun _ => postC_pure ?_)
  · have ih := ihStoreB ((buf.take (rd (List.take 10 buf) 4 2)).drop e2.dataOffset) m5 { k with steps := k.steps + 1 }
      (by rw [hcl]; omega)
    have hc := postC_cost (P := fun k' => k'.steps ≤ k.steps + 1 + 2 * (rd (List.take 10 buf) 4 2 - e2.dataOffset) + 1 ∧
      k'.dec = k.dec) (by rw [hcl] at ih; exact ih)
    refine postC_bind_call (fun e _ => ?_) (fun ns m6 _ => ?_)
    · exact ⟨by omega, hc.2⟩
    · refine postC_pure ?_
      simp only [EntryCQ, Sd, hsz]
      exact ⟨⟨by omega, hc.2⟩, by omega, by omega, hfit, hgl⟩
  · simp only [EntryCQ, Sd, hsz]
    exact ⟨⟨by omega, trivial⟩, by omega, by omega, hfit, hgl⟩

def StoreCP (buf : Bytes) (k k' : Cost) : Prop := k'.steps ≤ k.steps + 2 * buf.length + 1 ∧ k'.dec = k.dec

theorem nvarLoopC_step (pol : UInt8) (fuel : Nat)
    (ihEntry : ∀ buf offset s m k, NvInv s → 1 ≤ buf.length → 2 * buf.length < fuel →
       PostC (nvarEntryC pol fuel buf offset s) m k (fun r _ k' => EntryCQ s buf k r k') (fun k' => Sd k k' buf.length))
    (ihLoop : ∀ s m k, NvInv s → 2 * (s.gso - s.fso) + 1 < fuel →
       PostC (nvarLoopC pol fuel s) m k (fun _ _ k' => Sl k k' (s.gso - s.fso)) (fun k' => Sl k k' (s.gso - s.fso)))
    (s : NvS) (m : Meter) (k : Cost) (hinv : NvInv s) (hf : 2 * (s.gso - s.fso) + 1 < fuel + 1) :
    PostC (nvarLoopC pol (fuel+1) s) m k (fun _ _ k' => Sl k k' (s.gso - s.fso)) (fun k' => Sl k k' (s.gso - s.fso)) := by
  rw [nvarLoopC]
  obtain ⟨hlen, hfit, hgso⟩ := hinv
  refine postC_ite (fun hlt => ?_) (fun _ => postC_pure ⟨by omega, rfl⟩)
  try simp only []
  refine postC_bind_tick ?_
  have hE : Sl k { k with steps := k.steps + 1 } (s.gso - s.fso) := ⟨by simp only []; omega, rfl⟩
  refine postC_bind_lift (R := fun r _ => r = (s.buf.drop s.fso).take (s.gso - s.fso)) (post'_sliceG rfl) hE ?_
  intro eb m1 heb
  subst heb
  have hel : ((s.buf.drop s.fso).take (s.gso - s.fso)).length = s.gso - s.fso := by simp; omega
  have ih := ihEntry ((s.buf.drop s.fso).take (s.gso - s.fso)) s.fso s m1 { k with steps := k.steps + 1 }
    ⟨hlen, hfit, hgso⟩ (by rw [hel]; omega) (by rw [hel]; omega)
  obtain ⟨ihok, iherr⟩ := postC_model (nvarEntry_sim pol fuel _ s.fso s) ih
  refine postC_bind_call (fun e hee => ?_) (fun r m2 hr => ?_)
  · have := iherr e hee
    rw [hel] at this
    simp only [Sd, Sl] at this ⊢
    omega
  · have hq := ihok r m2 hr
    split
    · simp only [EntryCQ] at hq
      refine postC_pure ?_
      simp only [Sd, Sl] at hq ⊢
      omega
    · rename_i e guids
      simp only [EntryCQ] at hq
      obtain ⟨hsd, h10, hsz, hfit', hgl⟩ := hq
      rw [hel] at hsz
      have hrec := ihLoop { s with entries := s.entries ++ [e], guids := guids, fso := s.fso + e.size,
                                   gso := s.length - 16 * guids.length } m2
        (costOf (nvarEntryC pol fuel (List.take (s.gso - s.fso) (List.drop s.fso s.buf)) s.fso s) m1
          { k with steps := k.steps + 1 })
        ⟨hlen, hfit', rfl⟩ (by simp only []; unfold GuidsFit at hfit hfit'; omega)
      refine postC_ite (fun _ => postC_err ?_) (fun _ => ?_)
      · simp only [Sd, Sl] at hsd ⊢
        omega
      refine postC_mono hrec (fun _ _ k3 hk3 => ?_) (fun k3 hk3 => ?_)
      · simp only [Sd, Sl] at hsd hk3 ⊢
        unfold GuidsFit at hfit hfit'
        omega
      · simp only [Sd, Sl] at hsd hk3 ⊢
        unfold GuidsFit at hfit hfit'
        omega

theorem nvarStoreC_step (pol : UInt8) (fuel : Nat)
    (ihLoop : ∀ s m k, NvInv s → 2 * (s.gso - s.fso) + 1 < fuel →
       PostC (nvarLoopC pol fuel s) m k (fun _ _ k' => Sl k k' (s.gso - s.fso)) (fun k' => Sl k k' (s.gso - s.fso)))
    (buf : Bytes) (m : Meter) (k : Cost) (hf : 2 * buf.length + 2 < fuel + 1) :
    PostC (nvarStoreC pol (fuel+1) buf) m k (fun _ _ k' => StoreCP buf k k') (fun k' => StoreCP buf k k') := by
  rw [nvarStoreC]
  refine postC_bind_tick ?_
  have hE : StoreCP buf k { k with steps := k.steps + 1 } := ⟨by simp only []; omega, rfl⟩
  refine postC_bind_lift (R := fun r _ => r = buf) (post'_of_post (post_cloneG rfl)) hE ?_
  intro own m1 hown
  subst hown
  have ih := ihLoop { buf := own, gso := own.length, length := own.length } m1 { k with steps := k.steps + 1 }
    ⟨rfl, by simp [GuidsFit], by simp⟩ (by simp only []; omega)
  simp only [] at ih
  refine postC_bind (R := fun _ _ k' => StoreCP own k k') (postC_catch ih (fun _ _ k' hk' => ?_) (fun k' hk' => ?_)) ?_
  · simp only [Sl, StoreCP] at hk' ⊢; omega
  · simp only [Sl, StoreCP] at hk' ⊢; omega
  · intro r m2 k2 hk2
    exact postC_pure hk2

theorem nvar_mutual_cost (pol : UInt8) : ∀ fuel,
    (∀ buf offset s m k, NvInv s → 1 ≤ buf.length → 2 * buf.length < fuel →
       PostC (nvarEntryC pol fuel buf offset s) m k (fun r _ k' => EntryCQ s buf k r k') (fun k' => Sd k k' buf.length)) ∧
    (∀ s m k, NvInv s → 2 * (s.gso - s.fso) + 1 < fuel →
       PostC (nvarLoopC pol fuel s) m k (fun _ _ k' => Sl k k' (s.gso - s.fso)) (fun k' => Sl k k' (s.gso - s.fso))) ∧
    (∀ buf m k, 2 * buf.length + 2 < fuel →
       PostC (nvarStoreC pol fuel buf) m k (fun _ _ k' => StoreCP buf k k') (fun k' => StoreCP buf k k')) := by
  intro fuel
  induction fuel with
  | zero => refine ⟨?_, ?_, ?_⟩ <;> intros <;> omega
  | succ fuel ih =>
    obtain ⟨ihE, ihL, ihS⟩ := ih
    exact ⟨fun buf offset s m k hinv h1 hf => nvarEntryC_step pol fuel ihS buf offset s m k hinv h1 hf,
           fun s m k hinv hf => nvarLoopC_step pol fuel ihE ihL s m k hinv hf,
           fun buf m k hf => nvarStoreC_step pol fuel ihL buf m k hf⟩

/-- **NewNVarStore**: at most `2·|buf| + 1` steps on every run, nothing decoded -/
theorem nvarStoreCost_le (pol : UInt8) (buf : Bytes) (m : Meter) (k : Cost) :
    (nvarStoreCost pol buf m k).steps ≤ k.steps + 2 * buf.length + 1 ∧ (nvarStoreCost pol buf m k).dec = k.dec := by
  unfold nvarStoreCost
  exact postC_cost (P := fun k' => StoreCP buf k k')
    ((nvar_mutual_cost pol _).2.2 buf m k (by unfold nvarFuel; omega))

/-- the hook of `parseFileG` costs what `NvarBd` allows -/
theorem nvarHookCost_bd : NvarBd nvarHookCost := by
  intro nb pol m k
  have := nvarStoreCost_le pol nb m k
  unfold nvarHookCost
  omega

end Fiano.Uefi.Total
