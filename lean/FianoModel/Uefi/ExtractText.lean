/-
  Lemmas for property C07 about the text of path components: `%d` and `%#x` are injective, no
  component contains a `/`, the different kinds of component cannot be confused, and
  `filepath.Join` is injective on lists of such components.
-/
import FianoModel.Uefi.Extract

namespace Fiano.Uefi
open Fiano

/-! ### digits -/

def val10 : List Nat → Nat
  | [] => 0
  | d :: ds => d + 10 * val10 ds

def val16 : List Nat → Nat
  | [] => 0
  | d :: ds => d + 16 * val16 ds

theorem val10_digits10 : ∀ (fuel n : Nat), n < fuel → val10 (digits10 fuel n) = n
  | 0, _, h => by omega
  | fuel+1, n, h => by
    unfold digits10
    split
    · simp [val10]
    · rename_i hn
      have := val10_digits10 fuel (n / 10) (by omega)
      simp only [val10, this]
      omega

theorem val16_digits16 : ∀ (fuel n : Nat), n < fuel → val16 (digits16 fuel n) = n
  | 0, _, h => by omega
  | fuel+1, n, h => by
    unfold digits16
    split
    · simp [val16]
    · rename_i hn
      have := val16_digits16 fuel (n / 16) (by omega)
      simp only [val16, this]
      omega

theorem digits10_lt : ∀ (fuel n : Nat), ∀ d ∈ digits10 fuel n, d < 10
  | 0, _, d, h => by simp [digits10] at h
  | fuel+1, n, d, h => by
    unfold digits10 at h
    split at h
    · simp at h; omega
    · simp only [List.mem_cons] at h
      rcases h with rfl | h
      · omega
      · exact digits10_lt fuel _ d h

theorem digits16_lt : ∀ (fuel n : Nat), ∀ d ∈ digits16 fuel n, d < 16
  | 0, _, d, h => by simp [digits16] at h
  | fuel+1, n, d, h => by
    unfold digits16 at h
    split at h
    · simp at h; omega
    · simp only [List.mem_cons] at h
      rcases h with rfl | h
      · omega
      · exact digits16_lt fuel _ d h

theorem digits10_ne_nil (n : Nat) : digits10 (n + 1) n ≠ [] := by
  unfold digits10; split <;> simp

theorem digits16_ne_nil (n : Nat) : digits16 (n + 1) n ≠ [] := by
  unfold digits16; split <;> simp

theorem lowDigit_inj (a b : Nat) (ha : a < 16) (hb : b < 16) (h : lowDigit a = lowDigit b) : a = b := by
  unfold lowDigit at h
  have := congrArg UInt8.toNat h
  simp only [UInt8.toNat_ofNat'] at this
  split at this <;> split at this <;> omega

theorem map_lowDigit_inj : ∀ (l1 l2 : List Nat), (∀ d ∈ l1, d < 16) → (∀ d ∈ l2, d < 16) →
    l1.map lowDigit = l2.map lowDigit → l1 = l2
  | [], [], _, _, _ => rfl
  | [], _ :: _, _, _, h => by simp at h
  | _ :: _, [], _, _, h => by simp at h
  | a :: l1, b :: l2, h1, h2, h => by
    simp only [List.map_cons, List.cons.injEq] at h
    have hab := lowDigit_inj a b (h1 a (by simp)) (h2 b (by simp)) h.1
    have := map_lowDigit_inj l1 l2 (fun d hd => h1 d (by simp [hd])) (fun d hd => h2 d (by simp [hd])) h.2
    rw [hab, this]

theorem decStr_inj (a b : Nat) (h : decStr a = decStr b) : a = b := by
  unfold decStr at h
  have h1 := map_lowDigit_inj _ _
    (fun d hd => by have := digits10_lt (a + 1) a d (by simpa using hd); omega)
    (fun d hd => by have := digits10_lt (b + 1) b d (by simpa using hd); omega) h
  have h2 : digits10 (a + 1) a = digits10 (b + 1) b := by simpa using congrArg List.reverse h1
  have := congrArg val10 h2
  rwa [val10_digits10 _ _ (by omega), val10_digits10 _ _ (by omega)] at this

theorem hexStr_inj (a b : Nat) (h : hexStr a = hexStr b) : a = b := by
  unfold hexStr at h
  have h0 := List.append_cancel_left h
  have h1 := map_lowDigit_inj _ _
    (fun d hd => by have := digits16_lt (a + 1) a d (by simpa using hd); omega)
    (fun d hd => by have := digits16_lt (b + 1) b d (by simpa using hd); omega) h0
  have h2 : digits16 (a + 1) a = digits16 (b + 1) b := by simpa using congrArg List.reverse h1
  have := congrArg val16 h2
  rwa [val16_digits16 _ _ (by omega), val16_digits16 _ _ (by omega)] at this

/-! ### no component contains a slash -/

/-- a byte string that can be one path component -/
def SlashFree (c : Bytes) : Prop := slash ∉ c

theorem lowDigit_toNat (d : Nat) (h : d < 16) : (lowDigit d).toNat = if d < 10 then 48 + d else 87 + d := by
  unfold lowDigit
  simp only [UInt8.toNat_ofNat']
  split <;> omega

theorem upDigit_toNat (d : Nat) (h : d < 16) : (upDigit d).toNat = if d < 10 then 48 + d else 55 + d := by
  unfold upDigit
  simp only [UInt8.toNat_ofNat']
  split <;> omega

theorem slash_toNat : slash.toNat = 47 := rfl

theorem lowDigit_ne_slash (d : Nat) (h : d < 16) : lowDigit d ≠ slash := by
  intro hc
  have := congrArg UInt8.toNat hc
  rw [lowDigit_toNat d h, slash_toNat] at this
  split at this <;> omega

theorem upDigit_ne_slash (d : Nat) (h : d < 16) : upDigit d ≠ slash := by
  intro hc
  have := congrArg UInt8.toNat hc
  rw [upDigit_toNat d h, slash_toNat] at this
  split at this <;> omega

theorem slashFree_append {a b : Bytes} (ha : SlashFree a) (hb : SlashFree b) : SlashFree (a ++ b) := by
  unfold SlashFree at *
  simp [ha, hb]

theorem slashFree_decStr (n : Nat) : SlashFree (decStr n) := by
  unfold SlashFree decStr
  intro h
  simp only [List.mem_map, List.mem_reverse] at h
  obtain ⟨d, hd, he⟩ := h
  exact lowDigit_ne_slash d (by have := digits10_lt _ _ d hd; omega) he

theorem slashFree_hexStr (n : Nat) : SlashFree (hexStr n) := by
  unfold hexStr
  apply slashFree_append
  · unfold SlashFree; decide
  · unfold SlashFree
    intro h
    simp only [List.mem_map, List.mem_reverse] at h
    obtain ⟨d, hd, he⟩ := h
    exact lowDigit_ne_slash d (digits16_lt _ _ d hd) he

theorem slashFree_hex2U (x : UInt8) : SlashFree (hex2U x) := by
  unfold SlashFree hex2U
  have hx := x.toNat_lt
  simp only [List.mem_cons, List.not_mem_nil, or_false, not_or]
  exact ⟨fun h => upDigit_ne_slash _ (by omega) h.symm, fun h => upDigit_ne_slash _ (by omega) h.symm⟩

theorem slashFree_dash : SlashFree (asc ['-']) := by unfold SlashFree; decide

theorem slashFree_guidStr (g : Guid) : SlashFree (guidStr g) := by
  unfold guidStr
  simp only
  repeat' apply slashFree_append
  all_goals first | exact slashFree_hex2U _ | exact slashFree_dash

theorem slashFree_regionName (t : Int) : SlashFree (regionName t) := by
  unfold regionName
  split
  · rename_i n hn
    split at hn
    · have hmem : n ∈ regionNames := List.mem_of_getElem? hn
      have : ∀ m ∈ regionNames, SlashFree m := by unfold SlashFree; decide
      exact this n hmem
    · cases hn
  · apply slashFree_append
    · apply slashFree_append
      · unfold SlashFree; decide
      · split
        · exact slashFree_append slashFree_dash (slashFree_decStr _)
        · exact slashFree_decStr _
    · unfold SlashFree; decide

theorem slashFree_consts : SlashFree extSec ∧ SlashFree extFfs ∧ SlashFree extBin ∧ SlashFree nameFv ∧ SlashFree nameFvh ∧
    SlashFree namePad ∧ SlashFree nameIfd ∧ SlashFree nameIfdBin ∧ SlashFree nameBios ∧ SlashFree nameBiosBin ∧
    SlashFree nameMe ∧ SlashFree nameMeBin ∧ SlashFree biospadPrefix := by
  unfold SlashFree; decide

/-! ### the kinds of component cannot be confused -/

/-- a decimal number is not a `0x…` number: its second character would be a digit, not `x` -/
theorem decStr_ne_hexStr (a b : Nat) : decStr a ≠ hexStr b := by
  intro h
  unfold decStr hexStr at h
  have h1 : (List.map lowDigit (digits10 (a + 1) a).reverse)[1]? = some (UInt8.ofNat 120) := by
    rw [h]; simp [asc]
  have hmem : UInt8.ofNat 120 ∈ List.map lowDigit (digits10 (a + 1) a).reverse := List.mem_of_getElem? h1
  simp only [List.mem_map, List.mem_reverse] at hmem
  obtain ⟨d, hd, he⟩ := hmem
  have hd' := digits10_lt _ _ d hd
  have := congrArg UInt8.toNat he
  rw [lowDigit_toNat d (by omega)] at this
  simp only [hd', ↓reduceIte, UInt8.toNat_ofNat'] at this
  omega

theorem biospad_ne_hexStr (a b : Nat) : biospadPrefix ++ hexStr a ≠ hexStr b := by
  intro h
  have := congrArg (fun l => l.head?) h
  simp [biospadPrefix, hexStr, asc] at this

theorem biospad_inj (a b : Nat) (h : biospadPrefix ++ hexStr a = biospadPrefix ++ hexStr b) : a = b :=
  hexStr_inj a b (List.append_cancel_left h)

theorem hexBin_inj (a b : Nat) (h : hexStr a ++ extBin = hexStr b ++ extBin) : a = b :=
  hexStr_inj a b (List.append_cancel_right h)

/-- `ifd`, `bios` and `me` are not region type names -/
theorem regionName_ne (t : Int) : regionName t ≠ nameIfd ∧ regionName t ≠ nameBios ∧ regionName t ≠ nameMe := by
  unfold regionName
  split
  · rename_i n hn
    split at hn
    · have hmem : n ∈ regionNames := List.mem_of_getElem? hn
      have : ∀ m ∈ regionNames, m ≠ nameIfd ∧ m ≠ nameBios ∧ m ≠ nameMe := by decide
      exact this n hmem
    · cases hn
  · refine ⟨?_, ?_, ?_⟩ <;>
    · intro h
      have := congrArg (fun l => l.head?) h
      simp [nameIfd, nameBios, nameMe, asc] at this

/-! ### `filepath.Join` is injective on clean components -/

theorem joinPath_cons_cons (c c2 : Comp) (cs : List Comp) :
    joinPath (c :: c2 :: cs) = c ++ slash :: joinPath (c2 :: cs) := rfl

/-- splitting at the first slash is unambiguous -/
theorem split_first_slash : ∀ (a b x y : Bytes), SlashFree a → SlashFree b →
    a ++ slash :: x = b ++ slash :: y → a = b ∧ x = y
  | [], [], _, _, _, _, h => by simpa using h
  | [], c :: b, _, _, _, hb, h => by
    simp only [List.nil_append, List.cons_append, List.cons.injEq] at h
    exact absurd (by simp [h.1]) hb
  | c :: a, [], _, _, ha, _, h => by
    simp only [List.nil_append, List.cons_append, List.cons.injEq] at h
    exact absurd (by simp [h.1]) ha
  | c :: a, d :: b, x, y, ha, hb, h => by
    simp only [List.cons_append, List.cons.injEq] at h
    have := split_first_slash a b x y (fun hm => ha (by simp [hm])) (fun hm => hb (by simp [hm])) h.2
    exact ⟨by rw [h.1, this.1], this.2⟩

theorem slashFree_ne_slashed (a b x : Bytes) (ha : SlashFree a) : a ≠ b ++ slash :: x := by
  intro h
  apply ha
  rw [h]
  simp

theorem joinPath_inj : ∀ (p q : List Comp), (∀ c ∈ p, SlashFree c) → (∀ c ∈ q, SlashFree c) → p ≠ [] → q ≠ [] →
    joinPath p = joinPath q → p = q
  | [], _, _, _, h, _, _ => absurd rfl h
  | _, [], _, _, _, h, _ => absurd rfl h
  | [c], [d], _, _, _, _, h => by simpa [joinPath] using h
  | [c], d :: d2 :: ds, hp, _, _, _, h => by
    simp only [joinPath] at h
    exact absurd h (slashFree_ne_slashed c d _ (hp c (by simp)))
  | c :: c2 :: cs, [d], _, hq, _, _, h => by
    simp only [joinPath] at h
    exact absurd h.symm (slashFree_ne_slashed d c _ (hq d (by simp)))
  | c :: c2 :: cs, d :: d2 :: ds, hp, hq, _, _, h => by
    rw [joinPath_cons_cons, joinPath_cons_cons] at h
    have hs := split_first_slash c d _ _ (hp c (by simp)) (hq d (by simp)) h
    have := joinPath_inj (c2 :: cs) (d2 :: ds) (fun x hx => hp x (by simp [hx])) (fun x hx => hq x (by simp [hx]))
      (by simp) (by simp) hs.2
    rw [hs.1, this]

end Fiano.Uefi
