/-
  C05 — safety of the GoM NVAR store parser (TotalNvar.lean): for every byte string and every erase
  polarity the result is a store or an ordinary error — never a slice / index panic, never out of fuel.

  Progress: an accepted entry has `Size ≥ 10` (the repaired parseHeader), so the walk advances by at
  least 10 bytes per entry; a nested store lives in the content of its entry, at least 10 bytes shorter
  than the entry.  Potential: store `2n+2`, loop `2r+1`, entry `2r` (n, r = bytes in hand).
-/
import FianoModel.Uefi.TotalNvar
import FianoModel.Uefi.TotalFvSafe

namespace Fiano.Uefi.Total
open Fiano GoM Fiano.Uefi

theorem indexZero_lt (b : Bytes) (e : Nat) (h : indexZero b = some e) : e < b.length := by
  induction b generalizing e with
  | nil => simp [indexZero] at h
  | cons x xs ih =>
    simp only [indexZero] at h
    split at h
    · cases h; simp
    · cases hx : indexZero xs with
      | none => simp [hx] at h
      | some k =>
        simp [hx] at h
        have := ih k hx
        simp; omega

theorem indexZero16_le : ∀ (b : Bytes) (e : Nat), indexZero16 b = some e → e + 2 ≤ b.length
  | [], e, h => by simp [indexZero16] at h
  | [_], e, h => by simp [indexZero16] at h
  | a :: b :: rest, e, h => by
    simp only [indexZero16] at h
    split at h
    · cases h; simp
    · cases hx : indexZero16 rest with
      | none => simp [hx] at h
      | some k =>
        simp [hx] at h
        have := indexZero16_le rest k hx
        simp; omega

/-- the GUID store never claims more than the store buffer holds -/
def GuidsFit (sbuf : Bytes) (guids : List Bytes) : Prop := 16 * guids.length ≤ sbuf.length

theorem getGuidFromStore_post (sbuf : Bytes) (guids : List Bytes) (i : Nat) (m : Meter)
    (hfit : GuidsFit sbuf guids) :
    Post (getGuidFromStoreG sbuf guids i) m (fun r _ => GuidsFit sbuf r.2 ∧ guids.length ≤ r.2.length) := by
  unfold getGuidFromStoreG
  refine post_bind' (R := fun r _ => match r with
      | some gs => GuidsFit sbuf gs ∧ guids.length ≤ gs.length | none => True) ?_ ?_
  · split
    · split
      · exact post_pure trivial
      · rename_i hlt hge
        refine post_bind (post_allocG ?_)
        refine post_pure ?_
        simp only [GuidsFit, List.length_append, List.length_map, List.length_range]
        constructor <;> omega
    · exact post_pure ⟨hfit, Nat.le_refl _⟩
  · intro r m1 hr
    split
    · exact post_pure ⟨hfit, Nat.le_refl _⟩
    · rename_i gs
      simp only [] at hr
      split
      · exact post_pure hr
      · rename_i hi
        have hlt : i < gs.length := by omega
        rw [List.getElem?_eq_getElem hlt]
        exact post_pure hr

theorem parseExtHeader_post (vbuf : Bytes) (size attrs : Nat) (m : Meter)
    (hl : vbuf.length = size) (hs : 10 ≤ size) :
    Post (parseExtHeaderG vbuf size attrs) m (fun _ _ => True) := by
  unfold parseExtHeaderG
  split
  · exact post_pure trivial
  · split
    · exact post_pure trivial
    · try simp only []
      split
      · exact post_pure trivial
      · split
        · exact post_pure trivial
        · refine post_bind' (R := fun _ _ => True) ?_ ?_
          · unfold extChecksumG
            split
            · refine post_bind (post_indexG (by omega) ?_)
              split
              · omega
              · exact post_pure trivial
            · exact post_pure trivial
          · intro _ m1 _
            unfold extTailG
            split
            · split
              · exact post_pure trivial
              · split
                · try simp only []
                  split
                  · exact post_pure trivial
                  · rename_i hh
                    refine post_bind (post_allocG ?_)
                    refine post_bind (post_sliceG (by omega) ?_)
                    exact post_pure trivial
                · exact post_pure trivial
            · exact post_pure trivial

theorem ite_size (c : Prop) [Decidable c] (a b : NvE) (h : a.size = b.size) :
    (if c then a else b).size = b.size := by split <;> simp [h]
theorem ite_dataOffset (c : Prop) [Decidable c] (a b : NvE) (h : a.dataOffset = b.dataOffset) :
    (if c then a else b).dataOffset = b.dataOffset := by split <;> simp [h]

/-- what `nvIdentG` returns: data offset inside the entry, GUID store still fitting and not shrunk -/
def IdentQ (s : NvS) (size : Nat) (r : NvE × List Bytes) : Prop :=
  10 ≤ r.1.dataOffset ∧ r.1.dataOffset ≤ size ∧ r.1.size = size ∧ GuidsFit s.buf r.2 ∧ s.guids.length ≤ r.2.length

theorem nvIdent_post (s : NvS) (vbuf : Bytes) (attrs : Nat) (e1 : NvE) (offset : Nat) (m : Meter) (size : Nat)
    (hl : vbuf.length = size) (hs : 10 ≤ size) (he : e1.dataOffset = 10) (hes : e1.size = size)
    (hfit : GuidsFit s.buf s.guids) :
    Post (nvIdentG s vbuf attrs e1 offset) m (fun r _ => IdentQ s size r) := by
  unfold nvIdentG
  split
  · split
    · exact post_pure ⟨by simp [he], by simp [he]; omega, by simp [hes], hfit, Nat.le_refl _⟩
    · exact post_pure ⟨by simp [he], by simp [he]; omega, by simp [hes], hfit, Nat.le_refl _⟩
  · refine post_bind (post_sliceFromG (by omega) ?_)
    have hgl : (vbuf.drop 10).length = size - 10 := by simp [hl]
    refine post_bind' (R := fun r _ => (r.2.2 = 26 ∨ r.2.2 = 11) ∧ r.2.2 ≤ size ∧ GuidsFit s.buf r.2.1 ∧
        s.guids.length ≤ r.2.1.length) ?_ ?_
    · split
      · refine post_bind (post_binaryReadG ?_)
        intro h16
        try simp only []
        exact post_pure ⟨Or.inl rfl, by simp; omega, hfit, Nat.le_refl _⟩
      · refine post_bind (post_binaryReadG ?_)
        intro h1
        try simp only []
        refine post_bind' (getGuidFromStore_post _ _ _ _ hfit) ?_
        rintro ⟨gg, gs⟩ m1 ⟨hf, hg⟩
        exact post_pure ⟨Or.inr rfl, by simp; omega, hf, hg⟩
    · rintro ⟨g, guids, dOff⟩ m1 ⟨hd, hle, hf, hg⟩
      simp only [] at hd hle hf hg ⊢
      refine post_bind (post_sliceFromG (by omega) ?_)
      have hnl : (vbuf.drop dOff).length = size - dOff := by simp [hl]
      split
      · split
        · exact post_err
        · rename_i e hz
          have := indexZero_lt _ _ hz
          refine post_bind (post_sliceToG (by omega) ?_)
          exact post_pure ⟨by simp; omega, by simp; omega, by simp [hes], hf, hg⟩
      · split
        · exact post_err
        · rename_i e hz
          have := indexZero16_le _ _ hz
          refine post_bind (post_sliceToG (by omega) ?_)
          refine post_bind' (post_ucs2 _ _) ?_
          intro cps m2 _
          exact post_pure ⟨by simp; omega, by simp; omega, by simp [hes], hf, hg⟩

/-- loop invariant of `NewNVarStore` -/
def NvInv (s : NvS) : Prop :=
  s.length = s.buf.length ∧ GuidsFit s.buf s.guids ∧ s.gso = s.length - 16 * s.guids.length

def EntryQ (s : NvS) (buf : Bytes) (r : Option (NvE × List Bytes)) : Prop :=
  match r with
  | some (e, guids) => 10 ≤ e.size ∧ e.size ≤ buf.length ∧ GuidsFit s.buf guids ∧ s.guids.length ≤ guids.length
  | none => True

theorem nvar_entry_step (pol : UInt8) (fuel : Nat)
    (ihStore : ∀ buf m, 2 * buf.length + 2 < fuel → Post (nvarStoreG pol fuel buf) m (fun _ _ => True))
    (buf : Bytes) (offset : Nat) (s : NvS) (m : Meter) (hinv : NvInv s) (hf : 2 * buf.length < fuel + 1) :
    Post (newNvarG pol (fuel+1) buf offset s) m (fun r _ => EntryQ s buf r) := by
  rw [newNvarG]
  split
  · exact post_pure trivial
  · refine post_bind (post_binaryReadG ?_)
    intro h10
    try simp only []
    split
    · exact post_err
    · split
      · exact post_err
      · split
        · exact post_err
        · rename_i hle hge
          refine post_bind (post_copyOutG (by omega) ?_)
          have hvl : (buf.take (rd (List.take 10 buf) 4 2)).length = rd (List.take 10 buf) 4 2 := by
            simp; omega
          split
          · exact post_pure ⟨by simp; omega, by simp; omega, hinv.2.1, Nat.le_refl _⟩
          · split
            · exact post_err
            · try simp only []
              refine post_bind' (parseExtHeader_post _ _ _ _ hvl (by omega)) ?_
              intro okExt m1 _
              split
              · refine post_pure ⟨?_, ?_, hinv.2.1, Nat.le_refl _⟩
                · simp only []; omega
                · simp only []; omega
              · refine post_bind' (nvIdent_post s _ _ _ _ _ _ hvl (by omega) rfl rfl hinv.2.1) ?_
                · rintro ⟨e2, guids⟩ m2 ⟨hd1, hd2, hsz, hfit, hgl⟩
                  simp only [] at hd1 hd2 hsz hfit hgl ⊢
                  split
                  · refine post_bind (post_sliceFromG (by omega) ?_)
                    split
                    · refine post_bind' (ihStore _ _ (by simp [hvl]; omega)) ?_
                      intro ns m3 _
                      exact post_pure ⟨by simp [hsz]; omega, by simp [hsz]; omega, hfit, hgl⟩
                    · exact post_pure ⟨by simp [hsz]; omega, by simp [hsz]; omega, hfit, hgl⟩
                  · exact post_pure ⟨by simp [hsz]; omega, by simp [hsz]; omega, hfit, hgl⟩

theorem nvar_loop_step (pol : UInt8) (fuel : Nat)
    (ihEntry : ∀ buf offset s m, NvInv s → 2 * buf.length < fuel →
       Post (newNvarG pol fuel buf offset s) m (fun r _ => EntryQ s buf r))
    (ihLoop : ∀ s m, NvInv s → 2 * (s.gso - s.fso) + 1 < fuel → Post (nvarLoopG pol fuel s) m (fun _ _ => True))
    (s : NvS) (m : Meter) (hinv : NvInv s) (hf : 2 * (s.gso - s.fso) + 1 < fuel + 1) :
    Post (nvarLoopG pol (fuel+1) s) m (fun _ _ => True) := by
  rw [nvarLoopG]
  obtain ⟨hlen, hfit, hgso⟩ := hinv
  split
  · rename_i hlt
    try simp only []
    refine post_bind (post_sliceG (by omega) ?_)
    have hel : ((s.buf.drop s.fso).take (s.gso - s.fso)).length = s.gso - s.fso := by simp; omega
    refine post_bind' (ihEntry _ s.fso s _ ⟨hlen, hfit, hgso⟩ (by rw [hel]; omega)) ?_
    intro r m1 hr
    split
    · exact post_pure trivial
    · rename_i e guids
      simp only [EntryQ] at hr
      obtain ⟨h10, hsz, hfit', hgl⟩ := hr
      rw [hel] at hsz
      split
      · exact post_err
      · refine ihLoop _ _ ⟨hlen, hfit', rfl⟩ ?_
        simp only []
        unfold GuidsFit at hfit hfit'
        omega
  · exact post_pure trivial

theorem nvar_store_step (pol : UInt8) (fuel : Nat)
    (ihLoop : ∀ s m, NvInv s → 2 * (s.gso - s.fso) + 1 < fuel → Post (nvarLoopG pol fuel s) m (fun _ _ => True))
    (buf : Bytes) (m : Meter) (hf : 2 * buf.length + 2 < fuel + 1) :
    Post (nvarStoreG pol (fuel+1) buf) m (fun _ _ => True) := by
  rw [nvarStoreG]
  refine post_bind (post_cloneG ?_)
  refine post_bind' (R := fun _ _ => True) ?_ ?_
  · refine post_catchErrG (Q := fun _ _ => True) (ihLoop _ _ ?_ ?_) (fun _ _ _ => trivial) trivial
    · exact ⟨rfl, by simp [GuidsFit], by simp⟩
    · simp only []; omega
  · intro _ _ _
    exact post_pure trivial

theorem nvar_mutual (pol : UInt8) : ∀ fuel,
    (∀ buf offset s m, NvInv s → 2 * buf.length < fuel →
       Post (newNvarG pol fuel buf offset s) m (fun r _ => EntryQ s buf r)) ∧
    (∀ s m, NvInv s → 2 * (s.gso - s.fso) + 1 < fuel → Post (nvarLoopG pol fuel s) m (fun _ _ => True)) ∧
    (∀ buf m, 2 * buf.length + 2 < fuel → Post (nvarStoreG pol fuel buf) m (fun _ _ => True)) := by
  intro fuel
  induction fuel with
  | zero => refine ⟨?_, ?_, ?_⟩ <;> intros <;> omega
  | succ fuel ih =>
    obtain ⟨ihE, ihL, ihS⟩ := ih
    exact ⟨fun buf offset s m hinv hf => nvar_entry_step pol fuel ihS buf offset s m hinv hf,
           fun s m hinv hf => nvar_loop_step pol fuel ihE ihL s m hinv hf,
           fun buf m hf => nvar_store_step pol fuel ihL buf m hf⟩

/-- **NewNVarStore is total** for every byte string and polarity -/
theorem newNvarStoreG_safe (pol : UInt8) (buf : Bytes) (m : Meter) :
    Post (newNvarStoreG pol buf) m (fun _ _ => True) :=
  (nvar_mutual pol _).2.2 buf m (by unfold nvarFuel; omega)

theorem nvarHook_ok : ∀ b p m, Post (nvarHook b p) m (fun _ _ => True) := by
  intro b p m
  unfold nvarHook
  refine post_bind' (newNvarStoreG_safe p b m) ?_
  intro r _ _
  split <;> exact post_pure trivial

end Fiano.Uefi.Total
