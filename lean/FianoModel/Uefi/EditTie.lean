/-
  T1 tie for the edit-operation model (Uefi/Visitors.lean, Uefi/Guid.lean): facts regenerated from
  pkg/visitors, pkg/uefi and pkg/guid on every build (Gen/UefiEdit.lean, UefiEditTypes.lean,
  UefiEditGuid.lean) compared with what the model assumes.

  Identifier names in the inventories are normalised by the translator (recv / node / local), so a
  rename is not an alarm; a new assignment through a firmware node in a read-only command, a moved
  WriteFile, a second surgery site in Insert.Visit … changes a list and breaks a theorem here.
-/
import FianoModel.Uefi.Guid
import FianoModel.Uefi.Tie
import FianoModel.Gen.UefiEdit
import FianoModel.Gen.UefiEditTypes
import FianoModel.Gen.UefiEditGuid

namespace Fiano.Uefi.EditTie
open Fiano Fiano.Uefi Fiano.Gen

/-! ### constants the model branches on -/
theorem tie_peim : fileTypePEIM = UefiEditTypes.FVFileTypePEIM := by decide
theorem tie_pe32 : secTypePE32 = UefiEditTypes.SectionTypePE32 := by decide
theorem tie_dxeCore : fileTypeDXECore = UefiEditTypes.FVFileTypeDXECore := by decide
theorem tie_padType : UefiEditTypes.FVFileTypePad = 0xF0 ∧ UefiEditTypes.FileStateValid = 0x07 := by decide
/-- `ReplacePE32.Run` insists on the two bytes "MZ" -/
theorem tie_mz : UefiEdit.bytelits_ReplacePE32_Run = ["MZ"] ∧ "MZ".toList.map Char.toNat = [0x4D, 0x5A] := by decide

/-! ### C03, read-only commands: no statement of find / json / table / count / validate / cat / dump /
    comment assigns through a firmware node or calls a mutating method -/
theorem readonly_inventory :
    UefiEdit.nodewrites_Find_Run = [] ∧ UefiEdit.nodewrites_Find_Visit = [] ∧
    UefiEdit.nodewrites_JSON_Run = [] ∧ UefiEdit.nodewrites_JSON_Visit = [] ∧
    UefiEdit.nodewrites_Table_Run = [] ∧ UefiEdit.nodewrites_Table_Visit = [] ∧
    UefiEdit.nodewrites_Table_printFirmware = [] ∧ UefiEdit.nodewrites_printRowLayout = [] ∧
    UefiEdit.nodewrites_printRowStd = [] ∧ UefiEdit.nodewrites_scanGUID = [] ∧
    UefiEdit.nodewrites_Count_Run = [] ∧ UefiEdit.nodewrites_Count_Visit = [] ∧
    UefiEdit.nodewrites_Validate_Run = [] ∧ UefiEdit.nodewrites_Validate_Visit = [] ∧
    UefiEdit.nodewrites_Cat_Run = [] ∧ UefiEdit.nodewrites_Cat_Visit = [] ∧
    UefiEdit.nodewrites_Dump_Run = [] ∧ UefiEdit.nodewrites_Dump_Visit = [] ∧
    UefiEdit.nodewrites_Comment_Run = [] ∧ UefiEdit.nodewrites_Comment_Visit = [] ∧
    UefiEditTypes.nodewrites_Read3Size = [] := by decide
/-- positive control: the same inventory does see why `flatten` is not in the read-only list -/
theorem flatten_is_seen : UefiEdit.nodewrites_Flatten_Run =
    ["node.Elements", "node.Sections", "node.Files", "node.Regions", "node.Encapsulated"] := by decide

/-! ### where the editing commands write -/
/-- Insert: the volume-matched branch writes the matched volume's list (front, end); the visitor
    writes the list of the volume that holds the match, in five ways (front, end/dxe, after, before,
    replace_ffs) — `insertAt` -/
theorem insert_writes :
    UefiEdit.writes_Insert_Run = ["local.Files", "local.Files", "recv.FileMatch"] ∧
    UefiEdit.writes_Insert_Visit = ["node.Files", "node.Files", "node.Files", "node.Files", "node.Files"] := by decide
/-- Remove (as repaired): one slot write (pad file), one list write (drop), the undo chain, and one
    `CreatePadFile` of the matched file's size -/
theorem remove_writes :
    UefiEdit.writes_Remove_Visit = ["node.Files[·]", "node.Files", "recv.Undo", "node.Files", "recv.Undo"] ∧
    UefiEdit.writes_Remove_Run = ["recv.Undo", "recv.Matches", "recv.Matches"] ∧
    UefiEdit.calls_Remove_Visit_uefi_CreatePadFile = ["uefi.CreatePadFile(m.Header.ExtendedSize)"] := by decide
/-- ReplacePE32: new buffer, no children, regenerated header — `pe32Section` -/
theorem replacePe32_writes :
    UefiEdit.nodewrites_ReplacePE32_Visit = ["call SetBuf", "node.Encapsulated", "call GenSecHeader"] ∧
    UefiEdit.writes_ReplacePE32_Run = ["recv.Matches"] := by decide
/-- Save: assemble, then one WriteFile of the root buffer; nothing else is written — `step .save` -/
theorem save_shape :
    UefiEdit.callseq_Save_Visit = ["node.Apply", "os.WriteFile", "node.Buf"] ∧
    UefiEdit.writes_Save_Visit = [] ∧ UefiEdit.writes_Save_Run = [] := by decide
/-- ExecuteCLI runs the visitors in order through `Run` and nothing else — `run` -/
theorem executeCLI_shape : UefiEdit.callseq_ExecuteCLI = ["node[·].Run"] := by decide

/-! ### the command line -/
/-- the commands the model and the harness use exist, with these argument counts -/
theorem cli_commands :
    (["cat", "comment", "count", "create-fv", "dump", "find", "json", "nvram-compact", "remove", "remove_pad",
      "repack", "replace_pe32", "save", "table", "tighten_me", "validate"].map (fun c => UefiEdit.clireg.lookup c)) =
    [some 1, some 1, some 0, some 3, some 2, some 1, some 0, some 0, some 1, some 1,
     some 1, some 2, some 1, some 0, some 0, some 0] := by decide

/-! ### pkg/guid -/
def swapFields : List Nat → Bytes → Bytes
  | [], g => g
  | n :: ns, g => (g.take n).reverse ++ swapFields ns (g.drop n)

/-- the byte order of the text form: `reverse` over the fields 4-2-2-1-1-1-1-1-1-1-1 -/
theorem tie_guidFields (g : Bytes) (h : g.length = 16) : guidSwap g = swapFields UefiEditGuid.fields g := by
  match g, h with
  | [a0, a1, a2, a3, a4, a5, a6, a7, a8, a9, a10, a11, a12, a13, a14, a15], _ => rfl
theorem tie_guidSize : UefiEditGuid.Size = 16 := by decide

end Fiano.Uefi.EditTie
