/-
  Line protocol of C02's driver (follow-up wp-c02c): everything of FianoModel/Uefi/CreateFvDrv.lean, and

    run3 <image-hex> <op>…     one `utk <image> <op>…` where <op> may also be
                                 cfv:<abs>:<size>:<hex16>      create-fv <abs> <size> <name>
                                 nvcompact                     nvram-compact
            → "cli:…" | "parse:…" | "<status> <saved> law=<ok|broken>"
          the image is parsed and run with C10's model of the NVAR store as the NVAR hooks (`hooksC10`:
          NewNVarStore, Assemble of a store) and as the compaction (`compactC10`); new files on the command
          line are read with the hooks of `run` (before any volume has set the erase polarity Go's
          NewNVarStore fails and the file stays a leaf).  `law` = the hypotheses `NvLaw` / `CompactLaw` of
          the theorems (`Length = |Buf|` for every store of the tree, and for what the hook / the
          compaction make of it) evaluated on every tree of the run.
    run4 <image-hex> <op>…     the same, <op> may also be `tighten` (tighten_me); → "<status> <saved>"
-/
import FianoModel.Uefi.CreateFvDrv
import FianoModel.Uefi.EditValidOpsDefs
import FianoModel.Uefi.EditValidOpsT

namespace Fiano.Uefi.EditValidOpsDrv
open Fiano Fiano.Uefi Fiano.Uefi.EditDrv

def parseOp3 (w : String) : Option OpSpec3 :=
  if w = "nvcompact" then some .nvCompact else (CreateFvDrv.parseOp2 w).map .base

/-- the run, one visitor at a time; returns the status, the final state, and whether the laws held
    on every tree the run went through -/
def trace3 (h : Hooks) : List Op3 → Run → Bool → String × Run × Bool
  | [], s, law => ("ok", s, law && nvLawHolds h compactC10 s.st.pol s.tree)
  | op :: ops, s, law =>
    let law := law && nvLawHolds h compactC10 s.st.pol s.tree
    match step3 h compactC10 op s with
    | .error e => (errName e, s, law)
    | .ok s' => trace3 h ops s' law

/-- `uefi.Parse` with C10's NVAR hooks: the store parser needs the erase polarity, which the parse
    itself fixes (first volume) — parse under 0xFF, and again under the polarity the run ended with
    if that is another one -/
def parse3 (image : Bytes) (st : St) : Except Err (Tree × St × Hooks) :=
  match parseWith (hooksC10 0xFF) (defaultFuel image) image st with
  | .error e => .error e
  | .ok (t, st1) =>
    if st1.pol = 0xFF ∨ st1.pol = 0xF0 then .ok (t, st1, hooksC10 0xFF)
    else
      match parseWith (hooksC10 st1.pol) (defaultFuel image) image st with
      | .error e => .error e
      | .ok (t2, st2) => .ok (t2, st2, hooksC10 st1.pol)

/-! `run4`: as `run3`, and <op> may also be `tighten` (tighten_me, model of property C12 on the shared
    tree; no `law` field) -/

def parseOp4 (w : String) : Option (Option OpSpec3) :=
  if w = "tighten" then some none else (parseOp3 w).map some

def specOf4 (s : Option OpSpec3) : Option OpSpec3 := s

/-- the visitors in command-line order: `tighten_me` takes no argument and builds no state at ParseCLI time -/
def weave : List (Option OpSpec3) → List Op3 → List Op4
  | [], _ => []
  | none :: ss, ops => .tighten :: weave ss ops
  | some _ :: ss, op :: ops => .base op :: weave ss ops
  | some _ :: _, [] => []

def trace4 (h : Hooks) : List Op4 → Run4 → String × Run4
  | [], s => ("ok", s)
  | op :: ops, s =>
    match step4 h compactC10 op s with
    | .error e => (errName e, s)
    | .ok s' => trace4 h ops s'

def handle : List String → String
  | "run3" :: img :: ops =>
    match parseHex img, ops.mapM parseOp3 with
    | some image, some specs =>
      match cliParse3 hooks specs {} with
      | .error e => "cli:" ++ errName e
      | .ok (ops, st) =>
        match parse3 image st with
        | .error e => "parse:" ++ errName e
        | .ok (t, st', h) =>
          let (status, s', law) := trace3 h ops { tree := t, st := st' } true
          s!"{status} {savedText s'.outs} law={if law then "ok" else "broken"}"
    | _, _ => "bad-op"
  | "run4" :: img :: ops =>
    match parseHex img, ops.mapM parseOp4 with
    | some image, some specs =>
      match cliParse3 hooks (specs.filterMap specOf4) {} with
      | .error e => "cli:" ++ errName e
      | .ok (ops3, st) =>
        match parse3 image st with
        | .error e => "parse:" ++ errName e
        | .ok (t, st', h) =>
          let (status, s') := trace4 h (weave specs ops3) ⟨{ tree := t, st := st' }, TightenMe.T.freeOfTree t⟩
          s!"{status} {savedText s'.run.outs}"
    | _, _ => "bad-op"
  | req => CreateFvDrv.handle req

end Fiano.Uefi.EditValidOpsDrv
