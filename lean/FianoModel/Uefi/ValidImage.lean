/-
  The independent reader of property C02:  `Valid.validImage : Bytes → Bool`.

  Written from the UEFI Platform Initialization specification (vol. 3: firmware volume header,
  firmware file system, file header, section header) and from the Intel flash descriptor layout —
  *not* from fiano: it imports nothing of the model (only the byte-string base), all arithmetic is
  plain `Nat` arithmetic (`alignUp` is division, checksums are sums modulo 2^8 / 2^16), and nothing
  is "fixed up": the function only answers whether the bytes satisfy every rule below.

  Flash image (signature 5A A5 F0 0F at 16 or at 0)
    F1  the size is a multiple of 4 KiB, the first 4 KiB are the descriptor;
    F2  FLMAP0 follows the signature: FRBA = byte 2 (·16), NR = byte 3; the region section holds
        FLREG1..15 from FRBA+4 on (FLREG1 = BIOS, FLREG2 = ME, …), base/limit in 4 KiB blocks;
    F3  a table entry *describes a region* when limit > 0, limit ≥ base, neither is FFFF, it lies
        inside the flash, and its index is below NR when NR ≠ 0;
    F4  the described regions tile [4 KiB, size) exactly: no overlap, no hole;
    F5  the BIOS region is described and its bytes satisfy B1–B2.
  BIOS region / bare image
    B1  volumes are found at 8-byte steps by their `_FVH` signature at +40; every hit must be a
        valid volume (V1–V7) that fits the region; the bytes between volumes are padding;
    B2  there is at least one volume.
  Firmware volume (`fvOk`, on exactly FvLength bytes)
    V1  FvLength = bytes present ≥ 64, signature `_FVH`;
    V2  HeaderLength = 56 + 8·(entries + 1): the block map is a list of non-zero entries closed by
        one (0,0) entry that ends exactly at HeaderLength;
    V3  FvLength = Σ NumBlocks·Length over the block map;
    V4  the 16-bit words of the header sum to zero;
    V5  with ExtHeaderOffset ≠ 0 the extended header (GUID, size ≥ 20) lies behind the header and
        inside the volume; files start at the next 8-byte boundary after it, else after the header;
    V6  for the FFSv2 / FFSv3 file system GUIDs the file area satisfies L1–L4 (other file systems
        are opaque);
    V7  erased byte = FF iff attribute bit 11 (EFI_FVB2_ERASE_POLARITY) is set.
  File area (`filesOk`)
    L1  every file starts at an offset (relative to the volume) that is a multiple of 8, the bytes
        skipped to get there are erased;
    L2  files do not overlap and end inside the volume;
    L3  what follows the last file is erased up to the end of the volume (free space starts where
        a header would be entirely erased, or where no header fits any more);
    L4  every file satisfies X1–X5.
  File (`fileOk`, header at 8-aligned offset `o`)
    X1  size fields: large-file attribute (bit 0) set ⇒ 32-byte header, the 3-byte size is 0 or
        FFFFFF and the 64-bit extended size is the size; clear ⇒ 24-byte header, 3-byte size ≠ FFFFFF;
        header length ≤ size;
    X2  data alignment: (o + header length) ≡ 0 modulo the alignment encoded in attribute bits 3–5
        and 1 (1, 16, 128, 512, 1 Ki, 4 Ki, 32 Ki, 64 Ki; 128 Ki … 16 Mi);
    X3  header checksum: the header bytes, with IntegrityCheck.File and State taken as zero, sum to 0;
    X4  body checksum: attribute bit 6 set ⇒ body bytes + IntegrityCheck.File sum to 0, else the
        field holds AA;
    X5  for the sectioned file types (FREEFORM, SECURITY_CORE, PEI_CORE, DXE_CORE, DRIVER …
        MM_CORE_STANDALONE; not RAW, not PAD, and not PEIM, which this tool keeps opaque) the body
        satisfies S1–S3.
  Sections (`sectionsOk`)
    S1  every section starts at a multiple of 4 relative to the body, has a 4-byte header, or an
        8-byte header when the 3-byte size is FFFFFF; header length ≤ size (GUID-defined: + 20);
    S2  sections do not overlap and end inside the body;
    S3  the payload of a firmware-volume-image section is a valid volume filling it exactly.

  Recursion (volume → file → section → volume) is on a budget that the entry point sets to the
  image length; every step consumes bytes, so the budget is never the reason for `false` on an
  image that satisfies the rules.  Core Lean only.
-/
import FianoModel.Base.Bytes

namespace Fiano.Uefi.Valid
open Fiano

/-- little-endian field of `len` bytes at `off` -/
def fld (b : Bytes) (off len : Nat) : Nat := fromLE ((b.drop off).take len)

def alignUp (n a : Nat) : Nat := (n + a - 1) / a * a

/-- sum of the bytes modulo 256 -/
def byteSum (b : Bytes) : Nat := (b.foldl (fun a x => a + x.toNat) 0) % 256

/-- sum of the little-endian 16-bit words modulo 65536 (an odd trailing byte is ignored) -/
def wordSumAux : Bytes → Nat → Nat
  | lo :: hi :: rest, acc => wordSumAux rest (acc + lo.toNat + 256 * hi.toNat)
  | _, acc => acc
def wordSum (b : Bytes) : Nat := wordSumAux b 0 % 65536

def allAre (v : UInt8) (b : Bytes) : Bool := b.all (· == v)

def fvSig : Bytes := [0x5F, 0x46, 0x56, 0x48]
def ffs2 : Bytes := [0x78,0xe5,0x8c,0x8c,0x3d,0x8a,0x1c,0x4f,0x99,0x35,0x89,0x61,0x85,0xc3,0x2d,0xd3]
def ffs3 : Bytes := [0x7a,0xc0,0x73,0x54,0xcb,0x3d,0xca,0x4d,0xbd,0x6f,0x1e,0x96,0x89,0xe7,0x34,0x9a]

/-- X2: FFS_ATTRIB_DATA_ALIGNMENT (bits 3–5) and FFS_ATTRIB_DATA_ALIGNMENT2 (bit 1) -/
def dataAlign (attrs : Nat) : Nat :=
  let idx := attrs / 8 % 8
  if attrs / 2 % 2 = 1 then 2 ^ (17 + idx)
  else [1, 16, 128, 512, 1024, 4096, 32768, 65536].getD idx 1

/-- X5: file types whose body is a section stream -/
def sectioned (t : Nat) : Bool := (2 ≤ t && t ≤ 5) || (7 ≤ t && t ≤ 15)

/-- X1: (size, header length) of the file whose header starts `b` -/
def fileSize (b : Bytes) : Option (Nat × Nat) :=
  if b.length < 24 then none
  else
    let attrs := fld b 19 1
    let size3 := fld b 20 3
    if attrs % 2 = 1 then
      if b.length < 32 then none
      else if size3 ≠ 0xFFFFFF ∧ size3 ≠ 0 then none
      else some (fld b 24 8, 32)
    else if size3 = 0xFFFFFF then none
    else some (size3, 24)

/-- V2/V3: the block map from offset 56: (Σ count·size, end offset of the terminator) -/
def blockMap : Nat → Bytes → Nat → Nat → Option (Nat × Nat)
  | 0, _, _, _ => none
  | fuel+1, b, off, acc =>
    if off + 8 > b.length then none
    else
      let c := fld b off 4
      let s := fld b (off + 4) 4
      if c = 0 ∧ s = 0 then some (acc, off + 8)
      else if c = 0 ∨ s = 0 then none
      else blockMap fuel b (off + 8) (acc + c * s)

mutual

/-- S1–S3 on `body`, next section at or after `off` -/
def sectionsOk : Nat → Bytes → Nat → Bool
  | 0, _, _ => false
  | fuel+1, body, off =>
    if off ≥ body.length then true
    else if off % 4 ≠ 0 then false
    else if off + 4 > body.length then false
    else
      let size3 := fld body off 3
      let type := fld body (off + 3) 1
      let ext := size3 = 0xFFFFFF
      if ext ∧ off + 8 > body.length then false
      else
        let size := if ext then fld body (off + 4) 4 else size3
        let hl := (if ext then 8 else 4) + (if type = 0x02 then 20 else 0)
        if size < hl then false
        else if off + size > body.length then false
        else
          (if type = 0x17 then fvOk fuel ((body.drop (off + hl)).take (size - hl)) else true) &&
          sectionsOk fuel body (alignUp (off + size) 4)

/-- X1–X5 for the file `fb` (exactly its bytes) whose header sits at volume offset `o` -/
def fileOk : Nat → Bytes → Nat → Bool
  | 0, _, _ => false
  | fuel+1, fb, o =>
    match fileSize fb with
    | none => false
    | some (size, hl) =>
      let type := fld fb 18 1
      let attrs := fld fb 19 1
      let ckFile := fld fb 17 1
      let state := fld fb 23 1
      let body := fb.drop hl
      size = fb.length && hl ≤ size &&
      (o + hl) % dataAlign attrs = 0 &&
      (byteSum (fb.take hl) + 512 - ckFile - state) % 256 = 0 &&
      (if attrs / 64 % 2 = 1 then (byteSum body + ckFile) % 256 = 0 else ckFile = 0xAA) &&
      (if sectioned type then sectionsOk fuel body 0 else true)

/-- L1–L4 on the volume `fv`; `off` = end of the previous file (or of the headers), `e` = erased byte -/
def filesOk : Nat → Bytes → UInt8 → Nat → Bool
  | 0, _, _, _ => false
  | fuel+1, fv, e, off =>
    let o := alignUp off 8
    if off > fv.length then false
    else if o + 24 > fv.length then allAre e (fv.drop off)
    else if allAre e ((fv.drop o).take 24) then allAre e (fv.drop off)
    else
      allAre e ((fv.drop off).take (o - off)) &&
      match fileSize (fv.drop o) with
      | none => false
      | some (size, hl) =>
        hl ≤ size && o + size ≤ fv.length &&
        fileOk fuel ((fv.drop o).take size) o &&
        filesOk fuel fv e (o + size)

/-- V1–V7 on exactly the bytes of one volume -/
def fvOk : Nat → Bytes → Bool
  | 0, _ => false
  | fuel+1, b =>
    if b.length < 64 then false
    else
      let length := fld b 32 8
      let hlen := fld b 48 2
      let eho := fld b 52 2
      let attrs := fld b 44 4
      let e : UInt8 := if attrs / 2048 % 2 = 1 then 0xFF else 0x00
      length = b.length && (b.drop 40).take 4 = fvSig && hlen ≤ b.length &&
      (match blockMap (b.length / 8 + 1) b 56 0 with
       | none => false
       | some (total, stop) => stop = hlen && total = length) &&
      wordSum (b.take hlen) = 0 &&
      (if eho = 0 then true
       else hlen ≤ eho && eho + 20 ≤ length && 20 ≤ fld b (eho + 16) 4 && eho + fld b (eho + 16) 4 ≤ length) &&
      (let fsg := (b.drop 16).take 16
       if fsg = ffs2 ∨ fsg = ffs3 then
         filesOk fuel b e (if eho = 0 then hlen else eho + fld b (eho + 16) 4)
       else true)

end

/-- B1: first offset `s ≥ pos`, `s ≡ pos (mod 8)`, with `_FVH` at `s + 40` -/
def nextFv : Nat → Bytes → Nat → Option Nat
  | 0, _, _ => none
  | fuel+1, b, pos =>
    if pos + 44 > b.length then none
    else if (b.drop (pos + 40)).take 4 = fvSig then some pos
    else nextFv fuel b (pos + 8)

/-- B1–B2: `n` = volumes seen so far -/
def biosWalk : Nat → Bytes → Nat → Nat → Bool
  | 0, _, _, _ => false
  | fuel+1, b, pos, n =>
    match nextFv (b.length / 8 + 1) b pos with
    | none => n > 0
    | some s =>
      let length := fld b (s + 32) 8
      if length < 64 ∨ s + length > b.length then false
      else fvOk b.length ((b.drop s).take length) && biosWalk fuel b (s + length) (n + 1)

def biosOk (b : Bytes) : Bool := biosWalk (b.length / 64 + 2) b 0 0

/-! ### flash descriptor -/

def flashSig : Bytes := [0x5a, 0xa5, 0xf0, 0x0f]

def hasFlashSig (b : Bytes) : Bool :=
  b.length ≥ 20 && ((b.drop 16).take 4 = flashSig || b.take 4 = flashSig)

/-- F3: the described regions as (index, base, limit) -/
def described (b : Bytes) (frba nr : Nat) : List (Nat × Nat × Nat) :=
  (List.range 15).filterMap (fun i =>
    let base := fld b (frba + 4 + 4 * i) 2
    let limit := fld b (frba + 6 + 4 * i) 2
    if limit > 0 ∧ limit ≥ base ∧ limit ≠ 0xFFFF ∧ base ≠ 0xFFFF ∧
       base * 4096 < b.length ∧ (limit + 1) * 4096 ≤ b.length ∧ (nr = 0 ∨ i < nr)
    then some (i, base, limit) else none)

/-- F4: starting at block `pos`, exactly one remaining region begins there; repeat to the end -/
def tiles : Nat → List (Nat × Nat × Nat) → Nat → Nat → Bool
  | 0, _, _, _ => false
  | fuel+1, rs, pos, blocks =>
    match rs with
    | [] => pos = blocks
    | _ :: _ =>
      match rs.filter (fun r => r.2.1 = pos) with
      | [r] => tiles fuel (rs.filter (fun x => x.1 ≠ r.1)) (r.2.2 + 1) blocks
      | _ => false

def flashOk (b : Bytes) : Bool :=
  if b.length < 4096 ∨ b.length % 4096 ≠ 0 then false
  else
    let ms := if (b.drop 16).take 4 = flashSig then 20 else 4
    let frba := fld b (ms + 2) 1 * 16
    let nr := fld b (ms + 3) 1
    if frba + 64 > 4096 then false
    else
      let rs := described b frba nr
      tiles 16 rs 1 (b.length / 4096) &&
      match rs.find? (fun r => r.1 = 0) with
      | none => false
      | some (_, base, limit) => biosOk ((b.drop (base * 4096)).take ((limit + 1 - base) * 4096))

/-- **the independent reader** -/
def validImage (b : Bytes) : Bool :=
  if hasFlashSig b then flashOk b else biosOk b

end Fiano.Uefi.Valid
