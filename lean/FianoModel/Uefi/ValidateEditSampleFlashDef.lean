/-
  C09a for edited trees (wp-c09c): the flash sample of ValidateEditSampleFlash.lean, definitions.
-/
import FianoModel.Uefi.ValidateEditRun
import FianoModel.Uefi.ValidateSample
import FianoModel.Uefi.SampleC04
import FianoModel.Uefi.ParseEval

namespace Fiano.Uefi.C09
open Fiano Fiano.Uefi

def veFlash : Bytes := Spec.ser deepFlash
def veRawA : Pred := { file := fun f => f.info.guid == g 0x30 }
def veNested : Pred := { file := fun f => f.info.guid == g 0x40 }
/-- `utk flash remove <raw file> save a remove_pad <nested file> save b` -/
def veFlashSpecs : List OpSpec := [.remove veRawA false, .save, .remove veNested true, .save]

end Fiano.Uefi.C09
