/-
  Property C04 — the NVAR store inside a RAW file (pkg/uefi/nvram.go `NewNVarStore`, `newNVar`,
  `parseHeader` / `parseNext` / `parseExtendedHeader` / `parseDataOnly` / `parseGUID` / `parseName` /
  `parseContent`, `getGUIDFromStore`): the predicate.

  The model of the parser is C10's (FianoModel/Nvram/Model.lean, imported, not edited).  `NvF pol s b`
  relates the store `s` Go returns to the byte string `b` it was parsed from, written from the property —
  every clause speaks about positions in `b`:

    store     buf = b, Length = |b|;
    entries   in order, the first at offset 0, each where the previous one ended (`Offset` = running
              sum of the `Size`s, `FreeSpaceOffset` = the end of the last one); entry buffer =
              b[Offset, Offset+Size); "NVAR" at Offset, `Size` = the 2 bytes at +4 (≥ 10), `Next` =
              the 3 bytes at +6, `Attributes` = the byte at +9; the entry ends at or before the GUID
              table *as it was when the entry was read*;
    decoded   Valid bit clear → type Invalid, nothing else decoded; otherwise `NextOffset` =
              Offset + Next unless Next is the last-variable flag of the erase polarity; a broken
              extended header → Invalid; data-only → GUID and name of the first earlier valid entry
              that links here (else Invalid link); else the GUID is the 16 bytes at +10, or the byte
              at +10 is an index into the GUID table = the 16 bytes at |b| − 16·(index+1) (zero GUID
              when the table would not fit or the index is 255 — quirks of `getGUIDFromStore`),
              and the name is the bytes behind it up to the first NUL (ASCII) / the first 16-bit NUL
              at an even offset (UCS-2, decoded), `DataOffset` just behind the terminator;
    ext hdr   `extFields` (below): ExtOffset = Size − (the 2 bytes at Size−2), ExtAttributes = the
              byte there, Checksum = the byte at Size−3, Hash = the 32 bytes behind the 8-byte time
              stamp that follows the attributes (the time stamp itself is read but never reported);
    table     `GUIDStore` has n ≤ 255 entries, entry k = b[|b| − 16·(k+1), |b| − 16·k), i.e. the table
              is the last 16·n bytes, reversed; `GUIDStoreOffset` = |b| − 16·n; n is exactly what the
              entries' indexes ask for;
    free      the walk stops at `FreeSpaceOffset` because everything from there to the table is
              erased (= the polarity byte), or because the table has been reached;
    nested    an entry whose content starts with "NVAR" and parses carries that store, faithful to
              buf[DataOffset:] — to any depth (`NvFDeep`).

  Known quirk stated, not hidden (`overlap_witness` in FaithfulNvarLemmas.lean): the LAST entry can grow
  the GUID table into the entries (`FreeSpaceOffset > GUIDStoreOffset`); those bytes are then both
  entry content and table.  `NvF` therefore says "ends at or before the table as it was when the
  entry was read", and the clean three-part partition is the corollary `store_partition` under
  `fso ≤ gso`.

  Core Lean only.
-/
import FianoModel.Nvram.Model
import FianoModel.Nvram.Checksum

namespace Fiano.NvFaithful
open Fiano Fiano.Nvram

/-- little-endian number in `b[off, off+len)` -/
def rdAt (b : Bytes) (off len : Nat) : Nat := fromLE (slice b off len)

/-! ### GUID table -/

/-- the in-memory GUID table is the last `16·n` bytes of the store, reversed -/
def TableOk (sb : Bytes) (gs : List Bytes) : Prop :=
  16 * gs.length ≤ sb.length ∧ gs.length ≤ 255 ∧ ∀ k, k < gs.length → gs[k]? = some (guidAt sb k)

/-- length of the table once an entry with GUID index `gi` has been read (`n` before it): it grows to
    `index+1` when that is more and still fits into the store; index 255 never grows it (uint8 wrap) -/
def growTo (sb : Bytes) (n : Nat) (gi : Option Nat) : Nat :=
  match gi with
  | some i => if n < (i + 1) % 256 ∧ 16 * ((i + 1) % 256) ≤ sb.length then (i + 1) % 256 else n
  | none => n

/-- the GUID an index refers to, the table having `n` entries after the read -/
def guidByIndex (sb : Bytes) (n i : Nat) : Bytes := if i < n then guidAt sb i else zeroGuid

/-! ### one entry -/

/-- the name behind the GUID part: ASCII up to the first NUL, or UCS-2 up to the first 16-bit NUL at
    an even offset; `dataOffset` is just behind the terminator -/
def NameAt (attrs : Nat) (vbuf : Bytes) (doff : Nat) (name : Bytes) (dataOffset : Nat) : Prop :=
  if hasBit attrs aAscii = true then
    ∃ e, doff + e < vbuf.length ∧ vbuf[doff + e]? = some 0 ∧ (∀ j, j < e → vbuf[doff + j]? ≠ some 0) ∧
      name = slice vbuf doff e ∧ dataOffset = doff + e + 1
  else
    ∃ e, e % 2 = 0 ∧ doff + e + 2 ≤ vbuf.length ∧ vbuf[doff + e]? = some 0 ∧ vbuf[doff + e + 1]? = some 0 ∧
      (∀ j, j < e → j % 2 = 0 → ¬ (vbuf[doff + j]? = some 0 ∧ vbuf[doff + j + 1]? = some 0)) ∧
      name = ucs2ToUtf8 (slice vbuf doff e) ∧ dataOffset = doff + e + 2

/-- GUID (inline or by index) and name of an entry that carries its own key; `n'` = table length
    after this entry -/
def OwnKeyOk (sb : Bytes) (n' : Nat) (v : NVar) : Prop :=
  if hasBit v.attrs aGuid = true then
    26 ≤ v.size ∧ v.guid = slice v.buf 10 16 ∧ v.guidIndex = none ∧ NameAt v.attrs v.buf 26 v.name v.dataOffset
  else
    11 ≤ v.size ∧ (∃ i : UInt8, v.buf[10]? = some i ∧ v.guidIndex = some i.toNat ∧ v.guid = guidByIndex sb n' i.toNat) ∧
      NameAt v.attrs v.buf 11 v.name v.dataOffset

/-- the fields `newNVar` decodes behind the header; `prev` = the entries before this one -/
def EntryOk (pol : Nat) (sb : Bytes) (prev : List NVar) (n' : Nat) (v : NVar) : Prop :=
  if hasBit v.attrs aValid = false then
    v.type = .invalid ∧ v.nextOffset = 0 ∧ v.dataOffset = 10 ∧ v.guidIndex = none ∧ v.hasContent = false
  else
    (pol = 0xFF ∨ pol = 0) ∧
    v.nextOffset = (if v.next ≠ lastFlag pol then v.offset + v.next else 0) ∧
    (if extOk v.attrs v.size v.buf = false then
       v.type = .invalid ∧ v.dataOffset = 10 ∧ v.guidIndex = none ∧ v.hasContent = false
     else if hasBit v.attrs aDataOnly = true then
       v.dataOffset = 10 ∧ v.guidIndex = none ∧ v.hasContent = true ∧
       (match prev.find? (fun l => l.type.isValid && l.nextOffset == v.offset) with
        | some l => v.guid = l.guid ∧ v.name = l.name ∧ v.type = (if v.nextOffset = 0 then .data else .link)
        | none => v.type = .invalidLink)
     else
       v.hasContent = true ∧ v.type = (if v.next ≠ lastFlag pol then .link else .full) ∧ OwnKeyOk sb n' v)

/-- header of the entry at `off`; `lim` = where the GUID table started when the entry was read -/
def HdrAt (sb : Bytes) (v : NVar) (off lim : Nat) : Prop :=
  v.offset = off ∧ off + 10 ≤ lim ∧ slice sb off 4 = sig ∧
  v.size = rdAt sb (off + 4) 2 ∧ v.next = rdAt sb (off + 6) 3 ∧ v.attrs = rdAt sb (off + 9) 1 ∧
  10 ≤ v.size ∧ off + v.size ≤ lim ∧ v.buf = slice sb off v.size

/-! ### the store -/

/-- the entries `rest` tile the store from `off` on, `prev` being those before, `n` the table length so
    far; the walk ends at `fso` with a table of `nFinal` GUIDs, on erased bytes or on the table -/
def EntriesAt (pol : Nat) (sb : Bytes) : List NVar → List NVar → Nat → Nat → Nat → Nat → Prop
  | _, [], off, n, fso, nFinal =>
    off = fso ∧ n = nFinal ∧
    (sb.length - 16 * n ≤ off ∨ isErased pol (slice sb off (sb.length - 16 * n - off)) = true)
  | prev, v :: rest, off, n, fso, nFinal =>
    off < sb.length - 16 * n ∧ isErased pol (slice sb off (sb.length - 16 * n - off)) = false ∧
    HdrAt sb v off (sb.length - 16 * n) ∧ EntryOk pol sb prev (growTo sb n v.guidIndex) v ∧
    EntriesAt pol sb (prev ++ [v]) rest (off + v.size) (growTo sb n v.guidIndex) fso nFinal

/-- **the store `s` is a faithful account of the bytes `b`** (erase polarity `pol`) -/
def NvF (pol : Nat) (s : Store) (b : Bytes) : Prop :=
  s.buf = b ∧ s.length = b.length ∧ TableOk b s.guidStore ∧
  s.gso = b.length - 16 * s.guidStore.length ∧
  EntriesAt pol b [] s.entries 0 0 s.fso s.guidStore.length ∧
  -- since fixes/C04-nvar-table-overlap.diff (wp-nvfix): the entries end at or before the FINAL GUID table
  s.fso ≤ s.gso

/-- … and so is every nested store, to depth `d` -/
def NvFDeep (pol : Nat) : Nat → Store → Bytes → Prop
  | 0, s, b => NvF pol s b
  | d + 1, s, b =>
    NvF pol s b ∧ ∀ v ∈ s.entries, ∀ ns, nestedOf pol v = some ns → NvFDeep pol d ns (content v)

/-! ### the extended header

  C10's `NVar` keeps only whether the extended header is sane (`extOk`).  The fields Go reports
  (`ExtOffset`, `ExtAttributes`, `Checksum`, `ExpectedChecksum`, `TimeStamp`, `Hash`,
  `UnknownExtendedHeaderFormat`) are functions of the entry's bytes; `extFields` models
  `parseExtendedHeader` with them, `extFields_ok` ties it to `extOk`. -/

structure ExtInfo where
  extOffset : Nat := 0
  extAttrs  : Option Nat := none
  checksum  : Option Nat := none
  expected  : Option Nat := none
  timestamp : Option Nat := none   -- never set by the code that exists (read into a local and dropped)
  hash      : Option Bytes := none
  unknown   : Bool := false
  deriving DecidableEq, Repr, Inhabited

/-- `parseExtendedHeader` on an entry buffer of `size ≥ 10` bytes whose Valid bit is set: the fields it
    leaves in the struct (also when it fails half-way) and whether it succeeded -/
def extFields (attrs size : Nat) (buf : Bytes) : ExtInfo × Bool :=
  if !hasBit attrs aExtHdr then ({}, true)
  else
    let es := rdAt buf (size - 2) 2
    if es > size - hdrSize then ({}, false)
    else
      let eo := size - es
      match buf[eo]? with
      | none => ({ extOffset := eo }, false)
      | some xa =>
        let hasCk : Bool := xa.toNat % 2 == 1
        let stored : Option Nat := if hasCk then (buf[size - 3]?).map (·.toNat) else none
        let s := sum8 (cksumBytes buf size)
        let expected : Option Nat := if hasCk ∧ s ≠ 0 then some ((256 - s) % 256) else none
        let i0 : ExtInfo := { extOffset := eo, extAttrs := some xa.toNat, checksum := stored, expected := expected }
        if !hasBit attrs aAuthWr then
          if eo + 1 + 8 > size then (i0, false)
          else
            -- (Q) the 8-byte time stamp is read (so it must fit) but never stored: `NVar.TimeStamp` stays nil
            let i1 := i0
            if hasBit attrs aDataOnly then
              if eo + 1 + 8 + 32 ≤ size then ({ i1 with hash := some (slice buf (eo + 9) 32) }, true)
              else (i1, false)
            else (i1, true)
        else ({ i0 with unknown := !hasCk }, true)

/-- the extended-header fields are the bytes at their documented offsets (entry buffer `buf` of
    `size` bytes) -/
def ExtF (size : Nat) (buf : Bytes) (x : ExtInfo) : Prop :=
  x.extOffset + rdAt buf (size - 2) 2 = size ∧ 10 ≤ x.extOffset ∧
  (∀ a, x.extAttrs = some a → x.extOffset < size ∧ a = rdAt buf x.extOffset 1) ∧
  (∀ c, x.checksum = some c → c = rdAt buf (size - 3) 1) ∧
  (∀ t, x.timestamp = some t → x.extOffset + 9 ≤ size ∧ t = rdAt buf (x.extOffset + 1) 8) ∧
  (∀ hsh, x.hash = some hsh → x.extOffset + 41 ≤ size ∧ hsh = slice buf (x.extOffset + 9) 32)

end Fiano.NvFaithful
