/-
  Non-vacuity of the side condition `savedOkAll` on a flash image with descriptor (follow-up wp-c07b):
  a 16 KiB image — descriptor, ME region, a gap the table does not describe, BIOS region with a volume
  that holds three files of one GUID (a leaf, a driver with UI / version / depex sections, a volume
  image with a nested volume).  By kernel evaluation; in a module of its own because it takes a while.
-/
import FianoModel.Uefi.ExtractTwiceFlash
import FianoModel.Uefi.ExtractParse
import FianoModel.Uefi.Spec

namespace Fiano.Uefi.TwiceSample
open Fiano Fiano.Uefi

def g (n : Nat) : Guid := (List.range 16).map (fun i => UInt8.ofNat (n + i))

open Spec in
def innerFv : FvI :=
  .ffs (List.replicate 16 0) false 0x0004FEFF 2 0 [⟨19, 8⟩] none
    [ .sect (g 1) 7 0 0xF8 [.ui [0x49, 0x6E], .leaf 0x19 false [9, 9]] ] 38

open Spec in
def sampleFv : FvI :=
  .ffs (List.replicate 16 0) false 0x0004FEFF 2 0 [⟨51, 8⟩] none
    [ .leaf (g 1) 0 0xAA 1 0 0xF8 false [1, 2, 3, 4, 5, 6, 7, 8],
      .sect (g 1) 7 0x40 0xF8 [.ui [0x41, 0x42], .version 7 [0x31], .depex 0x1c [⟨2, some (g 3)⟩, ⟨8, none⟩],
                               .leaf 0x19 false [1, 2, 3, 4, 5]],
      .sect (g 1) 11 0 0xF8 [.fvimg innerFv] ] 36

/-- a 4 KiB descriptor: signature at 16, region section at 0x40 (BIOS = block 3, ME = block 1, every
    other entry invalid), master section at 0x80, straps 0x5A -/
def sampleDesc : Bytes :=
  List.replicate 16 0xFF ++ [0x5a, 0xa5, 0xf0, 0x0f] ++
  [0, 0, 4, 0, 8, 0, 0, 0, 0, 0, 0, 0, 0, 0, 0, 0] ++ List.replicate 28 0x5A ++
  [0x34, 0x12, 0x00, 0x10, 3, 0, 3, 0, 1, 0, 1, 0] ++ (List.replicate 13 [0xFF, 0x7F, 0, 0]).flatten ++
  [0, 0, 0xFF, 0xFF, 0, 0, 0xFF, 0xFF, 0x18, 0x01, 0x08, 0x08] ++ List.replicate 3956 0x5A

open Spec in
def sampleFlash : Img :=
  .flash ⟨sampleDesc,
    [ .me (List.replicate 4096 0xA5), .gap (List.replicate 4096 0x77),
      .bios ⟨[([], sampleFv)], List.replicate 3688 0xFF⟩ ]⟩

def sampleBytes : Bytes := Spec.ser sampleFlash

/-- the parsed flash sample satisfies every hypothesis of the fixed-point theorems, the side condition
    included, and the directory round trip returns the image -/
def sampleFlashHolds : Bool :=
  match parseWith Hooks.none (defaultFuel sampleBytes) sampleBytes {} with
  | .ok (t, st) =>
    pwTree t && okTree t && TopPol st.pol t && savedOkAll Hooks.none t st &&
      (match t with | .flash _ => true | .bios _ => false) &&
      (match extractSave Hooks.none goJunk t with
       | .ok out => out == sampleBytes
       | .error _ => false)
  | .error _ => false

theorem sample_flash_holds : sampleBytes.length = 16384 ∧ sampleFlashHolds = true := by decide +kernel

end Fiano.Uefi.TwiceSample
