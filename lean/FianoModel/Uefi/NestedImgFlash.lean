/-
  Property C06, whole images (follow-up wp-c06c) — the flash-image layer for any hooks and any node
  `tb b fr` for the BIOS region: the lemmas of Lemmas/Flash.lean / Lemmas/FlashAsm.lean (C01, stated
  there for `Hooks.none` and `Spec.treeBios`) with the two facts they need about the BIOS region as
  hypotheses — what `NewBIOSRegion` returns on its bytes, and what the BIOSRegion case of `Assemble`
  writes for its node (`nb b`: the region that is written, of the same length).  Everything about the
  descriptor, the region table, sorting, gap filling and tiling is reused from C01's library.
-/
import FianoModel.Uefi.NestedImgSpec
import FianoModel.Uefi.Lemmas.Final

namespace Fiano.Uefi.Nested
open Fiano Fiano.Uefi Fiano.Uefi.Spec

variable {h : Hooks} {tb : BiosI → Option FlashRegion → BiosRegion}

/-- the region node the parser builds for a selected table entry -/
def mkRegG (tb : BiosI → Option FlashRegion → BiosRegion) (regs : List RegI) (e : Nat × FlashRegion) : Region :=
  match regAt regs 1 e.2.base with
  | some (.bios b) => .bios (tb b (some e.2))
  | some (.me d) => .me d e.2
  | some (.raw _ d) => .raw d e.2 e.1
  | some (.gap d) => .raw d e.2 e.1
  | none => .raw [] e.2 e.1

theorem mkRegG_fr (htb : ∀ b fr, (tb b fr).fr = fr) (regs : List RegI) (e : Nat × FlashRegion) :
    (mkRegG tb regs e).fr = some e.2 := by
  unfold mkRegG
  split <;> simp [Region.fr, htb]

theorem insertRegion_mapG (htb : ∀ b fr, (tb b fr).fr = fr) (regs : List RegI) (e : Nat × FlashRegion) (l : List (Nat × FlashRegion)) :
    insertRegion (mkRegG tb regs e) (l.map (mkRegG tb regs)) = (insertEntry e l).map (mkRegG tb regs) := by
  induction l with
  | nil => rfl
  | cons x xs ih =>
    simp only [List.map_cons, insertRegion, insertEntry, mkRegG_fr htb, Option.map_some, Option.getD_some]
    split
    · rfl
    · simp [ih]

theorem sortRegions_mapG (htb : ∀ b fr, (tb b fr).fr = fr) (regs : List RegI) (l : List (Nat × FlashRegion)) :
    sortRegions (l.map (mkRegG tb regs)) = (sortEntries l).map (mkRegG tb regs) := by
  induction l with
  | nil => rfl
  | cons x xs ih =>
    simp only [sortRegions, sortEntries, List.map_cons, List.foldr_cons] at ih ⊢
    rw [ih, insertRegion_mapG htb]

/-- what `NewBIOSRegion` returns on the bytes of the BIOS region `b` (hypothesis of the layer) -/
def PB (h : Hooks) (tb : BiosI → Option FlashRegion → BiosRegion) (fuel : Nat) (b : BiosI) : Prop :=
  ∀ (fr : FlashRegion) (st : St), (st.pol = 0xFF ∨ st.pol = 0xF0) →
    parseBios h fuel (serBios b) (some fr) st = .ok (tb b (some fr), { st with pol := 0xFF })

/-- what the region loop needs to know about a selected table entry -/
structure EntryOkG (h : Hooks) (tb : BiosI → Option FlashRegion → BiosRegion) (fuel : Nat) (all : List RegI)
    (e : Nat × FlashRegion) : Prop where
  hbase : 1 ≤ e.2.base
  hfacts : ∃ r, regAt all 1 e.2.base = some r ∧ kindOk r e.1 = true ∧ e.2.limit + 1 = e.2.base + r.blocks ∧
    r.data.length % 4096 = 0 ∧ slice (serRegs all) ((e.2.base - 1) * 4096) r.data.length = r.data ∧
    (∀ b, r = .bios b → PB h tb fuel b)

/-- the loop over the region table in `NewFlashImage` -/
theorem parse_regionsG (desc : Bytes) (all : List RegI) (nr fuel : Nat) (hd : desc.length = 4096) :
    ∀ (frs : List FlashRegion) (i : Nat) (st : St),
    (∀ e ∈ selectEntries nr (4096 + (serRegs all).length) frs i, EntryOkG h tb fuel all e) →
    (st.pol = 0xFF ∨ st.pol = 0xF0) →
    ∃ st', parseRegions h fuel (desc ++ serRegs all) nr frs i st =
        .ok ((selectEntries nr (4096 + (serRegs all).length) frs i).map (mkRegG tb all), st') ∧
      (st'.pol = 0xFF ∨ st'.pol = 0xF0) ∧ st'.ffs3 = st.ffs3 ∧
      ((∃ e ∈ selectEntries nr (4096 + (serRegs all).length) frs i, e.1 = 0) → st'.pol = 0xFF) ∧
      (st.pol = 0xFF → st'.pol = 0xFF)
  | [], i, st, _, hp => ⟨st, by simp [parseRegions, selectEntries], hp, rfl, by simp [selectEntries], id⟩
  | fr :: frs, i, st, hall, hp => by
    have hblen : (desc ++ serRegs all).length = 4096 + (serRegs all).length := by simp [hd]
    by_cases h1 : nr ≠ 0 ∧ i ≥ nr
    · have hsel0 : selectEntries nr (4096 + (serRegs all).length) (fr :: frs) i = [] := by
        simp only [selectEntries]; rw [if_pos h1]
      refine ⟨st, ?_, hp, rfl, ?_, id⟩
      · rw [parseRegions, if_pos h1, hsel0]; rfl
      · rw [hsel0]; rintro ⟨e, he, _⟩; cases he
    · by_cases h2 : fr.valid = true ∧ fr.baseOffset < 4096 + (serRegs all).length ∧
          fr.endOffset ≤ 4096 + (serRegs all).length
      · -- a selected entry
        have hsel : selectEntries nr (4096 + (serRegs all).length) (fr :: frs) i =
            (i, fr) :: selectEntries nr (4096 + (serRegs all).length) frs (i + 1) := by
          simp only [selectEntries]; rw [if_neg h1, if_pos h2]
        rw [hsel] at hall ⊢
        obtain ⟨hb, r, hat, hk, hlim, hmod, hsl, hwf⟩ := hall (i, fr) List.mem_cons_self
        simp only at hb hat hk hlim hsl
        have hskip : ¬ (¬ fr.valid = true ∨ fr.baseOffset ≥ (desc ++ serRegs all).length ∨
            fr.endOffset > (desc ++ serRegs all).length) := by
          rw [hblen]
          intro hc
          rcases hc with hc | hc | hc
          · exact hc h2.1
          · have := h2.2.1; omega
          · have := h2.2.2; omega
        have hrbuf : slice (desc ++ serRegs all) fr.baseOffset (fr.endOffset - fr.baseOffset) = r.data := by
          have hbm := blocks_mul r hmod
          have e1 : fr.endOffset - fr.baseOffset = r.data.length := by
            simp only [FlashRegion.endOffset, FlashRegion.baseOffset, hlim]
            rw [Nat.add_mul]; omega
          have e2 : fr.baseOffset = 4096 + (fr.base - 1) * 4096 := by
            simp only [FlashRegion.baseOffset]
            have : fr.base = 1 + (fr.base - 1) := by omega
            rw [this, Nat.add_mul]; simp
          rw [e1, e2, slice_append_skip _ _ _ _ _ hd]; exact hsl
        rw [parseRegions, if_neg h1, if_neg hskip, hrbuf]
        rcases kindOk_cases hk with ⟨hi, b, rfl⟩ | ⟨hi, d, rfl⟩ | ⟨hi, d, rfl⟩
        · -- the BIOS region
          subst hi
          have hpb := hwf b rfl fr st hp
          obtain ⟨st2, h2', hp2, hf2, _, hk2⟩ := parse_regionsG desc all nr fuel hd frs (0 + 1)
            { st with pol := 0xFF } (fun e he => hall e (List.mem_cons_of_mem _ he)) (Or.inl rfl)
          refine ⟨st2, ?_, hp2, by rw [hf2], fun _ => hk2 rfl, fun _ => hk2 rfl⟩
          simp only [RegI.data] at hpb ⊢
          simp only [if_true, hpb, h2', List.map_cons, mkRegG, hat]
        · subst hi
          obtain ⟨st2, h2', hp2, hf2, hb2, hk2⟩ := parse_regionsG desc all nr fuel hd frs (1 + 1) st
            (fun e he => hall e (List.mem_cons_of_mem _ he)) hp
          refine ⟨st2, ?_, hp2, hf2, ?_, hk2⟩
          · simp only [show (1 : Nat) ≠ 0 by decide, if_false, if_true, h2', List.map_cons, mkRegG, hat, RegI.data]
          · rintro ⟨e, he, he0⟩
            rcases List.mem_cons.mp he with rfl | he'
            · cases he0
            · exact hb2 ⟨e, he', he0⟩
        · obtain ⟨st2, h2', hp2, hf2, hb2, hk2⟩ := parse_regionsG desc all nr fuel hd frs (i + 1) st
            (fun e he => hall e (List.mem_cons_of_mem _ he)) hp
          refine ⟨st2, ?_, hp2, hf2, ?_, hk2⟩
          · have h0 : i ≠ 0 := by omega
            have h1' : i ≠ 1 := by omega
            simp only [h0, h1', if_false, h2', List.map_cons, mkRegG, hat, RegI.data]
          · rintro ⟨e, he, he0⟩
            rcases List.mem_cons.mp he with rfl | he'
            · simp only at he0; omega
            · exact hb2 ⟨e, he', he0⟩
      · -- skipped
        have hsel : selectEntries nr (4096 + (serRegs all).length) (fr :: frs) i =
            selectEntries nr (4096 + (serRegs all).length) frs (i + 1) := by
          simp only [selectEntries]; rw [if_neg h1, if_neg h2]
        rw [hsel] at hall ⊢
        have hskip : ¬ fr.valid = true ∨ fr.baseOffset ≥ (desc ++ serRegs all).length ∨
            fr.endOffset > (desc ++ serRegs all).length := by
          rw [hblen]
          by_cases hv : fr.valid = true
          · by_cases hb : fr.baseOffset < 4096 + (serRegs all).length
            · right; right
              have : ¬ fr.endOffset ≤ 4096 + (serRegs all).length := fun hc => h2 ⟨hv, hb, hc⟩
              omega
            · right; left; omega
          · left; exact hv
        rw [parseRegions, if_neg h1, if_pos hskip]
        exact parse_regionsG desc all nr fuel hd frs (i + 1) st hall hp

/-- the node `tree` prescribes for one region starting at block `blk` -/
def regNodeG (tb : BiosI → Option FlashRegion → BiosRegion) (tbl : List FlashRegion) (r : RegI) (blk : Nat) : Region :=
  match r with
  | .bios b => Region.bios (tb b (some (tbl.getD 0 ⟨blk, blk + r.blocks - 1⟩)))
  | .me d => Region.me d (tbl.getD 1 ⟨blk, blk + r.blocks - 1⟩)
  | .raw i d => Region.raw d (tbl.getD i ⟨blk, blk + r.blocks - 1⟩) i
  | .gap d => Region.raw d ⟨blk, blk + r.blocks - 1⟩ (-1)

theorem treeRegsG_cons (tbl : List FlashRegion) (r : RegI) (rs : List RegI) (blk : Nat) :
    treeRegsG tb tbl (r :: rs) blk = regNodeG tb tbl r blk :: treeRegsG tb tbl rs (blk + r.blocks) := by
  cases r <;> rfl

theorem mkRegG_eq (all : List RegI) (tbl : List FlashRegion) (r : RegI) (i blk : Nat) (fr : FlashRegion)
    (hat : regAt all 1 fr.base = some r) (hk : kindOk r i = true) (ht : ∀ d, tbl.getD i d = fr) :
    mkRegG tb all (i, fr) = regNodeG tb tbl r blk := by
  rcases kindOk_cases hk with ⟨hi, b, rfl⟩ | ⟨hi, d, rfl⟩ | ⟨hi, d, rfl⟩
  · subst hi; simp only [mkRegG, hat, regNodeG, ht]
  · subst hi; simp only [mkRegG, hat, regNodeG, ht]
  · simp only [mkRegG, hat, regNodeG, ht]

set_option maxHeartbeats 800000 in
/-- **gap filling**: `fillRegionGaps` over the sorted region nodes rebuilds the regions of the
    grammar in flash order, gaps included -/
theorem fill_okG (htb : ∀ b fr, (tb b fr).fr = fr) (all : List RegI) (tbl : List FlashRegion) (buf : Bytes) :
    ∀ (rs : List RegI) (blk : Nat) (es : List (Nat × FlashRegion)) (P : Bytes),
    matchRegs rs blk es = true → noAdjacentGaps rs = true → buf = P ++ serRegs rs → P.length = blk * 4096 →
    (∀ e ∈ es, regAt all 1 e.2.base = regAt rs blk e.2.base) →
    (∀ e ∈ es, ∀ d, tbl.getD e.1 d = e.2) → buf.length / 4096 < 65536 →
    fillGaps buf buf.length (es.map (mkRegG tb all)) (blk * 4096) = .ok (treeRegsG tb tbl rs blk)
  | [], blk, es, P, h, _, hbuf, hP, _, _, _ => by
    simp only [matchRegs, List.isEmpty_iff] at h
    subst h
    have : buf.length = blk * 4096 := by rw [hbuf]; simp [serRegs, hP]
    simp only [List.map_nil, fillGaps, treeRegsG]
    rw [if_neg (by omega)]
  | r :: rs, blk, es, P, h, hn, hbuf, hP, hlook, htbl, hlt => by
    have hn' := noAdjacentGaps_tail r rs hn
    by_cases hg : r.isGap = true
    · -- a gap: the next table region (if any) starts after it
      obtain ⟨h1, h2, h3, h4⟩ := matchRegs_gap hg h
      obtain ⟨d, rfl⟩ : ∃ d, r = .gap d := by cases r <;> simp_all [RegI.isGap]
      have hbm := blocks_mul (.gap d) h1
      simp only [RegI.data] at hbm h1
      cases es with
      | nil =>
        rcases matchRegs_nil_es rs _ h4 hn' with rfl | ⟨r2, rfl, hg2⟩
        · have hlen : buf.length = (blk + (RegI.gap d).blocks) * 4096 := by
            rw [hbuf]; simp [serRegs, RegI.data, hP, Nat.add_mul, hbm]
          simp only [List.map_nil, fillGaps, treeRegsG_cons, treeRegsG, regNodeG]
          rw [if_pos (by rw [hlen, Nat.add_mul]; omega)]
          have hs : slice buf (blk * 4096) (buf.length - blk * 4096) = d := by
            rw [hbuf]
            simp only [serRegs, RegI.data, List.append_nil, List.length_append, hP, Nat.add_sub_cancel_left]
            exact slice_mid' P d _ _ hP rfl
          rw [hs, hlen, div_mul_4096, div_mul_4096]
          have : blk + (RegI.gap d).blocks < 65536 := by rw [hlen, div_mul_4096] at hlt; exact hlt
          have e1 : blk % 65536 = blk := by omega
          have e2 : ((blk + (RegI.gap d).blocks) % 65536 + 65535) % 65536 = blk + (RegI.gap d).blocks - 1 := by omega
          rw [e1, e2]
          rfl
        · exfalso; cases r2 <;> simp_all [RegI.isGap, noAdjacentGaps]
      | cons e es' =>
        -- the gap is followed by a table region
        cases rs with
        | nil => simp [matchRegs] at h4
        | cons r2 rs2 =>
          have hg2 : r2.isGap = false := by
            cases r2 <;> simp_all [RegI.isGap, noAdjacentGaps]
          obtain ⟨k1, k2, i, fr, es'', hes, hk, hbase, hlim, hrest⟩ := matchRegs_nongap hg2 h4
          cases hes
          have hbm2 := blocks_mul r2 k1
          have hat : regAt all 1 fr.base = some r2 := by
            rw [hlook (i, fr) List.mem_cons_self]
            simp only [regAt]
            rw [if_neg (by omega), if_pos hbase.symm]
          have hmk := mkRegG_eq (tb := tb) all tbl r2 i (blk + (RegI.gap d).blocks) fr hat hk (htbl (i, fr) List.mem_cons_self)
          have ih := fill_okG htb all tbl buf rs2 (blk + (RegI.gap d).blocks + r2.blocks) es' (P ++ d ++ r2.data) hrest
            (noAdjacentGaps_tail r2 rs2 hn')
            (by rw [hbuf]; simp [serRegs, RegI.data, List.append_assoc])
            (by simp only [List.length_append, hP, Nat.add_mul, hbm, hbm2])
            (fun e he => by
              rw [hlook e (List.mem_cons_of_mem _ he)]
              have hb := (match_facts rs2 _ es' hrest e he).1
              simp only [regAt]
              rw [if_neg (by omega), if_neg (by omega)])
            (fun e he => htbl e (List.mem_cons_of_mem _ he)) hlt
          simp only [List.map_cons, fillGaps, mkRegG_fr htb, FlashRegion.baseOffset, FlashRegion.endOffset, hbase, hlim]
          rw [if_neg (by rw [Nat.add_mul]; omega), ih]
          simp only []
          rw [if_pos (by rw [Nat.add_mul]; omega)]
          have hs : slice buf (blk * 4096) ((blk + (RegI.gap d).blocks) * 4096 - blk * 4096) = d := by
            rw [hbuf, Nat.add_mul, Nat.add_sub_cancel_left, hbm]
            simp only [serRegs, RegI.data]
            rw [← List.append_assoc]
            exact slice_mid P d _ _ _ hP rfl
          have hlt2 : blk + (RegI.gap d).blocks < 65536 := by
            have : (blk + (RegI.gap d).blocks + r2.blocks) * 4096 ≤ buf.length := by
              rw [hbuf]; simp [serRegs, RegI.data, hP, Nat.add_mul, hbm, hbm2]; omega
            omega
          rw [hs, div_mul_4096, div_mul_4096, treeRegsG_cons, treeRegsG_cons, hmk]
          have e1 : blk % 65536 = blk := by omega
          have e2 : ((blk + (RegI.gap d).blocks) % 65536 + 65535) % 65536 = blk + (RegI.gap d).blocks - 1 := by omega
          simp only [regNodeG, e1, e2]
    · -- a table region
      have hg' : r.isGap = false := by simpa using hg
      obtain ⟨h1, h2, i, fr, es', hes, hk, hbase, hlim, hrest⟩ := matchRegs_nongap hg' h
      cases hes
      have hbm := blocks_mul r h1
      have hat : regAt all 1 fr.base = some r := by
        rw [hlook (i, fr) List.mem_cons_self]
        simp only [regAt]
        rw [if_pos hbase.symm]
      have hmk := mkRegG_eq (tb := tb) all tbl r i blk fr hat hk (htbl (i, fr) List.mem_cons_self)
      have ih := fill_okG htb all tbl buf rs (blk + r.blocks) es' (P ++ r.data) hrest hn'
        (by rw [hbuf]; simp [serRegs_cons, List.append_assoc])
        (by simp only [List.length_append, hP, Nat.add_mul, hbm])
        (fun e he => by
          rw [hlook e (List.mem_cons_of_mem _ he)]
          have hb := (match_facts rs _ es' hrest e he).1
          simp only [regAt]
          rw [if_neg (by omega)])
        (fun e he => htbl e (List.mem_cons_of_mem _ he)) hlt
      simp only [List.map_cons, fillGaps, mkRegG_fr htb, FlashRegion.baseOffset, FlashRegion.endOffset, hbase, hlim]
      rw [if_neg (by omega), ih]
      simp only []
      rw [if_neg (by omega), treeRegsG_cons, hmk]

/-- the skeleton conditions, unpacked -/
theorem skelFlash_iff (f : FlashI) (hs : skelFlash f = true) :
    f.desc.length = 4096 ∧ (findSignature f.desc).isSome = true ∧ (treeDesc f.desc).regionStart + 64 < 4096 ∧
    ((treeDesc f.desc).region.regions.head?.map (·.valid)).getD false = true ∧
    (4096 + (serRegs f.regions).length) / 4096 < 65536 ∧ noAdjacentGaps f.regions = true ∧
    matchRegs f.regions 1 (sortEntries (selectEntries (treeDesc f.desc).map.numberOfRegions
      (4096 + (serRegs f.regions).length) (treeDesc f.desc).region.regions 0)) = true := by
  simp only [skelFlash, Bool.and_eq_true, beq_iff_eq, decide_eq_true_eq] at hs
  obtain ⟨⟨⟨⟨⟨⟨hlen, hsig⟩, hrs⟩, hvalid⟩, htot⟩, hnadj⟩, hmatch⟩ := hs
  exact ⟨hlen, hsig, hrs, hvalid, htot, hnadj, hmatch⟩

/-- the tree `NewFlashImage` builds, with `tb` for the BIOS region -/
def treeFlashG (tb : BiosI → Option FlashRegion → BiosRegion) (f : FlashI) : Tree :=
  .flash { buf := Spec.ser (.flash f), ifd := treeDesc f.desc,
           regions := treeRegsG tb (treeDesc f.desc).region.regions f.regions 1,
           flashSize := (Spec.ser (.flash f)).length }

/-- `NewFlashImage` on a serialised flash image whose skeleton is that of the grammar and whose BIOS
    regions are read as `tb` says -/
theorem parse_flashG (htb : ∀ b fr, (tb b fr).fr = fr) (f : FlashI) (hs : skelFlash f = true) (fuel : Nat)
    (hB : ∀ b, RegI.bios b ∈ f.regions → PB h tb fuel b) (hbios : f.regions.any RegI.isBios = true) :
    ∃ st', parseWith h fuel (Spec.ser (.flash f)) {} = .ok (treeFlashG tb f, st') ∧ st'.pol = 0xFF ∧
      st'.ffs3 = false := by
  obtain ⟨hlen, hsig, hrs, hvalid, htot, hnadj, hmatch⟩ := skelFlash_iff f hs
  have hser : Spec.ser (.flash f) = f.desc ++ serRegs f.regions := rfl
  have hblen : (f.desc ++ serRegs f.regions).length = 4096 + (serRegs f.regions).length := by simp [hlen]
  -- facts about the selected entries
  have hfacts := match_facts f.regions 1 _ hmatch
  have hentry : ∀ e ∈ selectEntries (treeDesc f.desc).map.numberOfRegions (4096 + (serRegs f.regions).length)
      (treeDesc f.desc).region.regions 0, EntryOkG h tb fuel f.regions e := by
    intro e he
    obtain ⟨hb, r, h1, h2, h3, h4, h5, _, h7⟩ := hfacts e ((mem_sortEntries e _).mpr he)
    refine ⟨hb, r, h1, h3, h4, h5, h7, ?_⟩
    intro b hb'
    subst hb'
    exact hB b h2
  rw [hser]
  obtain ⟨st1, hpr, hp1, hf1, hb1, _⟩ := parse_regionsG (h := h) (tb := tb) f.desc f.regions
    (treeDesc f.desc).map.numberOfRegions fuel hlen (treeDesc f.desc).region.regions 0 {} hentry (Or.inr rfl)
  -- a BIOS region exists, so the polarity has been set
  have hpol : st1.pol = 0xFF := by
    apply hb1
    obtain ⟨r, hr, hrb⟩ := List.any_eq_true.mp hbios
    have hng : r.isGap = false := by cases r <;> simp_all [RegI.isBios, RegI.isGap]
    obtain ⟨e, he, hke⟩ := match_covers f.regions 1 _ hmatch r hr hng
    refine ⟨e, (mem_sortEntries e _).mp he, ?_⟩
    cases r <;> simp_all [RegI.isBios, kindOk]
  -- the table is non-empty and its first entry valid
  obtain ⟨b0, brest, htbl0⟩ : ∃ b0 brest, (treeDesc f.desc).region.regions = b0 :: brest := by
    simp only [treeDesc, decodeRegions]; exact ⟨_, _, rfl⟩
  have hv0 : b0.valid = true := by rw [htbl0] at hvalid; simpa using hvalid
  have hfill := fill_okG htb f.regions (treeDesc f.desc).region.regions (f.desc ++ serRegs f.regions) f.regions 1
    (sortEntries (selectEntries (treeDesc f.desc).map.numberOfRegions (4096 + (serRegs f.regions).length)
      (treeDesc f.desc).region.regions 0)) f.desc hmatch hnadj rfl (by rw [hlen])
    (fun _ _ => rfl)
    (fun e he d => by
      obtain ⟨i, fr⟩ := e
      obtain ⟨_, h2⟩ := mem_selectEntries _ _ _ 0 i fr ((mem_sortEntries _ _).mp he)
      simp only [Nat.sub_zero] at h2
      rw [List.getD_eq_getElem?_getD, h2]; rfl)
    (by rw [hblen]; exact htot)
  refine ⟨st1, ?_, hpol, by rw [hf1]⟩
  unfold parseWith
  rw [findSignature_append f.desc _ (by omega)]
  obtain ⟨ms, hms⟩ := Option.isSome_iff_exists.mp hsig
  simp only [hms]
  unfold parseFlash
  rw [if_neg (by rw [hblen]; omega), take_append_len f.desc _ 4096 hlen,
    parseDescriptor_desc f.desc hlen hsig hrs]
  simp only [htbl0, hv0, not_true_eq_false, if_false]
  rw [← htbl0, hpr]
  simp only [sortRegions_mapG htb]
  have hfill' : fillGaps (f.desc ++ serRegs f.regions) (f.desc ++ serRegs f.regions).length
      (List.map (mkRegG tb f.regions) (sortEntries (selectEntries (treeDesc f.desc).map.numberOfRegions
        (4096 + (serRegs f.regions).length) (treeDesc f.desc).region.regions 0))) 4096 =
      .ok (treeRegsG tb (treeDesc f.desc).region.regions f.regions 1) := hfill
  rw [hfill']
  rfl

/-! ### the FlashImage case of Assemble -/

theorem regNodeG_fr (htb : ∀ b fr, (tb b fr).fr = fr) (all : List RegI) (tbl : List FlashRegion) :
    ∀ (rs : List RegI) (blk : Nat) (es : List (Nat × FlashRegion)), matchRegs rs blk es = true →
    (∀ e ∈ es, ∀ d, tbl.getD e.1 d = e.2) →
    (treeRegsG tb tbl rs blk).map Region.fr = blockFrs rs blk
  | [], _, _, _, _ => rfl
  | r :: rs, blk, es, h, htbl => by
    rw [treeRegsG_cons]
    simp only [List.map_cons, blockFrs]
    by_cases hg : r.isGap = true
    · obtain ⟨_, _, _, h4⟩ := matchRegs_gap hg h
      obtain ⟨d, rfl⟩ : ∃ d, r = .gap d := by cases r <;> simp_all [RegI.isGap]
      rw [regNodeG_fr htb all tbl rs _ es h4 htbl]
      simp [regNodeG, Region.fr]
    · have hg' : r.isGap = false := by simpa using hg
      obtain ⟨_, h2, i, fr, es', hes, hk, hbase, hlim, hrest⟩ := matchRegs_nongap hg' h
      subst hes
      rw [regNodeG_fr htb all tbl rs _ es' hrest (fun e he => htbl e (List.mem_cons_of_mem _ he))]
      have ht := htbl (i, fr) List.mem_cons_self
      have hfr : fr = ⟨blk, blk + r.blocks - 1⟩ := by
        cases fr; simp only [FlashRegion.mk.injEq] at *; omega
      rcases kindOk_cases hk with ⟨hi, b, rfl⟩ | ⟨hi, d, rfl⟩ | ⟨hi, d, rfl⟩
      · subst hi; simp only [regNodeG, Region.fr, htb, ht, hfr]
      · subst hi; simp only [regNodeG, Region.fr, ht, hfr]
      · simp only [regNodeG, Region.fr, ht, hfr]

/-- re-pointing a region node (other than the BIOS region's) to the table entry it was built from
    changes nothing -/
theorem repoint_regNodeG (tbl : List FlashRegion) (nr : Nat) (r : RegI) (blk : Nat) (hnb : r.isBios = false) :
    repoint tbl nr (regNodeG tb tbl r blk) = regNodeG tb tbl r blk := by
  apply repoint_eq
  intro hne x hx
  cases r with
  | gap d => exact absurd rfl hne
  | bios b => simp [RegI.isBios] at hnb
  | me d =>
    have hx' : tbl[1]? = some x := hx
    simp [regNodeG, Region.setFr, List.getD_eq_getElem?_getD, hx']
  | raw i d =>
    have hx' : tbl[i]? = some x := by simpa [regNodeG, Region.rtype] using hx
    simp [regNodeG, Region.setFr, List.getD_eq_getElem?_getD, hx']

/-- what the BIOSRegion case of `Assemble` writes for the node of the BIOS region `b`: the bytes of
    `nb b` (hypothesis of the layer) -/
def AB (h : Hooks) (tb : BiosI → Option FlashRegion → BiosRegion) (nb : BiosI → BiosI) (b : BiosI) : Prop :=
  ∀ (fr : Option FlashRegion) (st : St), st.pol = 0xFF → st.ffs3 = false →
    ∃ b' st', asmBios h (tb b fr) st = .ok (b', st') ∧ b'.buf = serBios (nb b) ∧ b'.fr = fr ∧
      st'.pol = 0xFF ∧ st'.ffs3 = false

/-- the regions that are written: the BIOS regions replaced by `nb` -/
def nrmReg (nb : BiosI → BiosI) : RegI → RegI
  | .bios b => .bios (nb b)
  | r => r

/-- Assemble on the region nodes: same `FlashRegion`s, the buffers are the serialised regions
    (`nb` for a BIOS region), and re-pointing stays the identity -/
theorem asm_regionsG (htb : ∀ b fr, (tb b fr).fr = fr) (nb : BiosI → BiosI) (tbl : List FlashRegion) (nr : Nat) :
    ∀ (rs : List RegI) (blk : Nat) (st : St),
    (∀ b, RegI.bios b ∈ rs → AB h tb nb b) → st.pol = 0xFF → st.ffs3 = false →
    ∃ l st', asmRegions h (treeRegsG tb tbl rs blk) st = .ok (l, st') ∧
      l.map Region.fr = (treeRegsG tb tbl rs blk).map Region.fr ∧ l.map Region.buf = (rs.map (nrmReg nb)).map RegI.data ∧
      (∀ r ∈ l, repoint tbl nr r = r) ∧ st'.pol = 0xFF ∧ st'.ffs3 = false
  | [], blk, st, _, hp, hf => ⟨[], st, by simp [treeRegsG, asmRegions], rfl, rfl, by simp, hp, hf⟩
  | r :: rs, blk, st, hwf, hp, hf => by
    have hwf2 : ∀ b, RegI.bios b ∈ rs → AB h tb nb b := fun b hb => hwf b (List.mem_cons_of_mem _ hb)
    rw [treeRegsG_cons]
    cases r with
    | bios b =>
      obtain ⟨b', st1, h1, hb1, hfr1, hp1, hf1⟩ := hwf b List.mem_cons_self
        (some (tbl.getD 0 ⟨blk, blk + (RegI.bios b).blocks - 1⟩)) st hp hf
      obtain ⟨l, st2, h2, hl1, hl2, hl3, hp2, hf2⟩ :=
        asm_regionsG htb nb tbl nr rs (blk + (RegI.bios b).blocks) st1 hwf2 hp1 hf1
      refine ⟨.bios b' :: l, st2, ?_, ?_, ?_, ?_, hp2, hf2⟩
      · simp only [regNodeG, asmRegions, h1, h2]
      · simp only [List.map_cons, hl1, regNodeG, Region.fr, hfr1, htb]
      · simp only [List.map_cons, hl2, Region.buf, hb1, RegI.data, nrmReg]
      · intro r hr
        rcases List.mem_cons.mp hr with rfl | hr'
        · apply repoint_eq
          intro _ x hx
          have hx' : tbl[0]? = some x := hx
          simp only [Region.setFr, hfr1]
          simp [List.getD_eq_getElem?_getD, hx']
          cases b'; simp_all
        · exact hl3 r hr'
    | me d =>
      obtain ⟨l, st2, h2, hl1, hl2, hl3, hp2, hf2⟩ :=
        asm_regionsG htb nb tbl nr rs (blk + (RegI.me d).blocks) st hwf2 hp hf
      refine ⟨regNodeG tb tbl (.me d) blk :: l, st2, ?_, by simp [hl1],
        by simp [hl2, regNodeG, Region.buf, RegI.data, nrmReg], ?_, hp2, hf2⟩
      · simp only [regNodeG, asmRegions, h2]
      · intro r hr
        rcases List.mem_cons.mp hr with rfl | hr'
        · exact repoint_regNodeG tbl nr _ blk rfl
        · exact hl3 r hr'
    | raw i d =>
      obtain ⟨l, st2, h2, hl1, hl2, hl3, hp2, hf2⟩ :=
        asm_regionsG htb nb tbl nr rs (blk + (RegI.raw i d).blocks) st hwf2 hp hf
      refine ⟨regNodeG tb tbl (.raw i d) blk :: l, st2, ?_, by simp [hl1],
        by simp [hl2, regNodeG, Region.buf, RegI.data, nrmReg], ?_, hp2, hf2⟩
      · simp only [regNodeG, asmRegions, h2]
      · intro r hr
        rcases List.mem_cons.mp hr with rfl | hr'
        · exact repoint_regNodeG tbl nr _ blk rfl
        · exact hl3 r hr'
    | gap d =>
      obtain ⟨l, st2, h2, hl1, hl2, hl3, hp2, hf2⟩ :=
        asm_regionsG htb nb tbl nr rs (blk + (RegI.gap d).blocks) st hwf2 hp hf
      refine ⟨regNodeG tb tbl (.gap d) blk :: l, st2, ?_, by simp [hl1],
        by simp [hl2, regNodeG, Region.buf, RegI.data, nrmReg], ?_, hp2, hf2⟩
      · simp only [regNodeG, asmRegions, h2]
      · intro r hr
        rcases List.mem_cons.mp hr with rfl | hr'
        · exact repoint_regNodeG tbl nr _ blk rfl
        · exact hl3 r hr'

/-- the block ranges depend on the region lengths only -/
theorem blockFrs_nrm (nb : BiosI → BiosI) : ∀ (rs : List RegI) (blk : Nat),
    (∀ b, RegI.bios b ∈ rs → (serBios (nb b)).length = (serBios b).length) →
    blockFrs (rs.map (nrmReg nb)) blk = blockFrs rs blk
  | [], _, _ => rfl
  | r :: rs, blk, hl => by
    have hb : (nrmReg nb r).blocks = r.blocks := by
      cases r with
      | bios b => simp only [nrmReg, RegI.blocks, RegI.data, hl b List.mem_cons_self]
      | me d => rfl
      | raw i d => rfl
      | gap d => rfl
    simp only [List.map_cons, blockFrs, hb,
      blockFrs_nrm nb rs (blk + r.blocks) (fun b hb => hl b (List.mem_cons_of_mem _ hb))]

theorem serRegs_nrm_length (nb : BiosI → BiosI) : ∀ (rs : List RegI),
    (∀ b, RegI.bios b ∈ rs → (serBios (nb b)).length = (serBios b).length) →
    (serRegs (rs.map (nrmReg nb))).length = (serRegs rs).length
  | [], _ => rfl
  | r :: rs, hL => by
    have ih := serRegs_nrm_length nb rs (fun b hb => hL b (List.mem_cons_of_mem _ hb))
    cases r with
    | bios b => simp only [List.map_cons, serRegs, nrmReg, RegI.data, List.length_append, ih, hL b List.mem_cons_self]
    | me d => simp only [List.map_cons, serRegs, nrmReg, List.length_append, ih]
    | raw i d => simp only [List.map_cons, serRegs, nrmReg, List.length_append, ih]
    | gap d => simp only [List.map_cons, serRegs, nrmReg, List.length_append, ih]

/-- the FlashImage case of Assemble on the parsed flash image: the descriptor and every region
    other than the BIOS region are written back unchanged, the BIOS region as `nb` says -/
theorem asm_flashG (htb : ∀ b fr, (tb b fr).fr = fr) (nb : BiosI → BiosI) (f : FlashI) (hs : skelFlash f = true)
    (hA : ∀ b, RegI.bios b ∈ f.regions → AB h tb nb b)
    (hL : ∀ b, RegI.bios b ∈ f.regions → (serBios (nb b)).length = (serBios b).length)
    (st : St) (hp : st.pol = 0xFF) :
    asmWith h (treeFlashG tb f) st = .ok (Spec.ser (.flash ⟨f.desc, f.regions.map (nrmReg nb)⟩)) := by
  obtain ⟨hlen, hsig, hrs, hvalid, htot, hnadj, hmatch⟩ := skelFlash_iff f hs
  have htblmem : ∀ e ∈ sortEntries (selectEntries (treeDesc f.desc).map.numberOfRegions
      (4096 + (serRegs f.regions).length) (treeDesc f.desc).region.regions 0),
      ∀ d, (treeDesc f.desc).region.regions.getD e.1 d = e.2 := by
    intro e he d
    obtain ⟨i, fr⟩ := e
    obtain ⟨_, h2⟩ := mem_selectEntries _ _ _ 0 i fr ((mem_sortEntries _ _).mp he)
    simp only [Nat.sub_zero] at h2
    rw [List.getD_eq_getElem?_getD, h2]; rfl
  have hfrs := regNodeG_fr htb f.regions (treeDesc f.desc).region.regions f.regions 1 _ hmatch htblmem
  have hblocks := match_blocks f.regions 1 _ hmatch
  obtain ⟨l, st1, h1, hl1, hl2, hl3, _, _⟩ := asm_regionsG htb nb (treeDesc f.desc).region.regions
    (treeDesc f.desc).map.numberOfRegions f.regions 1 { st with ffs3 := false } hA hp rfl
  rw [hfrs] at hl1
  obtain ⟨b0, brest, htbl0⟩ : ∃ b0 brest, (treeDesc f.desc).region.regions = b0 :: brest := by
    simp only [treeDesc, decodeRegions]; exact ⟨_, _, rfl⟩
  have hv0 : b0.valid = true := by rw [htbl0] at hvalid; simpa using hvalid
  have hrep : l.map (repoint (treeDesc f.desc).region.regions (treeDesc f.desc).map.numberOfRegions) = l := by
    rw [List.map_congr_left hl3]; simp
  have hsorted : sortRegions l = l := by
    apply sortRegions_sorted
    intro k x y hx hy
    have hx' : (blockFrs f.regions 1)[k]? = some x.fr := by rw [← hl1]; simp [hx]
    have hy' : (blockFrs f.regions 1)[k + 1]? = some y.fr := by rw [← hl1]; simp [hy]
    exact blockFrs_sorted f.regions 1 (fun r hr => (hblocks r hr).2) k _ _ hx' hy'
  -- the written regions have the lengths of the read ones
  have hblocks' : ∀ r ∈ f.regions.map (nrmReg nb), r.data.length % 4096 = 0 ∧ 1 ≤ r.blocks := by
    intro r hr
    obtain ⟨r0, hr0, rfl⟩ := List.mem_map.mp hr
    have hb0 := hblocks r0 hr0
    cases r0 with
    | bios b =>
      have := hL b hr0
      simp only [nrmReg, RegI.blocks, RegI.data, this] at hb0 ⊢
      exact hb0
    | me d => exact hb0
    | raw i d => exact hb0
    | gap d => exact hb0
  have hl1' : l.map Region.fr = blockFrs (f.regions.map (nrmReg nb)) 1 := by
    rw [hl1, blockFrs_nrm nb f.regions 1 hL]
  have htile := tile_ok l (f.regions.map (nrmReg nb)) 1 f.desc hl1' hl2 hblocks'
  have hlenN := serRegs_nrm_length nb f.regions hL
  unfold asmWith asmTreeWith
  simp only [treeFlashG]
  unfold asmFlash
  simp only [asmDescriptor_id f.desc hlen hrs, h1]
  rw [htbl0]
  simp only [hv0, not_true_eq_false, if_false]
  rw [← htbl0, hrep, hsorted]
  have e4096 : (1 : Nat) * 4096 = 4096 := rfl
  rw [e4096] at htile
  have hbuf : (treeDesc f.desc).buf = f.desc := rfl
  rw [hbuf, htile]
  simp only [Spec.ser, List.length_append, hlen, hlenN, ne_eq, not_true_eq_false, if_false, Tree.buf]

end Fiano.Uefi.Nested
