/-
  C09a for edited trees (follow-up wp-c09c), part 1: one node at a time.

  The bridges of ValidateBridgeCore.lean (`fileOk_validates`, `secSized_validates`, `fvOk_validates`) start
  from a successful `parseFile` / `parseSection` / `parseFv` on the node's bytes.  For the composition over a
  whole tree the position of every node comes from property C04 (`Faithful`: `SecF` / `FileF` / `FvF`), so the
  same three facts are stated here from the *fields* of a node: whatever node carries the fields the bytes
  show, and bytes the independent reader of C02 accepts, passes the node checks of validate.

  validate asks for two things the reader does not look at: revision 2 and a file-system GUID the tool knows.
  (The third difference — a large file must store FFFFFF, the reader also accepts 0 — disappears on a parsed
  tree: fiano reads such a file with size 0 and never reports it.)
-/
import FianoModel.Uefi.ValidateBridgeCore
import FianoModel.Uefi.ParseOk12

namespace Fiano.Uefi.C09
open Fiano Fiano.Uefi
open EditArith

/-! ### files -/

set_option maxRecDepth 8192 in
/-- a node with the size, attribute, checksum and state fields of `fb`, and `fb` a file the reader accepts
    (X1–X5) that stores FFFFFF when it is large: no file error -/
theorem ve_fileOk_fields {fuel0 o : Nat} {fb : Bytes} (hok : Valid.fileOk (fuel0 + 1) fb o = true)
    (hlarge : Valid.fld fb 19 1 % 2 = 1 → Valid.fld fb 20 3 = 0xFFFFFF)
    (i : FileInfo) (hs3 : i.size3 = Valid.fld fb 20 3) (hat : i.attrs = Valid.fld fb 19 1)
    (hcf : i.ckFile = Valid.fld fb 17 1) (hst : i.state = Valid.fld fb 23 1) (hext : i.extSize = fb.length) :
    validateFileNode i fb = [] := by
  unfold Valid.fileOk at hok
  cases hfs : Valid.fileSize fb with
  | none => rw [hfs] at hok; simp at hok
  | some p =>
    obtain ⟨size, hl⟩ := p
    rw [hfs] at hok
    simp only [Bool.and_eq_true, decide_eq_true_eq] at hok
    obtain ⟨⟨⟨⟨⟨hsize, hhl⟩, _⟩, hck⟩, hbody⟩, _⟩ := hok
    obtain ⟨l24, hlle, hl2432⟩ := Bridge.fileSize_some_length fb size hl hfs
    have ha256 : Valid.fld fb 19 1 < 256 := Bridge.rd1_lt fb 19
    have hc256 : Valid.fld fb 17 1 < 256 := Bridge.rd1_lt fb 17
    have hs256 : Valid.fld fb 23 1 < 256 := Bridge.rd1_lt fb 23
    unfold Valid.fileSize at hfs
    rw [if_neg (by omega)] at hfs
    simp only at hfs
    have hX1 : (Valid.fld fb 19 1 % 2 = 1 →
          32 ≤ fb.length ∧ Valid.fld fb 20 3 = 0xFFFFFF ∧ size = Valid.fld fb 24 8 ∧ hl = 32) ∧
        (Valid.fld fb 19 1 % 2 = 0 → Valid.fld fb 20 3 ≠ 0xFFFFFF ∧ size = Valid.fld fb 20 3 ∧ hl = 24) := by
      constructor
      · intro hL
        rw [if_pos hL] at hfs
        split at hfs
        · cases hfs
        · split at hfs
          · cases hfs
          · simp only [Option.some.injEq, Prod.mk.injEq] at hfs
            exact ⟨by omega, hlarge hL, hfs.1.symm, hfs.2.symm⟩
      · intro hL
        rw [if_neg (by omega)] at hfs
        split at hfs
        · cases hfs
        · rename_i h3
          simp only [Option.some.injEq, Prod.mk.injEq] at hfs
          exact ⟨h3, hfs.1.symm, hfs.2.symm⟩
    have hlg : isLarge (Valid.fld fb 19 1) = true ↔ Valid.fld fb 19 1 % 2 = 1 := by
      unfold isLarge
      rw [decide_eq_true_iff]
      exact Bridge.and_one_ne_zero _
    refine (validateFileNode_nil_iff _ _).mpr ⟨l24, ?_, ?_, ?_, hext.symm, ?_, ?_⟩
    · rw [hat, hs3, hlg]
      constructor
      · intro hL; exact (hX1.1 hL).2.1
      · intro h3
        rcases Nat.mod_two_eq_zero_or_one (Valid.fld fb 19 1) with hL | hL
        · exact absurd h3 (hX1.2 hL).1
        · exact hL
    · intro h3
      rw [hs3] at h3
      rcases Nat.mod_two_eq_zero_or_one (Valid.fld fb 19 1) with hL | hL
      · exact absurd h3 (hX1.2 hL).1
      · exact (hX1.1 hL).1
    · intro h3
      rw [hs3] at h3 ⊢
      rw [hext]
      rcases Nat.mod_two_eq_zero_or_one (Valid.fld fb 19 1) with hL | hL
      · have := (hX1.2 hL).2.1; omega
      · exact absurd (hX1.1 hL).2.1 h3
    · unfold checksumHeader
      rw [hat, hcf, hst]
      have hhs : min (if isLarge (Valid.fld fb 19 1) = true then 32 else 24) fb.length = hl := by
        rcases Nat.mod_two_eq_zero_or_one (Valid.fld fb 19 1) with hL | hL
        · have : ¬ isLarge (Valid.fld fb 19 1) = true := fun c => by have := hlg.mp c; omega
          rw [if_neg this]; have := (hX1.2 hL).2.2; omega
        · rw [if_pos (hlg.mpr hL)]; have := (hX1.1 hL).2.2.2; omega
      simp only [hhs]
      apply Bridge.u8_sub2_zero
      rw [← Bridge.byteSum_eq_sum8, Bridge.byte_toNat _ hc256, Bridge.byte_toNat _ hs256]
      exact hck
    · rw [hat, hcf]
      have hhs : (if isLarge (Valid.fld fb 19 1) = true then 32 else 24) = hl := by
        rcases Nat.mod_two_eq_zero_or_one (Valid.fld fb 19 1) with hL | hL
        · have : ¬ isLarge (Valid.fld fb 19 1) = true := fun c => by have := hlg.mp c; omega
          rw [if_neg this]; exact (hX1.2 hL).2.2.symm
        · rw [if_pos (hlg.mpr hL)]; exact (hX1.1 hL).2.2.2.symm
      have hck64 : hasChecksum (Valid.fld fb 19 1) = true ↔ Valid.fld fb 19 1 / 64 % 2 = 1 := by
        unfold hasChecksum
        rw [decide_eq_true_iff]
        exact Bridge.and_64 _ ha256
      by_cases hc : Valid.fld fb 19 1 / 64 % 2 = 1
      · simp only [hck64.mpr hc, if_true, hhs]
        rw [if_pos hc] at hbody
        simp only [decide_eq_true_eq] at hbody
        apply Bridge.u8_add_zero
        rw [← Bridge.byteSum_eq_sum8, Bridge.byte_toNat _ hc256]
        exact hbody
      · have : ¬ hasChecksum (Valid.fld fb 19 1) = true := fun c => hc (hck64.mp c)
        simp only [this, if_false]
        rw [if_neg hc] at hbody
        simp only [decide_eq_true_eq] at hbody
        exact hbody

/-- **a file of a faithful tree that the reader accepts passes the file checks**: `ctx` is the volume
    from the file's offset on, the reader reads size `size` there and accepts `ctx.take size` -/
theorem ve_file_node (h : Hooks) (i : FileInfo) (buf : Bytes) (secs : List Section) (ctx : Bytes)
    (hF : FileF h (.mk i buf secs) ctx) (hpos : 0 < i.extSize)
    (fuel o size hl : Nat) (hfs : Valid.fileSize ctx = some (size, hl))
    (hok : Valid.fileOk (fuel + 1) (ctx.take size) o = true) :
    validateFileNode i buf = [] ∧ i.extSize = size ∧ i.dataOffset = hl := by
  have hF' := hF
  unfold FileF at hF'
  obtain ⟨hh, hle, hbuf, _⟩ := hF'
  obtain ⟨hext, hdo⟩ := file_size_agree i ctx hh hpos size hl hfs
  refine ⟨?_, hext, hdo⟩
  obtain ⟨h24, _, _, hcf, _, hat, h3, hst, hx⟩ := hh
  rw [rd_eq_fld] at hcf hat h3 hst
  have hbufe : buf = ctx.take size := by rw [hbuf, hext]
  have hblen : (ctx.take size).length = size := by rw [List.length_take]; omega
  obtain ⟨hl', hfs', _, _⟩ := fileOk_inv fuel _ o hok
  have h24s : 24 ≤ size := by
    have := fileSize_some_length _ _ _ hfs'
    rw [hblen] at this; exact this.1
  rw [hbufe]
  have f19 : Valid.fld (ctx.take size) 19 1 = Valid.fld ctx 19 1 := fld_take _ _ _ _ (by omega)
  have f20 : Valid.fld (ctx.take size) 20 3 = Valid.fld ctx 20 3 := fld_take _ _ _ _ (by omega)
  have f17 : Valid.fld (ctx.take size) 17 1 = Valid.fld ctx 17 1 := fld_take _ _ _ _ (by omega)
  have f23 : Valid.fld (ctx.take size) 23 1 = Valid.fld ctx 23 1 := fld_take _ _ _ _ (by omega)
  refine ve_fileOk_fields hok ?_ i (by rw [f20, h3]) (by rw [f19, hat]) (by rw [f17, hcf]) (by rw [f23, hst])
    (by rw [hblen, hext])
  -- a large file fiano reports stores FFFFFF: with 0 in the field fiano reads a file of size 0
  intro hL
  rw [f19] at hL
  rw [f20]
  unfold Valid.fileSize at hfs
  rw [if_neg (by omega)] at hfs
  simp only at hfs
  rw [if_pos hL] at hfs
  split at hfs
  · cases hfs
  · split at hfs
    · cases hfs
    · rename_i hs
      by_cases hf : Valid.fld ctx 20 3 = 0xFFFFFF
      · exact hf
      · exfalso
        have h0 : i.size3 = 0 := by rw [h3]; omega
        rw [if_neg (by omega)] at hx
        omega

/-! ### sections -/

/-- **a section of a faithful tree that the reader accepts passes the section checks** -/
theorem ve_sec_node (h : Hooks) (i : SecInfo) (buf : Bytes) (encap : List Node) (ctx : Bytes)
    (hF : SecF h (.mk i buf encap) ctx)
    (hRA : knownSection i.type = true ∨ i.size3 ≠ 0xFFFFFF) (hsz : secSize ctx ≤ ctx.length)
    (hb : SecBytesOk (ctx.take (secSize ctx))) : validateSecNode i buf = [] ∧ i.extSize = secSize ctx := by
  have hF' := hF
  unfold SecF at hF'
  obtain ⟨hh, hle, hbuf, _⟩ := hF'
  obtain ⟨hext, h03, h31⟩ := sec_size_agree i ctx hh hRA hsz
  refine ⟨?_, hext⟩
  have hlen : buf.length = secSize ctx := by rw [hbuf, hext, List.length_take]; omega
  have hlt : secSize ctx < 4294967296 := by
    unfold secSize
    split
    · have := fld_lt ctx 4 4; simpa using this
    · have := fld_lt ctx 0 3
      have h2 : (256 : Nat) ^ 3 < 4294967296 := by decide
      omega
  have hb4 := hb.len4
  have hb8 := hb.ext8
  rw [List.length_take] at hb4 hb8
  have g03 : Valid.fld (ctx.take (secSize ctx)) 0 3 = Valid.fld ctx 0 3 := fld_take _ _ _ _ (by omega)
  rw [g03] at hb8
  have e : buf.length % 4294967296 = secSize ctx := by rw [hlen]; exact Nat.mod_eq_of_lt hlt
  unfold validateSecNode
  simp only [e, hext]
  by_cases hf : i.size3 = 0xFFFFFF
  · rw [if_pos hf]
    have := hb8 (by rw [← h03]; exact hf)
    rw [if_neg (by omega), if_neg (by omega)]
  · rw [if_neg hf]
    have hs : secSize ctx = i.size3 := by
      unfold secSize; rw [← h03, if_neg hf]
    rw [hs]
    have h3lt : i.size3 < 4294967296 := by rw [← hs]; exact hlt
    rw [Nat.mod_eq_of_lt h3lt, if_neg (by omega), if_neg (by omega)]

/-! ### volumes -/

set_option maxRecDepth 8192 in
/-- a node with the length, header length, signature of `b`, revision 2 and a known file system, and `b`
    a volume the reader accepts (V1–V7): no volume error -/
theorem ve_fvOk_fields {b : Bytes} (hok : FvBytesOk b) (i : FvInfo)
    (hlen : i.length = rd b 32 8) (hhl : i.headerLen = rd b 48 2) (hsg : i.signature = rd b 40 4)
    (hrev : i.revision = 2) (hguid : knownFvGuids.contains i.fsGuid = true) : validateFvNode i b = [] := by
  obtain ⟨f0, hok⟩ := hok
  cases f0 with
  | zero => simp [Valid.fvOk] at hok
  | succ fuel0 =>
  unfold Valid.fvOk at hok
  by_cases h64' : b.length < 64
  · simp [h64'] at hok
  rw [if_neg h64'] at hok
  have h64 : 64 ≤ b.length := by omega
  simp only [Bool.and_eq_true, decide_eq_true_eq] at hok
  obtain ⟨⟨⟨⟨⟨⟨h32, hsig⟩, h48⟩, hbm⟩, hsum⟩, _⟩, _⟩ := hok
  have h32' : rd b 32 8 = b.length := h32
  cases hbm' : Valid.blockMap (b.length / 8 + 1) b 56 0 with
  | none => rw [hbm'] at hbm; simp at hbm
  | some p =>
    obtain ⟨total, stop⟩ := p
    rw [hbm'] at hbm
    simp only [Bool.and_eq_true, decide_eq_true_eq] at hbm
    obtain ⟨hscan, hmod, hge⟩ := blockMap_scanBlockEnd b _ _ _ _ _ hbm'
    have h48' : rd b 48 2 ≤ b.length := h48
    have hstop : stop = rd b 48 2 := hbm.1
    refine (validateFvNode_nil_iff _ _).mpr ⟨h64, ?_, ?_, ?_, hguid, hrev, ?_, ?_, ?_, ?_⟩
    · rw [hhl, ← hstop]; omega
    · rw [hhl]; exact h48'
    · rw [hhl, ← hstop]; exact hscan
    · rw [hsg]
      have : slice b 40 4 = [0x5F, 0x46, 0x56, 0x48] := hsig
      unfold rd; rw [this]; decide
    · rw [hlen]; exact h32'
    · rw [hhl, ← hstop]; omega
    · rw [hhl]
      apply UInt16.toNat_inj.mp
      rw [Bridge.sum16_toNat]
      exact hsum

/-- **a volume of a faithful tree whose bytes the reader accepts passes the volume checks**, when its
    revision is 2 and the tool knows its file-system GUID -/
theorem ve_fv_node (h : Hooks) (i : FvInfo) (buf : Bytes) (files : List File) (data : Bytes)
    (hF : FvF h (.mk i buf files) data) (hb : FvBytesOk buf)
    (hrev : i.revision = 2) (hguid : knownFvGuids.contains i.fsGuid = true) : validateFvNode i buf = [] := by
  unfold FvF at hF
  obtain ⟨hh, hle, hbuf, _⟩ := hF
  obtain ⟨d64, _, hlen, hsg, _, hhl, _⟩ := hh
  have hbl := fvBytesOk_len buf hb
  have hblen : buf.length = i.length := by rw [hbuf, List.length_take]; omega
  have hft : ∀ off n, off + n ≤ i.length → rd buf off n = rd data off n := by
    intro off n hn
    rw [rd_eq_fld, rd_eq_fld, hbuf]; exact fld_take _ _ _ _ hn
  exact ve_fvOk_fields hb i (by rw [hft 32 8 (by omega), hlen]) (by rw [hft 48 2 (by omega), hhl])
    (by rw [hft 40 4 (by omega), hsg]) hrev hguid

end Fiano.Uefi.C09
