/-
  C02 (follow-up wp-c02c, round 3): the central theorem for the edit language `run3` with `create-fv`
  under ANY erase polarity.  `Guard3w` asks of a `create-fv` only that the process polarity is set, and —
  when it is 0xFF — the placement conditions of `CreateFvPre`; under polarity 0 the new volume poisons
  the tree (Uefi/CreateFvPol0.lean) and nothing more is written, so the images written are those written
  before, which were valid.
-/
import FianoModel.Uefi.EditValidOps3
import FianoModel.Uefi.CreateFvPol0Run

namespace Fiano.Uefi
open Fiano
open EditArith
open Pol0

def Pre3w (op : Op3) (s : Run) : Prop :=
  match op with
  | .base (.createFv a z n) => s.st.pol ≠ 0xF0 ∧ (s.st.pol = 0xFF → CreateFvPre s.st.pol a z n s.tree)
  | _ => True

/-- the conditions along a run: every `create-fv` finds the erase polarity set, and under polarity
    0xFF its padding as `CreateFvPre` asks -/
def Guard3w (h : Hooks) (c : NvCompactFn) : List Op3 → Run → Prop
  | [], _ => True
  | op :: ops, s => Pre3w op s ∧ ∀ s', step3 h c op s = .ok s' → Guard3w h c ops s'

theorem run3_valid_anypol (h : Hooks) (hlaw : h.NvLaw) (c : NvCompactFn) (hc : c.Law) : ∀ (ops : List Op3) (s s' : Run),
    run3 h c ops s = .ok s' →
    (∀ op ∈ ops, Op3Ok op) → Guard3w h c ops s → TreeOk s.tree → rootLen s.tree < 2 ^ 31 →
    (∀ b ∈ s.outs, Valid.validImage b = true ∧ b.length = rootLen s.tree) →
    ∀ b ∈ s'.outs, Valid.validImage b = true ∧ b.length = rootLen s.tree
  | [], s, s', hr, _, _, _, _, houts => by
    rw [run3] at hr; cases hr; exact houts
  | op :: ops, s, s', hr, hops, hg, hok, hL, houts => by
    rw [Guard3w] at hg
    -- the one case outside `Pre3`: create-fv under a polarity other than 0xFF
    have hcases : Pre3 op s ∨ ∃ a z n, op = .base (.createFv a z n) ∧ s.st.pol ≠ 0xF0 ∧ s.st.pol ≠ 0xFF := by
      cases op with
      | nvCompact => exact Or.inl trivial
      | base op2 =>
        cases op2 with
        | base _ => exact Or.inl trivial
        | createFv a z n =>
          by_cases hp : s.st.pol = 0xFF
          · exact Or.inl (hg.1.2 hp)
          · exact Or.inr ⟨a, z, n, rfl, hg.1.1, hp⟩
    rcases hcases with hpre | ⟨a, z, n, rfl, hset, hpol⟩
    · rw [run3] at hr
      split at hr
      · cases hr
      · rename_i s1 hs1
        obtain ⟨h1, h2, h3⟩ := step3_ok h hlaw c hc op s s1 hs1 (hops op (by simp)) hpre hok hL houts
        have := run3_valid_anypol h hlaw c hc ops s1 s' hr (fun o ho => hops o (by simp [ho])) (hg.2 s1 hs1) h1
          (by rw [h2]; exact hL) (by rw [h2]; exact h3)
        rw [h2] at this
        exact this
    · have := createFv_wrong_polarity_writes_nothing h c a z n ops s s' hset hpol hr
      rw [this]
      exact houts

/-- **`edits_valid` for the whole modelled edit language, any erase polarity, from the bytes** -/
theorem edits_valid3_anypol (hcl h : Hooks) (hb : h.BoundedCodecs) (hlaw : h.NvLaw) (c : NvCompactFn) (hc : c.Law)
    (image : Bytes) (specs : List OpSpec3) (r : Run)
    (hu : utk3 hcl h c image specs = .ok r)
    (hv : Valid.validImage image = true) (hL : image.length < 65536 * 4096)
    (hspecs : ∀ s, .base (.base s) ∈ specs → SpecOk hcl s)
    (hRA : ∀ ops st t st', cliParse3 hcl specs {} = .ok (ops, st) →
      parseWith h (defaultFuel image) image st = .ok (t, st') → readAlikeB t = true)
    (hG : ∀ ops st t st', cliParse3 hcl specs {} = .ok (ops, st) →
      parseWith h (defaultFuel image) image st = .ok (t, st') → Guard3w h c ops { tree := t, st := st' }) :
    ∀ b ∈ r.outs, Valid.validImage b = true ∧ b.length = image.length := by
  unfold utk3 at hu
  split at hu
  · cases hu
  · rename_i ops st hcli
    split at hu
    · cases hu
    · rename_i t st' hp
      obtain ⟨hok, hlen⟩ := parse_establishes_TreeOk h hb hlaw _ image st st' t hp hv hL
        (readAlikeB_sound t (hRA ops st t st' hcli hp))
      have hops := cliParse3_ok hcl specs {} ops st hcli hspecs
      intro b hbm
      have := run3_valid_anypol h hlaw c hc ops _ r hu hops (hG ops st t st' hcli hp) hok (by simp only; rw [hlen]; omega)
        (by intro b hb; cases hb) b hbm
      simp only at this
      rw [hlen] at this
      exact this

end Fiano.Uefi
