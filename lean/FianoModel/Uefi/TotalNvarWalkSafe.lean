/-
  C05 (follow-up wp-c05b) — safety of the structured NVAR parser and of the walkers over NVAR nodes
  (TotalNvarWalk.lean):

    * `newNvarTreeG` is total for every byte string and polarity (same induction as TotalNvarSafe.lean) and
      what it returns satisfies `NvTreeWf`: a valid entry has `DataOffset ≤ len(buf)`, and `GUIDIndex` is set
      whenever `NVar.Assemble` dereferences it;
    * `validate`, `extract` and `assemble` over a store that satisfies `NvTreeWf` return a value or an
      ordinary error (assemble: up to `hugeSite`, see TotalAsmBase.lean);
    * the allocation of the NVarStore case that a length drives, `make([]byte, GUIDStoreOffset-FreeSpaceOffset)`,
      is at most `Length` — the store's own length.
-/
import FianoModel.Uefi.TotalNvarWalk
import FianoModel.Uefi.TotalNvarSafe

namespace Fiano.Uefi.Total
open Fiano GoM Fiano.Uefi

mutual
def NvNodeWf : NvNode → Prop
  | .mk e gidx _ nested =>
    (e.isValid = true → e.dataOffset ≤ e.buf.length ∧
      (e.attrs &&& 0x08 = 0 → e.attrs &&& 0x04 = 0 → gidx.isSome = true)) ∧ NvOptWf nested
def NvOptWf : Option NvTree → Prop
  | none => True
  | some t => NvTreeWf t
def NvNodesWf : List NvNode → Prop
  | [] => True
  | n :: ns => NvNodeWf n ∧ NvNodesWf ns
def NvTreeWf : NvTree → Prop
  | .mk _ nodes => NvNodesWf nodes
end

/-- what `nvIdentT` returns -/
def IdentTQ (s : NvS) (vbuf : Bytes) (attrs : Nat) (r : NvId) : Prop :=
  10 ≤ r.e.dataOffset ∧ r.e.dataOffset ≤ vbuf.length ∧ r.e.size = vbuf.length ∧ r.e.buf = vbuf ∧ r.e.attrs = attrs ∧
  GuidsFit s.buf r.guids ∧ s.guids.length ≤ r.guids.length ∧
  (attrs &&& 0x08 = 0 → attrs &&& 0x04 = 0 → r.gidx.isSome = true)

theorem nvIdentT_post (s : NvS) (vbuf : Bytes) (attrs : Nat) (e1 : NvE) (offset : Nat) (m : Meter)
    (hs : 10 ≤ vbuf.length) (he : e1.dataOffset = 10) (hes : e1.size = vbuf.length) (heb : e1.buf = vbuf)
    (hea : e1.attrs = attrs) (hfit : GuidsFit s.buf s.guids) :
    Post (nvIdentT s vbuf attrs e1 offset) m (fun r _ => IdentTQ s vbuf attrs r) := by
  unfold nvIdentT
  split
  · rename_i hdo
    split
    · exact post_pure ⟨by simp [he], by simp [he]; omega, by simp [hes], by simp [heb], by simp [hea], hfit,
        Nat.le_refl _, fun h => absurd h hdo⟩
    · exact post_pure ⟨by simp [he], by simp [he]; omega, by simp [hes], by simp [heb], by simp [hea], hfit,
        Nat.le_refl _, fun h => absurd h hdo⟩
  · refine post_bind (post_sliceFromG (by omega) ?_)
    have hgl : (vbuf.drop 10).length = vbuf.length - 10 := by simp
    refine post_bind' (R := fun r _ => (r.2.2.1 = 26 ∨ r.2.2.1 = 11) ∧ r.2.2.1 ≤ vbuf.length ∧ GuidsFit s.buf r.2.1 ∧
        s.guids.length ≤ r.2.1.length ∧ (attrs &&& 0x04 = 0 → r.2.2.2.isSome = true)) ?_ ?_
    · split
      · rename_i hg
        refine post_bind (post_binaryReadG ?_)
        intro h16
        try simp only []
        exact post_pure ⟨Or.inl rfl, by simp; omega, hfit, Nat.le_refl _, fun h => absurd h hg⟩
      · refine post_bind (post_binaryReadG ?_)
        intro h1
        try simp only []
        refine post_bind' (getGuidFromStore_post _ _ _ _ hfit) ?_
        rintro ⟨gg, gs⟩ m1 ⟨hf, hg⟩
        exact post_pure ⟨Or.inr rfl, by simp; omega, hf, hg, fun _ => rfl⟩
    · rintro ⟨g, guids, dOff, gidx⟩ m1 ⟨hd, hle, hf, hg, hgi⟩
      simp only [] at hd hle hf hg hgi ⊢
      refine post_bind (post_sliceFromG (by omega) ?_)
      have hnl : (vbuf.drop dOff).length = vbuf.length - dOff := by simp
      split
      · split
        · exact post_err
        · rename_i e hz
          have := indexZero_lt _ _ hz
          refine post_bind (post_sliceToG (by omega) ?_)
          exact post_pure ⟨by simp; omega, by simp; omega, by simp [hes], by simp [heb], by simp [hea], hf, hg,
            fun _ h4 => hgi h4⟩
      · split
        · exact post_err
        · rename_i e hz
          have := indexZero16_le _ _ hz
          refine post_bind (post_sliceToG (by omega) ?_)
          refine post_bind' (post_ucs2 _ _) ?_
          intro cps m2 _
          exact post_pure ⟨by simp; omega, by simp; omega, by simp [hes], by simp [heb], by simp [hea], hf, hg,
            fun _ h4 => hgi h4⟩

def EntryTQ (s : NvS) (buf : Bytes) (r : Option (NvNode × List Bytes)) : Prop :=
  match r with
  | some (n, guids) => 10 ≤ n.e.size ∧ n.e.size ≤ buf.length ∧ GuidsFit s.buf guids ∧
      s.guids.length ≤ guids.length ∧ NvNodeWf n
  | none => True

def StoreTQ (r : Option NvTree) : Prop :=
  match r with
  | some t => NvTreeWf t
  | none => True

theorem isValid_false_of_type0 (e : NvE) (h : e.type = 0) : e.isValid = false := by
  simp [NvE.isValid, h]

theorem nvarT_entry_step (pol : UInt8) (fuel : Nat)
    (ihStore : ∀ buf m, 2 * buf.length + 2 < fuel → Post (nvarStoreT pol fuel buf) m (fun r _ => StoreTQ r))
    (buf : Bytes) (offset : Nat) (s : NvS) (m : Meter) (hinv : NvInv s) (hf : 2 * buf.length < fuel + 1) :
    Post (newNvarT pol (fuel+1) buf offset s) m (fun r _ => EntryTQ s buf r) := by
  rw [newNvarT]
  split
  · exact post_pure trivial
  · refine post_bind (post_binaryReadG ?_)
    intro h10
    try simp only []
    split
    · exact post_err
    · split
      · exact post_err
      · split
        · exact post_err
        · rename_i hle hge
          refine post_bind (post_copyOutG (by omega) ?_)
          have hvl : (buf.take (rd (List.take 10 buf) 4 2)).length = rd (List.take 10 buf) 4 2 := by
            simp; omega
          split
          · refine post_pure ⟨by simp [NvNode.e]; omega, by simp [NvNode.e]; omega, hinv.2.1, Nat.le_refl _, ?_⟩
            simp only [NvNodeWf, NvOptWf, and_true]
            intro hv
            simp [NvE.isValid] at hv
          · split
            · exact post_err
            · try simp only []
              refine post_bind' (parseExtHeader_post _ _ _ _ hvl (by omega)) ?_
              intro okExt m1 _
              split
              · refine post_pure ⟨by simp [NvNode.e]; omega, by simp [NvNode.e]; omega, hinv.2.1, Nat.le_refl _, ?_⟩
                simp only [NvNodeWf, NvOptWf, and_true]
                intro hv
                simp [NvE.isValid] at hv
              · refine post_bind' (nvIdentT_post s _ _ _ _ _ (by rw [hvl]; omega) rfl (by simp [hvl]) rfl rfl
                  hinv.2.1) ?_
                rintro id m2 ⟨hd1, hd2, hsz, hbuf, hat, hfit, hgl, hgi⟩
                have hnode : ∀ nested, NvOptWf nested → NvNodeWf (.mk id.e id.gidx id.cps nested) := by
                  intro nested hn
                  simp only [NvNodeWf]
                  refine ⟨fun _ => ⟨by rw [hbuf]; exact hd2, ?_⟩, hn⟩
                  rw [hat]
                  exact hgi
                split
                · refine post_bind (post_sliceFromG (by omega) ?_)
                  split
                  · refine post_bind' (ihStore _ _ (by simp [hvl]; omega)) ?_
                    intro ns m3 hns
                    refine post_pure ⟨by simp [NvNode.e, hsz, hvl]; omega, by simp [NvNode.e, hsz, hvl]; omega, hfit, hgl, ?_⟩
                    apply hnode
                    cases ns with
                    | none => trivial
                    | some t => exact hns
                  · exact post_pure ⟨by simp [NvNode.e, hsz, hvl]; omega, by simp [NvNode.e, hsz, hvl]; omega, hfit, hgl,
                      hnode none trivial⟩
                · exact post_pure ⟨by simp [NvNode.e, hsz, hvl]; omega, by simp [NvNode.e, hsz, hvl]; omega, hfit, hgl,
                    hnode none trivial⟩

theorem nvarT_loop_step (pol : UInt8) (fuel : Nat)
    (ihEntry : ∀ buf offset s m, NvInv s → 2 * buf.length < fuel →
       Post (newNvarT pol fuel buf offset s) m (fun r _ => EntryTQ s buf r))
    (ihLoop : ∀ s m, NvInv s → 2 * (s.gso - s.fso) + 1 < fuel →
       Post (nvarLoopT pol fuel s) m (fun r _ => NvNodesWf r.2))
    (s : NvS) (m : Meter) (hinv : NvInv s) (hf : 2 * (s.gso - s.fso) + 1 < fuel + 1) :
    Post (nvarLoopT pol (fuel+1) s) m (fun r _ => NvNodesWf r.2) := by
  rw [nvarLoopT]
  obtain ⟨hlen, hfit, hgso⟩ := hinv
  split
  · rename_i hlt
    try simp only []
    refine post_bind (post_sliceG (by omega) ?_)
    have hel : ((s.buf.drop s.fso).take (s.gso - s.fso)).length = s.gso - s.fso := by simp; omega
    refine post_bind' (ihEntry _ s.fso s _ ⟨hlen, hfit, hgso⟩ (by rw [hel]; omega)) ?_
    intro r m1 hr
    split
    · exact post_pure (by simp [NvNodesWf])
    · rename_i n guids
      simp only [EntryTQ] at hr
      obtain ⟨h10, hsz, hfit', hgl, hwf⟩ := hr
      rw [hel] at hsz
      split
      · exact post_err
      · refine post_bind' (ihLoop _ _ ⟨hlen, hfit', rfl⟩ ?_) ?_
        · simp only []
          unfold GuidsFit at hfit hfit'
          omega
        · rintro ⟨s', rest⟩ m2 hrest
          exact post_pure (by simp only [NvNodesWf]; exact ⟨hwf, hrest⟩)
  · exact post_pure (by simp [NvNodesWf])

theorem nvarT_store_step (pol : UInt8) (fuel : Nat)
    (ihLoop : ∀ s m, NvInv s → 2 * (s.gso - s.fso) + 1 < fuel →
       Post (nvarLoopT pol fuel s) m (fun r _ => NvNodesWf r.2))
    (buf : Bytes) (m : Meter) (hf : 2 * buf.length + 2 < fuel + 1) :
    Post (nvarStoreT pol (fuel+1) buf) m (fun r _ => StoreTQ r) := by
  rw [nvarStoreT]
  refine post_bind (post_cloneG ?_)
  refine post_bind' (R := fun r _ => match r with | some x => NvNodesWf x.2 | none => True) ?_ ?_
  · refine post_catchErrG (ihLoop _ _ ?_ ?_) (fun _ _ h => h) trivial
    · exact ⟨rfl, by simp [GuidsFit], by simp⟩
    · simp only []; omega
  · intro r _ hr
    refine post_pure ?_
    cases r with
    | none => trivial
    | some x => obtain ⟨s, ns⟩ := x; simpa [StoreTQ, NvTreeWf] using hr

theorem nvarT_mutual (pol : UInt8) : ∀ fuel,
    (∀ buf offset s m, NvInv s → 2 * buf.length < fuel →
       Post (newNvarT pol fuel buf offset s) m (fun r _ => EntryTQ s buf r)) ∧
    (∀ s m, NvInv s → 2 * (s.gso - s.fso) + 1 < fuel → Post (nvarLoopT pol fuel s) m (fun r _ => NvNodesWf r.2)) ∧
    (∀ buf m, 2 * buf.length + 2 < fuel → Post (nvarStoreT pol fuel buf) m (fun r _ => StoreTQ r)) := by
  intro fuel
  induction fuel with
  | zero => refine ⟨?_, ?_, ?_⟩ <;> intros <;> omega
  | succ fuel ih =>
    obtain ⟨ihE, ihL, ihS⟩ := ih
    exact ⟨fun buf offset s m hinv hf => nvarT_entry_step pol fuel ihS buf offset s m hinv hf,
           fun s m hinv hf => nvarT_loop_step pol fuel ihE ihL s m hinv hf,
           fun buf m hf => nvarT_store_step pol fuel ihL buf m hf⟩

/-- **NewNVarStore (as a tree of nodes) is total** for every byte string and polarity, and the tree is
    well formed -/
theorem newNvarTreeG_post (pol : UInt8) (buf : Bytes) (m : Meter) :
    Post (newNvarTreeG pol buf) m (fun r _ => StoreTQ r) :=
  (nvarT_mutual pol _).2.2 buf m (by unfold nvarFuel; omega)

/-! ### validate / extract over NVAR nodes -/

mutual
theorem validateNvNode_safe : ∀ (n : NvNode) (m : Meter), Post (validateNvNodeG n) m (fun _ _ => True)
  | .mk _ _ _ nested, m => by
    unfold validateNvNodeG
    cases nested with
    | none => exact post_pure trivial
    | some t => exact validateNvTree_safe t m
theorem validateNvNodes_safe : ∀ (ns : List NvNode) (m : Meter), Post (validateNvNodesG ns) m (fun _ _ => True)
  | [], m => by rw [validateNvNodesG]; exact post_pure trivial
  | n :: ns, m => by
    rw [validateNvNodesG]
    exact post_bind' (validateNvNode_safe n m) (fun _ m' _ => validateNvNodes_safe ns m')
theorem validateNvTree_safe : ∀ (t : NvTree) (m : Meter), Post (validateNvTreeG t) m (fun _ _ => True)
  | .mk _ nodes, m => by rw [validateNvTreeG]; exact validateNvNodes_safe nodes m
end

mutual
theorem extractNvNode_safe : ∀ (n : NvNode), NvNodeWf n → ∀ (m : Meter), Post (extractNvNodeG n) m (fun _ _ => True)
  | .mk e _ _ nested, hw, m => by
    unfold extractNvNodeG
    simp only [NvNodeWf] at hw
    split
    · rename_i hv
      cases nested with
      | none =>
        refine post_bind (post_sliceFromG (hw.1 hv).1 ?_)
        exact post_pure trivial
      | some t => exact extractNvTree_safe t hw.2 m
    · cases nested with
      | none => exact post_pure trivial
      | some t =>
        refine post_bind' (extractNvTree_safe t hw.2 m) ?_
        intro _ _ _
        exact post_pure trivial
theorem extractNvNodes_safe : ∀ (ns : List NvNode), NvNodesWf ns → ∀ (m : Meter),
    Post (extractNvNodesG ns) m (fun _ _ => True)
  | [], _, m => by rw [extractNvNodesG]; exact post_pure trivial
  | n :: ns, hw, m => by
    rw [extractNvNodesG]
    simp only [NvNodesWf] at hw
    refine post_bind' (extractNvNode_safe n hw.1 m) ?_
    intro _ m1 _
    refine post_bind' (extractNvNodes_safe ns hw.2 m1) ?_
    intro _ _ _
    exact post_pure trivial
theorem extractNvTree_safe : ∀ (t : NvTree), NvTreeWf t → ∀ (m : Meter), Post (extractNvTreeG t) m (fun _ _ => True)
  | .mk _ nodes, hw, m => by
    rw [extractNvTreeG]
    exact extractNvNodes_safe nodes (by simpa [NvTreeWf] using hw) m
end

/-! ### assemble over NVAR nodes -/

theorem nvarHeaderG_post (pol : UInt8) (e : NvE) (gidx : Option Nat) (cps : List Nat) (m : Meter)
    (hg : e.attrs &&& 0x08 = 0 → e.attrs &&& 0x04 = 0 → gidx.isSome = true) :
    Post (nvarHeaderG pol e gidx cps) m (fun _ m' => m' = m) := by
  unfold nvarHeaderG
  try simp only []
  split
  · rename_i h8
    refine post_bind' (R := fun _ m' => m' = m) ?_ ?_
    · split
      · exact post_pure rfl
      · rename_i h4
        have := hg h8 (by simpa using h4)
        cases gidx with
        | none => simp at this
        | some i => exact post_pure rfl
    · intro g m1 hm
      subst hm
      exact post_pure rfl
  · exact post_pure rfl

theorem nvarAssembleG_post (pol : UInt8) (e : NvE) (gidx : Option Nat) (cps : List Nat) (content : Bytes) (m : Meter)
    (hg : e.attrs &&& 0x08 = 0 → e.attrs &&& 0x04 = 0 → gidx.isSome = true) :
    PostA (nvarAssembleG pol e gidx cps content) m (fun r _ => e.dataOffset ≤ r.length) := by
  unfold nvarAssembleG
  refine postA_bind' (postA_of_post (nvarHeaderG_post pol e gidx cps m hg)) ?_
  intro hdr m1 _
  refine postA_bind (postA_appendG (fun _ => ?_))
  split
  · exact postA_err
  · rename_i hdo
    refine postA_bind (postA_appendG (fun _ => ?_))
    split
    · exact postA_err
    · refine postA_pure ?_
      have : e.dataOffset = hdr.length := by simpa using hdo
      simp; omega

theorem concatBufsG_post : ∀ (ns : List NvNode) (acc : Bytes) (m : Meter),
    PostA (concatBufsG ns acc) m (fun _ _ => True)
  | [], acc, m => by rw [concatBufsG]; exact postA_pure trivial
  | n :: ns, acc, m => by
    rw [concatBufsG]
    refine postA_bind (postA_appendG (fun _ => ?_))
    exact concatBufsG_post ns _ _

/-- `NvOptWf` / `NvNodeWf` only look at the entry's validity, data offset, buffer, attributes — what
    `asmNvNodeG` keeps or re-establishes -/
theorem asmNvStore_tail (pol : UInt8) (s : NvS) (nodes' : List NvNode) (m : Meter) (hw : NvNodesWf nodes') :
    PostA (do
      let nvData ← concatBufsG nodes' []
      let fso := nvData.length % 18446744073709551616
      let gso := (s.length + 18446744073709551616 - (16 * s.guids.length) % 18446744073709551616) % 18446744073709551616
      if gso < fso then err else do
      makeG (gso - fso)
      appendG nvData.length (gso - fso)
      let nvData := nvData ++ List.replicate (gso - fso) pol
      let gb := guidStoreBuf s.guids
      appendG nvData.length gb.length
      pure (NvTree.mk { s with buf := nvData ++ gb, fso := fso, gso := gso } nodes')) m
      (fun t _ => NvTreeWf t) := by
  refine postA_bind' (concatBufsG_post nodes' [] m) ?_
  intro nvData m1 _
  try simp only []
  split
  · exact postA_err
  · refine postA_bind (postA_makeG (fun _ => ?_))
    refine postA_bind (postA_appendG (fun _ => ?_))
    refine postA_bind (postA_appendG (fun _ => ?_))
    exact postA_pure (by simpa [NvTreeWf] using hw)

mutual
theorem asmNvNode_safe (pol : UInt8) : ∀ (n : NvNode), NvNodeWf n → ∀ (m : Meter),
    PostA (asmNvNodeG pol n) m (fun r _ => NvNodeWf r)
  | .mk e gidx cps nested, hw, m => by
    unfold asmNvNodeG
    simp only [NvNodeWf] at hw
    refine postA_bind' (R := fun r _ => NvOptWf r) ?_ ?_
    · cases nested with
      | none => exact postA_pure trivial
      | some t =>
        refine postA_bind' (asmNvTree_safe pol t hw.2 m) ?_
        intro t' m1 ht'
        exact postA_pure ht'
    · intro nested' m1 hn'
      split
      · rename_i hv
        refine postA_bind' (R := fun _ _ => True) ?_ ?_
        · cases nested' with
          | none => exact postA_sliceFromG (hw.1 hv).1 trivial
          | some t' => exact postA_pure trivial
        · intro content m2 _
          refine postA_bind' (nvarAssembleG_post pol e gidx cps content m2 (hw.1 hv).2) ?_
          intro nb m3 hnb
          refine postA_pure ?_
          simp only [NvNodeWf]
          exact ⟨fun _ => ⟨hnb, (hw.1 hv).2⟩, hn'⟩
      · refine postA_pure ?_
        simp only [NvNodeWf]
        exact ⟨hw.1, hn'⟩
theorem asmNvNodes_safe (pol : UInt8) : ∀ (ns : List NvNode), NvNodesWf ns → ∀ (m : Meter),
    PostA (asmNvNodesG pol ns) m (fun r _ => NvNodesWf r)
  | [], _, m => by rw [asmNvNodesG]; exact postA_pure (by simp [NvNodesWf])
  | n :: ns, hw, m => by
    rw [asmNvNodesG]
    simp only [NvNodesWf] at hw
    refine postA_bind' (asmNvNode_safe pol n hw.1 m) ?_
    intro n' m1 hn'
    refine postA_bind' (asmNvNodes_safe pol ns hw.2 m1) ?_
    intro ns' m2 hns'
    exact postA_pure (by simp only [NvNodesWf]; exact ⟨hn', hns'⟩)
theorem asmNvTree_safe (pol : UInt8) : ∀ (t : NvTree), NvTreeWf t → ∀ (m : Meter),
    PostA (asmNvTreeG pol t) m (fun r _ => NvTreeWf r)
  | .mk s nodes, hw, m => by
    rw [asmNvTreeG]
    refine postA_bind' (asmNvNodes_safe pol nodes (by simpa [NvTreeWf] using hw) m) ?_
    intro nodes' m1 hn'
    exact asmNvStore_tail pol s nodes' m1 hn'
end

/-- the one length-driven allocation of the NVarStore case, `make([]byte, GUIDStoreOffset-FreeSpaceOffset)`, is at
    most the store's own `Length` whenever the GUID store fits the store (`GuidsFit`, kept by the parser) -/
theorem nvstore_make_le (length nguids fso : Nat) (hfit : 16 * nguids ≤ length) (hl : length < 18446744073709551616) :
    (length + 18446744073709551616 - (16 * nguids) % 18446744073709551616) % 18446744073709551616 - fso ≤ length := by
  omega

/-- **Assemble over the NVarStore of a RAW file** (the hook of `asmFileG`): for every store buffer, every
    polarity `pp` under which it was parsed and every polarity `pol` under which it is assembled -/
theorem nvAsmHookG_post (pp : UInt8) (nv : NvStore) (pol : UInt8) (m : Meter) :
    PostA (nvAsmHookG pp nv pol) m (fun _ _ => True) := by
  unfold nvAsmHookG
  refine postA_bind' (postA_of_post (newNvarTreeG_post pp nv.buf m)) ?_
  intro r m1 hr
  cases r with
  | none => exact postA_pure trivial
  | some t =>
    refine postA_bind' (asmNvTree_safe pol t hr m1) ?_
    intro t' m2 _
    exact postA_pure trivial

end Fiano.Uefi.Total
