/-
  C02 (follow-up wp-c02b), `parse_establishes_TreeOk`, part 3: a parsed volume satisfies `FvHdrOk`.
-/
import FianoModel.Uefi.ParseOk2

namespace Fiano.Uefi
open Fiano
open EditArith

/-- the block map has one entry: the header is 72 bytes long -/
theorem one_block_hdr72 (buf : Bytes) (hok : hdrOk buf = true) (h64 : Valid.fld buf 64 4 = 0) (h68 : Valid.fld buf 68 4 = 0) :
    Valid.fld buf 48 2 = 72 := by
  obtain ⟨w64, _, _, _, _, _, _, d, _, hwalk⟩ := hdrOk_walk buf hok
  have h0 := hwalk 0
  obtain ⟨n, hn⟩ : ∃ n, buf.length / 8 = n + 1 := ⟨buf.length / 8 - 1, by omega⟩
  rw [hn, Valid.blockMap] at h0
  split at h0
  · cases h0
  · simp only [Nat.reduceAdd] at h0
    rw [h64, h68] at h0
    simp only [and_self, if_true, Option.some.injEq, Prod.mk.injEq] at h0
    omega

/-- **a parsed volume's fields agree with its buffer** (`FvHdrOk`), when the reader accepts the buffer -/
theorem fv_hdr_est (h : Hooks) (i : FvInfo) (buf : Bytes) (files : List File) (data : Bytes)
    (hF : FvF h (.mk i buf files) data)
    (hRA2 : i.resizable = true → ∃ b0 k, i.blocks = [b0] ∧ b0.size = 2 ^ k ∧ k < 32)
    (hb : FvBytesOk buf) : FvHdrOk i buf := by
  unfold FvF at hF
  obtain ⟨hh, hle, hbuf, _⟩ := hF
  obtain ⟨d64, hguid, hlen, _, hattrs, hhl, _, heho, _, _, hblocks, hx⟩ := hh
  rw [rd_eq_fld] at hlen hattrs hhl heho
  obtain ⟨f0, hf0⟩ := hb
  cases f0 with
  | zero => simp [Valid.fvOk] at hf0
  | succ n =>
    have hfirst := fvOk_first_ge n buf hf0
    have hf0' := hf0
    rw [fvOk_eq] at hf0'
    simp only [Bool.and_eq_true] at hf0'
    have hok := hf0'.1
    obtain ⟨w64, w32, whl64, whl, _, w56, w60, _⟩ := hdrOk_walk buf hok
    have hblen : buf.length = i.length := by rw [hbuf, List.length_take]; omega
    have hft : ∀ off n, off + n ≤ i.length → Valid.fld buf off n = Valid.fld data off n := by
      intro off n hn; rw [hbuf]; exact fld_take _ _ _ _ hn
    have hL64 : 64 ≤ i.length := by omega
    -- the extended-header clause of the reader
    have hokx := hok
    unfold hdrOk at hokx
    simp only [Bool.and_eq_true, decide_eq_true_eq] at hokx
    obtain ⟨_, ⟨⟨⟨⟨⟨_, _⟩, _⟩, _⟩, _⟩, hxr⟩⟩ := hokx
    have b52 : Valid.fld buf 52 2 = i.extHeaderOffset := by rw [hft 52 2 (by omega), heho]
    have b48 : Valid.fld buf 48 2 = i.headerLen := by rw [hft 48 2 (by omega), hhl]
    refine ⟨⟨n + 1, hf0⟩, hblen, b48.symm, ?_, ?_, ?_, by rw [hft 44 4 (by omega), hattrs], ?_⟩
    · -- first block-map entry
      cases hbl : i.blocks with
      | nil =>
        rw [hbl] at hblocks
        unfold BlocksAt at hblocks
        have : Valid.fld buf 56 4 = 0 := by rw [hft 56 4 (by omega), ← rd_eq_fld]; exact hblocks.2.1
        exact absurd this w56
      | cons b0 bs =>
        rw [hbl] at hblocks
        unfold BlocksAt at hblocks
        exact ⟨b0, bs, rfl, by rw [hft 56 4 (by omega), ← rd_eq_fld]; exact hblocks.2.1⟩
    · -- data offset
      unfold fvFirst
      rw [b52, b48]
      by_cases hz : i.extHeaderOffset = 0
      · rw [if_pos hz]
        have hne : ¬ fvHasExt i := by unfold fvHasExt; omega
        rw [if_neg hne] at hx
        rw [hx.2.2, up8_eq_alignUp]
      · rw [if_neg hz]
        -- the reader's rule V6: a non-zero extended-header offset leaves 20 bytes inside the volume
        have hlt : i.extHeaderOffset + 20 ≤ i.length := by
          rw [b52, if_neg hz] at hxr
          simp only [Bool.and_eq_true, decide_eq_true_eq] at hxr
          have := hxr.1.1.2
          rw [w32, hblen] at this
          exact this
        have hhe : fvHasExt i := by unfold fvHasExt; omega
        rw [if_pos hhe] at hx
        rw [hx.2.2, hx.2.1, rd_eq_fld, hft _ 4 (by omega), up8_eq_alignUp]
    · rw [hguid]
      unfold slice
      rw [hbuf]
      exact (window_of_take_eq (data.take i.length) data i.length 16 16 (by rw [List.take_take]; simp) (by omega)).symm
    · -- a resizable volume: one block entry, power-of-two size
      intro hres
      obtain ⟨b0, k, hbl, hsz, hk⟩ := hRA2 hres
      rw [hbl] at hblocks
      unfold BlocksAt at hblocks
      obtain ⟨_, _, hs60, _, hterm⟩ := hblocks
      unfold BlocksAt at hterm
      obtain ⟨h72, t1, t2⟩ := hterm
      rw [rd_eq_fld] at hs60 t1 t2
      -- the volume holds the terminator: the reader's walk read it
      have hL72 : 72 ≤ i.length := by
        obtain ⟨_, _, _, _, _, _, _, d, _, hwalk⟩ := hdrOk_walk buf hok
        have h0 := hwalk 0
        obtain ⟨m, hm⟩ : ∃ m, buf.length / 8 = m + 1 := ⟨buf.length / 8 - 1, by omega⟩
        rw [hm, Valid.blockMap] at h0
        split at h0
        · cases h0
        · omega
      refine ⟨b0, [], k, hbl, hsz, hk, by rw [hft 60 4 (by omega), ← hs60, hsz], ?_⟩
      exact one_block_hdr72 buf hok (by rw [hft 64 4 (by omega)]; exact t1) (by rw [hft 68 4 (by omega)]; exact t2)

end Fiano.Uefi
