/-
  T1 tie for the extract / ParseDir model (property C07): the path text, the region type names, the
  json tags of the node types, the `ThreeUint8.UnmarshalJSON` quirk and the wiring of `utk DIR …` /
  `Save` are compared with the facts regenerated from the Go sources on every build
  (FianoModel/Gen/Extract.lean, ExtractUefi.lean, ExtractGuid.lean, ExtractUtk.lean).

  The model follows the code as repaired by fixes/C07-nvar-extract-path.diff (the string literals of
  the NVAR arm of `Extract.Visit` are the repaired ones).
-/
import FianoModel.Uefi.Extract
import FianoModel.Gen.Extract
import FianoModel.Gen.ExtractUefi
import FianoModel.Gen.ExtractGuid
import FianoModel.Gen.ExtractUtk

namespace Fiano.Uefi.ExtractTie
open Fiano Fiano.Uefi

def ascS (s : String) : Bytes := asc s.toList

/-! ### path text -/

/-- every string literal of `Extract.Visit` (sorted): Sprintf verbs, directory and file names -/
theorem tie_extract_strings : Gen.Extract.strlits_Extract_Visit =
    ["%#x", "%#x.bin", "%#x.nvar", "%v-%#x", "%v.ffs", "%v.sec", ".bin", "_", "bios", "biospad_%#x",
     "biosregion.bin", "flashdescriptor.bin", "fv.bin", "fvh.bin", "ifd", "me", "meregion.bin", "pad.bin"] := by
  decide

/-- the model's names are these literals -/
theorem tie_names :
    nameFv = ascS "fv.bin" ∧ nameFvh = ascS "fvh.bin" ∧ extFfs = ascS ".ffs" ∧ extSec = ascS ".sec" ∧
    extBin = ascS ".bin" ∧ nameIfd = ascS "ifd" ∧ nameIfdBin = ascS "flashdescriptor.bin" ∧
    nameBios = ascS "bios" ∧ nameBiosBin = ascS "biosregion.bin" ∧ nameMe = ascS "me" ∧
    nameMeBin = ascS "meregion.bin" ∧ biospadPrefix = ascS "biospad_" ∧ namePad = ascS "pad.bin" := by
  decide +kernel

/-- `%#x` and `%d` as the model renders them -/
theorem tie_number_text :
    hexStr 0 = ascS "0x0" ∧ hexStr 0x1f000 = ascS "0x1f000" ∧ hexStr 4294963200 = ascS "0xfffff000" ∧
    decStr 0 = ascS "0" ∧ decStr 1234567890 = ascS "1234567890" := by decide +kernel

/-- `flashRegionTypeNames`: the fifteen names, keys 0 … 14 -/
theorem tie_region_names :
    Gen.ExtractUefi.flashRegionTypeNames.map Prod.fst = List.range 15 ∧
    Gen.ExtractUefi.flashRegionTypeNames.map (fun p => ascS p.2) = regionNames := by decide +kernel

theorem tie_unknown_region : Gen.ExtractUefi.strlits_FlashRegionType_String = ["Unknown Region (%d)"] ∧
    regionName (-1) = ascS "Unknown Region (-1)" ∧ regionName 15 = ascS "Unknown Region (15)" ∧
    regionName 2 = ascS "GbE" := by decide +kernel

/-- `guid.GUID.String()` -/
theorem tie_guid_format : Gen.ExtractGuid.Size = 16 ∧
    Gen.ExtractGuid.strFormat = "%02X%02X%02X%02X-%02X%02X-%02X%02X-%02X%02X-%02X%02X%02X%02X%02X%02X" ∧
    Gen.ExtractGuid.fields = [4, 2, 2, 1, 1, 1, 1, 1, 1, 1, 1] ∧
    guidStr ((List.range 16).map (fun i => UInt8.ofNat (0xA0 + i))) =
      ascS "A3A2A1A0-A5A4-A7A6-A8A9-AAABACADAEAF" := by decide +kernel

/-! ### which fields summary.json does not hold -/

/-- the `json:"-"` fields are exactly the ones `sumSecInfo` / `sumFileInfo` / `sumFvInfo` zero
    (`FVType` is not part of the model); every other tag is `omitempty` on a child list or on an
    optional value, which loses nothing -/
theorem tie_json_tags :
    Gen.ExtractUefi.jsontags_FileHeader = [("Checksum", "-")] ∧
    Gen.ExtractUefi.jsontags_FileHeaderExtended = [("ExtendedSize", "-")] ∧
    Gen.ExtractUefi.jsontags_File = [("Sections", ",omitempty"), ("NVarStore", ",omitempty")] ∧
    Gen.ExtractUefi.jsontags_SectionHeader = [("Size", "-")] ∧
    Gen.ExtractUefi.jsontags_SectionExtHeader = [("ExtendedSize", "-")] ∧
    Gen.ExtractUefi.jsontags_SectionGUIDDefinedHeader = [] ∧
    Gen.ExtractUefi.jsontags_SectionGUIDDefined = [] ∧
    Gen.ExtractUefi.jsontags_DepExOp = [("GUID", ",omitempty")] ∧
    Gen.ExtractUefi.jsontags_Section =
      [("FileOrder", "-"), ("TypeSpecific", ",omitempty"), ("Name", ",omitempty"), ("BuildNumber", ",omitempty"),
       ("Version", ",omitempty"), ("DepEx", ",omitempty"), ("Encapsulated", ",omitempty")] ∧
    Gen.ExtractUefi.jsontags_FirmwareVolumeFixedHeader = [("Reserved", "-")] ∧
    Gen.ExtractUefi.jsontags_FirmwareVolumeExtHeader = [] ∧
    Gen.ExtractUefi.jsontags_FirmwareVolume = [("Files", ",omitempty"), ("FVType", "-"), ("FreeSpace", "-")] ∧
    Gen.ExtractUefi.jsontags_BIOSRegion = [("Elements", ",omitempty")] ∧
    Gen.ExtractUefi.jsontags_BIOSPadding = [] ∧
    Gen.ExtractUefi.jsontags_RawRegion = [] ∧
    Gen.ExtractUefi.jsontags_MERegion = [] ∧
    Gen.ExtractUefi.jsontags_FlashImage = [("Regions", ",omitempty")] ∧
    Gen.ExtractUefi.jsontags_FlashDescriptor = [] ∧
    Gen.ExtractUefi.jsontags_FlashRegion = [] := by decide

/-- `ThreeUint8.UnmarshalJSON` copies the JSON text: one `copy`, nothing else (`goJunk`) -/
theorem tie_three_uint8 : Gen.ExtractUefi.builtins_ThreeUint8_UnmarshalJSON = [("copy", 2)] ∧
    goJunk { guid := [], ckHeader := 0, ckFile := 0, type := 0, attrs := 0, size3 := 1234, state := 0,
             extSize := 0, dataOffset := 0 } = 0x333231 ∧
    goJunk { guid := [], ckHeader := 0, ckFile := 0, type := 0, attrs := 0, size3 := 24, state := 0,
             extSize := 0, dataOffset := 0 } = 0x003432 := by decide +kernel

/-! ### wiring -/

/-- `ParseDir.Parse` reads summary.json; `ParseDir.Visit` prefixes an NVAR value with `DataOffset`
    zero bytes (its only allocation) -/
theorem tie_parsedir : Gen.Extract.strlits_ParseDir_Parse = ["summary.json"] ∧
    Gen.Extract.builtins_ParseDir_Visit = [("append", 2), ("make", 2)] := by decide

/-- `utk DIR …`: ParseDir, then Assemble, then the commands — and `Save` assembles again -/
theorem tie_utk_run :
    Gen.ExtractUtk.complits_Run = ["visitors.ParseDir", "visitors.Assemble"] ∧
    Gen.ExtractUtk.pkgrefs_Run = ["errors.New", "visitors.ParseCLI", "os.Stat", "uefi.Firmware", "visitors.ParseDir",
      "visitors.Assemble", "os.ReadFile", "uefi.Parse", "visitors.ExecuteCLI"] ∧
    Gen.Extract.complits_Save_Visit = ["Assemble"] ∧ Gen.Extract.pkgrefs_Save_Visit = ["os.WriteFile"] := by decide

end Fiano.Uefi.ExtractTie
