/-
  C02 (follow-up wp-c02b), layer (d), part 1: the reader's region scan (rules B1–B2), declaratively.

  `WalkSpec b pos n` describes an accepting run of `Valid.biosWalk` from `pos` with `n` volumes seen:
  either no `_FVH` probe (offsets `pos+40, pos+48, …`) hits any more and `n > 0`, or the first hit is
  at `s`, the bytes `[s, s+FvLength)` are a volume the reader accepts, and the run continues behind
  it.  `walkSpec_sound` turns such a description into `biosWalk … = true` for every sufficient
  budget (in particular the one `biosOk` hands out); `walkSpec_shift` moves it behind a prefix.
-/
import FianoModel.Uefi.EditValidTree2

namespace Fiano.Uefi
open Fiano
open EditArith

/-- `_FVH` at offset `x` -/
abbrev sigAt (b : Bytes) (x : Nat) : Prop := (b.drop x).take 4 = Valid.fvSig

/-- the first probe from `pos` that hits is the one for a volume at `s` -/
structure Hits (b : Bytes) (pos s : Nat) : Prop where
  le    : pos ≤ s
  step  : (s - pos) % 8 = 0
  fits  : s + 44 ≤ b.length
  hit   : sigAt b (s + 40)
  first : ∀ k, pos + 8 * k < s → ¬ sigAt b (pos + 8 * k + 40)

/-- no probe from `pos` on hits -/
def NoHit (b : Bytes) (pos : Nat) : Prop := ∀ k, pos + 8 * k + 44 ≤ b.length → ¬ sigAt b (pos + 8 * k + 40)

theorem nextFv_of_hits (b : Bytes) : ∀ (fuel pos s : Nat), Hits b pos s → (s - pos) / 8 < fuel →
    Valid.nextFv fuel b pos = some s := by
  intro fuel
  induction fuel with
  | zero => intro pos s _ hf; omega
  | succ n ih =>
    intro pos s hh hf
    rw [Valid.nextFv]
    rw [if_neg (by have := hh.fits; have := hh.le; omega)]
    by_cases hps : pos = s
    · subst hps
      rw [if_pos hh.hit]
    · have hlt : pos < s := by have := hh.le; omega
      have h8 : pos + 8 ≤ s := by have := hh.step; omega
      have hno : ¬ sigAt b (pos + 40) := by
        have := hh.first 0 (by omega)
        simpa using this
      rw [if_neg hno]
      apply ih (pos + 8) s
      · refine ⟨h8, by have := hh.step; omega, hh.fits, hh.hit, fun k hk => ?_⟩
        have := hh.first (k + 1) (by omega)
        have e : pos + 8 * (k + 1) + 40 = pos + 8 + 8 * k + 40 := by omega
        rw [e] at this
        exact this
      · have : (s - pos) / 8 = (s - (pos + 8)) / 8 + 1 := by omega
        omega

theorem nextFv_of_noHit (b : Bytes) : ∀ (fuel pos : Nat), NoHit b pos → Valid.nextFv fuel b pos = none := by
  intro fuel
  induction fuel with
  | zero => intro pos _; rfl
  | succ n ih =>
    intro pos hn
    rw [Valid.nextFv]
    by_cases hend : pos + 44 > b.length
    · rw [if_pos hend]
    · rw [if_neg hend]
      have hno : ¬ sigAt b (pos + 40) := by
        have := hn 0 (by omega)
        simpa using this
      rw [if_neg hno]
      apply ih
      intro k hk
      have := hn (k + 1) (by omega)
      have e : pos + 8 * (k + 1) + 40 = pos + 8 + 8 * k + 40 := by omega
      rw [e] at this
      exact this

/-- what `nextFv` found, when it found something -/
theorem hits_of_nextFv (b : Bytes) : ∀ (fuel pos s : Nat), Valid.nextFv fuel b pos = some s → Hits b pos s := by
  intro fuel
  induction fuel with
  | zero => intro pos s h; simp [Valid.nextFv] at h
  | succ n ih =>
    intro pos s h
    rw [Valid.nextFv] at h
    split at h
    · cases h
    · rename_i hend
      split at h
      · rename_i hsig
        cases h
        exact ⟨Nat.le_refl _, by simp, by omega, hsig, fun k hk => by omega⟩
      · rename_i hsig
        have hr := ih _ _ h
        refine ⟨by have := hr.le; omega, by have := hr.step; have := hr.le; omega, hr.fits, hr.hit, fun k hk => ?_⟩
        cases k with
        | zero => simpa using hsig
        | succ j =>
          have := hr.first j (by omega)
          have e : pos + 8 * (j + 1) + 40 = pos + 8 + 8 * j + 40 := by omega
          rw [e]
          exact this

/-- … and when it found nothing with a budget that reaches the end -/
theorem noHit_of_nextFv (b : Bytes) : ∀ (fuel pos : Nat), Valid.nextFv fuel b pos = none → (b.length - pos) / 8 < fuel →
    NoHit b pos := by
  intro fuel
  induction fuel with
  | zero => intro pos _ hf; omega
  | succ n ih =>
    intro pos h hf
    rw [Valid.nextFv] at h
    split at h
    · rename_i hend
      intro k hk
      omega
    · rename_i hend
      split at h
      · cases h
      · rename_i hsig
        have hr := ih _ h (by omega)
        intro k hk
        cases k with
        | zero => simpa using hsig
        | succ j =>
          have := hr j (by omega)
          have e : pos + 8 * (j + 1) + 40 = pos + 8 + 8 * j + 40 := by omega
          rw [e]
          exact this

/-- an accepting run of the reader's region walk -/
inductive WalkSpec (b : Bytes) : Nat → Nat → Prop where
  | done (pos n : Nat) : NoHit b pos → 0 < n → WalkSpec b pos n
  | vol (pos n s : Nat) : Hits b pos s → 64 ≤ Valid.fld b (s + 32) 8 → s + Valid.fld b (s + 32) 8 ≤ b.length →
      FvBytesOk ((b.drop s).take (Valid.fld b (s + 32) 8)) → WalkSpec b (s + Valid.fld b (s + 32) 8) (n + 1) →
      WalkSpec b pos n

/-- **the description is sound**: the reader's walk accepts, with every sufficient budget -/
theorem walkSpec_sound (b : Bytes) (pos n : Nat) (hw : WalkSpec b pos n) :
    ∀ fuel, (b.length - pos) / 64 + 1 ≤ fuel → Valid.biosWalk fuel b pos n = true := by
  induction hw with
  | done pos n hno hn =>
    intro fuel hf
    obtain ⟨m, rfl⟩ : ∃ m, fuel = m + 1 := ⟨fuel - 1, by omega⟩
    rw [Valid.biosWalk, nextFv_of_noHit b _ pos hno]
    simpa using hn
  | vol pos n s hh h64 hfit hok _ ih =>
    intro fuel hf
    obtain ⟨m, rfl⟩ : ∃ m, fuel = m + 1 := ⟨fuel - 1, by omega⟩
    rw [Valid.biosWalk, nextFv_of_hits b _ pos s hh (by have := hh.fits; have := hh.le; omega)]
    simp only
    rw [if_neg (by omega)]
    simp only [Bool.and_eq_true]
    refine ⟨?_, ?_⟩
    · apply fvOk_fuel _ hok
      simp only [List.length_take, List.length_drop]
      omega
    · apply ih
      have := hh.le
      have : b.length - (s + Valid.fld b (s + 32) 8) + 64 ≤ b.length - pos := by omega
      omega

/-- … and complete: an accepting run has such a description -/
theorem walkSpec_complete (b : Bytes) : ∀ (fuel pos n : Nat), Valid.biosWalk fuel b pos n = true → WalkSpec b pos n := by
  intro fuel
  induction fuel with
  | zero => intro pos n h; simp [Valid.biosWalk] at h
  | succ m ih =>
    intro pos n h
    rw [Valid.biosWalk] at h
    split at h
    · rename_i hnone
      refine .done pos n (noHit_of_nextFv b _ pos hnone (by omega)) (by simpa using h)
    · rename_i s hsome
      simp only at h
      split at h
      · cases h
      · rename_i hc
        simp only [Bool.and_eq_true] at h
        exact .vol pos n s (hits_of_nextFv b _ pos s hsome) (by omega) (by omega) ⟨_, h.1⟩ (ih _ _ h.2)

end Fiano.Uefi
