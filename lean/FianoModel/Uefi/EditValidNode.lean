/-
  C02 (follow-up wp-c02b): what `Assemble` does at one section node and at one file node, read off
  the model (`asmSection_shape`, `asmFile_shape`), and the validity of the result given the validity
  of the assembled children (`asmSection_core`, `asmFile_core`).  The recursion itself is in
  `EditValidTree2.lean`.
-/
import FianoModel.Uefi.EditValidTree

namespace Fiano.Uefi
open Fiano
open EditArith

/-- the section case of `Assemble.Visit` once the children are assembled -/
theorem asmSection_shape (h : Hooks) (i : SecInfo) (buf : Bytes) (encap encap' : List Node) (st st1 : St)
    (s' : Section) (st' : St)
    (hn : asmNodes h encap st = .ok (encap', st1))
    (ha : asmSection h (.mk i buf encap) st = .ok (s', st')) :
    (encap' = [] ∧
      ((regenLeaf i = .ok none ∧ s' = .mk i buf []) ∨
       (∃ body i' buf', regenLeaf i = .ok (some body) ∧ genSecHeader i body = .ok (i', buf') ∧ s' = .mk i' buf' []))) ∨
    (encap' ≠ [] ∧ ∃ body i' buf', genSecHeader i body = .ok (i', buf') ∧ s' = .mk i' buf' encap' ∧
      (i.type ≠ 0x02 → body = joinPad4 (encap'.map Node.buf) [])) := by
  rw [asmSection, hn] at ha
  simp only at ha
  split at ha
  · -- no children
    left
    refine ⟨rfl, ?_⟩
    split at ha
    · cases ha
    · rename_i hr
      cases ha
      exact Or.inl ⟨hr, rfl⟩
    · rename_i body hr
      split at ha
      · cases ha
      · rename_i i' buf' hg
        cases ha
        exact Or.inr ⟨body, i', buf', hr, hg, rfl⟩
  · -- children
    rename_i n ns
    right
    refine ⟨by simp, ?_⟩
    split at ha
    · cases ha
    · rename_i body hbody
      split at ha
      · cases ha
      · rename_i i' buf' hg
        cases ha
        refine ⟨body, i', buf', hg, rfl, fun h2 => ?_⟩
        rw [if_neg h2] at hbody
        cases hbody
        rfl

/-- every assembled child sits inside the regenerated section (unless the section is GUID-defined) -/
theorem asmSection_child_len (h : Hooks) (i : SecInfo) (buf : Bytes) (encap encap' : List Node) (st st1 : St)
    (s' : Section) (st' : St)
    (hn : asmNodes h encap st = .ok (encap', st1))
    (ha : asmSection h (.mk i buf encap) st = .ok (s', st')) (h2 : i.type ≠ 0x02) :
    ∀ n ∈ encap', n.buf.length ≤ s'.buf.length := by
  intro n hmem
  rcases asmSection_shape h i buf encap encap' st st1 s' st' hn ha with ⟨hnil, _⟩ | ⟨hne, body, i', buf', hg, hs', hbody⟩
  · rw [hnil] at hmem; cases hmem
  · have hsh := genSecHeader_shape i i' body buf' hg
    rw [hs', hbody h2] at *
    have := (joinPad4_length_ge (encap'.map Node.buf) [] n.buf (List.mem_map.mpr ⟨n, hmem, rfl⟩)).1
    simp only [Section.buf]
    omega

theorem NodeFvOk_nil : ¬ NodeFvOk [] := by
  intro h
  rw [NodeFvOk] at h
  · exact h
  · intro v hv; cases hv

theorem regenKind_ne (t : Nat) (h : regenKind t = true) : t ≠ 0x02 ∧ t ≠ 0x17 := by
  unfold regenKind isDepexType at h
  simp only [Bool.or_eq_true, beq_iff_eq] at h
  omega

/-- **`asmSection_valid`, one node** (layer (a)): the section `Assemble` returns satisfies the invariant
    again and holds a section the reader accepts — given, for a volume-image section, that its
    assembled child is a valid volume -/
theorem asmSection_core (h : Hooks) (i : SecInfo) (buf : Bytes) (encap encap' : List Node) (st st1 : St)
    (s' : Section) (st' : St)
    (hok : SecOk (.mk i buf encap))
    (hn : asmNodes h encap st = .ok (encap', st1))
    (ha : asmSection h (.mk i buf encap) st = .ok (s', st'))
    (hlen : s'.buf.length < 2 ^ 31)
    (hchild : i.type = 0x17 → NodeFvOk encap' ∧ ∃ v', encap' = [.fv v'] ∧ FvBytesOk v'.buf) :
    SecOk s' ∧ SecBytesOk s'.buf := by
  rw [SecOk] at hok
  obtain ⟨ht, hcase⟩ := hok
  have hniff := asmNodes_nil_iff h encap st encap' st1 hn
  rcases asmSection_shape h i buf encap encap' st st1 s' st' hn ha with ⟨hnil, hleaf⟩ | ⟨hne, body, i', buf', hg, hs', hbody⟩
  · have henc : encap = [] := hniff.mp hnil
    rcases hleaf with ⟨hr, hs'⟩ | ⟨body, i', buf', hr, hg, hs'⟩
    · -- the leaf is kept
      have hk := regenLeaf_none_kind i hr
      rw [hs']
      by_cases h2 : i.type = 0x02
      · rw [if_pos h2] at hcase
        have hb := hcase.2 henc
        refine ⟨?_, hb⟩
        rw [SecOk]
        exact ⟨ht, by rw [if_pos h2]; exact ⟨hcase.1, fun _ => hb⟩⟩
      · rw [if_neg h2] at hcase
        by_cases h17 : i.type = 0x17
        · rw [if_pos h17, henc] at hcase
          exact absurd hcase.2 NodeFvOk_nil
        · rw [if_neg h17] at hcase
          have hb : SecBytesOk buf := by
            rcases hcase.2.2 with c | c
            · rw [hk] at c; cases c
            · exact c
          refine ⟨?_, hb⟩
          rw [SecOk]
          exact ⟨ht, by rw [if_neg h2, if_neg h17]; exact ⟨hcase.1, rfl, Or.inr hb⟩⟩
    · -- the leaf is regenerated
      obtain ⟨hk, h2, h17⟩ := regenLeaf_some i body hr
      rw [if_neg h2] at hcase
      have hsh := genSecHeader_shape i i' body buf' hg
      rw [hs'] at hlen ⊢
      simp only [Section.buf] at hlen ⊢
      have hb := genSecHeader_ok i i' body buf' hg ht (fun _ => hcase.1)
        (fun g hgs => by rw [hcase.1] at hgs; cases hgs) (by omega) (fun c => absurd c h17)
      refine ⟨?_, hb⟩
      rw [SecOk, hsh.1]
      exact ⟨ht, by rw [if_neg h2, if_neg h17, hsh.2.2.1 h2]; exact ⟨hcase.1, rfl, Or.inl hk⟩⟩
  · -- children: the body is rebuilt around them
    have hencne : encap ≠ [] := fun c => hne (hniff.mpr c)
    have hsh := genSecHeader_shape i i' body buf' hg
    rw [hs'] at hlen ⊢
    simp only [Section.buf] at hlen ⊢
    by_cases h2 : i.type = 0x02
    · rw [if_pos h2] at hcase
      obtain ⟨g0, hg0, hg0l⟩ := hcase.1
      have hb := genSecHeader_ok i i' body buf' hg ht (fun c => absurd h2 c)
        (fun g hgs => by rw [hg0] at hgs; cases hgs; exact hg0l) (by omega) (fun c => by omega)
      refine ⟨?_, hb⟩
      obtain ⟨g, g', hgi, hgi', hgg⟩ := hsh.2.2.2.1 h2
      rw [SecOk, hsh.1]
      refine ⟨ht, ?_⟩
      rw [if_pos h2]
      refine ⟨⟨g', hgi', ?_⟩, fun _ => hb⟩
      rw [hg0] at hgi; cases hgi
      rw [hgg]; exact hg0l
    · rw [if_neg h2] at hcase
      by_cases h17 : i.type = 0x17
      · obtain ⟨hnode, v', hv', hvok⟩ := hchild h17
        have hbv : body = v'.buf := by
          rw [hbody h2, hv']
          simp only [List.map, Node.buf]
          exact joinPad4_single v'.buf
        have hb := genSecHeader_ok i i' body buf' hg ht (fun _ => hcase.1)
          (fun g hgs => by rw [hcase.1] at hgs; cases hgs) (by omega) (fun _ => by rw [hbv]; exact hvok)
        refine ⟨?_, hb⟩
        rw [SecOk, hsh.1]
        exact ⟨ht, by rw [if_neg h2, if_pos h17, hsh.2.2.1 h2]; exact ⟨hcase.1, hnode⟩⟩
      · rw [if_neg h17] at hcase
        exact absurd hcase.2.1 hencne

/-- the header fields `SetSize(24 + n, true)` gives a rebuilt file -/
def resized (i : FileInfo) (n : Nat) : FileInfo :=
  { i with attrs := (setSize i.attrs (24 + n) true).1, size3 := (setSize i.attrs (24 + n) true).2.1,
           extSize := (setSize i.attrs (24 + n) true).2.2 }

/-- the file case of `Assemble.Visit`, read off the model -/
theorem asmFile_shape (h : Hooks) (i : FileInfo) (buf : Bytes) (secs : List Section) (st : St) (f' : File) (st' : St)
    (ha : asmFile h (.mk i buf secs) st = .ok (f', st')) :
    (∃ nv nv', i.nvar = some nv ∧ h.nvarAsm nv st.pol = .ok nv' ∧
        f' = .mk (checksumAndAssemble { resized i nv'.length with nvar := some nv' } nv'.buf).1
                 (checksumAndAssemble { resized i nv'.length with nvar := some nv' } nv'.buf).2 secs) ∨
    (i.nvar = none ∧ ∃ secs' st1, asmSections h secs st = .ok (secs', st1) ∧
        ((secs' = [] ∧ f' = .mk i buf []) ∨
         (secs' ≠ [] ∧
            f' = .mk (checksumAndAssemble (resized i (joinPad4 (secs'.map Section.buf) []).length)
                        (joinPad4 (secs'.map Section.buf) [])).1
                     (checksumAndAssemble (resized i (joinPad4 (secs'.map Section.buf) []).length)
                        (joinPad4 (secs'.map Section.buf) [])).2 secs'))) := by
  rw [asmFile] at ha
  split at ha
  · rename_i nv hnv
    left
    split at ha
    · cases ha
    · rename_i nv' hasm
      simp only at ha
      cases ha
      exact ⟨nv, nv', hnv, hasm, rfl⟩
  · rename_i hnv
    right
    refine ⟨hnv, ?_⟩
    split at ha
    · cases ha
    · rename_i secs' st1 hss
      refine ⟨secs', st1, hss, ?_⟩
      split at ha
      · cases ha
        exact Or.inl ⟨rfl, rfl⟩
      · rename_i s0 ss0
        right
        refine ⟨by simp, ?_⟩
        simp only at ha
        cases ha
        rfl

theorem resized_sizeFields (i : FileInfo) (n : Nat) (hg : i.guid.length = 16) (ht : i.type < 256)
    (ha : i.attrs < 256) (hst : i.state < 256) (hb : n < 2 ^ 63) : SizeFields (resized i n) n :=
  setSize_sizeFields i n hg ht ha hst hb

theorem resized_fields (i : FileInfo) (n : Nat) :
    (resized i n).guid = i.guid ∧ (resized i n).type = i.type ∧ (resized i n).state = i.state ∧
    (resized i n).nvar = i.nvar := ⟨rfl, rfl, rfl, rfl⟩

/-- every assembled section sits inside the rebuilt file -/
theorem asmFile_child_len (h : Hooks) (i : FileInfo) (buf : Bytes) (secs : List Section) (st : St) (f' : File) (st' : St)
    (ha : asmFile h (.mk i buf secs) st = .ok (f', st')) (hg : i.guid.length = 16) (hnv0 : i.nvar = none)
    (secs' : List Section) (st1 : St) (hss : asmSections h secs st = .ok (secs', st1)) :
    ∀ s ∈ secs', s.buf.length ≤ f'.buf.length := by
  intro s hs
  rcases asmFile_shape h i buf secs st f' st' ha with ⟨nv, nv', hnv, _, _⟩ | ⟨hnv, secs2, st2, hss2, hcase⟩
  · rw [hnv0] at hnv; cases hnv
  · rw [hss] at hss2
    cases hss2
    rcases hcase with ⟨hnil, _⟩ | ⟨hne, hf'⟩
    · rw [hnil] at hs; cases hs
    · rw [hf']
      simp only [File.buf]
      have h1 := (joinPad4_length_ge (secs'.map Section.buf) [] s.buf (List.mem_map.mpr ⟨s, hs, rfl⟩)).1
      have h2 := casm_length_ge (resized i (joinPad4 (secs'.map Section.buf) []).length)
        (joinPad4 (secs'.map Section.buf) []) (by rw [(resized_fields i _).1]; exact hg)
      omega

/-- the extended size `SetSize` leaves is a 64-bit number -/
theorem resized_ext_lt (i : FileInfo) (n : Nat) (hn : n < 2 ^ 63) : (resized i n).extSize < 2 ^ 64 := by
  unfold resized setSize
  simp only
  split <;> simp only [if_true] <;> omega

/-- **`asmFile_valid`, one node** (layer (b)): the file `Assemble` returns satisfies the invariant again
    and is one the reader accepts wherever its alignment holds — given that its assembled sections are
    acceptable.  Covers NVAR files (rebuilt around the store), files without sections (kept), opaque
    and pad files (kept), and files rebuilt from their sections. -/
theorem asmFile_core (h : Hooks) (hlaw : h.NvLaw) (e : UInt8) (he : e = 0xFF ∨ e = 0)
    (i : FileInfo) (buf : Bytes) (secs : List Section) (st : St) (f' : File) (st' : St)
    (hok : FileOk e (.mk i buf secs)) (ha : asmFile h (.mk i buf secs) st = .ok (f', st'))
    (hlen : f'.buf.length < 2 ^ 31)
    (hsecs : ∀ secs' st1, asmSections h secs st = .ok (secs', st1) → (∀ s ∈ secs', s.buf.length < 2 ^ 31) →
      SecsOk secs' ∧ ∀ s ∈ secs', SecBytesOk s.buf) :
    FileOk e f' ∧ GoodFile e (f'.info.attrs, f'.buf) := by
  rw [FileOk] at hok
  obtain ⟨hg, ht, hat, hst, hext, hnvar, hlive, hkept, hsok⟩ := hok
  rcases asmFile_shape h i buf secs st f' st' ha with ⟨nv, nv', hnv, hasm, hf'⟩ | ⟨hnv, secs', st1, hss, hcase⟩
  · -- NVAR file
    obtain ⟨hns, hnl⟩ := hnvar nv hnv
    have hnl' := hlaw.2 nv st.pol nv' hnl hasm
    have hty := hlive (Or.inl (by rw [hnv]; rfl))
    rw [hf'] at hlen ⊢
    simp only [File.buf, File.info] at hlen ⊢
    generalize hI : ({ resized i nv'.length with nvar := some nv' } : FileInfo) = I at *
    have hIf : I.guid = i.guid ∧ I.type = i.type ∧ I.state = i.state ∧ I.attrs = (resized i nv'.length).attrs ∧
        I.size3 = (resized i nv'.length).size3 ∧ I.extSize = (resized i nv'.length).extSize ∧ I.nvar = some nv' := by
      rw [← hI]; exact ⟨rfl, rfl, rfl, rfl, rfl, rfl, rfl⟩
    have hIe : (checksumAndAssemble I nv'.buf).1.extSize = I.extSize := by unfold checksumAndAssemble; rfl
    have hlen24 := casm_length_ge I nv'.buf (by rw [hIf.1]; exact hg)
    have hs0 := resized_sizeFields i nv'.length hg ht hat hst (by omega)
    rw [hnl'] at hs0
    have hs : SizeFields I nv'.buf.length :=
      sizeFields_congr (resized i nv'.buf.length) I _ hs0 hIf.1 hIf.2.1 (by rw [hIf.2.2.2.1, hnl'])
        hIf.2.2.1 (by rw [hIf.2.2.2.2.1, hnl']) (by rw [hIf.2.2.2.2.2.1, hnl'])
    have hgood := rebuilt_goodFile I nv'.buf e hs he (by rw [hIf.2.1]; exact hty)
      (fun c => by rw [hIf.2.1, hns] at c; cases c)
    have hci := casm_info I nv'.buf
    refine ⟨?_, by rw [hci.2.2.1]; exact hgood⟩
    rw [FileOk, hci.1, hci.2.1, hci.2.2.1, hci.2.2.2.1, hci.2.2.2.2, hIe, hIf.1, hIf.2.1, hIf.2.2.1, hIf.2.2.2.2.2.2]
    refine ⟨hg, ht, hs.attrs, hst, by rw [hIf.2.2.2.2.2.1]; exact resized_ext_lt i _ (by omega), ?_, fun _ => hty, (fun c => by cases c), hsok⟩
    intro nv2 hnv2
    cases hnv2
    exact ⟨hns, hnl'⟩
  · rcases hcase with ⟨hnil, hf'⟩ | ⟨hne, hf'⟩
    · -- no sections: the file is kept
      have hsnil : secs = [] := (asmSections_nil_iff h secs st secs' st1 hss).mp hnil
      rw [hf']
      simp only [File.buf, File.info]
      have hgood := hkept hnv hsnil
      refine ⟨?_, hgood⟩
      rw [FileOk]
      exact ⟨hg, ht, hat, hst, hext, hnvar, fun c => by
        rcases c with c | c
        · rw [hnv] at c; cases c
        · exact absurd rfl c, fun _ _ => hgood, by rw [SecsOk]; trivial⟩
    · -- rebuilt from its sections
      have hsne : secs ≠ [] := fun c => hne ((asmSections_nil_iff h secs st secs' st1 hss).mpr c)
      have hty := hlive (Or.inr hsne)
      have hchild := asmFile_child_len h i buf secs st f' st' ha hg hnv secs' st1 hss
      obtain ⟨hsok', hsb⟩ := hsecs secs' st1 hss (fun s hs => by have := hchild s hs; omega)
      rw [hf'] at hlen ⊢
      simp only [File.buf, File.info] at hlen ⊢
      generalize hD : joinPad4 (secs'.map Section.buf) [] = data at *
      have hrf := resized_fields i data.length
      have hlen24 := casm_length_ge (resized i data.length) data (by rw [hrf.1]; exact hg)
      have hs := resized_sizeFields i data.length hg ht hat hst (by omega)
      have hsec : ∃ fuel, Valid.sectionsOk fuel data 0 = true := by
        rw [← hD]
        apply sectionsOk_joined
        · intro b hb
          rw [List.mem_map] at hb
          obtain ⟨s, hs, rfl⟩ := hb
          exact hsb s hs
        · have := joinEnd_le (secs'.map Section.buf) [] (by rw [hD]; omega)
          simp only [List.length_nil] at this
          rw [this, hD]; omega
      have hgood := rebuilt_goodFile (resized i data.length) data e hs he (by rw [hrf.2.1]; exact hty) (fun _ => hsec)
      have hci := casm_info (resized i data.length) data
      refine ⟨?_, by rw [hci.2.2.1]; exact hgood⟩
      have hIe : (checksumAndAssemble (resized i data.length) data).1.extSize = (resized i data.length).extSize := by
        unfold checksumAndAssemble; rfl
      rw [FileOk, hci.1, hci.2.1, hci.2.2.1, hci.2.2.2.1, hci.2.2.2.2, hIe, hrf.1, hrf.2.1, hrf.2.2.1, hrf.2.2.2]
      exact ⟨hg, ht, hs.attrs, hst, resized_ext_lt i _ (by omega), hnvar, fun _ => hty, fun _ c => absurd c hne, hsok'⟩

end Fiano.Uefi
