/-
  Property C04 — the rule of `NewFirmwareVolume` *before* fixes/C04-file-clipped-to-volume.diff
  (DESIGN.md §8 row 18), and a concrete witness that it does not satisfy `Faithful`.

  The unrepaired code handed `data[offset:]` — not clipped to `fv.Length` — to `NewFile`, so a file
  could end beyond the volume that contains it.  `parseFvUnfixed` is `parseFv` with exactly that
  one difference (`parseFiles` runs over `data` instead of `data.take length`); everything else is
  the shared model.

  Witness: a 128-byte input whose volume header says `Length = 104` and whose only file starts at
  offset 72 with size 56 — it ends at 128, 24 bytes past the end of its volume.  The unrepaired
  rule accepts it (volume buffer of 104 bytes holding a file that ends at 128); in a BIOS region the
  bytes [104,128) would then be accounted a second time by the padding node that follows the volume.
  The repaired rule refuses the input.
-/
import FianoModel.Uefi.FaithfulCor
import FianoModel.Uefi.ParseEval

namespace Fiano.Uefi.Unfixed
open FaithfulAux
open Fiano Fiano.Uefi

/-- `NewFirmwareVolume` as it was before the fix, over a given file walk `walk` (= `parseFiles h fuel`) -/
def parseFvUnfixedWith (walk : Bytes → Nat → Nat → Nat → St → Except Err (List File × Nat × St))
    (data : Bytes) (fvOffset : Nat) (resizable : Bool) (st : St) : Except Err (Fv × St) :=
  if data.length < 64 then .error .err else
  match readBlocks (data.drop 56) with
  | .error e => .error e
  | .ok blocks =>
  let i := fvInfoOf data blocks fvOffset resizable
  if 56 + 8 * (blocks.length + 1) > i.length then .error .err else
  match setPolarity (polOfAttrs i.attrs) st with
  | .error e => .error e
  | .ok st =>
  if i.length > data.length then .error .err else
  let fbuf := data.take i.length
  if i.fsGuid ≠ guidFFS2 ∧ i.fsGuid ≠ guidFFS3 then .ok (.mk i fbuf [], st) else
  let lh := (i.length + 18446744073709551616 - 24) % 18446744073709551616
  -- the defect: the file walk sees `data`, not `fbuf`
  match walk data i.dataOffset lh i.length st with
  | .error e => .error e
  | .ok (fs, free, st') => .ok (.mk { i with freeSpace := free } fbuf fs, st')

/-- the unrepaired rule is the repaired one except for the clip: running `parseFvUnfixedWith` over a
    file walk that *does* clip gives exactly the shared model's `parseFv` -/
theorem differs_only_in_the_clip (h : Hooks) (fuel : Nat) (data : Bytes) (fvo : Nat) (rsz : Bool) (st : St) :
    parseFvUnfixedWith (fun d => parseFiles h fuel (d.take (rd data 32 8))) data fvo rsz st =
      parseFv h (fuel + 1) data fvo rsz st := by
  rw [parseFv]
  unfold parseFvUnfixedWith
  rfl

/-- the unrepaired `NewFirmwareVolume` (one budget step, like `parseFv (fuel+1)`) -/
def parseFvUnfixed (h : Hooks) (fuel : Nat) : Bytes → Nat → Bool → St → Except Err (Fv × St) :=
  parseFvUnfixedWith (parseFiles h fuel)

/-- DESIGN.md §8 row 18, scaled down: Length = 104, one RAW file [72,128) -/
def witness : Bytes := [0x00, 0x00, 0x00, 0x00, 0x00, 0x00, 0x00, 0x00, 0x00, 0x00, 0x00, 0x00, 0x00, 0x00, 0x00, 0x00, 0x78, 0xe5, 0x8c, 0x8c, 0x3d, 0x8a, 0x1c, 0x4f, 0x99, 0x35, 0x89, 0x61, 0x85, 0xc3, 0x2d, 0xd3, 0x68, 0x00, 0x00, 0x00, 0x00, 0x00, 0x00, 0x00, 0x5f, 0x46, 0x56, 0x48, 0xff, 0xfe, 0x04, 0x00, 0x48, 0x00, 0x52, 0xf6, 0x00, 0x00, 0x00, 0x02, 0x0d, 0x00, 0x00, 0x00, 0x08, 0x00, 0x00, 0x00, 0x00, 0x00, 0x00, 0x00, 0x00, 0x00, 0x00, 0x00, 0x01, 0x02, 0x03, 0x04, 0x05, 0x06, 0x07, 0x08, 0x09, 0x0a, 0x0b, 0x0c, 0x0d, 0x0e, 0x0f, 0x10, 0x3f, 0xaa, 0x01, 0x00, 0x38, 0x00, 0x00, 0xf8, 0x00, 0x01, 0x02, 0x03, 0x04, 0x05, 0x06, 0x07, 0x08, 0x09, 0x0a, 0x0b, 0x0c, 0x0d, 0x0e, 0x0f, 0x10, 0x11, 0x12, 0x13, 0x14, 0x15, 0x16, 0x17, 0x18, 0x19, 0x1a, 0x1b, 0x1c, 0x1d, 0x1e, 0x1f]

/-- the unrepaired rule accepts the witness … -/
def unfixedResult : Except Err (Fv × St) := parseFvUnfixed Hooks.none 64 witness 0 false {}

/-- the same computation through the evaluable twin of the file walk (ParseEval.lean) -/
def unfixedResultE : Except Err (Fv × St) := parseFvUnfixedWith (parseFilesE Hooks.none 64) witness 0 false {}

theorem unfixedResult_eval : unfixedResult = unfixedResultE := by
  unfold unfixedResult unfixedResultE parseFvUnfixed
  congr 1
  funext data off lh len st
  exact parseFiles_eval _ _ _ _ _ _ _

set_option maxRecDepth 8192 in
/-- … with one file, spanning [72,128), in a volume buffer of 104 bytes -/
theorem unfixed_accepts :
    (match unfixedResult with
     | .ok (v, _) => (v.buf.length, v.files.map (·.buf.length), fileSpans v.files v.info.dataOffset)
     | .error _ => (0, [], [])) = (104, [56], [(72, 128)]) := by
  rw [unfixedResult_eval]; decide

set_option maxRecDepth 8192 in
theorem unfixed_outside :
    (match unfixedResult with
     | .ok (v, _) => fvFilesInside v
     | .error _ => true) = false := by
  rw [unfixedResult_eval]; decide

/-- **refutation of C04 for the unrepaired rule**: it returns a volume that is not faithful to its input -/
theorem unfixed_not_faithful :
    ∃ v st', unfixedResult = .ok (v, st') ∧ ¬ FvF Hooks.none v witness := by
  have h := unfixed_outside
  match hr : unfixedResult with
  | .ok (v, st') =>
    rw [hr] at h
    refine ⟨v, st', rfl, fun hv => ?_⟩
    have h2 : fvFilesInside v = false := h
    rw [hv.files_inside] at h2
    cases h2
  | .error _ => rw [hr] at h; cases h

set_option maxRecDepth 8192 in
/-- the repaired rule (the shared model) refuses the witness -/
theorem fixed_refuses :
    (match parseFv Hooks.none 65 witness 0 false {} with
     | .ok _ => false
     | .error e => decide (e = Err.err)) = true := by
  rw [parseFv_eval]; decide

end Fiano.Uefi.Unfixed
