/-
  C02, file layer: a file written by `File.ChecksumAndAssemble` (so every pad file of
  `CreatePadFile` and every rebuilt file) satisfies the file rules X1–X4 of the independent reader.
-/
import FianoModel.Uefi.EditArith

namespace Fiano.Uefi
open EditArith
open Fiano

/-! ### reading fields back from a written header -/

theorem fld_append_right (a b : Bytes) (k n : Nat) :
    Valid.fld (a ++ b) (a.length + k) n = Valid.fld b k n := by
  unfold Valid.fld
  rw [List.drop_append]
  have h1 : List.drop (a.length + k) a = [] := List.drop_eq_nil_of_le (by omega)
  simp [h1]

theorem fld_append_right' (a b : Bytes) (m k n : Nat) (h : a.length = m) :
    Valid.fld (a ++ b) (m + k) n = Valid.fld b k n := by
  subst h; exact fld_append_right a b k n

namespace EditArith
theorem byte_toNat (n : Nat) (h : n < 256) : (byte n).toNat = n := by
  unfold byte; simp [UInt8.toNat_ofNat']; omega
end EditArith

theorem leN3 (n : Nat) : leN 3 n = [byte (n % 256), byte (n / 256 % 256), byte (n / 256 / 256 % 256)] := by
  simp [leN, byte]

theorem fromLE3 (a b c : UInt8) : fromLE [a, b, c] = a.toNat + 256 * (b.toNat + 256 * c.toNat) := by
  simp [fromLE]

/-- the 24 fixed header bytes, spelled out -/
def hdr24 (g : Bytes) (ckh ckf ty at_ s0 s1 s2 st : UInt8) : Bytes :=
  g ++ [ckh, ckf, ty, at_, s0, s1, s2, st]

namespace EditArith
theorem encodeFileHeader_eq (i : FileInfo) (ckh ckf : UInt8) (large : Bool) :
    encodeFileHeader i ckh ckf large =
      hdr24 i.guid ckh ckf (byte i.type) (byte i.attrs) (byte (i.size3 % 256)) (byte (i.size3 / 256 % 256))
        (byte (i.size3 / 256 / 256 % 256)) (byte i.state) ++ (if large then leN 8 i.extSize else []) := by
  unfold encodeFileHeader hdr24
  rw [leN3]
  simp
end EditArith

theorem hdr24_length (g : Bytes) (hg : g.length = 16) (a b c d e f g' h : UInt8) :
    (hdr24 g a b c d e f g' h).length = 24 := by simp [hdr24, hg]

section fields
variable (g : Bytes) (hg : g.length = 16) (ckh ckf ty at_ s0 s1 s2 st : UInt8) (rest : Bytes)
include hg

theorem fld_ckf : Valid.fld (hdr24 g ckh ckf ty at_ s0 s1 s2 st ++ rest) 17 1 = ckf.toNat := by
  unfold hdr24
  rw [List.append_assoc, show (17 : Nat) = 16 + 1 from rfl, fld_append_right' _ _ 16 1 1 hg]
  simp [Valid.fld, fromLE]
theorem fld_type : Valid.fld (hdr24 g ckh ckf ty at_ s0 s1 s2 st ++ rest) 18 1 = ty.toNat := by
  unfold hdr24
  rw [List.append_assoc, show (18 : Nat) = 16 + 2 from rfl, fld_append_right' _ _ 16 2 1 hg]
  simp [Valid.fld, fromLE]
theorem fld_attrs : Valid.fld (hdr24 g ckh ckf ty at_ s0 s1 s2 st ++ rest) 19 1 = at_.toNat := by
  unfold hdr24
  rw [List.append_assoc, show (19 : Nat) = 16 + 3 from rfl, fld_append_right' _ _ 16 3 1 hg]
  simp [Valid.fld, fromLE]
theorem fld_size3 : Valid.fld (hdr24 g ckh ckf ty at_ s0 s1 s2 st ++ rest) 20 3 =
    s0.toNat + 256 * (s1.toNat + 256 * s2.toNat) := by
  unfold hdr24
  rw [List.append_assoc, show (20 : Nat) = 16 + 4 from rfl, fld_append_right' _ _ 16 4 3 hg]
  simp [Valid.fld, fromLE]
theorem fld_state : Valid.fld (hdr24 g ckh ckf ty at_ s0 s1 s2 st ++ rest) 23 1 = st.toNat := by
  unfold hdr24
  rw [List.append_assoc, show (23 : Nat) = 16 + 7 from rfl, fld_append_right' _ _ 16 7 1 hg]
  simp [Valid.fld, fromLE]
theorem fld_ext : Valid.fld (hdr24 g ckh ckf ty at_ s0 s1 s2 st ++ rest) 24 8 = fromLE (rest.take 8) := by
  have hl := hdr24_length g hg ckh ckf ty at_ s0 s1 s2 st
  rw [show (24 : Nat) = 24 + 0 from rfl, fld_append_right' _ _ 24 0 8 hl]
  simp [Valid.fld]

end fields

theorem size3_bytes (n : Nat) (h : n < 16777216) :
    (byte (n % 256)).toNat + 256 * ((byte (n / 256 % 256)).toNat + 256 * (byte (n / 256 / 256 % 256)).toNat) = n := by
  rw [byte_toNat _ (by omega), byte_toNat _ (by omega), byte_toNat _ (by omega)]
  omega

/-- the header checksum that `ChecksumAndAssemble` computes makes the header bytes, minus the body
    checksum and the state, sum to zero — for any previous checksum and any state -/
theorem hdr_sum (G ckh0 ckf0 ty at_ S st E ckf : UInt8) :
    G + (ckh0 - (G + ckh0 + ckf0 + ty + at_ + S + st + E - ckf0 - st)) + ckf + ty + at_ + S + st + E = ckf + st := by
  grind

end Fiano.Uefi

namespace Fiano.Uefi
open EditArith
open Fiano

theorem sum8_hdr24 (g : Bytes) (ckh ckf ty at_ s0 s1 s2 st : UInt8) (e : Bytes) :
    sum8 (hdr24 g ckh ckf ty at_ s0 s1 s2 st ++ e) =
      sum8 g + ckh + ckf + ty + at_ + (s0 + s1 + s2) + st + sum8 e := by
  unfold hdr24
  rw [sum8_append, sum8_append]
  simp only [sum8_cons]
  have : sum8 ([] : Bytes) = 0 := rfl
  rw [this]
  grind

theorem and_one_ne_zero (a : Nat) : (a &&& 1 ≠ 0) ↔ a % 2 = 1 := by
  rw [Nat.and_one_is_mod]; omega

set_option maxRecDepth 16384 in
theorem and_64 : ∀ a, a < 256 → ((a &&& 0x40 ≠ 0) ↔ a / 64 % 2 = 1) := by decide

/-- what `ChecksumAndAssemble` writes, with the header spelled out -/
theorem casm_buf (i : FileInfo) (data : Bytes) :
    (checksumAndAssemble i data).2 =
      hdr24 i.guid (checksumAndAssemble i data).1.ckHeader.toUInt8 (checksumAndAssemble i data).1.ckFile.toUInt8
        (byte i.type) (byte i.attrs) (byte (i.size3 % 256)) (byte (i.size3 / 256 % 256))
        (byte (i.size3 / 256 / 256 % 256)) (byte i.state)
      ++ ((if i.attrs &&& 1 ≠ 0 then leN 8 i.extSize else []) ++ data) := by
  unfold checksumAndAssemble
  simp only [encodeFileHeader_eq]
  simp [List.append_assoc]

end Fiano.Uefi

namespace Fiano.Uefi
open EditArith
open Fiano

/-- the extended-size bytes of a written header -/
def extBytes (i : FileInfo) : Bytes := if i.attrs &&& 1 ≠ 0 then leN 8 i.extSize else []

def casmCkf (i : FileInfo) (data : Bytes) : UInt8 := if i.attrs &&& 0x40 ≠ 0 then 0 - sum8 data else 0xAA

def sizeSum (i : FileInfo) : UInt8 :=
  byte (i.size3 % 256) + byte (i.size3 / 256 % 256) + byte (i.size3 / 256 / 256 % 256)

/-- the header checksum byte `ChecksumAndAssemble` stores -/
def casmCkh (i : FileInfo) : UInt8 :=
  byte i.ckHeader - (sum8 i.guid + byte i.ckHeader + byte i.ckFile + byte i.type + byte i.attrs + sizeSum i
    + byte i.state + sum8 (extBytes i) - byte i.ckFile - byte i.state)

theorem casm_buf' (i : FileInfo) (data : Bytes) (hg : i.guid.length = 16) :
    (checksumAndAssemble i data).2 =
      hdr24 i.guid (casmCkh i) (casmCkf i data) (byte i.type) (byte i.attrs) (byte (i.size3 % 256))
        (byte (i.size3 / 256 % 256)) (byte (i.size3 / 256 / 256 % 256)) (byte i.state)
      ++ (extBytes i ++ data) := by
  unfold checksumAndAssemble
  simp only [encodeFileHeader_eq, if_true]
  have hl := fun a b => hdr24_length i.guid hg a b (byte i.type) (byte i.attrs) (byte (i.size3 % 256))
    (byte (i.size3 / 256 % 256)) (byte (i.size3 / 256 / 256 % 256)) (byte i.state)
  have htake : ∀ a b, List.take (if i.attrs &&& 1 ≠ 0 then 32 else 24)
      (hdr24 i.guid a b (byte i.type) (byte i.attrs) (byte (i.size3 % 256)) (byte (i.size3 / 256 % 256))
        (byte (i.size3 / 256 / 256 % 256)) (byte i.state) ++ leN 8 i.extSize) =
      hdr24 i.guid a b (byte i.type) (byte i.attrs) (byte (i.size3 % 256)) (byte (i.size3 / 256 % 256))
        (byte (i.size3 / 256 / 256 % 256)) (byte i.state) ++ extBytes i := by
    intro a b
    unfold extBytes
    by_cases hL : i.attrs &&& 1 ≠ 0
    · rw [if_pos hL, if_pos hL]
      rw [List.take_of_length_le (by simp [hl a b])]
    · rw [if_neg hL, if_neg hL]
      rw [List.take_append_of_le_length (by simp [hl a b]), List.take_of_length_le (by simp [hl a b])]
      simp
  simp only [htake, sum8_hdr24]
  unfold casmCkh casmCkf extBytes sizeSum
  simp [List.append_assoc]

theorem casm_length (i : FileInfo) (data : Bytes) (hg : i.guid.length = 16) :
    (checksumAndAssemble i data).2.length = 24 + (extBytes i).length + data.length := by
  rw [casm_buf' i data hg]
  simp [hdr24_length i.guid hg]
  omega

end Fiano.Uefi

namespace Fiano.Uefi
open EditArith
open Fiano

/-- a header that is consistent with the size of the file it describes -/
structure SizeFields (i : FileInfo) (dataLen : Nat) : Prop where
  guid  : i.guid.length = 16
  type  : i.type < 256
  attrs : i.attrs < 256
  state : i.state < 256
  small : i.attrs % 2 = 0 → i.size3 = 24 + dataLen ∧ i.size3 < 0xFFFFFF
  large : i.attrs % 2 = 1 → (i.size3 = 0xFFFFFF ∨ i.size3 = 0) ∧ i.extSize = 32 + dataLen ∧ i.extSize < 2 ^ 64

theorem extBytes_length (i : FileInfo) : (extBytes i).length = if i.attrs % 2 = 1 then 8 else 0 := by
  unfold extBytes
  by_cases h : i.attrs &&& 1 ≠ 0
  · rw [if_pos h, if_pos ((and_one_ne_zero _).mp h)]; simp
  · rw [if_neg h, if_neg (fun c => h ((and_one_ne_zero _).mpr c))]; simp

/-- **a file written by `ChecksumAndAssemble` satisfies the file rules of the independent reader**
    (X1 size fields, X3 header checksum, X4 body checksum), at every offset `o` that respects its
    data alignment (X2), provided its sections — if it is of a sectioned type — do (X5). -/
theorem casm_fileOk (i : FileInfo) (data : Bytes) (fuel o : Nat) (hs : SizeFields i data.length)
    (hal : (o + (if i.attrs % 2 = 1 then 32 else 24)) % Valid.dataAlign i.attrs = 0)
    (hsec : Valid.sectioned i.type = true → Valid.sectionsOk fuel data 0 = true) :
    Valid.fileOk (fuel + 1) (checksumAndAssemble i data).2 o = true := by
  have hg := hs.guid
  have hbuf := casm_buf' i data hg
  have hlen := casm_length i data hg
  have hE := extBytes_length i
  generalize hB : (checksumAndAssemble i data).2 = buf at *
  have hat : Valid.fld buf 19 1 = i.attrs := by
    rw [hbuf, fld_attrs _ hg, byte_toNat _ hs.attrs]
  have hty : Valid.fld buf 18 1 = i.type := by
    rw [hbuf, fld_type _ hg, byte_toNat _ hs.type]
  have hst : Valid.fld buf 23 1 = (byte i.state).toNat := by
    rw [hbuf, fld_state _ hg]
  have hcf : Valid.fld buf 17 1 = (casmCkf i data).toNat := by
    rw [hbuf, fld_ckf _ hg]
  have hs3lt : i.size3 < 16777216 := by
    rcases Nat.mod_two_eq_zero_or_one i.attrs with h | h
    · have := (hs.small h).2; omega
    · rcases (hs.large h).1 with h3 | h3 <;> omega
  have hs3 : Valid.fld buf 20 3 = i.size3 := by
    rw [hbuf, fld_size3 _ hg, size3_bytes _ hs3lt]
  have hext : i.attrs % 2 = 1 → Valid.fld buf 24 8 = i.extSize := by
    intro hL
    rw [hbuf, fld_ext _ hg]
    have : extBytes i = leN 8 i.extSize := by
      unfold extBytes; rw [if_pos ((and_one_ne_zero _).mpr hL)]
    rw [this, List.take_append_of_le_length (by simp), List.take_of_length_le (by simp), fromLE_leN]
    exact Nat.mod_eq_of_lt (by have := (hs.large hL).2.2; simpa using this)
  -- the header bytes and the body
  have hhl : ∀ hl, hl = 24 + (extBytes i).length →
      buf.take hl = hdr24 i.guid (casmCkh i) (casmCkf i data) (byte i.type) (byte i.attrs) (byte (i.size3 % 256))
        (byte (i.size3 / 256 % 256)) (byte (i.size3 / 256 / 256 % 256)) (byte i.state) ++ extBytes i ∧
      buf.drop hl = data := by
    intro hl hhl
    have h24 := hdr24_length i.guid hg (casmCkh i) (casmCkf i data) (byte i.type) (byte i.attrs) (byte (i.size3 % 256))
        (byte (i.size3 / 256 % 256)) (byte (i.size3 / 256 / 256 % 256)) (byte i.state)
    rw [hbuf, ← List.append_assoc]
    constructor
    · rw [List.take_append_of_le_length (by simp [h24, hhl]), List.take_of_length_le (by simp [h24, hhl])]
    · rw [List.drop_append_of_le_length (by simp [h24, hhl]), List.drop_of_length_le (by simp [h24, hhl])]
      simp
  -- header checksum
  have hsum : ∀ hl, hl = 24 + (extBytes i).length →
      (Valid.byteSum (buf.take hl) + 512 - Valid.fld buf 17 1 - Valid.fld buf 23 1) % 256 = 0 := by
    intro hl hhl'
    rw [(hhl hl hhl').1, byteSum_eq_sum8, sum8_hdr24, hcf, hst]
    have key : sum8 i.guid + casmCkh i + casmCkf i data + byte i.type + byte i.attrs + sizeSum i + byte i.state
        + sum8 (extBytes i) = casmCkf i data + byte i.state := by
      unfold casmCkh
      exact hdr_sum _ _ _ _ _ _ _ _ _
    unfold sizeSum at key
    rw [key, UInt8.toNat_add]
    have := (casmCkf i data).toNat_lt
    have := (byte i.state).toNat_lt
    omega
  -- body checksum
  have hbody : if i.attrs / 64 % 2 = 1 then (Valid.byteSum data + Valid.fld buf 17 1) % 256 = 0
      else Valid.fld buf 17 1 = 0xAA := by
    rw [hcf]
    unfold casmCkf
    by_cases h40 : i.attrs &&& 0x40 ≠ 0
    · rw [if_pos ((and_64 _ hs.attrs).mp h40), if_pos h40, byteSum_eq_sum8, UInt8.toNat_sub]
      have := (sum8 data).toNat_lt
      simp
      omega
    · rw [if_neg (fun c => h40 ((and_64 _ hs.attrs).mpr c)), if_neg h40]
      rfl
  unfold Valid.fileOk
  rcases Nat.mod_two_eq_zero_or_one i.attrs with hL | hL
  · -- 24-byte header
    have hE0 : (extBytes i).length = 0 := by rw [hE, if_neg (by omega)]
    have hfs : Valid.fileSize buf = some (i.size3, 24) := by
      unfold Valid.fileSize
      rw [if_neg (by omega)]
      simp only [hat, hs3]
      rw [if_neg (by omega), if_neg (by have := (hs.small hL).2; omega)]
    rw [hfs]
    simp only [hat, hty, hal]
    have hl24 := hhl 24 (by omega)
    have hal' : (o + 24) % Valid.dataAlign i.attrs = 0 := by simpa [hL] using hal
    have hsz := (hs.small hL).1
    have h1 := hsum 24 (by omega)
    rw [hl24.2]
    simp only [h1, hal']
    have hb := hbody
    by_cases hS : Valid.sectioned i.type = true
    · simp only [hS, hsec hS, if_true]
      by_cases h64 : i.attrs / 64 % 2 = 1
      · rw [if_pos h64] at hb ⊢
        simp [hb]; omega
      · rw [if_neg h64] at hb ⊢
        simp [hb]; omega
    · have hS' : Valid.sectioned i.type = false := by simpa using hS
      simp only [hS']
      by_cases h64 : i.attrs / 64 % 2 = 1
      · rw [if_pos h64] at hb ⊢
        simp [hb]; omega
      · rw [if_neg h64] at hb ⊢
        simp [hb]; omega
  · -- 32-byte header
    have hE8 : (extBytes i).length = 8 := by rw [hE, if_pos hL]
    have hfs : Valid.fileSize buf = some (i.extSize, 32) := by
      unfold Valid.fileSize
      rw [if_neg (by omega)]
      simp only [hat, hs3, hext hL]
      rw [if_pos hL, if_neg (by omega), if_neg (by have := (hs.large hL).1; omega)]
    rw [hfs]
    simp only [hat, hty]
    have hl32 := hhl 32 (by omega)
    have hal' : (o + 32) % Valid.dataAlign i.attrs = 0 := by simpa [hL] using hal
    have hsz := (hs.large hL).2.1
    have h1 := hsum 32 (by omega)
    rw [hl32.2]
    simp only [h1, hal']
    have hb := hbody
    by_cases hS : Valid.sectioned i.type = true
    · simp only [hS, hsec hS, if_true]
      by_cases h64 : i.attrs / 64 % 2 = 1
      · rw [if_pos h64] at hb ⊢
        simp [hb]; omega
      · rw [if_neg h64] at hb ⊢
        simp [hb]; omega
    · have hS' : Valid.sectioned i.type = false := by simpa using hS
      simp only [hS']
      by_cases h64 : i.attrs / 64 % 2 = 1
      · rw [if_pos h64] at hb ⊢
        simp [hb]; omega
      · rw [if_neg h64] at hb ⊢
        simp [hb]; omega

end Fiano.Uefi

namespace Fiano.Uefi
open EditArith
open Fiano

/-- the header fields `CreatePadFile` sets up -/
def padInfo (pol : UInt8) (size : Nat) (doff : Nat) : FileInfo :=
  { guid := if pol = 0xFF then guidFF else guidZero, ckHeader := 0, ckFile := 0, type := 0xF0,
    attrs := (setSize 0 size false).1, size3 := (setSize 0 size false).2.1,
    state := (0x07 ^^^ pol).toNat, extSize := (setSize 0 size false).2.2, dataOffset := doff }

def padDataLen (size : Nat) : Nat := if size ≥ 0xFFFFFF then size - 32 else size - 24

theorem mkPadFile_eq (pol : UInt8) (size : Nat) (h24 : 24 ≤ size) (hp : pol = 0xFF ∨ pol = 0) :
    mkPadFile pol size =
      .ok (.mk (checksumAndAssemble (padInfo pol size 0) (List.replicate (padDataLen size) pol)).1
               (checksumAndAssemble (padInfo pol size 0) (List.replicate (padDataLen size) pol)).2 []) := by
  unfold mkPadFile
  rw [if_neg (by omega), if_neg (by rcases hp with h | h <;> simp [h])]
  unfold padInfo padDataLen setSize
  by_cases hb : size ≥ 0xFFFFFF
  · simp [hb]
  · simp [hb]

theorem createPadFile_eq (pol : UInt8) (size : Nat) (h24 : 24 ≤ size) (hp : pol = 0xFF ∨ pol = 0) :
    createPadFile pol size =
      .ok (checksumAndAssemble (padInfo pol size 24) (List.replicate (padDataLen size) pol)).2 := by
  unfold createPadFile
  rw [if_neg (by omega), if_neg (by rcases hp with h | h <;> simp [h])]
  unfold padInfo padDataLen setSize
  by_cases hb : size ≥ 0xFFFFFF
  · simp [hb]
  · simp [hb]

theorem padInfo_sizeFields (pol : UInt8) (size doff : Nat) (h24 : 24 ≤ size) (h64 : size < 2 ^ 64)
    (hp : pol = 0xFF ∨ pol = 0) : SizeFields (padInfo pol size doff) (padDataLen size) := by
  have hgl : (if pol = 0xFF then guidFF else guidZero).length = 16 := by
    rcases hp with h | h <;> simp [h, guidFF, guidZero]
  by_cases hb : size ≥ 0xFFFFFF
  · have ha : setSize 0 size false = (1, 0xFFFFFF, size) := by
      unfold setSize write3; simp [hb]
    have ed : padDataLen size = size - 32 := by unfold padDataLen; simp [hb]
    unfold padInfo
    rw [ha, ed]
    refine ⟨hgl, by simp, by simp, (0x07 ^^^ pol).toNat_lt, by simp, fun _ => ⟨Or.inl rfl, ?_, ?_⟩⟩
    · simp only; omega
    · simpa using h64
  · have ha : setSize 0 size false = (0, size, size) := by
      unfold setSize write3; simp [hb]
    have ed : padDataLen size = size - 24 := by unfold padDataLen; simp [hb]
    unfold padInfo
    rw [ha, ed]
    refine ⟨hgl, by simp, by simp, (0x07 ^^^ pol).toNat_lt, fun _ => ?_, by simp⟩
    simp only; omega

/-- **C02 `padFile_valid`**: a pad file of any size from 24 bytes on, under either erase polarity, has
    exactly the requested length and satisfies the file rules of the independent reader wherever it
    is placed (its data alignment is 1) — including the 32-byte-header form from 16 MiB − 1 on. -/
theorem mkPadFile_valid (pol : UInt8) (size : Nat) (h24 : 24 ≤ size) (h64 : size < 2 ^ 64)
    (hp : pol = 0xFF ∨ pol = 0) :
    ∃ f, mkPadFile pol size = .ok f ∧ f.buf.length = size ∧ f.secs = [] ∧ f.info.attrs % 2 = (if size ≥ 0xFFFFFF then 1 else 0) ∧
      Valid.dataAlign f.info.attrs = 1 ∧
      ∀ fuel o, Valid.fileOk (fuel + 1) f.buf o = true := by
  rw [mkPadFile_eq pol size h24 hp]
  refine ⟨_, rfl, ?_, rfl, ?_, ?_, ?_⟩
  · simp only [File.buf]
    have hs := padInfo_sizeFields pol size 0 h24 h64 hp
    rw [casm_length _ _ hs.guid, extBytes_length]
    unfold padInfo padDataLen setSize
    by_cases hb : size ≥ 0xFFFFFF
    · simp [hb]; omega
    · simp [hb]; omega
  · simp only [File.info]
    unfold checksumAndAssemble padInfo setSize
    by_cases hb : size ≥ 0xFFFFFF <;> simp [hb]
  · simp only [File.info]
    unfold checksumAndAssemble padInfo setSize
    by_cases hb : size ≥ 0xFFFFFF <;> simp [hb, Valid.dataAlign]
  · intro fuel o
    simp only [File.buf]
    have hs := padInfo_sizeFields pol size 0 h24 h64 hp
    have hlen : (List.replicate (padDataLen size) pol).length = padDataLen size := by simp
    apply casm_fileOk
    · rw [hlen]; exact hs
    · unfold padInfo setSize
      by_cases hb : size ≥ 0xFFFFFF <;> simp [hb, Valid.dataAlign, Nat.mod_one]
    · intro h
      unfold padInfo at h
      simp [Valid.sectioned] at h

end Fiano.Uefi

namespace Fiano.Uefi
open EditArith
open Fiano

set_option maxRecDepth 16384 in
theorem attrs_bit0 : ∀ a, a < 256 → (a ||| 1) % 2 = 1 ∧ (a ||| 1) < 256 ∧ (a &&& 0xFE) % 2 = 0 ∧ (a &&& 0xFE) < 256 ∧
    Valid.dataAlign (a ||| 1) = Valid.dataAlign a ∧ Valid.dataAlign (a &&& 0xFE) = Valid.dataAlign a := by
  decide

/-- the header fields `Assemble` gives a rebuilt file (`SetSize(24 + dLen, true)`) describe its size -/
theorem setSize_sizeFields (i : FileInfo) (dlen : Nat) (hg : i.guid.length = 16) (ht : i.type < 256)
    (ha : i.attrs < 256) (hst : i.state < 256) (hb : dlen < 2 ^ 63) :
    SizeFields { i with attrs := (setSize i.attrs (24 + dlen) true).1, size3 := (setSize i.attrs (24 + dlen) true).2.1,
                        extSize := (setSize i.attrs (24 + dlen) true).2.2 } dlen := by
  have hbits := attrs_bit0 i.attrs ha
  unfold setSize write3
  by_cases hbig : 24 + dlen ≥ 0xFFFFFF
  · simp only [hbig, if_true]
    refine ⟨hg, ht, hbits.2.1, hst, fun h => ?_, fun _ => ⟨Or.inl ?_, ?_, ?_⟩⟩
    · simp only at h; omega
    · simp only; rw [if_pos (by omega)]
    · simp only; omega
    · simp only; omega
  · simp only [hbig, if_false]
    refine ⟨hg, ht, hbits.2.2.2.1, hst, fun _ => ⟨?_, ?_⟩, fun h => ?_⟩
    · simp only
    · simp only; omega
    · simp only at h; omega

end Fiano.Uefi
