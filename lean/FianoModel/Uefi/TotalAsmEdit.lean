/-
  C05 (follow-up wp-c05b) — `Assemble` on the trees that the editing visitors leave behind.

  The edit operations of Uefi/Visitors.lean (`insertOp`, `removeOp`, `replacePe32Op`: tree surgery without
  any slice / index / make of their own, shared with C02 / C03 and not edited here) are run as they are;
  `save` (= a fresh `Assemble` visitor, then one `WriteFile`) runs the Go-semantics model `assembleG`
  instead of the functional `asmTreeWith`.  The driver request `asmrun` answers from `runEditG`, with
  the wire format of the C02 driver, so the C02 case generators (harness/props/uefiedit, read-only) serve as
  the T2 stream for "assemble after edits".
-/
import FianoModel.Uefi.TotalAsm
import FianoModel.Uefi.Visitors

namespace Fiano.Uefi.Total
open Fiano GoM Fiano.Uefi

/-- outcome classes of the functional edit model as Go-semantics faults -/
def faultOfErr : Err → Fault
  | .err => .err
  | .panic => .panic "edit visitor: nil *uefi.File / nil dereference (Visitors.lean)"
  | .fatal => .panic "log.Fatalf: edit visitor"
  | .hang => .fuel
  | .fuel => .fuel

def liftE {α} (r : Except Err α) : GoM α := fun m =>
  match r with
  | .ok a => .ok (a, m)
  | .error e => .error (faultOfErr e)

/-- `v.Run(f)` for one visitor of the command line; `save` assembles with `assembleG` -/
def stepEditG (ah : AsmHooksG) (op : Op) (s : Run) : GoM Run :=
  if s.nilFile then liftE (stepNil op s) else
  match op with
  | .save => do
    let (t, st) ← assembleG ah s.tree s.st
    pure { s with tree := t, st := st, outs := s.outs ++ [t.buf] }
  | _ => liftE (step Hooks.none op s)

/-- `visitors.ExecuteCLI`: stops at the first error -/
def runEditG (ah : AsmHooksG) : List Op → Run → GoM Run
  | [], s => pure s
  | op :: ops, s => do
    let s' ← stepEditG ah op s
    runEditG ah ops s'

end Fiano.Uefi.Total
