/-
  C02 (follow-up wp-c02b), `parse_establishes_TreeOk`, part 2: one node at a time.  From the position
  of a node in the input (`SecF` / `FileF` / `FvF` of property C04) and the reader's verdict on the
  bytes there, the node satisfies the invariant.
-/
import FianoModel.Uefi.ParseOk1

namespace Fiano.Uefi
open Fiano
open EditArith

theorem up8_eq_alignUp (n : Nat) : up8 n = Valid.alignUp n 8 := by unfold up8 Valid.alignUp; omega
theorem up4_eq_alignUp (n : Nat) : up4 n = Valid.alignUp n 4 := by unfold up4 Valid.alignUp; omega

set_option maxRecDepth 8192 in
theorem sectioned_eq_supported : ∀ t, t < 256 → Valid.sectioned t = supportedFile t := by decide

/-! ### sections -/

/-- the size fiano gave the section is the size the specification reads -/
theorem sec_size_agree (i : SecInfo) (ctx : Bytes) (hh : SecHeaderOk i ctx)
    (hRA : knownSection i.type = true ∨ i.size3 ≠ 0xFFFFFF) (hsz : secSize ctx ≤ ctx.length) :
    i.extSize = secSize ctx ∧ i.size3 = Valid.fld ctx 0 3 ∧ i.type = Valid.fld ctx 3 1 := by
  obtain ⟨h4, h03, h31, hx⟩ := hh
  rw [rd_eq_fld] at h03 h31
  refine ⟨?_, h03, h31⟩
  unfold secSize at hsz ⊢
  rw [← h03] at hsz ⊢
  by_cases hk : knownSection i.type = true
  · rw [if_pos hk] at hx
    by_cases hf : i.size3 = 0xFFFFFF
    · rw [if_pos hf] at hx ⊢
      rw [hx.2, rd_eq_fld]
    · rw [if_neg hf] at hx ⊢
      exact hx
  · rw [if_neg hk] at hx
    have hf : i.size3 ≠ 0xFFFFFF := by
      rcases hRA with c | c
      · exact absurd c hk
      · exact c
    rw [if_neg hf] at hsz ⊢
    rw [hx]
    exact Nat.min_eq_left hsz

/-- **a parsed section satisfies the invariant**, given the reader's verdict on its bytes and — for a
    volume image — the invariant of the volume below -/
theorem sec_est_core (h : Hooks) (i : SecInfo) (buf : Bytes) (encap : List Node) (ctx : Bytes)
    (hF : SecF h (.mk i buf encap) ctx)
    (hRA : knownSection i.type = true ∨ i.size3 ≠ 0xFFFFFF) (hsz : secSize ctx ≤ ctx.length)
    (hb : SecBytesOk (ctx.take (secSize ctx)))
    (hchild : i.type = 0x17 → NodeFvOk encap) :
    SecOk (.mk i buf encap) ∧ i.extSize = secSize ctx := by
  unfold SecF at hF
  obtain ⟨hh, hle, hbuf, hg, _, hc⟩ := hF
  obtain ⟨hext, h03, h31⟩ := sec_size_agree i ctx hh hRA hsz
  have hbufb : SecBytesOk buf := by rw [hbuf, hext]; exact hb
  refine ⟨?_, hext⟩
  rw [SecOk]
  refine ⟨by rw [h31]; have := fld_lt ctx 3 1; simpa using this, ?_⟩
  by_cases h2 : i.type = 0x02
  · rw [if_pos h2]
    unfold GuidDefOk at hg
    rw [if_pos h2] at hg
    obtain ⟨g, hts, hfit, hgg, _, _⟩ := hg
    refine ⟨⟨g, hts, ?_⟩, fun _ => hbufb⟩
    rw [hgg]
    exact slice_length _ _ _ (by omega)
  · rw [if_neg h2]
    unfold GuidDefOk at hg
    rw [if_neg h2] at hg
    refine ⟨hg, ?_⟩
    by_cases h17 : i.type = 0x17
    · rw [if_pos h17]; exact hchild h17
    · rw [if_neg h17]
      rw [if_neg h2, if_neg h17] at hc
      exact ⟨hc, Or.inr hbufb⟩

/-- the payload of a parsed volume-image section is where the reader looked for the volume -/
theorem sec_fv_payload (h : Hooks) (i : SecInfo) (buf : Bytes) (encap : List Node) (ctx : Bytes)
    (hF : SecF h (.mk i buf encap) ctx)
    (hRA : knownSection i.type = true ∨ i.size3 ≠ 0xFFFFFF) (hsz : secSize ctx ≤ ctx.length)
    (hb : SecBytesOk (ctx.take (secSize ctx))) (h17 : i.type = 0x17) :
    NodesFv h encap (buf.drop (secHdrSize i)) ∧ FvBytesOk (buf.drop (secHdrSize i)) := by
  have hF' := hF
  unfold SecF at hF
  obtain ⟨hh, hle, hbuf, hg, _, hc⟩ := hF
  obtain ⟨hext, h03, h31⟩ := sec_size_agree i ctx hh hRA hsz
  have h2 : i.type ≠ 0x02 := by omega
  rw [if_neg h2, if_pos h17] at hc
  refine ⟨hc, ?_⟩
  have hbufb : SecBytesOk buf := by rw [hbuf, hext]; exact hb
  have hlen : buf.length = secSize ctx := by rw [hbuf, hext, List.length_take]; omega
  have hhl4 : 4 ≤ secHl buf := by unfold secHl; split <;> omega
  have hsb := hbufb.hdr
  have b03 : Valid.fld buf 0 3 = i.size3 := by rw [hbuf, fld_take _ _ _ _ (by omega), h03]
  have b31 : Valid.fld buf 3 1 = i.type := by rw [hbuf, fld_take _ _ _ _ (by omega), h31]
  have hhs : secHl buf = secHdrSize i := by
    unfold secHl secHdrSize
    rw [b03, b31, if_neg h2]
    have hk : knownSection i.type = true := by rw [h17]; decide
    by_cases hf : i.size3 = 0xFFFFFF
    · rw [if_pos hf, if_pos ⟨hk, hf⟩]
    · rw [if_neg hf, if_neg (fun c => hf c.2)]
  rw [← hhs]
  exact hbufb.fv (by rw [b31, h17])

/-! ### files -/

/-- the size and header length fiano read are the ones the specification reads -/
theorem file_size_agree (i : FileInfo) (ctx : Bytes) (hh : FileHeaderOk i ctx) (hpos : 0 < i.extSize) (size hl : Nat)
    (hfs : Valid.fileSize ctx = some (size, hl)) : i.extSize = size ∧ i.dataOffset = hl := by
  obtain ⟨h24, _, _, _, _, hat, h3, _, hx⟩ := hh
  rw [rd_eq_fld] at hat h3
  unfold Valid.fileSize at hfs
  rw [if_neg (by omega)] at hfs
  simp only at hfs
  rw [← hat, ← h3] at hfs
  by_cases hL : i.attrs % 2 = 1
  · rw [if_pos hL] at hfs
    split at hfs
    · cases hfs
    · split at hfs
      · cases hfs
      · rename_i h32 hs
        cases hfs
        by_cases hf : i.size3 = 0xFFFFFF
        · rw [if_pos hf] at hx
          exact ⟨by rw [hx.2.1, rd_eq_fld], hx.2.2⟩
        · rw [if_neg hf] at hx
          have : i.size3 = 0 := by omega
          omega
  · rw [if_neg hL] at hfs
    split at hfs
    · cases hfs
    · rename_i hf
      cases hfs
      rw [if_neg hf] at hx
      exact hx

/-- a place where fiano found a file is not a place where the reader stops for free space -/
theorem file_not_erased (i : FileInfo) (ctx : Bytes) (e : UInt8) (he : e = 0xFF ∨ e = 0) (hh : FileHeaderOk i ctx)
    (hpos : 0 < i.extSize) (hle : i.extSize ≤ ctx.length) (hlen : ctx.length < 2 ^ 62)
    (hall : Valid.allAre e ctx = true) : False := by
  obtain ⟨h24, _, _, _, _, _, h3, _, hx⟩ := hh
  rw [rd_eq_fld] at h3
  have f3 := fld_of_allAre e ctx hall 20 3 (by omega)
  rcases he with rfl | rfl
  · have hs : i.size3 = 0xFFFFFF := by rw [h3, f3]; decide
    rw [if_pos hs] at hx
    have f8 := fld_of_allAre 0xFF ctx hall 24 8 (by omega)
    have : i.extSize = 18446744073709551615 := by rw [hx.2.1, rd_eq_fld, f8]; decide
    omega
  · have hs : i.size3 = 0 := by rw [h3, f3]; decide
    rw [if_neg (by omega)] at hx
    omega

theorem allAre_drop (e : UInt8) (l : Bytes) (n : Nat) (h : Valid.allAre e l = true) : Valid.allAre e (l.drop n) = true := by
  have := List.take_append_drop n l
  rw [← this, allAre_append] at h
  simp only [Bool.and_eq_true] at h
  exact h.2

/-- **a parsed file satisfies the invariant**, given the reader's verdict on its bytes and the
    invariant of its sections -/
theorem file_est_core (h : Hooks) (e : UInt8) (i : FileInfo) (buf : Bytes) (secs : List Section) (ctx : Bytes)
    (hF : FileF h (.mk i buf secs) ctx)
    (hRA : ∀ nv, i.nvar = some nv → i.type = 1 ∧ nv.length = nv.buf.length) (hpos : 0 < i.extSize)
    (fuel o size hl : Nat) (hfs : Valid.fileSize ctx = some (size, hl))
    (hok : Valid.fileOk fuel (ctx.take size) o = true) (hlive : Valid.allAre e (ctx.take 24) = false)
    (hsecs : supportedFile i.type = true → (∃ n, Valid.sectionsOk n (buf.drop i.dataOffset) 0 = true) → SecsOk secs) :
    FileOk e (.mk i buf secs) ∧ i.extSize = size := by
  unfold FileF at hF
  obtain ⟨hh, hle, hbuf, hc⟩ := hF
  obtain ⟨hext, hdo⟩ := file_size_agree i ctx hh hpos size hl hfs
  have hh' := hh
  obtain ⟨h24, hguid, _, _, hty, hat, h3, hst, hx⟩ := hh
  rw [rd_eq_fld] at hty hat hst
  have hsl := fileSize_some_length ctx size hl hfs
  have hbufe : buf = ctx.take size := by rw [hbuf, hext]
  cases fuel with
  | zero => simp [Valid.fileOk] at hok
  | succ n =>
    obtain ⟨hl', hfs', hhl', hsec'⟩ := fileOk_inv n _ o hok
    have hblen : buf.length = size := by rw [hbuf, List.length_take, hext]; omega
    have h24s : 24 ≤ size := by
      have := fileSize_some_length _ _ _ hfs'
      rw [← hbufe, hblen] at this; exact this.1
    have b18 : Valid.fld buf 18 1 = i.type := by rw [hbufe, fld_take _ _ _ _ (by omega), hty]
    have b19 : Valid.fld buf 19 1 = i.attrs := by rw [hbufe, fld_take _ _ _ _ (by omega), hat]
    -- header length: both readings take it from the large-file bit
    have hhl1 := fileSize_hl ctx size hl hfs
    have hhl2 := fileSize_hl _ _ hl' hfs'
    rw [← hbufe, b19] at hhl2
    rw [← hat] at hhl1
    have hhleq : hl' = hl := by rw [hhl1, hhl2]
    refine ⟨?_, hext⟩
    rw [FileOk]
    have hty256 : i.type < 256 := by rw [hty]; have := fld_lt ctx 18 1; simpa using this
    have hat256 : i.attrs < 256 := by rw [hat]; have := fld_lt ctx 19 1; simpa using this
    refine ⟨by rw [hguid]; exact slice_length _ _ _ (by omega), hty256, hat256,
      by rw [hst]; have := fld_lt ctx 23 1; simpa using this, ?_, ?_, ?_, ?_, ?_⟩
    · -- the extended size is a 64-bit number
      by_cases hf : i.size3 = 0xFFFFFF
      · rw [if_pos hf] at hx
        rw [hx.2.1, rd_eq_fld]; have := fld_lt ctx 24 8; simpa using this
      · rw [if_neg hf] at hx
        rw [hx.1, h3, rd_eq_fld]; have := fld_lt ctx 20 3
        have h2 : (256 : Nat) ^ 3 < 2 ^ 64 := by decide
        omega
    · intro nv hnv
      obtain ⟨h1, h2⟩ := hRA nv hnv
      exact ⟨by rw [h1]; decide, h2⟩
    · intro c
      rcases c with c | c
      · cases hnv : i.nvar with
        | none => rw [hnv] at c; cases c
        | some nv => have := (hRA nv hnv).1; omega
      · by_cases hs : supportedFile i.type = true
        · unfold supportedFile at hs
          simp only [Bool.or_eq_true, beq_iff_eq, Bool.and_eq_true, decide_eq_true_eq] at hs
          omega
        · rw [if_neg hs] at hc
          exact absurd hc.2 c
    · intro _ _
      exact goodFile_of_ok e i.attrs buf (n + 1) o b19.symm hat256
        (by rw [hbufe, List.take_take]; have : min 24 size = 24 := by omega
            rw [this]; exact hlive) (by rw [hbufe]; exact hok)
    · by_cases hs : supportedFile i.type = true
      · apply hsecs hs
        refine ⟨n, ?_⟩
        rw [hdo, ← hhleq, hbufe]
        apply hsec'
        rw [← hbufe, b18, sectioned_eq_supported _ hty256]
        exact hs
      · rw [if_neg hs] at hc
        rw [hc.2, SecsOk]; trivial

end Fiano.Uefi
