/-
  C09b at image level on the reference grammar: the statement of DESIGN §7

      ∀ i, Valid i → ∀ protected byte of a node of tree i, ∀ b', Alter (ser i) b' p → parse b' fails ∨ validate ≠ []

  as a corollary of `alter_detected_image` — the parse and validate hypotheses come from C01 (`parseWith_ser`)
  and `validate_wf`, and every volume of `Spec.tree` keeps its files behind its headers (`Fv.regular`), so that
  hypothesis disappears as well.  What stays are the two exceptions and the flash-signature / size conditions.
  Core Lean only.
-/
import FianoModel.Uefi.ValidateTree
import FianoModel.Uefi.ValidateSaved

namespace Fiano.Uefi.C09
open Fiano Fiano.Uefi Fiano.Uefi.Spec

theorem prologue_le (i : FvInfo) (h1 : i.headerLen ≤ i.dataOffset)
    (h2 : i.extHeaderOffset ≠ 0 → i.extHeaderOffset + 20 ≤ i.dataOffset) : i.prologue ≤ i.dataOffset := by
  unfold FvInfo.prologue
  by_cases hx : i.hasExt = true
  · rw [if_pos hx]
    unfold FvInfo.hasExt at hx
    have := (decide_eq_true_iff.mp hx).1
    have := h2 this
    omega
  · rw [if_neg hx]; exact h1

/-- every volume node of the grammar keeps its files behind its header and extended header -/
theorem treeFv_regular (v : FvI) (off : Nat) (rz : Bool) : (treeFv v off rz).regular := by
  unfold Fv.regular
  apply prologue_le
  · cases v with
    | other zv g attrs rev rsv blocks body => simp only [treeFv, Fv.info]; omega
    | ffs zv v3 attrs rev rsv blocks ext files free =>
      simp only [treeFv, Fv.info]
      cases ext with
      | none => simp only [preLen]; omega
      | some e =>
        simp only [preLen]
        have h := alignUp_ge (fvHdrLen blocks + e.gap.length + 20 + e.data.length) 8 (by omega)
        omega
  · cases v with
    | other zv g attrs rev rsv blocks body => simp only [treeFv, Fv.info]; intro h; exact absurd rfl h
    | ffs zv v3 attrs rev rsv blocks ext files free =>
      simp only [treeFv, Fv.info]
      cases ext with
      | none => simp only [ehoOf]; intro h; exact absurd rfl h
      | some e =>
        simp only [ehoOf, preLen]
        have h := alignUp_ge (fvHdrLen blocks + e.gap.length + 20 + e.data.length) 8 (by omega)
        intro _; omega

/-- the nodes of the grammar's tree -/
def GrammarFv (w : Fv) : Prop := ∃ v off rz, w = treeFv v off rz

theorem treeFiles_get : ∀ (fs : List FileI) (k : Nat) (f : File), (treeFiles fs)[k]? = some f → ∃ fi, f = treeFile fi
  | [], k, f, h => by simp [treeFiles] at h
  | fi :: fs, 0, f, h => by simp [treeFiles] at h; exact ⟨fi, h.symm⟩
  | fi :: fs, k+1, f, h => by
    simp only [treeFiles, List.getElem?_cons_succ] at h
    exact treeFiles_get fs k f h

theorem treeSecs_get : ∀ (ss : List SecI) (ord j : Nat) (s : Section), (treeSecs ss ord)[j]? = some s →
    ∃ si o, s = treeSec si o
  | [], _, j, s, h => by simp [treeSecs] at h
  | si :: ss, ord, 0, s, h => by simp [treeSecs] at h; exact ⟨si, ord, h.symm⟩
  | si :: ss, ord, j+1, s, h => by
    simp only [treeSecs, List.getElem?_cons_succ] at h
    exact treeSecs_get ss (ord + 1) j s h

theorem treeSec_fv {si : SecI} {o : Nat} {i : SecInfo} {b : Bytes} {w : Fv} (h : treeSec si o = .mk i b [.fv w]) :
    GrammarFv w := by
  cases si with
  | fvimg fv =>
    simp only [treeSec, Section.mk.injEq, List.cons.injEq, Node.fv.injEq, and_true] at h
    exact ⟨fv, 0, true, h.2.2.symm⟩
  | leaf t e body => simp [treeSec] at h
  | guided e g d a body => simp [treeSec] at h
  | ui n => simp [treeSec] at h
  | version bl ver => simp [treeSec] at h
  | depex t ops => simp [treeSec] at h

theorem treeFv_files (v : FvI) (off : Nat) (rz : Bool) (k : Nat) (f : File) (h : (treeFv v off rz).files[k]? = some f) :
    ∃ fi, f = treeFile fi := by
  cases v with
  | other zv g attrs rev rsv blocks body => simp [treeFv, Fv.files] at h
  | ffs zv v3 attrs rev rsv blocks ext files free =>
    simp only [treeFv, Fv.files] at h
    exact treeFiles_get files k f h

theorem treeFile_secs (fi : FileI) (j : Nat) (s : Section) (h : (treeFile fi).secs[j]? = some s) :
    ∃ si o, s = treeSec si o := by
  cases fi with
  | leaf g ckh ckf type attrs state ext body => simp [treeFile, File.secs] at h
  | sect g type attrs state secs =>
    simp only [treeFile, File.secs] at h
    exact treeSecs_get secs 0 j s h

/-- every volume a path passes through in the grammar's tree is a volume of the grammar, hence regular -/
theorem locFv_through_regular : ∀ (path : Path) (w : Fv) (loc : Loc), GrammarFv w → locFv path w = some loc →
    ∀ x ∈ loc.through, x.regular
  | [], w, loc, _, hl => by
    simp only [locFv, Option.some.injEq] at hl
    subst hl; simp
  | [k], w, loc, hg, hl => by
    obtain ⟨v, off, rz, rfl⟩ := hg
    simp only [locFv] at hl
    split at hl
    · simp at hl
    · simp only [Option.some.injEq] at hl
      subst hl
      intro x hx
      simp only [List.mem_singleton] at hx
      subst hx
      exact treeFv_regular v off rz
  | k :: j :: rest, w, loc, hg, hl => by
    obtain ⟨v, off, rz, rfl⟩ := hg
    simp only [locFv] at hl
    cases hf : (treeFv v off rz).files[k]? with
    | none => rw [hf] at hl; simp at hl
    | some f =>
      rw [hf] at hl
      simp only at hl
      obtain ⟨fi, rfl⟩ := treeFv_files v off rz k f hf
      split at hl
      · rename_i i sb w' hs
        split at hl
        · cases hlw : locFv rest w' with
          | none => rw [hlw] at hl; simp at hl
          | some l =>
            rw [hlw] at hl
            simp only [Option.map_some, Option.some.injEq] at hl
            subst hl
            obtain ⟨si, o, hsi⟩ := treeFile_secs fi j _ hs
            have hgw : GrammarFv w' := treeSec_fv hsi.symm
            intro x hx
            simp only [List.mem_cons] at hx
            rcases hx with rfl | hx
            · exact treeFv_regular v off rz
            · exact locFv_through_regular rest w' l hgw hlw x hx
        · simp at hl
      · simp at hl

theorem nthVol_treeItems : ∀ (is : List (Bytes × FvI)) (off : Nat) (tailElems : List BiosElem) (k base cur : Nat)
    (r : Nat × Nat × Fv), (∀ e ∈ tailElems, e.isFv = false) →
    nthVol (treeItems is off ++ tailElems) k base cur = some r → GrammarFv r.2.2
  | [], off, tl, k, base, cur, r, htl, h => by
    simp only [treeItems, List.nil_append] at h
    exfalso
    induction tl generalizing cur with
    | nil => simp [nthVol] at h
    | cons e tl ih =>
      have he := htl e (by simp)
      cases e with
      | fv v => simp [BiosElem.isFv] at he
      | pad b o =>
        simp only [nthVol] at h
        exact ih (cur + b.length) (fun e he => htl e (List.mem_cons_of_mem _ he)) h
  | (p, v) :: is, off, tl, k, base, cur, r, htl, h => by
    simp only [treeItems] at h
    by_cases hp : p.length ≠ 0
    · rw [if_pos hp] at h
      simp only [List.cons_append, List.nil_append, List.append_assoc, nthVol] at h
      cases k with
      | zero =>
        simp only [nthVol, Option.some.injEq] at h
        subst h
        exact ⟨v, _, _, rfl⟩
      | succ k =>
        simp only [nthVol] at h
        exact nthVol_treeItems is _ tl k _ _ r htl h
    · rw [if_neg hp] at h
      simp only [List.cons_append, List.nil_append, List.append_assoc] at h
      cases k with
      | zero =>
        simp only [nthVol, Option.some.injEq] at h
        subst h
        exact ⟨v, _, _, rfl⟩
      | succ k =>
        simp only [nthVol] at h
        exact nthVol_treeItems is _ tl k _ _ r htl h

theorem locBios_through_regular (b : BiosI) (fr : Option FlashRegion) (path : Path) (x : Nat × Nat × Loc)
    (h : locBios (treeBios b fr) path = some x) : ∀ w ∈ x.2.2.through, w.regular := by
  cases path with
  | nil => simp [locBios] at h
  | cons n rest =>
    simp only [locBios] at h
    cases hn : nthVol (treeBios b fr).elems n 0 0 with
    | none => rw [hn] at h; simp at h
    | some t =>
      obtain ⟨base, cur, v⟩ := t
      rw [hn] at h
      simp only at h
      cases hl : locFv rest v with
      | none => rw [hl] at h; simp at h
      | some l =>
        rw [hl] at h
        simp only [Option.map_some, Option.some.injEq] at h
        subst h
        have hg : GrammarFv v := by
          have := nthVol_treeItems b.items 0
            (if b.tail.length ≠ 0 then [BiosElem.pad b.tail (sizeItems b.items)] else []) n 0 0 (base, cur, v)
            (by intro e he; split at he <;> simp at he; subst he; rfl)
            (by simpa [treeBios] using hn)
          exact this
        exact locFv_through_regular rest v l hg hl

theorem treeRegs_bios (tbl : List FlashRegion) : ∀ (rs : List RegI) (blk ρ : Nat) (brg : BiosRegion),
    (treeRegs tbl rs blk)[ρ]? = some (.bios brg) → ∃ b fr, brg = treeBios b fr
  | [], _, ρ, _, h => by simp [treeRegs] at h
  | r :: rs, blk, 0, brg, h => by
    cases r with
    | bios b =>
      simp only [treeRegs, List.getElem?_cons_zero, Option.some.injEq, Region.bios.injEq] at h
      exact ⟨b, _, h.symm⟩
    | me d => simp [treeRegs] at h
    | raw i d => simp [treeRegs] at h
    | gap d => simp [treeRegs] at h
  | r :: rs, blk, ρ+1, brg, h => by
    have : (treeRegs tbl (r :: rs) blk)[ρ + 1]? = (treeRegs tbl rs (blk + r.data.length / 4096))[ρ]? := by
      cases r <;> simp [treeRegs]
    rw [this] at h
    exact treeRegs_bios tbl rs _ ρ brg h

/-- every volume a path into the tree of a grammar image passes through is regular -/
theorem locTree_through_regular (i : Img) (path : Path) (il : ImgLoc) (h : locTree (tree i) path = some il) :
    ∀ w ∈ il.loc.through, w.regular := by
  cases i with
  | bios b =>
    simp only [tree, locTree] at h
    cases hb : locBios (treeBios b none) path with
    | none => rw [hb] at h; simp at h
    | some x =>
      rw [hb] at h
      simp only [Option.map_some, Option.some.injEq] at h
      subst h
      exact locBios_through_regular b none path x hb
  | flash f =>
    cases path with
    | nil => simp [tree, locTree] at h
    | cons ρ p =>
      simp only [tree, locTree] at h
      split at h
      · rename_i brg hget
        obtain ⟨b, fr0, rfl⟩ := treeRegs_bios _ _ _ _ _ hget
        split at h
        · cases hb : locBios (treeBios b fr0) p with
          | none => rw [hb] at h; simp at h
          | some x =>
            rw [hb] at h
            simp only [Option.map_some, Option.some.injEq] at h
            subst h
            exact locBios_through_regular b fr0 p x hb
        · simp at h
      · simp at h

/-- **`alter_detected` on the reference grammar** (the statement of DESIGN §7, with its exceptions spelled
    out): `i` is a valid image (`WF` and `Sound`); the path selects a volume or file of `Spec.tree i`; `b'`
    differs from `ser i` in exactly one protected byte of it.  Then parsing `b'` fails or validate reports
    an error — unless the alteration touches the flash-descriptor signature, a signature byte of a top-level
    volume, makes `_FVH` appear at an earlier probe of the volume scan (F-C09-zerovector), or turns a file
    header into the free-space marker (F-C09-freespace). -/
theorem alter_detected_grammar (i : Img) (hv : Valid i) {b' : Bytes} {path : Path} {il : ImgLoc} {r : Nat}
    (hloc : locTree (tree i) path = some il)
    (ha : Alter (ser i) b' (il.pos + r)) (hpr : il.loc.tgt.protects r)
    (hbig : (ser i).length + 8 < 2 ^ 64)
    (hflash : findSignature b' = findSignature (ser i))
    (hscan : ScanKept (b'.drop il.region) il.base il.vol (il.loc.off + r))
    (hfree : ∀ f, il.loc.tgt = .file f → ¬ FreeMarker b' il.pos) :
    parseValidate Hooks.none b' ≠ .ok [] := by
  obtain ⟨st', hp, hpol⟩ := parseWith_ser i hv.1
  have hval : validate (tree i) st' = [] := by
    rw [validate_pol (tree i) st' (stOf i) (by rw [hpol]; rfl), validate_wf i hv]
  exact alter_detected_image Hooks.none hp hval hloc (locTree_through_regular i path il hloc) ha hpr hbig hflash
    hscan hfree

end Fiano.Uefi.C09
