/-
  C09a for edited trees (follow-up wp-c09c): non-vacuity by kernel evaluation.  The 264-byte sample image of
  property C04 (a volume with a checksummed driver with UI and RAW sections, a driver with a GUID-defined
  section with *decoded* children, a pad file, free space; then 16 bytes of padding), and the five-command
  line of C02's `sample_edits_valid` (two saves of edited trees).
-/
import FianoModel.Uefi.ValidateEditRun
import FianoModel.Uefi.SampleC04
import FianoModel.Uefi.ParseEval

namespace Fiano.Uefi.C09
open Fiano Fiano.Uefi
open SampleC04

theorem ve_hooks_nvLaw : hooks.NvLaw := by
  refine ⟨fun b nv hn => ?_, fun nv pol nv' hl hn => ?_⟩
  · simp [hooks] at hn
  · simp only [hooks] at hn
    cases hn
    exact hl

set_option maxRecDepth 100000 in
theorem ve_sampleBios_valid : Valid.validImage sampleBios = true := by decide +kernel

set_option maxRecDepth 100000 in
/-- the sample image itself is read as the specification reads it and passes validate's extra checks -/
theorem ve_sampleBios_reparse : reparseB hooks sampleBios = true := by
  unfold reparseB
  rw [← parseWith_eval]; decide +kernel

set_option maxRecDepth 100000 in
theorem ve_sampleBios_readAlike :
    (match parseWith hooks (defaultFuel sampleBios) sampleBios {} with
     | .ok (t, _) => readAlikeB t
     | .error _ => false) = true := by
  rw [← parseWith_eval]; decide +kernel

/-- the two drivers of the sample volume, by GUID -/
def veFirst : Pred := { file := fun f => f.info.guid == [1, 2, 3, 4, 5, 6, 7, 8, 9, 10, 11, 12, 13, 14, 15, 16] }
def veSecond : Pred := { file := fun f => f.info.guid ==
  [0x21, 0x22, 0x23, 0x24, 0x25, 0x26, 0x27, 0x28, 0x29, 0x2a, 0x2b, 0x2c, 0x2d, 0x2e, 0x2f, 0x30] }
/-- `utk sample remove <1st> save a replace_pe32 <2nd> MZ remove_pad <2nd> save b` -/
def veSpecs : List OpSpec :=
  [.remove veFirst false, .save, .replacePe32 veSecond [0x4D, 0x5A], .remove veSecond true, .save]

set_option maxRecDepth 100000 in
/-- the run succeeds, writes two images, both different from the input, and both satisfy `reparseB` -/
theorem ve_sample_run : (match utk hooks sampleBios veSpecs with
    | .ok r => r.outs.length == 2 && r.outs.all (fun b => b != sampleBios && reparseB hooks b)
    | .error _ => false) = true := by
  unfold utk reparseB
  simp only [← parseWith_eval]
  decide +kernel

/-- **the hypotheses of `ve_validate_saved` are jointly satisfiable on a run that writes**: the theorem applies
    to the sample image with a five-command line; both saved images (edited trees) satisfy `reparseB` and
    therefore validate cleanly -/
theorem ve_sample_validate_saved : ∃ r, utk hooks sampleBios veSpecs = .ok r ∧ r.outs.length = 2 ∧
    ∀ b ∈ r.outs, b ≠ sampleBios ∧ reparseB hooks b = true ∧ parseValidate hooks b = .ok [] := by
  have hs := ve_sample_run
  match hu : utk hooks sampleBios veSpecs with
  | .error _ => rw [hu] at hs; cases hs
  | .ok r =>
    rw [hu] at hs
    simp only [Bool.and_eq_true, beq_iff_eq, List.all_eq_true, bne_iff_ne] at hs
    refine ⟨r, rfl, hs.1, fun b hb => ⟨(hs.2 b hb).1, (hs.2 b hb).2, ?_⟩⟩
    refine ve_validate_saved hooks hooks_bounded ve_hooks_nvLaw sampleBios veSpecs r hu ve_sampleBios_valid
      (by decide +kernel) ?_ ?_ b hb (hs.2 b hb).2
    · intro s hs
      simp only [veSpecs, List.mem_cons, List.not_mem_nil, or_false] at hs
      rcases hs with rfl | rfl | rfl | rfl | rfl
      · trivial
      · trivial
      · show [0x4D, 0x5A].length + 28 < 4294967296; decide
      · trivial
      · trivial
    · intro ops st t st' hc hp
      have : st = {} := by
        simp only [veSpecs, cliParse, cliOne] at hc
        cases hc; rfl
      subst this
      have h2 := ve_sampleBios_readAlike
      rw [hp] at h2
      exact h2

end Fiano.Uefi.C09
