/-
  C09a for edited trees (follow-up wp-c09c): non-vacuity **in the growing branch** by kernel evaluation.  The
  579-byte image `deepImg` of ValidateSample.lean (two volumes; the second holds a volume nested in a
  volume-image section: 168 bytes, 64 of them free).  `utk img insert_end <nested file> blob save` with a 96-byte
  RAW file: the nested volume does not have room, it is resizable, `Assemble` grows it to 200 bytes (`Length`
  and `Blocks[0].Count` rewritten), the section around it, the holder file with its checksums and the outer
  volume are rebuilt.
-/
import FianoModel.Uefi.ValidateEditSampleFlashDef

namespace Fiano.Uefi.C09
open Fiano Fiano.Uefi
open EditArith

def veGrowImg : Bytes := Spec.ser deepImg
/-- a RAW file of 96 bytes (24-byte header, 72 body bytes, no body checksum) -/
def veBlob : Bytes := Spec.serFile (.leaf (g 0x60) 39 0xAA 1 0 0xF8 false (List.replicate 72 0x5A))
/-- `utk img insert_end <file of the nested volume> blob save` -/
def veGrowSpecs : List OpSpec := [.insertFile veNested .end_ veBlob, .save]

/-- `Length` of the volume the path `[1, 0, 0]` selects (the nested volume) -/
def veNestedLen (b : Bytes) : Option Nat :=
  match parseWith Hooks.none (defaultFuel b) b {} with
  | .error _ => none
  | .ok (t, _) =>
    match locTree t [1, 0, 0] with
    | some il =>
      (match il.loc.tgt with
       | .fvHeader v => some v.info.length
       | .file _ => none)
    | none => none

set_option maxRecDepth 100000 in
theorem ve_grow_valid : Valid.validImage veGrowImg = true ∧ veGrowImg.length = 579 := by decide +kernel

set_option maxRecDepth 100000 in
theorem ve_grow_readAlike :
    (match parseWith Hooks.none (defaultFuel veGrowImg) veGrowImg {} with
     | .ok (t, _) => readAlikeB t
     | .error _ => false) = true := by
  rw [← parseWith_eval]; decide +kernel

set_option maxRecDepth 100000 in
/-- the new file is one C02's theorem lets the user insert (`SpecOk`) -/
theorem ve_grow_specOk : SpecOk Hooks.none (.insertFile veNested .end_ veBlob) := by
  intro st nf st' hp
  have hF := (layers Hooks.none SampleC04.none_bounded (defaultFuel veBlob)).2.2.2.1 veBlob st nf st' (by decide) hp
  obtain ⟨i, buf, secs⟩ := nf
  have hF' := hF
  unfold FileF at hF'
  obtain ⟨hh, _, _, _, hc⟩ := hF'
  obtain ⟨_, _, _, _, hty, _, h3, _, hx⟩ := hh
  have hty1 : i.type = 1 := by rw [hty]; decide +kernel
  have h3v : i.size3 = 96 := by rw [h3]; decide +kernel
  rw [hty1] at hc
  have hsecs : secs = [] := by simpa [supportedFile] using hc
  rw [if_neg (by omega)] at hx
  refine newFile_est Hooks.none SampleC04.none_bounded Hooks.none_nvLaw _ veBlob st st' _ hp (by decide) 96 24 2 0
    (by decide +kernel) (by decide +kernel) (by decide +kernel) (by decide +kernel) ?_ ?_
  · rw [FileRA, hsecs, SecsRA]; trivial
  · simp only [File.info]; omega

set_option maxRecDepth 100000 in
/-- parsing the command line (the new file is parsed then) leaves the process state alone -/
theorem ve_grow_cli : (match cliParse Hooks.none veGrowSpecs {} with
    | .ok (_, st) => decide (st = {})
    | .error _ => false) = true := by decide +kernel

set_option maxRecDepth 100000 in
/-- the run succeeds and writes one image, different from the input, that satisfies `reparseB`; the nested
    volume was 168 bytes long and is 200 bytes long in the saved image -/
theorem ve_grow_run : (match utk Hooks.none veGrowImg veGrowSpecs with
    | .ok r => r.outs.length == 1 &&
        r.outs.all (fun b => b != veGrowImg && reparseB Hooks.none b && veNestedLen b == some 200) &&
        veNestedLen veGrowImg == some 168
    | .error _ => false) = true := by
  unfold utk reparseB veNestedLen
  simp only [← parseWith_eval]
  decide +kernel

/-- **the hypotheses of `ve_validate_saved` are jointly satisfiable on a run in which a nested volume grows** -/
theorem ve_grow_validate_saved : ∃ r, utk Hooks.none veGrowImg veGrowSpecs = .ok r ∧ r.outs.length = 1 ∧
    veNestedLen veGrowImg = some 168 ∧
    ∀ b ∈ r.outs, veNestedLen b = some 200 ∧ reparseB Hooks.none b = true ∧ parseValidate Hooks.none b = .ok [] := by
  have hs := ve_grow_run
  match hu : utk Hooks.none veGrowImg veGrowSpecs with
  | .error _ => rw [hu] at hs; cases hs
  | .ok r =>
    rw [hu] at hs
    simp only [Bool.and_eq_true, beq_iff_eq, List.all_eq_true, bne_iff_ne] at hs
    obtain ⟨⟨h1, hall⟩, h168⟩ := hs
    refine ⟨r, rfl, h1, h168, fun b hb => ⟨(hall b hb).2, (hall b hb).1.2, ?_⟩⟩
    refine ve_validate_saved Hooks.none SampleC04.none_bounded Hooks.none_nvLaw veGrowImg veGrowSpecs r hu ve_grow_valid.1
      (by rw [ve_grow_valid.2]; omega) ?_ ?_ b hb (hall b hb).1.2
    · intro s hs
      simp only [veGrowSpecs, List.mem_cons, List.not_mem_nil, or_false] at hs
      rcases hs with rfl | rfl
      · exact ve_grow_specOk
      · trivial
    · intro ops st t st' hc hp
      have : st = {} := by
        have hcs := ve_grow_cli
        rw [hc] at hcs
        simpa using hcs
      subst this
      have h2 := ve_grow_readAlike
      rw [hp] at h2
      exact h2

end Fiano.Uefi.C09
