/-
  C02 (follow-up wp-c02b), `parse_establishes_TreeOk`, part 6: `NewBIOSRegion` establishes the
  invariant of the element list (`parseBiosElems_est`), and a bare BIOS image keeps carrying no flash
  signature (`bareNoSig_est`).
-/
import FianoModel.Uefi.ParseOk5

namespace Fiano.Uefi
open Fiano
open EditArith

theorem elemsRA_append_pad (p : Bytes) (o : Nat) (es : List BiosElem) : ElemsRA (.pad p o :: es) ↔ ElemsRA es := by
  rw [ElemsRA]

/-- **`NewBIOSRegion` establishes the invariant** on every region the reader's walk accepts -/
theorem parseBiosElems_est (h : Hooks) (hb : h.BoundedCodecs) (hlaw : h.NvLaw) : ∀ (fuel : Nat) (buf : Bytes) (abs : Nat) (st : St)
    (es : List BiosElem) (st' : St), parseBiosElems h fuel buf abs st = .ok (es, st') → buf.length < 2 ^ 62 →
    ∀ n, WalkSpec buf 0 n → ElemsRA es → ElemsOk es ∧ catBufs es = buf := by
  intro fuel
  induction fuel with
  | zero => intro buf abs st es st' hp; simp [parseBiosElems] at hp
  | succ m ih =>
    intro buf abs st es st' hp hL n hw hRA
    rw [parseBiosElems] at hp
    split at hp
    · -- no volume (any more): what is left is one padding
      cases hp
      by_cases hz : buf.length ≠ 0
      · rw [if_pos hz]
        refine ⟨?_, by simp [catBufs, BiosElem.buf]⟩
        rw [ElemsOk]
        exact fun k hk => walkSpec_any buf 0 n hw k hk
      · rw [if_neg hz]
        refine ⟨by rw [ElemsOk]; trivial, ?_⟩
        have : buf = [] := List.eq_nil_of_length_eq_zero (by omega)
        rw [this]; rfl
    · rename_i off hoff
      obtain ⟨h8, hfit44, hsig, hno⟩ := findFvOffset_spec buf off hoff
      simp only at hp
      generalize hpre : (if off > 0 then [BiosElem.pad (buf.take off) abs] else []) = pre at hp
      split at hp
      · cases hp
      · rename_i fv st1 hfv
        split at hp
        · cases hp
        · rename_i hlen0
          split at hp
          · cases hp
          · rename_i es' st2 hrec
            cases hp
            -- the reader found the same volume
            have hvol : 64 ≤ Valid.fld buf (off + 32) 8 ∧ off + Valid.fld buf (off + 32) 8 ≤ buf.length ∧
                FvBytesOk ((buf.drop off).take (Valid.fld buf (off + 32) 8)) ∧
                WalkSpec buf (off + Valid.fld buf (off + 32) 8) (n + 1) := by
              cases hw with
              | done _ _ hnh _ =>
                exfalso
                obtain ⟨q, hq⟩ : ∃ q, off = 8 * q := ⟨off / 8, by omega⟩
                have := hnh q (by omega)
                apply this
                have e : 0 + 8 * q + 40 = off + 40 := by omega
                rw [e]; exact hsig
              | vol _ _ s hh h64 hfit hok hrest =>
                have hs : s = off := by
                  have hstep := hh.step
                  by_cases c1 : s < off
                  · exfalso
                    obtain ⟨q, hq⟩ : ∃ q, s = 8 * q := ⟨s / 8, by omega⟩
                    have := hno (q + 1) (by omega)
                    apply this
                    have e : 32 + 8 * (q + 1) = s + 40 := by omega
                    rw [e]; exact hh.hit
                  · by_cases c2 : off < s
                    · exfalso
                      obtain ⟨q, hq⟩ : ∃ q, off = 8 * q := ⟨off / 8, by omega⟩
                      have := hh.first q (by omega)
                      apply this
                      have e : 0 + 8 * q + 40 = off + 40 := by omega
                      rw [e]; exact hsig
                    · omega
                subst hs
                exact ⟨h64, hfit, hok, hrest⟩
            obtain ⟨v64, vfit, vok, vrest⟩ := hvol
            generalize hlen : Valid.fld buf (off + 32) 8 = len at *
            -- the parsed volume is faithful to the bytes at `off`
            have hgl : GoLen (buf.drop off) := by unfold GoLen; simp; omega
            obtain ⟨hFv, _, hres⟩ := (layers h hb m).2.2.2.2.2 (buf.drop off) (abs + off) false st fv st1 hgl hfv
            obtain ⟨i, fbuf, files⟩ := fv
            have hilen : i.length = len := by
              have hF1 := hFv
              unfold FvF at hF1
              rw [hF1.1.2.2.1, rd_eq_fld, fld_drop, hlen]
            have hfbuf : fbuf = (buf.drop off).take len := by
              have hF1 := hFv
              unfold FvF at hF1
              rw [hF1.2.2.1, hilen]
            simp only [Fv.info] at hrec hres
            rw [hilen] at hrec
            -- the tree's agreement conditions
            have hRAsplit : FvRA (.mk i fbuf files) ∧ ElemsRA es' := by
              by_cases hp0 : off > 0
              · rw [if_pos hp0] at hpre
                rw [← hpre] at hRA
                simp only [List.singleton_append] at hRA
                rw [ElemsRA, ElemsRA] at hRA
                exact hRA
              · rw [if_neg hp0] at hpre
                rw [← hpre] at hRA
                simp only [List.nil_append] at hRA
                rw [ElemsRA] at hRA
                exact hRA
            have hfvok : FvOk (.mk i fbuf files) :=
              fv_est h (.mk i fbuf files) (buf.drop off) hFv hRAsplit.1 ((nvLayers h hlaw m).2.2.2.2.2 _ _ _ _ _ _ hfv)
                (by simp only [Fv.info]; rw [hilen]; exact vok)
                (by simp; omega)
            -- the rest of the region
            have hrestw : WalkSpec (buf.drop (off + len)) 0 (n + 1) := by
              have hP : (buf.take (off + len)).length = off + len := by rw [List.length_take]; omega
              apply walkSpec_unshift (buf.take (off + len)) (buf.drop (off + len)) (off + len) (n + 1)
                (by rw [List.take_append_drop]; exact vrest) 0 (by rw [hP]; rfl)
            obtain ⟨ih1, ih2⟩ := ih (buf.drop (off + len)) _ st1 es' _ hrec (by simp; omega) (n + 1) hrestw hRAsplit.2
            have htop : TopFvOk (.mk i fbuf files) := ⟨hfvok, hres⟩
            have hcatfv : fbuf ++ buf.drop (off + len) = buf.drop off := by
              rw [hfbuf, ← List.drop_drop]
              exact List.take_append_drop len (buf.drop off)
            by_cases hp0 : off > 0
            · rw [if_pos hp0] at hpre
              rw [← hpre]
              simp only [List.singleton_append]
              refine ⟨?_, ?_⟩
              · rw [ElemsOk]
                refine ⟨?_, by rw [ElemsOk]; exact ⟨htop, ih1⟩⟩
                simp only [Fv.buf]
                rw [hfbuf]
                exact padBefore_est buf off len h8 hno v64 vfit
              · rw [catBufs_cons, catBufs_cons, ih2]
                simp only [BiosElem.buf, Fv.buf]
                rw [hcatfv]
                exact List.take_append_drop off buf
            · rw [if_neg hp0] at hpre
              rw [← hpre]
              simp only [List.nil_append]
              have h0 : off = 0 := by omega
              refine ⟨by rw [ElemsOk]; exact ⟨htop, ih1⟩, ?_⟩
              rw [catBufs_cons, ih2]
              simp only [BiosElem.buf, Fv.buf]
              rw [hcatfv, h0]
              rfl

end Fiano.Uefi

namespace Fiano.Uefi
open Fiano
open EditArith

/-! ### a bare BIOS image keeps carrying no flash signature -/

theorem win_append_left (p X : Bytes) (a n : Nat) (h : a + n ≤ p.length) :
    ((p ++ X).drop a).take n = (p.drop a).take n := by
  rw [List.drop_append_of_le_length (by omega), List.take_append_of_le_length (by simp; omega)]

theorem win_append_right (p X : Bytes) (a n : Nat) (h : p.length ≤ a) :
    ((p ++ X).drop a).take n = (X.drop (a - p.length)).take n := by
  rw [List.drop_append, List.drop_of_length_le h, List.nil_append]

/-- the first 20 bytes of two compatible volumes, each followed by anything -/
theorem compat_head (w w' R R' : Bytes) (hc : Compat w w') (h64 : 64 ≤ w.length) :
    (w' ++ R').take 16 = (w ++ R).take 16 ∧
    (((w' ++ R').drop 16).take 4 = ((w ++ R).drop 16).take 4 ∨ ((w' ++ R').drop 16).take 4 = guidFFS3.take 4) := by
  have hl' : 64 ≤ w'.length := by rw [hc.len]; exact h64
  refine ⟨by rw [List.take_append_of_le_length (by omega), List.take_append_of_le_length (by omega)]; exact hc.z16, ?_⟩
  rw [win_append_left _ _ _ _ (by omega), win_append_left _ _ _ _ (by omega)]
  have e : ∀ x : Bytes, (x.drop 16).take 4 = ((x.drop 16).take 16).take 4 := fun x => (take4_of_take (by omega)).symm
  rw [e w', e w]
  rcases hc.guid with g | g
  · exact Or.inl (by rw [g])
  · exact Or.inr (by rw [g])

theorem elemsRel_head : ∀ (es es' : List BiosElem), ElemsOk es → ElemsRel es es' →
    (catBufs es').length = (catBufs es).length ∧ (catBufs es').take 4 = (catBufs es).take 4 ∧
    (((catBufs es').drop 16).take 4 = ((catBufs es).drop 16).take 4 ∨ ((catBufs es').drop 16).take 4 = guidFFS3.take 4) := by
  intro es es' hok hr
  have hlen := elemsRel_len es es' hr
  refine ⟨hlen, ?_⟩
  cases hr with
  | nil => exact ⟨rfl, Or.inl rfl⟩
  | fv v v' rest rest' hc hr' =>
    rw [ElemsOk] at hok
    obtain ⟨l64, _, _, _⟩ := fvOk_node_facts v hok.1.1
    rw [catBufs_cons, catBufs_cons]
    simp only [BiosElem.buf]
    obtain ⟨h1, h2⟩ := compat_head v.buf v'.buf (catBufs rest) (catBufs rest') hc l64
    refine ⟨?_, h2⟩
    have e : ∀ x : Bytes, x.take 4 = (x.take 16).take 4 := fun x => (take4_of_take (by omega)).symm
    rw [e, h1, ← e]
  | pad p o rest rest' hr' =>
    rw [catBufs_cons, catBufs_cons]
    simp only [BiosElem.buf]
    cases hr' with
    | nil => exact ⟨rfl, Or.inl rfl⟩
    | pad q o2 r2 r2' _ => rw [ElemsOk] at hok; exact hok.elim
    | fv v v' r2 r2' hc hr2 =>
      rw [ElemsOk] at hok
      obtain ⟨hpad, hrest⟩ := hok
      rw [ElemsOk] at hrest
      obtain ⟨l64, _, _, _⟩ := fvOk_node_facts v hrest.1.1
      rw [catBufs_cons, catBufs_cons]
      simp only [BiosElem.buf]
      obtain ⟨h1, h2⟩ := compat_head v.buf v'.buf (catBufs r2) (catBufs r2') hc l64
      generalize hX : v.buf ++ catBufs r2 = X at *
      generalize hX' : v'.buf ++ catBufs r2' = X' at *
      have hp8 := hpad.1
      by_cases hbig : 20 ≤ p.length
      · refine ⟨?_, Or.inl ?_⟩
        · rw [List.take_append_of_le_length (by omega), List.take_append_of_le_length (by omega)]
        · rw [win_append_left _ _ _ _ (by omega), win_append_left _ _ _ _ (by omega)]
      · have hcases : p.length = 0 ∨ p.length = 8 ∨ p.length = 16 := by omega
        have e16 : ∀ (a n : Nat), a + n ≤ 16 → (X'.drop a).take n = (X.drop a).take n :=
          fun a n han => window_of_take_eq X' X 16 a n h1 han
        rcases hcases with c | c | c
        · have : p = [] := List.eq_nil_of_length_eq_zero c
          subst this
          simp only [List.nil_append]
          refine ⟨?_, h2⟩
          have := e16 0 4 (by omega)
          simpa using this
        · refine ⟨?_, Or.inl ?_⟩
          · rw [List.take_append_of_le_length (by omega), List.take_append_of_le_length (by omega)]
          · rw [win_append_right _ _ _ _ (by omega), win_append_right _ _ _ _ (by omega), c]
            exact e16 8 4 (by omega)
        · refine ⟨?_, Or.inl ?_⟩
          · rw [List.take_append_of_le_length (by omega), List.take_append_of_le_length (by omega)]
          · rw [win_append_right _ _ _ _ (by omega), win_append_right _ _ _ _ (by omega), c]
            exact e16 0 4 (by omega)

/-- **a bare BIOS image stays one** -/
theorem bareNoSig_est (es : List BiosElem) (hok : ElemsOk es) (h : Valid.hasFlashSig (catBufs es) = false) :
    BareNoSig es := by
  intro es' hr
  obtain ⟨hlen, h4, h16⟩ := elemsRel_head es es' hok hr
  unfold Valid.hasFlashSig at h ⊢
  rw [hlen, h4]
  rcases h16 with c | c
  · rw [c]; exact h
  · rw [c]
    have hne : ¬ (guidFFS3.take 4 = Valid.flashSig) := by decide
    simp only [hne, decide_false, Bool.false_or]
    cases hd : decide ((catBufs es).length ≥ 20) with
    | false => simp
    | true =>
      rw [hd, Bool.true_and] at h
      simp only [Bool.or_eq_false_iff] at h
      simp [h.2]

end Fiano.Uefi
