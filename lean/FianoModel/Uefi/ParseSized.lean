/-
  C02, "same size" from the bytes of a flash image: the tree `NewFlashImage` builds satisfies the
  size invariant `Sized` (every region buffer is as long as its table entry says, gap regions
  included, and `Assemble` re-points every region to itself).
-/
import FianoModel.Uefi.SizeLemmas

namespace Fiano.Uefi
open EditArith
open Fiano

theorem repointFr_same (tbl : List FlashRegion) (nr : Nat) (i : Nat) (fr : FlashRegion)
    (h : tbl[i]? = some fr) : repointFr tbl nr (i : Int) (some fr) = some fr := by
  unfold repointFr
  split
  · rfl
  · split
    · rfl
    · split
      · rfl
      · simp only [Int.toNat_natCast, h]

/-- what `parseRegions` produces from the table suffix that starts at index `i` -/
theorem parseRegions_sized (h : Hooks) (fuel : Nat) (buf : Bytes) (nr : Nat) (tbl : List FlashRegion) :
    ∀ (frs : List FlashRegion) (i : Nat) (st st' : St) (rs : List Region),
      tbl.drop i = frs → parseRegions h fuel buf nr frs i st = .ok (rs, st') →
      ∀ r ∈ rs, RegionSized tbl nr r ∧
        (∃ fr, r.fr = some fr ∧ fr.endOffset ≤ buf.length ∧ fr.baseOffset < fr.endOffset) := by
  intro frs
  induction frs with
  | nil => intro i st st' rs _ hp; simp [parseRegions] at hp; obtain ⟨rfl, _⟩ := hp; simp
  | cons fr rest ih =>
    intro i st st' rs hdrop hp
    have hnext : tbl.drop (i + 1) = rest := by
      rw [← List.drop_drop, hdrop]; rfl
    have hget : tbl[i]? = some fr := by
      have := congrArg List.head? hdrop
      simpa [List.head?_drop] using this
    rw [parseRegions] at hp
    split at hp
    · cases hp; simp
    · split at hp
      · exact ih (i + 1) st st' rs hnext hp
      · rename_i hskip
        simp only [not_or, Nat.not_le, Nat.not_lt] at hskip
        obtain ⟨hvalid, _, hend⟩ := hskip
        simp only at hp
        have hv : fr.valid = true := by simpa using hvalid
        have hbl : fr.baseOffset < fr.endOffset := by
          unfold FlashRegion.valid at hv
          simp only [Bool.and_eq_true, decide_eq_true_eq] at hv
          unfold FlashRegion.baseOffset FlashRegion.endOffset
          omega
        have hslice : (slice buf fr.baseOffset (fr.endOffset - fr.baseOffset)).length = fr.endOffset - fr.baseOffset :=
          slice_length _ _ _ (by omega)
        split at hp
        · cases hp
        · rename_i r st1 hone
          split at hp
          · cases hp
          · rename_i rs' st2 hrest
            cases hp
            intro x hx
            simp only [List.mem_cons] at hx
            rcases hx with rfl | hx
            · -- the region built from entry `i`
              refine ⟨?_, ?_⟩
              · split at hone
                · rename_i hi0
                  split at hone
                  · cases hone
                  · rename_i b st3 hb
                    cases hone
                    unfold parseBios at hb
                    split at hb
                    · cases hb
                    · cases hb
                      subst hi0
                      refine ⟨⟨fr, rfl, ?_⟩, ?_, ?_⟩
                      · simp only [Region.buf, hslice]; omega
                      · rw [repoint_fr]
                        simp only [Region.rtype, Region.fr]
                        exact repointFr_same tbl nr 0 fr hget
                      · simp [biosLenOk]
                · split at hone
                  · rename_i _ hi1
                    cases hone
                    subst hi1
                    refine ⟨⟨fr, rfl, ?_⟩, ?_, trivial⟩
                    · simp only [Region.buf, hslice]; omega
                    · rw [repoint_fr]
                      simp only [Region.rtype, Region.fr]
                      exact repointFr_same tbl nr 1 fr hget
                  · cases hone
                    refine ⟨⟨fr, rfl, ?_⟩, ?_, trivial⟩
                    · simp only [Region.buf, hslice]; omega
                    · rw [repoint_fr]
                      simp only [Region.rtype, Region.fr]
                      exact repointFr_same tbl nr i fr hget
              · refine ⟨fr, ?_, hend, hbl⟩
                split at hone
                · split at hone
                  · cases hone
                  · rename_i b st3 hb
                    cases hone
                    unfold parseBios at hb
                    split at hb
                    · cases hb
                    · cases hb; rfl
                · split at hone <;> (cases hone; rfl)
            · exact ih (i + 1) st1 st' rs' hnext hrest x hx

/-- the gap regions `fillRegionGaps` adds are sized too, when the flash is a whole number of 4 KiB
    blocks below 2^16 blocks -/
theorem fillGaps_sized (tbl : List FlashRegion) (nr : Nat) (fbuf : Bytes) (hmul : fbuf.length % 4096 = 0)
    (hsmall : fbuf.length < 65536 * 4096) :
    ∀ (l : List Region) (offset : Nat) (out : List Region),
      (∀ r ∈ l, RegionSized tbl nr r ∧ ∃ fr, r.fr = some fr ∧ fr.endOffset ≤ fbuf.length ∧ fr.baseOffset < fr.endOffset) →
      offset % 4096 = 0 → 4096 ≤ offset → offset ≤ fbuf.length →
      fillGaps fbuf fbuf.length l offset = .ok out → ∀ r ∈ out, RegionSized tbl nr r := by
  -- a gap region from `offset` to `next`
  have gap : ∀ offset next, offset % 4096 = 0 → next % 4096 = 0 → 4096 ≤ offset → offset < next → next ≤ fbuf.length →
      RegionSized tbl nr (.raw (slice fbuf offset (next - offset))
        ⟨(offset / 4096) % 65536, (next / 4096 % 65536 + 65535) % 65536⟩ (-1)) := by
    intro offset next ho hn h4 hlt hle
    refine ⟨⟨_, rfl, ?_⟩, ?_, trivial⟩
    · simp only [Region.buf, FlashRegion.baseOffset, FlashRegion.endOffset]
      rw [slice_length _ _ _ (by omega)]
      omega
    · rw [repoint_fr]
      simp only [Region.rtype, Region.fr]
      unfold repointFr
      simp
  intro l
  induction l with
  | nil =>
    intro offset out _ ho h4 hle hf
    rw [fillGaps] at hf
    split at hf
    · rename_i hne
      cases hf
      intro r hr
      simp only [List.mem_singleton] at hr
      subst hr
      exact gap offset fbuf.length ho hmul h4 (by omega) (Nat.le_refl _)
    · cases hf; simp
  | cons r rest ih =>
    intro offset out hl ho h4 hle hf
    obtain ⟨hrs, fr, hfr, hend, hbl⟩ := hl r (by simp)
    rw [fillGaps, hfr] at hf
    simp only at hf
    split at hf
    · cases hf
    · rename_i hnb
      split at hf
      · cases hf
      · rename_i out' hout
        have hrec := ih fr.endOffset out' (fun x hx => hl x (by simp [hx]))
          (by unfold FlashRegion.endOffset; omega) (by unfold FlashRegion.endOffset FlashRegion.baseOffset at *; omega) hend hout
        split at hf
        · rename_i hgt
          cases hf
          intro x hx
          simp only [List.mem_cons] at hx
          rcases hx with rfl | rfl | hx
          · exact gap offset fr.baseOffset ho (by unfold FlashRegion.baseOffset; omega) h4 hgt (by omega)
          · exact hrs
          · exact hrec x hx
        · cases hf
          intro x hx
          simp only [List.mem_cons] at hx
          rcases hx with rfl | hx
          · exact hrs
          · exact hrec x hx

/-- **every flash tree the parser builds satisfies the size invariant**, for images that are a whole
    number of 4 KiB blocks (rule F1 of the reader) below 256 MiB -/
theorem parseFlash_sized (h : Hooks) (fuel : Nat) (buf : Bytes) (st st' : St) (f : Flash)
    (hp : parseFlash h fuel buf st = .ok (f, st')) (hmul : buf.length % 4096 = 0) (hsmall : buf.length < 65536 * 4096) :
    Sized (.flash f) ∧ f.flashSize = buf.length := by
  unfold parseFlash at hp
  split at hp
  · cases hp
  · rename_i h4096
    split at hp
    · cases hp
    · rename_i ifd hifd
      split at hp
      · cases hp
      · rename_i bios rest hb
        split at hp
        · cases hp
        · split at hp
          · cases hp
          · rename_i rs st1 hrs
            split at hp
            · cases hp
            · rename_i rs' hfill
              cases hp
              refine ⟨⟨?_, ?_⟩, rfl⟩
              · -- the descriptor buffer is the first 4 KiB
                unfold parseDescriptor at hifd
                split at hifd
                · cases hifd
                · rename_i hlen
                  split at hifd
                  · cases hifd
                  · simp only at hifd
                    split at hifd
                    · cases hifd
                    · cases hifd
                      simpa using hlen
              · simp only
                have hregs := parseRegions_sized h fuel buf ifd.map.numberOfRegions ifd.region.regions
                  ifd.region.regions 0 _ _ rs rfl hrs
                exact fillGaps_sized ifd.region.regions ifd.map.numberOfRegions buf hmul hsmall _ 4096 rs'
                  (fun r hr => hregs r ((mem_sortRegions r rs).mp hr)) (by omega) (by omega) (by omega) hfill

end Fiano.Uefi
