/-
  Property C06 — lemmas of the C01 library that are stated for `Hk` although the hooks play
  no part in them, restated for arbitrary hooks `Hk` (same proofs: the text below is generated from
  Lemmas/ParseSec.lean, Lemmas/ParseMain.lean and Lemmas/AsmMain.lean by replacing `Hk`).
-/
import FianoModel.Uefi.Lemmas.AsmMain

namespace Fiano.Uefi.NestedBase
open Fiano Fiano.Uefi Fiano.Uefi.Spec

variable {Hk : Hooks}

/-- leaf sections: kept verbatim -/
theorem parseSection_leaf (t : Nat) (ext : Bool) (body rest : Bytes) (fuel ord : Nat) (st : St)
    (h : wfSec (.leaf t ext body) = true) :
    parseSection Hk (fuel + 1) (serSec (.leaf t ext body) ++ rest) ord st =
      .ok (treeSec (.leaf t ext body) ord, st) := by
  simp only [wfSec, Bool.and_eq_true, Bool.or_eq_true, Bool.not_eq_true'] at h
  obtain ⟨⟨hleaf, hk⟩, hsz⟩ := h
  simp only [leafSecType, Bool.and_eq_true, decide_eq_true_eq, bne_iff_ne, ne_eq, Bool.not_eq_true'] at hleaf
  obtain ⟨⟨⟨⟨⟨ht, h2⟩, h14⟩, h15⟩, h17⟩, hdep⟩ := hleaf
  have hlen : (serSec (.leaf t ext body)).length = secHdrLen ext + body.length := by
    simp [serSec, secHdr_length]
  have hh := secHeader_ser t ext (secHdrLen ext + body.length) (body ++ rest) ht
    (by intro he; rcases hk with hk | hk <;> simp_all) hsz
    (by simp [secHdr_length]) (by omega)
  have e : serSec (.leaf t ext body) ++ rest = secHdr t ext (secHdrLen ext + body.length) ++ (body ++ rest) := by
    simp [serSec]
  rw [e, parseSection, hh]
  simp only [h2, h14, h15, h17, hdep, if_false, Bool.false_eq_true]
  rw [← e, take_left_len _ _ _ hlen]
  rfl

theorem parseSection_ui (name : List Nat) (rest : Bytes) (fuel ord : Nat) (st : St)
    (h : wfSec (.ui name) = true) :
    parseSection Hk (fuel + 1) (serSec (.ui name) ++ rest) ord st = .ok (treeSec (.ui name) ord, st) := by
  simp only [wfSec, Bool.and_eq_true, decide_eq_true_eq] at h
  have hh := secHeader_canon 0x15 (utf8ToUcs2 name) rest (by decide) (by decide) h.2
  have hpos := utf8ToUcs2_ne_nil name
  simp only [serSec, treeSec]
  rw [parseSection, hh]
  simp only [show (0x15 : Nat) ≠ 0x02 by decide, if_false, if_true]
  rw [canon_take, canon_drop, canonSec_length, canonSecSize_eq, if_neg (by omega), ucs2_roundtrip name h.1,
    canonInfo_eq]
  rfl

theorem parseSection_version (build : Nat) (ver : List Nat) (rest : Bytes) (fuel ord : Nat) (st : St)
    (h : wfSec (.version build ver) = true) :
    parseSection Hk (fuel + 1) (serSec (.version build ver) ++ rest) ord st =
      .ok (treeSec (.version build ver) ord, st) := by
  simp only [wfSec, Bool.and_eq_true, decide_eq_true_eq] at h
  obtain ⟨⟨hb, hv⟩, hsz⟩ := h
  have hl : (leN 2 build ++ utf8ToUcs2 ver).length = 2 + (utf8ToUcs2 ver).length := by simp
  have hh := secHeader_canon 0x14 (leN 2 build ++ utf8ToUcs2 ver) rest (by decide) (by decide) (by rw [hl]; omega)
  have hpos := utf8ToUcs2_ne_nil ver
  simp only [serSec, treeSec]
  rw [parseSection, hh]
  simp only [show (0x14 : Nat) ≠ 0x02 by decide, show (0x14 : Nat) ≠ 0x15 by decide, if_false, if_true]
  rw [canon_take, canonSec_length, canonSecSize_eq, if_neg (by rw [hl]; omega)]
  have e1 : (canonSec 0x14 (leN 2 build ++ utf8ToUcs2 ver)).drop
      (secHdrLen (canonExt (leN 2 build ++ utf8ToUcs2 ver).length) + 2) = utf8ToUcs2 ver := by
    rw [← List.drop_drop, canon_drop]
    exact drop_append_len _ _ 2 (leN_length 2 build)
  have e2 : rd (canonSec 0x14 (leN 2 build ++ utf8ToUcs2 ver))
      (secHdrLen (canonExt (leN 2 build ++ utf8ToUcs2 ver).length)) 2 = build := by
    have := rd_canon_body 0x14 (leN 2 build ++ utf8ToUcs2 ver) 0 2
    rw [Nat.add_zero] at this
    rw [this]
    exact rd_leN_prefix 2 build _ (by simpa using hb)
  rw [e1, e2, ucs2_roundtrip ver hv, canonInfo_eq, hl]
  rfl

theorem parseSection_depex (t : Nat) (ops : List DepOp) (rest : Bytes) (fuel ord : Nat) (st : St)
    (h : wfSec (.depex t ops) = true) :
    parseSection Hk (fuel + 1) (serSec (.depex t ops) ++ rest) ord st =
      .ok (treeSec (.depex t ops) ord, st) := by
  simp only [wfSec, Bool.and_eq_true, decide_eq_true_eq] at h
  obtain ⟨⟨hd, hops⟩, hsz⟩ := h
  obtain ⟨ht, hk, h2, h15, h14, h17⟩ := isDepex_types t hd
  have hl := encodeOps_length ops (wfOps_guid ops hops)
  have hh := secHeader_canon t (encodeOps ops) rest ht hk (by rw [hl]; omega)
  have hpos : 0 < opsSize ops := by
    cases ops with
    | nil => simp [wfOps] at hops
    | cons d ds => simp only [opsSize]; split <;> omega
  simp only [serSec, treeSec]
  rw [parseSection, hh]
  simp only [h2, h15, h14, h17, hd, if_false, if_true]
  rw [canon_take, canon_drop, canonSec_length, canonSecSize_eq, if_neg (by rw [hl]; omega),
    parseDepEx_encodeOps ops hops, canonInfo_eq, hl]
  rfl

/-- the file walk reaches free space: nothing more to report -/
theorem parseFiles_nil (fuel : Nat) (data : Bytes) (off length free : Nat) (st : St)
    (hfuel : 2 ≤ fuel) (hd : data.drop (alignUp off 8) = tailFiles off [] free)
    (hlen : data.length = length) (hl : length = off + free) (h8 : length % 8 = 0) (hlt : length < 2 ^ 62)
    (h24 : 24 ≤ length) :
    parseFiles Hk fuel data off ((length + 18446744073709551616 - 24) % 18446744073709551616) length st =
      .ok ([], (if off + 24 ≤ length then length - alignUp off 8 else 0), st) := by
  obtain ⟨f, rfl⟩ : ∃ f, fuel = f + 1 := ⟨fuel - 1, by omega⟩
  obtain ⟨f', rfl⟩ : ∃ f', f = f' + 1 := ⟨f - 1, by omega⟩
  have hlh : (length + 18446744073709551616 - 24) % 18446744073709551616 = length - 24 := by omega
  rw [parseFiles, hlh]
  by_cases hc : off + 24 ≤ length
  · have hal := alignUp_ge off 8 (by decide)
    have hal2 : alignUp off 8 + 24 ≤ length := by
      have hm := alignUp_mod off 8
      have hlt8 := alignUp_lt off 8 (by decide)
      omega
    rw [if_pos (show off ≤ length - 24 by omega), if_pos hc]
    simp only [align8_eq off (by omega)]
    rw [if_neg (show ¬ data.length ≤ alignUp off 8 by omega), hd]
    have et : tailFiles off [] free = ffs (length - alignUp off 8) := by
      simp only [tailFiles, serFiles, List.nil_append, ffs, List.drop_replicate]
      have e : free - (alignUp off 8 - off) = length - alignUp off 8 := by omega
      rw [e]
    rw [et, parseFile, fileHeader_ffs24 _ (by omega)]
  · rw [if_neg (show ¬ off ≤ length - 24 by omega), if_neg hc]

/-- `NewFile` on a sectioned file, given the result of the section walk -/
theorem parseFile_sect_gen (g : Guid) (ckh ckf : UInt8) (t a : Nat) (L : Bool) (stt : Nat) (data rest : Bytes)
    (ss : List Section) (f : Nat) (st : St)
    (hg : g.length = 16) (ht : t < 256) (ha : a < 256) (hst : stt < 256) (hsup : supportedFile t = true)
    (hsz : if L then 32 + data.length < 18446744073709551615 else 24 + data.length < 16777215)
    (IH : parseSections Hk f
      (fileHdr g ckh ckf t a L ((if L then 32 else 24) + data.length) stt ++ data)
      (if L then 32 else 24) ((if L then 32 else 24) + data.length) 0 st = .ok (ss, st)) :
    parseFile Hk (f + 1)
      (fileHdr g ckh ckf t a L ((if L then 32 else 24) + data.length) stt ++ (data ++ rest)) st =
    .ok (some (.mk { guid := g, ckHeader := ckh.toNat, ckFile := ckf.toNat, type := t, attrs := a,
                     size3 := if L then 0xFFFFFF else (if L then 32 else 24) + data.length, state := stt,
                     extSize := (if L then 32 else 24) + data.length, dataOffset := if L then 32 else 24 }
                   (fileHdr g ckh ckf t a L ((if L then 32 else 24) + data.length) stt ++ data) ss), st) := by
  have hh := fileHeader_ser g ckh ckf t a L ((if L then 32 else 24) + data.length) stt (data ++ rest) hg ht ha hst
    (by cases L <;> simp_all) (by simp [fileHdr_length _ _ _ _ _ _ _ _ hg])
  have hc1 : ¬ ((if L then 32 else 24) + data.length >
      (fileHdr g ckh ckf t a L ((if L then 32 else 24) + data.length) stt ++ (data ++ rest)).length) := by
    simp [fileHdr_length _ _ _ _ _ _ _ _ hg]
  have ht1 : ¬ (t = 1 ∧ g = guidNVAR) := by
    intro hc; rw [hc.1] at hsup; exact absurd hsup (by decide)
  have htake : (fileHdr g ckh ckf t a L ((if L then 32 else 24) + data.length) stt ++ (data ++ rest)).take
      ((if L then 32 else 24) + data.length) = fileHdr g ckh ckf t a L ((if L then 32 else 24) + data.length) stt ++ data := by
    rw [← List.append_assoc]
    exact take_left_len _ _ _ (by simp [fileHdr_length _ _ _ _ _ _ _ _ hg])
  rw [parseFile, hh]
  simp only [hc1, ht1, if_false, hsup, not_true_eq_false, htake, IH]

theorem asmSection_nil (i : SecInfo) (buf : Bytes) (st : St) :
    asmSection Hk (.mk i buf []) st =
      (match regenLeaf i with
       | .error e => .error e
       | .ok none => .ok (.mk i buf [], st)
       | .ok (some body) =>
         match genSecHeader i body with
         | .error e => .error e
         | .ok (i', buf') => .ok (.mk i' buf' [], noteLarge i'.extSize st)) := by
  rw [asmSection, asmNodes]
  rfl

/-- **sec_regen_id** for a regenerated leaf section: the body `body` regenerated from the decoded
    fields, wrapped by `GenSecHeader`, is the canonical section -/
theorem asm_regen (i : SecInfo) (buf body : Bytes) (t ord : Nat) (st : St)
    (hi : i.type = t ∧ i.ts = none ∧ i.fileOrder = ord) (ht2 : t ≠ 0x02)
    (hregen : regenLeaf i = .ok (some body)) (hsz : body.length + 8 < 0xFFFFFFFF) :
    ∃ s' st', asmSection Hk (.mk i buf []) st = .ok (s', st') ∧ s'.buf = canonSec t body ∧
      st'.pol = st.pol ∧ (st'.ffs3 = true → st.ffs3 = true ∨ bigSize (canonSecSize body.length) = true) := by
  obtain ⟨h1, h2, h3⟩ := hi
  have hg := genSecHeader_canon i body h2 (by rw [h1]; exact ht2) hsz
  rw [asmSection_nil, hregen]
  simp only [hg]
  refine ⟨_, _, rfl, by simp [Section.buf, h1], noteLarge_pol _ _, ?_⟩
  intro hf
  rcases noteLarge_flag _ _ hf with h | h
  · left; exact h
  · right
    simp only [canonInfo_extSize] at h
    simp [bigSize, h]


/-- the header facts of an FFS volume: C01's `WfHdr` without its conditions on the files, which is
    all that the header lemmas below use -/
structure WfHdr (zv : Bytes) (v3 : Bool) (attrs rev rsv : Nat) (blocks : List Block) (ext : Option ExtI)
    (files : List FileI) (free : Nat) : Prop where
  hzv : zv.length = 16
  hattrs : attrs < 4294967296
  hpol : attrs &&& 0x800 ≠ 0
  hrev : rev < 256
  hrsv : rsv < 256
  hblocks : blocks.all blockOk = true
  hhdr : fvHdrLen blocks < 65536
  hnb : files = [] ∨ blocks ≠ []
  hext : ∀ e, ext = some e → e.fvName.length = 16 ∧ ehoOf blocks ext < 65536 ∧ 20 + e.data.length < 4294967296 ∧
      ehoOf blocks ext + 20 ≤ endFiles (preLen blocks ext) files + free
  hlen8 : (endFiles (preLen blocks ext) files + free) % 8 = 0
  hlenlt : endFiles (preLen blocks ext) files + free < 0x4000000000000000
  hlen64 : 64 ≤ endFiles (preLen blocks ext) files + free

/-- what `fvInfoOf` decodes from a serialised FFS volume -/
theorem fvInfoOf_ffs (zv : Bytes) (v3 : Bool) (attrs rev rsv : Nat) (blocks : List Block) (ext : Option ExtI)
    (files : List FileI) (free : Nat) (rest : Bytes) (off : Nat) (rz : Bool)
    (w : WfHdr zv v3 attrs rev rsv blocks ext files free) :
    fvInfoOf (serFv (.ffs zv v3 attrs rev rsv blocks ext files free) ++ rest) blocks off rz =
      { (treeFv (.ffs zv v3 attrs rev rsv blocks ext files free) off rz).info with freeSpace := 0 } := by
  have hgl := guid_v3_length v3
  have heho : ehoOf blocks ext < 65536 := by
    cases ext with
    | none => simp [ehoOf]
    | some e => exact (w.hext e rfl).2.1
  have e1 : serFv (.ffs zv v3 attrs rev rsv blocks ext files free) ++ rest =
      fvHeader zv (if v3 then guidFFS3 else guidFFS2) (endFiles (preLen blocks ext) files + free) attrs
        (0 - sum16 (fvHeader zv (if v3 then guidFFS3 else guidFFS2) (endFiles (preLen blocks ext) files + free)
          attrs 0 (ehoOf blocks ext) rsv rev blocks)).toNat (ehoOf blocks ext) rsv rev blocks ++
      (preBytes blocks ext ++ (serFiles (preLen blocks ext) files ++ (ffs free ++ rest))) := by
    simp [serFv, fvHeaderCk]
  obtain ⟨rg, rlen, rsig, rat, rhl, rck, reho, rrsv, rrev, _⟩ :=
    fvHeader_reads zv (if v3 then guidFFS3 else guidFFS2) (endFiles (preLen blocks ext) files + free) attrs
      (0 - sum16 (fvHeader zv (if v3 then guidFFS3 else guidFFS2) (endFiles (preLen blocks ext) files + free)
          attrs 0 (ehoOf blocks ext) rsv rev blocks)).toNat (ehoOf blocks ext) rsv rev blocks
      (preBytes blocks ext ++ (serFiles (preLen blocks ext) files ++ (ffs free ++ rest)))
      w.hzv hgl (by have := w.hlenlt; omega) w.hattrs w.hhdr (ck_lt _) heho w.hrsv w.hrev
  rw [e1]
  unfold fvInfoOf
  simp only [rg, rlen, rsig, rat, rhl, rck, reho, rrsv, rrev, treeFv, Fv.info]
  cases ext with
  | none =>
    simp only [ehoOf, ne_eq, not_true_eq_false, false_and, decide_false, Bool.false_eq_true, if_false,
      fvHdrLen_align blocks w.hhdr, preLen, Option.map_none, Option.getD_none]
  | some e =>
    obtain ⟨hn, he, hd, hl⟩ := w.hext e rfl
    have hH := fvHeader_length zv (if v3 then guidFFS3 else guidFFS2) (endFiles (preLen blocks (some e)) files + free)
      attrs (0 - sum16 (fvHeader zv (if v3 then guidFFS3 else guidFFS2)
        (endFiles (preLen blocks (some e)) files + free) attrs 0 (ehoOf blocks (some e)) rsv rev blocks)).toNat
      (ehoOf blocks (some e)) rsv rev blocks w.hzv hgl
    have hcond : (ehoOf blocks (some e) ≠ 0 ∧ endFiles (preLen blocks (some e)) files + free ≥ 20 ∧
        ehoOf blocks (some e) ≤ endFiles (preLen blocks (some e)) files + free - 20) := by
      refine ⟨?_, ?_, ?_⟩
      · simp only [ehoOf, fvHdrLen]; omega
      · omega
      · omega
    have ep : preBytes blocks (some e) ++ (serFiles (preLen blocks (some e)) files ++ (ffs free ++ rest)) =
        e.gap ++ (e.fvName ++ (leN 4 (20 + e.data.length) ++ (e.data ++
          (ffs (alignUp (fvHdrLen blocks + e.gap.length + 20 + e.data.length) 8 -
            (fvHdrLen blocks + e.gap.length + 20 + e.data.length)) ++
          (serFiles (preLen blocks (some e)) files ++ (ffs free ++ rest)))))) := by
      simp [preBytes]
    have hx : decide (ehoOf blocks (some e) ≠ 0 ∧ endFiles (preLen blocks (some e)) files + free ≥ 20 ∧
        ehoOf blocks (some e) ≤ endFiles (preLen blocks (some e)) files + free - 20) = true := by
      simp only [decide_eq_true_eq]; exact hcond
    have hbound : fvHdrLen blocks + e.gap.length + (20 + e.data.length) < 2 ^ 63 := by
      have : ehoOf blocks (some e) = fvHdrLen blocks + e.gap.length := rfl
      omega
    rw [ep]
    simp only [hx, if_true, Option.map_some, Option.getD_some]
    simp only [ehoOf] at hH ⊢
    obtain ⟨rname, rehs⟩ := ext_reads _ e.gap e.fvName e.data
      (e.data ++ (ffs (alignUp (fvHdrLen blocks + e.gap.length + 20 + e.data.length) 8 -
            (fvHdrLen blocks + e.gap.length + 20 + e.data.length)) ++
          (serFiles (preLen blocks (some e)) files ++ (ffs free ++ rest)))) (fvHdrLen blocks) hH hn hd
    rw [rname, rehs]
    have hal : align8 (fvHdrLen blocks + e.gap.length + (20 + e.data.length)) = preLen blocks (some e) := by
      rw [align8_eq _ hbound]
      simp only [preLen]
      congr 1
      clear hH hx rname rehs
      omega
    rw [hal]


theorem fv_readBlocks_ffs (zv : Bytes) (v3 : Bool) (attrs rev rsv : Nat) (blocks : List Block) (ext : Option ExtI)
    (files : List FileI) (free : Nat) (rest : Bytes) (w : WfHdr zv v3 attrs rev rsv blocks ext files free) :
    readBlocks ((serFv (.ffs zv v3 attrs rev rsv blocks ext files free) ++ rest).drop 56) = .ok blocks := by
  have e1 : serFv (.ffs zv v3 attrs rev rsv blocks ext files free) ++ rest =
      fvHeader zv (if v3 then guidFFS3 else guidFFS2) (endFiles (preLen blocks ext) files + free) attrs
        (0 - sum16 (fvHeader zv (if v3 then guidFFS3 else guidFFS2) (endFiles (preLen blocks ext) files + free)
          attrs 0 (ehoOf blocks ext) rsv rev blocks)).toNat (ehoOf blocks ext) rsv rev blocks ++
      (preBytes blocks ext ++ (serFiles (preLen blocks ext) files ++ (ffs free ++ rest))) := by
    simp [serFv, fvHeaderCk]
  have heho : ehoOf blocks ext < 65536 := by
    cases ext with
    | none => simp [ehoOf]
    | some e => exact (w.hext e rfl).2.1
  obtain ⟨_, _, _, _, _, _, _, _, _, hd⟩ :=
    fvHeader_reads zv (if v3 then guidFFS3 else guidFFS2) (endFiles (preLen blocks ext) files + free) attrs
      (0 - sum16 (fvHeader zv (if v3 then guidFFS3 else guidFFS2) (endFiles (preLen blocks ext) files + free)
          attrs 0 (ehoOf blocks ext) rsv rev blocks)).toNat (ehoOf blocks ext) rsv rev blocks
      (preBytes blocks ext ++ (serFiles (preLen blocks ext) files ++ (ffs free ++ rest)))
      w.hzv (guid_v3_length v3) (by have := w.hlenlt; omega) w.hattrs w.hhdr (ck_lt _) heho w.hrsv w.hrev
  rw [e1, hd]
  exact readBlocks_encode blocks _ w.hblocks


end Fiano.Uefi.NestedBase
