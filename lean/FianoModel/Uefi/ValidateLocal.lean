/-
  C09b, locality of the parser — part 1: sections and files.

  "Locality" here is what the image-level detection theorem needs and what is true of the code:
  the *walk* up to a node N (the offsets at which the loop of `NewFile` / `NewFirmwareVolume` /
  `NewBIOSRegion` looks for the next node) depends only on the headers of the nodes before N, and those
  headers lie before N's first byte.  So when one byte inside N is altered, the walk over the altered
  bytes — whatever process state it starts from, and whatever the nodes before N now decode to — either
  fails or arrives at N's offset again, where the node-level theorems apply.

  The stronger statement "the *result* up to N is the same" is false for the section loop: a GUID-defined
  section with a known codec decodes `buf[DataOffset:]` up to the end of the *file*, not of the section
  (Parse.lean, (Q)), and reads its 20-byte sub-header from the unclipped buffer — a section can depend on
  bytes of its later siblings.  It is true of files (`parseFile_alter_beyond`, ValidateImage.lean) and of
  volumes (`parseFv_alter_beyond` below): both clip their buffer first.
  Core Lean only.
-/
import FianoModel.Uefi.ValidateImage

namespace Fiano.Uefi
open Fiano Fiano.Uefi.Spec

/-! ### alignment to 4 -/

theorem align4_val (v : Nat) (h : v + 4 < 2 ^ 64) : align4 v = (v + 3) / 4 * 4 := by
  unfold align4 alignGo
  have e1 : (v + 4 + 18446744073709551615) % 18446744073709551616 = v + 3 := by omega
  have e2 : (18446744073709551616 - 4) % 18446744073709551616 = 2 ^ 64 - 2 ^ 2 := by decide
  rw [e1, e2, ArithTie.and_high_mask (v + 3) 2 (by omega) (by omega)]

theorem align4_ge (v : Nat) (h : v + 4 < 2 ^ 64) : v ≤ align4 v := by
  rw [align4_val v h]; omega

theorem align4_mod (v : Nat) (h : v + 4 < 2 ^ 64) : align4 v % 4 = 0 := by
  rw [align4_val v h]; omega

theorem align8_mod (v : Nat) (h : v + 8 < 2 ^ 64) : align8 v % 8 = 0 := by
  rw [v_align8_eq v h]; omega

/-! ### the common section header -/

/-- what a successful `secHeader` says -/
theorem v_secHeader_ok {buf : Bytes} {size3 type ext hs : Nat} (h : secHeader buf = .ok (size3, type, ext, hs)) :
    4 ≤ buf.length ∧ ext ≤ buf.length ∧ size3 = rd buf 0 3 ∧ type = rd buf 3 1 ∧
    (hs = 4 ∨ (hs = 8 ∧ size3 = 0xFFFFFF ∧ knownSection type = true ∧ 8 ≤ buf.length)) ∧
    (knownSection type = true → (hs = 8 ↔ size3 = 0xFFFFFF)) := by
  unfold secHeader at h
  by_cases h4 : buf.length < 4
  · simp [h4] at h
  rw [if_neg h4] at h
  simp only at h
  by_cases hk : knownSection (rd buf 3 1) = true
  · by_cases hF : rd buf 0 3 = 0xFFFFFF
    · by_cases h8 : buf.length < 8
      · simp [hk, hF, h8] at h
      · by_cases hff : rd buf 4 4 = 0xFFFFFFFF
        · simp [hk, hF, h8, hff] at h
        · simp only [hk, hF, h8, hff, if_true, if_false] at h
          split at h
          · simp at h
          · simp only [Except.ok.injEq, Prod.mk.injEq] at h
            obtain ⟨rfl, rfl, rfl, rfl⟩ := h
            rename_i hle
            exact ⟨by omega, by omega, hF.symm, rfl, Or.inr ⟨rfl, rfl, hk, by omega⟩, fun _ => ⟨fun _ => rfl, fun _ => rfl⟩⟩
    · simp only [hk, hF, if_true, if_false] at h
      split at h
      · simp at h
      · simp only [Except.ok.injEq, Prod.mk.injEq] at h
        obtain ⟨rfl, rfl, rfl, rfl⟩ := h
        rename_i hle
        exact ⟨by omega, by omega, rfl, rfl, Or.inl rfl, fun _ => ⟨fun h => by omega, fun h => absurd h hF⟩⟩
  · have hk' : knownSection (rd buf 3 1) = false := by simpa using hk
    simp only [hk', Bool.false_eq_true, if_false] at h
    split at h
    · simp at h
    · simp only [Except.ok.injEq, Prod.mk.injEq] at h
      obtain ⟨rfl, rfl, rfl, rfl⟩ := h
      rename_i hle
      exact ⟨by omega, by omega, rfl, rfl, Or.inl rfl, fun hk'' => absurd hk'' hk⟩

/-- the header is read from the first `hs` bytes and from the length of the buffer: an alteration
    behind them leaves it as it was -/
theorem secHeader_alter_beyond {buf buf' : Bytes} {q size3 type ext hs : Nat} (ha : Alter buf buf' q)
    (h : secHeader buf = .ok (size3, type, ext, hs)) (hq : hs ≤ q) :
    secHeader buf' = .ok (size3, type, ext, hs) := by
  obtain ⟨h4, _, e3, et, hhs, hiff⟩ := v_secHeader_ok h
  rw [← h]
  have el : buf'.length = buf.length := ha.length_eq
  have hs4 : 4 ≤ hs := by rcases hhs with h | h <;> omega
  have e0 : rd buf' 0 3 = rd buf 0 3 := ha.rd_eq (by omega)
  have e1 : rd buf' 3 1 = rd buf 3 1 := ha.rd_eq (by omega)
  unfold secHeader
  rw [el, e0, e1]
  by_cases hk : knownSection (rd buf 3 1) = true
  · by_cases hF : rd buf 0 3 = 0xFFFFFF
    · -- the extended size is read: then `hs = 8`
      have h8 : hs = 8 := (hiff (by rw [et]; exact hk)).mpr (by rw [e3]; exact hF)
      have e4 : rd buf' 4 4 = rd buf 4 4 := ha.rd_eq (by omega)
      rw [e4]
    · simp only [hk, hF, if_true, if_false]
  · have hk' : knownSection (rd buf 3 1) = false := by simpa using hk
    simp only [hk', Bool.false_eq_true, if_false]

/-- `secHeader` and the node `parseSection` returns -/
theorem parseSection_ok_fields {h : Hooks} {fuel : Nat} {buf : Bytes} {idx : Nat} {st st1 : St} {s : Section}
    (hp : parseSection h fuel buf idx st = .ok (s, st1)) :
    ∃ size3 type ext hs, secHeader buf = .ok (size3, type, ext, hs) ∧ s.info.size3 = size3 ∧
      s.info.type = type ∧ s.info.extSize = ext ∧ s.buf = buf.take ext := by
  cases fuel with
  | zero => simp [parseSection] at hp
  | succ fuel =>
    simp only [parseSection] at hp
    cases hsh : secHeader buf with
    | error e => rw [hsh] at hp; simp at hp
    | ok r =>
      obtain ⟨size3, type, ext, hs⟩ := r
      rw [hsh] at hp
      simp only at hp
      refine ⟨size3, type, ext, hs, rfl, ?_⟩
      repeat' split at hp
      all_goals first
        | (simp at hp; done)
        | (simp only [Except.ok.injEq, Prod.mk.injEq] at hp
           obtain ⟨rfl, _⟩ := hp
           exact ⟨rfl, rfl, rfl, rfl⟩)

/-- on altered bytes the section parser — from any state, with any budget — reports the same size when
    the alteration lies behind the section header -/
theorem parseSection_alter_size {h : Hooks} {fuel fuel' : Nat} {buf buf' : Bytes} {idx idx' q : Nat}
    {st st1 st' st2 : St} {s s' : Section}
    (hp : parseSection h fuel buf idx st = .ok (s, st1)) (ha : Alter buf buf' q)
    (hq : (if s.info.size3 = 0xFFFFFF then 8 else 4) ≤ q)
    (hp' : parseSection h fuel' buf' idx' st' = .ok (s', st2)) : s'.info.extSize = s.info.extSize := by
  obtain ⟨size3, type, ext, hs, hsh, e3, _, ee, _⟩ := parseSection_ok_fields hp
  obtain ⟨size3', type', ext', hs', hsh', _, _, ee', _⟩ := parseSection_ok_fields hp'
  obtain ⟨_, _, _, _, hhs, _⟩ := v_secHeader_ok hsh
  have hle : hs ≤ q := by
    rcases hhs with h4 | ⟨h8, hF, _⟩
    · split at hq <;> omega
    · rw [e3, hF] at hq; simp at hq; omega
  rw [secHeader_alter_beyond ha hsh hle] at hsh'
  simp only [Except.ok.injEq, Prod.mk.injEq] at hsh'
  omega

/-! ### the section loop of a file -/

-- (stated as lemmas: letting the kernel unfold a recursive definition whose argument is `align4 (…)` makes
-- it evaluate Go's wrap-around arithmetic on symbolic numbers)
theorem secAfter_nil (o : Nat) : secAfter [] o = o := rfl
theorem secAfter_cons (s : Section) (ss : List Section) (o : Nat) :
    secAfter (s :: ss) o = secAfter ss (align4 (o + s.info.extSize)) := by
  unfold secAfter; rw [List.foldl_cons]

/-- one step of the section walk, inverted: the walk is inside the file -/
theorem parseSections_step {h : Hooks} {fuel : Nat} {fbuf : Bytes} {offset ext idx : Nat} {st st1 : St}
    {ss : List Section} (hp : parseSections h fuel fbuf offset ext idx st = .ok (ss, st1)) (hlt : offset < ext) :
    ∃ fuel0 s st2 ss2, fuel = fuel0 + 1 ∧ parseSection h fuel0 (fbuf.drop offset) idx st = .ok (s, st2) ∧
      s.info.extSize ≠ 0 ∧
      parseSections h fuel0 fbuf (align4 (offset + s.info.extSize)) ext (idx + 1) st2 = .ok (ss2, st1) ∧
      ss = s :: ss2 := by
  cases fuel with
  | zero => simp [parseSections] at hp
  | succ fuel0 =>
    rw [parseSections] at hp
    simp only [hlt, if_true] at hp
    cases hps : parseSection h fuel0 (fbuf.drop offset) idx st with
    | error e => rw [hps] at hp; simp at hp
    | ok r =>
      obtain ⟨s, st2⟩ := r
      rw [hps] at hp
      simp only at hp
      by_cases h0 : s.info.extSize = 0
      · simp [h0] at hp
      · simp only [h0, if_false] at hp
        cases hrest : parseSections h fuel0 fbuf (align4 (offset + s.info.extSize)) ext (idx + 1) st2 with
        | error e => rw [hrest] at hp; simp at hp
        | ok r2 =>
          obtain ⟨ss2, st3⟩ := r2
          rw [hrest] at hp
          simp only [Except.ok.injEq, Prod.mk.injEq] at hp
          obtain ⟨rfl, rfl⟩ := hp
          exact ⟨fuel0, s, st2, ss2, rfl, hps, h0, hrest, rfl⟩

/-- a non-empty result: the walk was inside the file -/
theorem parseSections_cons_lt {h : Hooks} {fuel : Nat} {fbuf : Bytes} {offset ext idx : Nat} {st st1 : St}
    {s : Section} {ss : List Section} (hp : parseSections h fuel fbuf offset ext idx st = .ok (s :: ss, st1)) :
    offset < ext := by
  cases fuel with
  | zero => simp [parseSections] at hp
  | succ fuel0 =>
    rw [parseSections] at hp
    by_cases hlt : offset < ext
    · exact hlt
    · simp [hlt] at hp

theorem parseSections_cons_inv {h : Hooks} {fuel : Nat} {fbuf : Bytes} {offset ext idx : Nat} {st st1 : St}
    {s : Section} {ss : List Section} (hp : parseSections h fuel fbuf offset ext idx st = .ok (s :: ss, st1)) :
    ∃ fuel0 st2, fuel = fuel0 + 1 ∧ offset < ext ∧ parseSection h fuel0 (fbuf.drop offset) idx st = .ok (s, st2) ∧
      s.info.extSize ≠ 0 ∧
      parseSections h fuel0 fbuf (align4 (offset + s.info.extSize)) ext (idx + 1) st2 = .ok (ss, st1) := by
  have hlt := parseSections_cons_lt hp
  obtain ⟨fuel0, s', st2, ss2, rfl, hps, h0, hrest, e⟩ := parseSections_step hp hlt
  simp only [List.cons.injEq] at e
  obtain ⟨rfl, rfl⟩ := e
  exact ⟨fuel0, st2, rfl, hlt, hps, h0, hrest⟩

set_option maxRecDepth 8192 in
/-- where the walk stands when it reaches a section: inside the buffer, on a 4-byte boundary -/
theorem secWalk_bounds {h : Hooks} {fbuf : Bytes} {ext : Nat} {s : Section} {post : List Section} {st1 : St}
    (hbig : fbuf.length + 8 < 2 ^ 64) :
    ∀ (pre : List Section) (fuel offset idx : Nat) (st : St),
      parseSections h fuel fbuf offset ext idx st = .ok (pre ++ s :: post, st1) → offset % 4 = 0 →
      offset ≤ secAfter pre offset ∧ secAfter pre offset % 4 = 0 ∧
      secAfter pre offset + s.info.extSize ≤ fbuf.length ∧ secAfter pre offset < ext
  | [], fuel, offset, idx, st, hp, ho => by
    obtain ⟨fuel0, st2, rfl, hlt, hps, _, _⟩ := parseSections_cons_inv hp
    obtain ⟨_, _, ext', _, hsh, _, _, ee, _⟩ := parseSection_ok_fields hps
    obtain ⟨h4, hle, _⟩ := v_secHeader_ok hsh
    rw [List.length_drop] at hle h4
    simp only [secAfter_nil, secAfter_cons]
    omega
  | g :: pre, fuel, offset, idx, st, hp, ho => by
    obtain ⟨fuel0, st2, rfl, hlt, hps, _, hrest⟩ := parseSections_cons_inv hp
    obtain ⟨_, _, ext', _, hsh, _, _, ee, _⟩ := parseSection_ok_fields hps
    obtain ⟨h4, hle, _⟩ := v_secHeader_ok hsh
    rw [List.length_drop] at hle h4
    have hb : offset + g.info.extSize + 4 < 2 ^ 64 := by omega
    have hge := align4_ge _ hb
    have hmod := align4_mod _ hb
    have := secWalk_bounds hbig pre fuel0 _ (idx + 1) st2 hrest hmod
    simp only [secAfter_nil, secAfter_cons]
    omega

theorem vSections_cons_nil {g : Section} {gs : List Section} (h : vSections (g :: gs) = []) :
    validateSecNode g.info g.buf = [] ∧ vSection g = [] ∧ vSections gs = [] := by
  cases g with
  | mk i b e =>
    simp only [vSections, List.append_eq_nil_iff] at h
    have h1 := h.1
    simp only [vSection, List.append_eq_nil_iff] at h1
    exact ⟨h1.1, h.1, h.2⟩

theorem vSections_cons_ne {g : Section} {gs : List Section} (h : vSection g ≠ [] ∨ vSections gs ≠ []) :
    vSections (g :: gs) ≠ [] := by
  intro e
  have := vSections_cons_nil e
  rcases h with h | h
  · exact h this.2.1
  · exact h this.2.2

/-- a section that passes its check and says "extended size" has room for the 8-byte header -/
theorem validateSecNode_hdr {i : SecInfo} {buf : Bytes} (h : validateSecNode i buf = [])
    (hl : buf.length = i.extSize) (h0 : i.extSize ≠ 0) : (if i.size3 = 0xFFFFFF then 8 else 4) ≤ i.extSize ∨
      (i.size3 ≠ 0xFFFFFF ∧ 1 ≤ i.extSize) := by
  by_cases hF : i.size3 = 0xFFFFFF
  · left
    simp only [validateSecNode, hF, if_true] at h
    split at h
    · simp at h
    · rename_i h8
      simp only [hF, if_true]
      rw [hl] at h8
      omega
  · right; exact ⟨hF, by omega⟩

set_option maxRecDepth 8192 in
/-- **section walk**: the walk over `fbuf` found `pre ++ s :: post` and all of them pass; one byte inside
    `s` is altered; if every section the parser can report at `s`'s offset of the altered bytes fails, so
    does the list the walk over the altered bytes reports (whenever it succeeds) — from any process
    state, with any budget. -/
theorem parseSections_detect (h : Hooks) {fbuf fbuf' : Bytes} {ext : Nat} {s : Section} {post : List Section}
    {st1 : St} {q : Nat} (hbig : fbuf.length + 8 < 2 ^ 64) :
    ∀ (pre : List Section) (fuel offset idx : Nat) (st : St),
      parseSections h fuel fbuf offset ext idx st = .ok (pre ++ s :: post, st1) →
      vSections (pre ++ s :: post) = [] → offset % 4 = 0 →
      Alter fbuf fbuf' (secAfter pre offset + q) →
      (∀ fuel' idx' st' s' st2,
        parseSection h fuel' (fbuf'.drop (secAfter pre offset)) idx' st' = .ok (s', st2) → vSection s' ≠ []) →
      ∀ fuel' idx' st' ss' st2, parseSections h fuel' fbuf' offset ext idx' st' = .ok (ss', st2) →
        vSections ss' ≠ [] := by
  intro pre
  induction pre with
  | nil =>
    intro fuel offset idx st hp hv ho ha inner fuel' idx' st' ss' st2 hp'
    simp only [secAfter_nil, List.nil_append] at hp ha inner
    have hlt := parseSections_cons_lt hp
    obtain ⟨fuel0', s', st3, ss2, rfl, hps', _, _, rfl⟩ := parseSections_step hp' hlt
    exact vSections_cons_ne (Or.inl (inner _ _ _ _ _ hps'))
  | cons g pre ihp =>
    intro fuel offset idx st hp hv ho ha inner fuel' idx' st' ss' st2 hp'
    simp only [secAfter_cons, List.cons_append] at hp hv ha inner
    obtain ⟨fuel0, st2o, rfl, hlt, hps, hne0, hrest⟩ := parseSections_cons_inv hp
    obtain ⟨hvg, _, hvrest⟩ := vSections_cons_nil hv
    obtain ⟨_, _, extg, _, hsh, _, _, ee, eb⟩ := parseSection_ok_fields hps
    obtain ⟨h4, hle, _⟩ := v_secHeader_ok hsh
    rw [List.length_drop] at hle h4
    have hb : offset + g.info.extSize + 4 < 2 ^ 64 := by omega
    have hge := align4_ge _ hb
    have hmod := align4_mod _ hb
    have hal : offset + 4 ≤ align4 (offset + g.info.extSize) ∨ g.info.extSize = 0 := by
      rw [align4_val _ hb]; omega
    obtain ⟨hb1, _, _, _⟩ := secWalk_bounds hbig pre fuel0 _ (idx + 1) st2o hrest hmod
    have hglen : g.buf.length = g.info.extSize := by
      rw [eb, List.length_take, List.length_drop, ee]; omega
    -- the header of `g` lies before the altered byte
    have hhdr : (if g.info.size3 = 0xFFFFFF then 8 else 4) ≤
        secAfter pre (align4 (offset + g.info.extSize)) + q - offset := by
      rcases validateSecNode_hdr hvg hglen hne0 with h8 | ⟨hF, _⟩
      · omega
      · simp only [hF, if_false]
        rcases hal with hal | hal
        · omega
        · exact absurd hal hne0
    have ha' : Alter (fbuf.drop offset) (fbuf'.drop offset)
        (secAfter pre (align4 (offset + g.info.extSize)) + q - offset) := ha.drop_le (by omega)
    obtain ⟨fuel0', g', st3, ss2, rfl, hps', _, hrest', rfl⟩ := parseSections_step hp' hlt
    have hsz := parseSection_alter_size hps ha' hhdr hps'
    rw [hsz] at hrest'
    exact vSections_cons_ne (Or.inr (ihp fuel0 _ (idx + 1) st2o hrest hvrest hmod ha inner _ _ _ _ _ hrest'))

/-! ### the loop over a decoded payload (`parseEncap`) is the section loop -/

/-- the loop over the decoded payload of a GUID-defined section is the section loop of a file, run over
    the whole payload (since fix 9e390db both refuse a zero-size section with an error) -/
theorem parseEncap_eq_sections (h : Hooks) : ∀ (fuel : Nat) (enc : Bytes) (offset idx : Nat) (st : St),
    parseEncap h fuel enc offset idx st =
      match parseSections h fuel enc offset enc.length idx st with
      | .error e => .error e
      | .ok (ss, st') => .ok (ss.map Node.sec, st')
  | 0, _, _, _, _ => by simp [parseEncap, parseSections]
  | fuel+1, enc, offset, idx, st => by
    rw [parseEncap, parseSections]
    by_cases hlt : offset < enc.length
    · simp only [hlt, if_true]
      cases hps : parseSection h fuel (enc.drop offset) idx st with
      | error e => rfl
      | ok r =>
        obtain ⟨s, st'⟩ := r
        simp only
        by_cases h0 : s.info.extSize = 0
        · simp only [h0, if_true]
        · simp only [h0, if_false]
          rw [parseEncap_eq_sections h fuel enc _ (idx + 1) st']
          cases parseSections h fuel enc (align4 (offset + s.info.extSize)) enc.length (idx + 1) st' with
          | error e => rfl
          | ok r2 => rfl
    · simp only [hlt, if_false, List.map_nil]

theorem map_sec_inj : ∀ (a b : List Section), a.map Node.sec = b.map Node.sec → a = b
  | [], [], _ => rfl
  | [], _ :: _, h => by simp at h
  | _ :: _, [], h => by simp at h
  | x :: a, y :: b, h => by
    simp only [List.map_cons, List.cons.injEq, Node.sec.injEq] at h
    rw [h.1, map_sec_inj a b h.2]

theorem vNodes_map_sec : ∀ (ss : List Section), vNodes (ss.map Node.sec) = vSections ss
  | [] => by simp [vNodes, vSections]
  | s :: ss => by
    simp only [List.map_cons, vNodes, vSections, vNodes_map_sec ss]

/-- **payload walk**: the same locality for the sections decoded from a GUID-defined section — one byte
    of the *decoded* payload inside its section `s` is altered.  (Not used for the image-level theorem: the
    decoded payload is not a window of the image; what an altered image byte does to it is up to the codec.) -/
theorem parseEncap_detect (h : Hooks) {enc enc' : Bytes} {s : Section} {pre post : List Section}
    {st st1 : St} {fuel offset idx q : Nat} (hbig : enc.length + 8 < 2 ^ 64)
    (hp : parseEncap h fuel enc offset idx st = .ok ((pre ++ s :: post).map Node.sec, st1))
    (hv : vNodes ((pre ++ s :: post).map Node.sec) = []) (ho : offset % 4 = 0)
    (ha : Alter enc enc' (secAfter pre offset + q))
    (inner : ∀ fuel' idx' st' s' st2,
      parseSection h fuel' (enc'.drop (secAfter pre offset)) idx' st' = .ok (s', st2) → vSection s' ≠ []) :
    ∀ fuel' idx' st' ns' st2, parseEncap h fuel' enc' offset idx' st' = .ok (ns', st2) → vNodes ns' ≠ [] := by
  intro fuel' idx' st' ns' st2 hp'
  rw [parseEncap_eq_sections] at hp hp'
  rw [vNodes_map_sec] at hv
  cases hps : parseSections h fuel enc offset enc.length idx st with
  | error e => rw [hps] at hp; simp at hp
  | ok r =>
    obtain ⟨ss, st3⟩ := r
    rw [hps] at hp
    simp only [Except.ok.injEq, Prod.mk.injEq] at hp
    obtain ⟨hss, rfl⟩ := hp
    have hinj : ss = pre ++ s :: post := map_sec_inj _ _ hss
    subst hinj
    cases hps' : parseSections h fuel' enc' offset enc'.length idx' st' with
    | error e => rw [hps'] at hp'; simp at hp'
    | ok r' =>
      obtain ⟨ss', st4⟩ := r'
      rw [hps'] at hp'
      simp only [Except.ok.injEq, Prod.mk.injEq] at hp'
      obtain ⟨rfl, rfl⟩ := hp'
      rw [vNodes_map_sec]
      rw [ha.length_eq] at hps'
      exact parseSections_detect h hbig pre fuel offset idx st hps hv ho ha inner _ _ _ _ _ hps'

/-! ### a volume-image section -/

/-- `parseSection` on a firmware-volume-image section (type 0x17), inverted -/
theorem parseSection_fvimg_inv {h : Hooks} {fuel : Nat} {buf : Bytes} {idx : Nat} {st st1 : St} {s : Section}
    (hp : parseSection h fuel buf idx st = .ok (s, st1)) (ht : s.info.type = 0x17) :
    ∃ fuel0 size3 ext w, fuel = fuel0 + 1 ∧ secHeader buf = .ok (size3, 0x17, ext, fvimgHdrSize s.info) ∧
      s.info.size3 = size3 ∧ s.info.extSize = ext ∧ fvimgHdrSize s.info < (buf.take ext).length ∧
      parseFv h fuel0 ((buf.take ext).drop (fvimgHdrSize s.info)) 0 true st = .ok (w, st1) ∧
      s.encap = [.fv w] := by
  obtain ⟨size3, type, ext, hs, hsh, e3, et, ee, _⟩ := parseSection_ok_fields hp
  rw [ht] at et
  subst et
  obtain ⟨_, _, _, _, _, hiff⟩ := v_secHeader_ok hsh
  have hhs : hs = fvimgHdrSize s.info := by
    unfold fvimgHdrSize
    rw [e3]
    have := hiff (by decide)
    by_cases hF : size3 = 0xFFFFFF
    · simp only [hF, if_true]; exact this.mpr hF
    · simp only [hF, if_false]
      rcases (v_secHeader_ok hsh).2.2.2.2.1 with h4 | h8
      · exact h4
      · exact absurd h8.2.1 hF
  subst hhs
  cases fuel with
  | zero => simp [parseSection] at hp
  | succ fuel0 =>
    simp only [parseSection, hsh] at hp
    simp only [show ¬ ((0x17 : Nat) = 0x02) by decide, show ¬ ((0x17 : Nat) = 0x15) by decide,
      show ¬ ((0x17 : Nat) = 0x14) by decide, if_false, if_true] at hp
    split at hp
    · simp at hp
    · rename_i hlen
      cases hpf : parseFv h fuel0 ((buf.take ext).drop (fvimgHdrSize s.info)) 0 true st with
      | error e => rw [hpf] at hp; simp at hp
      | ok r =>
        obtain ⟨w, st2⟩ := r
        rw [hpf] at hp
        simp only [Except.ok.injEq, Prod.mk.injEq] at hp
        obtain ⟨hs', rfl⟩ := hp
        refine ⟨fuel0, size3, ext, w, rfl, hsh, e3, ee, by omega, hpf, ?_⟩
        rw [← hs']; rfl

theorem vSection_fv_ne {i : SecInfo} {b : Bytes} {w : Fv} (hw : vFv w ≠ []) : vSection (.mk i b [.fv w]) ≠ [] := by
  intro e
  simp only [vSection, vNodes, List.append_eq_nil_iff] at e
  exact hw e.2.1

theorem vSection_fv_nil {s : Section} {w : Fv} (he : s.encap = [.fv w]) (hv : vSection s = []) : vFv w = [] := by
  cases s with
  | mk i b e =>
    simp only [Section.encap] at he
    subst he
    simp only [vSection, vNodes, List.append_eq_nil_iff] at hv
    exact hv.2.1

/-- **volume-image section**: one byte of the volume inside the section is altered; if every volume the
    parser can report on the altered payload fails, so does every section it can report on the altered
    section bytes. -/
theorem parseSection_fvimg_detect {h : Hooks} {fuel : Nat} {buf buf' : Bytes} {idx : Nat} {st st1 : St}
    {s : Section} {q : Nat}
    (hp : parseSection h fuel buf idx st = .ok (s, st1)) (ht : s.info.type = 0x17)
    (ha : Alter buf buf' (fvimgHdrSize s.info + q))
    (inner : ∀ fuel' off' rs' st' w' st2,
      parseFv h fuel' ((buf'.take s.info.extSize).drop (fvimgHdrSize s.info)) off' rs' st' = .ok (w', st2) → vFv w' ≠ []) :
    ∀ fuel' idx' st' s' st2, parseSection h fuel' buf' idx' st' = .ok (s', st2) → vSection s' ≠ [] := by
  intro fuel' idx' st' s' st2 hp'
  obtain ⟨_, size3, ext, _, _, hsh, e3, ee, _, _, _⟩ := parseSection_fvimg_inv hp ht
  have hsh' := secHeader_alter_beyond ha hsh (by omega)
  obtain ⟨size3', type', ext', hs', hsh2, e3', et', ee', _⟩ := parseSection_ok_fields hp'
  rw [hsh'] at hsh2
  simp only [Except.ok.injEq, Prod.mk.injEq] at hsh2
  obtain ⟨rfl, rfl, rfl, rfl⟩ := hsh2
  have hsz : fvimgHdrSize s'.info = fvimgHdrSize s.info := by
    unfold fvimgHdrSize; rw [e3', e3]
  obtain ⟨_, size3'', ext'', w', _, hsh3, _, ee'', _, hpf', henc'⟩ := parseSection_fvimg_inv hp' et'
  rw [hsz, ← ee'', ee', ← ee] at hpf'
  have hw := inner _ _ _ _ _ _ hpf'
  cases s' with
  | mk i' b' e' =>
    simp only [Section.encap] at henc'
    subst henc'
    exact vSection_fv_ne hw

/-! ### files -/

/-- `fileHeader` reads the length of the buffer, bytes 0–23 and, when the size field says "extended",
    bytes 24–31: an alteration behind them leaves it as it was -/
theorem fileHeader_alter_beyond {buf buf' : Bytes} {q : Nat} (ha : Alter buf buf' q) (h24 : 24 ≤ q)
    (h32 : rd buf 20 3 = 0xFFFFFF → 32 ≤ q) : fileHeader buf' = fileHeader buf := by
  have el : buf'.length = buf.length := ha.length_eq
  have e0 : slice buf' 0 16 = slice buf 0 16 := ha.slice_eq (by omega)
  have e16 : rd buf' 16 1 = rd buf 16 1 := ha.rd_eq (by omega)
  have e17 : rd buf' 17 1 = rd buf 17 1 := ha.rd_eq (by omega)
  have e18 : rd buf' 18 1 = rd buf 18 1 := ha.rd_eq (by omega)
  have e19 : rd buf' 19 1 = rd buf 19 1 := ha.rd_eq (by omega)
  have e20 : rd buf' 20 3 = rd buf 20 3 := ha.rd_eq (by omega)
  have e23 : rd buf' 23 1 = rd buf 23 1 := ha.rd_eq (by omega)
  unfold fileHeader
  by_cases h3 : rd buf 20 3 = 0xFFFFFF
  · have := h32 h3
    have e24 : rd buf' 24 8 = rd buf 24 8 := ha.rd_eq (by omega)
    have e24t : buf'.take 24 = buf.take 24 := ha.take_le (by omega)
    simp only [el, e0, e16, e17, e18, e19, e20, e23, e24, e24t]
  · simp only [el, e0, e16, e17, e18, e19, e20, e23, h3, if_false]

theorem fileHeader_dataOffset {buf : Bytes} {i : FileInfo} (hf : fileHeader buf = .ok (some i)) :
    i.dataOffset = (if rd buf 20 3 = 0xFFFFFF then 32 else 24) ∧ i.nvar = none ∧ i.type = rd buf 18 1 := by
  unfold fileHeader at hf
  by_cases h24 : buf.length < 24
  · simp [h24] at hf
  rw [if_neg h24] at hf
  by_cases h3 : rd buf 20 3 = 0xFFFFFF
  · by_cases h32 : buf.length < 32
    · simp only [h3, h32, if_true] at hf
      by_cases he : (buf.take 24).all (· == 0xFF) = true
      · simp [he] at hf
      · simp [he] at hf
    · by_cases hff : rd buf 24 8 = 0xFFFFFFFFFFFFFFFF
      · simp [h3, h32, hff] at hf
      · simp only [h3, h32, hff, if_true, if_false] at hf
        split at hf
        · simp at hf
        · simp only [Except.ok.injEq, Option.some.injEq] at hf
          subst hf
          exact ⟨by rw [if_pos h3], rfl, rfl⟩
  · simp only [h3, if_false] at hf
    split at hf
    · simp at hf
    · simp only [Except.ok.injEq, Option.some.injEq] at hf
      subst hf
      exact ⟨by rw [if_neg h3], rfl, rfl⟩

/-- `parseFile` and the header it started from, whatever it reports -/
theorem parseFile_header {h : Hooks} {fuel : Nat} {buf : Bytes} {st st1 : St} {fo : Option File}
    (hp : parseFile h fuel buf st = .ok (fo, st1)) :
    ∃ oi, fileHeader buf = .ok oi ∧ (oi = none ↔ fo = none) ∧
      ∀ f i, fo = some f → oi = some i → f.info.extSize = i.extSize := by
  cases fo with
  | none =>
    cases fuel with
    | zero => simp [parseFile] at hp
    | succ fuel =>
      simp only [parseFile] at hp
      cases hfh : fileHeader buf with
      | error e => rw [hfh] at hp; simp at hp
      | ok o =>
        cases o with
        | none => exact ⟨none, rfl, by simp, by simp⟩
        | some i =>
          rw [hfh] at hp
          simp only at hp
          split at hp
          · simp at hp
          · split at hp
            · simp at hp
            · split at hp <;> simp at hp
  | some f =>
    obtain ⟨i, hfh, _, he, _⟩ := parseFile_some_inv hp
    refine ⟨some i, hfh, by simp, ?_⟩
    intro f' i' e1 e2
    simp only [Option.some.injEq] at e1 e2
    subst e1 e2
    exact he

/-- `parseFile` on a file that has sections, inverted -/
theorem parseFile_secs_inv {h : Hooks} {fuel : Nat} {buf : Bytes} {st st1 : St} {f : File}
    (hp : parseFile h fuel buf st = .ok (some f, st1)) (hne : f.secs ≠ []) :
    ∃ fuel0 i, fuel = fuel0 + 1 ∧ fileHeader buf = .ok (some i) ∧ supportedFile i.type = true ∧
      f.info = { i with nvar := none } ∧ f.buf = buf.take i.extSize ∧
      parseSections h fuel0 (buf.take i.extSize) i.dataOffset i.extSize 0 st = .ok (f.secs, st1) := by
  cases fuel with
  | zero => simp [parseFile] at hp
  | succ fuel0 =>
    simp only [parseFile] at hp
    cases hfh : fileHeader buf with
    | error e => rw [hfh] at hp; simp at hp
    | ok o =>
      rw [hfh] at hp
      cases o with
      | none => simp at hp
      | some i =>
        simp only at hp
        refine ⟨fuel0, i, rfl, rfl, ?_⟩
        by_cases hsup : supportedFile i.type = true
        · have ht1 : ¬ (i.type = 1 ∧ i.guid = guidNVAR) := by
            intro hc
            rw [hc.1] at hsup
            exact absurd hsup (by decide)
          simp only [ht1, if_false, hsup, not_true_eq_false] at hp
          cases hps : parseSections h fuel0 (buf.take i.extSize) i.dataOffset i.extSize 0 st with
          | error e => rw [hps] at hp; simp at hp
          | ok r =>
            obtain ⟨ss, st2⟩ := r
            rw [hps] at hp
            simp only [Except.ok.injEq, Prod.mk.injEq, Option.some.injEq] at hp
            obtain ⟨rfl, rfl⟩ := hp
            exact ⟨hsup, rfl, rfl, rfl⟩
        · exfalso
          split at hp
          · simp at hp
          · rename_i nvs _
            simp only [hsup, Bool.false_eq_true, not_false_eq_true, if_true] at hp
            simp only [Except.ok.injEq, Prod.mk.injEq, Option.some.injEq] at hp
            obtain ⟨rfl, _⟩ := hp
            exact hne rfl

/-- `parseFile` on a buffer whose header announces a sectioned file, run forward -/
theorem parseFile_secs_fwd {h : Hooks} {fuel : Nat} {buf : Bytes} {st st1 : St} {fo : Option File} {i : FileInfo}
    (hfh : fileHeader buf = .ok (some i)) (hsup : supportedFile i.type = true)
    (hp : parseFile h fuel buf st = .ok (fo, st1)) :
    ∃ fuel0 ss, fuel = fuel0 + 1 ∧
      parseSections h fuel0 (buf.take i.extSize) i.dataOffset i.extSize 0 st = .ok (ss, st1) ∧
      fo = some (.mk { i with nvar := none } (buf.take i.extSize) ss) := by
  cases fuel with
  | zero => simp [parseFile] at hp
  | succ fuel0 =>
    simp only [parseFile, hfh] at hp
    have ht1 : ¬ (i.type = 1 ∧ i.guid = guidNVAR) := by
      intro hc
      rw [hc.1] at hsup
      exact absurd hsup (by decide)
    simp only [ht1, if_false, hsup, not_true_eq_false] at hp
    cases hps : parseSections h fuel0 (buf.take i.extSize) i.dataOffset i.extSize 0 st with
    | error e => rw [hps] at hp; simp at hp
    | ok r =>
      obtain ⟨ss, st2⟩ := r
      rw [hps] at hp
      simp only [Except.ok.injEq, Prod.mk.injEq] at hp
      obtain ⟨rfl, rfl⟩ := hp
      exact ⟨fuel0, ss, rfl, hps, rfl⟩

theorem vFile_nil {f : File} (h : vFile f = []) :
    validateFileNode f.info f.buf = [] ∧ (f.info.nvar = none → vSections f.secs = []) := by
  cases f with
  | mk i b ss =>
    simp only [vFile, List.append_eq_nil_iff] at h
    refine ⟨h.1, ?_⟩
    intro hn
    simp only [File.info] at hn
    have := h.2
    simp only [hn, Option.isSome_none, Bool.false_eq_true, if_false] at this
    exact this

set_option maxRecDepth 8192 in
/-- **file, an altered byte inside one of its sections**: `f` was parsed from `buf` and passes; one byte
    inside its section `s` is altered; if every section the parser can report at `s`'s offset of the altered
    file fails, then the parser still reports a file on the altered bytes (never free space), and it fails. -/
theorem parseFile_sections_detect (h : Hooks) {fuel : Nat} {buf buf' : Bytes} {st st1 : St} {f : File}
    {pre post : List Section} {s : Section} {q : Nat}
    (hp : parseFile h fuel buf st = .ok (some f, st1)) (hv : vFile f = [])
    (hsecs : f.secs = pre ++ s :: post)
    (ha : Alter buf buf' (secAfter pre f.info.dataOffset + q)) (hq : q < s.info.extSize)
    (hbig : buf.length + 8 < 2 ^ 64)
    (inner : ∀ fuel' idx' st' s' st2,
      parseSection h fuel' ((buf'.take f.info.extSize).drop (secAfter pre f.info.dataOffset)) idx' st' = .ok (s', st2) →
        vSection s' ≠ []) :
    ∀ fuel' st' fo st2, parseFile h fuel' buf' st' = .ok (fo, st2) → ∃ f', fo = some f' ∧ vFile f' ≠ [] := by
  intro fuel' st' fo st2 hp'
  have hne : f.secs ≠ [] := by rw [hsecs]; simp
  obtain ⟨fuel0, i, rfl, hfh, hsup, hinfo, hbuf, hps⟩ := parseFile_secs_inv hp hne
  obtain ⟨hdo, _, _⟩ := fileHeader_dataOffset hfh
  obtain ⟨_, _, hie, hle, _⟩ := fileHeader_some hfh
  have edo : f.info.dataOffset = i.dataOffset := by rw [hinfo]
  have eext : f.info.extSize = i.extSize := by rw [hinfo]
  have envar : f.info.nvar = none := by rw [hinfo]
  rw [edo] at ha inner
  rw [eext] at inner
  rw [hsecs] at hps
  have hfl : (buf.take i.extSize).length = i.extSize := by rw [List.length_take]; omega
  have hbig2 : (buf.take i.extSize).length + 8 < 2 ^ 64 := by rw [hfl]; omega
  have hdo4 : i.dataOffset % 4 = 0 := by rw [hdo]; split <;> rfl
  obtain ⟨hge, _, hin, _⟩ := secWalk_bounds hbig2 pre fuel0 _ 0 st hps hdo4
  rw [hfl] at hin
  -- the header is read in front of the section area
  have hfh' : fileHeader buf' = .ok (some i) := by
    have h24' : 24 ≤ i.dataOffset := by rw [hdo]; split <;> omega
    have h32' : rd buf 20 3 = 0xFFFFFF → 32 ≤ i.dataOffset := by
      intro h3; rw [hdo]; simp only [h3, if_true]; omega
    rw [fileHeader_alter_beyond ha (by omega) (by intro h3; have := h32' h3; omega)]
    exact hfh
  obtain ⟨fuel0', ss', rfl, hps', rfl⟩ := parseFile_secs_fwd hfh' hsup hp'
  refine ⟨_, rfl, ?_⟩
  have ha2 : Alter (buf.take i.extSize) (buf'.take i.extSize) (secAfter pre i.dataOffset + q) :=
    ha.take_gt (by omega)
  have hvs := (vFile_nil hv).2 envar
  rw [hsecs] at hvs
  have := parseSections_detect h hbig2 pre fuel0 _ 0 st hps hvs hdo4 ha2 inner _ _ _ _ _ hps'
  intro e
  simp only [vFile, List.append_eq_nil_iff, Option.isSome_none, Bool.false_eq_true, if_false] at e
  exact this e.2

/-! ### the file loop of a volume -/

/-- one step of the file walk, run forward: the walk is inside the volume -/
theorem parseFiles_step {h : Hooks} {fuel : Nat} {data : Bytes} {offset lh length : Nat} {st st1 : St}
    {fs : List File} {free : Nat}
    (hp : parseFiles h fuel data offset lh length st = .ok (fs, free, st1)) (hlt : offset ≤ lh) :
    ∃ fuel0 fo st2, fuel = fuel0 + 1 ∧ align8 offset < data.length ∧
      parseFile h fuel0 (data.drop (align8 offset)) st = .ok (fo, st2) ∧
      (fo = none → fs = []) ∧
      ∀ f, fo = some f → f.info.extSize ≠ 0 ∧
        ∃ fs2, parseFiles h fuel0 data (align8 offset + f.info.extSize) lh length st2 = .ok (fs2, free, st1) ∧
          fs = f :: fs2 := by
  cases fuel with
  | zero => simp [parseFiles] at hp
  | succ fuel0 =>
    rw [parseFiles] at hp
    simp only [hlt, if_true] at hp
    by_cases h2 : data.length ≤ align8 offset
    · simp [h2] at hp
    · simp only [h2, if_false] at hp
      cases hpf : parseFile h fuel0 (data.drop (align8 offset)) st with
      | error e => rw [hpf] at hp; simp at hp
      | ok r =>
        obtain ⟨fo, st2⟩ := r
        rw [hpf] at hp
        refine ⟨fuel0, fo, st2, rfl, by omega, hpf, ?_, ?_⟩
        · intro e
          subst e
          simp only [Except.ok.injEq, Prod.mk.injEq] at hp
          exact hp.1.symm
        · intro g e
          subst e
          simp only at hp
          by_cases h3 : g.info.extSize = 0
          · simp [h3] at hp
          · simp only [h3, if_false] at hp
            cases hrest : parseFiles h fuel0 data (align8 offset + g.info.extSize) lh length st2 with
            | error e => rw [hrest] at hp; simp at hp
            | ok r2 =>
              obtain ⟨fs2, free2, st3⟩ := r2
              rw [hrest] at hp
              simp only [Except.ok.injEq, Prod.mk.injEq] at hp
              obtain ⟨rfl, rfl, rfl⟩ := hp
              exact ⟨h3, fs2, rfl, rfl⟩

theorem vFiles_cons_nil' {g : File} {gs : List File} (h : vFiles (g :: gs) = []) : vFile g = [] ∧ vFiles gs = [] := by
  simp only [vFiles, List.append_eq_nil_iff] at h
  exact h

theorem vFiles_cons_ne' {g : File} {gs : List File} (h : vFile g ≠ [] ∨ vFiles gs ≠ []) : vFiles (g :: gs) ≠ [] := by
  intro e
  have := vFiles_cons_nil' e
  rcases h with h | h
  · exact h this.1
  · exact h this.2

set_option maxRecDepth 8192 in
/-- **file walk**: the walk over `data` found `pre ++ f :: post` and all of them pass; one byte inside `f`
    is altered; if at `f`'s offset of the altered bytes the parser can only report a file that fails, so
    does the list the walk over the altered bytes reports (whenever it succeeds) — from any process
    state, with any budget.  (`parseFiles_alter` of ValidateImage.lean is the instance "a protected byte
    of `f` itself, same state".) -/
theorem parseFiles_detect (h : Hooks) {data data' : Bytes} {lh length : Nat} {f : File} {post : List File}
    {free q : Nat} {st1 : St} (hbig : data.length + 8 < 2 ^ 64) :
    ∀ (pre : List File) (fuel offset : Nat) (st : St),
      parseFiles h fuel data offset lh length st = .ok (pre ++ f :: post, free, st1) →
      vFiles (pre ++ f :: post) = [] → offset + 8 < 2 ^ 64 →
      Alter data data' (align8 (startAfter pre offset) + q) →
      (∀ fuel' st' fo st2, parseFile h fuel' (data'.drop (align8 (startAfter pre offset))) st' = .ok (fo, st2) →
        ∃ f', fo = some f' ∧ vFile f' ≠ []) →
      ∀ fuel' length' st' fs' free' st2, parseFiles h fuel' data' offset lh length' st' = .ok (fs', free', st2) →
        vFiles fs' ≠ [] := by
  intro pre
  induction pre with
  | nil =>
    intro fuel offset st hp hv ho ha inner fuel' length' st' fs' free' st2 hp'
    simp only [startAfter, List.nil_append] at hp ha inner
    obtain ⟨_, _, _, hlt, _, _, _, _⟩ := parseFiles_cons_inv hp
    obtain ⟨fuel0', fo, st3, rfl, _, hpf', _, hsome⟩ := parseFiles_step hp' hlt
    obtain ⟨f', rfl, hbad⟩ := inner _ _ _ _ hpf'
    obtain ⟨_, fs2, _, rfl⟩ := hsome f' rfl
    exact vFiles_cons_ne' (Or.inl hbad)
  | cons g pre ihp =>
    intro fuel offset st hp hv ho ha inner fuel' length' st' fs' free' st2 hp'
    simp only [startAfter, List.cons_append] at hp hv ha inner
    obtain ⟨fuel0, st2o, rfl, hlt, hdl, hpf, hne0, hrest⟩ := parseFiles_cons_inv hp
    obtain ⟨hvg, hvrest⟩ := vFiles_cons_nil hv
    obtain ⟨_, _, hle, hgbuf, hext, hs3, _⟩ := parseFile_ok_fields _ _ _ _ _ _ hpf
    rw [List.length_drop] at hle
    have hge := v_align8_ge offset ho
    have hnext : align8 offset + g.info.extSize + 8 < 2 ^ 64 := by omega
    obtain ⟨hb1, hb2, _⟩ := walk_bounds hbig pre fuel0 _ st2o hrest hnext
    have hge2 := v_align8_ge _ hb2
    have okg := (validateFileNode_nil_iff _ _).mp hvg
    have hglen : g.buf.length = g.info.extSize := okg.size
    have ha' : Alter (data.drop (align8 offset)) (data'.drop (align8 offset))
        (align8 (startAfter pre (align8 offset + g.info.extSize)) + q - align8 offset) :=
      ha.drop_le (by omega)
    -- the header of `g` lies before the altered byte: the parser sees the same header, hence the same size
    have hfh' : fileHeader (data'.drop (align8 offset)) = fileHeader (data.drop (align8 offset)) :=
      fileHeader_alter_beyond ha' (by have := okg.len; omega)
        (by intro h3; have := okg.extlen (by rw [hs3]; exact h3); omega)
    obtain ⟨fuel0', fo, st3, rfl, _, hpf', hnone, hsome⟩ := parseFiles_step hp' hlt
    obtain ⟨oi, hoi, hiff, hsz⟩ := parseFile_header hpf'
    obtain ⟨i, hi, _, hie, _⟩ := parseFile_some_inv hpf
    rw [hfh', hi] at hoi
    simp only [Except.ok.injEq] at hoi
    subst hoi
    cases fo with
    | none => exact absurd (hiff.mpr rfl) (by simp)
    | some g' =>
      have hsz' : g'.info.extSize = g.info.extSize := by rw [hsz g' i rfl rfl, hie]
      obtain ⟨_, fs2, hrest', rfl⟩ := hsome g' rfl
      rw [hsz'] at hrest'
      exact vFiles_cons_ne' (Or.inr (ihp fuel0 _ st2o hrest hvrest hnext ha inner _ _ _ _ _ _ hrest'))

end Fiano.Uefi

