/-
  C09a for edited trees (follow-up wp-c09c): non-vacuity on a **flash image** by kernel evaluation.  The 8 KiB
  image `deepFlash` of ValidateSample.lean (descriptor; BIOS region with two volumes, the second holding a
  volume nested in a volume-image section), edited twice: a RAW file of the first volume is removed, then the
  only file of the *nested* volume is replaced by a pad file (the nested volume, the section around it, the
  holder file with its checksums and the outer volume are all rebuilt).
-/
import FianoModel.Uefi.ValidateEditSampleFlashA
import FianoModel.Uefi.ValidateEditSampleFlashB

namespace Fiano.Uefi.C09
open Fiano Fiano.Uefi

/-- **the hypotheses of `ve_validate_saved` are jointly satisfiable on a flash image with a nested volume** -/
theorem ve_flash_validate_saved : ∃ r, utk Hooks.none veFlash veFlashSpecs = .ok r ∧ r.outs.length = 2 ∧
    ∀ b ∈ r.outs, b ≠ veFlash ∧ reparseB Hooks.none b = true ∧ parseValidate Hooks.none b = .ok [] := by
  have hs := ve_flash_run
  match hu : utk Hooks.none veFlash veFlashSpecs with
  | .error _ => rw [hu] at hs; cases hs
  | .ok r =>
    rw [hu] at hs
    simp only [Bool.and_eq_true, beq_iff_eq, List.all_eq_true, bne_iff_ne] at hs
    refine ⟨r, rfl, hs.1, fun b hb => ⟨(hs.2 b hb).1, (hs.2 b hb).2, ?_⟩⟩
    refine ve_validate_saved Hooks.none SampleC04.none_bounded Hooks.none_nvLaw veFlash veFlashSpecs r hu ve_flash_valid.1
      (by rw [ve_flash_valid.2]; omega) ?_ ?_ b hb (hs.2 b hb).2
    · intro s hs
      simp only [veFlashSpecs, List.mem_cons, List.not_mem_nil, or_false] at hs
      rcases hs with rfl | rfl | rfl | rfl <;> trivial
    · intro ops st t st' hc hp
      have : st = {} := by
        simp only [veFlashSpecs, cliParse, cliOne] at hc
        cases hc; rfl
      subst this
      have h2 := ve_flash_readAlike
      rw [hp] at h2
      exact h2

end Fiano.Uefi.C09
