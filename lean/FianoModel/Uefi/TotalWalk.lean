/-
  C05 — the tree walkers `validate` and `extract` (pkg/visitors/validate.go, extract.go; the slices of
  `File.ChecksumHeader` in pkg/uefi/file.go) in Go semantics: every slice of a node buffer is a faulting
  primitive.  What the walkers *report* (validation messages, files written) is not modelled here —
  only where they touch buffers.  `json` and `table` have no slice / index / make on node data
  (inventory theorems in TotalTie.lean); `assemble` is TotalAsm.lean, the walkers over NVAR nodes and the ME
  partition table are TotalNvarWalk.lean (follow-up wp-c05b).

  The model follows the code as repaired by
    fixes/C05-checksumheader-bounds.diff (in /repo)   ChecksumHeader clips the header size to the buffer
    fixes/C09-large-bit.diff (wp-c09)                 a file with the large attribute but a 3-byte size is reported
                                                      and not checksummed — before it, `validate` sliced
                                                      `f.Buf()[32:]` of a 24-byte file (attributes large+checksum)
  NVAR entries and the ME partition table are not part of the shared tree: TotalNvarWalk.lean.
-/
import FianoModel.Uefi.TotalFlash
import FianoModel.Uefi.TotalAsmBase

namespace Fiano.Uefi.Total
open Fiano GoM Fiano.Uefi

/-- codec GUIDs of pkg/compression (tied to the source in TotalTie.lean) -/
def codecBROTLI : Guid := [80, 32, 83, 61, 218, 92, 208, 79, 135, 158, 15, 127, 99, 13, 90, 251]
def codecLZMA : Guid := [152, 88, 78, 238, 20, 57, 89, 66, 157, 110, 220, 123, 215, 148, 3, 207]
def codecLZMAX86 : Guid := [189, 230, 42, 212, 82, 19, 251, 75, 144, 154, 202, 114, 166, 234, 232, 137]
def codecZLIB : Guid := [245, 51, 50, 206, 214, 44, 135, 77, 145, 82, 74, 35, 139, 182, 209, 196]

/-! ### validate -/

/-- the `*uefi.File` case of `Validate.Visit` (with `File.ChecksumHeader`) -/
def validateFileNodeG (i : FileInfo) (buf : Bytes) : GoM Unit :=
  let buflen := buf.length
  if buflen < 24 then pure () else
  let large : Bool := i.attrs &&& 0x01 ≠ 0
  let stop : Bool :=
    if i.size3 = 0xFFFFFF then (buflen < 32 || !large) else (i.size3 ≠ i.extSize || large)
  if stop then pure () else
  if buflen ≠ i.extSize then pure () else do
  -- f.ChecksumHeader(): headerSize clipped to len(f.buf) (repaired), then f.buf[:headerSize]
  let hs := if large then 32 else 24
  let hs' := if hs > buflen then buflen else hs
  let _ ← sliceToG "File.ChecksumHeader: f.buf[:headerSize]" buf hs'
  if i.attrs &&& 0x40 ≠ 0 then do
    let _ ← sliceFromG "Validate.Visit: f.Buf()[headerSize:]" buf hs
    pure ()
  else pure ()

/-- `blockMapEnd(buf)` of validate.go (added by fixes/C09-headerlen-blockmap.diff):
    `for off := 56; off+8 <= len(buf); off += 8 { if binary.LittleEndian.Uint64(buf[off:]) == 0 { return off+8 } }` -/
def blockMapEndG (buf : Bytes) : Nat → Nat → GoM Nat
  | fuel, off =>
    if off + 8 ≤ buf.length then
      match fuel with
      | 0 => outOfFuel
      | fuel+1 => do
        let t ← sliceFromG "blockMapEnd: buf[off:]" buf off
        putG "blockMapEnd: binary.LittleEndian.Uint64(buf[off:])" t 8
        if fromLE (t.take 8) = 0 then pure (off + 8) else blockMapEndG buf fuel (off + 8)
    else pure 0

/-- the `*uefi.FirmwareVolume` case of `Validate.Visit` -/
def validateFvNodeG (i : FvInfo) (buf : Bytes) : GoM Unit :=
  let fvlen := buf.length
  if fvlen < 64 then pure () else
  if i.headerLen < 64 then pure () else
  if fvlen < i.headerLen then pure () else do
  let _ ← blockMapEndG buf (buf.length / 8 + 1) 56
  let _ ← sliceToG "Validate.Visit: f.Buf()[:f.HeaderLen]" buf i.headerLen
  pure ()

mutual
def validateSectionG : Section → GoM Unit
  | .mk _ _ encap => validateNodesG encap
def validateNodesG : List Node → GoM Unit
  | [] => pure ()
  | .sec s :: ns => do validateSectionG s; validateNodesG ns
  | .fv v :: ns => do validateFvG v; validateNodesG ns
def validateSectionsG : List Section → GoM Unit
  | [] => pure ()
  | s :: ss => do validateSectionG s; validateSectionsG ss
def validateFileG : File → GoM Unit
  | .mk i buf secs => do
    validateFileNodeG i buf
    -- a file with an NVAR store walks the store instead of sections (not in the shared tree)
    if i.nvar.isSome then pure () else validateSectionsG secs
def validateFilesG : List File → GoM Unit
  | [] => pure ()
  | f :: fs => do validateFileG f; validateFilesG fs
def validateFvG : Fv → GoM Unit
  | .mk i buf files => do
    validateFvNodeG i buf
    validateFilesG files
end

def validateElemsG : List BiosElem → GoM Unit
  | [] => pure ()
  | .pad _ _ :: es => validateElemsG es
  | .fv v :: es => do validateFvG v; validateElemsG es

def validateRegionsG : List Region → GoM Unit
  | [] => pure ()
  | .bios b :: rs => do validateElemsG b.elems; validateRegionsG rs
  | .me _ _ :: rs => validateRegionsG rs
  | .raw _ _ _ :: rs => validateRegionsG rs

/-- `(&visitors.Validate{}).Run(tree)` -/
def validateG : Tree → GoM Unit
  | .flash f => validateRegionsG f.regions
  | .bios b => validateElemsG b.elems

/-! ### extract (buffer slicing only; returns the number of `extractBinary` calls on tree nodes) -/

mutual
def extractSectionG : Section → GoM Nat
  | .mk _ _ encap =>
    if encap.isEmpty then pure 1 else extractNodesG encap
def extractNodesG : List Node → GoM Nat
  | [] => pure 0
  | .sec s :: ns => do let a ← extractSectionG s; let b ← extractNodesG ns; pure (a + b)
  | .fv v :: ns => do let a ← extractFvG v; let b ← extractNodesG ns; pure (a + b)
def extractSectionsG : List Section → GoM Nat
  | [] => pure 0
  | s :: ss => do let a ← extractSectionG s; let b ← extractSectionsG ss; pure (a + b)
def extractFileG : File → GoM Nat
  | .mk i _ secs =>
    if secs.isEmpty ∧ i.nvar.isNone then pure 1
    else if i.nvar.isSome then pure 0
    else extractSectionsG secs
def extractFilesG : List File → GoM Nat
  | [] => pure 0
  | f :: fs => do let a ← extractFileG f; let b ← extractFilesG fs; pure (a + b)
def extractFvG : Fv → GoM Nat
  | .mk i buf files =>
    if files.isEmpty then pure 1
    else do
      let _ ← sliceToG "Extract.Visit: f.Buf()[:f.DataOffset]" buf i.dataOffset
      let n ← extractFilesG files
      pure (n + 1)
end

def extractElemsG : List BiosElem → GoM Nat
  | [] => pure 0
  | .pad _ _ :: es => do let b ← extractElemsG es; pure (b + 1)
  | .fv v :: es => do let a ← extractFvG v; let b ← extractElemsG es; pure (a + b)

def extractBiosG (b : BiosRegion) : GoM Nat :=
  if b.elems.isEmpty then pure 1 else extractElemsG b.elems

def extractRegionsG : List Region → GoM Nat
  | [] => pure 0
  | .bios b :: rs => do let a ← extractBiosG b; let n ← extractRegionsG rs; pure (a + n)
  | .me _ _ :: rs => do let n ← extractRegionsG rs; pure (n + 1)
  | .raw _ _ _ :: rs => do let n ← extractRegionsG rs; pure (n + 1)

/-- `Extract.Run(tree)` -/
def extractG : Tree → GoM Nat
  | .flash f => do let n ← extractRegionsG f.regions; pure (n + 1)
  | .bios b => extractBiosG b

end Fiano.Uefi.Total
