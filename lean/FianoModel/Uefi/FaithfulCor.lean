/-
  Property C04 — consequences of `Faithful` in the words of the property statement
  ("tile without gap or overlap", "concatenate to the region", "lies inside its parent"), and the
  Boolean test `fvFilesInside` used by the refutation witness of the unrepaired rule.
-/
import FianoModel.Uefi.FaithfulLemmas

namespace Fiano.Uefi
open FaithfulAux
open Fiano

theorem FvF.buf_eq {h : Hooks} {v : Fv} {data : Bytes} (hv : FvF h v data) :
    v.buf = data.take v.info.length ∧ v.info.length ≤ data.length := by
  cases v with
  | mk i buf files => unfold FvF at hv; exact ⟨hv.2.2.1, hv.2.1⟩

/-- **a BIOS region's volumes and paddings concatenate to the region** (no gap, no overlap) -/
theorem elems_concat (h : Hooks) : ∀ (es : List BiosElem) (rest : Bytes) (abs : Nat),
    ElemsAt h es rest abs → (es.map BiosElem.buf).flatten = rest := by
  intro es
  induction es with
  | nil => intro rest abs he; simp only [ElemsAt] at he; simp [he]
  | cons e es ih =>
    intro rest abs he
    cases e with
    | pad b o =>
      simp only [ElemsAt] at he
      obtain ⟨_, _, _, hb, hrest⟩ := he
      simp only [List.map_cons, List.flatten_cons, BiosElem.buf]
      rw [ih _ _ hrest]
      conv => lhs; lhs; rw [hb]
      exact List.take_append_drop _ _
    | fv v =>
      simp only [ElemsAt] at he
      obtain ⟨_, _, hv, _, hrest⟩ := he
      simp only [List.map_cons, List.flatten_cons, BiosElem.buf]
      rw [ih _ _ hrest, hv.buf_eq.1]
      exact List.take_append_drop _ _

/-- the running offsets of the elements of a BIOS region -/
def elemOffsets : List BiosElem → Nat → List Nat
  | [], _ => []
  | e :: es, abs => abs :: elemOffsets es (abs + e.buf.length)

/-- the offset reported by an element (BIOSPadding.Offset / FirmwareVolume.FVOffset) -/
def BiosElem.reported : BiosElem → Nat
  | .pad _ o => o
  | .fv v => v.info.fvOffset

/-- **each reported offset equals the running sum of the sizes before it** -/
theorem elems_offsets (h : Hooks) : ∀ (es : List BiosElem) (rest : Bytes) (abs : Nat),
    ElemsAt h es rest abs → es.map BiosElem.reported = elemOffsets es abs := by
  intro es
  induction es with
  | nil => intro rest abs _; rfl
  | cons e es ih =>
    intro rest abs he
    cases e with
    | pad b o =>
      simp only [ElemsAt] at he
      obtain ⟨ho, _, _, _, hrest⟩ := he
      simp only [List.map_cons, elemOffsets, BiosElem.reported, BiosElem.buf]
      rw [ih _ _ hrest, ho]
    | fv v =>
      simp only [ElemsAt] at he
      obtain ⟨ho, _, hv, _, hrest⟩ := he
      have hl : v.buf.length = v.info.length := by
        rw [hv.buf_eq.1]; simp only [List.length_take]; have := hv.buf_eq.2; omega
      simp only [List.map_cons, elemOffsets, BiosElem.reported, BiosElem.buf]
      rw [hl, ih _ _ hrest, ho]

/-- **the regions, in tree order, concatenate to the flash after `off`** -/
theorem regions_concat (h : Hooks) (bs : Bytes) (tbl : List FlashRegion) : ∀ (rs : List Region) (off : Nat),
    RegionsAt h bs tbl rs off → (rs.map Region.buf).flatten = bs.drop off := by
  intro rs
  induction rs with
  | nil => intro off hr; simp only [RegionsAt] at hr; simp [hr]
  | cons r rs ih =>
    intro off hr
    simp only [RegionsAt] at hr
    obtain ⟨hrf, hrest⟩ := hr
    simp only [List.map_cons, List.flatten_cons]
    rw [ih _ hrest]
    have hb := hrf.2.2.1
    conv => lhs; lhs; rw [hb]
    unfold slice
    rw [← List.drop_drop]
    exact List.take_append_drop _ _

/-- every region of the list is a faithful region at some offset -/
theorem regionsAt_mem (h : Hooks) (bs : Bytes) (tbl : List FlashRegion) : ∀ (rs : List Region) (off : Nat),
    RegionsAt h bs tbl rs off → ∀ r ∈ rs, ∃ o, RegionF h bs tbl r o := by
  intro rs
  induction rs with
  | nil => intro off _ r hr; cases hr
  | cons x xs ih =>
    intro off hr r hm
    simp only [RegionsAt] at hr
    cases hm with
    | head => exact ⟨off, hr.1⟩
    | tail _ hm => exact ih _ hr.2 r hm

/-- **the ME region of a faithful flash image**: its buffer is the input slice the descriptor's table
    entry 1 names, and the partition table Go reports for it is faithful to those bytes -/
theorem me_region (h : Hooks) (f : Flash) (bs : Bytes) (hf : FlashF h f bs) :
    ∀ r ∈ f.regions, ∀ b fr, r = .me b fr →
      b = slice bs fr.baseOffset b.length ∧ fr.baseOffset + b.length ≤ bs.length ∧
      fr.endOffset = fr.baseOffset + b.length ∧ f.ifd.region.regions[1]? = some fr ∧ Me.MeBufF b := by
  intro r hr b fr hrb
  obtain ⟨_, _, _, _, hregs⟩ := hf
  obtain ⟨o, hrf⟩ := regionsAt_mem h bs _ _ _ hregs r hr
  subst hrb
  unfold RegionF at hrf
  obtain ⟨_, hin, hbuf, ⟨fr', hfr, hbase, hdecl⟩, hinner⟩ := hrf
  simp only [Region.fr, Option.some.injEq] at hfr
  subst hfr
  simp only [Region.buf] at hin hbuf
  obtain ⟨hend, htbl⟩ := hdecl (by simp [Region.rtype])
  simp only [Region.buf, Region.rtype] at hend htbl
  refine ⟨by rw [hbase]; exact hbuf, by rw [hbase]; exact hin, by rw [hbase]; exact hend, htbl, hinner⟩

/-- **descriptor plus regions tile the flash without gap or overlap** -/
theorem flash_tiles (h : Hooks) (f : Flash) (bs : Bytes) (hf : FlashF h f bs) :
    f.ifd.buf ++ (f.regions.map Region.buf).flatten = bs := by
  obtain ⟨_, _, _, hd, hr⟩ := hf
  rw [regions_concat h bs _ _ _ hr, hd.1]
  exact List.take_append_drop _ _

/-- where the files of a volume sit: `[start, end)` of each, the previous one ending at `off` -/
def fileSpans : List File → Nat → List (Nat × Nat)
  | [], _ => []
  | f :: fs, off => (up8 off, up8 off + f.info.extSize) :: fileSpans fs (up8 off + f.info.extSize)

theorem FileF.buf_eq {h : Hooks} {f : File} {ctx : Bytes} (hf : FileF h f ctx) :
    f.buf = ctx.take f.info.extSize := by
  cases f with
  | mk i buf secs => unfold FileF at hf; exact hf.2.2.1

/-- **every file lies inside its volume, at an 8-aligned offset, is not empty, and holds exactly
    the volume's bytes at that place; the files are in increasing order and do not overlap** -/
theorem files_spans (h : Hooks) : ∀ (fs : List File) (fvbuf : Bytes) (off free : Nat),
    FilesAt h fs fvbuf off free →
      (∀ p ∈ fs.zip (fileSpans fs off), p.2.1 % 8 = 0 ∧ p.2.1 < p.2.2 ∧ p.2.2 ≤ fvbuf.length ∧
        p.1.buf = slice fvbuf p.2.1 (p.2.2 - p.2.1)) ∧
      (fileSpans fs off).length = fs.length ∧
      (fileSpans fs off).Pairwise (fun a b => a.2 ≤ b.1) ∧
      ∀ sp ∈ fileSpans fs off, off ≤ sp.1 := by
  intro fs
  induction fs with
  | nil =>
    intro fvbuf off free _
    refine ⟨?_, rfl, List.Pairwise.nil, ?_⟩
    · intro p hm; simp [fileSpans] at hm
    · intro sp hm; simp [fileSpans] at hm
  | cons f fs ih =>
    intro fvbuf off free hf
    simp only [FilesAt] at hf
    obtain ⟨hlt, hff, hpos, hrest⟩ := hf
    obtain ⟨h1, h0, h2, h3⟩ := ih _ _ _ hrest
    have hle := hff.ext_le
    simp only [List.length_drop] at hle
    have hup : off ≤ up8 off := by unfold up8; omega
    have hmod : up8 off % 8 = 0 := by unfold up8; omega
    refine ⟨?_, by simp only [fileSpans, List.length_cons, h0], ?_, ?_⟩
    · intro p hp
      simp only [fileSpans, List.zip_cons_cons] at hp
      cases hp with
      | head =>
        refine ⟨hmod, by simp only []; omega, by simp only []; omega, ?_⟩
        rw [hff.buf_eq]; unfold slice; simp only []
        congr 1; omega
      | tail _ hp => exact h1 p hp
    · simp only [fileSpans]
      refine List.Pairwise.cons ?_ h2
      intro sp hsp; have := h3 sp hsp; simp only []; omega
    · intro sp hsp
      simp only [fileSpans] at hsp
      cases hsp with
      | head => exact hup
      | tail _ hsp => have := h3 sp hsp; omega

/-- where the sections of a file sit -/
def secSpans : List Section → Nat → List (Nat × Nat)
  | [], _ => []
  | s :: ss, off => (off, off + s.info.extSize) :: secSpans ss (up4 (off + s.info.extSize))

theorem SecF.buf_eq {h : Hooks} {s : Section} {ctx : Bytes} (hs : SecF h s ctx) :
    s.buf = ctx.take s.info.extSize := by
  cases s with
  | mk i buf encap => unfold SecF at hs; exact hs.2.2.1

/-- **every section lies inside its file, is not empty, holds exactly the file's bytes at its place;
    the sections are in increasing order without overlap and reach the end of the file** -/
theorem secs_spans (h : Hooks) : ∀ (ss : List Section) (fbuf : Bytes) (off idx : Nat),
    SecsAt h ss fbuf off idx →
      (∀ p ∈ ss.zip (secSpans ss off), p.2.1 < p.2.2 ∧ p.2.2 ≤ fbuf.length ∧
        p.1.buf = slice fbuf p.2.1 (p.2.2 - p.2.1)) ∧
      (secSpans ss off).Pairwise (fun a b => a.2 ≤ b.1) ∧
      (∀ sp ∈ secSpans ss off, off ≤ sp.1) := by
  intro ss
  induction ss with
  | nil =>
    intro fbuf off idx _
    refine ⟨?_, List.Pairwise.nil, ?_⟩
    · intro p hm; simp [secSpans] at hm
    · intro sp hm; simp [secSpans] at hm
  | cons s ss ih =>
    intro fbuf off idx hs
    simp only [SecsAt] at hs
    obtain ⟨hlt, hsf, _, hpos, hrest⟩ := hs
    obtain ⟨h1, h2, h3⟩ := ih _ _ _ hrest
    have hle := hsf.ext_le
    simp only [List.length_drop] at hle
    have hup : off + s.info.extSize ≤ up4 (off + s.info.extSize) := by unfold up4; omega
    refine ⟨?_, ?_, ?_⟩
    · intro p hp
      simp only [secSpans, List.zip_cons_cons] at hp
      cases hp with
      | head =>
        refine ⟨by simp only []; omega, by simp only []; omega, ?_⟩
        rw [hsf.buf_eq]; unfold slice; simp only []
        congr 1; omega
      | tail _ hp => exact h1 p hp
    · simp only [secSpans]
      refine List.Pairwise.cons ?_ h2
      intro sp hsp; have := h3 sp hsp; simp only []; omega
    · intro sp hsp
      simp only [secSpans] at hsp
      cases hsp with
      | head => exact Nat.le_refl _
      | tail _ hsp => have := h3 sp hsp; omega

/-- Boolean form of "every file ends inside the volume's buffer" -/
def fvFilesInside : Fv → Bool
  | .mk i buf files => (fileSpans files i.dataOffset).all (fun sp => decide (sp.2 ≤ buf.length))

theorem FvF.files_inside {h : Hooks} {v : Fv} {data : Bytes} (hv : FvF h v data) : fvFilesInside v = true := by
  cases v with
  | mk i buf files =>
    unfold FvF at hv
    obtain ⟨_, _, _, hfiles⟩ := hv
    unfold fvFilesInside
    split at hfiles
    · obtain ⟨h1, h0, _, _⟩ := files_spans h _ _ _ _ hfiles
      rw [List.all_eq_true]
      intro sp hsp
      obtain ⟨k, hk, hget⟩ := List.getElem_of_mem hsp
      have hk' : k < files.length := by omega
      have hz : (files[k], sp) ∈ files.zip (fileSpans files i.dataOffset) := by
        rw [← hget]
        have hkz : k < (files.zip (fileSpans files i.dataOffset)).length := by
          simp only [List.length_zip]; omega
        have := List.getElem_zip (l := files) (l' := fileSpans files i.dataOffset) (i := k) (h := hkz)
        rw [← this]
        exact List.getElem_mem _
      exact decide_eq_true (h1 _ hz).2.2.1
    · rw [hfiles.1]; rfl

end Fiano.Uefi
