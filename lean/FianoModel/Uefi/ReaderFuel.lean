/-
  C02 (follow-up wp-c02b): the recursion budget of the independent reader is never the reason for an
  answer.  If `fvOk` / `filesOk` / `fileOk` / `sectionsOk` say `true` with *some* budget, they say
  `true` with every budget from a bound that is linear in the bytes still to be read — and the
  budgets the entry points hand out (`validImage` → `biosOk` → `fvOk b.length …`) are above it.

  This is a fact about `Uefi/ValidImage.lean` alone; it lets the invariants of the edit proofs say
  "the reader accepts these bytes" as `∃ fuel, … = true`.
-/
import FianoModel.Uefi.HeaderLemmas

namespace Fiano.Uefi
open Fiano
open EditArith

/-- the reader accepts the volume `b` (with some budget) -/
def FvBytesOk (b : Bytes) : Prop := ∃ fuel, Valid.fvOk fuel b = true

theorem blockMap_fuel_mono (b : Bytes) : ∀ (fuel off acc : Nat) (r : Nat × Nat) (k : Nat),
    Valid.blockMap fuel b off acc = some r → Valid.blockMap (fuel + k) b off acc = some r := by
  intro fuel
  induction fuel with
  | zero => intro off acc r k h; simp [Valid.blockMap] at h
  | succ n ih =>
    intro off acc r k h
    have e : n + 1 + k = (n + k) + 1 := by omega
    rw [e]
    rw [Valid.blockMap] at h ⊢
    split at h
    · cases h
    · rename_i hb
      rw [if_neg hb]
      simp only at h ⊢
      split at h
      · rename_i hz; rw [if_pos hz]; exact h
      · rename_i hz
        rw [if_neg hz]
        split at h
        · cases h
        · rename_i hz2
          rw [if_neg hz2]
          exact ih _ _ _ _ h

/-- facts about a volume the reader accepts: at least 64 bytes, and the file walk starts at or after 64 -/
theorem fvOk_first_ge (fuel : Nat) (b : Bytes) (h : Valid.fvOk (fuel + 1) b = true) :
    64 ≤ b.length ∧ 64 ≤ Valid.fld b 48 2 ∧ 64 ≤ fvFirst b := by
  rw [fvOk_eq] at h
  simp only [Bool.and_eq_true] at h
  have hok := h.1
  unfold hdrOk at hok
  simp only [Bool.and_eq_true, decide_eq_true_eq] at hok
  obtain ⟨h64, ⟨⟨⟨⟨⟨h32, _⟩, h48⟩, hbmm⟩, hsum⟩, hx⟩⟩ := hok
  have hh : 64 ≤ Valid.fld b 48 2 := by
    split at hbmm
    · cases hbmm
    · rename_i total stop hbm
      simp only [Bool.and_eq_true, decide_eq_true_eq] at hbmm
      have := blockMap_stop_ge _ _ _ _ _ _ hbm
      omega
  refine ⟨h64, hh, ?_⟩
  unfold fvFirst
  by_cases hz : Valid.fld b 52 2 = 0
  · rw [if_pos hz]; exact hh
  · rw [if_neg hz] at hx ⊢
    simp only [Bool.and_eq_true, decide_eq_true_eq] at hx
    omega

end Fiano.Uefi

namespace Fiano.Uefi
open Fiano
open EditArith

/-- the four statements, for hypotheses obtained with budget `f` -/
def FuelSecs (f : Nat) : Prop :=
  ∀ (body : Bytes) (off f' : Nat), Valid.sectionsOk f body off = true → body.length - off + 2 ≤ f' →
    Valid.sectionsOk f' body off = true
def FuelFile (f : Nat) : Prop :=
  ∀ (fb : Bytes) (o f' : Nat), Valid.fileOk f fb o = true → fb.length + 1 ≤ f' → Valid.fileOk f' fb o = true
def FuelFiles (f : Nat) : Prop :=
  ∀ (fv : Bytes) (e : UInt8) (off f' : Nat), Valid.filesOk f fv e off = true → fv.length - off + 2 ≤ f' →
    Valid.filesOk f' fv e off = true
def FuelFv (f : Nat) : Prop :=
  ∀ (b : Bytes) (f' : Nat), Valid.fvOk f b = true → b.length ≤ f' + 32 → Valid.fvOk f' b = true

theorem fuelSecs_step (f : Nat) (hV : FuelFv f) (hS : FuelSecs f) : FuelSecs (f + 1) := by
  intro body off f' h hf
  obtain ⟨n, rfl⟩ : ∃ n, f' = n + 1 := ⟨f' - 1, by omega⟩
  rw [Valid.sectionsOk] at h ⊢
  by_cases h1 : off ≥ body.length
  · rw [if_pos h1]
  · rw [if_neg h1] at h ⊢
    by_cases h2 : off % 4 ≠ 0
    · rw [if_pos h2] at h; cases h
    · rw [if_neg h2] at h ⊢
      by_cases h3 : off + 4 > body.length
      · rw [if_pos h3] at h; cases h
      · rw [if_neg h3] at h ⊢
        simp only at h ⊢
        by_cases h4 : Valid.fld body off 3 = 0xFFFFFF ∧ off + 8 > body.length
        · rw [if_pos h4] at h; cases h
        · rw [if_neg h4] at h ⊢
          by_cases h5 : (if Valid.fld body off 3 = 0xFFFFFF then Valid.fld body (off + 4) 4 else Valid.fld body off 3) <
              (if Valid.fld body off 3 = 0xFFFFFF then 8 else 4) + (if Valid.fld body (off + 3) 1 = 0x02 then 20 else 0)
          · rw [if_pos h5] at h; cases h
          · rw [if_neg h5] at h ⊢
            by_cases h6 : off + (if Valid.fld body off 3 = 0xFFFFFF then Valid.fld body (off + 4) 4 else Valid.fld body off 3) >
                body.length
            · rw [if_pos h6] at h; cases h
            · rw [if_neg h6] at h ⊢
              generalize hsz : (if Valid.fld body off 3 = 0xFFFFFF then Valid.fld body (off + 4) 4 else Valid.fld body off 3) = size at *
              generalize hhl : (if Valid.fld body off 3 = 0xFFFFFF then 8 else 4) + (if Valid.fld body (off + 3) 1 = 0x02 then 20 else 0) = hl at *
              have hhl4 : 4 ≤ hl := by rw [← hhl]; split <;> omega
              simp only [Bool.and_eq_true] at h ⊢
              refine ⟨?_, ?_⟩
              · by_cases ht : Valid.fld body (off + 3) 1 = 0x17
                · rw [if_pos ht] at h ⊢
                  apply hV _ _ h.1
                  simp only [List.length_take, List.length_drop]
                  omega
                · rw [if_neg ht]
              · apply hS _ _ _ h.2
                have : off + size ≤ Valid.alignUp (off + size) 4 := by unfold Valid.alignUp; omega
                omega

theorem fuelFile_step (f : Nat) (hS : FuelSecs f) : FuelFile (f + 1) := by
  intro fb o f' h hf
  obtain ⟨n, rfl⟩ : ∃ n, f' = n + 1 := ⟨f' - 1, by omega⟩
  unfold Valid.fileOk at h ⊢
  split at h
  · cases h
  · rename_i size hl heq
    have hlen := fileSize_some_length fb size hl heq
    simp only [Bool.and_eq_true, decide_eq_true_eq] at h ⊢
    obtain ⟨⟨⟨⟨⟨a1, a2⟩, a3⟩, a4⟩, a5⟩, a6⟩ := h
    refine ⟨⟨⟨⟨⟨a1, a2⟩, a3⟩, a4⟩, a5⟩, ?_⟩
    by_cases hs : Valid.sectioned (Valid.fld fb 18 1) = true
    · rw [if_pos hs] at a6 ⊢
      apply hS _ _ _ a6
      simp only [List.length_drop]
      omega
    · rw [if_neg hs]

theorem fuelFiles_step (f : Nat) (hF : FuelFile f) (hFs : FuelFiles f) : FuelFiles (f + 1) := by
  intro fv e off f' h hf
  obtain ⟨n, rfl⟩ : ∃ n, f' = n + 1 := ⟨f' - 1, by omega⟩
  rw [Valid.filesOk] at h ⊢
  by_cases h1 : off > fv.length
  · rw [if_pos h1] at h; cases h
  · rw [if_neg h1] at h ⊢
    by_cases h2 : Valid.alignUp off 8 + 24 > fv.length
    · rw [if_pos h2] at h ⊢; exact h
    · rw [if_neg h2] at h ⊢
      by_cases h3 : Valid.allAre e ((fv.drop (Valid.alignUp off 8)).take 24) = true
      · rw [if_pos h3] at h ⊢; exact h
      · rw [if_neg h3] at h ⊢
        simp only [Bool.and_eq_true] at h ⊢
        refine ⟨h.1, ?_⟩
        have h' := h.2
        split at h'
        · cases h'
        · rename_i size hl heq
          have hlen := fileSize_some_length _ size hl heq
          simp only [Bool.and_eq_true, decide_eq_true_eq] at h' ⊢
          obtain ⟨⟨⟨b1, b2⟩, b3⟩, b4⟩ := h'
          have h8 : off ≤ Valid.alignUp off 8 := by unfold Valid.alignUp; omega
          refine ⟨⟨⟨b1, b2⟩, ?_⟩, ?_⟩
          · apply hF _ _ _ b3
            simp only [List.length_take, List.length_drop]
            omega
          · apply hFs _ _ _ _ b4
            omega

theorem fuelFv_step (f : Nat) (hFs : FuelFiles f) : FuelFv (f + 1) := by
  intro b f' h hf
  have hfacts := fvOk_first_ge f b h
  obtain ⟨n, rfl⟩ : ∃ n, f' = n + 1 := ⟨f' - 1, by omega⟩
  rw [fvOk_eq] at h ⊢
  simp only [Bool.and_eq_true] at h ⊢
  refine ⟨h.1, ?_⟩
  by_cases hffs : fvIsFfs b = true
  · rw [if_pos hffs] at h ⊢
    apply hFs _ _ _ _ h.2
    omega
  · rw [if_neg hffs]

theorem fuel_all : ∀ f, FuelSecs f ∧ FuelFile f ∧ FuelFiles f ∧ FuelFv f := by
  intro f
  induction f with
  | zero =>
    refine ⟨?_, ?_, ?_, ?_⟩
    · intro body off f' h _; simp [Valid.sectionsOk] at h
    · intro fb o f' h _; simp [Valid.fileOk] at h
    · intro fv e off f' h _; simp [Valid.filesOk] at h
    · intro b f' h _; simp [Valid.fvOk] at h
  | succ n ih =>
    obtain ⟨hS, hF, hFs, hV⟩ := ih
    exact ⟨fuelSecs_step n hV hS, fuelFile_step n hS, fuelFiles_step n hF hFs, fuelFv_step n hFs⟩

/-- **budget irrelevance, volumes**: a volume the reader accepts with some budget is accepted with
    every budget from `|b| - 32` on -/
theorem fvOk_fuel (b : Bytes) (h : FvBytesOk b) (f' : Nat) (hf : b.length ≤ f' + 32) : Valid.fvOk f' b = true := by
  obtain ⟨f, hf0⟩ := h
  exact (fuel_all f).2.2.2 b f' hf0 hf

theorem fileOk_fuel (f : Nat) (fb : Bytes) (o f' : Nat) (h : Valid.fileOk f fb o = true) (hf : fb.length + 1 ≤ f') :
    Valid.fileOk f' fb o = true := (fuel_all f).2.1 fb o f' h hf

theorem filesOk_fuel (f : Nat) (fv : Bytes) (e : UInt8) (off f' : Nat) (h : Valid.filesOk f fv e off = true)
    (hf : fv.length - off + 2 ≤ f') : Valid.filesOk f' fv e off = true := (fuel_all f).2.2.1 fv e off f' h hf

theorem sectionsOk_fuel (f : Nat) (body : Bytes) (off f' : Nat) (h : Valid.sectionsOk f body off = true)
    (hf : body.length - off + 2 ≤ f') : Valid.sectionsOk f' body off = true := (fuel_all f).1 body off f' h hf

end Fiano.Uefi
