/-
  C02 (follow-up wp-c02c): the facts about the sample image of Uefi/EditValidOpsSample.lean that the
  non-vacuity theorem `sample_nvcompact_valid` (Props/C02.lean) needs, each decided by the kernel: the
  independent reader accepts the image; `utk nvSample nvram-compact save` succeeds on the model the driver
  runs and writes one image that differs from the input; fiano reads the headers as the specification does.
-/
import FianoModel.Uefi.EditValidOpsSample
import FianoModel.Uefi.ParseEval
import FianoModel.Uefi.ParseOk12

namespace Fiano.Uefi.NvSample
open Fiano Fiano.Uefi

set_option maxRecDepth 1000000 in
theorem nvSample_valid : Valid.validImage nvSample = true := by decide +kernel

set_option maxRecDepth 1000000 in
theorem nvSample_run :
    (match utk3 Hooks.none (hooksC10 0xFF) compactC10 nvSample nvSpecs with
     | .ok r => r.outs.length == 1 && r.outs.all (fun b => b != nvSample)
     | .error _ => false) = true := by
  unfold utk3
  simp only [← parseWith_eval]
  decide +kernel

set_option maxRecDepth 1000000 in
theorem nvSample_readAlike :
    (match parseWith (hooksC10 0xFF) (defaultFuel nvSample) nvSample {} with
     | .ok (t, _) => readAlikeB t && !(nvStores t).isEmpty
     | .error _ => false) = true := by
  rw [← parseWith_eval]; decide +kernel

set_option maxRecDepth 1000000 in
theorem nvSample_len : nvSample.length = 872 := by decide +kernel

end Fiano.Uefi.NvSample
