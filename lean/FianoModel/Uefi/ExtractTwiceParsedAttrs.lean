/-
  Property C07, follow-up wp-c07c — the attribute part of `savedOkAll` is PROVED for parsed images.

    * `at256_asm*`          one `Assemble` pass keeps "every file has an attribute byte" (`File.SetSize` only sets or
                            clears the large-file bit);
    * `fxr_of_parts`        attribute bytes + the size part give `fxrTreeAll`;
    * `savedOkAll_of_parsed` for every byte string `uefi.Parse` accepts (any hooks): `d60Tree t` and the size part
                            `sizeOkAll` give the side condition `savedOkAll`.
-/
import FianoModel.Uefi.ExtractTwiceParsed
import FianoModel.Uefi.ExtractTwiceParsedParse

namespace Fiano.Uefi
open Fiano

theorem setSize_attrs_lt (attrs size : Nat) (r : Bool) (h : attrs < 256) : (setSize attrs size r).1 < 256 := by
  unfold setSize
  split
  · exact Nat.or_lt_two_pow (n := 8) h (by decide)
  · exact Nat.lt_of_le_of_lt Nat.and_le_left h

theorem checksumAndAssemble_attrs (i : FileInfo) (d : Bytes) : (checksumAndAssemble i d).1.attrs = i.attrs := rfl

theorem asmFileTail_attrs (i : FileInfo) (buf : Bytes) (ss : List Section) (st : St) (hi : i.attrs < 256) :
    ∃ i' b', (asmFileTail i buf ss st).1 = .mk i' b' ss ∧ i'.attrs < 256 := by
  cases ss with
  | nil => exact ⟨_, _, rfl, hi⟩
  | cons a t =>
    simp only [asmFileTail]
    have hs := setSize_attrs_lt i.attrs (24 + (joinPad4 (List.map Section.buf (a :: t)) []).length) true hi
    generalize setSize i.attrs (24 + (joinPad4 (List.map Section.buf (a :: t)) []).length) true = ss at hs
    obtain ⟨A, S, E⟩ := ss
    simp only [] at hs ⊢
    refine ⟨_, _, rfl, ?_⟩
    rw [checksumAndAssemble_attrs]
    exact hs

mutual
theorem at256_asmSection (h : Hooks) : ∀ (s : Section) (st : St) (s1 : Section) (st1 : St),
    asmSection h s st = .ok (s1, st1) → at256Section s = true → at256Section s1 = true
  | .mk i buf e, st, s1, st1, ha, hq => by
    rw [asmSection_eq] at ha
    cases hn : asmNodes h e st with
    | error x => rw [hn] at ha; cases ha
    | ok p =>
      obtain ⟨e1, sta⟩ := p
      rw [hn] at ha
      simp only [] at ha
      obtain ⟨i', b', rfl⟩ := asmSectionTail_children h i buf e1 sta s1 st1 ha
      simp only [at256Section] at hq ⊢
      exact at256_asmNodes h e st e1 sta hn hq
theorem at256_asmNodes (h : Hooks) : ∀ (ns : List Node) (st : St) (ns1 : List Node) (st1 : St),
    asmNodes h ns st = .ok (ns1, st1) → at256Nodes ns = true → at256Nodes ns1 = true
  | [], st, ns1, st1, ha, _ => by
    simp only [asmNodes, Except.ok.injEq, Prod.mk.injEq] at ha
    rw [← ha.1]; rfl
  | .sec s :: t, st, ns1, st1, ha, hq => by
    simp only [at256Nodes, Bool.and_eq_true] at hq
    rw [asmNodes] at ha
    cases h1 : asmSection h s st with
    | error x => rw [h1] at ha; cases ha
    | ok p =>
      obtain ⟨s', sta⟩ := p
      rw [h1] at ha
      simp only [] at ha
      cases h2 : asmNodes h t sta with
      | error x => rw [h2] at ha; cases ha
      | ok q =>
        obtain ⟨t', stb⟩ := q
        rw [h2] at ha
        simp only [Except.ok.injEq, Prod.mk.injEq] at ha
        rw [← ha.1]
        simp only [at256Nodes, at256_asmSection h s st s' sta h1 hq.1, at256_asmNodes h t sta t' stb h2 hq.2, Bool.and_self]
  | .fv v :: t, st, ns1, st1, ha, hq => by
    simp only [at256Nodes, Bool.and_eq_true] at hq
    rw [asmNodes] at ha
    cases h1 : asmFv h v st with
    | error x => rw [h1] at ha; cases ha
    | ok p =>
      obtain ⟨v', sta⟩ := p
      rw [h1] at ha
      simp only [] at ha
      cases h2 : asmNodes h t sta with
      | error x => rw [h2] at ha; cases ha
      | ok q =>
        obtain ⟨t', stb⟩ := q
        rw [h2] at ha
        simp only [Except.ok.injEq, Prod.mk.injEq] at ha
        rw [← ha.1]
        simp only [at256Nodes, at256_asmFv h v st v' sta h1 hq.1, at256_asmNodes h t sta t' stb h2 hq.2, Bool.and_self]
theorem at256_asmSections (h : Hooks) : ∀ (ss : List Section) (st : St) (ss1 : List Section) (st1 : St),
    asmSections h ss st = .ok (ss1, st1) → at256Sections ss = true → at256Sections ss1 = true
  | [], st, ss1, st1, ha, _ => by
    simp only [asmSections, Except.ok.injEq, Prod.mk.injEq] at ha
    rw [← ha.1]; rfl
  | s :: t, st, ss1, st1, ha, hq => by
    simp only [at256Sections, Bool.and_eq_true] at hq
    rw [asmSections] at ha
    cases h1 : asmSection h s st with
    | error x => rw [h1] at ha; cases ha
    | ok p =>
      obtain ⟨s', sta⟩ := p
      rw [h1] at ha
      simp only [] at ha
      cases h2 : asmSections h t sta with
      | error x => rw [h2] at ha; cases ha
      | ok q =>
        obtain ⟨t', stb⟩ := q
        rw [h2] at ha
        simp only [Except.ok.injEq, Prod.mk.injEq] at ha
        rw [← ha.1]
        simp only [at256Sections, at256_asmSection h s st s' sta h1 hq.1, at256_asmSections h t sta t' stb h2 hq.2,
          Bool.and_self]
theorem at256_asmFile (h : Hooks) : ∀ (f : File) (st : St) (f1 : File) (st1 : St),
    asmFile h f st = .ok (f1, st1) → at256File f = true → at256File f1 = true
  | .mk i buf secs, st, f1, st1, ha, hq => by
    simp only [at256File, Bool.and_eq_true, decide_eq_true_eq] at hq
    cases hnv : i.nvar with
    | some nv =>
      rw [asmFile] at ha
      simp only [hnv] at ha
      cases hh : h.nvarAsm nv st.pol with
      | error x => rw [hh] at ha; cases ha
      | ok nv' =>
        rw [hh] at ha
        simp only [] at ha
        have hs := setSize_attrs_lt i.attrs (24 + nv'.length) true hq.1
        generalize setSize i.attrs (24 + nv'.length) true = ss at ha hs
        obtain ⟨A, S, E⟩ := ss
        simp only [] at ha hs
        have hca := checksumAndAssemble_attrs
          { i with attrs := A, size3 := S, extSize := E, nvar := some nv' } nv'.buf
        generalize checksumAndAssemble _ _ = ca at ha hca
        obtain ⟨i2, b2⟩ := ca
        simp only [Except.ok.injEq, Prod.mk.injEq] at ha hca
        rw [← ha.1]
        simp only [at256File, Bool.and_eq_true, decide_eq_true_eq, hq.2, and_true]
        rw [hca]; exact hs
    | none =>
      rw [asmFile_eq h i buf secs st hnv] at ha
      cases h1 : asmSections h secs st with
      | error x => rw [h1] at ha; cases ha
      | ok p =>
        obtain ⟨ss1, sta⟩ := p
        rw [h1] at ha
        simp only [Except.ok.injEq] at ha
        obtain ⟨i', b', e, hi'⟩ := asmFileTail_attrs i buf ss1 sta hq.1
        have : f1 = .mk i' b' ss1 := by rw [← e, ha]
        subst this
        simp only [at256File, Bool.and_eq_true, decide_eq_true_eq]
        exact ⟨hi', at256_asmSections h secs st ss1 sta h1 hq.2⟩
theorem at256_asmFiles (h : Hooks) : ∀ (fs : List File) (st : St) (fs1 : List File) (st1 : St),
    asmFiles h fs st = .ok (fs1, st1) → at256Files fs = true → at256Files fs1 = true
  | [], st, fs1, st1, ha, _ => by
    simp only [asmFiles, Except.ok.injEq, Prod.mk.injEq] at ha
    rw [← ha.1]; rfl
  | f :: t, st, fs1, st1, ha, hq => by
    simp only [at256Files, Bool.and_eq_true] at hq
    rw [asmFiles] at ha
    cases h1 : asmFile h f st with
    | error x => rw [h1] at ha; cases ha
    | ok p =>
      obtain ⟨f', sta⟩ := p
      rw [h1] at ha
      simp only [] at ha
      cases h2 : asmFiles h t sta with
      | error x => rw [h2] at ha; cases ha
      | ok q =>
        obtain ⟨t', stb⟩ := q
        rw [h2] at ha
        simp only [Except.ok.injEq, Prod.mk.injEq] at ha
        rw [← ha.1]
        simp only [at256Files, at256_asmFile h f st f' sta h1 hq.1, at256_asmFiles h t sta t' stb h2 hq.2, Bool.and_self]
theorem at256_asmFv (h : Hooks) : ∀ (v : Fv) (st : St) (v1 : Fv) (st1 : St),
    asmFv h v st = .ok (v1, st1) → at256Fv v = true → at256Fv v1 = true
  | .mk i buf files, st, v1, st1, ha, hq => by
    simp only [at256Fv] at hq
    rw [asmFv_eq] at ha
    cases hs : setPolarity (polOfAttrs i.attrs) st with
    | error x => rw [hs] at ha; cases ha
    | ok sp =>
      rw [hs] at ha
      simp only [] at ha
      cases h1 : asmFiles h files sp with
      | error x => rw [h1] at ha; cases ha
      | ok p =>
        obtain ⟨fs1, sta⟩ := p
        rw [h1] at ha
        simp only [] at ha
        have ih := at256_asmFiles h files sp fs1 sta h1 hq
        cases fs1 with
        | nil =>
          simp only [asmFvTail, Except.ok.injEq, Prod.mk.injEq] at ha
          rw [← ha.1]; rfl
        | cons a t =>
          simp only [asmFvTail] at ha
          cases hr : relayoutFv i buf (a :: t) sta with
          | error x => rw [hr] at ha; cases ha
          | ok q =>
            obtain ⟨i', out, stc⟩ := q
            rw [hr] at ha
            simp only [Except.ok.injEq, Prod.mk.injEq] at ha
            rw [← ha.1]
            simp only [at256Fv, ih]
end

theorem at256_asmBiosElems (h : Hooks) : ∀ (es : List BiosElem) (st : St) (es1 : List BiosElem) (st1 : St),
    asmBiosElems h es st = .ok (es1, st1) → at256BiosElems es = true → at256BiosElems es1 = true
  | [], st, es1, st1, ha, _ => by
    simp only [asmBiosElems, Except.ok.injEq, Prod.mk.injEq] at ha
    rw [← ha.1]; rfl
  | .pad b o :: t, st, es1, st1, ha, hq => by
    simp only [at256BiosElems] at hq
    rw [asmBiosElems] at ha
    cases h2 : asmBiosElems h t st with
    | error x => rw [h2] at ha; cases ha
    | ok q =>
      obtain ⟨t', stb⟩ := q
      rw [h2] at ha
      simp only [Except.ok.injEq, Prod.mk.injEq] at ha
      rw [← ha.1]
      simp only [at256BiosElems, at256_asmBiosElems h t st t' stb h2 hq]
  | .fv v :: t, st, es1, st1, ha, hq => by
    simp only [at256BiosElems, Bool.and_eq_true] at hq
    rw [asmBiosElems] at ha
    cases h1 : asmFv h v st with
    | error x => rw [h1] at ha; cases ha
    | ok p =>
      obtain ⟨v', sta⟩ := p
      rw [h1] at ha
      simp only [] at ha
      cases h2 : asmBiosElems h t sta with
      | error x => rw [h2] at ha; cases ha
      | ok q =>
        obtain ⟨t', stb⟩ := q
        rw [h2] at ha
        simp only [Except.ok.injEq, Prod.mk.injEq] at ha
        rw [← ha.1]
        simp only [at256BiosElems, at256_asmFv h v st v' sta h1 hq.1, at256_asmBiosElems h t sta t' stb h2 hq.2,
          Bool.and_self]

theorem at256_asmBios (h : Hooks) (b : BiosRegion) (st : St) (b1 : BiosRegion) (st1 : St)
    (ha : asmBios h b st = .ok (b1, st1)) (hq : at256BiosElems b.elems = true) : at256BiosElems b1.elems = true := by
  unfold asmBios at ha
  cases h1 : asmBiosElems h b.elems st with
  | error x => rw [h1] at ha; cases ha
  | ok p =>
    obtain ⟨es, sta⟩ := p
    rw [h1] at ha
    simp only [] at ha
    repeat' split at ha
    all_goals first
      | (cases ha; done)
      | (simp only [Except.ok.injEq, Prod.mk.injEq] at ha
         rw [← ha.1]
         exact at256_asmBiosElems h b.elems st es sta h1 hq)

theorem at256Regions_cons (r : Region) (rs : List Region) : at256Regions (r :: rs) = (at256Region r && at256Regions rs) := by
  cases r <;> simp [at256Regions, at256Region]

theorem at256Regions_insert (r : Region) : ∀ l : List Region, at256Regions (insertRegion r l) = (at256Region r && at256Regions l)
  | [] => by simp [insertRegion, at256Regions_cons, at256Regions]
  | x :: xs => by
    simp only [insertRegion]
    split
    · simp [at256Regions_cons]
    · simp only [at256Regions_cons, at256Regions_insert r xs]
      cases at256Region x <;> cases at256Region r <;> simp

theorem at256Regions_sort : ∀ l : List Region, at256Regions (sortRegions l) = at256Regions l
  | [] => rfl
  | x :: xs => by
    simp only [sortRegions, List.foldr_cons] at *
    rw [at256Regions_insert, at256Regions_cons]
    have := at256Regions_sort xs
    simp only [sortRegions] at this
    rw [this]

theorem at256Region_setFr (f : FlashRegion) (r : Region) : at256Region (r.setFr f) = at256Region r := by
  cases r <;> rfl

theorem at256Region_repoint (tbl : List FlashRegion) (nr : Nat) (r : Region) :
    at256Region (repoint tbl nr r) = at256Region r := by
  unfold repoint
  simp only []
  repeat' split
  all_goals first
    | rfl
    | exact at256Region_setFr _ _

theorem at256Regions_repoint (tbl : List FlashRegion) (nr : Nat) : ∀ l : List Region,
    at256Regions (l.map (repoint tbl nr)) = at256Regions l
  | [] => rfl
  | x :: xs => by
    simp only [List.map_cons, at256Regions_cons, at256Region_repoint, at256Regions_repoint tbl nr xs]

theorem at256_asmRegions (h : Hooks) : ∀ (rs : List Region) (st : St) (rs1 : List Region) (st1 : St),
    asmRegions h rs st = .ok (rs1, st1) → at256Regions rs = true → at256Regions rs1 = true
  | [], st, rs1, st1, ha, _ => by
    simp only [asmRegions, Except.ok.injEq, Prod.mk.injEq] at ha
    rw [← ha.1]; rfl
  | .bios b :: t, st, rs1, st1, ha, hq => by
    simp only [at256Regions, Bool.and_eq_true] at hq
    rw [asmRegions] at ha
    cases h1 : asmBios h b st with
    | error x => rw [h1] at ha; cases ha
    | ok p =>
      obtain ⟨b', sta⟩ := p
      rw [h1] at ha
      simp only [] at ha
      cases h2 : asmRegions h t sta with
      | error x => rw [h2] at ha; cases ha
      | ok q =>
        obtain ⟨t', stb⟩ := q
        rw [h2] at ha
        simp only [Except.ok.injEq, Prod.mk.injEq] at ha
        rw [← ha.1]
        simp only [at256Regions, at256_asmBios h b st b' sta h1 hq.1, at256_asmRegions h t sta t' stb h2 hq.2, Bool.and_self]
  | .me b f :: t, st, rs1, st1, ha, hq => by
    simp only [at256Regions] at hq
    rw [asmRegions] at ha
    · cases h2 : asmRegions h t st with
      | error x => rw [h2] at ha; cases ha
      | ok q =>
        obtain ⟨t', stb⟩ := q
        rw [h2] at ha
        simp only [Except.ok.injEq, Prod.mk.injEq] at ha
        rw [← ha.1]
        simp only [at256Regions, at256_asmRegions h t st t' stb h2 hq]
    · intro _ hc; cases hc
  | .raw b f y :: t, st, rs1, st1, ha, hq => by
    simp only [at256Regions] at hq
    rw [asmRegions] at ha
    · cases h2 : asmRegions h t st with
      | error x => rw [h2] at ha; cases ha
      | ok q =>
        obtain ⟨t', stb⟩ := q
        rw [h2] at ha
        simp only [Except.ok.injEq, Prod.mk.injEq] at ha
        rw [← ha.1]
        simp only [at256Regions, at256_asmRegions h t st t' stb h2 hq]
    · intro _ hc; cases hc

theorem at256_asmFlash (h : Hooks) (f : Flash) (st : St) (f1 : Flash) (st1 : St)
    (ha : asmFlash h f st = .ok (f1, st1)) (hq : at256Regions f.regions = true) : at256Regions f1.regions = true := by
  unfold asmFlash at ha
  cases h0 : asmDescriptor f.ifd with
  | error x => rw [h0] at ha; cases ha
  | ok ifd =>
    rw [h0] at ha
    simp only [] at ha
    cases h1 : asmRegions h f.regions st with
    | error x => rw [h1] at ha; cases ha
    | ok p =>
      obtain ⟨rs, sta⟩ := p
      rw [h1] at ha
      simp only [] at ha
      repeat' split at ha
      all_goals first
        | (cases ha; done)
        | (simp only [Except.ok.injEq, Prod.mk.injEq] at ha
           rw [← ha.1]
           simp only [at256Regions_sort, at256Regions_repoint]
           exact at256_asmRegions h f.regions st rs sta h1 hq)

/-- one `Assemble` pass keeps "every file has an attribute byte" -/
theorem at256_asmTree (h : Hooks) (t : Tree) (st : St) (t1 : Tree) (st1 : St)
    (ha : asmTreeWith h t st = .ok (t1, st1)) (hq : at256Tree t = true) : at256Tree t1 = true := by
  cases t with
  | flash f =>
    simp only [asmTreeWith] at ha
    cases h1 : asmFlash h f st with
    | error x => rw [h1] at ha; cases ha
    | ok p =>
      obtain ⟨f', sta⟩ := p
      rw [h1] at ha
      simp only [Except.ok.injEq, Prod.mk.injEq] at ha
      rw [← ha.1]
      simp only [at256Tree] at hq ⊢
      exact at256_asmFlash h f st f' sta h1 hq
  | bios b =>
    simp only [asmTreeWith] at ha
    cases h1 : asmBios h b st with
    | error x => rw [h1] at ha; cases ha
    | ok p =>
      obtain ⟨b', sta⟩ := p
      rw [h1] at ha
      simp only [Except.ok.injEq, Prod.mk.injEq] at ha
      rw [← ha.1]
      simp only [at256Tree] at hq ⊢
      exact at256_asmBios h b st b' sta h1 hq

/-! ### attribute bytes + sizes = `fxrTreeAll` -/

theorem at256Files_all : ∀ fs : List File, at256Files fs = true → fs.all (fun f => decide (f.info.attrs < 256)) = true
  | [], _ => rfl
  | .mk i b s :: t, hq => by
    simp only [at256Files, at256File, Bool.and_eq_true, decide_eq_true_eq] at hq
    simp only [List.all_cons, File.info, Bool.and_eq_true, decide_eq_true_eq]
    exact ⟨decide_eq_true hq.1.1, at256Files_all t hq.2⟩

mutual
theorem fxrSection_of : ∀ s : Section, at256Section s = true → fxsSection s = true → fxrSection s = true
  | .mk i b e, ha, hs => by
    simp only [at256Section] at ha; simp only [fxsSection] at hs
    simp only [fxrSection]; exact fxrNodes_of e ha hs
theorem fxrNodes_of : ∀ n : List Node, at256Nodes n = true → fxsNodes n = true → fxrNodes n = true
  | [], _, _ => rfl
  | .sec s :: t, ha, hs => by
    simp only [at256Nodes, Bool.and_eq_true] at ha; simp only [fxsNodes, Bool.and_eq_true] at hs
    simp only [fxrNodes, fxrSection_of s ha.1 hs.1, fxrNodes_of t ha.2 hs.2, Bool.and_self]
  | .fv v :: t, ha, hs => by
    simp only [at256Nodes, Bool.and_eq_true] at ha; simp only [fxsNodes, Bool.and_eq_true] at hs
    simp only [fxrNodes, fxrFv_of v ha.1 hs.1, fxrNodes_of t ha.2 hs.2, Bool.and_self]
theorem fxrSections_of : ∀ n : List Section, at256Sections n = true → fxsSections n = true → fxrSections n = true
  | [], _, _ => rfl
  | s :: t, ha, hs => by
    simp only [at256Sections, Bool.and_eq_true] at ha; simp only [fxsSections, Bool.and_eq_true] at hs
    simp only [fxrSections, fxrSection_of s ha.1 hs.1, fxrSections_of t ha.2 hs.2, Bool.and_self]
theorem fxrFile_of : ∀ f : File, at256File f = true → fxsFile f = true → fxrFile f = true
  | .mk i b s, ha, hs => by
    simp only [at256File, Bool.and_eq_true] at ha; simp only [fxsFile] at hs
    simp only [fxrFile]; exact fxrSections_of s ha.2 hs
theorem fxrFiles_of : ∀ n : List File, at256Files n = true → fxsFiles n = true → fxrFiles n = true
  | [], _, _ => rfl
  | f :: t, ha, hs => by
    simp only [at256Files, Bool.and_eq_true] at ha; simp only [fxsFiles, Bool.and_eq_true] at hs
    simp only [fxrFiles, fxrFile_of f ha.1 hs.1, fxrFiles_of t ha.2 hs.2, Bool.and_self]
theorem fxrFv_of : ∀ v : Fv, at256Fv v = true → fxsFv v = true → fxrFv v = true
  | .mk i b fs, ha, hs => by
    simp only [at256Fv] at ha
    simp only [fxsFv, Bool.and_eq_true, Bool.or_eq_true] at hs
    simp only [fxrFv, fxrFiles_of fs ha hs.1, Bool.true_and, Bool.or_eq_true, Bool.and_eq_true]
    rcases hs.2 with he | hb
    · exact Or.inl he
    · exact Or.inr ⟨⟨hb.1, at256Files_all fs ha⟩, hb.2⟩
end

theorem fxrBiosElems_of : ∀ es : List BiosElem, at256BiosElems es = true → fxsBiosElems es = true → fxrBiosElems es = true
  | [], _, _ => rfl
  | .pad _ _ :: t, ha, hs => by
    simp only [at256BiosElems] at ha; simp only [fxsBiosElems] at hs
    simp only [fxrBiosElems]; exact fxrBiosElems_of t ha hs
  | .fv v :: t, ha, hs => by
    simp only [at256BiosElems, Bool.and_eq_true] at ha; simp only [fxsBiosElems, Bool.and_eq_true] at hs
    simp only [fxrBiosElems, fxrFv_of v ha.1 hs.1, fxrBiosElems_of t ha.2 hs.2, Bool.and_self]

theorem fxrRegions_of : ∀ rs : List Region, at256Regions rs = true → fxsRegions rs = true → fxrRegions rs = true
  | [], _, _ => rfl
  | .bios b :: t, ha, hs => by
    simp only [at256Regions, Bool.and_eq_true] at ha; simp only [fxsRegions, Bool.and_eq_true] at hs
    simp only [fxrRegions, fxrBiosElems_of b.elems ha.1 hs.1, fxrRegions_of t ha.2 hs.2, Bool.and_self]
  | .me _ _ :: t, ha, hs => by
    simp only [at256Regions] at ha; simp only [fxsRegions] at hs
    simp only [fxrRegions]; exact fxrRegions_of t ha hs
  | .raw _ _ _ :: t, ha, hs => by
    simp only [at256Regions] at ha; simp only [fxsRegions] at hs
    simp only [fxrRegions]; exact fxrRegions_of t ha hs

theorem fxr_of_parts (t : Tree) (ha : at256Tree t = true) (hs : fxsTreeAll t = true) : fxrTreeAll t = true := by
  cases t with
  | flash f =>
    simp only [at256Tree] at ha
    simp only [fxsTreeAll, Bool.and_eq_true] at hs
    simp only [fxrTreeAll, fxrRegions_of f.regions ha hs.1, hs.2, Bool.and_self]
  | bios b =>
    simp only [at256Tree] at ha
    simp only [fxsTreeAll] at hs
    simp only [fxrTreeAll]; exact fxrBiosElems_of b.elems ha hs

/-- the attribute part is free on trees whose files have attribute bytes -/
theorem restOkAll_of_size (h : Hooks) (t : Tree) (st : St) (ha : at256Tree t = true) (hs : sizeOkAll h t st = true) :
    restOkAll h t st = true := by
  unfold restOkAll
  unfold sizeOkAll at hs
  cases hr : asmTreeWith h t { st with ffs3 := false } with
  | error e => rfl
  | ok p =>
    obtain ⟨t1, st1⟩ := p
    rw [hr] at hs
    simp only [] at hs ⊢
    exact fxr_of_parts t1 (at256_asmTree h t _ t1 st1 hr ha) hs

/-- **the side condition for every parsed image** (any hooks): it follows from `DataOffset ≥ 60` in the volumes with
    files of the parsed tree and the size part on what the first pass wrote; the attribute part is proved -/
theorem savedOkAll_of_parsed (h : Hooks) (bs : Bytes) (t : Tree) (st : St) (hp : parse h bs = .ok t)
    (hd : d60Tree t = true) (hs : sizeOkAll h t st = true) : savedOkAll h t st = true :=
  savedOkAll_of_parts h t st (restOkAll_of_size h t st (atp_parse_okTree h bs t hp) hs) hd

end Fiano.Uefi
