/-
  C05 (follow-up wp-c05b) — what `visitors.Assemble` allocates when it re-lays a volume, on the model's meter
  (`makeG n` charges `n`, `appendG _ n` charges the `n` appended bytes).

  The bound that holds for one placed file (`placeFileG_alloc`):

        alloc ≤ |file| + 7 + 8 · alignment(file.Attributes)

  — the bytes in hand plus a multiple of the *data alignment the file header declares* (`fileAlignments`:
  powers of two up to 16 MiB).  The pad file is built (three copies of it) before anything checks that it
  fits the volume: known finding C05-alignment-pad.  For the end of the volume case (`finishFvG_alloc`):

        alloc ≤ 2 · max(Length, Blocks[0].Size)

  — the volume's own length, or the *first block size of the block map* (a `uint32` read from the image and
  checked against nothing) when a resizable (nested) volume has outgrown its length: known finding
  C05-assemble-block-size.  Together (`relayoutFvG_alloc`): the FirmwareVolume case allocates at most
  `Σ (|file| + 7 + 8·alignment) + 2·max(Length, Blocks[0].Size)`.  Props/C05.lean has `decide`-checked
  witnesses that neither term can be replaced by a multiple of the bytes in hand.
-/
import FianoModel.Uefi.TotalAsmSafe
import FianoModel.Uefi.TotalAlloc

namespace Fiano.Uefi.Total
open Fiano GoM Fiano.Uefi

/-! ### partial-correctness rules for the assemble primitives -/

theorem post'_fitsG {n : Nat} {m : Meter} {Q : Unit → Meter → Prop} (hq : n < 2 ^ 63 → Q () m) :
    Post' (fitsG n) m Q := by
  unfold fitsG
  split
  · exact post'_pure (hq ‹_›)
  · exact post'_panic

theorem post'_makeG {n : Nat} {m : Meter} {Q : Unit → Meter → Prop}
    (hq : n < 2 ^ 63 → Q () { m with alloc := m.alloc + n }) : Post' (makeG n) m Q := by
  unfold makeG
  refine post'_bind (post'_fitsG (fun hn => ?_))
  exact post'_allocG (by simpa using hq hn)

theorem post'_appendG {cur add : Nat} {m : Meter} {Q : Unit → Meter → Prop}
    (hq : cur + add < 2 ^ 63 → Q () { m with alloc := m.alloc + add }) : Post' (appendG cur add) m Q := by
  unfold appendG
  refine post'_bind (post'_fitsG (fun hn => ?_))
  exact post'_allocG (by simpa using hq hn)

theorem post'_ite {α} {c : Prop} [Decidable c] {x y : GoM α} {m : Meter} {Q : α → Meter → Prop}
    (hx : c → Post' x m Q) (hy : ¬ c → Post' y m Q) : Post' (if c then x else y) m Q := by
  split
  · exact hx ‹_›
  · exact hy ‹_›

theorem post'_of_post {α} {x : GoM α} {m : Meter} {Q : α → Meter → Prop} (h : Post x m Q) : Post' x m Q := by
  unfold Post at h; unfold Post'
  cases hx : x m with
  | ok r => obtain ⟨a, m'⟩ := r; rw [hx] at h; exact h
  | error e => trivial

theorem post'_sliceG {site : String} {b : Bytes} {lo hi : Nat} {m : Meter} {Q : Bytes → Meter → Prop}
    (hq : Q ((b.drop lo).take (hi - lo)) m) : Post' (sliceG site b lo hi) m Q := by
  unfold sliceG
  split
  · exact post'_pure hq
  · exact post'_panic

theorem post'_sliceFromG {site : String} {b : Bytes} {lo : Nat} {m : Meter} {Q : Bytes → Meter → Prop}
    (hq : Q (b.drop lo) m) : Post' (sliceFromG site b lo) m Q := by
  unfold sliceFromG
  split
  · exact post'_pure hq
  · exact post'_panic

theorem post'_sliceToG {site : String} {b : Bytes} {hi : Nat} {m : Meter} {Q : Bytes → Meter → Prop}
    (hq : hi ≤ b.length → Q (b.take hi) m) : Post' (sliceToG site b hi) m Q := by
  unfold sliceToG
  split
  · exact post'_pure (hq ‹_›)
  · exact post'_panic

theorem post'_putG {site : String} {b : Bytes} {k : Nat} {m : Meter} {Q : Unit → Meter → Prop}
    (hq : Q () m) : Post' (putG site b k) m Q := by
  unfold putG
  split
  · exact post'_pure hq
  · exact post'_panic

/-! ### `uefi.Align` (as translated) -/

theorem ofNat_toNat64 (v : Nat) (h : v < 2 ^ 64) : (UInt64.ofNat v).toNat = v := by
  simp [UInt64.toNat_ofNat']; omega

/-- a power-of-two base rounds up: `v ≤ Align(v, 2^k) < v + 2^k` -/
theorem alignG_pow2 (v k : Nat) (hk : k < 64) (hv : v + 2 ^ k < 2 ^ 64) :
    v ≤ alignG v (2 ^ k) ∧ alignG v (2 ^ k) < v + 2 ^ k := by
  have hv' : v < 2 ^ 64 := by have := Nat.two_pow_pos k; omega
  have hs := ArithTie.align_spec (UInt64.ofNat v) k hk (by rw [ofNat_toNat64 v hv']; exact hv)
  rw [ofNat_toNat64 v hv'] at hs
  unfold alignG
  rw [hs]
  have hp := Nat.two_pow_pos k
  generalize 2 ^ k = p at *
  have h1 : (v + p - 1) / p * p ≤ v + p - 1 := Nat.div_mul_le_self _ _
  have h2 : v + p - 1 < (v + p - 1) / p * p + p := Nat.lt_div_mul_add hp
  omega

/-- any base: `Align(v, b) ≤ v + b - 1` (the mask only clears bits) -/
theorem alignG_le (v b : Nat) (hb : 1 ≤ b) (hv : v + b < 2 ^ 64) : alignG v b ≤ v + b - 1 := by
  have hv' : v < 2 ^ 64 := by omega
  have hb' : b < 2 ^ 64 := by omega
  unfold alignG Gen.ArithUefi.fn_Align
  rw [UInt64.toNat_and]
  refine Nat.le_trans Nat.and_le_left ?_
  have hsum : (UInt64.ofNat v + UInt64.ofNat b).toNat = v + b := by
    rw [UInt64.toNat_add, ofNat_toNat64 v hv', ofNat_toNat64 b hb']
    exact Nat.mod_eq_of_lt hv
  have hle : (1 : UInt64) ≤ UInt64.ofNat v + UInt64.ofNat b := by
    rw [UInt64.le_iff_toNat_le, hsum]; simp; omega
  rw [UInt64.toNat_sub_of_le _ _ hle, hsum]
  simp

/-! ### pad files -/

theorem encodeFileHeader_length (i : FileInfo) (a b : UInt8) (large : Bool) :
    (encodeFileHeader i a b large).length = i.guid.length + 8 + (if large then 8 else 0) := by
  simp only [encodeFileHeader, List.length_append, List.length_cons, List.length_nil, leN_length]
  split <;> simp <;> omega

theorem checksumAndAssembleG_alloc (i : FileInfo) (fileData : Bytes) (m : Meter) :
    Post' (checksumAndAssembleG i fileData) m (fun r m' =>
      r.2.length = i.guid.length + 8 + (if i.attrs &&& 1 ≠ 0 then 8 else 0) + fileData.length ∧
      m'.alloc = m.alloc + fileData.length) := by
  unfold checksumAndAssembleG
  try simp only []
  refine post'_bind (post'_sliceToG (fun _ => ?_))
  refine post'_bind (post'_appendG (fun _ => ?_))
  refine post'_pure ⟨?_, rfl⟩
  simp only [List.length_append, encodeFileHeader_length]
  split <;> simp_all

theorem guidPad_length (pol : UInt8) : (if pol = 0xFF then guidFF else guidZero).length = 16 := by
  split <;> simp [guidFF, guidZero]

theorem setSize_pad (size : Nat) :
    (setSize 0 size false).1 = (if size ≥ 0xFFFFFF then 1 else 0) := by
  unfold setSize
  split <;> simp

/-- **CreatePadFile(size)**: the pad file has exactly `size` bytes and costs at most `3·size` -/
theorem createPadFileG_alloc (pol : UInt8) (size : Nat) (m : Meter) (hs : size < 2 ^ 64) :
    Post' (createPadFileG pol size) m (fun r m' => r.length = size ∧ m'.alloc ≤ m.alloc + 3 * size) := by
  unfold createPadFileG
  refine post'_ite (fun _ => post'_err) (fun h24 => ?_)
  refine post'_ite (fun _ => post'_err) (fun _ => ?_)
  try simp only []
  have e24 : (size + u64 - 24) % u64 = size - 24 := by simp only [u64]; omega
  rw [e24]
  rw [setSize_pad]
  by_cases hbig : size ≥ 0xFFFFFF
  · have e32 : (size + u64 - 32) % u64 = size - 32 := by simp only [u64]; omega
    rw [e32]
    simp only [hbig, if_true]
    refine post'_bind (post'_makeG (fun _ => ?_))
    refine post'_bind' (R := fun r m' => r = size - 32 ∧ m'.alloc = m.alloc + (size - 24) + (size - 32)) ?_ ?_
    · rw [if_pos (by decide)]
      refine post'_bind (post'_makeG (fun _ => ?_))
      exact post'_pure ⟨rfl, rfl⟩
    · rintro dl m1 ⟨hdl, hm1⟩
      subst hdl
      refine post'_bind' (checksumAndAssembleG_alloc _ _ _) ?_
      rintro ⟨i', b⟩ m2 ⟨hl, ha⟩
      refine post'_pure ⟨?_, ?_⟩
      · simp only [guidPad_length, List.length_replicate] at hl
        simp only [] at hl ⊢
        rw [hl]
        simp
        omega
      · simp only [List.length_replicate] at ha
        omega
  · simp only [hbig, if_false]
    refine post'_bind (post'_makeG (fun _ => ?_))
    refine post'_bind' (R := fun r m' => r = size - 24 ∧ m'.alloc = m.alloc + (size - 24)) ?_ ?_
    · rw [if_neg (by decide)]
      exact post'_pure ⟨rfl, rfl⟩
    · rintro dl m1 ⟨hdl, hm1⟩
      subst hdl
      refine post'_bind' (checksumAndAssembleG_alloc _ _ _) ?_
      rintro ⟨i', b⟩ m2 ⟨hl, ha⟩
      refine post'_pure ⟨?_, ?_⟩
      · simp only [guidPad_length, List.length_replicate] at hl
        simp only [] at hl ⊢
        rw [hl]
        simp
        omega
      · simp only [List.length_replicate] at ha
        omega

theorem insertFileG_alloc (pol : UInt8) (buf : Bytes) (alignedOffset : Nat) (fBuf : Bytes) (m : Meter) :
    Post' (insertFileG pol buf alignedOffset fBuf) m (fun r m' =>
      buf.length ≤ alignedOffset ∧ r.length = alignedOffset + fBuf.length ∧ r.length < 2 ^ 63 ∧
      m'.alloc = m.alloc + (alignedOffset - buf.length) + fBuf.length) := by
  unfold insertFileG
  refine post'_ite (fun _ => post'_err) (fun hle => ?_)
  refine post'_bind (post'_appendG (fun _ => ?_))
  refine post'_ite (fun _ => post'_err) (fun _ => ?_)
  refine post'_bind (post'_appendG (fun hfit => ?_))
  refine post'_pure ⟨by omega, ?_, ?_, rfl⟩
  · simp only [List.length_append, List.length_replicate]; omega
  · simp only [List.length_append, List.length_replicate]; omega

/-! ### one placed file -/

/-- the size of the pad file `placeFileG` asks for (`newOffset - alignedOffset`, with Go's wrap-around) -/
def padSizeOf (alignedOffset hl alignBase : Nat) : Nat :=
  let fdo := alignG ((alignedOffset + hl) % u64) alignBase
  let newOffset := (fdo + u64 - hl) % u64
  let gap := (newOffset + u64 - alignedOffset) % u64
  let newOffset := if gap ≥ 8 ∧ gap < 24 then
      (alignG ((fdo + 1) % u64) alignBase + u64 - hl) % u64 else newOffset
  (newOffset + u64 - alignedOffset) % u64

/-- where the file goes: `alignedOffset + padSize`, and the pad is shorter than twice the alignment -/
theorem placement (ao hl k : Nat) (hao : ao < 2 ^ 63 + 8) (hhl : hl = 24 ∨ hl = 32) (hk : k ≤ 24) :
    let fdo := alignG ((ao + hl) % u64) (2 ^ k)
    let newOffset := (fdo + u64 - hl) % u64
    let gap := (newOffset + u64 - ao) % u64
    let newOffset' := if gap ≥ 8 ∧ gap < 24 then (alignG ((fdo + 1) % u64) (2 ^ k) + u64 - hl) % u64 else newOffset
    ao ≤ newOffset' ∧ newOffset' < ao + 2 * 2 ^ k ∧ (newOffset' + u64 - ao) % u64 = newOffset' - ao := by
  have hp24 : (2:Nat) ^ k ≤ 2 ^ 24 := Nat.pow_le_pow_right (by omega) hk
  have hpos := Nat.two_pow_pos k
  have e1 : (ao + hl) % u64 = ao + hl := by simp only [u64]; omega
  have hA := alignG_pow2 (ao + hl) k (by omega) (by omega)
  intro fdo newOffset gap newOffset'
  have hfdo : fdo = alignG (ao + hl) (2 ^ k) := by simp only [fdo, e1]
  have e2 : (fdo + 1) % 18446744073709551616 = fdo + 1 := by omega
  have hB := alignG_pow2 (fdo + 1) k (by omega) (by omega)
  have hno : newOffset = fdo - hl := by simp only [newOffset, u64]; omega
  have hgap : gap = newOffset - ao := by simp only [gap, u64]; omega
  by_cases hg : gap ≥ 8 ∧ gap < 24
  · have hn' : newOffset' = alignG (fdo + 1) (2 ^ k) - hl := by
      simp only [newOffset', if_pos hg, u64, e2]; omega
    refine ⟨by omega, by omega, ?_⟩
    simp only [u64]; omega
  · have hn' : newOffset' = newOffset := by simp only [newOffset', if_neg hg]
    refine ⟨by omega, by omega, ?_⟩
    simp only [u64]; omega

theorem mem_fileAlignments_pow (a : Nat) (ha : a ∈ fileAlignments) : ∃ k, k ≤ 24 ∧ a = 2 ^ k := by
  obtain ⟨k, hk, hak⟩ := fileAlignments_shape.2 a ha
  exact ⟨k, by omega, hak⟩

/-- what one iteration of the file loop returns and costs: the running offset stays the buffer length, and
    the allocation is the file, at most 7 bytes of padding, and at most 8 times the declared alignment -/
def PlaceQ (buf : Bytes) (fileBuf : Bytes) (a : Nat) (m : Meter) (r : Bytes × Nat) (m' : Meter) : Prop :=
  r.2 = r.1.length ∧ r.1.length < 2 ^ 63 ∧ m'.alloc ≤ m.alloc + fileBuf.length + 7 + 8 * a

theorem getAlignmentG_eq (attrs : Nat) (m : Meter) :
    Post (getAlignmentG attrs) m (fun a m' => m' = m ∧ a ∈ fileAlignments ∧ a = alignmentOf attrs) := by
  unfold getAlignmentG alignmentOf
  have hlt : (((attrs &&& 0x38) >>> 3) ||| ((attrs &&& 0x02) <<< 2)) < fileAlignments.length := by
    have := alignIdx_lt attrs
    have h16 : fileAlignments.length = 16 := by decide
    omega
  rw [List.getElem?_eq_getElem hlt]
  refine post_pure ⟨rfl, List.getElem_mem hlt, ?_⟩
  rw [List.getD_eq_getElem?_getD, List.getElem?_eq_getElem hlt]
  rfl

theorem placeFileG_alloc (pol : UInt8) (buf : Bytes) (fileOffset attrs : Nat) (fileBuf : Bytes) (m : Meter)
    (hoff : fileOffset = buf.length) (hlt : buf.length < 2 ^ 63) :
    Post' (placeFileG pol buf fileOffset attrs fileBuf) m (fun r m' =>
      PlaceQ buf fileBuf (if alignmentOf attrs = 1 then 0 else alignmentOf attrs) m r m') := by
  unfold placeFileG
  refine post'_ite (fun _ => post'_err) (fun _ => ?_)
  try simp only []
  have hao1 := align8G_ge fileOffset (by omega)
  have hao2 := align8G_le fileOffset (by omega)
  refine post'_bind' (post'_of_post (getAlignmentG_eq attrs m)) ?_
  rintro a m1 ⟨hm1, ha, haeq⟩
  rw [← haeq]
  have hm1' : m1.alloc = m.alloc := by rw [hm1]
  obtain ⟨k, hk, hak⟩ := mem_fileAlignments_pow a ha
  refine post'_ite (fun hne1 => ?_) (fun he1 => ?_)
  · -- data alignment requested
    try simp only []
    have hhl : (if attrs &&& 1 ≠ 0 then 32 else 24) = 24 ∨ (if attrs &&& 1 ≠ 0 then 32 else 24) = 32 := by
      split <;> simp
    subst hak
    have hpl := placement (align8G fileOffset) (if attrs &&& 1 ≠ 0 then 32 else 24) k (by omega) hhl hk
    simp only [] at hpl
    generalize hno : (if
        (((alignG ((align8G fileOffset + if attrs &&& 1 ≠ 0 then 32 else 24) % u64) (2 ^ k) + u64 -
                      if attrs &&& 1 ≠ 0 then 32 else 24) % u64 + u64 - align8G fileOffset) % u64 ≥ 8 ∧
            ((alignG ((align8G fileOffset + if attrs &&& 1 ≠ 0 then 32 else 24) % u64) (2 ^ k) + u64 -
                      if attrs &&& 1 ≠ 0 then 32 else 24) % u64 + u64 - align8G fileOffset) % u64 < 24)
        then (alignG ((alignG ((align8G fileOffset + if attrs &&& 1 ≠ 0 then 32 else 24) % u64) (2 ^ k) + 1) % u64) (2 ^ k) +
              u64 - if attrs &&& 1 ≠ 0 then 32 else 24) % u64
        else (alignG ((align8G fileOffset + if attrs &&& 1 ≠ 0 then 32 else 24) % u64) (2 ^ k) + u64 -
              if attrs &&& 1 ≠ 0 then 32 else 24) % u64) = newOffset at hpl ⊢
    obtain ⟨hge, hlt2, hsz⟩ := hpl
    have hp24 : (2:Nat) ^ k ≤ 2 ^ 24 := Nat.pow_le_pow_right (by omega) hk
    refine post'_bind' (R := fun b m' => b.length ≤ newOffset ∧ newOffset ≤ b.length + 7 ∧
        (newOffset ≠ align8G fileOffset → b.length = newOffset) ∧
        m'.alloc ≤ m1.alloc + 7 + 4 * (newOffset - align8G fileOffset)) ?_ ?_
    · refine post'_ite (fun hneq => ?_) (fun heq => ?_)
      · rw [hsz]
        refine post'_bind' (createPadFileG_alloc pol _ _ (by omega)) ?_
        rintro pad m2 ⟨hpl, hpa⟩
        refine post'_mono (insertFileG_alloc pol buf _ pad _) ?_
        rintro b m3 ⟨h1, h2, h3, h4⟩
        refine ⟨by omega, by omega, fun _ => by omega, ?_⟩
        omega
      · have : newOffset = align8G fileOffset := by simpa using heq
        exact post'_pure ⟨by omega, by omega, fun h => absurd this h, by omega⟩
    · rintro b1 m2 ⟨hb1, hb2, hb3, hb4⟩
      refine post'_bind' (insertFileG_alloc pol b1 newOffset fileBuf _) ?_
      rintro b2 m3 ⟨h1, h2, h3, h4⟩
      refine post'_pure ?_
      rw [if_neg hne1]
      refine ⟨?_, h3, ?_⟩
      · simp only [u64]; omega
      · by_cases hneq : newOffset = align8G fileOffset
        · omega
        · have := hb3 hneq; omega
  · -- no data alignment
    have ha1 : a = 1 := by simpa using he1
    refine post'_bind' (insertFileG_alloc pol buf _ fileBuf _) ?_
    rintro b2 m3 ⟨h1, h2, h3, h4⟩
    refine post'_pure ?_
    rw [if_pos ha1]
    refine ⟨?_, h3, ?_⟩
    · simp only [u64]; omega
    · omega

/-- the alignment allowance of a list of (attributes, buffer) pairs: `Σ (|file| + 7 + 8·16 MiB)` is the crude
    form; the sharp one takes each file's own alignment -/
def placeCost : List (Nat × Bytes) → Nat
  | [] => 0
  | (attrs, fb) :: rest => fb.length + 7 + 8 * (if alignmentOf attrs = 1 then 0 else alignmentOf attrs) + placeCost rest

theorem placeFilesG_alloc (pol : UInt8) : ∀ (fs : List (Nat × Bytes)) (buf : Bytes) (off : Nat) (m : Meter),
    off = buf.length → buf.length < 2 ^ 63 →
    Post' (placeFilesG pol fs buf off) m (fun r m' => r.length < 2 ^ 63 ∧ m'.alloc ≤ m.alloc + placeCost fs)
  | [], buf, off, m, _, hlt => by rw [placeFilesG]; exact post'_pure ⟨hlt, by simp [placeCost]⟩
  | (attrs, fb) :: rest, buf, off, m, hoff, hlt => by
    rw [placeFilesG]
    refine post'_bind' (placeFileG_alloc pol buf off attrs fb m hoff hlt) ?_
    rintro ⟨buf', off'⟩ m1 ⟨h1, h2, h3⟩
    simp only [] at h1 h2 h3 ⊢
    refine post'_mono (placeFilesG_alloc pol rest buf' off' m1 h1 h2) ?_
    rintro r m2 ⟨hr, ha⟩
    refine ⟨hr, ?_⟩
    simp only [placeCost]
    omega

/-! ### the end of the FirmwareVolume case -/

/-- `f.Blocks[0].Size`: a `uint32` of the block map, checked against nothing -/
def firstBlockSize (i : FvInfo) : Nat :=
  match i.blocks with
  | b :: _ => b.size
  | [] => 0

/-- growth and fill: at most twice the volume's own length, or twice its first block size when a resizable
    volume outgrew its length (the model charges the `make` and the `append` of the same bytes) -/
theorem finishFvG_alloc (i : FvInfo) (fbuf : Bytes) (st : St) (m : Meter)
    (hfit : fbuf.length < 2 ^ 63) (hbs : firstBlockSize i < 2 ^ 32) :
    Post' (finishFvG i fbuf st) m (fun _ m' => m'.alloc ≤ m.alloc + 2 * max i.length (firstBlockSize i)) := by
  unfold finishFvG
  try simp only []
  refine post'_ite (fun _ => post'_err) (fun _ => ?_)
  refine post'_bind' (R := fun r m' => m' = m ∧ r.1 ≤ fbuf.length + max i.length (firstBlockSize i)) ?_ ?_
  · refine post'_ite (fun hlt => ?_) (fun hge => ?_)
    · split
      · exact post'_panic
      · rename_i b0 bs hb
        refine post'_ite (fun _ => post'_err) (fun hnz => ?_)
        refine post'_pure ⟨rfl, ?_⟩
        have hfb : firstBlockSize i = b0.size := by simp [firstBlockSize, hb]
        have := alignG_le fbuf.length b0.size (by omega) (by omega)
        simp only []
        omega
    · exact post'_pure ⟨rfl, by simp only []; omega⟩
  · rintro ⟨length, blocks⟩ m1 ⟨hm1, hlen⟩
    simp only [] at hlen ⊢
    subst hm1
    refine post'_bind' (R := fun _ m' => m'.alloc ≤ m1.alloc + 2 * max i.length (firstBlockSize i)) ?_ ?_
    · refine post'_ite (fun hgt => ?_) (fun _ => post'_pure (by omega))
      refine post'_bind (post'_makeG (fun _ => ?_))
      refine post'_bind (post'_appendG (fun _ => ?_))
      refine post'_pure ?_
      simp only []
      omega
    · intro fb m2 hm2
      refine post'_bind (post'_sliceFromG ?_)
      refine post'_bind (post'_putG ?_)
      refine post'_bind' (R := fun _ m' => m' = m2) ?_ ?_
      · split
        · refine post'_bind (post'_sliceG ?_)
          exact post'_pure rfl
        · exact post'_pure rfl
      · intro b1 m3 hm3
        subst hm3
        split
        · exact post'_panic
        · refine post'_bind (post'_sliceFromG ?_)
          refine post'_bind (post'_putG ?_)
          refine post'_bind (post'_sliceFromG ?_)
          refine post'_bind (post'_putG ?_)
          refine post'_ite (fun _ => post'_err) (fun _ => ?_)
          refine post'_bind (post'_sliceToG (fun _ => ?_))
          refine post'_ite (fun _ => post'_err) (fun _ => ?_)
          refine post'_bind (post'_sliceFromG ?_)
          refine post'_bind (post'_putG ?_)
          exact post'_pure hm2

/-- **the FirmwareVolume case of Assemble** allocates at most
    `Σ_files (|file| + 7 + 8·alignment) + 2·max(Length, Blocks[0].Size)` -/
theorem relayoutFvG_alloc (i : FvInfo) (buf : Bytes) (files : List File) (st : St) (m : Meter)
    (hb : buf.length < 2 ^ 63) (hbs : firstBlockSize i < 2 ^ 32) :
    Post' (relayoutFvG i buf files st) m (fun _ m' =>
      m'.alloc ≤ m.alloc + placeCost (files.map (fun f => (f.info.attrs, f.buf))) + 2 * max i.length (firstBlockSize i)) := by
  unfold relayoutFvG
  refine post'_ite (fun _ => post'_err) (fun _ => ?_)
  refine post'_ite (fun _ => post'_err) (fun _ => ?_)
  refine post'_ite (fun _ => post'_err) (fun _ => ?_)
  refine post'_bind' (R := fun hdr m' => m' = m ∧ hdr.length = i.dataOffset ∧ hdr.length < 2 ^ 63) ?_ ?_
  · refine post'_ite (fun _ => ?_) (fun heq => ?_)
    · refine post'_sliceToG (fun hle => ?_)
      exact ⟨rfl, by simp; omega, by simp; omega⟩
    · have : i.dataOffset = buf.length := by simpa using heq
      exact post'_pure ⟨rfl, by omega, hb⟩
  · rintro hdr m1 ⟨hm1, hl, hlt⟩
    subst hm1
    refine post'_bind' (placeFilesG_alloc st.pol _ hdr i.dataOffset m1 hl.symm hlt) ?_
    rintro fbuf m2 ⟨hf, ha⟩
    refine post'_mono (finishFvG_alloc i fbuf st m2 hf hbs) ?_
    intro r m3 h3
    omega

end Fiano.Uefi.Total
