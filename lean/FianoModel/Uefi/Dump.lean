/-
  Canonical pre-order dump of a UEFI tree — the wire format shared with the Go harness
  (harness/props/uefi/dump.go implements the same dump on a `uefi.Firmware` tree).

  One record per node, pre-order, records joined by " | ".  Inside a record: the node kind, then
  `key=value` fields separated by one space, in the fixed order below.  Numbers are decimal, byte
  strings lower-case hex ("-" when empty), `fnv` = FNV-1a-64 of the node's buffer as 16 hex digits,
  `len` = length of the node's buffer, `n` = number of children that follow (pre-order).

    flash size len fnv                                  children: ifd, regions…
    ifd   ms rs mas map ers regs=b:l,… master=id:r:w,… len fnv
    bios  base limit blen n len fnv                     (base/limit "-" for a bare BIOS region)
    me    base limit len fnv
    raw   t base limit len fnv                          (t = -1 for gap regions)
    pad   off len fnv
    fv    off guid length sig attrs hlen ck eho rsv rev blocks=c:s,… name ehs doff resz free n len fnv
    file  guid ckh ckf type attrs size3 state ext doff nvar n len fnv
    sec   ord size3 type ext ts=guid:doff:attrs:comp|- name=cp.cp…|- build ver=cp.cp…|-
          depex=op[:guid],…|- n len fnv

  The digest of a tree is FNV-1a-64 of the dump text.  Core Lean only.
-/
import FianoModel.Uefi.Assemble

namespace Fiano.Uefi
open Fiano

def hexDigit (n : Nat) : Char :=
  if n < 10 then Char.ofNat (48 + n) else Char.ofNat (87 + n)

def hexOf (b : Bytes) : String :=
  if b.isEmpty then "-" else
  String.ofList (b.foldr (fun x acc => hexDigit (x.toNat / 16) :: hexDigit (x.toNat % 16) :: acc) [])

def fnv1a (b : Bytes) : UInt64 :=
  b.foldl (fun h x => (h ^^^ x.toUInt64) * 0x100000001b3) 0xcbf29ce484222325

def hex16 (v : UInt64) : String :=
  String.ofList ((List.range 16).map (fun i => hexDigit ((v.toNat >>> (4 * (15 - i))) % 16)))

def fnvOf (b : Bytes) : String := hex16 (fnv1a b)

def joinWith (sep : String) : List String → String
  | [] => ""
  | [x] => x
  | x :: xs => x ++ sep ++ joinWith sep xs

def orDash (s : String) : String := if s.isEmpty then "-" else s

def cpsOf (l : List Nat) : String := orDash (joinWith "." (l.map toString))

def depexOf (l : List DepOp) : String :=
  orDash (joinWith "," (l.map (fun d => match d.guid with
    | some g => s!"{d.op}:{hexOf g}"
    | none => s!"{d.op}")))

def tail (b : Bytes) : String := s!"len={b.length} fnv={fnvOf b}"

def frOf : Option FlashRegion → String
  | some f => s!"base={f.base} limit={f.limit}"
  | none => "base=- limit=-"

mutual
def dumpSection : Section → List String
  | .mk i buf encap =>
    let ts := match i.ts with
      | some g => s!"{hexOf g.guid}:{g.dataOffset}:{g.attrs}:{orDash g.compression}"
      | none => "-"
    s!"sec ord={i.fileOrder} size3={i.size3} type={i.type} ext={i.extSize} ts={ts} name={cpsOf i.name} build={i.build} ver={cpsOf i.version} depex={depexOf i.depex} n={encap.length} {tail buf}"
      :: dumpNodes encap
def dumpNodes : List Node → List String
  | [] => []
  | .sec s :: ns => dumpSection s ++ dumpNodes ns
  | .fv v :: ns => dumpFv v ++ dumpNodes ns
def dumpSections : List Section → List String
  | [] => []
  | s :: ss => dumpSection s ++ dumpSections ss
def dumpFile : File → List String
  | .mk i buf secs =>
    s!"file guid={hexOf i.guid} ckh={i.ckHeader} ckf={i.ckFile} type={i.type} attrs={i.attrs} size3={i.size3} state={i.state} ext={i.extSize} doff={i.dataOffset} nvar={if i.nvar.isSome then 1 else 0} n={secs.length} {tail buf}"
      :: dumpSections secs
def dumpFiles : List File → List String
  | [] => []
  | f :: fs => dumpFile f ++ dumpFiles fs
def dumpFv : Fv → List String
  | .mk i buf files =>
    let blocks := orDash (joinWith "," (i.blocks.map (fun b => s!"{b.count}:{b.size}")))
    s!"fv off={i.fvOffset} guid={hexOf i.fsGuid} length={i.length} sig={i.signature} attrs={i.attrs} hlen={i.headerLen} ck={i.checksum} eho={i.extHeaderOffset} rsv={i.reserved} rev={i.revision} blocks={blocks} name={hexOf i.fvName} ehs={i.extHeaderSize} doff={i.dataOffset} resz={if i.resizable then 1 else 0} free={i.freeSpace} n={files.length} {tail buf}"
      :: dumpFiles files
end

def dumpBiosElems : List BiosElem → List String
  | [] => []
  | .pad b o :: es => s!"pad off={o} {tail b}" :: dumpBiosElems es
  | .fv v :: es => dumpFv v ++ dumpBiosElems es

def dumpBios (b : BiosRegion) : List String :=
  s!"bios {frOf b.fr} blen={b.length} n={b.elems.length} {tail b.buf}" :: dumpBiosElems b.elems

def dumpRegion : Region → List String
  | .bios b => dumpBios b
  | .me buf fr => [s!"me {frOf (some fr)} {tail buf}"]
  | .raw buf fr t => [s!"raw t={t} {frOf (some fr)} {tail buf}"]

def dumpDescriptor (d : Descriptor) : String :=
  let regs := joinWith "," (d.region.regions.map (fun r => s!"{r.base}:{r.limit}"))
  let mas := joinWith "," (d.master.perms.map (fun (i, r, w) => s!"{i}:{r}:{w}"))
  s!"ifd ms={d.mapStart} rs={d.regionStart} mas={d.masterStart} map={hexOf (d.map.fields.map byte)} ers={d.region.eraseSize} regs={regs} master={mas} {tail d.buf}"

def dumpTree : Tree → List String
  | .flash f =>
    s!"flash size={f.flashSize} {tail f.buf}" :: dumpDescriptor f.ifd :: (f.regions.map dumpRegion).flatten
  | .bios b => dumpBios b

def dumpText (t : Tree) : String := joinWith " | " (dumpTree t)

def digestOf (t : Tree) : String := hex16 (fnv1a (dumpText t).toUTF8.toList)

/-- short form: `kind:len` of every node -/
def shortOf (t : Tree) : String :=
  joinWith "," ((dumpTree t).map (fun r =>
    let ws := r.splitOn " "
    let kind := ws.headD "?"
    let len := (ws.find? (·.startsWith "len=")).getD "len=?"
    kind ++ ":" ++ (len.drop 4).toString))

def errName : Err → String
  | .err => "err" | .panic => "panic" | .fatal => "fatal" | .hang => "hang" | .fuel => "fuel"

end Fiano.Uefi
