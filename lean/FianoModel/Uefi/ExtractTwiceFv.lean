/-
  UEFI core model — saving is a fixed point in memory: the FirmwareVolume case (follow-up wp-c07b).

  `relayoutFv_idem`: running the second half of the FirmwareVolume case of `Assemble.Visit` again, on
  the record and the buffer it has just written and on the same (already assembled) files, writes the
  same record and the same buffer.

  Side conditions (all on what the first run produced / was given):
    * the written buffer is no longer than the new `Length` — false only when `uefi.Align` wrapped
      around 2^64 while the volume grew;
    * `DataOffset ≥ 60`: the header patches (Length at 32, file-system GUID at 16, block count at 56,
      checksum at 50) lie in the header part `buf[:DataOffset]` that the second run keeps;
    * file attribute bytes below 256 and the re-laid files end below 2^62 — the range in which the
      64-bit offset arithmetic of the file loop is the closed form `layAll` of the C02 library
      (Uefi/LayoutLemmas.lean `placeFiles_eq`).
-/
import FianoModel.Uefi.ExtractTwice
import FianoModel.Uefi.RelayoutLemmas
import FianoModel.Uefi.ExactLay

namespace Fiano.Uefi
open Fiano

/-! ### the copies of the closed form in Uefi/ExtractTwiceDefs.lean are the C02 library's -/

theorem twFileStart_eq (off attrs : Nat) : twFileStart off attrs = fileStart off attrs := rfl

theorem twLayEnd_eq : ∀ (l : List (Nat × Bytes)) (off : Nat), twLayEnd l off = layEnd l off
  | [], _ => rfl
  | (a, fb) :: rest, off => by
    simp only [twLayEnd, layEnd, twFileStart_eq]
    exact twLayEnd_eq rest _

/-! ### one byte of a spliced buffer -/

theorem tw_splice_mid (y : Bytes) (o : Nat) (v : Bytes) (i : Nat) (h1 : o ≤ i) (h2 : i < o + v.length)
    (h : o + v.length ≤ y.length) : (splice y o v)[i]? = v[i - o]? := by
  have ht : (y.take o).length = o := by simp; omega
  simp only [splice, List.append_assoc]
  rw [List.getElem?_append_right (by omega), ht, List.getElem?_append_left (by omega)]

theorem tw_splice_get (y : Bytes) (o : Nat) (v : Bytes) (i : Nat) (h : o + v.length ≤ y.length) :
    (splice y o v)[i]? = if o ≤ i ∧ i < o + v.length then v[i - o]? else y[i]? := by
  by_cases hc : o ≤ i ∧ i < o + v.length
  · rw [if_pos hc]; exact tw_splice_mid y o v i hc.1 hc.2 h
  · rw [if_neg hc]
    by_cases h1 : i < o
    · exact splice_getElem?_lt y o v i h1 h
    · exact splice_getElem?_ge y o v i (by omega) h

/-! ### the header patches -/

/-- the buffer `patchFvHeader` computes the checksum over -/
def prePatch (x : Bytes) (length : Nat) (g : Option Guid) (count : Nat) : Bytes :=
  let b := splice x 32 (leN 8 length)
  let b := match g with
    | some g => splice b 16 (g.take 16)
    | none => b
  splice (splice b 56 (leN 4 count)) 50 [0, 0]

theorem patchFvHeader_eq (x : Bytes) (length : Nat) (g : Option Guid) (count hl : Nat) :
    patchFvHeader x length g count hl =
      if x.length < 60 then .error .panic
      else if hl > (prePatch x length g count).length then .error .err
      else if hl % 2 ≠ 0 then .error .err
      else .ok (splice (prePatch x length g count) 50
        (leN 2 ((0 - sum16 ((prePatch x length g count).take hl)).toNat))) := by
  unfold patchFvHeader prePatch
  cases g <;> rfl

theorem prePatch_length (x : Bytes) (length : Nat) (g : Option Guid) (count : Nat) (h60 : 60 ≤ x.length) :
    (prePatch x length g count).length = x.length := by
  have l1 : (splice x 32 (leN 8 length)).length = x.length := splice_length _ _ _ (by simp; omega)
  have key : ∀ b : Bytes, b.length = x.length → (splice (splice b 56 (leN 4 count)) 50 [0, 0]).length = x.length := by
    intro b hb
    rw [splice_length _ _ _ (by rw [splice_length _ _ _ (by simp; omega)]; simp; omega),
      splice_length _ _ _ (by simp; omega), hb]
  unfold prePatch
  cases g with
  | none => exact key _ l1
  | some gg =>
    have hg : (gg.take 16).length ≤ 16 := by simp; omega
    exact key _ (by rw [splice_length _ _ _ (by omega)]; exact l1)

/-- one byte of the pre-checksum buffer -/
theorem prePatch_get (x : Bytes) (length : Nat) (g : Option Guid) (count : Nat) (h60 : 60 ≤ x.length) (i : Nat) :
    (prePatch x length g count)[i]? =
      if 50 ≤ i ∧ i < 52 then ([0, 0] : Bytes)[i - 50]?
      else if 56 ≤ i ∧ i < 60 then (leN 4 count)[i - 56]?
      else match g with
        | some gg => if 16 ≤ i ∧ i < 16 + (gg.take 16).length then (gg.take 16)[i - 16]?
                     else if 32 ≤ i ∧ i < 40 then (leN 8 length)[i - 32]? else x[i]?
        | none => if 32 ≤ i ∧ i < 40 then (leN 8 length)[i - 32]? else x[i]? := by
  have l1 : (splice x 32 (leN 8 length)).length = x.length := splice_length _ _ _ (by simp; omega)
  have g1 : (splice x 32 (leN 8 length))[i]? = if 32 ≤ i ∧ i < 40 then (leN 8 length)[i - 32]? else x[i]? := by
    rw [tw_splice_get _ _ _ _ (by simp; omega)]; simp
  have key : ∀ b : Bytes, b.length = x.length →
      (splice (splice b 56 (leN 4 count)) 50 [0, 0])[i]? =
        if 50 ≤ i ∧ i < 52 then ([0, 0] : Bytes)[i - 50]?
        else if 56 ≤ i ∧ i < 60 then (leN 4 count)[i - 56]? else b[i]? := by
    intro b hb
    rw [tw_splice_get _ _ _ _ (by rw [splice_length _ _ _ (by simp; omega)]; simp; omega),
      tw_splice_get _ _ _ _ (by simp; omega)]
    simp
  unfold prePatch
  cases g with
  | none => simp only []; rw [key _ l1, g1]
  | some gg =>
    have hg : (gg.take 16).length ≤ 16 := by simp; omega
    simp only []
    rw [key _ (by rw [splice_length _ _ _ (by omega)]; exact l1), tw_splice_get _ _ _ _ (by omega), g1]

/-- **patching a patched header again (without a GUID switch) changes nothing** -/
theorem patchFvHeader_idem (x : Bytes) (length : Nat) (g : Option Guid) (count hl : Nat) (out : Bytes)
    (h : patchFvHeader x length g count hl = .ok out) : patchFvHeader out length none count hl = .ok out := by
  rw [patchFvHeader_eq] at h
  by_cases h60 : x.length < 60
  · rw [if_pos h60] at h; cases h
  rw [if_neg h60] at h
  have h60' : 60 ≤ x.length := by omega
  have lb := prePatch_length x length g count h60'
  by_cases h2 : hl > (prePatch x length g count).length
  · rw [if_pos h2] at h; cases h
  rw [if_neg h2] at h
  by_cases h3 : hl % 2 ≠ 0
  · rw [if_pos h3] at h; cases h
  rw [if_neg h3] at h
  have hout : out = splice (prePatch x length g count) 50
      (leN 2 ((0 - sum16 ((prePatch x length g count).take hl)).toNat)) := by cases h; rfl
  have lo : out.length = x.length := by
    rw [hout, splice_length _ _ _ (by simp; omega), lb]
  have key : prePatch out length none count = prePatch x length g count := by
    apply List.ext_getElem?
    intro i
    rw [prePatch_get out length none count (by omega) i, prePatch_get x length g count h60' i]
    by_cases c1 : 50 ≤ i ∧ i < 52
    · rw [if_pos c1, if_pos c1]
    rw [if_neg c1, if_neg c1]
    by_cases c2 : 56 ≤ i ∧ i < 60
    · rw [if_pos c2, if_pos c2]
    rw [if_neg c2, if_neg c2]
    simp only []
    have ho : out[i]? = (prePatch x length g count)[i]? := by
      rw [hout, tw_splice_get _ _ _ _ (by simp; omega)]
      rw [if_neg (by simp; omega)]
    by_cases c3 : 32 ≤ i ∧ i < 40
    · rw [if_pos c3]
      cases g with
      | none => simp only []; rw [if_pos c3]
      | some gg =>
        have hg : (gg.take 16).length ≤ 16 := by simp; omega
        simp only []
        rw [if_neg (by omega), if_pos c3]
    · rw [if_neg c3, ho, prePatch_get x length g count h60' i, if_neg c1, if_neg c2]
  rw [patchFvHeader_eq, if_neg (by omega), key, if_neg h2, if_neg h3, ← hout]

/-! ### the second half of the FirmwareVolume case -/

/-- the buffer handed to the header patch: the re-laid files followed by the erased tail -/
def padTo (fbuf : Bytes) (length : Nat) (pol : UInt8) : Bytes :=
  if length > fbuf.length then fbuf ++ List.replicate (length - fbuf.length) pol else fbuf

/-- what a successful `finishFv` did -/
theorem finishFv_inv (i : FvInfo) (fbuf : Bytes) (st : St) (i' : FvInfo) (out : Bytes) (st' : St)
    (h : finishFv i fbuf st = .ok (i', out, st')) :
    ∃ (length : Nat) (b0 : Block) (bs : List Block),
      i' = { i with length := length, blocks := b0 :: bs,
                    freeSpace := (length + 18446744073709551616 - align8 fbuf.length) % 18446744073709551616,
                    fsGuid := if (st.ffs3 && i.fsGuid == guidFFS2) = true then guidFFS3 else i.fsGuid } ∧
      st' = { st with ffs3 := false } ∧
      patchFvHeader (padTo fbuf length st.pol) length
        (if (st.ffs3 && i.fsGuid == guidFFS2) = true then some guidFFS3 else none) b0.count i.headerLen = .ok out := by
  unfold finishFv at h
  by_cases hc : i.length < fbuf.length ∧ ¬ i.resizable = true
  · rw [if_pos hc] at h; cases h
  · rw [if_neg hc] at h
    simp only at h
    split at h
    · cases h
    · rename_i length blocks hrz
      split at h
      · cases h
      · rename_i b0 bs
        split at h
        · cases h
        · rename_i out' hp
          cases h
          exact ⟨length, b0, bs, rfl, rfl, hp⟩

/-- `finishFv` on a record whose volume does not have to grow -/
theorem finishFv_fit (j : FvInfo) (fbuf : Bytes) (st : St) (b0 : Block) (bs : List Block) (out : Bytes)
    (hfit : ¬ j.length < fbuf.length) (hbl : j.blocks = b0 :: bs)
    (hpatch : patchFvHeader (padTo fbuf j.length st.pol) j.length
      (if (st.ffs3 && j.fsGuid == guidFFS2) = true then some guidFFS3 else none) b0.count j.headerLen = .ok out) :
    finishFv j fbuf st =
      .ok ({ j with freeSpace := (j.length + 18446744073709551616 - align8 fbuf.length) % 18446744073709551616,
                    fsGuid := if (st.ffs3 && j.fsGuid == guidFFS2) = true then guidFFS3 else j.fsGuid },
           out, { st with ffs3 := false }) := by
  unfold finishFv
  rw [if_neg (fun hc => hfit hc.1)]
  simp only [hfit, if_false, hbl]
  unfold padTo at hpatch
  rw [hpatch]

theorem relayoutFv_keep (i : FvInfo) (buf : Bytes) (fs : List File) (st : St) (i' : FvInfo) (out : Bytes) (st' : St)
    (h : relayoutFv i buf fs st = .ok (i', out, st')) : i'.dataOffset = i.dataOffset ∧ i'.attrs = i.attrs := by
  unfold relayoutFv at h
  by_cases c1 : i.length < buf.length
  · rw [if_pos c1] at h; cases h
  rw [if_neg c1] at h
  by_cases c2 : i.blocks.isEmpty = true
  · rw [if_pos c2] at h; cases h
  rw [if_neg c2] at h
  by_cases c3 : i.dataOffset > buf.length
  · rw [if_pos c3] at h; cases h
  rw [if_neg c3] at h
  cases hpl : placeFiles st.pol (fs.map (fun f => (f.info.attrs, f.buf))) (buf.take i.dataOffset) i.dataOffset with
  | error e => rw [hpl] at h; cases h
  | ok fbuf =>
    rw [hpl] at h
    simp only at h
    obtain ⟨length, b0, bs, hi', _, _⟩ := finishFv_inv i fbuf st i' out st' h
    rw [hi']
    exact ⟨rfl, rfl⟩

theorem relayoutFv_idem (i : FvInfo) (buf : Bytes) (fs : List File) (st : St) (i' : FvInfo) (out : Bytes) (st' : St)
    (h : relayoutFv i buf fs st = .ok (i', out, st'))
    (hp : st.pol = 0xFF ∨ st.pol = 0) (ha : ∀ f ∈ fs, f.info.attrs < 256)
    (hb : layEnd (fs.map (fun f => (f.info.attrs, f.buf))) i.dataOffset < 2 ^ 62)
    (h60 : 60 ≤ i.dataOffset) (hlen : out.length ≤ i'.length) :
    relayoutFv i' out fs st = .ok (i', out, st') ∧ i'.dataOffset = i.dataOffset ∧ i'.attrs = i.attrs := by
  unfold relayoutFv at h
  by_cases c1 : i.length < buf.length
  · rw [if_pos c1] at h; cases h
  rw [if_neg c1] at h
  by_cases c2 : i.blocks.isEmpty = true
  · rw [if_pos c2] at h; cases h
  rw [if_neg c2] at h
  by_cases c3 : i.dataOffset > buf.length
  · rw [if_pos c3] at h; cases h
  rw [if_neg c3] at h
  cases hpl : placeFiles st.pol (fs.map (fun f => (f.info.attrs, f.buf))) (buf.take i.dataOffset) i.dataOffset with
  | error e => rw [hpl] at h; cases h
  | ok fbuf =>
    rw [hpl] at h
    simp only at h
    have hne := Exact.placeFiles_nonempty st.pol _ _ _ fbuf hpl
    have hl : ∀ x ∈ fs.map (fun f => (f.info.attrs, f.buf)), x.1 < 256 ∧ x.2.length ≠ 0 := by
      intro x hx
      refine ⟨?_, hne x hx⟩
      rw [List.mem_map] at hx
      obtain ⟨f, hf, rfl⟩ := hx
      exact ha f hf
    have htk : (buf.take i.dataOffset).length = i.dataOffset := by simp; omega
    have heq := (placeFiles_eq st.pol hp _ (buf.take i.dataOffset) i.dataOffset hl htk hb).1
    rw [hpl] at heq
    have hfb : fbuf = buf.take i.dataOffset ++ layAll st.pol (fs.map (fun f => (f.info.attrs, f.buf))) i.dataOffset :=
      Except.ok.inj heq
    obtain ⟨length, b0, bs, hi', hst', hpatch⟩ := finishFv_inv i fbuf st i' out st' h
    have hfr := patchFvHeader_frame _ _ _ _ _ _ hpatch
    -- lengths
    have hpl1 : fbuf.length ≤ (padTo fbuf length st.pol).length := by
      unfold padTo; split
      · simp
      · exact Nat.le_refl _
    have hil : i'.length = length := by rw [hi']
    have hfl : i.dataOffset ≤ fbuf.length := by rw [hfb]; simp [htk]
    have hdo : i.dataOffset ≤ out.length := by rw [hfr.1]; omega
    have htk2 : (out.take i.dataOffset).length = i.dataOffset := by simp; omega
    -- the second run of the file loop
    have heq2 := (placeFiles_eq st.pol hp _ (out.take i.dataOffset) i.dataOffset hl htk2 hb).1
    -- the buffer handed to the header patch is `out` itself
    have hsame : padTo (out.take i.dataOffset ++ layAll st.pol (fs.map (fun f => (f.info.attrs, f.buf))) i.dataOffset)
        length st.pol = out := by
      have hd := hfr.2 i.dataOffset h60
      have hl2 : (out.take i.dataOffset ++ layAll st.pol (fs.map (fun f => (f.info.attrs, f.buf))) i.dataOffset).length
          = fbuf.length := by rw [hfb]; simp [htk, htk2]
      have hdrop : (padTo fbuf length st.pol).drop i.dataOffset =
          (padTo (layAll st.pol (fs.map (fun f => (f.info.attrs, f.buf))) i.dataOffset) (length - i.dataOffset) st.pol) := by
        unfold padTo
        rw [hfb]
        simp only [List.length_append, htk]
        by_cases hg : length > i.dataOffset + (layAll st.pol (fs.map (fun f => (f.info.attrs, f.buf))) i.dataOffset).length
        · rw [if_pos hg, if_pos (by omega), List.append_assoc, List.drop_left' htk]
          congr 2
          omega
        · rw [if_neg hg, if_neg (by omega), List.drop_left' htk]
      have h3 : padTo (out.take i.dataOffset ++ layAll st.pol (fs.map (fun f => (f.info.attrs, f.buf))) i.dataOffset)
          length st.pol = out.take i.dataOffset ++
            (padTo (layAll st.pol (fs.map (fun f => (f.info.attrs, f.buf))) i.dataOffset) (length - i.dataOffset) st.pol) := by
        unfold padTo
        simp only [List.length_append, htk2]
        by_cases hg : length > i.dataOffset + (layAll st.pol (fs.map (fun f => (f.info.attrs, f.buf))) i.dataOffset).length
        · rw [if_pos hg, if_pos (by omega), List.append_assoc]
          congr 3
          omega
        · rw [if_neg hg, if_neg (by omega)]
      rw [h3, ← hdrop, ← hd, List.take_append_drop]
    have hidem := patchFvHeader_idem _ _ _ _ _ _ hpatch
    -- assemble the second run
    have hswap : (if (st.ffs3 && (if (st.ffs3 && i.fsGuid == guidFFS2) = true then guidFFS3 else i.fsGuid) == guidFFS2) = true
        then some guidFFS3 else (none : Option Guid)) = none ∧
        (if (st.ffs3 && (if (st.ffs3 && i.fsGuid == guidFFS2) = true then guidFFS3 else i.fsGuid) == guidFFS2) = true
        then guidFFS3 else (if (st.ffs3 && i.fsGuid == guidFFS2) = true then guidFFS3 else i.fsGuid)) =
          (if (st.ffs3 && i.fsGuid == guidFFS2) = true then guidFFS3 else i.fsGuid) := by
      by_cases hs : (st.ffs3 && i.fsGuid == guidFFS2) = true
      · have : (guidFFS3 == guidFFS2) = false := by decide
        simp [hs, this]
      · simp [hs]
    refine ⟨?_, by rw [hi'], by rw [hi']⟩
    unfold relayoutFv
    have e1 : i'.dataOffset = i.dataOffset := by rw [hi']
    have e2 : i'.blocks = b0 :: bs := by rw [hi']
    rw [if_neg (by omega), if_neg (by rw [e2]; simp), e1, if_neg (by omega), heq2]
    simp only
    have hfit2 : ¬ i'.length <
        (out.take i.dataOffset ++ layAll st.pol (fs.map (fun f => (f.info.attrs, f.buf))) i.dataOffset).length := by
      have : (out.take i.dataOffset ++ layAll st.pol (fs.map (fun f => (f.info.attrs, f.buf))) i.dataOffset).length
          = fbuf.length := by rw [hfb]; simp [htk, htk2]
      rw [this]
      have := hfr.1
      omega
    have hfin := finishFv_fit i' _ st b0 bs out hfit2 e2 (by
      rw [hil]
      have e3 : i'.fsGuid = (if (st.ffs3 && i.fsGuid == guidFFS2) = true then guidFFS3 else i.fsGuid) := by rw [hi']
      have e4 : i'.headerLen = i.headerLen := by rw [hi']
      rw [e3, hswap.1, hsame, e4]
      exact hidem)
    rw [hfin, hst']
    have hl3 : (out.take i.dataOffset ++ layAll st.pol (fs.map (fun f => (f.info.attrs, f.buf))) i.dataOffset).length
        = fbuf.length := by rw [hfb]; simp [htk, htk2]
    rw [hl3]
    have e3 : i'.fsGuid = (if (st.ffs3 && i.fsGuid == guidFFS2) = true then guidFFS3 else i.fsGuid) := by rw [hi']
    rw [e3, hswap.2]
    congr 2
    rw [hi']

end Fiano.Uefi
