/-
  Property C04 — "the parsed tree accounts for every input byte, once": the predicate.

  `Faithful h t bs` relates a tree `t` (the type of FianoModel/Uefi/Types.lean, i.e. the fields of
  the Go structs) to the byte string `bs` it was parsed from.  It is written from the statement of
  the property, not from the parser: every clause speaks about *positions in the parent's bytes*.

    flash     buf = bs, FlashSize = |bs|, descriptor = bs[0,4096) with every descriptor field equal
              to the bytes at its layout offset; the regions, in tree order, start at 4096, each
              starts where the previous one ended (so they are sorted, without gap or overlap), the
              last one ends at |bs|, each region's buffer is bs[start, start+len), its reported
              base is `start/4096`, and a declared region (type ≠ -1) is the table entry of its
              type and ends at `(limit+1)·4096`;
    BIOS      buf = the region's bytes; the elements (paddings, volumes), in order, are consecutive
              prefixes of what is left: their buffers concatenate to the region, each reported
              offset (BIOSPadding.Offset, FVOffset) equals the running sum, none is empty;
    volume    every fixed-header field = fromLE of the bytes at its layout offset, block map and
              extended header likewise; Length ≤ available bytes; buf = data[0,Length);
              the files, in order, sit at the first 8-aligned offset at or after the end of the
              previous one (the first one at DataOffset), each non-empty, each *inside buf*
              (offset + size ≤ Length — this is what fixes/C04-file-clipped-to-volume.diff repairs);
              *nothing is dropped*: behind the last file the walk ends (`WalkEnd`) at an erased file
              header whose position to the end of the volume is the reported FreeSpace, or with fewer
              than 24 bytes left (as repaired by fixes/C03-header-only-last-file.diff, commit cce350a:
              the walk runs while `offset <= Length-24`; the strict rule before it is refuted in
              FaithfulCover.lean);
    file      every header field = the bytes at its layout offset; buf = the bytes at its offset
              and size; the sections, in order, sit at 4-aligned running offsets starting at
              DataOffset, non-empty, inside the file, and cover it to its end; the NVAR store is
              reported exactly for a RAW file with the NVAR GUID and is what `NewNVarStore` (the
              hook) answers on buf[DataOffset:] (what that answer looks like: FaithfulNvar.lean);
    ME        the partition table Go derives from the region's bytes is those bytes, field by field
              (FaithfulMe.lean);
    section   header fields = bytes; buf = the bytes at its offset and size, inside the parent;
              GUID-defined: sub-header fields = bytes, and when children exist they partition
              (4-aligned running offsets, up to the end) the payload the codec returned for
              `parent[DataOffset:]`; volume image: exactly one child volume, faithful to
              buf[headerSize:]; decoded leaf fields (UI name, version, depex) = decoding of the
              section's own bytes.

  All offsets are mathematical (`up4`, `up8` round up; no wrap-around).  Core Lean only.
-/
import FianoModel.Uefi.Parse
import FianoModel.Uefi.FaithfulMe

namespace Fiano.Uefi
open Fiano

/-- round up to a multiple of 4 / 8 (plain arithmetic, no 64-bit wrap) -/
def up4 (n : Nat) : Nat := (n + 3) / 4 * 4
def up8 (n : Nat) : Nat := (n + 7) / 8 * 8

/-- Go slices are shorter than 2^63 bytes (`len` is an `int`) -/
def GoLen (b : Bytes) : Prop := b.length < 9223372036854775808

instance (b : Bytes) : Decidable (GoLen b) := by unfold GoLen; infer_instance

/-- the same fact about what a decompressor returns -/
def Hooks.BoundedCodecs (h : Hooks) : Prop :=
  ∀ g c x y, h.codec g = some c → c.decode x = some y → GoLen y

/-- size of the common section header the parser used: 8 iff the extended size is honoured -/
def secHdrSize (i : SecInfo) : Nat :=
  if knownSection i.type = true ∧ i.size3 = 0xFFFFFF then 8 else 4

/-- the reported common-header fields of a section are the bytes of `ctx` (= parent[offset:]) -/
def SecHeaderOk (i : SecInfo) (ctx : Bytes) : Prop :=
  4 ≤ ctx.length ∧ i.size3 = rd ctx 0 3 ∧ i.type = rd ctx 3 1 ∧
  (if knownSection i.type = true then
     (if i.size3 = 0xFFFFFF then 8 ≤ ctx.length ∧ i.extSize = rd ctx 4 4 else i.extSize = i.size3)
   else i.extSize = min i.size3 ctx.length)

/-- the GUID-defined sub-header (read right after the common header) -/
def GuidDefOk (i : SecInfo) (ctx : Bytes) : Prop :=
  if i.type = 2 then
    ∃ g, i.ts = some g ∧ secHdrSize i + 20 ≤ ctx.length ∧ g.guid = slice ctx (secHdrSize i) 16 ∧
      g.dataOffset = rd ctx (secHdrSize i + 16) 2 ∧ g.attrs = rd ctx (secHdrSize i + 18) 2
  else i.ts = none

/-- decoded leaf fields are the decoding of the section's own bytes -/
def LeafFieldsOk (i : SecInfo) (buf : Bytes) : Prop :=
  (i.type = 0x15 → secHdrSize i < buf.length ∧ i.name = ucs2ToUtf8 (buf.drop (secHdrSize i))) ∧
  (i.type = 0x14 → secHdrSize i + 2 < buf.length ∧ i.build = rd buf (secHdrSize i) 2 ∧
      i.version = ucs2ToUtf8 (buf.drop (secHdrSize i + 2))) ∧
  (isDepexType i.type = true → secHdrSize i < buf.length ∧
      i.depex = (parseDepEx (buf.drop (secHdrSize i))).getD [])

/-- the reported header fields of a file are the bytes of `ctx` (= volume[offset:]) -/
def FileHeaderOk (i : FileInfo) (ctx : Bytes) : Prop :=
  24 ≤ ctx.length ∧ i.guid = slice ctx 0 16 ∧ i.ckHeader = rd ctx 16 1 ∧ i.ckFile = rd ctx 17 1 ∧
  i.type = rd ctx 18 1 ∧ i.attrs = rd ctx 19 1 ∧ i.size3 = rd ctx 20 3 ∧ i.state = rd ctx 23 1 ∧
  (if i.size3 = 0xFFFFFF then 32 ≤ ctx.length ∧ i.extSize = rd ctx 24 8 ∧ i.dataOffset = 32
   else i.extSize = i.size3 ∧ i.dataOffset = 24)

/-- the block map: 8-byte entries from `off`, ended by the first `{0,0}` -/
def BlocksAt : List Block → Bytes → Nat → Prop
  | [], d, off => off + 8 ≤ d.length ∧ rd d off 4 = 0 ∧ rd d (off + 4) 4 = 0
  | b :: bs, d, off =>
    off + 8 ≤ d.length ∧ b.count = rd d off 4 ∧ b.size = rd d (off + 4) 4 ∧
    ¬ (b.count = 0 ∧ b.size = 0) ∧ BlocksAt bs d (off + 8)

/-- is the extended header honoured?  (`ExtHeaderOffset ≠ 0 ∧ Length ≥ 20 ∧ offset < Length − 20`) -/
def fvHasExt (i : FvInfo) : Prop :=
  i.extHeaderOffset ≠ 0 ∧ i.length ≥ 20 ∧ i.extHeaderOffset ≤ i.length - 20

instance (i : FvInfo) : Decidable (fvHasExt i) := by unfold fvHasExt; infer_instance

/-- the reported header fields of a volume are the bytes of `data` (= what the volume was parsed from) -/
def FvHeaderOk (i : FvInfo) (data : Bytes) : Prop :=
  64 ≤ data.length ∧ i.fsGuid = slice data 16 16 ∧ i.length = rd data 32 8 ∧ i.signature = rd data 40 4 ∧
  i.attrs = rd data 44 4 ∧ i.headerLen = rd data 48 2 ∧ i.checksum = rd data 50 2 ∧
  i.extHeaderOffset = rd data 52 2 ∧ i.reserved = rd data 54 1 ∧ i.revision = rd data 55 1 ∧
  BlocksAt i.blocks data 56 ∧
  (if fvHasExt i then
     i.fvName = slice data i.extHeaderOffset 16 ∧ i.extHeaderSize = rd data (i.extHeaderOffset + 16) 4 ∧
     i.dataOffset = up8 (i.extHeaderOffset + i.extHeaderSize)
   else i.fvName = guidZero ∧ i.extHeaderSize = 0 ∧ i.dataOffset = up8 i.headerLen)

/-- an erased file header — what `NewFile` takes for the start of the free space: `Size` is FFFFFF and
    the extended size is all ones, or fewer than 8 bytes follow the 24 erased header bytes -/
def FreeHeader (ctx : Bytes) : Prop :=
  24 ≤ ctx.length ∧ rd ctx 20 3 = 0xFFFFFF ∧
  (if ctx.length < 32 then (ctx.take 24).all (· == 0xFF) = true else rd ctx 24 8 = 0xFFFFFFFFFFFFFFFF)

/-- how the file walk of a volume with buffer `fvbuf` ends, `off` being the end of the last file (or
    `DataOffset`): **free space** — an erased header sits at the next 8-aligned offset and `FreeSpace` is
    everything from there to the end of the volume; or **no room** — fewer than 24 bytes are left and
    `FreeSpace` is 0. -/
def WalkEnd (fvbuf : Bytes) (off free : Nat) : Prop :=
  (up8 off < fvbuf.length ∧ FreeHeader (fvbuf.drop (up8 off)) ∧ free = fvbuf.length - up8 off) ∨
  (free = 0 ∧ fvbuf.length < off + 24)

/-- the NVAR store of a file: reported exactly for a RAW file carrying the NVAR GUID, and then it is
    what `NewNVarStore` (the hook `h.nvarParse`) answers on the file's bytes behind its header -/
def NvFileOk (h : Hooks) (i : FileInfo) (buf : Bytes) : Prop :=
  if i.type = 1 ∧ i.guid = guidNVAR then
    i.dataOffset < buf.length ∧ i.nvar = h.nvarParse (buf.drop i.dataOffset)
  else i.nvar = none

mutual

/-- a section parsed from `ctx` = parent[offset:] -/
def SecF (h : Hooks) : Section → Bytes → Prop
  | .mk i buf encap, ctx =>
    SecHeaderOk i ctx ∧ i.extSize ≤ ctx.length ∧ buf = ctx.take i.extSize ∧
    GuidDefOk i ctx ∧ LeafFieldsOk i buf ∧
    (if i.type = 2 then
       encap = [] ∨
       ∃ g c enc, i.ts = some g ∧ h.codec g.guid = some c ∧ g.compression = c.name ∧
         g.dataOffset ≤ ctx.length ∧ c.decode (ctx.drop g.dataOffset) = some enc ∧
         EncapAt h encap enc 0 0
     else if i.type = 0x17 then NodesFv h encap (buf.drop (secHdrSize i))
     else encap = [])

/-- the children of a GUID-defined section partition the decoded payload `enc` from `off` on -/
def EncapAt (h : Hooks) : List Node → Bytes → Nat → Nat → Prop
  | [], enc, off, _ => enc.length ≤ off
  | .sec s :: ns, enc, off, idx =>
    off < enc.length ∧ SecF h s (enc.drop off) ∧ s.info.fileOrder = idx ∧ 0 < s.info.extSize ∧
    EncapAt h ns enc (up4 (off + s.info.extSize)) (idx + 1)
  | .fv _ :: _, _, _, _ => False

/-- exactly one child, a (resizable, offset 0) volume faithful to `d` -/
def NodesFv (h : Hooks) : List Node → Bytes → Prop
  | [.fv v], d => FvF h v d ∧ v.info.fvOffset = 0 ∧ v.info.resizable = true
  | _, _ => False

/-- a volume parsed from `data` -/
def FvF (h : Hooks) : Fv → Bytes → Prop
  | .mk i buf files, data =>
    FvHeaderOk i data ∧ i.length ≤ data.length ∧ buf = data.take i.length ∧
    (if i.fsGuid = guidFFS2 ∨ i.fsGuid = guidFFS3 then FilesAt h files buf i.dataOffset i.freeSpace
     else files = [] ∧ i.freeSpace = 0)

/-- the files of a volume with buffer `fvbuf`, the previous one ending at `off` -/
def FilesAt (h : Hooks) : List File → Bytes → Nat → Nat → Prop
  | [], fvbuf, off, free => WalkEnd fvbuf off free
  | f :: fs, fvbuf, off, free =>
    up8 off < fvbuf.length ∧ FileF h f (fvbuf.drop (up8 off)) ∧ 0 < f.info.extSize ∧
    FilesAt h fs fvbuf (up8 off + f.info.extSize) free

/-- a file parsed from `ctx` = volume[offset:] -/
def FileF (h : Hooks) : File → Bytes → Prop
  | .mk i buf secs, ctx =>
    FileHeaderOk i ctx ∧ i.extSize ≤ ctx.length ∧ buf = ctx.take i.extSize ∧ NvFileOk h i buf ∧
    (if supportedFile i.type = true then SecsAt h secs buf i.dataOffset 0 else secs = [])

/-- the sections of a file with buffer `fbuf` from `off` on, covering it to the end -/
def SecsAt (h : Hooks) : List Section → Bytes → Nat → Nat → Prop
  | [], fbuf, off, _ => fbuf.length ≤ off
  | s :: ss, fbuf, off, idx =>
    off < fbuf.length ∧ SecF h s (fbuf.drop off) ∧ s.info.fileOrder = idx ∧ 0 < s.info.extSize ∧
    SecsAt h ss fbuf (up4 (off + s.info.extSize)) (idx + 1)

end

/-- the elements of a BIOS region: `rest` is what is left of the region, `abs` the running offset -/
def ElemsAt (h : Hooks) : List BiosElem → Bytes → Nat → Prop
  | [], rest, _ => rest = []
  | .pad b o :: es, rest, abs =>
    o = abs ∧ b ≠ [] ∧ b.length ≤ rest.length ∧ b = rest.take b.length ∧
    ElemsAt h es (rest.drop b.length) (abs + b.length)
  | .fv v :: es, rest, abs =>
    v.info.fvOffset = abs ∧ v.info.resizable = false ∧ FvF h v rest ∧ 0 < v.info.length ∧
    ElemsAt h es (rest.drop v.info.length) (abs + v.info.length)

/-- a BIOS region parsed from `rbuf` -/
def BiosF (h : Hooks) (b : BiosRegion) (rbuf : Bytes) : Prop :=
  b.buf = rbuf ∧ b.length = rbuf.length ∧ ElemsAt h b.elems rbuf 0

/-- the flash descriptor: every reported field is the bytes of `dbuf` at its layout offset -/
def DescF (d : Descriptor) (dbuf : Bytes) : Prop :=
  d.buf = dbuf ∧ dbuf.length = 4096 ∧
  ((d.mapStart = 20 ∧ slice dbuf 16 4 = flashSignature) ∨ (d.mapStart = 4 ∧ slice dbuf 0 4 = flashSignature)) ∧
  d.map.fields = (slice dbuf d.mapStart 16).map (·.toNat) ∧
  d.regionStart = d.map.regionBase * 16 ∧ d.regionStart + 64 < 4096 ∧
  d.masterStart = d.map.masterBase * 16 ∧
  d.region.eraseSize = rd dbuf (d.regionStart + 2) 2 ∧
  d.region.regions.length = 15 ∧
  (∀ k, k < 15 → d.region.regions[k]? =
      some ⟨rd dbuf (d.regionStart + 4 + 4 * k) 2, rd dbuf (d.regionStart + 6 + 4 * k) 2⟩) ∧
  d.master.perms.length = 3 ∧
  (∀ k, k < 3 → d.master.perms[k]? =
      some (rd dbuf (d.masterStart + 4 * k) 2, rd dbuf (d.masterStart + 4 * k + 2) 1,
            rd dbuf (d.masterStart + 4 * k + 3) 1))

/-- what lies inside a region: a BIOS region's elements; an ME region's partition table -/
def RegionInner (h : Hooks) : Region → Prop
  | .bios b => BiosF h b b.buf
  | .me b _ => Me.MeBufF b
  | .raw _ _ _ => True

/-- one region of the flash starting at `off`; `tbl` is the descriptor's region table -/
def RegionF (h : Hooks) (bs : Bytes) (tbl : List FlashRegion) (r : Region) (off : Nat) : Prop :=
  r.buf ≠ [] ∧ off + r.buf.length ≤ bs.length ∧ r.buf = slice bs off r.buf.length ∧
  (∃ fr, r.fr = some fr ∧ fr.baseOffset = off ∧
    (r.rtype ≠ -1 → fr.endOffset = off + r.buf.length ∧ tbl[r.rtype.toNat]? = some fr)) ∧
  RegionInner h r

/-- the regions tile `[off, |bs|)` in tree order -/
def RegionsAt (h : Hooks) (bs : Bytes) (tbl : List FlashRegion) : List Region → Nat → Prop
  | [], off => off = bs.length
  | r :: rs, off => RegionF h bs tbl r off ∧ RegionsAt h bs tbl rs (off + r.buf.length)

def FlashF (h : Hooks) (f : Flash) (bs : Bytes) : Prop :=
  f.buf = bs ∧ f.flashSize = bs.length ∧ 4096 ≤ bs.length ∧ DescF f.ifd (bs.take 4096) ∧
  RegionsAt h bs f.ifd.region.regions f.regions 4096

/-- **the C04 predicate** -/
def Faithful (h : Hooks) : Tree → Bytes → Prop
  | .flash f, bs => FlashF h f bs
  | .bios b, bs => b.fr = none ∧ BiosF h b bs

end Fiano.Uefi
