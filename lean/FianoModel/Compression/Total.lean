/-
  pkg/compression `Decode` entry points against Go's semantics (GoM): the framing code that fiano
  itself runs before handing the payload to a decoder.  The decoders (compress/zlib, the `brotli`
  binary, ulikunitz/xz, pierrec/lz4) are *parameters* `dec : Bytes → Option Bytes` (total by
  assumption; what they produce goes to `Meter.decompressed`): their own memory behaviour is
  outside the model (see reports/C20.md, known finding C20-lzma-dictcap).

  `SystemBROTLI.Decode` as repaired by fixes/C20-brotli-short-header.diff (length check before
  `encodedData[0x10:]`); `brotliDecodeOldG` is the unrepaired order with its witness.

  Own namespace (`Fiano.CompressionTotal`): C08 owns the codec models.
-/
import FianoModel.Total.Hoare

namespace Fiano.CompressionTotal
open GoM

def zlibSectionHeaderSize : Nat := 256
def zlibSizeOffset : Nat := 20

def runDecoder (dec : Bytes → Option Bytes) (payload : Bytes) : GoM Bytes :=
  match dec payload with
  | none => err
  | some out => fun m => .ok (out, { m with decompressed := m.decompressed + out.length })

/-- `ZLIB.Decode` -/
def zlibDecodeG (dec : Bytes → Option Bytes) (enc : Bytes) : GoM Bytes := do
  if enc.length < zlibSectionHeaderSize then err
  else do
    let sz ← sliceG "ZLIB.Decode: encodedData[zlibSizeOffset : zlibSizeOffset+4]" enc zlibSizeOffset (zlibSizeOffset + 4)
    if fromLE sz ≠ (enc.length - zlibSectionHeaderSize) % 4294967296 then err       -- uint32(len - 256)
    else do
      let body ← sliceFromG "ZLIB.Decode: encodedData[zlibSectionHeaderSize:]" enc zlibSectionHeaderSize
      runDecoder dec body

/-- `SystemBROTLI.Decode` (repaired) -/
def brotliDecodeG (dec : Bytes → Option Bytes) (enc : Bytes) : GoM Bytes := do
  if enc.length < 0x10 then err
  else do
    let body ← sliceFromG "SystemBROTLI.Decode: encodedData[0x10:]" enc 0x10
    runDecoder dec body

/-- the unrepaired order: slice first -/
def brotliDecodeOldG (dec : Bytes → Option Bytes) (enc : Bytes) : GoM Bytes := do
  let body ← sliceFromG "SystemBROTLI.Decode: encodedData[0x10:]" enc 0x10
  runDecoder dec body

/-- `LZMA.Decode`, `SystemLZMA.Decode`, `LZ4.Decode`: the whole input goes to the decoder -/
def plainDecodeG (dec : Bytes → Option Bytes) (enc : Bytes) : GoM Bytes := runDecoder dec enc

theorem runDecoder_spec (dec : Bytes → Option Bytes) (p : Bytes) (m : Meter) :
    SafeP (runDecoder dec p) m (fun out m' => m'.alloc = m.alloc ∧ m'.decompressed = m.decompressed + out.length) := by
  unfold runDecoder
  cases dec p with
  | none => exact SafeP.err
  | some out => simp [SafeP]

theorem zlibDecodeG_spec (dec : Bytes → Option Bytes) (enc : Bytes) (m : Meter) :
    SafeP (zlibDecodeG dec enc) m (fun _ m' => m'.alloc = m.alloc) := by
  unfold zlibDecodeG
  apply SafeP.ite; · intro _; exact SafeP.err
  intro hlen
  have h256 : zlibSectionHeaderSize = 256 := rfl
  have h20 : zlibSizeOffset = 20 := rfl
  apply SafeP.bind; apply SafeP.slice (by omega)
  apply SafeP.ite; · intro _; exact SafeP.err
  intro _
  apply SafeP.bind; apply SafeP.sliceFrom (by omega)
  apply SafeP.mono (runDecoder_spec dec _ m)
  intro _ _ h; exact h.1

theorem brotliDecodeG_spec (dec : Bytes → Option Bytes) (enc : Bytes) (m : Meter) :
    SafeP (brotliDecodeG dec enc) m (fun _ m' => m'.alloc = m.alloc) := by
  unfold brotliDecodeG
  apply SafeP.ite; · intro _; exact SafeP.err
  intro _
  apply SafeP.bind; apply SafeP.sliceFrom (by omega)
  apply SafeP.mono (runDecoder_spec dec _ m)
  intro _ _ h; exact h.1

/-- DESIGN.md §7-C05: the unrepaired Brotli entry point panics on every input shorter than 16 bytes -/
theorem brotliDecodeOldG_witness (dec : Bytes → Option Bytes) :
    brotliDecodeOldG dec [1, 2, 3] {} = .error (.panic "SystemBROTLI.Decode: encodedData[0x10:]") := by
  simp [brotliDecodeOldG, sliceFromG, goPanic, Bind.bind, StateT.bind, Except.bind]

end Fiano.CompressionTotal
