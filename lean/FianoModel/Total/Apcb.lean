/-
  pkg/amd/apcb `ParseAPCBBinaryTokens` against Go's semantics (GoM): `parseAPCBHeader`, the three
  nested walks `iterateTokenGroups` → `iterateTypes` → `iterateTokens` with the slices the listing
  callback takes (`remainBytes[off+SizeOfHeader : off+SizeOfGroup]`, `groupData[off+16 : off+SizeOfType]`),
  and the token list it appends to.

  The walks are `for len(remainBytes) > 0 { …; remainBytes = remainBytes[Size:] }`: they end only
  because every iteration checks `Size ≥ header size` (16) **for every group, token group or not**
  before it advances by `Size`.  In the model the loops take fuel `|body| + 1`; `Safe` (never
  `fuel`) is that progress lemma.  (Seeded defect c20-2 moves the check into the
  `GroupID == tokensGroupID` branch: a foreign group with SizeOfGroup = 0 then never advances — the
  harness sees it as `terminates`; the guard inventory `guards_apcb_iterateTokenGroups` of
  Total/Tie.lean breaks as well.)

  The functional model of the same code with its refinement theorems is C18's
  (`FianoModel/Apcb`, incl. `upsert_total` / `listing_total` for its own fault branches); this file
  adds Go's slicing primitives, fuel and the allocation budget.  Own namespace `Fiano.ApcbTotal`.
-/
import FianoModel.Total.Hoare

namespace Fiano.ApcbTotal
open GoM

def hdrSize : Nat := 128
def gHdrSize : Nat := 16
def tHdrSize : Nat := 16
def pairSize : Nat := 8
def tokensGroupID : Nat := 0x3000
def tokenMem : Nat := 32          -- unsafe.Sizeof(Token{}): ID, masks, interface value

/-- `parseAPCBHeader`: the body `apcbBinary[128:SizeOfAPCB]` -/
def parseHeaderG (b : Bytes) : GoM Bytes := do
  let (h, _) ← binaryReadG b hdrSize
  if fieldLE h 0 4 ≠ 0x42435041 then err
  else if fieldLE h 32 4 ≠ 0x32424345 then err
  else if fieldLE h 124 4 ≠ 0x41424342 then err
  else
    let size := fieldLE h 8 4
    if size < hdrSize then err
    else if size > b.length % 4294967296 then err                  -- uint32(len(apcbBinary))
    else sliceG "parseAPCBHeader: apcbBinary[128:SizeOfAPCB]" b hdrSize size

def knownType (tid : Nat) : Bool := tid = 0 || tid = 1 || tid = 2 || tid = 4

/-- `iterateTokens` with the listing callback: one `Token` appended per pair -/
def tokensG (B : Nat) (tid : Nat) : Nat → Bytes → Nat → GoM Nat
  | 0, _, n => pure n
  | k+1, r, n => do
    let (_, r') ← binaryReadG r pairSize
    if !knownType tid then err                                      -- processValue: unknown token type
    else do
      allocB "ParseAPCBBinaryTokens: append(result, Token{…})" B 1 tokenMem
      tokensG B tid k r' (n + 1)

/-- `iterateTypes` over one group's data (`toff` = offset of `rem` inside `group`) -/
def typesG (B : Nat) (group : Bytes) : Nat → Bytes → Nat → Nat → GoM Nat
  | 0, _, _, _ => outOfFuel
  | fuel+1, rem, toff, n =>
    if rem.length = 0 then pure n
    else do
      let (th, _) ← binaryReadG rem tHdrSize
      let st := fieldLE th 4 2
      if st < tHdrSize then err
      else if st > rem.length then err
      else do
        let td ← sliceG "ParseAPCBBinaryTokens: groupData[typeOffset+16 : typeOffset+SizeOfType]" group
          (toff + tHdrSize) (toff + st)
        if td.length % pairSize ≠ 0 then err
        else do
          let n' ← tokensG B (fieldLE th 2 2) (td.length / pairSize) td n
          let rem' ← sliceFromG "iterateTypes: remainBytes[typeHeader.SizeOfType:]" rem st
          typesG B group fuel rem' (toff + st) n'

/-- `iterateTokenGroups` (`goff` = offset of `rem` inside `body`) -/
def groupsG (B : Nat) (body : Bytes) : Nat → Bytes → Nat → Nat → GoM Nat
  | 0, _, _, _ => outOfFuel
  | fuel+1, rem, goff, n =>
    if rem.length = 0 then pure n
    else do
      let (gh, _) ← binaryReadG rem gHdrSize
      let sg := fieldLE gh 12 4
      if sg < gHdrSize then err                                     -- for every group kind
      else if sg > rem.length % 4294967296 then err
      else do
        let n' ← (if fieldLE gh 4 2 = tokensGroupID then do
            let sh := fieldLE gh 6 2
            if sh > sg then err
            else do
              let gd ← sliceG "ParseAPCBBinaryTokens: remainBytes[groupOffset+SizeOfHeader : groupOffset+SizeOfGroup]"
                body (goff + sh) (goff + sg)
              typesG B gd (gd.length + 1) gd 0 n
          else pure n)
        let rem' ← sliceFromG "iterateTokenGroups: remainBytes[groupHeader.SizeOfGroup:]" rem sg
        groupsG B body fuel rem' (goff + sg) n'

/-- `ParseAPCBBinaryTokens`: number of tokens listed -/
def parseG (B : Nat) (b : Bytes) : GoM Nat := do
  let body ← parseHeaderG b
  groupsG B body (body.length + 1) body 0 0

/-! ### totality -/

theorem parseHeaderG_spec (b : Bytes) (m : Meter) :
    SafeP (parseHeaderG b) m (fun body m' => body.length + hdrSize ≤ b.length ∧ m' = m) := by
  unfold parseHeaderG
  apply SafeP.bind; apply SafeP.binaryRead; intro _
  simp only
  apply SafeP.ite; · intro _; exact SafeP.err
  intro _
  apply SafeP.ite; · intro _; exact SafeP.err
  intro _
  apply SafeP.ite; · intro _; exact SafeP.err
  intro _
  apply SafeP.ite; · intro _; exact SafeP.err
  intro h1
  apply SafeP.ite; · intro _; exact SafeP.err
  intro h2
  have hmod : b.length % 4294967296 ≤ b.length := Nat.mod_le _ _
  simp only [hdrSize] at *
  apply SafeP.slice (by omega)
  refine ⟨?_, rfl⟩
  simp only [List.length_take, List.length_drop]
  omega

theorem tokensG_spec (B tid k : Nat) (r : Bytes) (n : Nat) (m : Meter) (hb : m.alloc + tokenMem * k ≤ B) :
    SafeP (tokensG B tid k r n) m (fun _ m' => m'.alloc ≤ m.alloc + tokenMem * k) := by
  induction k generalizing r n m with
  | zero => exact SafeP.pure (by omega)
  | succ k ih =>
    unfold tokensG
    apply SafeP.bind; apply SafeP.binaryRead; intro _
    simp only
    apply SafeP.cond
    · intro _; exact SafeP.err
    · intro _
      apply SafeP.bind; apply SafeP.alloc (by simp only [tokenMem] at *; omega)
      apply SafeP.mono (ih _ _ _ (by simp only [tokenMem] at *; omega))
      intro _ m' h
      simp only [tokenMem] at *
      omega

/-- the types of one group: at most one `Token` per 8 bytes of what is left, and ≥ 16 bytes
    consumed per round -/
theorem typesG_spec (B : Nat) (group : Bytes) (fuel : Nat) (rem : Bytes) (toff n : Nat) (m : Meter)
    (hfuel : rem.length < fuel) (hoff : toff + rem.length = group.length)
    (hb : m.alloc + tokenMem * (rem.length / pairSize) ≤ B) :
    SafeP (typesG B group fuel rem toff n) m (fun _ m' => m'.alloc ≤ m.alloc + tokenMem * (rem.length / pairSize)) := by
  induction fuel generalizing rem toff n m with
  | zero => omega
  | succ fuel ih =>
    unfold typesG
    apply SafeP.ite
    · intro _; exact SafeP.pure (by omega)
    · intro _
      apply SafeP.bind; apply SafeP.binaryRead; intro _
      simp only
      apply SafeP.ite; · intro _; exact SafeP.err
      intro h1
      apply SafeP.ite; · intro _; exact SafeP.err
      intro h2
      simp only [tHdrSize, pairSize, tokenMem] at *
      generalize hst : fieldLE (List.take 16 rem) 4 2 = st at *
      apply SafeP.bind; apply SafeP.slice (by omega)
      have htd : (List.take (toff + st - (toff + 16)) (List.drop (toff + 16) group)).length = st - 16 := by
        simp only [List.length_take, List.length_drop]; omega
      rw [htd]
      apply SafeP.ite; · intro _; exact SafeP.err
      intro _
      have hdiv : (st - 16) / 8 + (rem.length - st) / 8 ≤ rem.length / 8 := by omega
      apply SafeP.bind
      apply SafeP.mono (tokensG_spec B _ ((st - 16) / 8) _ n m (by simp only [tokenMem]; omega))
      intro n' m1 ha
      simp only [tokenMem] at ha
      apply SafeP.bind; apply SafeP.sliceFrom (by omega)
      have hlen : (List.drop st rem).length = rem.length - st := by simp
      apply SafeP.mono (ih (List.drop st rem) (toff + st) n' m1 (by omega) (by omega) (by rw [hlen]; omega))
      intro _ m2 h
      rw [hlen] at h
      omega

/-- the groups: every round consumes `SizeOfGroup ≥ 16` bytes — token group or not -/
theorem groupsG_spec (B : Nat) (body : Bytes) (fuel : Nat) (rem : Bytes) (goff n : Nat) (m : Meter)
    (hfuel : rem.length < fuel) (hoff : goff + rem.length = body.length)
    (hb : m.alloc + tokenMem * (rem.length / pairSize) ≤ B) :
    SafeP (groupsG B body fuel rem goff n) m (fun _ m' => m'.alloc ≤ m.alloc + tokenMem * (rem.length / pairSize)) := by
  induction fuel generalizing rem goff n m with
  | zero => omega
  | succ fuel ih =>
    unfold groupsG
    apply SafeP.ite
    · intro _; exact SafeP.pure (by omega)
    · intro _
      apply SafeP.bind; apply SafeP.binaryRead; intro _
      simp only
      apply SafeP.ite; · intro _; exact SafeP.err
      intro h1
      apply SafeP.ite; · intro _; exact SafeP.err
      intro h2
      have hmod : rem.length % 4294967296 ≤ rem.length := Nat.mod_le _ _
      simp only [gHdrSize, pairSize, tokenMem] at *
      have hlen : (List.drop (fieldLE (List.take 16 rem) 12 4) rem).length = rem.length - (fieldLE (List.take 16 rem) 12 4) := by simp
      have hdiv : (fieldLE (List.take 16 rem) 12 4) / 8 + (rem.length - (fieldLE (List.take 16 rem) 12 4)) / 8 ≤ rem.length / 8 := by omega
      apply SafeP.bind
      refine SafeP.mono (Q := fun _ m1 => m1.alloc ≤ m.alloc + 32 * ((fieldLE (List.take 16 rem) 12 4) / 8)) ?_ ?_
      · -- the callback (token groups only) stays within the share of this group
        apply SafeP.ite
        · intro _
          apply SafeP.ite; · intro _; exact SafeP.err
          intro h3
          apply SafeP.bind; apply SafeP.slice (by omega)
          have hgd : (List.take (goff + (fieldLE (List.take 16 rem) 12 4) - (goff + (fieldLE (List.take 16 rem) 6 2))) (List.drop (goff + (fieldLE (List.take 16 rem) 6 2)) body)).length = (fieldLE (List.take 16 rem) 12 4) - (fieldLE (List.take 16 rem) 6 2) := by
            simp only [List.length_take, List.length_drop]; omega
          have hsh16 : ((fieldLE (List.take 16 rem) 12 4) - (fieldLE (List.take 16 rem) 6 2)) / 8 ≤ (fieldLE (List.take 16 rem) 12 4) / 8 := by omega
          apply SafeP.mono (typesG_spec B _ _ _ 0 n m (by omega) (by omega)
            (by rw [hgd]; simp only [tokenMem, pairSize]; omega))
          intro _ m1 h
          rw [hgd] at h
          simp only [tokenMem, pairSize] at h
          omega
        · intro _; exact SafeP.pure (by omega)
      · intro n' m1 ha
        apply SafeP.bind; apply SafeP.sliceFrom (by omega)
        apply SafeP.mono (ih (List.drop (fieldLE (List.take 16 rem) 12 4) rem) (goff + (fieldLE (List.take 16 rem) 12 4)) n' m1 (by omega) (by omega) (by rw [hlen]; omega))
        intro _ m2 h
        rw [hlen] at h
        omega

/-- allocation coefficient: one 32-byte `Token` per 8-byte pair ⇒ `alloc ≤ 4·|blob|` -/
def parseKSlope : Nat := 4

/-- `ParseAPCBBinaryTokens`, every byte string: a value or an error; never a panic, never out of
    fuel (every walk advances), metered allocation ≤ 4·|input| -/
theorem parseG_spec (B : Nat) (b : Bytes) (m : Meter) (hB : m.alloc + parseKSlope * b.length ≤ B) :
    SafeP (parseG B b) m (fun _ _ => True) := by
  unfold parseG
  simp only [parseKSlope] at hB
  apply SafeP.bind
  apply SafeP.mono (parseHeaderG_spec b m)
  intro body m1 ⟨hl, hm⟩
  rw [hm]
  apply SafeP.mono (groupsG_spec B body (body.length + 1) body 0 0 m (by omega) (by omega)
    (by simp only [tokenMem, pairSize]; omega))
  intro _ _ _; trivial

end Fiano.ApcbTotal
