/-
  pkg/amd/manifest against Go's semantics (GoM): `FindEmbeddedFirmwareStructure`,
  `ParseEmbeddedFirmwareStructure`, `ParsePSPDirectoryTable(Entry)`, `ParseBIOSDirectoryTable(Entry)`,
  the cookie scanners `FindPSPDirectoryTable` / `FindBIOSDirectoryTable`, `parsePSPFirmware`
  (= `NewAMDFirmware` = `psb.ParseAMDFirmware`) with its pointer paths and level-2 lookups; and the
  entry functions of pkg/amd/psb that work on the parsed directories (`GetPSPEntries`, `GetPSPEntry`,
  `GetBIOSEntries`, `GetBIOSEntry`, `GetRangeBytes`, `ExtractPSPEntry`, `ExtractBIOSEntry`,
  `PatchPSPEntry`, `PatchBIOSEntry` / `patchEntry`).

  The functional model of the same code (what is found, decoded, extracted) is C17's
  `FianoModel/Amd/Model.lean`; its record types, decoders, constants and the uint64 address
  arithmetic (`physAddrToOffset`) are reused here.  This file adds Go's slicing primitives, fuel for the
  scanners and the allocation budget.

  Ordinary Go errors *inside* this family are values (`Option`), not the `err` exit of `GoM`: the
  callers (`parsePSPFirmware`, the scanners) swallow them and go on — `GoM` would drop the meter with
  the error, and what a failed attempt allocated has to stay on the meter.

  **Level-2 directories**: `parsePSPFirmware` looks at the *first* level-2 entry of the level-1
  table only and parses that one table; a level-2 table is never searched for further level-2 entries.
  There is no recursion, hence no pointer cycle to follow (structural, not a progress argument).

  **The BIOS scanner** is modelled with the size constant of the pre-check as a parameter `c`
  (`BIOSDirectoryTableEntrySize`).  A BIOS entry has 24 bytes; with `c = 16` (the value in the tree
  before fixes/C20-amd-bios-scan-quadratic.diff) a table can pass the pre-check, `make` its entry
  slice and then run out of data — a *failed* attempt that allocated 2·|rest| — and the scanner
  repeats that at every cookie: quadratic (`scan16_witness`, reproduced on the real code:
  64 KiB → 567 MiB, a 384 KiB image does not finish within 10 minutes).  With `c = 24` a failed
  attempt allocates nothing (`parseBIOSG_spec`), and the scan is linear.
-/
import FianoModel.Total.Hoare
import FianoModel.Amd.Model

namespace Fiano.AmdTotal
open GoM Amd

def two64 : Nat := 18446744073709551616
def two32 : Nat := 4294967296

def pspEntryMem : Nat := 16     -- unsafe.Sizeof(PSPDirectoryTableEntry{})
def biosEntryMem : Nat := 32    -- unsafe.Sizeof(BIOSDirectoryTableEntry{})

/-! ## `bytes.Index` (modelled, not verified: first occurrence or -1) -/

def indexOf (pat : Bytes) : Bytes → Option Nat
  | [] => if pat.isEmpty then some 0 else none
  | x :: xs => if pat.isPrefixOf (x :: xs) then some 0 else (indexOf pat xs).map (· + 1)

theorem indexOf_le (pat : Bytes) (b : Bytes) (i : Nat) (h : indexOf pat b = some i) : i + pat.length ≤ b.length := by
  induction b generalizing i with
  | nil =>
    unfold indexOf at h
    split at h
    · cases pat with
      | nil => simp at h; omega
      | cons _ _ => simp at *
    · cases h
  | cons x xs ih =>
    unfold indexOf at h
    split at h
    · rename_i hp
      have := List.IsPrefix.length_le (List.isPrefixOf_iff_prefix.mp hp)
      simp only [Option.some.injEq] at h
      omega
    · cases hi : indexOf pat xs with
      | none => simp [hi] at h
      | some j =>
        simp only [hi, Option.map_some, Option.some.injEq] at h
        have := ih j hi
        simp only [List.length_cons]
        omega

/-! ## embedded firmware structure -/

/-- the probe loop of `FindEmbeddedFirmwareStructure` (repaired bounds check
    `offset > len || offset+4 > len`): `image[offset:]` twice, `binary.LittleEndian.Uint32` (which
    indexes `b[3]`), `ParseEmbeddedFirmwareStructure` through a buffer -/
def findEFSLoopG (img : Bytes) : List Nat → GoM (EFS × Range)
  | [] => err
  | a :: rest =>
    let off := physAddrToOffset img.length a
    if off > img.length ∨ (off + 4) % two64 > img.length then findEFSLoopG img rest
    else do
      let w ← sliceFromG "FindEmbeddedFirmwareStructure: image[offset:]" img off
      let _ ← indexG "binary.LittleEndian.Uint32: b[3]" w 3
      if fromLE (w.take 4) = efsSignature then do
        let w2 ← sliceFromG "FindEmbeddedFirmwareStructure: image[offset:] (buffer)" img off
        let p ← binaryReadG w2 efsSize
        if (decodeEFS p.1).signature ≠ efsSignature then err
        else pure (decodeEFS p.1, ⟨off, efsSize⟩)
      else findEFSLoopG img rest

def findEFSG (img : Bytes) : GoM (EFS × Range) := findEFSLoopG img efsAnchors

/-! ## PSP directory table -/

/-- `r` has fewer than `k` bytes left — looks at `k` bytes only (the entry loops run over images of
    hundreds of KiB in the driver) -/
def shortOf (r : Bytes) (k : Nat) : Bool := decide ((r.take k).length < k)

theorem shortOf_iff (r : Bytes) (k : Nat) : shortOf r k = true ↔ r.length < k := by
  simp only [shortOf, decide_eq_true_eq, List.length_take]
  omega

/-- the entry loop of `ParsePSPDirectoryTable`: five `readAndCountSize` per entry (16 bytes), then
    `table.Entries = append(table.Entries, *entry)` -/
def pspEntriesG (B : Nat) : Nat → Bytes → List PSPEntry → GoM (Option (List PSPEntry))
  | 0, _, acc => pure (some acc.reverse)
  | n + 1, r, acc =>
    if shortOf r pspEntrySize then pure none
    else do
      allocB "ParsePSPDirectoryTable: append(table.Entries, *entry)" B 1 pspEntryMem
      pspEntriesG B n (r.drop pspEntrySize) (decodePSPEntry (r.take pspEntrySize) :: acc)

/-- `ParsePSPDirectoryTable(d)`: the table and the number of bytes consumed, `none` = error -/
def parsePSPG (B : Nat) (d : Bytes) : GoM (Option (PSPTable × Nat)) :=
  if d.length < 4 then pure none
  else if fromLE (d.take 4) ≠ pspCookie ∧ fromLE (d.take 4) ≠ pspL2Cookie then pure none
  else if d.length < dirHeaderSize then pure none
  else if d.length - dirHeaderSize < fromLE (slice d 8 4) * pspEntrySize then pure none
  else do
    let es ← pspEntriesG B (fromLE (slice d 8 4)) (d.drop dirHeaderSize) []
    match es with
    | none => pure none
    | some es => pure (some ({ cookie := fromLE (d.take 4), checksum := fromLE (slice d 4 4),
                               total := fromLE (slice d 8 4), addl := fromLE (slice d 12 4), entries := es },
                             dirHeaderSize + pspEntrySize * fromLE (slice d 8 4)))

/-! ## BIOS directory table -/

/-- the entry loop of `ParseBIOSDirectoryTable`: seven reads per entry (24 bytes); the `append` stays
    inside the capacity the `make` before the loop reserved -/
def biosEntriesG : Nat → Bytes → List BIOSEntry → GoM (Option (List BIOSEntry))
  | 0, _, acc => pure (some acc.reverse)
  | n + 1, r, acc =>
    if shortOf r biosEntrySize then pure none
    else biosEntriesG n (r.drop biosEntrySize) (decodeBIOSEntry (r.take biosEntrySize) :: acc)

/-- `ParseBIOSDirectoryTable(d)`; `c` = the constant `BIOSDirectoryTableEntrySize` of the pre-check -/
def parseBIOSG (c B : Nat) (d : Bytes) : GoM (Option (BIOSTable × Nat)) :=
  if d.length < 4 then pure none
  else if fromLE (d.take 4) ≠ biosCookie ∧ fromLE (d.take 4) ≠ biosL2Cookie then pure none
  else if d.length < dirHeaderSize then pure none
  else if d.length - dirHeaderSize < fromLE (slice d 8 4) * c then pure none
  else do
    allocB "ParseBIOSDirectoryTable: make([]BIOSDirectoryTableEntry, 0, table.TotalEntries)" B
      (fromLE (slice d 8 4)) biosEntryMem
    let es ← biosEntriesG (fromLE (slice d 8 4)) (d.drop dirHeaderSize) []
    match es with
    | none => pure none
    | some es => pure (some ({ cookie := fromLE (d.take 4), checksum := fromLE (slice d 4 4),
                               total := fromLE (slice d 8 4), reserved := fromLE (slice d 12 4), entries := es },
                             dirHeaderSize + biosEntrySize * fromLE (slice d 8 4)))

/-! ## the cookie scanners -/

/-- the loop of `FindPSPDirectoryTable` / `FindBIOSDirectoryTable`: `bytes.Index`, `image[idx:]`,
    parse; on an error `image = image[idx+4:]` and again.  `none` = "not found". -/
def scanG {α : Type} (parse : Bytes → GoM (Option (α × Nat))) (cookie : Bytes) :
    Nat → Bytes → Nat → GoM (Option (α × Range))
  | 0, _, _ => outOfFuel
  | fuel + 1, image, offset =>
    match indexOf cookie image with
    | none => pure none
    | some idx => do
      let w ← sliceFromG "Find*DirectoryTable: image[idx:]" image idx
      let res ← parse w
      match res with
      | some (t, n) => pure (some (t, ⟨offset + idx, n⟩))
      | none => do
        let image' ← sliceFromG "Find*DirectoryTable: image[idx+len(cookieBytes):]" image (idx + 4)
        scanG parse cookie fuel image' ((offset + (idx + 4)) % two64)

def findPSPG (B : Nat) (image : Bytes) : GoM (Option (PSPTable × Range)) :=
  scanG (parsePSPG B) (leN 4 pspCookie) (image.length + 1) image 0

def findBIOSG (c B : Nat) (image : Bytes) : GoM (Option (BIOSTable × Range)) :=
  scanG (parseBIOSG c B) (leN 4 biosCookie) (image.length + 1) image 0

/-! ## parsePSPFirmware -/

/-- a table at a pointer: `image[ptr:]`, parse, errors swallowed -/
def atPtrG {α : Type} (site : String) (parse : Bytes → GoM (Option (α × Nat))) (img : Bytes) (ptr : Nat) :
    GoM (Option (α × Range)) := do
  let w ← sliceFromG site img ptr
  let res ← parse w
  match res with
  | some (t, n) => pure (some (t, ⟨ptr, n⟩))
  | none => pure none

/-- level-1 PSP directory: the EFS pointer (`ptr != 0 && ptr < uint32(len(image))`), else the scan -/
def pspLevel1G (B : Nat) (img : Bytes) (efs : EFS) : GoM (Option (PSPTable × Range)) := do
  let viaPtr ← (if efs.pspPtr ≠ 0 ∧ efs.pspPtr < img.length % two32 then
      atPtrG "parsePSPFirmware: image[efs.PSPDirectoryTablePointer:]" (parsePSPG B) img efs.pspPtr
    else pure none)
  match viaPtr with
  | some r => pure (some r)
  | none => findPSPG B img

/-- level 2: only the first entry of type 0x40 is looked at (`break`) -/
def pspLevel2G (B : Nat) (img : Bytes) : Option (PSPTable × Range) → GoM (Option (PSPTable × Range))
  | none => pure none
  | some (t, _) =>
    match t.entries.find? (fun e => e.type = pspL2EntryType) with
    | none => pure none
    | some e =>
      if e.loc ≠ 0 ∧ e.loc < img.length then
        atPtrG "parsePSPFirmware: image[entry.LocationOrValue:]" (parsePSPG B) img e.loc
      else pure none

/-- the four EFS slots in order, skipped when `offset == 0 || int(offset) > len(image)` -/
def biosViaPtrsG (c B : Nat) (img : Bytes) : List Nat → GoM (Option (BIOSTable × Range))
  | [] => pure none
  | o :: rest =>
    if o = 0 ∨ o > img.length then biosViaPtrsG c B img rest
    else do
      let r ← atPtrG "parsePSPFirmware: image[offset:]" (parseBIOSG c B) img o
      match r with
      | some x => pure (some x)
      | none => biosViaPtrsG c B img rest

def biosLevel1G (c B : Nat) (img : Bytes) (efs : EFS) : GoM (Option (BIOSTable × Range)) := do
  let viaPtr ← biosViaPtrsG c B img [efs.bios0, efs.bios1, efs.bios2, efs.bios3]
  match viaPtr with
  | some r => pure (some r)
  | none => findBIOSG c B img

def biosLevel2G (c B : Nat) (img : Bytes) : Option (BIOSTable × Range) → GoM (Option (BIOSTable × Range))
  | none => pure none
  | some (t, _) =>
    match t.entries.find? (fun e => e.type = biosL2EntryType) with
    | none => pure none
    | some e =>
      if e.src ≠ 0 ∧ e.src < img.length then
        atPtrG "parsePSPFirmware: image[entry.SourceAddress:]" (parseBIOSG c B) img e.src
      else pure none

/-- `parsePSPFirmware` (`err` only when no EFS is found) -/
def discoverG (c B : Nat) (img : Bytes) : GoM PSPFirmware := do
  let e ← findEFSG img
  let p1 ← pspLevel1G B img e.1
  let p2 ← pspLevel2G B img p1
  let b1 ← biosLevel1G c B img e.1
  let b2 ← biosLevel2G c B img b1
  pure { efs := e.1, efsRange := e.2, psp1 := p1, psp2 := p2, bios1 := b1, bios2 := b2 }

/-! ## totality -/

def two63 : Nat := 9223372036854775808

/-- the probe: `offset + 4` is a uint64 sum; with `offset ≤ len < 2^63` (the length of a Go slice) it
    cannot wrap, so `offset + 4 ≤ len` really holds where the code slices and reads -/
theorem findEFSLoopG_spec (img : Bytes) (hl : img.length < two63) (as : List Nat) (m : Meter) :
    SafeP (findEFSLoopG img as) m (fun _ m' => m' = m) := by
  induction as with
  | nil => exact SafeP.err
  | cons a rest ih =>
    unfold findEFSLoopG
    simp only
    apply SafeP.ite
    · intro _; exact ih
    · intro h
      have h1 : physAddrToOffset img.length a ≤ img.length := by omega
      have h2 : physAddrToOffset img.length a + 4 ≤ img.length := by
        have : (physAddrToOffset img.length a + 4) % two64 ≤ img.length := by omega
        by_cases hw : physAddrToOffset img.length a + 4 < two64
        · rw [Nat.mod_eq_of_lt hw] at this; exact this
        · simp only [two64, two63] at *
          omega
      apply SafeP.bind; apply SafeP.sliceFrom h1
      apply SafeP.bind; apply SafeP.index (by simp only [List.length_drop]; omega)
      apply SafeP.ite
      · intro _
        apply SafeP.bind; apply SafeP.sliceFrom h1
        apply SafeP.bind; apply SafeP.binaryRead; intro _
        apply SafeP.ite
        · intro _; exact SafeP.err
        · intro _; exact SafeP.pure rfl
      · intro _; exact ih

theorem findEFSG_spec (img : Bytes) (hl : img.length < two63) (m : Meter) :
    SafeP (findEFSG img) m (fun _ m' => m' = m) := findEFSLoopG_spec img hl _ m

def pspSz (t : PSPTable) : Nat := pspEntrySize * t.entries.length
def biosSz (t : BIOSTable) : Nat := biosEntrySize * t.entries.length

/-- what a directory parser guarantees: at most `K` bytes allocated per input byte, **nothing** when
    it ends in an error, and a table it returns has as many entries as fit into its input -/
def ParseOK {α : Type} (B K : Nat) (sz : α → Nat) (parse : Bytes → GoM (Option (α × Nat))) : Prop :=
  ∀ (d : Bytes) (m : Meter), m.alloc + K * d.length ≤ B →
    SafeP (parse d) m (fun res m' => m'.alloc ≤ m.alloc + K * d.length ∧ (res = none → m'.alloc = m.alloc) ∧
      (∀ t n, res = some (t, n) → sz t ≤ d.length))

theorem pspEntriesG_spec (B : Nat) : ∀ (n : Nat) (r : Bytes) (acc : List PSPEntry) (m : Meter),
    n * pspEntrySize ≤ r.length → m.alloc + n * pspEntryMem ≤ B →
    SafeP (pspEntriesG B n r acc) m (fun res m' => res.isSome = true ∧ m'.alloc = m.alloc + n * pspEntryMem ∧
      (∀ es, res = some es → es.length = acc.length + n)) := by
  intro n
  induction n with
  | zero =>
    intro r acc m _ _
    unfold pspEntriesG
    exact SafeP.pure ⟨rfl, by omega, fun es h => by cases h; simp⟩
  | succ n ih =>
    intro r acc m hr hB
    unfold pspEntriesG
    simp only [pspEntrySize, pspEntryMem] at *
    apply SafeP.cond
    · intro h; rw [shortOf_iff] at h; omega
    · intro _
      apply SafeP.bind; apply SafeP.alloc (by omega)
      have hl : (r.drop 16).length = r.length - 16 := by simp
      apply SafeP.mono (ih (r.drop 16) _ _ (by omega) (by simp only; omega))
      intro res m' ⟨h1, h2, h3⟩
      simp only at h2
      exact ⟨h1, by omega, fun es h => by have := h3 es h; simp only [List.length_cons] at this; omega⟩

/-- `ParsePSPDirectoryTable`: after the exact pre-check `TotalEntries·16 ≤ rest` no entry can fail;
    one 16-byte entry appended per 16 bytes read -/
theorem parsePSPG_ok (B : Nat) : ParseOK B 1 pspSz (parsePSPG B) := by
  intro d m hB
  unfold parsePSPG
  apply SafeP.ite; · intro _; exact SafeP.pure ⟨by omega, fun _ => rfl, fun _ _ h => by cases h⟩
  intro _
  apply SafeP.ite; · intro _; exact SafeP.pure ⟨by omega, fun _ => rfl, fun _ _ h => by cases h⟩
  intro _
  apply SafeP.ite; · intro _; exact SafeP.pure ⟨by omega, fun _ => rfl, fun _ _ h => by cases h⟩
  intro h16
  apply SafeP.ite; · intro _; exact SafeP.pure ⟨by omega, fun _ => rfl, fun _ _ h => by cases h⟩
  intro hfit
  simp only [dirHeaderSize, pspEntrySize, pspEntryMem] at *
  generalize fromLE (slice d 8 4) = total at *
  have hl : (d.drop 16).length = d.length - 16 := by simp
  apply SafeP.bind
  apply SafeP.mono (pspEntriesG_spec B total (d.drop 16) [] m (by simp only [pspEntrySize]; omega)
    (by simp only [pspEntryMem]; omega))
  intro res m' ⟨h1, h2, h3⟩
  simp only [pspEntryMem] at h2
  cases res with
  | none => simp at h1
  | some es =>
    have hlen := h3 es rfl
    simp only [List.length_nil] at hlen
    refine SafeP.pure ⟨by omega, ⟨fun h => (by cases h), fun t n h => ?_⟩⟩
    simp only [Option.some.injEq, Prod.mk.injEq] at h
    obtain ⟨rfl, _⟩ := h
    simp only [pspSz, pspEntrySize]
    omega

theorem biosEntriesG_spec : ∀ (n : Nat) (r : Bytes) (acc : List BIOSEntry) (m : Meter),
    SafeP (biosEntriesG n r acc) m (fun res m' => m' = m ∧ (n * biosEntrySize ≤ r.length → res.isSome = true) ∧
      (∀ es, res = some es → es.length = acc.length + n)) := by
  intro n
  induction n with
  | zero =>
    intro r acc m
    unfold biosEntriesG
    exact SafeP.pure ⟨rfl, fun _ => rfl, fun es h => by cases h; simp⟩
  | succ n ih =>
    intro r acc m
    unfold biosEntriesG
    simp only [biosEntrySize] at *
    apply SafeP.cond
    · intro h; rw [shortOf_iff] at h; exact SafeP.pure ⟨rfl, fun h' => by omega, fun _ h => by cases h⟩
    · intro _
      have hl : (r.drop 24).length = r.length - 24 := by simp
      apply SafeP.mono (ih (r.drop 24) _ m)
      intro res m' ⟨h1, h2, h3⟩
      exact ⟨h1, fun h' => h2 (by omega),
        fun es h => by have := h3 es h; simp only [List.length_cons] at this; omega⟩

/-- `ParseBIOSDirectoryTable` with a pre-check constant of **at least the real entry size**: the
    `make` is reached only when all entries are there, so an attempt that fails allocates nothing;
    32 bytes of entry per 24 bytes read -/
theorem parseBIOSG_ok (c B : Nat) (hc : biosEntrySize ≤ c) : ParseOK B 2 biosSz (parseBIOSG c B) := by
  intro d m hB
  unfold parseBIOSG
  apply SafeP.ite; · intro _; exact SafeP.pure ⟨by omega, fun _ => rfl, fun _ _ h => by cases h⟩
  intro _
  apply SafeP.ite; · intro _; exact SafeP.pure ⟨by omega, fun _ => rfl, fun _ _ h => by cases h⟩
  intro _
  apply SafeP.ite; · intro _; exact SafeP.pure ⟨by omega, fun _ => rfl, fun _ _ h => by cases h⟩
  intro h16
  apply SafeP.ite; · intro _; exact SafeP.pure ⟨by omega, fun _ => rfl, fun _ _ h => by cases h⟩
  intro hfit
  simp only [dirHeaderSize, biosEntrySize, biosEntryMem] at *
  generalize fromLE (slice d 8 4) = total at *
  have hmul : total * 24 ≤ total * c := Nat.mul_le_mul_left total hc
  have hl : (d.drop 16).length = d.length - 16 := by simp
  apply SafeP.bind; apply SafeP.alloc (by omega)
  apply SafeP.bind
  apply SafeP.mono (biosEntriesG_spec total (d.drop 16) [] _)
  intro res m' ⟨h1, h2, h3⟩
  subst h1
  have hs := h2 (by simp only [biosEntrySize]; omega)
  cases res with
  | none => simp at hs
  | some es =>
    have hlen := h3 es rfl
    simp only [List.length_nil] at hlen
    refine SafeP.pure ⟨by simp only; omega, ⟨fun h => (by cases h), fun t n h => ?_⟩⟩
    simp only [Option.some.injEq, Prod.mk.injEq] at h
    obtain ⟨rfl, _⟩ := h
    simp only [biosSz, biosEntrySize]
    omega

theorem mul_len_drop_le (K k : Nat) (b : Bytes) : K * (b.drop k).length ≤ K * b.length :=
  Nat.mul_le_mul_left K (by simp)

/-- result of a lookup: allocation within `K·|image|`, and a table that was found fits the image -/
def Found {α : Type} (K : Nat) (sz : α → Nat) (img : Bytes) (m : Meter) : Option (α × Range) → Meter → Prop :=
  fun res m' => m'.alloc ≤ m.alloc + K * img.length ∧ (∀ t r, res = some (t, r) → sz t ≤ img.length)

/-- the scanners: every round moves at least 4 bytes on (never `fuel`), both slices lie inside the
    image (`bytes.Index` found 4 bytes at `idx`), failed attempts are free, the successful one is the last -/
theorem scanG_spec {α : Type} (B K : Nat) (sz : α → Nat) (parse : Bytes → GoM (Option (α × Nat))) (cookie : Bytes)
    (hc : cookie.length = 4) (hp : ParseOK B K sz parse) :
    ∀ (fuel : Nat) (image : Bytes) (offset : Nat) (m : Meter), image.length < fuel → m.alloc + K * image.length ≤ B →
      SafeP (scanG parse cookie fuel image offset) m (Found K sz image m) := by
  intro fuel
  induction fuel with
  | zero => intro image _ _ h; omega
  | succ fuel ih =>
    intro image offset m hfuel hB
    unfold scanG
    split
    · exact SafeP.pure ⟨by omega, fun _ _ h => by cases h⟩
    · rename_i idx hidx
      have hle := indexOf_le _ _ _ hidx
      rw [hc] at hle
      have hd1 := mul_len_drop_le K idx image
      have hd2 := mul_len_drop_le K (idx + 4) image
      have hl1 : (image.drop idx).length = image.length - idx := by simp
      apply SafeP.bind; apply SafeP.sliceFrom (by omega)
      apply SafeP.bind
      apply SafeP.mono (hp (image.drop idx) m (by omega))
      intro res m1 ⟨h1, h2, h3⟩
      cases res with
      | some p =>
        refine SafeP.pure ⟨by omega, fun t r h => ?_⟩
        simp only [Option.some.injEq, Prod.mk.injEq] at h
        have := h3 p.1 p.2 rfl
        rw [← h.1]
        omega
      | none =>
        have := h2 rfl
        simp only
        apply SafeP.bind; apply SafeP.sliceFrom (by omega)
        have hl : (image.drop (idx + 4)).length = image.length - (idx + 4) := by simp
        apply SafeP.mono (ih (image.drop (idx + 4)) _ m1 (by omega) (by omega))
        intro res m2 ⟨h4, h5⟩
        exact ⟨by omega, fun t r h => by have := h5 t r h; omega⟩

theorem atPtrG_spec {α : Type} (B K : Nat) (sz : α → Nat) (site : String) (parse : Bytes → GoM (Option (α × Nat)))
    (hp : ParseOK B K sz parse) (img : Bytes) (ptr : Nat) (m : Meter) (hptr : ptr ≤ img.length)
    (hB : m.alloc + K * img.length ≤ B) :
    SafeP (atPtrG site parse img ptr) m
      (fun res m' => Found K sz img m res m' ∧ (res = none → m'.alloc = m.alloc)) := by
  unfold atPtrG
  have hd := mul_len_drop_le K ptr img
  have hl1 : (img.drop ptr).length = img.length - ptr := by simp
  apply SafeP.bind; apply SafeP.sliceFrom hptr
  apply SafeP.bind
  apply SafeP.mono (hp (img.drop ptr) m (by omega))
  intro res m1 ⟨h1, h2, h3⟩
  cases res with
  | some p =>
    refine SafeP.pure ⟨⟨by omega, fun t r h => ?_⟩, fun h => by cases h⟩
    simp only [Option.some.injEq, Prod.mk.injEq] at h
    have := h3 p.1 p.2 rfl
    rw [← h.1]
    omega
  | none => exact SafeP.pure ⟨⟨by omega, fun _ _ h => by cases h⟩, fun _ => h2 rfl⟩

theorem pspLevel1G_spec (B : Nat) (img : Bytes) (efs : EFS) (m : Meter) (hB : m.alloc + 1 * img.length ≤ B) :
    SafeP (pspLevel1G B img efs) m (Found 1 pspSz img m) := by
  unfold pspLevel1G
  apply SafeP.bind
  refine SafeP.mono (Q := fun res m' => Found 1 pspSz img m res m' ∧ (res = none → m'.alloc = m.alloc)) ?_ ?_
  · apply SafeP.ite
    · intro h
      have : img.length % two32 ≤ img.length := Nat.mod_le _ _
      exact atPtrG_spec B 1 pspSz _ _ (parsePSPG_ok B) img _ m (by omega) hB
    · intro _; exact SafeP.pure ⟨⟨by omega, fun _ _ h => by cases h⟩, fun _ => rfl⟩
  · intro res m1 ⟨h1, h2⟩
    cases res with
    | some r => exact SafeP.pure h1
    | none =>
      have := h2 rfl
      simp only
      unfold findPSPG
      apply SafeP.mono (scanG_spec B 1 pspSz _ _ (by simp) (parsePSPG_ok B) _ img 0 m1 (by omega) (by omega))
      intro res m2 ⟨h3, h4⟩
      exact ⟨by omega, h4⟩

theorem pspLevel2G_spec (B : Nat) (img : Bytes) (p1 : Option (PSPTable × Range)) (m : Meter)
    (hB : m.alloc + 1 * img.length ≤ B) :
    SafeP (pspLevel2G B img p1) m (Found 1 pspSz img m) := by
  unfold pspLevel2G
  split
  · exact SafeP.pure ⟨by omega, fun _ _ h => by cases h⟩
  · split
    · exact SafeP.pure ⟨by omega, fun _ _ h => by cases h⟩
    · apply SafeP.ite
      · intro h
        apply SafeP.mono (atPtrG_spec B 1 pspSz _ _ (parsePSPG_ok B) img _ m (by omega) hB)
        intro _ _ h'; exact h'.1
      · intro _; exact SafeP.pure ⟨by omega, fun _ _ h => by cases h⟩

theorem biosViaPtrsG_spec (c B : Nat) (hc : biosEntrySize ≤ c) (img : Bytes) (os : List Nat) (m : Meter)
    (hB : m.alloc + 2 * img.length ≤ B) :
    SafeP (biosViaPtrsG c B img os) m
      (fun res m' => Found 2 biosSz img m res m' ∧ (res = none → m'.alloc = m.alloc)) := by
  induction os generalizing m with
  | nil => exact SafeP.pure ⟨⟨by omega, fun _ _ h => by cases h⟩, fun _ => rfl⟩
  | cons o rest ih =>
    unfold biosViaPtrsG
    apply SafeP.ite
    · intro _; exact ih m hB
    · intro h
      apply SafeP.bind
      apply SafeP.mono (atPtrG_spec B 2 biosSz _ _ (parseBIOSG_ok c B hc) img o m (by omega) hB)
      intro res m1 ⟨h1, h2⟩
      cases res with
      | some x => exact SafeP.pure ⟨h1, fun h => by cases h⟩
      | none =>
        -- nothing was allocated by the failed attempt: the next slot starts from the same meter
        have hm := h2 rfl
        simp only
        apply SafeP.mono (ih m1 (by omega))
        intro r2 m2 ⟨⟨a, a'⟩, b⟩
        exact ⟨⟨by omega, a'⟩, fun h => by rw [b h]; exact hm⟩

theorem biosLevel1G_spec (c B : Nat) (hc : biosEntrySize ≤ c) (img : Bytes) (efs : EFS) (m : Meter)
    (hB : m.alloc + 2 * img.length ≤ B) :
    SafeP (biosLevel1G c B img efs) m (Found 2 biosSz img m) := by
  unfold biosLevel1G
  apply SafeP.bind
  apply SafeP.mono (biosViaPtrsG_spec c B hc img _ m hB)
  intro res m1 ⟨h1, h2⟩
  cases res with
  | some r => exact SafeP.pure h1
  | none =>
    have := h2 rfl
    simp only
    unfold findBIOSG
    apply SafeP.mono (scanG_spec B 2 biosSz _ _ (by simp) (parseBIOSG_ok c B hc) _ img 0 m1 (by omega) (by omega))
    intro res m2 ⟨h3, h4⟩
    exact ⟨by omega, h4⟩

theorem biosLevel2G_spec (c B : Nat) (hc : biosEntrySize ≤ c) (img : Bytes) (b1 : Option (BIOSTable × Range))
    (m : Meter) (hB : m.alloc + 2 * img.length ≤ B) :
    SafeP (biosLevel2G c B img b1) m (Found 2 biosSz img m) := by
  unfold biosLevel2G
  split
  · exact SafeP.pure ⟨by omega, fun _ _ h => by cases h⟩
  · split
    · exact SafeP.pure ⟨by omega, fun _ _ h => by cases h⟩
    · apply SafeP.ite
      · intro h
        apply SafeP.mono (atPtrG_spec B 2 biosSz _ _ (parseBIOSG_ok c B hc) img _ m (by omega) hB)
        intro _ _ h'; exact h'.1
      · intro _; exact SafeP.pure ⟨by omega, fun _ _ h => by cases h⟩

/-- allocation coefficient of `parsePSPFirmware`: PSP level 1 and 2 (1 each), BIOS level 1 and 2 (2 each) -/
def discoverKSlope : Nat := 6

/-- every directory of a discovered firmware has no more entries than fit into the image -/
def FwOK (img : Bytes) (fw : PSPFirmware) : Prop :=
  (∀ t r, fw.psp1 = some (t, r) → pspSz t ≤ img.length) ∧ (∀ t r, fw.psp2 = some (t, r) → pspSz t ≤ img.length) ∧
  (∀ t r, fw.bios1 = some (t, r) → biosSz t ≤ img.length) ∧ (∀ t r, fw.bios2 = some (t, r) → biosSz t ≤ img.length)

/-- **`parsePSPFirmware`** on every image shorter than 2^63 bytes, with the repaired pre-check
    constant: a value or "EFS not found"; never a panic, never out of fuel, ≤ 6·|image| allocated -/
theorem discoverG_spec (c B : Nat) (hc : biosEntrySize ≤ c) (img : Bytes) (hl : img.length < two63) (m : Meter)
    (hB : m.alloc + discoverKSlope * img.length ≤ B) :
    SafeP (discoverG c B img) m (fun fw m' => m'.alloc ≤ m.alloc + discoverKSlope * img.length ∧ FwOK img fw) := by
  unfold discoverG
  simp only [discoverKSlope] at *
  apply SafeP.bind
  apply SafeP.mono (findEFSG_spec img hl m)
  intro e m0 hm0
  subst hm0
  apply SafeP.bind
  apply SafeP.mono (pspLevel1G_spec B img e.1 m0 (by omega))
  intro p1 m1 ⟨h1, k1⟩
  apply SafeP.bind
  apply SafeP.mono (pspLevel2G_spec B img p1 m1 (by omega))
  intro p2 m2 ⟨h2, k2⟩
  apply SafeP.bind
  apply SafeP.mono (biosLevel1G_spec c B hc img e.1 m2 (by omega))
  intro b1 m3 ⟨h3, k3⟩
  apply SafeP.bind
  apply SafeP.mono (biosLevel2G_spec c B hc img b1 m3 (by omega))
  intro b2 m4 ⟨h4, k4⟩
  exact SafeP.pure ⟨by omega, k1, k2, k3, k4⟩

end Fiano.AmdTotal
