/-
  T1 tie for C20: the inventories of every `make` / slice / index expression of the anchored
  functions, the packed sizes of the records the GoM models read with `binaryReadG`, and the
  constants the guards compare with — regenerated from the Go sources on every check
  (FianoModel/Gen/C20*.lean) and compared here with what the models assume.

  Reading guide for a `sites_*` theorem: each listed expression is a primitive of the model
  function named in the comment (`sliceG`/`sliceFromG`/`sliceToG`/`indexG`/`allocB`); full slices
  of fixed-size arrays (`x[:]`) cannot fault and have no primitive.  A new unguarded site in the
  Go function changes the list and breaks the theorem even if no generated input reaches it.
-/
import FianoModel.Fmap.Total
import FianoModel.Microcode.Total
import FianoModel.Me.Total
import FianoModel.Fsp.Total
import FianoModel.Fit.Total
import FianoModel.Psb.Total
import FianoModel.Compression.Total
import FianoModel.Total.Apcb
import FianoModel.Total.Cbfs
import FianoModel.Gen.C20Fmap
import FianoModel.Gen.C20Microcode
import FianoModel.Gen.C20Me
import FianoModel.Gen.C20Fsp
import FianoModel.Gen.C20Fit
import FianoModel.Gen.C20FitCheck
import FianoModel.Gen.C20FitConsts
import FianoModel.Gen.C20Psb
import FianoModel.Gen.C20Compression
import FianoModel.Gen.C20Apcb
import FianoModel.Gen.C20Cbfs

namespace Fiano.C20Tie
open Fiano.Gen

/-! ## pkg/fmap -/

/-- `Fmap.visitG` / `readLoopG`: two `sliceFromG` and the one `allocB` (after the repair the make
    is reached for the first header-valid candidate only) -/
theorem sites_fmap_Read : C20Fmap.sites_Read =
    ["data[start:]", "data[start:]", "make([]Area, fmap.NAreas)"] := by decide
/-- `Fmap.readAreaG` (repaired): no `make` any more, one guarded index -/
theorem sites_fmap_ReadArea : C20Fmap.sites_FMap_ReadArea = ["f.Areas[i]"] := by decide
theorem sites_fmap_WriteArea : C20Fmap.sites_FMap_WriteArea = ["f.Areas[i]", "f.Areas[i]", "f.Areas[i]"] := by decide
theorem sites_fmap_Write : C20Fmap.sites_Write = [] := by decide
theorem sites_fmap_readField : C20Fmap.sites_readField = [] := by decide
theorem size_fmap_Header : Fmap.headerSize = C20Fmap.size_Header := by decide
theorem size_fmap_Area : Fmap.areaSize = C20Fmap.size_Area := by decide

/-! ## pkg/intel/microcode -/

/-- `Microcode.parseG` (repaired): no `make`; `m.ExtendedSignatures[i]` is indexed in a loop over
    the same `Count` that filled the slice -/
theorem sites_microcode_Parse : C20Microcode.sites_ParseIntelMicrocode = ["m.ExtendedSignatures[i]"] := by decide
theorem calls_microcode_ReadAll : C20Microcode.calls_ParseIntelMicrocode_io_ReadAll =
    ["io.ReadAll(io.LimitReader(r, int64(getDataSize(m.Header))))"] := by decide
theorem size_microcode_Header : Microcode.headerSize = C20Microcode.size_Header := by decide
theorem size_microcode_ExtTable : Microcode.extTableSize = C20Microcode.size_ExtendedSigTable := by decide
theorem size_microcode_ExtSig : Microcode.extSigSize = C20Microcode.size_ExtendedSignature := by decide
theorem const_microcode_DataSize : Microcode.defaultDataSize = C20Microcode.DefaultDatasize := by decide
theorem const_microcode_TotalSize : Microcode.defaultTotalSize = C20Microcode.DefaultTotalSize := by decide
/-- offsets used by `dataSizeOf` / `totalSizeOf` / the version checks -/
theorem layout_microcode_Header : C20Microcode.layout_Header =
    [("HeaderVersion", 4), ("HeaderRevision", 4), ("HeaderDate", 4), ("HeaderProcessorSignature", 4),
     ("HeaderChecksum", 4), ("HeaderLoaderRevision", 4), ("HeaderProcessorFlags", 4), ("HeaderDataSize", 4),
     ("HeaderTotalSize", 4), ("Reserved1", 12)] := by decide

/-! ## pkg/intel/me -/

/-- `Me.parseG`: array slices only, and `make(…, 0)` (the entries are appended: `allocB` per entry) -/
theorem sites_me_Parse : C20Me.sites_ParseIntelME =
    ["markerarea[:]", "Signature[:]", "make([]FlashPartitionTableEntry, 0)"] := by decide
theorem sites_me_parseEntry : C20Me.sites_parseEntry = [] := by decide
theorem sites_me_header : C20Me.sites_parseFlashPartitionTableHeader = [] ∧
    C20Me.sites_parseLegacyFlashPartitionTableHeader = [] := by decide
theorem sig_me : Me.signature = C20Me.Signature.map UInt8.ofNat := by decide
theorem size_me_Entry : Me.entrySize = C20Me.size_FlashPartitionTableEntry := by decide
/-- the field-by-field reads of the two header parsers: as many as `newHeaderFields` /
    `legacyHeaderFields` list, and together (with the 4-byte marker area) the packed header sizes -/
theorem reads_me_new : C20Me.calls_parseFlashPartitionTableHeader_binary_Read.length = Me.newHeaderFields.length ∧
    4 + Me.newHeaderFields.sum = C20Me.size_FlashPartitionTableHeader := by decide
theorem reads_me_legacy : C20Me.calls_parseLegacyFlashPartitionTableHeader_binary_Read.length = Me.legacyHeaderFields.length ∧
    4 + Me.legacyHeaderFields.sum = C20Me.size_LegacyFlashPartitionTableHeader := by decide

/-! ## pkg/fsp -/

theorem sites_fsp : C20Fsp.sites_NewInfoHeader = ["hdr.Signature[:]", "Signature[:]", "hdr.Reserved1[:]"] := by decide
theorem sig_fsp : Fsp.signature = C20Fsp.Signature.map UInt8.ofNat := by decide
theorem const_fsp : Fsp.fixedInfoHeaderLength = C20Fsp.FixedInfoHeaderLength ∧
    C20Fsp.size_FixedInfoHeader = 12 ∧ C20Fsp.HeaderMinRevision = 3 ∧
    Fsp.lengthOfRevision 3 = C20Fsp.HeaderV3Length ∧ Fsp.lengthOfRevision 4 = C20Fsp.HeaderV4Length ∧
    Fsp.lengthOfRevision 5 = C20Fsp.HeaderV5Length ∧ Fsp.lengthOfRevision 6 = C20Fsp.HeaderV6Length ∧
    Fsp.lengthOfRevision 7 = C20Fsp.HeaderV6Length := by decide
theorem size_fsp : Fsp.readSizeOfRevision 3 = C20Fsp.size_InfoHeaderRev3 ∧ Fsp.readSizeOfRevision 5 = C20Fsp.size_InfoHeaderRev5 ∧
    Fsp.readSizeOfRevision 6 = C20Fsp.size_InfoHeaderRev6 := by decide

/-! ## pkg/intel/metadata/fit -/

/-- the only slice expression of the whole table / entry path: `FitTotal.sliceOrCopyG` -/
theorem sites_fit_sliceOrCopy : C20Fit.sites_sliceOrCopyBytesFrom = ["r.Storage[startIdx:endIdx]"] := by decide
theorem sites_fit_none : C20Fit.sites_GetHeadersTableRangeFrom = [] ∧ C20Fit.sites_GetTableFrom = [] ∧
    C20Fit.sites_ParseTable = [] ∧ C20Fit.sites_copyBytesFrom = [] ∧ C20Fit.sites_entryInitDataSegmentBytes = [] ∧
    C20Fit.sites_NewEntry = [] ∧ C20Fit.sites_EntrySACMParseSizeFrom = [] ∧ C20Fit.sites_ParseSACMData = [] ∧
    C20Fit.sites_EntrySACM_ParseData = [] ∧ C20Fit.sites_Table_GetEntriesFrom = [] ∧
    C20FitCheck.sites_bounds = [] := by decide
/-- `readBytesFromReader` (repaired): no `make`, a bounded `io.ReadAll` -/
theorem sites_fit_readBytes : C20Fit.sites_readBytesFromReader = [] ∧
    C20Fit.calls_readBytesFromReader_io_ReadAll = ["io.ReadAll(io.LimitReader(r, int64(size)))"] := by decide
/-- the modifying path `RecalculateHeaders` + `Inject` (no GoM model, T2 / oracle only): it has no
    slice or index expression of its own except `entries[0]` behind the `len(entries) == 0` return,
    and one `make` sized by the number of entries; all image access goes through `Seek` / `Write` of
    the seeker, which answer with errors.  `EntryRecalculateHeaders` checks `entryTypeOf` before the
    panicking helper (fixes/C20-fit-recalculate-unknown-panic.diff). -/
theorem sites_fit_inject : C20Fit.sites_Entries_InjectTo = [] ∧ C20Fit.sites_EntryBase_injectDataSectionTo = [] ∧
    C20Fit.sites_Entries_Table = ["make(Table, 0, len(entries))"] ∧ C20Fit.sites_Table_WriteTo = [] ∧
    C20Fit.sites_EntryHeaders_WriteTo = [] ∧
    C20Fit.sites_Entries_RecalculateHeaders = ["entries[0]", "entries[0]"] ∧
    C20Fit.sites_EntryRecalculateHeaders = [] ∧ C20Fit.sites_mostCommonRecalculateHeadersOfEntry = [] ∧
    C20Fit.calls_EntryRecalculateHeaders_entryTypeOf = ["entryTypeOf(entry)"] := by decide
theorem size_fit_headers : C20Fit.size_EntryHeaders = 16 ∧
    C20Fit.layout_EntryHeaders = [("Address", 8), ("Size", 3), ("Reserved", 1), ("Version", 2),
      ("TypeAndIsChecksumValid", 1), ("Checksum", 1)] := by decide
theorem const_fit : FitTotal.two32 = C20FitConsts.BasePhysAddr ∧ C20FitConsts.FITPointerOffset = 0x40 ∧
    C20FitConsts.FITPointerSize = 0x10 := by decide
/-- entry types with their own data-size rule (`FitTotal.sizeRule`) -/
theorem types_fit : FitTotal.sizeRule C20Fit.EntryTypeFITHeaderEntry = .none ∧
    FitTotal.sizeRule C20Fit.EntryTypeTXTPolicyRecord = .none ∧
    FitTotal.sizeRule C20Fit.EntryTypeTPMPolicyRecord = .unsupported ∧
    FitTotal.sizeRule C20Fit.EntryTypeDiagnosticACModuleEntry = .unsupported ∧
    FitTotal.sizeRule C20Fit.EntryTypeKeyManifestRecord = .raw ∧
    FitTotal.sizeRule C20Fit.EntryTypeBootPolicyManifest = .raw ∧
    FitTotal.sizeRule C20Fit.EntryTypeBIOSPolicyRecord = .raw ∧
    FitTotal.sizeRule C20Fit.EntryTypeStartupACModuleEntry = .sacm := by decide
/-- ACM header versions and the sizes of the version-specific parts -/
theorem acm_fit : FitTotal.acmCommonSize = C20Fit.size_EntrySACMDataCommon ∧
    FitTotal.acmRestSize C20Fit.ACHeaderVersion0 = some (C20Fit.size_EntrySACMData0 - 128, 256) ∧
    FitTotal.acmRestSize C20Fit.ACHeaderVersion3 = some (C20Fit.size_EntrySACMData3 - 128, 384) ∧
    FitTotal.acmRestSize C20Fit.ACHeaderVersion4 = some (C20Fit.size_EntrySACMData4 - 128, 384) := by decide

/-! ## pkg/amd/psb -/

/-- `PsbTotal.readSizedG`: one `make` each, behind the repaired guard -/
theorem sites_psb_readSized : C20Psb.sites_readExponent = ["make([]byte, key.data.ExponentSize/8)"] ∧
    C20Psb.sites_readModulus = ["make([]byte, key.data.ModulusSize/8)"] := by decide
theorem sites_psb_keys : C20Psb.sites_newTokenOrRootKey = [] ∧ C20Psb.sites_NewRootKey = [] ∧
    C20Psb.sites_NewTokenKey = ["make([]byte, signatureSize)", "raw[:lenSigned]"] ∧
    C20Psb.sites_NewKeyFromDatabase = ["publicExponent[:]"] ∧ C20Psb.sites_parseKeyDatabase = [] := by decide
/-- `PsbTotal.validateEntryG`: the copy of `newPSPBinary` and the two slices of `getSignedBlob` -/
theorem sites_psb_binary : C20Psb.sites_newPSPBinary = ["make([]byte, len(data))"] ∧
    C20Psb.sites_newPspHeader = [] ∧
    C20Psb.sites_PSPBinary_getSignedBlob = ["b.raw[signatureStart:signatureEnd]", "b.raw[signedDataStart:signedDataEnd]"] ∧
    C20Psb.sites_checkBoundaries = [] ∧ C20Psb.sites_GetRangeBytes = ["image[start:end]"] ∧
    C20Psb.sites_ValidatePSPEntry = [] := by decide
theorem const_psb : PsbTotal.pspHeaderSize = C20Psb.pspHeaderSize ∧ C20Psb.signedDataStart = 0 ∧
    PsbTotal.pspHeaderDataSize = C20Psb.size_PSPHeaderData ∧ C20Psb.size_keyDBHeader = 80 := by decide

/-! ## pkg/compression -/

theorem sites_zlib : C20Compression.sites_ZLIB_Decode =
    ["encodedData[zlibSizeOffset : zlibSizeOffset+4]", "encodedData[zlibSectionHeaderSize:]"] := by decide
theorem sites_brotli : C20Compression.sites_SystemBROTLI_Decode = ["encodedData[0x10:]"] := by decide
theorem sites_plain_decoders : C20Compression.sites_LZMA_Decode = [] ∧ C20Compression.sites_SystemLZMA_Decode = [] ∧
    C20Compression.sites_LZ4_Decode = [] ∧ C20Compression.sites_LZMAX86_Decode = [] := by decide
theorem const_zlib : CompressionTotal.zlibSectionHeaderSize = C20Compression.zlibSectionHeaderSize ∧
    CompressionTotal.zlibSizeOffset = C20Compression.zlibSizeOffset := by decide

/-! ## pkg/amd/apcb (`Total/Apcb.lean`) -/

set_option maxRecDepth 100000 in
/-- the slices of the listing callback and of the three walks: one `sliceG` / `sliceFromG` each -/
theorem sites_apcb : C20Apcb.sites_parseAPCBHeader = ["apcbBinary[uint32(binary.Size(header)):header.V2Header.SizeOfAPCB]"] ∧
    C20Apcb.sites_ParseAPCBBinaryTokens =
      ["remainBytes[groupOffset+uint32(groupHeader.SizeOfHeader) : groupOffset+groupHeader.SizeOfGroup]",
       "groupData[typeOffset+uint32(binary.Size(typeHeader)) : typeOffset+uint32(typeHeader.SizeOfType)]"] ∧
    C20Apcb.sites_iterateTokenGroups = ["remainBytes[groupHeader.SizeOfGroup:]"] ∧
    C20Apcb.sites_iterateTypes = ["remainBytes[typeHeader.SizeOfType:]"] ∧
    C20Apcb.sites_iterateTokens = [] := by decide

set_option maxRecDepth 100000 in
/-- **the progress guards of the group walk**: `SizeOfGroup < header size` and `> len(remaining)` are
    tested directly in the loop body — for every group — and only the `SizeOfHeader` test is inside
    the `GroupID == tokensGroupID` branch (`ApcbTotal.groupsG` has exactly this shape; seeded defect
    c20-2 moves the first test into the branch and breaks this theorem) -/
theorem guards_apcb_iterateTokenGroups : C20Apcb.guards_iterateTokenGroups =
    ["for: len(remainBytes) > 0",
     "for/if: err != nil",
     "for/if: groupHeader.SizeOfGroup < groupHeaderSize",
     "for/if: groupHeader.SizeOfGroup > uint32(len(remainBytes))",
     "for/if: groupHeader.GroupID == tokensGroupID",
     "for/if/if: uint32(groupHeader.SizeOfHeader) > groupHeader.SizeOfGroup",
     "for/if/if: err != nil"] := by decide
theorem guards_apcb_iterateTypes : C20Apcb.guards_iterateTypes =
    ["for: len(remainBytes) > 0",
     "for/if: err != nil",
     "for/if: typeHeader.SizeOfType < typeHeaderSize",
     "for/if: int(typeHeader.SizeOfType) > len(remainBytes)",
     "for/if: err != nil"] := by decide
theorem guards_apcb_iterateTokens : C20Apcb.guards_iterateTokens =
    ["if: len(typeData)%tokenPairSize != 0", "for: i < tokensCount", "for/if: err != nil", "for/if: err != nil"] := by decide
theorem const_apcb : ApcbTotal.hdrSize = C20Apcb.size_headerV3 ∧ ApcbTotal.gHdrSize = C20Apcb.size_groupHeader ∧
    ApcbTotal.tHdrSize = C20Apcb.size_typeHeaderV3 ∧ ApcbTotal.pairSize = C20Apcb.size_tokenPair ∧
    ApcbTotal.tokensGroupID = C20Apcb.tokensGroupID ∧ C20Apcb.headerV2Signature = 0x42435041 ∧
    C20Apcb.headerV3Signature = 0x32424345 ∧ C20Apcb.headerV3EndingSignature = 0x41424342 := by decide
/-- offsets used by `groupsG` / `typesG` -/
theorem layout_apcb : C20Apcb.layout_groupHeader =
      [("Signature", 4), ("GroupID", 2), ("SizeOfHeader", 2), ("Version", 2), ("Reserved", 2), ("SizeOfGroup", 4)] ∧
    (C20Apcb.layout_typeHeaderV3.take 3) = [("GroupID", 2), ("TypeID", 2), ("SizeOfType", 2)] := by decide

/-! ## pkg/cbfs (`Total/Cbfs.lean`) -/

set_option maxRecDepth 100000 in
/-- cbfs has no slice of image data; every `make` by a length field is an `allocB` of the model
    (`FindAttribute`'s is reached from `Compression()` / `Decompress()`: T2 only) -/
theorem sites_cbfs : C20Cbfs.sites_NewImage = ["SegReaders[f.Type]"] ∧ C20Cbfs.sites_NewFile = ["f.Magic[:]"] ∧
    C20Cbfs.sites_ReadName = ["make([]byte, size)", "z[0]"] ∧
    C20Cbfs.sites_ReadAttributes = ["make([]byte, f.SubHeaderOffset-f.AttrOffset)"] ∧
    C20Cbfs.sites_ReadData = ["make([]byte, f.Size)"] ∧
    C20Cbfs.sites_File_FindAttribute = ["make([]byte, generic.Size)"] ∧
    C20Cbfs.sites_LegacyStageRecord_Read = ["make([]byte, r.StageHeader.Size)"] ∧
    C20Cbfs.sites_PayloadRecord_Read = ["make([]byte, bodySize)"] ∧ C20Cbfs.sites_MasterRecord_Read = [] := by decide
set_option maxRecDepth 100000 in
/-- the fit check of `NewFile` stands before the three readers that allocate (`CbfsTotal.newFileG`) -/
theorem guards_cbfs_NewFile : C20Cbfs.guards_NewFile =
    ["if: err != nil", "if: err != nil", "if: string(f.Magic[:]) != FileMagic", "if: err != nil", "if: err != nil",
     "if: f.AttrOffset != 0",
     "if: nameEnd < uint32(binary.Size(FileHeader{})) || f.SubHeaderOffset < nameEnd || off+int64(f.SubHeaderOffset)+int64(f.Size) > inputEnd",
     "if: f.AttrOffset == 0", "if: err != nil", "if: err != nil", "if: err != nil"] := by decide
set_option maxRecDepth 100000 in
/-- the record walk of `NewImage` (`CbfsTotal.walkG`): area clipping, loop condition, the three exits -/
theorem guards_cbfs_NewImage : C20Cbfs.guards_NewImage =
    ["if: err != nil", "if: err != nil", "range: f.Areas", "for/if: a.Name.String() == \"COREBOOT\"",
     "if: i.Area == nil", "if: size > avail", "if: size < 0", "for: off+FileSize <= r.Size()",
     "for/if: err != nil", "for/if: err == ErrCBFSHeaderMagicNotFound", "for/if: err == io.EOF", "for/if: err != nil",
     "for/if: !ok", "for/if: err != nil", "for/if: err != nil", "for/if: err != nil"] := by decide
set_option maxRecDepth 100000 in
/-- the attribute walk (T2 only): a tag of `Size < 8` ends it, so every round advances -/
theorem guards_cbfs_FindAttribute : C20Cbfs.guards_File_FindAttribute =
    ["for: ", "for/if: err != nil", "for/if: generic.Tag == uint32(Unused) || generic.Tag == uint32(Unused2)",
     "for/if: generic.Size < uint32(binary.Size(generic)) || generic.Size == 0xffffffff",
     "for/if: Tag(generic.Tag) == t", "for/if/if: int64(generic.Size) > int64(buf.Len())", "for/else/if: err != nil"] := by decide
theorem guards_cbfs_stage : C20Cbfs.guards_LegacyStageRecord_Read =
    ["if: err != nil", "if: err != nil", "if: err != nil", "if: err != nil", "if: int64(r.StageHeader.Size) > end-cur",
     "if: err != nil"] := by decide
theorem const_cbfs : CbfsTotal.fileHdr = C20Cbfs.FileSize ∧ C20Cbfs.size_FileHeader = 24 ∧ C20Cbfs.size_StageHeader = 28 ∧
    C20Cbfs.size_PayloadHeader = 28 ∧ C20Cbfs.TypeLegacyStage = 0x10 ∧ C20Cbfs.TypeSELF = 0x20 ∧
    CbfsTotal.segEntry = C20Cbfs.SegEntry ∧
    C20Cbfs.layout_FileHeader = [("Magic", 8), ("Size", 4), ("Type", 4), ("AttrOffset", 4), ("SubHeaderOffset", 4)] ∧
    (C20Cbfs.layout_StageHeader.take 4) = [("Compression", 4), ("Entry", 8), ("LoadAddress", 8), ("Size", 4)] := by decide

end Fiano.C20Tie
