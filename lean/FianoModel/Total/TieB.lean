/-
  T1 tie for the follow-up models of C20 (wp-c20b): the generic manifest reader, the AMD firmware /
  directory / entry functions, the FIT modifying path.  Facts regenerated from the Go sources on every
  check (Gen/Manifest.lean, Gen/C20Mf*.lean, Gen/C20Amd*.lean, Gen/C20FitInject.lean) compared with what
  the models of Total/Manifest.lean, Total/Amd.lean, Total/AmdEntries.lean, Fit/TotalInject.lean assume.

  The generated `ReadFrom` / `ReadDataFrom` methods themselves are tied statement by statement: the
  translator pattern-matches every field block *including* its `make([]byte, size)` / `make([]T, count)`
  / `for idx := range s.F` lines and the whole dispatch loop of the containers (translator/codegen.go
  `rdDynP`, `rdDynE`, `rdList`, `containerObs`); an unknown statement is an extraction failure of
  Gen.Manifest, and C15's `wire_*` theorems (Manifest/Tie.lean) say that the step lists are what the
  declarations prescribe.  Here: the layouts built from those declarations satisfy the hypothesis of the
  generic totality theorem, and their allocation coefficients are within the budget.
-/
import FianoModel.Total.Manifest
import FianoModel.Total.AmdEntries
import FianoModel.Total.AmdKeys
import FianoModel.Fit.TotalInject
import FianoModel.Manifest.Tie
import FianoModel.Gen.C20MfCbnt
import FianoModel.Gen.C20MfBg
import FianoModel.Gen.C20MfBgHeader
import FianoModel.Gen.C20MfCbntBpm
import FianoModel.Gen.C20MfBgBpm
import FianoModel.Gen.C20Amd
import FianoModel.Gen.C20AmdPsb
import FianoModel.Gen.C20FitInject

namespace Fiano.C20TieB
open Fiano.Gen Fiano.Manifest Fiano.ManifestTotal

set_option maxRecDepth 100000

/-! ## the 33 generated manifest structures -/

/-- a structure layout is well-formed for the reader (every list item consumes input) and its
    allocation coefficients are within the harness budget `64·|input| + 16 MiB` -/
def structOK (S : SDef) : Bool :=
  Wf S.body && decide (slope S.body ≤ 64) && decide (unpaid S.body ≤ 16777216)

def contOK (C : Container) : Bool :=
  WfC C && decide (cslope C ≤ 64) && decide (cunpaid C ≤ 16777216)

/-- what Driver/C20.lean runs for a structure name: the struct layout or the container built from the
    regenerated declarations -/
def layoutOK (q : String) : Bool :=
  match sdefOf Manifest.Tie.src 8 q with
  | some S => structOK S
  | none =>
    match containerOf Manifest.Tie.src 8 q (Manifest.Tie.strictOf q) with
    | some C => contOK C
    | none => false

/-- **all 33 regenerated layouts** satisfy `Wf` / `WfC`, with slope ≤ 64 and unpaid ≤ 16 MiB
    (in fact ≤ 12 and ≤ 2.57 MiB: the largest is the uint16 count of 40-byte `cbntkey.Hash` items of the
    CBnT key manifest, each with a uint16-sized digest buffer) -/
theorem manifest_layouts_wf : (Gen.Manifest.structNames.all layoutOK) = true := by decide

/-- the largest coefficients, for the record -/
theorem manifest_layouts_max :
    (Gen.Manifest.structNames.all fun q => match sdefOf Manifest.Tie.src 8 q with
      | some S => decide (slope S.body ≤ 9) && decide (unpaid S.body ≤ 2686976)
      | none => match containerOf Manifest.Tie.src 8 q (Manifest.Tie.strictOf q) with
        | some C => decide (cslope C ≤ 12) && decide (cunpaid C ≤ 2162888)
        | none => false) = true := by decide

/-- every count / length prefix of the 33 layouts is one or two bytes wide (uint8 / uint16): the
    reason why `unpaid` is small -/
def prefixesSmall : Layout → Bool
  | .done => true
  | .num _ _ r | .numV _ _ r | .bytes _ _ r => prefixesSmall r
  | .dyn _ c r | .dynE _ c _ r => decide (c ≤ 2) && prefixesSmall r
  | .sub _ _ i r => prefixesSmall i && prefixesSmall r
  | .list _ c _ i r => decide (c ≤ 2) && prefixesSmall i && prefixesSmall r

theorem manifest_prefixes_small :
    (Gen.Manifest.structNames.all fun q => match sdefOf Manifest.Tie.src 8 q with
      | some S => prefixesSmall S.body
      | none => match containerOf Manifest.Tie.src 8 q (Manifest.Tie.strictOf q) with
        | some C => C.slots.all fun s => prefixesSmall s.elem.body
        | none => false) = true := by decide

/-- the hand-written functions the generated readers call have no `make`, no slice of data and no
    index (length functions: pure arithmetic, translated into `Gen.Manifest.countExprs`;
    `StructureID.String` slices a fixed array) -/
theorem sites_manifest_helpers :
    C20MfCbnt.sites_Key_keyDataSize = [] ∧ C20MfCbnt.sites_BitSize_InBytes = [] ∧
    C20MfCbnt.sites_StructureID_String = ["s[:]"] ∧
    C20MfBg.sites_Key_keyDataSize = [] ∧ C20MfBg.sites_BitSize_InBytes = [] ∧
    C20MfBg.sites_StructureID_String = ["s[:]"] ∧ C20MfBg.sites_HashStructureFill_hashSize = [] ∧
    C20MfBg.sites_Algorithm_size = [] ∧ C20MfBg.sites_Algorithm_IsNull = [] := by decide

/-- the only index expression of the two dispatch loops: an array as long as the slot list
    (`ManifestTotal.containerLoopG`: the explicit `i < C.slots.length` test before the panic) -/
theorem sites_manifest_containers :
    C20MfCbntBpm.sites_Manifest_ReadFrom = ["missingFieldsByIndices[fieldIndex]"] ∧
    C20MfBgBpm.sites_Manifest_ReadFrom = ["missingFieldsByIndices[fieldIndex]"] ∧
    C20MfCbntBpm.sites_Manifest_fieldIndexByStructID = [] ∧ C20MfBgBpm.sites_Manifest_fieldIndexByStructID = [] := by
  decide

/-- samples of generated readers as the site extractor sees them: a list is `make([]T, count)` and
    `s.F[idx]` inside `for idx := range s.F` (`ManifestTotal.readG` `.list`) -/
theorem sites_manifest_lists :
    C20MfCbnt.sites_HashList_ReadFrom = ["make([]HashStructure, count)", "s.List[idx]"] ∧
    C20MfCbnt.sites_TPMInfoList_ReadFrom = ["make([]Algorithm, count)", "s.Algorithms[idx]"] ∧
    C20MfCbntBpm.sites_SE_ReadDataFrom = ["s.Reserved0[:]", "s.Reserved1[:]", "s.Reserved2[:]",
      "make([]IBBSegment, count)", "s.IBBSegments[idx]"] ∧
    C20MfBgBpm.sites_SE_ReadDataFrom = ["s.Reserved0[:]", "s.Reserved1[:]", "s.Reserved2[:]", "s.Reserved3[:]",
      "make([]IBBSegment, count)", "s.IBBSegments[idx]"] := by decide

/-- `bgheader.DetectBGV` (`FitTotal.detectBGVG`): one `binary.Read` of 9 bytes, the two version tests -/
theorem guards_DetectBGV : C20MfBgHeader.sites_DetectBGV = [] ∧ C20MfBgHeader.size_structInfo = 9 ∧
    C20MfBgHeader.guards_DetectBGV = ["if: err != nil", "if: err != nil", "if: s.Version >= 0x20",
      "else/if: (s.Version < 0x20) && (s.Version >= 0x10)"] := by decide

/-- `cbnt.ParseChipsetACModuleInformation` (hand-written reader; `ManifestTotal.parseChipsetG`) -/
theorem guards_ParseChipsetACM :
    C20MfCbnt.sites_ParseChipsetACModuleInformation = ["result.Base.UUID[:]"] ∧
    C20MfCbnt.guards_ParseChipsetACModuleInformation =
      ["if: !bytes.Equal(result.Base.UUID[:], chipsetACModuleInformationSignature)", "if: err != nil",
       "if: result.Base.Version < 5"] := by decide

/-! ## pkg/amd/manifest (`Total/Amd.lean`) -/

/-- **the constant of the BIOS pre-check is at least the size of an entry** — the hypothesis `hc` of
    `AmdTotal.parseBIOSG_ok` / `discoverG_spec`.  (16 before fixes/C20-amd-bios-scan-quadratic.diff:
    then this theorem fails, and corpus/C20/amd-bios-scan-quadratic.json is the violating input.) -/
theorem amd_bios_precheck_const : Amd.biosEntrySize ≤ C20Amd.BIOSDirectoryTableEntrySize := by decide

theorem amd_psp_precheck_const : Amd.pspEntrySize = C20Amd.PSPDirectoryTableEntrySize := by decide

/-- `AmdTotal.findEFSLoopG`: `image[offset:]` twice (signature probe, buffer), behind the repaired guard -/
theorem sites_amd_FindEFS : C20Amd.sites_FindEmbeddedFirmwareStructure = ["image[offset:]", "image[offset:]"] ∧
    C20Amd.guards_FindEmbeddedFirmwareStructure = ["range: addresses",
      "for/if: offset > uint64(len(image)) || offset+4 > uint64(len(image))",
      "for/if: actualSignature == EmbeddedFirmwareStructureSignature"] ∧
    C20Amd.sites_ParseEmbeddedFirmwareStructure = [] ∧
    C20Amd.guards_ParseEmbeddedFirmwareStructure = ["if: err != nil",
      "if: result.Signature != EmbeddedFirmwareStructureSignature"] ∧
    C20Amd.sites_FirmwareImage_PhysAddrToOffset = [] := by decide

/-- `AmdTotal.scanG`: the two slices of each scanner follow `bytes.Index`; the loops have no exit
    condition of their own (fuel) -/
theorem sites_amd_scanners :
    C20Amd.sites_FindPSPDirectoryTable = ["make([]byte, 4)", "image[idx:]", "image[idx+len(cookieBytes):]"] ∧
    C20Amd.sites_FindBIOSDirectoryTable = ["cookieBytes[:]", "cookieBytes[:]", "image[idx:]", "image[shift:]"] ∧
    C20Amd.guards_FindPSPDirectoryTable = ["for: ", "for/if: idx == -1", "for/if: err != nil"] ∧
    C20Amd.guards_FindBIOSDirectoryTable = ["for: ", "for/if: idx == -1", "for/if: err != nil"] := by decide

/-- `AmdTotal.parsePSPG` / `parseBIOSG`: the size pre-check stands before the entry loop — and before
    the only `make` of the two parsers -/
theorem guards_amd_parsers :
    C20Amd.sites_ParsePSPDirectoryTable = [] ∧ C20Amd.sites_ParsePSPDirectoryTableEntry = [] ∧
    C20Amd.sites_ParseBIOSDirectoryTable = ["make([]BIOSDirectoryTableEntry, 0, table.TotalEntries)"] ∧
    C20Amd.sites_ParseBIOSDirectoryTableEntry = [] ∧ C20Amd.sites_readAndCountSize = [] ∧
    C20Amd.guards_ParsePSPDirectoryTable = ["if: err != nil",
      "if: table.PSPCookie != PSPDirectoryTableCookie && table.PSPCookie != PSPDirectoryTableLevel2Cookie",
      "if: err != nil", "if: err != nil", "if: err != nil", "if: uint64(r.Len()) < sizeRequired",
      "for: idx < table.TotalEntries", "for/if: err != nil"] ∧
    C20Amd.guards_ParseBIOSDirectoryTable = ["if: err != nil",
      "if: table.BIOSCookie != BIOSDirectoryTableCookie && table.BIOSCookie != BIOSDirectoryTableLevel2Cookie",
      "if: err != nil", "if: err != nil", "if: err != nil", "if: uint64(r.Len()) < sizeRequired",
      "for: idx < table.TotalEntries", "for/if: err != nil"] := by decide

/-- `AmdTotal.discoverG`: the four pointer slices with their guards; level 2 is looked up in the
    level-1 table only (`if/for/if`: inside the `range` over its entries, no further nesting — no
    recursion into a level-2 table) -/
theorem guards_amd_parsePSPFirmware :
    C20Amd.sites_parsePSPFirmware = ["image[efs.PSPDirectoryTablePointer:]", "image[entry.LocationOrValue:]",
      "image[offset:]", "image[entry.SourceAddress:]"] ∧
    C20Amd.guards_parsePSPFirmware = ["if: err != nil",
      "if: efs.PSPDirectoryTablePointer != 0 && efs.PSPDirectoryTablePointer < uint32(len(image))",
      "if/if: err == nil", "if: pspDirectoryLevel1 == nil", "if: pspDirectoryLevel1 != nil",
      "if/range: pspDirectoryLevel1.Entries", "if/for/if: entry.Type != PSPDirectoryTableLevel2Entry",
      "if/for/if: entry.LocationOrValue != 0 && entry.LocationOrValue < uint64(len(image))",
      "if/for/if/if: err == nil", "range: biosDirectoryOffsets",
      "for/if: offset == 0 || int(offset) > len(image)", "for/if: err != nil",
      "if: biosDirectoryLevel1 == nil", "if: biosDirectoryLevel1 != nil",
      "if/range: biosDirectoryLevel1.Entries", "if/for/if: entry.Type != BIOSDirectoryTableLevel2Entry",
      "if/for/if: entry.SourceAddress != 0 && entry.SourceAddress < uint64(len(image))",
      "if/for/if/if: err == nil"] := by decide

/-! ## pkg/amd/psb entry functions (`Total/AmdEntries.lean`) -/

theorem sites_amd_entries :
    C20AmdPsb.sites_GetPSPEntries = [] ∧ C20AmdPsb.sites_GetPSPEntry = ["entries[0]"] ∧
    C20AmdPsb.guards_GetPSPEntry = ["if: err != nil", "if: len(entries) == 0", "if: len(entries) > 1", "if/if: err != nil"] ∧
    C20AmdPsb.sites_GetBIOSEntries = ["biosTableEntries[i]", "biosTableEntries[j]"] ∧
    C20AmdPsb.sites_GetBIOSEntry = ["entries[idx]", "entries[idx]"] ∧ C20AmdPsb.sites_GetEntries = [] ∧
    C20AmdPsb.sites_ExtractPSPEntry = [] ∧ C20AmdPsb.sites_ExtractBIOSEntry = [] ∧
    C20AmdPsb.sites_PatchPSPEntry = [] ∧ C20AmdPsb.sites_PatchBIOSEntry = [] ∧
    C20AmdPsb.sites_getPSPTable = [] ∧ C20AmdPsb.sites_getBIOSTable = [] := by decide

/-- `AmdTotal.patchEntryG` / `getRangeBytesG`: `checkBoundaries` (start first, so the wrapped `end`
    is harmless) before the slices -/
theorem guards_amd_patch :
    C20AmdPsb.sites_patchEntry = ["firmwareBytes[0:start]", "firmwareBytes[end:]"] ∧
    C20AmdPsb.guards_patchEntry = ["if: err != nil", "if: err != nil",
      "if: uint64(end-start) != uint64(len(modifiedEntry))", "if: err != nil", "if: err != nil", "if: err != nil"] ∧
    C20AmdPsb.guards_GetRangeBytes = ["if: err != nil"] ∧
    C20AmdPsb.guards_checkBoundaries = ["if: start > uint64(len(blob))", "if: end > uint64(len(blob))",
      "if: start > end"] := by decide

/-- `AmdTotal.getKeysG` (Total/AmdKeys.lean): the one slice of the path, `signedData[pspHeaderSize:]`, stands
    behind `len(signedData) <= pspHeaderSize`; map look-ups of the key set cannot fault; only a
    missing OEM key (`ErrNotFound`) is forgiven; `NewTokenKey` checks the token length before `raw[:lenSigned]` -/
theorem guards_amd_getkeys :
    C20AmdPsb.sites_GetKeys = [] ∧ C20AmdPsb.sites_getKeysFromDatabase = ["signedData[pspHeaderSize:]"] ∧
    C20AmdPsb.guards_GetKeys = ["if: err != nil", "if: err != nil", "if: err != nil", "if: err != nil", "if: err != nil",
      "if/if: !errors.As(err, &ErrNotFound{})", "else/if: err != nil", "else/if: err != nil"] ∧
    C20AmdPsb.guards_getKeysFromDatabase = ["if: err != nil", "if: err != nil", "if: err != nil", "if: err != nil",
      "if: err != nil", "if: err != nil", "if: len(signedData) <= pspHeaderSize"] ∧
    C20AmdPsb.guards_parseKeyDatabase = ["if: err != nil", "for: ", "for/if: buff.Len() == 0", "for/if: err != nil",
      "for/if: err != nil"] ∧
    C20AmdPsb.sites_KeySet_AddKey = ["kdb.db[k.data.KeyID]", "kdb.db[k.data.KeyID]", "kdb.keyType[keyType]",
      "kdb.keyType[keyType]"] ∧
    C20AmdPsb.guards_KeySet_AddKey = ["if: ok"] ∧
    C20AmdPsb.guards_NewTokenKey = ["if: err != nil", "if: signingKey == nil", "if: err != nil", "if: err != nil",
      "if: uint64(len(raw)) < lenSigned", "if: err != nil"] := by decide

/-! ## FIT: RecalculateHeaders, Inject, record ParseData (`Fit/TotalInject.lean`) -/

/-- the data segment of an entry **aliases** the image (`FitTotal.entryDataG`: `sliceG`, no allocation): no
    `append`, no `copy` on the path that attaches it — `GetEntries` allocates per entry, not per byte of
    its (possibly overlapping) segments.  (Seeded defect c20-4 copies the segment: this theorem breaks, and
    the `attack-overlap-*` seeds of ep_fit.go exceed the allocation bound.) -/
theorem calls_fit_data_aliases :
    C20FitInject.calls_sliceOrCopyBytesFrom_append = [] ∧ C20FitInject.calls_sliceOrCopyBytesFrom_copy = [] ∧
    C20FitInject.calls_entryInitDataSegmentBytes_append = [] ∧
    C20FitInject.calls_NewEntry_append = ["append(base.HeadersErrors, err)"] := by decide

/-- the panicking setter and **every** call of it on the recalculation path with its argument:
    `len(data) >> 4`, `len(data)` (three record types), `len(entries)`, `0` (two types) -/
theorem calls_fit_SetUint32 :
    C20FitInject.sites_Uint24_SetUint32 = ["make([]byte, 4)", "size.Value[:]", "b[:]"] ∧
    C20FitInject.guards_Uint24_SetUint32 = ["if: newValue >= 1<<24"] ∧
    C20FitInject.calls_mostCommonRecalculateHeadersOfEntry_hdr_Size_SetUint32 =
      ["hdr.Size.SetUint32(uint32(len(entryBase.DataSegmentBytes) >> 4))"] ∧
    C20FitInject.calls_Entries_RecalculateHeaders_SetUint32 =
      ["beginEntry.GetEntryBase().Headers.Size.SetUint32(uint32(len(entries)))"] ∧
    C20FitInject.calls_EntryKeyManifestRecord_CustomRecalculateHeaders_entry_Headers_Size_SetUint32 =
      ["entry.Headers.Size.SetUint32(uint32(len(entry.DataSegmentBytes)))"] ∧
    C20FitInject.calls_EntryBootPolicyManifestRecord_CustomRecalculateHeaders_entry_Headers_Size_SetUint32 =
      ["entry.Headers.Size.SetUint32(uint32(len(entry.DataSegmentBytes)))"] ∧
    C20FitInject.calls_EntryBIOSPolicyRecord_CustomRecalculateHeaders_entry_Headers_Size_SetUint32 =
      ["entry.Headers.Size.SetUint32(uint32(len(entry.DataSegmentBytes)))"] ∧
    C20FitInject.calls_EntrySACM_CustomRecalculateHeaders_entry_Headers_Size_SetUint32 =
      ["entry.Headers.Size.SetUint32(0)"] ∧
    C20FitInject.calls_EntryTXTPolicyRecord_CustomRecalculateHeaders_hdr_Size_SetUint32 =
      ["hdr.Size.SetUint32(0)"] ∧
    C20FitInject.sites_EntryFITHeaderEntry_CustomRecalculateHeaders = [] := by decide

/-- `FitTotal.recalcG` / `recalcEntryG` / `mostCommonG`: the empty-list return before `entries[0]`,
    the `entryTypeOf` error before the panicking helper -/
theorem guards_fit_recalc :
    C20FitInject.guards_Entries_RecalculateHeaders = ["if: len(entries) == 0", "range: entries", "for/if: err != nil", "if: !ok"] ∧
    C20FitInject.guards_EntryRecalculateHeaders = ["if: ok", "if: !ok"] ∧
    C20FitInject.guards_mostCommonRecalculateHeadersOfEntry = ["if: !foundEntryType"] := by decide

/-- `FitTotal.injectG` / `injectDataG` / `writeHdrsG`: every step goes through `Seek` / `Write` of the
    seeker and returns its error -/
theorem guards_fit_inject :
    C20FitInject.guards_Entries_InjectTo = ["if: err != nil", "if: imageSize < 0", "if: err != nil", "if: err != nil",
      "if: err != nil", "if: err != nil", "range: entries", "for/if: err != nil"] ∧
    C20FitInject.guards_EntryBase_injectDataSectionTo = ["if: len(base.DataSegmentBytes) == 0", "if: err != nil",
      "if: err != nil", "if: err != nil"] ∧
    C20FitInject.guards_Table_WriteTo = ["range: table", "for/if: err != nil"] := by decide

/-- `FitTotal.parseRecordG`: `DetectBGV`, then the reader of that version; an `io.EOF` of the reader is
    forgiven (the model answers `err` there) -/
theorem guards_fit_record :
    C20FitInject.sites_EntryKeyManifestRecord_ParseData = [] ∧ C20FitInject.sites_EntryBootPolicyManifestRecord_ParseData = [] ∧
    C20FitInject.guards_EntryKeyManifestRecord_ParseData = ["if: err != nil",
      "switch/if: err != nil && !errors.Is(err, io.EOF)", "switch/if: err != nil && !errors.Is(err, io.EOF)"] ∧
    C20FitInject.guards_EntryBootPolicyManifestRecord_ParseData = ["if: err != nil",
      "switch/if: err != nil && !errors.Is(err, io.EOF)", "switch/if: err != nil && !errors.Is(err, io.EOF)"] := by decide

end Fiano.C20TieB
