/-
  The GoM reader of Total/Manifest.lean computes what C15's functional codec model computes:
  whenever `readG` ends with a value, `Manifest.decode` returns exactly that value (field values and
  unread rest); whenever it ends with an ordinary error, `decode` is an error too.  (A fault — excluded
  by the totality theorem — says nothing.)  So everything C15 proves and validates about `decode`
  (round trips with `encode`, byte counts, the T2 correspondence of drv_c15 with the Go readers) is about
  the function whose totality C20 proves.  The same for the container loop.
-/
import FianoModel.Total.Manifest

namespace Fiano.ManifestTotal
open GoM Manifest

/-- `x` run from `m` agrees with the pure result `d` -/
def Agree {α : Type} (x : GoM α) (m : Meter) (d : Except Err α) : Prop :=
  match x m with
  | .ok (a, _) => d = .ok a
  | .error .err => ∃ e, d = .error e
  | .error _ => True

theorem Agree.pure {α : Type} (a : α) (m : Meter) : Agree (Pure.pure a : GoM α) m (.ok a) := by
  simp [Agree, Pure.pure, StateT.pure, Except.pure]

theorem Agree.err {α : Type} (m : Meter) (e : Err) : Agree (GoM.err : GoM α) m (.error e) := by
  simp [Agree, GoM.err]

/-- the `match` the functional model is written with -/
def andThen {α β : Type} (dx : Except Err α) (g : α → Except Err β) : Except Err β :=
  match dx with
  | .error e => .error e
  | .ok a => g a

/-- sequencing -/
theorem Agree.bind {α β : Type} {x : GoM α} {f : α → GoM β} {m : Meter} {dx : Except Err α} {g : α → Except Err β}
    (hx : Agree x m dx) (hf : ∀ a m', Agree (f a) m' (g a)) : Agree (x >>= f) m (andThen dx g) := by
  unfold Agree at *
  simp only [Bind.bind, StateT.bind]
  cases h : x m with
  | ok r =>
    obtain ⟨a, m'⟩ := r
    rw [h] at hx
    simp only at hx
    subst hx
    simpa [Except.bind, andThen] using hf a m'
  | error e =>
    rw [h] at hx
    cases e with
    | err =>
      obtain ⟨e', he'⟩ := hx
      subst he'
      simp [Except.bind, andThen]
    | panic s => simp [Except.bind]
    | fuel => simp [Except.bind]

theorem Agree.binaryRead (b : Bytes) (k : Nat) (m : Meter) :
    Agree (binaryReadG b k) m (if b.length < k then .error .eof else .ok (b.take k, b.drop k)) := by
  unfold Agree binaryReadG
  by_cases h : k ≤ b.length
  · have : ¬ b.length < k := by omega
    simp [h, this, Pure.pure, StateT.pure, Except.pure]
  · have : b.length < k := by omega
    simp [h, this, GoM.err]

theorem Agree.alloc (site : String) (B n s : Nat) (m : Meter) : Agree (allocB site B n s) m (.ok ()) := by
  unfold Agree allocB
  split <;> simp_all
  split at * <;> simp_all

theorem Agree.of_eq {α : Type} {x : GoM α} {m : Meter} {d d' : Except Err α} (h : Agree x m d) (e : d = d') :
    Agree x m d' := e ▸ h

theorem readNG_refines (f : Bytes → GoM (List Val × Bytes)) (d : Bytes → Except Err (List Val × Bytes))
    (hf : ∀ b m, Agree (f b) m (d b)) : ∀ (n : Nat) (b : Bytes) (m : Meter), Agree (readNG f n b) m (decodeN d n b) := by
  intro n
  induction n with
  | zero => intro b m; unfold readNG decodeN; exact Agree.pure _ _
  | succ n ih =>
    intro b m
    unfold readNG
    have e : decodeN d (n + 1) b = andThen (d b) (fun p => andThen (decodeN d n p.2) (fun q => .ok (.node p.1 :: q.1, q.2))) := by
      simp only [decodeN, andThen]
      cases d b with
      | error e => rfl
      | ok p =>
        obtain ⟨fs, r⟩ := p
        simp only
        cases decodeN d n r with
        | error e => rfl
        | ok q => rfl
    rw [e]
    apply Agree.bind (hf b m)
    intro p m1
    apply Agree.bind (ih p.2 m1)
    intro q m2
    exact Agree.pure _ _

/-- **the GoM reader computes `Manifest.decode`** (every layout, environment, input, meter, budget) -/
theorem readG_refines (B : Nat) (L : Layout) : ∀ (env : Env) (b : Bytes) (m : Meter),
    Agree (readG B L env b) m (decode L env b) := by
  induction L with
  | done => intro env b m; unfold readG decode; exact Agree.pure _ _
  | num name k rest ih =>
    intro env b m
    unfold readG
    have e : decode (.num name k rest) env b =
        andThen (if b.length < k then .error .eof else .ok (b.take k, b.drop k))
          (fun p => andThen (decode rest ((name, fromLE p.1) :: env) p.2) (fun q => .ok (.num (fromLE p.1) :: q.1, q.2))) := by
      simp only [decode, andThen]
      split
      · rfl
      · simp only
        cases decode rest ((name, fromLE (List.take k b)) :: env) (List.drop k b) with
        | error e => rfl
        | ok q => rfl
    rw [e]
    apply Agree.bind (Agree.binaryRead b k m)
    intro p m1
    apply Agree.bind (ih _ _ m1)
    intro q m2
    exact Agree.pure _ _
  | numV name k rest _ =>
    intro env b m
    unfold readG decode
    exact Agree.err _ _
  | bytes name k rest ih =>
    intro env b m
    unfold readG
    have e : decode (.bytes name k rest) env b =
        andThen (if b.length < k then .error .eof else .ok (b.take k, b.drop k))
          (fun p => andThen (decode rest env p.2) (fun q => .ok (.bytes p.1 :: q.1, q.2))) := by
      simp only [decode, andThen]
      split
      · rfl
      · simp only
        cases decode rest env (List.drop k b) with
        | error e => rfl
        | ok q => rfl
    rw [e]
    apply Agree.bind (Agree.binaryRead b k m)
    intro p m1
    apply Agree.bind (ih _ _ m1)
    intro q m2
    exact Agree.pure _ _
  | dyn name c rest ih =>
    intro env b m
    unfold readG
    have e : decode (.dyn name c rest) env b =
        andThen (if b.length < c then .error .eof else .ok (b.take c, b.drop c))
          (fun p => andThen (.ok ()) (fun _ =>
            andThen (if p.2.length < fromLE p.1 then .error .eof else .ok (p.2.take (fromLE p.1), p.2.drop (fromLE p.1)))
              (fun d => andThen (decode rest env d.2) (fun q => .ok (.bytes d.1 :: q.1, q.2))))) := by
      simp only [decode, andThen]
      split
      · rfl
      · simp only
        split
        · rfl
        · simp only
          cases decode rest env (List.drop (fromLE (List.take c b)) (List.drop c b)) with
          | error e => rfl
          | ok q => rfl
    rw [e]
    apply Agree.bind (Agree.binaryRead b c m)
    intro p m1
    apply Agree.bind (Agree.alloc _ _ _ _ m1)
    intro _ m2
    apply Agree.bind (Agree.binaryRead _ _ m2)
    intro d m3
    apply Agree.bind (ih _ _ m3)
    intro q m4
    exact Agree.pure _ _
  | dynE name c ex rest ih =>
    intro env b m
    unfold readG
    have e : decode (.dynE name c ex rest) env b =
        andThen (.ok ()) (fun _ =>
          andThen (if b.length < countOf ex c env then .error .eof else .ok (b.take (countOf ex c env), b.drop (countOf ex c env)))
            (fun d => andThen (decode rest env d.2) (fun q => .ok (.bytes d.1 :: q.1, q.2)))) := by
      simp only [decode, andThen]
      split
      · rfl
      · simp only
        cases decode rest env (List.drop (countOf ex c env) b) with
        | error e => rfl
        | ok q => rfl
    rw [e]
    apply Agree.bind (Agree.alloc _ _ _ _ m)
    intro _ m2
    apply Agree.bind (Agree.binaryRead _ _ m2)
    intro d m3
    apply Agree.bind (ih _ _ m3)
    intro q m4
    exact Agree.pure _ _
  | sub name rules inner rest ihi ihr =>
    intro env b m
    unfold readG
    have e : decode (.sub name rules inner rest) env b =
        andThen (decode inner [] b) (fun p => andThen (decode rest env p.2) (fun q => .ok (.node p.1 :: q.1, q.2))) := by
      simp only [decode, andThen]
      cases decode inner [] b with
      | error e => rfl
      | ok p =>
        obtain ⟨fs, r⟩ := p
        simp only
        cases decode rest env r with
        | error e => rfl
        | ok q => rfl
    rw [e]
    apply Agree.bind (ihi _ _ m)
    intro p m1
    apply Agree.bind (ihr _ _ m1)
    intro q m2
    exact Agree.pure _ _
  | list name c rules item rest ihi ihr =>
    intro env b m
    unfold readG
    have e : decode (.list name c rules item rest) env b =
        andThen (if b.length < c then .error .eof else .ok (b.take c, b.drop c))
          (fun p => andThen (.ok ()) (fun _ =>
            andThen (decodeN (decode item []) (fromLE p.1) p.2)
              (fun it => andThen (decode rest env it.2) (fun q => .ok (.node it.1 :: q.1, q.2))))) := by
      simp only [decode, andThen]
      split
      · rfl
      · simp only
        cases decodeN (decode item []) (fromLE (List.take c b)) (List.drop c b) with
        | error e => rfl
        | ok it =>
          obtain ⟨items, r⟩ := it
          simp only
          cases decode rest env r with
          | error e => rfl
          | ok q => rfl
    rw [e]
    apply Agree.bind (Agree.binaryRead b c m)
    intro p m1
    apply Agree.bind (Agree.alloc _ _ _ _ m1)
    intro _ m2
    apply Agree.bind (readNG_refines _ _ (fun b' m' => ihi [] b' m') _ _ m2)
    intro it m3
    apply Agree.bind (ihr _ _ m3)
    intro q m4
    exact Agree.pure _ _

theorem Agree.panic {α : Type} (site : String) (m : Meter) (d : Except Err α) : Agree (goPanic site : GoM α) m d := by
  simp [Agree, goPanic]

theorem Agree.fuel {α : Type} (m : Meter) (d : Except Err α) : Agree (outOfFuel : GoM α) m d := by
  simp [Agree, outOfFuel]

theorem slotAllocG_agree (B : Nat) (s : Slot) (m : Meter) : Agree (slotAllocG B s) m (.ok ()) := by
  unfold slotAllocG
  split
  · exact Agree.pure _ _
  · exact Agree.alloc _ _ _ _ _
  · exact Agree.alloc _ _ _ _ _

/-- the GoM dispatch loop computes C15's `containerLoop` -/
theorem containerLoopG_refines (B : Nat) (C : Container) : ∀ (fuel prev : Nat) (seen : List Nat) (st : List Val) (b : Bytes)
    (m : Meter), Agree (containerLoopG B C fuel prev seen st b) m (containerLoop C fuel prev seen st b) := by
  intro fuel
  induction fuel with
  | zero => intro prev seen st b m; unfold containerLoopG; exact Agree.fuel _ _
  | succ fuel ih =>
    intro prev seen st b m
    unfold containerLoopG containerLoop
    by_cases h1 : b.length < C.siLen
    · simp only [h1, if_true]; exact Agree.pure _ _
    · simp only [h1, if_false]
      cases hfs : findSlot C.slots (List.take 8 b) 0 with
      | none => simp only; exact ih _ _ _ _ _
      | some p =>
        obtain ⟨i, s⟩ := p
        simp only
        by_cases h2 : (C.strict && decide (i + 1 < prev)) = true
        · simp only [h2, if_true]; exact Agree.err _ _
        · simp only [h2]
          by_cases h3 : i < C.slots.length
          · by_cases h4 : (s.kind ≠ SlotKind.list && i + 1 = prev) = true
            · simp only [h4, if_true, h3, not_true_eq_false, if_false]
              exact Agree.err _ _
            · simp only [h4, h3, not_true_eq_false, if_false]
              simp only [Bool.false_eq_true, if_false]
              refine Agree.of_eq (d := andThen (.ok ()) (fun _ => andThen (decode s.elem.body [] b) (fun p =>
                    match st[i]? with
                    | none => .error .invalid
                    | some old => containerLoop C fuel (i + 1) (i :: seen) (st.set i (putElem s p.1 old)) p.2))) ?_ ?_
              · apply Agree.bind (slotAllocG_agree B s m)
                intro _ m1
                apply Agree.bind (readG_refines B s.elem.body [] b m1)
                intro p m2
                cases st[i]? with
                | none => exact Agree.panic _ _ _
                | some old => exact ih _ _ _ _ _
              · simp only [andThen, SDef.decode]
                cases decode s.elem.body [] b with
                | error e => rfl
                | ok p => rfl
          · simp only [h3, not_false_eq_true, if_true]
            exact Agree.panic _ _ _

/-- **the GoM container reader computes `Container.decode`** -/
theorem containerG_refines (B : Nat) (C : Container) (b : Bytes) (m : Meter) :
    Agree (containerG B C b) m (C.decode b) := by
  unfold containerG
  have e : C.decode b = andThen (containerLoop C (b.length + 1) 0 [] (initState C.slots) b)
      (fun r => if requiredSeen C.slots 0 r.2.1 then .ok (r.1, r.2.2) else .error .missing) := by
    simp only [Container.decode, andThen]
    cases containerLoop C (b.length + 1) 0 [] (initState C.slots) b with
    | error e => rfl
    | ok r => rfl
  rw [e]
  apply Agree.bind (containerLoopG_refines B C _ _ _ _ _ m)
  intro r m1
  split
  · exact Agree.pure _ _
  · exact Agree.err _ _

end Fiano.ManifestTotal
