/-
  The entry functions of pkg/amd/psb that work on the directories `parsePSPFirmware` found, against
  Go's semantics (GoM): `GetPSPEntries` / `GetPSPEntry`, `GetBIOSEntries` / `GetBIOSEntry`,
  `GetEntries`, `GetRangeBytes`, `ExtractPSPEntry` / `ExtractBIOSEntry` (= what `Dump*Entry` writes),
  `PatchPSPEntry` / `PatchBIOSEntry` → `patchEntry` (entries.go, pspentries.go, biosentries.go, util.go).

  Their ordinary errors are `none` (the meter stays): the callers of the harness and of the CLI go on
  with the next entry.  Sites: `entries[0]`, `entries[idx]`, `image[start:end]`, `firmwareBytes[0:start]`,
  `firmwareBytes[end:]`; allocations: the `append`s that collect the matching entries, `io.ReadAll` of
  the replacement.  `end := start + length` is a uint64 sum that can wrap; `checkBoundaries` compares
  `start` first, and `start ≤ len(image) < 2^63` leaves no room for the wrap (`getRangeBytesG_spec`).
-/
import FianoModel.Total.Amd

namespace Fiano.AmdTotal
open GoM Amd

def rangeMem : Nat := 16     -- unsafe.Sizeof(bytes2.Range{})

/-- `GetRangeBytes(image, start, length)` -/
def getRangeBytesG (img : Bytes) (start length : Nat) : GoM (Option Bytes) :=
  if checkBoundaries start ((start + length) % two64) img.length then do
    let b ← sliceG "GetRangeBytes: image[start:end]" img start ((start + length) % two64)
    pure (some b)
  else pure none

def pspTableOf (fw : PSPFirmware) (level : Nat) : Option (Option PSPTable) :=
  if level = 1 then some (fw.psp1.map (·.1)) else if level = 2 then some (fw.psp2.map (·.1)) else none

def biosTableOf (fw : PSPFirmware) (level : Nat) : Option (Option BIOSTable) :=
  if level = 1 then some (fw.bios1.map (·.1)) else if level = 2 then some (fw.bios2.map (·.1)) else none

/-- `GetPSPEntries`: the entries of the type, appended one by one -/
def getPSPEntriesG (B : Nat) (fw : PSPFirmware) (level id : Nat) : GoM (Option (List PSPEntry)) :=
  match pspTableOf fw level with
  | none => pure none                       -- invalid level
  | some none => pure none                  -- ErrNotFound: no such directory
  | some (some t) => do
    allocB "GetPSPEntries: append(entries, entry)" B (t.entries.filter (fun e => e.type = id)).length pspEntryMem
    pure (some (t.entries.filter (fun e => e.type = id)))

/-- `GetPSPEntry`: exactly one, `&entries[0]` -/
def getPSPEntryG (B : Nat) (fw : PSPFirmware) (level id : Nat) : GoM (Option PSPEntry) := do
  let es ← getPSPEntriesG B fw level id
  match es with
  | none => pure none
  | some es =>
    if es.length = 0 then pure none
    else if es.length > 1 then pure none
    else match es[0]? with
      | some e => pure (some e)
      | none => goPanic "GetPSPEntry: entries[0]"

/-- `GetBIOSEntries`: the entries of the type (then sorted by instance: `sort.Slice` with its
    `biosTableEntries[i]` inside the comparison — indices the sort itself supplies) -/
def getBIOSEntriesG (B : Nat) (fw : PSPFirmware) (level id : Nat) : GoM (Option (List BIOSEntry)) :=
  match biosTableOf fw level with
  | none => pure none
  | some none => pure none
  | some (some t) => do
    allocB "GetBIOSEntries: append(biosTableEntries, entry)" B (t.entries.filter (fun e => e.type = id)).length biosEntryMem
    pure (some (t.entries.filter (fun e => e.type = id)))

/-- `GetBIOSEntry`: exactly one of the instance; `entries[idx]` inside `for idx := range entries` -/
def getBIOSEntryG (B : Nat) (fw : PSPFirmware) (level id inst : Nat) : GoM (Option BIOSEntry) := do
  let es ← getBIOSEntriesG B fw level id
  match es with
  | none => pure none
  | some es =>
    match es.filter (fun e => e.instance_ = inst) with
    | [] => pure none
    | [e] => pure (some e)
    | _ => pure none

def extractPSPEntryG (B : Nat) (img : Bytes) (fw : PSPFirmware) (level id : Nat) : GoM (Option Bytes) := do
  let e ← getPSPEntryG B fw level id
  match e with
  | none => pure none
  | some e => getRangeBytesG img e.loc e.size

def extractBIOSEntryG (B : Nat) (img : Bytes) (fw : PSPFirmware) (level id inst : Nat) : GoM (Option Bytes) := do
  let e ← getBIOSEntryG B fw level id inst
  match e with
  | none => pure none
  | some e => getRangeBytesG img e.src e.size

/-- `GetEntries` on a PSP / BIOS directory: one `bytes2.Range` appended per matching entry -/
def getEntriesPSPG (B : Nat) (fw : PSPFirmware) (level id : Nat) : GoM (Option (List Range)) := do
  let es ← getPSPEntriesG B fw level id
  match es with
  | none => pure none
  | some es => do
    allocB "GetEntries: append(entries, bytes2.Range{…})" B es.length rangeMem
    pure (some (es.map fun e => ⟨e.loc, e.size⟩))

def getEntriesBIOSG (B : Nat) (fw : PSPFirmware) (level id : Nat) : GoM (Option (List Range)) := do
  let es ← getBIOSEntriesG B fw level id
  match es with
  | none => pure none
  | some es => do
    allocB "GetEntries: append(entries, bytes2.Range{…})" B es.length rangeMem
    pure (some (es.map fun e => ⟨e.src, e.size⟩))

/-- `patchEntry`: `io.ReadAll(r)`, boundary check, size check, the two slices around the entry;
    returns the number of bytes written -/
def patchEntryG (B : Nat) (img : Bytes) (start end_ : Nat) (modified : Bytes) : GoM (Option Nat) := do
  allocB "patchEntry: io.ReadAll(r)" B modified.length 1
  if !checkBoundaries start end_ img.length then pure none
  else if end_ - start ≠ modified.length then pure none
  else do
    let a ← sliceG "patchEntry: firmwareBytes[0:start]" img 0 start
    let b ← sliceFromG "patchEntry: firmwareBytes[end:]" img end_
    pure (some (a.length + modified.length + b.length))

def patchPSPEntryG (B : Nat) (img : Bytes) (fw : PSPFirmware) (level id : Nat) (modified : Bytes) : GoM (Option Nat) := do
  let e ← getPSPEntryG B fw level id
  match e with
  | none => pure none
  | some e => patchEntryG B img e.loc ((e.loc + e.size) % two64) modified

def patchBIOSEntryG (B : Nat) (img : Bytes) (fw : PSPFirmware) (level id inst : Nat) (modified : Bytes) :
    GoM (Option Nat) := do
  let e ← getBIOSEntryG B fw level id inst
  match e with
  | none => pure none
  | some e => patchEntryG B img e.src ((e.src + e.size) % two64) modified

/-! ## totality -/

theorem getRangeBytesG_spec (img : Bytes) (start length : Nat) (m : Meter) :
    SafeP (getRangeBytesG img start length) m (fun res m' => m' = m ∧ ∀ b, res = some b → b.length ≤ img.length) := by
  unfold getRangeBytesG
  apply SafeP.cond
  · intro h
    simp only [checkBoundaries, Bool.not_eq_true', Bool.or_eq_false_iff, decide_eq_false_iff_not] at h
    apply SafeP.bind; apply SafeP.slice (by omega)
    refine SafeP.pure ⟨rfl, fun b hb => ?_⟩
    simp only [Option.some.injEq] at hb
    subst hb
    simp only [List.length_take, List.length_drop]
    omega
  · intro _; exact SafeP.pure ⟨rfl, fun _ h => by cases h⟩

theorem filter_len_le {α : Type} (p : α → Bool) (l : List α) : (l.filter p).length ≤ l.length :=
  List.length_filter_le p l

theorem pspTableOf_ok (img : Bytes) (fw : PSPFirmware) (hfw : FwOK img fw) (level : Nat) (t : PSPTable)
    (h : pspTableOf fw level = some (some t)) : pspSz t ≤ img.length := by
  unfold pspTableOf at h
  split at h
  · simp only [Option.some.injEq] at h
    cases hp : fw.psp1 with
    | none => simp [hp] at h
    | some p => simp only [hp, Option.map_some, Option.some.injEq] at h; subst h; exact hfw.1 p.1 p.2 (by rw [hp])
  · split at h
    · simp only [Option.some.injEq] at h
      cases hp : fw.psp2 with
      | none => simp [hp] at h
      | some p => simp only [hp, Option.map_some, Option.some.injEq] at h; subst h; exact hfw.2.1 p.1 p.2 (by rw [hp])
    · cases h

theorem biosTableOf_ok (img : Bytes) (fw : PSPFirmware) (hfw : FwOK img fw) (level : Nat) (t : BIOSTable)
    (h : biosTableOf fw level = some (some t)) : biosSz t ≤ img.length := by
  unfold biosTableOf at h
  split at h
  · simp only [Option.some.injEq] at h
    cases hp : fw.bios1 with
    | none => simp [hp] at h
    | some p => simp only [hp, Option.map_some, Option.some.injEq] at h; subst h; exact hfw.2.2.1 p.1 p.2 (by rw [hp])
  · split at h
    · simp only [Option.some.injEq] at h
      cases hp : fw.bios2 with
      | none => simp [hp] at h
      | some p => simp only [hp, Option.map_some, Option.some.injEq] at h; subst h; exact hfw.2.2.2 p.1 p.2 (by rw [hp])
    · cases h

/-- collecting the entries of a type: one 16-byte entry per 16 bytes of directory, and the
    directory lies in the image -/
theorem getPSPEntriesG_spec (B : Nat) (img : Bytes) (fw : PSPFirmware) (hfw : FwOK img fw) (level id : Nat) (m : Meter)
    (hB : m.alloc + img.length ≤ B) :
    SafeP (getPSPEntriesG B fw level id) m (fun res m' => m'.alloc ≤ m.alloc + img.length ∧
      ∀ es, res = some es → pspEntrySize * es.length ≤ img.length) := by
  unfold getPSPEntriesG
  split
  · exact SafeP.pure ⟨by omega, fun _ h => by cases h⟩
  · exact SafeP.pure ⟨by omega, fun _ h => by cases h⟩
  · rename_i t ht
    have hsz := pspTableOf_ok img fw hfw level t ht
    have hf := filter_len_le (fun e : PSPEntry => decide (e.type = id)) t.entries
    simp only [pspSz, pspEntrySize, pspEntryMem] at *
    apply SafeP.bind; apply SafeP.alloc (by omega)
    refine SafeP.pure ⟨by simp only; omega, fun es h => ?_⟩
    simp only [Option.some.injEq] at h
    subst h
    omega

theorem getPSPEntryG_spec (B : Nat) (img : Bytes) (fw : PSPFirmware) (hfw : FwOK img fw) (level id : Nat) (m : Meter)
    (hB : m.alloc + img.length ≤ B) :
    SafeP (getPSPEntryG B fw level id) m (fun _ m' => m'.alloc ≤ m.alloc + img.length) := by
  unfold getPSPEntryG
  apply SafeP.bind
  apply SafeP.mono (getPSPEntriesG_spec B img fw hfw level id m hB)
  intro res m1 ⟨h1, _⟩
  cases res with
  | none => exact SafeP.pure h1
  | some es =>
    simp only
    apply SafeP.ite; · intro _; exact SafeP.pure h1
    intro h0
    apply SafeP.ite; · intro _; exact SafeP.pure h1
    intro _
    have : 0 < es.length := by omega
    rw [List.getElem?_eq_getElem this]
    exact SafeP.pure h1

theorem getBIOSEntriesG_spec (B : Nat) (img : Bytes) (fw : PSPFirmware) (hfw : FwOK img fw) (level id : Nat) (m : Meter)
    (hB : m.alloc + 2 * img.length ≤ B) :
    SafeP (getBIOSEntriesG B fw level id) m (fun res m' => m'.alloc ≤ m.alloc + 2 * img.length ∧
      ∀ es, res = some es → biosEntrySize * es.length ≤ img.length) := by
  unfold getBIOSEntriesG
  split
  · exact SafeP.pure ⟨by omega, fun _ h => by cases h⟩
  · exact SafeP.pure ⟨by omega, fun _ h => by cases h⟩
  · rename_i t ht
    have hsz := biosTableOf_ok img fw hfw level t ht
    have hf := filter_len_le (fun e : BIOSEntry => decide (e.type = id)) t.entries
    simp only [biosSz, biosEntrySize, biosEntryMem] at *
    apply SafeP.bind; apply SafeP.alloc (by omega)
    refine SafeP.pure ⟨by simp only; omega, fun es h => ?_⟩
    simp only [Option.some.injEq] at h
    subst h
    omega

theorem getBIOSEntryG_spec (B : Nat) (img : Bytes) (fw : PSPFirmware) (hfw : FwOK img fw) (level id inst : Nat)
    (m : Meter) (hB : m.alloc + 2 * img.length ≤ B) :
    SafeP (getBIOSEntryG B fw level id inst) m (fun _ m' => m'.alloc ≤ m.alloc + 2 * img.length) := by
  unfold getBIOSEntryG
  apply SafeP.bind
  apply SafeP.mono (getBIOSEntriesG_spec B img fw hfw level id m hB)
  intro res m1 ⟨h1, _⟩
  cases res with
  | none => exact SafeP.pure h1
  | some es =>
    simp only
    split <;> exact SafeP.pure h1

theorem extractPSPEntryG_spec (B : Nat) (img : Bytes) (fw : PSPFirmware) (hfw : FwOK img fw) (level id : Nat)
    (m : Meter) (hB : m.alloc + img.length ≤ B) :
    SafeP (extractPSPEntryG B img fw level id) m (fun res m' => m'.alloc ≤ m.alloc + img.length ∧
      ∀ b, res = some b → b.length ≤ img.length) := by
  unfold extractPSPEntryG
  apply SafeP.bind
  apply SafeP.mono (getPSPEntryG_spec B img fw hfw level id m hB)
  intro e m1 h1
  cases e with
  | none => exact SafeP.pure ⟨h1, fun _ h => by cases h⟩
  | some e =>
    simp only
    apply SafeP.mono (getRangeBytesG_spec img e.loc e.size m1)
    intro res m2 ⟨h2, h3⟩
    subst h2
    exact ⟨h1, h3⟩

theorem extractBIOSEntryG_spec (B : Nat) (img : Bytes) (fw : PSPFirmware) (hfw : FwOK img fw) (level id inst : Nat)
    (m : Meter) (hB : m.alloc + 2 * img.length ≤ B) :
    SafeP (extractBIOSEntryG B img fw level id inst) m (fun res m' => m'.alloc ≤ m.alloc + 2 * img.length ∧
      ∀ b, res = some b → b.length ≤ img.length) := by
  unfold extractBIOSEntryG
  apply SafeP.bind
  apply SafeP.mono (getBIOSEntryG_spec B img fw hfw level id inst m hB)
  intro e m1 h1
  cases e with
  | none => exact SafeP.pure ⟨h1, fun _ h => by cases h⟩
  | some e =>
    simp only
    apply SafeP.mono (getRangeBytesG_spec img e.src e.size m1)
    intro res m2 ⟨h2, h3⟩
    subst h2
    exact ⟨h1, h3⟩

theorem getEntriesPSPG_spec (B : Nat) (img : Bytes) (fw : PSPFirmware) (hfw : FwOK img fw) (level id : Nat) (m : Meter)
    (hB : m.alloc + 2 * img.length ≤ B) :
    SafeP (getEntriesPSPG B fw level id) m (fun _ m' => m'.alloc ≤ m.alloc + 2 * img.length) := by
  unfold getEntriesPSPG
  apply SafeP.bind
  apply SafeP.mono (getPSPEntriesG_spec B img fw hfw level id m (by omega))
  intro res m1 ⟨h1, h2⟩
  cases res with
  | none => exact SafeP.pure (by omega)
  | some es =>
    have := h2 es rfl
    simp only [pspEntrySize, rangeMem] at *
    apply SafeP.bind; apply SafeP.alloc (by omega)
    exact SafeP.pure (by simp only; omega)

theorem getEntriesBIOSG_spec (B : Nat) (img : Bytes) (fw : PSPFirmware) (hfw : FwOK img fw) (level id : Nat) (m : Meter)
    (hB : m.alloc + 3 * img.length ≤ B) :
    SafeP (getEntriesBIOSG B fw level id) m (fun _ m' => m'.alloc ≤ m.alloc + 3 * img.length) := by
  unfold getEntriesBIOSG
  apply SafeP.bind
  apply SafeP.mono (getBIOSEntriesG_spec B img fw hfw level id m (by omega))
  intro res m1 ⟨h1, h2⟩
  cases res with
  | none => exact SafeP.pure (by omega)
  | some es =>
    have := h2 es rfl
    simp only [biosEntrySize, rangeMem] at *
    apply SafeP.bind; apply SafeP.alloc (by omega)
    exact SafeP.pure (by simp only; omega)

/-- `patchEntry` for every `start`, `end`: both slices lie in the image -/
theorem patchEntryG_spec (B : Nat) (img : Bytes) (start end_ : Nat) (modified : Bytes) (m : Meter)
    (hB : m.alloc + modified.length ≤ B) :
    SafeP (patchEntryG B img start end_ modified) m (fun _ m' => m'.alloc ≤ m.alloc + modified.length) := by
  unfold patchEntryG
  apply SafeP.bind; apply SafeP.alloc (by omega)
  apply SafeP.cond
  · intro _; exact SafeP.pure (by simp only; omega)
  · intro h
    simp only [checkBoundaries, Bool.not_eq_false', Bool.not_eq_true', Bool.or_eq_false_iff,
      decide_eq_false_iff_not] at h
    apply SafeP.ite; · intro _; exact SafeP.pure (by simp only; omega)
    intro _
    apply SafeP.bind; apply SafeP.slice (by omega)
    apply SafeP.bind; apply SafeP.sliceFrom (by omega)
    exact SafeP.pure (by simp only; omega)

theorem patchPSPEntryG_spec (B : Nat) (img : Bytes) (fw : PSPFirmware) (hfw : FwOK img fw) (level id : Nat)
    (modified : Bytes) (m : Meter) (hB : m.alloc + img.length + modified.length ≤ B) :
    SafeP (patchPSPEntryG B img fw level id modified) m (fun _ m' => m'.alloc ≤ m.alloc + img.length + modified.length) := by
  unfold patchPSPEntryG
  apply SafeP.bind
  apply SafeP.mono (getPSPEntryG_spec B img fw hfw level id m (by omega))
  intro e m1 h1
  cases e with
  | none => exact SafeP.pure (by omega)
  | some e =>
    simp only
    apply SafeP.mono (patchEntryG_spec B img _ _ modified m1 (by omega))
    intro _ m2 h2
    omega

theorem patchBIOSEntryG_spec (B : Nat) (img : Bytes) (fw : PSPFirmware) (hfw : FwOK img fw) (level id inst : Nat)
    (modified : Bytes) (m : Meter) (hB : m.alloc + 2 * img.length + modified.length ≤ B) :
    SafeP (patchBIOSEntryG B img fw level id inst modified) m
      (fun _ m' => m'.alloc ≤ m.alloc + 2 * img.length + modified.length) := by
  unfold patchBIOSEntryG
  apply SafeP.bind
  apply SafeP.mono (getBIOSEntryG_spec B img fw hfw level id inst m (by omega))
  intro e m1 h1
  cases e with
  | none => exact SafeP.pure (by omega)
  | some e =>
    simp only
    apply SafeP.mono (patchEntryG_spec B img _ _ modified m1 (by omega))
    intro _ m2 h2
    omega

/-! ## one entry function on a freshly parsed firmware -/

inductive Op where
  | extractPSP (level id : Nat)
  | patchPSP (level id : Nat) (modified : Bytes)
  | entriesPSP (level id : Nat)
  | extractBIOS (level id inst : Nat)
  | patchBIOS (level id inst : Nat) (modified : Bytes)
  | entriesBIOS (level id : Nat)

/-- bytes of the caller's own input that the operation reads (`io.ReadAll` of the replacement) -/
def Op.extra : Op → Nat
  | .patchPSP _ _ md => md.length
  | .patchBIOS _ _ _ md => md.length
  | _ => 0

/-- the operation; the result is the length of what was extracted / written / listed (`none` = error) -/
def runOpG (B : Nat) (img : Bytes) (fw : PSPFirmware) : Op → GoM (Option Nat)
  | .extractPSP level id => do
    let r ← extractPSPEntryG B img fw level id
    pure (r.map (·.length))
  | .patchPSP level id md => patchPSPEntryG B img fw level id md
  | .entriesPSP level id => do
    let r ← getEntriesPSPG B fw level id
    pure (r.map (·.length))
  | .extractBIOS level id inst => do
    let r ← extractBIOSEntryG B img fw level id inst
    pure (r.map (·.length))
  | .patchBIOS level id inst md => patchBIOSEntryG B img fw level id inst md
  | .entriesBIOS level id => do
    let r ← getEntriesBIOSG B fw level id
    pure (r.map (·.length))

def opKSlope : Nat := 3

theorem runOpG_spec (B : Nat) (img : Bytes) (fw : PSPFirmware) (hfw : FwOK img fw) (op : Op) (m : Meter)
    (hB : m.alloc + opKSlope * img.length + op.extra ≤ B) :
    SafeP (runOpG B img fw op) m (fun _ m' => m'.alloc ≤ m.alloc + opKSlope * img.length + op.extra) := by
  simp only [opKSlope] at *
  cases op with
  | extractPSP level id =>
    simp only [runOpG, Op.extra] at *
    apply SafeP.bind
    apply SafeP.mono (extractPSPEntryG_spec B img fw hfw level id m (by omega))
    intro _ m1 ⟨h1, _⟩
    exact SafeP.pure (by omega)
  | patchPSP level id md =>
    simp only [runOpG, Op.extra] at *
    apply SafeP.mono (patchPSPEntryG_spec B img fw hfw level id md m (by omega))
    intro _ m1 h1
    omega
  | entriesPSP level id =>
    simp only [runOpG, Op.extra] at *
    apply SafeP.bind
    apply SafeP.mono (getEntriesPSPG_spec B img fw hfw level id m (by omega))
    intro _ m1 h1
    exact SafeP.pure (by omega)
  | extractBIOS level id inst =>
    simp only [runOpG, Op.extra] at *
    apply SafeP.bind
    apply SafeP.mono (extractBIOSEntryG_spec B img fw hfw level id inst m (by omega))
    intro _ m1 ⟨h1, _⟩
    exact SafeP.pure (by omega)
  | patchBIOS level id inst md =>
    simp only [runOpG, Op.extra] at *
    apply SafeP.mono (patchBIOSEntryG_spec B img fw hfw level id inst md m (by omega))
    intro _ m1 h1
    omega
  | entriesBIOS level id =>
    simp only [runOpG, Op.extra] at *
    apply SafeP.bind
    apply SafeP.mono (getEntriesBIOSG_spec B img fw hfw level id m (by omega))
    intro _ m1 h1
    exact SafeP.pure (by omega)

/-- `ParseAMDFirmware`, then one entry function -/
def firmwareOpG (c B : Nat) (img : Bytes) (op : Op) : GoM (Option Nat) := do
  let fw ← discoverG c B img
  runOpG B img fw op

/-- **parse, then any entry function with any arguments**: ≤ 9·|image| + |replacement| allocated -/
theorem firmwareOpG_spec (c B : Nat) (hc : biosEntrySize ≤ c) (img : Bytes) (hl : img.length < two63) (op : Op)
    (m : Meter) (hB : m.alloc + (discoverKSlope + opKSlope) * img.length + op.extra ≤ B) :
    SafeP (firmwareOpG c B img op) m (fun _ _ => True) := by
  unfold firmwareOpG
  simp only [discoverKSlope, opKSlope] at *
  apply SafeP.bind
  apply SafeP.mono (discoverG_spec c B hc img hl m (by simp only [discoverKSlope]; omega))
  intro fw m1 ⟨h1, hfw⟩
  simp only [discoverKSlope] at h1
  apply SafeP.mono (runOpG_spec B img fw hfw op m1 (by simp only [opKSlope]; omega))
  intro _ _ _
  trivial

/-! ## the unrepaired pre-check constant: the BIOS scanner is quadratic -/

/-- `k` cookie blocks of 16 bytes in an image of `n` bytes: cookie, checksum, a TotalEntries that
    passes `TotalEntries·16 ≤ rest` but not `·24`, reserved -/
def quadBlocks (n : Nat) : Nat → Nat → Bytes
  | 0, _ => []
  | k + 1, p => leN 4 biosCookie ++ leN 4 0 ++ leN 4 ((n - p - 16) / 16) ++ leN 4 0 ++ quadBlocks n k (p + 16)

/-- 2 KiB: 128 headers, each of which announces as many entries as 16-byte units follow -/
def quadWitness : Bytes := quadBlocks 2048 128 0

end Fiano.AmdTotal
