/-
  `psb.GetKeys` end to end on an AMD image, against Go's semantics (GoM): `getKeysFromDatabase`
  (AMD root key from PSP directory level 1, the key database entry of the requested level through
  `newPSPBinary` + `getSignedBlob`, `parseKeyDatabase` with `KeySet.AddKey`), then the ABL public key
  (PSP entry 0x0A) and the OEM signing key (BIOS entry 0x05 instance 0, optional) through `NewTokenKey`
  (keys.go, keyset.go).  A composition of `AmdTotal.extract*EntryG` (Total/AmdEntries.lean) and the key /
  PSP-binary models of Psb/Total.lean.

  The RSA-PSS verification (`NewSignedBlob`) is not byte parsing: `verify` is a parameter, the
  theorem holds for every verdict function.  The key set is a list (`KS`): id, length of exponent and
  modulus buffers, the two size fields; every modulus in it was read out of the image, which bounds
  the signature buffers `NewTokenKey` allocates (`KSOK`).
-/
import FianoModel.Total.AmdEntries
import FianoModel.Psb.Total

namespace Fiano.AmdTotal
open GoM Amd

structure KS where
  id : Bytes
  expLen : Nat
  modLen : Nat
  expBits : Nat
  modBits : Nat

def ksOfKey (k : PsbTotal.Key) : KS :=
  { id := slice k.header 4 16, expLen := k.exponent.length, modLen := k.modulus.length,
    expBits := fieldLE k.header 56 4, modBits := fieldLE k.header 60 4 }

def keyInfoOf (k : KS) : PsbTotal.KeyInfo := { id := k.id, modBits := k.modBits, expBits := k.expBits }

/-- `KeySet.AddKey`: refused when the id is already there -/
def addKeyG (ks : List KS) (k : KS) : GoM (List KS) :=
  if ks.any (fun x => x.id = k.id) then err else pure (ks ++ [k])

/-- `NewTokenKey(buff, keySet)` with the look-up of the certifying key; returns the key, the
    signature and the signed prefix -/
def tokenKeyKSG (B : Nat) (ks : List KS) (bs : Bytes) : GoM (PsbTotal.Key × Bytes × Bytes) := do
  let p ← PsbTotal.tokenOrRootKeyG B bs
  match ks.find? (fun x => x.id = slice p.1.header 20 16) with
  | none => err
  | some sk =>
    if sk.expLen = 0 ∨ sk.modLen = 0 then err                      -- SignatureSize(): checkValid
    else do
      allocB "NewTokenKey: make([]byte, signatureSize)" B sk.modLen 1
      let sg ← binaryReadG p.2 sk.modLen
      if bs.length < 64 + fieldLE p.1.header 56 4 / 8 + fieldLE p.1.header 60 4 / 8 then err
      else do
        let signed ← sliceToG "NewTokenKey: raw[:lenSigned]" bs
          (64 + fieldLE p.1.header 56 4 / 8 + fieldLE p.1.header 60 4 / 8)
        pure (p.1, sg.1, signed)

/-- the loop of `parseKeyDatabase` with the key set -/
def keyDbLoopG (B : Nat) : Nat → Bytes → List KS → GoM (List KS)
  | 0, _, _ => outOfFuel
  | fuel + 1, r, ks =>
    if r.length = 0 then pure ks
    else do
      let p ← PsbTotal.dbKeyG B r
      let ks' ← addKeyG ks { id := p.1.1, expLen := 4, modLen := p.1.2.length, expBits := 8 * p.1.2.length,
                              modBits := 8 * p.1.2.length }
      keyDbLoopG B fuel p.2 ks'

def parseKeyDbG (B : Nat) (db : Bytes) (ks : List KS) : GoM (List KS) := do
  let p ← binaryReadG db 80
  keyDbLoopG B (db.length + 1) p.2 ks

/-- `GetKeys(amdFw, level)` for a verdict function of the signature checks -/
def getKeysG (B : Nat) (verify : Bytes → Bytes → Bool) (img : Bytes) (fw : PSPFirmware) (level : Nat) :
    GoM (List KS) := do
  -- getKeysFromDatabase
  let rb ← extractPSPEntryG B img fw 1 0x00
  match rb with
  | none => err
  | some rb => do
    let rk ← PsbTotal.rootKeyG B rb
    let ks0 ← addKeyG [] (ksOfKey rk)
    let data ← extractPSPEntryG B img fw level 0x50
    match data with
    | none => err
    | some data => do
      let v ← PsbTotal.validateEntryG B (ks0.map keyInfoOf) data
      match v with
      | .reach sg sd =>
        if !verify sg sd then err
        else do
          let db ← sliceFromG "getKeysFromDatabase: signedData[pspHeaderSize:]" sd PsbTotal.pspHeaderSize
          let ks1 ← parseKeyDbG B db ks0
          -- ABL public key
          let ab ← extractPSPEntryG B img fw level 0x0A
          match ab with
          | none => err
          | some ab => do
            let t ← tokenKeyKSG B ks1 ab
            if !verify t.2.1.reverse t.2.2 then err
            else do
              let ks2 ← addKeyG ks1 (ksOfKey t.1)
              -- OEM signing key: optional (`ErrNotFound` is not an error), anything else is
              let es ← getBIOSEntriesG B fw level 0x05
              match es with
              | none => pure ks2                                   -- no such directory: not found
              | some es =>
                match es.filter (fun e => e.instance_ = 0) with
                | [] => pure ks2
                | [e] => do
                  let ob ← getRangeBytesG img e.src e.size
                  match ob with
                  | none => err
                  | some ob => do
                    let t2 ← tokenKeyKSG B ks2 ob
                    if !verify t2.2.1.reverse t2.2.2 then err
                    else addKeyG ks2 (ksOfKey t2.1)
                | _ => err
      | _ => err

/-- `ParseAMDFirmware`, then `GetKeys` -/
def firmwareKeysG (c B : Nat) (verify : Bytes → Bytes → Bool) (img : Bytes) (level : Nat) : GoM (List KS) := do
  let fw ← discoverG c B img
  getKeysG B verify img fw level

/-! ## totality -/

/-- every modulus of the key set was read out of an image of `n` bytes -/
def KSOK (n : Nat) (ks : List KS) : Prop := ∀ k ∈ ks, k.modLen ≤ n

theorem addKeyG_spec (n : Nat) (ks : List KS) (k : KS) (m : Meter) (hks : KSOK n ks) (hk : k.modLen ≤ n) :
    SafeP (addKeyG ks k) m (fun ks' m' => m' = m ∧ KSOK n ks') := by
  unfold addKeyG
  apply SafeP.cond
  · intro _; exact SafeP.err
  · intro _
    refine SafeP.pure ⟨rfl, ?_⟩
    intro x hx
    simp only [List.mem_append, List.mem_singleton] at hx
    rcases hx with hx | hx
    · exact hks x hx
    · subst hx; exact hk

theorem rootKeyG_spec2 (B : Nat) (bs : Bytes) (m : Meter) (hB : m.alloc + 2 * bs.length ≤ B) :
    SafeP (PsbTotal.rootKeyG B bs) m (fun k m' => m'.alloc ≤ m.alloc + 2 * bs.length ∧ k.modulus.length ≤ bs.length) := by
  unfold PsbTotal.rootKeyG
  apply SafeP.bind
  apply SafeP.mono (PsbTotal.tokenOrRootKeyG_spec B bs m hB)
  intro p m' ⟨h1, h2, h3, _⟩
  simp only
  apply SafeP.ite
  · intro _; exact SafeP.err
  · intro _; exact SafeP.pure ⟨by omega, h3⟩

theorem find_mem {α : Type} (p : α → Bool) (l : List α) (x : α) (h : l.find? p = some x) : x ∈ l :=
  List.mem_of_find?_eq_some h

/-- `NewTokenKey`: the signature buffer has the size of a modulus of the key set -/
theorem tokenKeyKSG_spec (B n : Nat) (ks : List KS) (bs : Bytes) (m : Meter) (hks : KSOK n ks)
    (hB : m.alloc + 2 * bs.length + n ≤ B) :
    SafeP (tokenKeyKSG B ks bs) m (fun t m' => m'.alloc ≤ m.alloc + 2 * bs.length + n ∧
      t.1.modulus.length ≤ bs.length) := by
  unfold tokenKeyKSG
  apply SafeP.bind
  apply SafeP.mono (PsbTotal.tokenOrRootKeyG_spec B bs m (by omega))
  intro p m1 ⟨h1, h2, h3, _⟩
  split
  · exact SafeP.err
  · rename_i sk hsk
    have hmem := hks sk (find_mem _ _ _ hsk)
    apply SafeP.ite; · intro _; exact SafeP.err
    intro _
    apply SafeP.bind; apply SafeP.alloc (by omega)
    apply SafeP.bind; apply SafeP.binaryRead; intro _
    apply SafeP.ite; · intro _; exact SafeP.err
    intro hlen
    apply SafeP.bind; apply SafeP.sliceTo (by omega)
    exact SafeP.pure ⟨by simp only; omega, h3⟩

theorem keyDbLoopG_spec (B n fuel : Nat) (r : Bytes) (ks : List KS) (m : Meter) (hfuel : r.length < fuel)
    (hr : r.length ≤ n) (hks : KSOK n ks) (hB : m.alloc + 2 * r.length ≤ B) :
    SafeP (keyDbLoopG B fuel r ks) m (fun ks' m' => m'.alloc ≤ m.alloc + 2 * r.length ∧ KSOK n ks') := by
  induction fuel generalizing r ks m with
  | zero => omega
  | succ fuel ih =>
    unfold keyDbLoopG
    apply SafeP.ite
    · intro _; exact SafeP.pure ⟨by omega, hks⟩
    · intro _
      apply SafeP.bind
      apply SafeP.mono (PsbTotal.dbKeyG_spec B r m hB)
      intro p m1 ⟨hl, ha, hmd⟩
      apply SafeP.bind
      apply SafeP.mono (addKeyG_spec n ks _ m1 hks (by simp only; omega))
      intro ks' m2 ⟨hm2, hks'⟩
      rw [hm2]
      apply SafeP.mono (ih p.2 ks' m1 (by omega) (by omega) hks' (by omega))
      intro ks'' m3 ⟨h3, h4⟩
      exact ⟨by omega, h4⟩

theorem parseKeyDbG_spec (B n : Nat) (db : Bytes) (ks : List KS) (m : Meter) (hdb : db.length ≤ n) (hks : KSOK n ks)
    (hB : m.alloc + 2 * db.length ≤ B) :
    SafeP (parseKeyDbG B db ks) m (fun ks' m' => m'.alloc ≤ m.alloc + 2 * db.length ∧ KSOK n ks') := by
  unfold parseKeyDbG
  apply SafeP.bind; apply SafeP.binaryRead; intro _
  simp only
  have hl : (List.drop 80 db).length = db.length - 80 := by simp
  apply SafeP.mono (keyDbLoopG_spec B n (db.length + 1) _ ks m (by omega) (by omega) hks (by omega))
  intro ks' m' ⟨h1, h2⟩
  exact ⟨by omega, h2⟩

def getKeysKSlope : Nat := 16

/-- the optional OEM key at the end of `GetKeys` -/
theorem oemTail_spec (B : Nat) (verify : Bytes → Bytes → Bool) (img : Bytes) (fw : PSPFirmware) (hfw : FwOK img fw)
    (level : Nat) (ks2 : List KS) (hks2 : KSOK img.length ks2) (m : Meter) (hB : m.alloc + 5 * img.length ≤ B) :
    SafeP (do
        let es ← getBIOSEntriesG B fw level 0x05
        match es with
        | none => pure ks2
        | some es =>
          match es.filter (fun e => e.instance_ = 0) with
          | [] => pure ks2
          | [e] => do
            let ob ← getRangeBytesG img e.src e.size
            match ob with
            | none => err
            | some ob => do
              let t2 ← tokenKeyKSG B ks2 ob
              if !verify t2.2.1.reverse t2.2.2 then err
              else addKeyG ks2 (ksOfKey t2.1)
          | _ => err) m (fun _ m' => m'.alloc ≤ m.alloc + 5 * img.length) := by
  apply SafeP.bind
  apply SafeP.mono (getBIOSEntriesG_spec B img fw hfw level 0x05 m (by omega))
  intro es m1 ⟨a1, _⟩
  cases es with
  | none => exact SafeP.pure (by omega)
  | some es =>
    simp only
    split
    · exact SafeP.pure (by omega)
    · rename_i e _
      apply SafeP.bind
      apply SafeP.mono (getRangeBytesG_spec img e.src e.size m1)
      intro ob m2 ⟨e2, l2⟩
      rw [e2]
      cases ob with
      | none => exact SafeP.err
      | some ob =>
        have hob := l2 ob rfl
        simp only
        apply SafeP.bind
        apply SafeP.mono (tokenKeyKSG_spec B img.length ks2 ob m1 hks2 (by omega))
        intro t m3 ⟨a3, hmod⟩
        apply SafeP.cond
        · intro _; exact SafeP.err
        · intro _
          apply SafeP.mono (addKeyG_spec img.length ks2 (ksOfKey t.1) m3 hks2 (by simp only [ksOfKey]; omega))
          intro _ m4 ⟨e4, _⟩
          rw [e4]; omega
    · exact SafeP.err

/-- **`GetKeys`** on a parsed firmware, every level, every verdict of the signature checks:
    a value or an error; never a panic, never out of fuel; ≤ 16·|image| allocated -/
theorem getKeysG_spec (B : Nat) (verify : Bytes → Bytes → Bool) (img : Bytes) (fw : PSPFirmware) (hfw : FwOK img fw)
    (level : Nat) (m : Meter) (hB : m.alloc + getKeysKSlope * img.length ≤ B) :
    SafeP (getKeysG B verify img fw level) m (fun _ m' => m'.alloc ≤ m.alloc + getKeysKSlope * img.length) := by
  unfold getKeysG
  simp only [getKeysKSlope] at *
  apply SafeP.bind
  apply SafeP.mono (extractPSPEntryG_spec B img fw hfw 1 0x00 m (by omega))
  intro rb m1 ⟨a1, l1⟩
  cases rb with
  | none => exact SafeP.err
  | some rb =>
    have hrb := l1 rb rfl
    simp only
    apply SafeP.bind
    apply SafeP.mono (rootKeyG_spec2 B rb m1 (by omega))
    intro rk m2 ⟨a2, hmod⟩
    apply SafeP.bind
    apply SafeP.mono (addKeyG_spec img.length [] (ksOfKey rk) m2 (by intro _ h; cases h) (by simp only [ksOfKey]; omega))
    intro ks0 m3 ⟨e3, hks0⟩
    rw [e3]
    apply SafeP.bind
    apply SafeP.mono (extractPSPEntryG_spec B img fw hfw level 0x50 m2 (by omega))
    intro data m4 ⟨a4, l4⟩
    cases data with
    | none => exact SafeP.err
    | some data =>
      have hdata := l4 data rfl
      simp only
      apply SafeP.bind
      apply SafeP.mono (PsbTotal.validateEntryG_spec B _ data m4 (by omega))
      intro v m5 ⟨a5, hv⟩
      cases v with
      | nokey => exact SafeP.err
      | invalid => exact SafeP.err
      | reach sg sd =>
        obtain ⟨hsd, hsg, hhdr⟩ := hv sg sd rfl
        simp only
        apply SafeP.cond
        · intro _; exact SafeP.err
        · intro _
          apply SafeP.bind; apply SafeP.sliceFrom (by omega)
          have hdb : (sd.drop PsbTotal.pspHeaderSize).length ≤ img.length := by
            simp only [List.length_drop]; omega
          apply SafeP.bind
          apply SafeP.mono (parseKeyDbG_spec B img.length _ ks0 m5 hdb hks0 (by omega))
          intro ks1 m6 ⟨a6, hks1⟩
          apply SafeP.bind
          apply SafeP.mono (extractPSPEntryG_spec B img fw hfw level 0x0A m6 (by omega))
          intro ab m7 ⟨a7, l7⟩
          cases ab with
          | none => exact SafeP.err
          | some ab =>
            have hab := l7 ab rfl
            simp only
            apply SafeP.bind
            apply SafeP.mono (tokenKeyKSG_spec B img.length ks1 ab m7 hks1 (by omega))
            intro t m8 ⟨a8, hmod8⟩
            apply SafeP.cond
            · intro _; exact SafeP.err
            · intro _
              apply SafeP.bind
              apply SafeP.mono (addKeyG_spec img.length ks1 (ksOfKey t.1) m8 hks1 (by simp only [ksOfKey]; omega))
              intro ks2 m9 ⟨e9, hks2⟩
              rw [e9]
              apply SafeP.mono (oemTail_spec B verify img fw hfw level ks2 hks2 m8 (by omega))
              intro _ m10 a10
              omega

def firmwareKeysKSlope : Nat := 22

/-- **`ParseAMDFirmware`, then `GetKeys`**: Safe for every image shorter than 2^63 bytes, every level,
    every verdict function; ≤ 22·|image| allocated -/
theorem firmwareKeysG_spec (c B : Nat) (hc : biosEntrySize ≤ c) (verify : Bytes → Bytes → Bool) (img : Bytes)
    (hl : img.length < two63) (level : Nat) (m : Meter) (hB : m.alloc + firmwareKeysKSlope * img.length ≤ B) :
    SafeP (firmwareKeysG c B verify img level) m (fun _ _ => True) := by
  unfold firmwareKeysG
  simp only [firmwareKeysKSlope] at hB
  apply SafeP.bind
  apply SafeP.mono (discoverG_spec c B hc img hl m (by simp only [discoverKSlope]; omega))
  intro fw m1 ⟨h1, hfw⟩
  simp only [discoverKSlope] at h1
  apply SafeP.mono (getKeysG_spec B verify img fw hfw level m1 (by simp only [getKeysKSlope]; omega))
  intro _ _ _
  trivial

end Fiano.AmdTotal
