/-
  pkg/cbfs `NewImage` against Go's semantics (GoM), as repaired by C19 / `d445579` ("cbfs bounds
  every size and offset field by the remaining input"): `io.ReadAll`, `fmap.Read` (the GoM reader
  of `Fmap/Total.lean`), the COREBOOT area clipped to the bytes that are there, the record walk
  (`NewFile`: header, the fit check, `ReadName` / `ReadAttributes` / `ReadData`), and the three
  per-type readers that do something (`LegacyStageRecord`, `PayloadRecord`, `MasterRecord`).

  cbfs has no slice expression on image data at all (it reads through `io.SectionReader`); what
  can go wrong is (1) `make` by a length field and (2) the walk `for off+24 <= size` standing still.
  Every `make` is an `allocB`; the walk takes fuel `|section| + 1` and the proof shows that an
  iteration advances by ≥ 16 bytes (a record: `SubHeaderOffset ≥ 24`; no magic: `off += 16`).

  Kept quirks: `MasterRecord.Read` drains the reader into a buffer before it tries to decode (the
  decode then sees EOF, which is ignored); `LegacyStageRecord.Read` fails with io.EOF when no byte
  follows the 28-byte stage header, even for `Size = 0` (`bytes.Reader.Read` at the end);
  a payload without an entry segment ends in EOF.  All cbfs words are big-endian, the legacy stage
  header and the flash map little-endian.  `len(image) < 2^32` (`RecordStart + SubHeaderOffset` is
  added in uint32) is a hypothesis of the theorem.  Own namespace `Fiano.CbfsTotal` (C19 owns `Fiano.Cbfs`).
-/
import FianoModel.Fmap.Total

namespace Fiano.CbfsTotal
open GoM

def fileMagic : Bytes := [0x4c, 0x41, 0x52, 0x43, 0x48, 0x49, 0x56, 0x45]     -- "LARCHIVE"
def coreboot : Bytes := [0x43, 0x4f, 0x52, 0x45, 0x42, 0x4f, 0x4f, 0x54]      -- "COREBOOT"
def fileHdr : Nat := 24
def segEntry : Nat := 0x454E5452

def be32 (b : Bytes) (o : Nat) : Nat := fromBE (slice b o 4)

/-- `strings.TrimRight(name, "\x00")` -/
def trimNul (n : Bytes) : Bytes := (n.reverse.dropWhile (· = 0)).reverse

/-- `LegacyStageRecord.Read` on the record's data -/
def stageReadG (B : Nat) (fd : Bytes) : GoM Unit := do
  let (h, rest) ← binaryReadG fd 28
  let sz := fieldLE h 20 4
  if sz > rest.length then err
  else do
    allocB "LegacyStageRecord.Read: make([]byte, r.StageHeader.Size)" B sz 1
    if rest.length = 0 then err else pure ()          -- in.Read at the end of the reader: io.EOF

/-- the segment table of `PayloadRecord.Read`: 28-byte headers until an entry segment; returns the position behind it -/
def payloadSegsG (B : Nat) : Nat → Bytes → Nat → GoM Nat
  | 0, _, _ => outOfFuel
  | fuel+1, r, pos => do
    let (h, r') ← binaryReadG r 28
    allocB "PayloadRecord.Read: append(r.Segs, h)" B 1 28
    if be32 h 0 = segEntry then pure (pos + 28) else payloadSegsG B fuel r' (pos + 28)

def payloadReadG (B : Nat) (fd : Bytes) : GoM Unit := do
  let pos ← payloadSegsG B (fd.length + 1) fd 0
  let body := fd.length - pos
  if body = 0 then pure ()
  else allocB "PayloadRecord.Read: make([]byte, bodySize)" B body 1

/-- `MasterRecord.Read`: `io.Copy(dump, in)` first -/
def masterReadG (B : Nat) (fd : Bytes) : GoM Unit :=
  allocB "MasterRecord.Read: io.Copy(dump, in)" B fd.length 2

def typeReadG (B typ : Nat) (fd : Bytes) : GoM Unit :=
  if typ = 0x10 then stageReadG B fd
  else if typ = 0x20 then payloadReadG B fd
  else if typ = 0x02 then masterReadG B fd
  else pure ()

/-- where the name ends: at the attributes when there are any, else at the data -/
def nameEndOf (ao so : Nat) : Nat := if ao ≠ 0 then ao else so

theorem nameEndOf_cases (ao so : Nat) : (ao ≠ 0 ∧ nameEndOf ao so = ao) ∨ (ao = 0 ∧ nameEndOf ao so = so) := by
  unfold nameEndOf
  by_cases h : ao ≠ 0
  · exact Or.inl ⟨h, if_pos h⟩
  · exact Or.inr ⟨by omega, if_neg h⟩

/-- one round of the walk at `off` (`off + 24 ≤ |sec|`): `none` = no magic here, `some next` = a record was read and the reader stands at `next` -/
def newFileG (B : Nat) (sec : Bytes) (off : Nat) : GoM (Option (Nat × Nat × Bytes)) := do
  let (h, _) ← binaryReadG (sec.drop off) fileHdr
  if slice h 0 8 ≠ fileMagic then pure none
  else
    let size := be32 h 8
    let typ := be32 h 12
    let ao := be32 h 16
    let so := be32 h 20
    let nameEnd := nameEndOf ao so
    if nameEnd < fileHdr ∨ so < nameEnd ∨ off + so + size > sec.length then err
    else do
      allocB "ReadName: make([]byte, size)" B (nameEnd - fileHdr) 1
      if ao ≠ 0 then allocB "ReadAttributes: make([]byte, SubHeaderOffset-AttrOffset)" B (so - ao) 1 else pure ()
      allocB "ReadData: make([]byte, f.Size)" B size 1
      let (fd, _) ← binaryReadG (sec.drop (off + so)) size
      pure (some (off + so + size, typ, fd))

/-- `for off := 0; off+FileSize <= r.Size(); { … }` -/
def walkG (B : Nat) (sec : Bytes) : Nat → Nat → Nat → GoM Nat
  | 0, _, _ => outOfFuel
  | fuel+1, off, n =>
    if off + fileHdr > sec.length then pure n
    else do
      let r ← newFileG B sec off
      match r with
      | none => walkG B sec fuel (off + 16) n
      | some (next, typ, fd) => do
        typeReadG B typ fd
        allocB "NewImage: append(i.Segs, s)" B 1 16
        walkG B sec fuel ((next + 15) / 16 * 16) (n + 1)

/-- `cbfs.NewImage`: number of records -/
def newImageG (B : Nat) (b : Bytes) : GoM Nat := do
  allocB "NewImage: io.ReadAll(rs)" B b.length 1
  let (f, _) ← Fmap.readG B b
  match f.areas.find? (fun a => trimNul a.name = coreboot) with
  | none => err
  | some a =>
    let avail := b.length - a.offset                         -- int64: negative → 0
    let size := if a.size > avail then avail else a.size
    let sec := slice b a.offset size                         -- io.NewSectionReader(in, Offset, size)
    walkG B sec (sec.length + 1) 0 0

/-! ### totality -/

theorem stageReadG_spec (B : Nat) (fd : Bytes) (m : Meter) (hb : m.alloc + fd.length ≤ B) :
    SafeP (stageReadG B fd) m (fun _ m' => m'.alloc ≤ m.alloc + fd.length) := by
  unfold stageReadG
  apply SafeP.bind; apply SafeP.binaryRead; intro _
  simp only
  apply SafeP.ite; · intro _; exact SafeP.err
  intro h
  simp only [List.length_drop] at h
  apply SafeP.bind; apply SafeP.alloc (by omega)
  apply SafeP.ite
  · intro _; exact SafeP.err
  · intro _; exact SafeP.pure (by simp only []; omega)

theorem payloadSegsG_spec (B fuel : Nat) (r : Bytes) (pos : Nat) (m : Meter)
    (hfuel : r.length < fuel) (hb : m.alloc + r.length ≤ B) :
    SafeP (payloadSegsG B fuel r pos) m (fun p m' => p ≤ pos + r.length ∧ m'.alloc + (pos + r.length - p) ≤ m.alloc + r.length) := by
  induction fuel generalizing r pos m with
  | zero => omega
  | succ fuel ih =>
    unfold payloadSegsG
    apply SafeP.bind; apply SafeP.binaryRead; intro h28
    apply SafeP.bind; apply SafeP.alloc (by omega)
    apply SafeP.ite
    · intro _; exact SafeP.pure ⟨by omega, by simp only []; omega⟩
    · intro _
      have hlen : (List.drop 28 r).length = r.length - 28 := by simp
      apply SafeP.mono (ih (List.drop 28 r) (pos + 28) _ (by omega) (by simp only []; omega))
      intro p m' ⟨h1, h2⟩
      simp only [hlen] at h1 h2
      exact ⟨by omega, by omega⟩

theorem payloadReadG_spec (B : Nat) (fd : Bytes) (m : Meter) (hb : m.alloc + fd.length ≤ B) :
    SafeP (payloadReadG B fd) m (fun _ m' => m'.alloc ≤ m.alloc + fd.length) := by
  unfold payloadReadG
  apply SafeP.bind
  apply SafeP.mono (payloadSegsG_spec B _ fd 0 m (by omega) hb)
  intro p m' ⟨h1, h2⟩
  simp only [Nat.zero_add] at h1 h2
  simp only
  apply SafeP.ite
  · intro _; exact SafeP.pure (by omega)
  · intro _; apply SafeP.alloc (by omega); simp only []; omega

theorem typeReadG_spec (B typ : Nat) (fd : Bytes) (m : Meter) (hb : m.alloc + 2 * fd.length ≤ B) :
    SafeP (typeReadG B typ fd) m (fun _ m' => m'.alloc ≤ m.alloc + 2 * fd.length) := by
  unfold typeReadG
  apply SafeP.ite
  · intro _; apply SafeP.mono (stageReadG_spec B fd m (by omega)); intro _ _ h; omega
  · intro _
    apply SafeP.ite
    · intro _; apply SafeP.mono (payloadReadG_spec B fd m (by omega)); intro _ _ h; omega
    · intro _
      apply SafeP.ite
      · intro _; unfold masterReadG; apply SafeP.alloc (by omega); simp only []; omega
      · intro _; exact SafeP.pure (by omega)

/-- a record that was read lies inside the section, its next position is ≥ 24 bytes further, and
    what was allocated for it is at most the bytes it spans -/
theorem newFileG_spec (B : Nat) (sec : Bytes) (off : Nat) (m : Meter) (hoff : off + fileHdr ≤ sec.length)
    (hb : m.alloc + (sec.length - off) ≤ B) :
    SafeP (newFileG B sec off) m (fun r m' => match r with
      | none => m' = m
      | some (next, _, fd) => off + fileHdr ≤ next ∧ next ≤ sec.length ∧ fd.length ≤ next - off ∧
          m'.alloc ≤ m.alloc + (next - off)) := by
  unfold newFileG
  apply SafeP.bind; apply SafeP.binaryRead; intro _
  simp only
  apply SafeP.ite
  · intro _; exact SafeP.pure rfl
  · intro _
    apply SafeP.ite; · intro _; exact SafeP.err
    intro hfit
    simp only [fileHdr] at *
    rcases nameEndOf_cases (be32 (List.take 24 (List.drop off sec)) 16) (be32 (List.take 24 (List.drop off sec)) 20) with ⟨ha, hn⟩ | ⟨ha, hn⟩
    · rw [hn] at hfit
      rw [hn]
      apply SafeP.bind; apply SafeP.alloc (by omega)
      apply SafeP.ite
      · intro _
        apply SafeP.bind; apply SafeP.alloc (by simp only []; omega)
        apply SafeP.bind; apply SafeP.alloc (by simp only []; omega)
        apply SafeP.bind; apply SafeP.binaryRead; intro _
        apply SafeP.pure
        simp only [List.length_take, List.length_drop]
        refine ⟨by omega, by omega, by omega, by omega⟩
      · intro h; exact absurd ha h
    · rw [hn] at hfit
      rw [hn]
      apply SafeP.bind; apply SafeP.alloc (by omega)
      apply SafeP.ite
      · intro h; exact absurd ha h
      · intro _
        apply SafeP.bind; apply SafeP.alloc (by simp only []; omega)
        apply SafeP.bind; apply SafeP.binaryRead; intro _
        apply SafeP.pure
        simp only [List.length_take, List.length_drop]
        refine ⟨by omega, by omega, by omega, by omega⟩

/-- the walk: every round advances by ≥ 16 bytes; what it allocates is at most four times the
    bytes it walks over -/
theorem walkG_spec (B : Nat) (sec : Bytes) (fuel off n : Nat) (m : Meter)
    (hoff : off ≤ sec.length + 15) (hfuel : sec.length + 16 ≤ off + 16 * fuel)
    (hb : m.alloc + 4 * (sec.length - off) ≤ B) :
    SafeP (walkG B sec fuel off n) m (fun _ m' => m'.alloc ≤ m.alloc + 4 * (sec.length - off)) := by
  induction fuel generalizing off n m with
  | zero => omega
  | succ fuel ih =>
    unfold walkG
    apply SafeP.ite
    · intro _; exact SafeP.pure (by omega)
    · intro hin
      simp only [fileHdr] at hin
      apply SafeP.bind
      apply SafeP.mono (newFileG_spec B sec off m (by simp only [fileHdr]; omega) (by omega))
      intro r m1 hr
      cases r with
      | none =>
        simp only at hr ⊢
        rw [hr]
        apply SafeP.mono (ih (off + 16) n m (by omega) (by omega) (by omega))
        intro _ m' h
        omega
      | some p =>
        obtain ⟨next, typ, fd⟩ := p
        simp only [fileHdr] at hr ⊢
        obtain ⟨h1, h2, h3, h4⟩ := hr
        apply SafeP.bind
        apply SafeP.mono (typeReadG_spec B typ fd m1 (by omega))
        intro _ m2 h5
        apply SafeP.bind; apply SafeP.alloc (by omega)
        have halign : next ≤ (next + 15) / 16 * 16 := by omega
        have halign2 : (next + 15) / 16 * 16 ≤ next + 15 := by omega
        apply SafeP.mono (ih ((next + 15) / 16 * 16) (n + 1) _ (by omega) (by omega) (by simp only []; omega))
        intro _ m' h
        simp only at h
        omega

theorem slice_length_le (b : Bytes) (o l : Nat) : (slice b o l).length ≤ b.length := by
  simp only [slice, List.length_take, List.length_drop]; omega

/-- allocation coefficients of `newImageG`: `alloc ≤ 5·|image| + readK` (the copy of the image, the
    one area table of `fmap.Read`, four times the walked section) -/
def newImageKSlope : Nat := 5

/-- `cbfs.NewImage`, every byte string: a value or an error; never a panic, never out of fuel
    (the record walk advances), allocation inside the budget -/
theorem newImageG_spec (B : Nat) (b : Bytes) (m : Meter)
    (hB : m.alloc + newImageKSlope * b.length + Fmap.readK ≤ B) :
    SafeP (newImageG B b) m (fun _ _ => True) := by
  unfold newImageG
  simp only [newImageKSlope] at hB
  apply SafeP.bind; apply SafeP.alloc (by omega)
  apply SafeP.bind
  apply SafeP.mono (Fmap.readG_spec B b _ (by simp only []; omega))
  intro r m1 ⟨_, _, ha⟩
  simp only at ha ⊢
  split
  · exact SafeP.err
  · rename_i a _
    have hs := slice_length_le b a.offset (if a.size > b.length - a.offset then b.length - a.offset else a.size)
    apply SafeP.mono (walkG_spec B _ _ 0 0 m1 (by omega) (by omega) (by omega))
    intro _ _ _; trivial

end Fiano.CbfsTotal
