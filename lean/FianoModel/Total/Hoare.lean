/-
  Totality toolkit for the C20 / C05 models written in `GoM` (Base/GoM.lean).

  * `allocB site B n s` — `make([]T, n)` against an allocation *budget* `B`: it meters like
    `allocG`, and faults (`panic "alloc-budget: …"`) when the cumulative meter would exceed `B`.
    `GoM = StateT Meter (Except Fault)` drops the meter when a computation ends in an error, so a
    bound stated on the final meter would say nothing about "allocate 4 GiB, then fail with
    EOF" — exactly the hostile case.  With the budget inside the primitive, `Safe` of a model
    run with budget `k·|input| + K` *is* the allocation bound, on every path, error paths included.
  * `SafeP x m Q` — Hoare triple: running `x` from meter `m` yields a value satisfying `Q` or an
    ordinary error; never a panic, never out of fuel, never over budget.  One rule per primitive.
-/
import FianoModel.Base.GoM

deriving instance DecidableEq for Except

namespace Fiano
namespace GoM

/-- `make` against a budget (see the file header) -/
def allocB (site : String) (B n elemSize : Nat) : GoM Unit := fun m =>
  if m.alloc + n * elemSize ≤ B then .ok ((), { m with alloc := m.alloc + n * elemSize })
  else .error (.panic ("alloc-budget: " ++ site))

/-- value satisfying `Q`, or an ordinary error -/
def SafeP {α} (x : GoM α) (m : Meter) (Q : α → Meter → Prop) : Prop :=
  match x m with
  | .ok (a, m') => Q a m'
  | .error .err => True
  | .error (.panic _) => False
  | .error .fuel => False

theorem SafeP.safe {α} {x : GoM α} {m : Meter} {Q : α → Meter → Prop} (h : SafeP x m Q) : Safe (x m) := by
  unfold SafeP at h; unfold Safe
  cases hx : x m with
  | ok r => trivial
  | error e => rw [hx] at h; cases e <;> simp_all

theorem SafeP.mono {α} {x : GoM α} {m : Meter} {Q Q' : α → Meter → Prop} (h : SafeP x m Q)
    (hq : ∀ a m', Q a m' → Q' a m') : SafeP x m Q' := by
  unfold SafeP at *
  cases hx : x m with
  | ok r => obtain ⟨a, m'⟩ := r; rw [hx] at h; exact hq a m' h
  | error e => rw [hx] at h; cases e <;> simp_all

theorem SafeP.pure {α} {a : α} {m : Meter} {Q : α → Meter → Prop} (h : Q a m) :
    SafeP (Pure.pure a : GoM α) m Q := by
  simpa [SafeP, Pure.pure, StateT.pure, Except.pure] using h

theorem SafeP.err {α} {m : Meter} {Q : α → Meter → Prop} : SafeP (GoM.err : GoM α) m Q := by
  simp [SafeP, GoM.err]

theorem SafeP.bind {α β} {x : GoM α} {f : α → GoM β} {m : Meter} {Q : β → Meter → Prop}
    (h : SafeP x m (fun a m' => SafeP (f a) m' Q)) : SafeP (x >>= f) m Q := by
  unfold SafeP at *
  simp only [Bind.bind, StateT.bind]
  cases hx : x m with
  | ok r =>
    obtain ⟨a, m'⟩ := r
    rw [hx] at h
    simpa [Except.bind] using h
  | error e => rw [hx] at h; cases e <;> simp_all [Except.bind]

theorem SafeP.sliceFrom {site : String} {b : Bytes} {lo : Nat} {m : Meter} {Q : Bytes → Meter → Prop}
    (h1 : lo ≤ b.length) (h2 : Q (b.drop lo) m) : SafeP (sliceFromG site b lo) m Q := by
  simpa [SafeP, sliceFromG, h1, Pure.pure, StateT.pure, Except.pure] using h2

theorem SafeP.sliceTo {site : String} {b : Bytes} {hi : Nat} {m : Meter} {Q : Bytes → Meter → Prop}
    (h1 : hi ≤ b.length) (h2 : Q (b.take hi) m) : SafeP (sliceToG site b hi) m Q := by
  simpa [SafeP, sliceToG, h1, Pure.pure, StateT.pure, Except.pure] using h2

theorem SafeP.slice {site : String} {b : Bytes} {lo hi : Nat} {m : Meter} {Q : Bytes → Meter → Prop}
    (h1 : lo ≤ hi ∧ hi ≤ b.length) (h2 : Q ((b.drop lo).take (hi - lo)) m) : SafeP (sliceG site b lo hi) m Q := by
  simpa [SafeP, sliceG, h1, Pure.pure, StateT.pure, Except.pure] using h2

theorem SafeP.index {site : String} {b : Bytes} {i : Nat} {m : Meter} {Q : UInt8 → Meter → Prop}
    (h1 : i < b.length) (h2 : Q b[i] m) : SafeP (indexG site b i) m Q := by
  have : b[i]? = some b[i] := List.getElem?_eq_getElem h1
  simpa [SafeP, indexG, this, Pure.pure, StateT.pure, Except.pure] using h2

/-- `binary.Read`: either an error, or exactly `n` bytes were there -/
theorem SafeP.binaryRead {r : Bytes} {n : Nat} {m : Meter} {Q : Bytes × Bytes → Meter → Prop}
    (h : n ≤ r.length → Q (r.take n, r.drop n) m) : SafeP (binaryReadG r n) m Q := by
  by_cases hn : n ≤ r.length
  · simpa [SafeP, binaryReadG, hn, Pure.pure, StateT.pure, Except.pure] using h hn
  · simp [SafeP, binaryReadG, hn, GoM.err]

theorem SafeP.alloc {site : String} {B n s : Nat} {m : Meter} {Q : Unit → Meter → Prop}
    (h1 : m.alloc + n * s ≤ B) (h2 : Q () { m with alloc := m.alloc + n * s }) :
    SafeP (allocB site B n s) m Q := by
  simpa [SafeP, allocB, h1] using h2

theorem SafeP.ite {α} {c : Prop} [Decidable c] {x y : GoM α} {m : Meter} {Q : α → Meter → Prop}
    (h1 : c → SafeP x m Q) (h2 : ¬c → SafeP y m Q) : SafeP (if c then x else y) m Q := by
  split
  · exact h1 ‹_›
  · exact h2 ‹_›

/-- Bool-conditioned variant (`if b then … else …` with `b : Bool`) -/
theorem SafeP.cond {α} {c : Bool} {x y : GoM α} {m : Meter} {Q : α → Meter → Prop}
    (h1 : c = true → SafeP x m Q) (h2 : c = false → SafeP y m Q) :
    SafeP (if c then x else y) m Q := by
  cases c
  · simpa using h2 rfl
  · simpa using h1 rfl

theorem SafeP.of_eq {α} {x y : GoM α} {m : Meter} {Q : α → Meter → Prop} (e : x = y) (h : SafeP y m Q) :
    SafeP x m Q := e ▸ h

/-! ### the same triple with a postcondition for the error exit (refinement proofs) -/

/-- value satisfying `Q`, or an ordinary error *and then `E` holds* -/
def SafePE {α} (x : GoM α) (m : Meter) (Q : α → Meter → Prop) (E : Prop) : Prop :=
  match x m with
  | .ok (a, m') => Q a m'
  | .error .err => E
  | .error (.panic _) => False
  | .error .fuel => False

theorem SafePE.mono {α} {x : GoM α} {m : Meter} {Q Q' : α → Meter → Prop} {E E' : Prop} (h : SafePE x m Q E)
    (hq : ∀ a m', Q a m' → Q' a m') (he : E → E') : SafePE x m Q' E' := by
  unfold SafePE at *
  cases hx : x m with
  | ok r => obtain ⟨a, m'⟩ := r; rw [hx] at h; exact hq a m' h
  | error e => rw [hx] at h; cases e <;> simp_all

theorem SafePE.pure {α} {a : α} {m : Meter} {Q : α → Meter → Prop} {E : Prop} (h : Q a m) :
    SafePE (Pure.pure a : GoM α) m Q E := by
  simpa [SafePE, Pure.pure, StateT.pure, Except.pure] using h

theorem SafePE.err {α} {m : Meter} {Q : α → Meter → Prop} {E : Prop} (h : E) : SafePE (GoM.err : GoM α) m Q E := by
  simpa [SafePE, GoM.err] using h

theorem SafePE.bind {α β} {x : GoM α} {f : α → GoM β} {m : Meter} {Q : β → Meter → Prop} {E : Prop}
    (h : SafePE x m (fun a m' => SafePE (f a) m' Q E) E) : SafePE (x >>= f) m Q E := by
  unfold SafePE at *
  simp only [Bind.bind, StateT.bind]
  cases hx : x m with
  | ok r =>
    obtain ⟨a, m'⟩ := r
    rw [hx] at h
    simpa [Except.bind] using h
  | error e => rw [hx] at h; cases e <;> simp_all [Except.bind]

theorem SafePE.sliceFrom {site : String} {b : Bytes} {lo : Nat} {m : Meter} {Q : Bytes → Meter → Prop} {E : Prop}
    (h1 : lo ≤ b.length) (h2 : Q (b.drop lo) m) : SafePE (sliceFromG site b lo) m Q E := by
  simpa [SafePE, sliceFromG, h1, Pure.pure, StateT.pure, Except.pure] using h2

theorem SafePE.binaryRead {r : Bytes} {n : Nat} {m : Meter} {Q : Bytes × Bytes → Meter → Prop} {E : Prop}
    (h : n ≤ r.length → Q (r.take n, r.drop n) m) (he : ¬ n ≤ r.length → E) : SafePE (binaryReadG r n) m Q E := by
  by_cases hn : n ≤ r.length
  · simpa [SafePE, binaryReadG, hn, Pure.pure, StateT.pure, Except.pure] using h hn
  · simpa [SafePE, binaryReadG, hn, GoM.err] using he hn

theorem SafePE.alloc {site : String} {B n s : Nat} {m : Meter} {Q : Unit → Meter → Prop} {E : Prop}
    (h1 : m.alloc + n * s ≤ B) (h2 : Q () { m with alloc := m.alloc + n * s }) :
    SafePE (allocB site B n s) m Q E := by
  simpa [SafePE, allocB, h1] using h2

theorem SafePE.ite {α} {c : Prop} [Decidable c] {x y : GoM α} {m : Meter} {Q : α → Meter → Prop} {E : Prop}
    (h1 : c → SafePE x m Q E) (h2 : ¬c → SafePE y m Q E) : SafePE (if c then x else y) m Q E := by
  split
  · exact h1 ‹_›
  · exact h2 ‹_›

theorem SafePE.cond {α} {c : Bool} {x y : GoM α} {m : Meter} {Q : α → Meter → Prop} {E : Prop}
    (h1 : c = true → SafePE x m Q E) (h2 : c = false → SafePE y m Q E) :
    SafePE (if c then x else y) m Q E := by
  cases c
  · simpa using h2 rfl
  · simpa using h1 rfl

/-! ### consecutive `binary.Read`s of fixed-size fields -/

/-- reads the fields one after the other; returns their concatenation and the rest -/
def readFieldsG : List Nat → Bytes → Bytes → GoM (Bytes × Bytes)
  | [], r, acc => Pure.pure (acc, r)
  | n :: ns, r, acc => do
    let (b, r') ← binaryReadG r n
    readFieldsG ns r' (acc ++ b)

theorem readFieldsG_spec (ns : List Nat) (r acc : Bytes) (m : Meter) :
    SafeP (readFieldsG ns r acc) m (fun p m' => p.2.length ≤ r.length ∧ m' = m) := by
  induction ns generalizing r acc with
  | nil => exact SafeP.pure ⟨Nat.le_refl _, rfl⟩
  | cons n ns ih =>
    unfold readFieldsG
    apply SafeP.bind; apply SafeP.binaryRead; intro _
    apply SafeP.mono (ih _ _)
    intro p m' h
    refine ⟨?_, h.2⟩
    have : (List.drop n r).length ≤ r.length := by simp
    omega

/-! ### little-endian fields of a fixed-size record -/

/-- the `k`-byte little-endian field at offset `o` of a record already read with `binaryReadG` -/
def fieldLE (b : Bytes) (o k : Nat) : Nat := fromLE (slice b o k)

theorem fieldLE_lt (b : Bytes) (o k : Nat) : fieldLE b o k < 256 ^ k := by
  unfold fieldLE
  have h := fromLE_lt (slice b o k)
  have hl : (slice b o k).length ≤ k := by simp [slice]; omega
  exact Nat.lt_of_lt_of_le h (Nat.pow_le_pow_right (by decide) hl)

theorem fieldLE4_lt (b : Bytes) (o : Nat) : fieldLE b o 4 < 4294967296 := by
  have := fieldLE_lt b o 4; simpa using this

theorem fieldLE2_lt (b : Bytes) (o : Nat) : fieldLE b o 2 < 65536 := by
  have := fieldLE_lt b o 2; simpa using this

theorem fieldLE8_lt (b : Bytes) (o : Nat) : fieldLE b o 8 < 18446744073709551616 := by
  have := fieldLE_lt b o 8; simpa using this

theorem fieldLE3_lt (b : Bytes) (o : Nat) : fieldLE b o 3 < 16777216 := by
  have := fieldLE_lt b o 3; simpa using this

end GoM
end Fiano
